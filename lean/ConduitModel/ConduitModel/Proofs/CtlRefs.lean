import ConduitModel.Proofs.CtlStore

/-!
Reference consistency as an inductive invariant (C14 "memory = store = references").

`MInv n m` bundles what every successful effect of every operation preserves: `NamesOk`, name
uniqueness, `Refs`, `WF` and `Below n` (ids at or above `n` unused and unreferenced).
Transfer lemmas (`…_shape`) cover every field-only update at once; the structural effects
(insert / remove a pipeline, attach / detach a connector or processor) are proved one by one.
-/
namespace Conduit.Ctl

/-- ids at or above `n` are unused and unreferenced (`Fresh` on the memory part). -/
structure Below (n : Nat) (m : Mem) : Prop where
  pls : ∀ id, n ≤ id → m.pls id = none
  cns : ∀ id, n ≤ id → m.cns id = none
  prs : ∀ id, n ≤ id → m.prs id = none
  plC : ∀ pid p cid, m.pls pid = some p → cid ∈ p.conns → cid < n
  plR : ∀ pid p rid, m.pls pid = some p → rid ∈ p.procs → rid < n
  cnR : ∀ cid c rid, m.cns cid = some c → rid ∈ c.procs → rid < n

theorem fresh_iff_below (s : St) : Fresh s ↔ Below s.next s.mem :=
  ⟨fun h => ⟨h.pls, h.cns, h.prs, h.plC, h.plR, h.cnR⟩, fun h => ⟨h.pls, h.cns, h.prs, h.plC, h.plR, h.cnR⟩⟩

theorem Below.mono {n k : Nat} {m : Mem} (h : Below n m) (hk : n ≤ k) : Below k m :=
  ⟨fun id hi => h.pls id (Nat.le_trans hk hi), fun id hi => h.cns id (Nat.le_trans hk hi),
   fun id hi => h.prs id (Nat.le_trans hk hi),
   fun a b c d e => Nat.lt_of_lt_of_le (h.plC a b c d e) hk, fun a b c d e => Nat.lt_of_lt_of_le (h.plR a b c d e) hk,
   fun a b c d e => Nat.lt_of_lt_of_le (h.cnR a b c d e) hk⟩

/-! ## transfer along field-only changes -/

/-- `m'` has the same reference shape as `m`: same keys; per pipeline the same lists, per
connector the same type / pipeline / list, per processor the same parent and plugin-emptiness. -/
structure RefShape (m m' : Mem) : Prop where
  pl : ∀ id, (m'.pls id).map (fun p => (p.conns, p.procs)) = (m.pls id).map (fun p => (p.conns, p.procs))
  cn : ∀ id, (m'.cns id).map (fun c => (c.typ, c.pipeline, c.procs)) = (m.cns id).map (fun c => (c.typ, c.pipeline, c.procs))
  pr : ∀ id, (m'.prs id).map (fun r => (decide (r.plugin = 0), r.ptype, r.parent)) =
             (m.prs id).map (fun r => (decide (r.plugin = 0), r.ptype, r.parent))

theorem RefShape.symm {m m' : Mem} (h : RefShape m m') : RefShape m' m :=
  ⟨fun id => (h.pl id).symm, fun id => (h.cn id).symm, fun id => (h.pr id).symm⟩

theorem RefShape.pl' {m m' : Mem} (h : RefShape m m') {id : Id} {p' : Pl} (hp : m'.pls id = some p') :
    ∃ p, m.pls id = some p ∧ p.conns = p'.conns ∧ p.procs = p'.procs := by
  have := h.pl id
  rw [hp] at this
  cases hm : m.pls id with
  | none => rw [hm] at this; simp at this
  | some p => rw [hm] at this; simp at this; exact ⟨p, rfl, this.1.symm, this.2.symm⟩

theorem RefShape.cn' {m m' : Mem} (h : RefShape m m') {id : Id} {c' : Cn} (hc : m'.cns id = some c') :
    ∃ c, m.cns id = some c ∧ c.typ = c'.typ ∧ c.pipeline = c'.pipeline ∧ c.procs = c'.procs := by
  have := h.cn id
  rw [hc] at this
  cases hm : m.cns id with
  | none => rw [hm] at this; simp at this
  | some c => rw [hm] at this; simp at this; exact ⟨c, rfl, this.1.symm, this.2.1.symm, this.2.2.symm⟩

theorem RefShape.pr' {m m' : Mem} (h : RefShape m m') {id : Id} {r' : Pr} (hr : m'.prs id = some r') :
    ∃ r, m.prs id = some r ∧ (r.plugin = 0 ↔ r'.plugin = 0) ∧ r.ptype = r'.ptype ∧ r.parent = r'.parent := by
  have := h.pr id
  rw [hr] at this
  cases hm : m.prs id with
  | none => rw [hm] at this; simp at this
  | some r =>
    rw [hm] at this; simp at this
    exact ⟨r, rfl, ⟨fun a => this.1.2 a, fun a => this.1.1 a⟩, this.2.1.symm, this.2.2.symm⟩

theorem refs_shape {m m' : Mem} (hs : RefShape m m') (h : Refs m) : Refs m' := by
  have hs' := hs.symm
  constructor
  · intro pid p' cid hp hin
    obtain ⟨p, hp0, e1, _⟩ := hs.pl' hp
    obtain ⟨c, hc, hcp⟩ := h.plConn pid p cid hp0 (e1 ▸ hin)
    obtain ⟨c', hc', _, e3, _⟩ := hs'.cn' hc
    exact ⟨c', hc', by rw [e3]; exact hcp⟩
  · intro cid c' hc
    obtain ⟨c, hc0, _, e2, _⟩ := hs.cn' hc
    obtain ⟨p, hp, hin⟩ := h.connPl cid c hc0
    obtain ⟨p', hp', e1, _⟩ := hs'.pl' hp
    exact ⟨p', by rw [← e2]; exact hp', e1 ▸ hin⟩
  · intro pid p' rid hp hin
    obtain ⟨p, hp0, _, e2⟩ := hs.pl' hp
    obtain ⟨r, hr, ht, hpar⟩ := h.plProc pid p rid hp0 (e2 ▸ hin)
    obtain ⟨r', hr', _, e3, e4⟩ := hs'.pr' hr
    exact ⟨r', hr', by rw [e3]; exact ht, by rw [e4]; exact hpar⟩
  · intro cid c' rid hc hin
    obtain ⟨c, hc0, _, _, e3⟩ := hs.cn' hc
    obtain ⟨r, hr, ht, hpar⟩ := h.cnProc cid c rid hc0 (e3 ▸ hin)
    obtain ⟨r', hr', _, e4, e5⟩ := hs'.pr' hr
    exact ⟨r', hr', by rw [e4]; exact ht, by rw [e5]; exact hpar⟩
  · intro rid r' hr
    obtain ⟨r, hr0, _, e2, e3⟩ := hs.pr' hr
    rcases h.procPar rid r hr0 with ⟨ht, p, hp, hin⟩ | ⟨ht, c, hc, hin⟩
    · obtain ⟨p', hp', _, e5⟩ := hs'.pl' hp
      exact Or.inl ⟨by rw [← e2]; exact ht, p', by rw [← e3]; exact hp', e5 ▸ hin⟩
    · obtain ⟨c', hc', _, _, e6⟩ := hs'.cn' hc
      exact Or.inr ⟨by rw [← e2]; exact ht, c', by rw [← e3]; exact hc', e6 ▸ hin⟩
  · intro pid p' hp
    obtain ⟨p, hp0, e1, _⟩ := hs.pl' hp
    exact e1 ▸ h.plNodupC pid p hp0
  · intro pid p' hp
    obtain ⟨p, hp0, _, e2⟩ := hs.pl' hp
    exact e2 ▸ h.plNodupR pid p hp0
  · intro cid c' hc
    obtain ⟨c, hc0, _, _, e3⟩ := hs.cn' hc
    exact e3 ▸ h.cnNodupR cid c hc0

theorem wf_shape {m m' : Mem} (hs : RefShape m m') (h : WF m) : WF m' := by
  constructor
  · intro id c' hc
    obtain ⟨c, hc0, e1, _, _⟩ := hs.cn' hc
    exact e1 ▸ h.cnTyp id c hc0
  · intro id r' hr
    obtain ⟨r, hr0, e1, _, _⟩ := hs.pr' hr
    exact fun e => h.prPlg id r hr0 (e1.2 e)

theorem below_shape {n : Nat} {m m' : Mem} (hs : RefShape m m') (h : Below n m) : Below n m' := by
  constructor
  · intro id hi
    cases hp : m'.pls id with
    | none => rfl
    | some p' => obtain ⟨p, hp0, _⟩ := hs.pl' hp; rw [h.pls id hi] at hp0; cases hp0
  · intro id hi
    cases hc : m'.cns id with
    | none => rfl
    | some c' => obtain ⟨c, hc0, _⟩ := hs.cn' hc; rw [h.cns id hi] at hc0; cases hc0
  · intro id hi
    cases hr : m'.prs id with
    | none => rfl
    | some r' => obtain ⟨r, hr0, _⟩ := hs.pr' hr; rw [h.prs id hi] at hr0; cases hr0
  · intro pid p' cid hp hin
    obtain ⟨p, hp0, e1, _⟩ := hs.pl' hp
    exact h.plC pid p cid hp0 (e1 ▸ hin)
  · intro pid p' rid hp hin
    obtain ⟨p, hp0, _, e2⟩ := hs.pl' hp
    exact h.plR pid p rid hp0 (e2 ▸ hin)
  · intro cid c' rid hc hin
    obtain ⟨c, hc0, _, _, e3⟩ := hs.cn' hc
    exact h.cnR cid c rid hc0 (e3 ▸ hin)

/-- same pipeline names and the same name set. -/
structure NameShape (m m' : Mem) : Prop where
  pl : ∀ id, (m'.pls id).map (·.name) = (m.pls id).map (·.name)
  names : m'.names = m.names

theorem NameShape.pl' {m m' : Mem} (h : NameShape m m') {id : Id} {p' : Pl} (hp : m'.pls id = some p') :
    ∃ p, m.pls id = some p ∧ p.name = p'.name := by
  have := h.pl id
  rw [hp] at this
  cases hm : m.pls id with
  | none => rw [hm] at this; simp at this
  | some p => rw [hm] at this; simp at this; exact ⟨p, rfl, this.symm⟩

theorem NameShape.symm {m m' : Mem} (h : NameShape m m') : NameShape m' m :=
  ⟨fun id => (h.pl id).symm, h.names.symm⟩

theorem names_shape {m m' : Mem} (hs : NameShape m m') (h : NamesOk m) : NamesOk m' := by
  intro n
  rw [hs.names, h n]
  constructor
  · rintro ⟨id, p, hp, hn⟩
    obtain ⟨p', hp', e⟩ := hs.symm.pl' hp
    exact ⟨id, p', hp', by rw [e]; exact hn⟩
  · rintro ⟨id, p', hp, hn⟩
    obtain ⟨p, hp0, e⟩ := hs.pl' hp
    exact ⟨id, p, hp0, by rw [e]; exact hn⟩

theorem uniq_shape {m m' : Mem} (hs : NameShape m m') (h : NameUniq m) : NameUniq m' := by
  intro i j p' q' hp hq hn
  obtain ⟨p, hp0, e1⟩ := hs.pl' hp
  obtain ⟨q, hq0, e2⟩ := hs.pl' hq
  exact h i j p q hp0 hq0 (by rw [e1, e2]; exact hn)

/-! ## structural effects -/

theorem set_ne {α} (m : Map α) (k j : Id) (v : α) (h : j ≠ k) : m.set k v j = m j := by simp [Map.set, h]
theorem set_eq {α} (m : Map α) (k : Id) (v : α) : m.set k v k = some v := by simp [Map.set]
theorem del_ne {α} (m : Map α) (k j : Id) (h : j ≠ k) : m.del k j = m j := by simp [Map.del, h]
theorem del_eq {α} (m : Map α) (k : Id) : m.del k k = none := by simp [Map.del]

/-- attach a new connector `id` (no processors) to pipeline `pid`. -/
theorem refs_addCn (m m' : Mem) (h : Refs m) (id pid : Id) (p : Pl) (c : Cn) (hp : m.pls pid = some p)
    (hc : m.cns id = none) (hcp : c.pipeline = pid) (hcr : c.procs = [])
    (hnew : ∀ q pq, m.pls q = some pq → id ∉ pq.conns)
    (hpls : m'.pls = m.pls.set pid { p with conns := p.conns ++ [id] })
    (hcns : m'.cns = m.cns.set id c) (hprs : m'.prs = m.prs) : Refs m' := by
  have cne : ∀ cid c0, m.cns cid = some c0 → cid ≠ id := fun cid c0 h0 e => by rw [e, hc] at h0; cases h0
  have cget : ∀ cid c0, m.cns cid = some c0 → m'.cns cid = some c0 := fun cid c0 h0 => by
    rw [hcns, set_ne _ _ _ _ (cne cid c0 h0)]; exact h0
  have pget : ∀ q pq, q ≠ pid → m.pls q = some pq → m'.pls q = some pq := fun q pq e h0 => by
    rw [hpls, set_ne _ _ _ _ e]; exact h0
  have pnew : m'.pls pid = some { p with conns := p.conns ++ [id] } := by rw [hpls, set_eq]
  constructor
  · intro q pq cid hq hin
    by_cases e : q = pid
    · subst e; rw [pnew] at hq; cases hq
      rcases List.mem_append.1 hin with hin | hin
      · obtain ⟨c0, hc0, hcp0⟩ := h.plConn q p cid hp hin
        exact ⟨c0, cget cid c0 hc0, hcp0⟩
      · have : cid = id := by simpa using hin
        subst this; exact ⟨c, by rw [hcns, set_eq], hcp⟩
    · rw [hpls, set_ne _ _ _ _ e] at hq
      obtain ⟨c0, hc0, hcp0⟩ := h.plConn q pq cid hq hin
      exact ⟨c0, cget cid c0 hc0, hcp0⟩
  · intro cid c0 hc0
    by_cases e : cid = id
    · subst e; rw [hcns, set_eq] at hc0; cases hc0
      exact ⟨_, by rw [hcp]; exact pnew, by simp⟩
    · rw [hcns, set_ne _ _ _ _ e] at hc0
      obtain ⟨p0, hp0, hin⟩ := h.connPl cid c0 hc0
      by_cases e2 : c0.pipeline = pid
      · rw [e2] at hp0; rw [hp] at hp0; cases hp0
        exact ⟨_, by rw [e2]; exact pnew, by simp [hin]⟩
      · exact ⟨p0, pget _ _ e2 hp0, hin⟩
  · intro q pq rid hq hin
    rw [hprs]
    by_cases e : q = pid
    · subst e; rw [pnew] at hq; cases hq
      exact h.plProc q p rid hp hin
    · rw [hpls, set_ne _ _ _ _ e] at hq; exact h.plProc q pq rid hq hin
  · intro cid c0 rid hc0 hin
    rw [hprs]
    by_cases e : cid = id
    · subst e; rw [hcns, set_eq] at hc0; cases hc0; rw [hcr] at hin; cases hin
    · rw [hcns, set_ne _ _ _ _ e] at hc0; exact h.cnProc cid c0 rid hc0 hin
  · intro rid r hr
    rw [hprs] at hr
    rcases h.procPar rid r hr with ⟨ht, p0, hp0, hin⟩ | ⟨ht, c0, hc0, hin⟩
    · by_cases e : r.parent = pid
      · rw [e] at hp0; rw [hp] at hp0; cases hp0
        exact Or.inl ⟨ht, { p with conns := p.conns ++ [id] }, by rw [e]; exact pnew, hin⟩
      · exact Or.inl ⟨ht, p0, pget _ _ e hp0, hin⟩
    · exact Or.inr ⟨ht, c0, cget _ c0 hc0, hin⟩
  · intro q pq hq
    by_cases e : q = pid
    · subst e; rw [pnew] at hq; cases hq
      exact List.nodup_append.2 ⟨h.plNodupC q p hp, by simp, by
        intro a ha b hb; have : b = id := by simpa using hb
        subst this; intro e; subst e; exact hnew q p hp ha⟩
    · rw [hpls, set_ne _ _ _ _ e] at hq; exact h.plNodupC q pq hq
  · intro q pq hq
    by_cases e : q = pid
    · subst e; rw [pnew] at hq; cases hq; exact h.plNodupR q p hp
    · rw [hpls, set_ne _ _ _ _ e] at hq; exact h.plNodupR q pq hq
  · intro cid c0 hc0
    by_cases e : cid = id
    · subst e; rw [hcns, set_eq] at hc0; cases hc0; rw [hcr]; exact List.nodup_nil
    · rw [hcns, set_ne _ _ _ _ e] at hc0; exact h.cnNodupR cid c0 hc0

/-- detach connector `id` (no processors) from its pipeline `pid` and delete it. -/
theorem refs_remCn (m m' : Mem) (h : Refs m) (id pid : Id) (p : Pl) (c : Cn) (hp : m.pls pid = some p)
    (hc : m.cns id = some c) (hcp : c.pipeline = pid) (hcr : c.procs = [])
    (hpls : m'.pls = m.pls.set pid { p with conns := p.conns.erase id })
    (hcns : m'.cns = m.cns.del id) (hprs : m'.prs = m.prs) : Refs m' := by
  have cget : ∀ cid c0, cid ≠ id → m.cns cid = some c0 → m'.cns cid = some c0 := fun cid c0 e h0 => by
    rw [hcns, del_ne _ _ _ e]; exact h0
  have cold : ∀ cid c0, m'.cns cid = some c0 → cid ≠ id ∧ m.cns cid = some c0 := fun cid c0 h0 => by
    by_cases e : cid = id
    · subst e; rw [hcns, del_eq] at h0; cases h0
    · rw [hcns, del_ne _ _ _ e] at h0; exact ⟨e, h0⟩
  have pget : ∀ q pq, q ≠ pid → m.pls q = some pq → m'.pls q = some pq := fun q pq e h0 => by
    rw [hpls, set_ne _ _ _ _ e]; exact h0
  have pnew : m'.pls pid = some { p with conns := p.conns.erase id } := by rw [hpls, set_eq]
  have hnd := h.plNodupC pid p hp
  constructor
  · intro q pq cid hq hin
    by_cases e : q = pid
    · subst e; rw [pnew] at hq; cases hq
      have hm := (List.Nodup.mem_erase_iff hnd).1 hin
      obtain ⟨c0, hc0, hcp0⟩ := h.plConn q p cid hp hm.2
      exact ⟨c0, cget cid c0 hm.1 hc0, hcp0⟩
    · rw [hpls, set_ne _ _ _ _ e] at hq
      obtain ⟨c0, hc0, hcp0⟩ := h.plConn q pq cid hq hin
      have : cid ≠ id := by
        intro e2; subst e2; rw [hc] at hc0; cases hc0; exact e (hcp0.symm.trans hcp)
      exact ⟨c0, cget cid c0 this hc0, hcp0⟩
  · intro cid c0 hc0
    obtain ⟨e, hc0⟩ := cold cid c0 hc0
    obtain ⟨p0, hp0, hin⟩ := h.connPl cid c0 hc0
    by_cases e2 : c0.pipeline = pid
    · rw [e2] at hp0; rw [hp] at hp0; cases hp0
      exact ⟨{ p with conns := p.conns.erase id }, by rw [e2]; exact pnew, (List.mem_erase_of_ne e).2 hin⟩
    · exact ⟨p0, pget _ _ e2 hp0, hin⟩
  · intro q pq rid hq hin
    rw [hprs]
    by_cases e : q = pid
    · subst e; rw [pnew] at hq; cases hq; exact h.plProc q p rid hp hin
    · rw [hpls, set_ne _ _ _ _ e] at hq; exact h.plProc q pq rid hq hin
  · intro cid c0 rid hc0 hin
    rw [hprs]
    exact h.cnProc cid c0 rid (cold cid c0 hc0).2 hin
  · intro rid r hr
    rw [hprs] at hr
    rcases h.procPar rid r hr with ⟨ht, p0, hp0, hin⟩ | ⟨ht, c0, hc0, hin⟩
    · by_cases e : r.parent = pid
      · rw [e] at hp0; rw [hp] at hp0; cases hp0
        exact Or.inl ⟨ht, { p with conns := p.conns.erase id }, by rw [e]; exact pnew, hin⟩
      · exact Or.inl ⟨ht, p0, pget _ _ e hp0, hin⟩
    · have : r.parent ≠ id := by
        intro e; rw [e, hc] at hc0; cases hc0; rw [hcr] at hin; cases hin
      exact Or.inr ⟨ht, c0, cget _ c0 this hc0, hin⟩
  · intro q pq hq
    by_cases e : q = pid
    · subst e; rw [pnew] at hq; cases hq; exact hnd.erase id
    · rw [hpls, set_ne _ _ _ _ e] at hq; exact h.plNodupC q pq hq
  · intro q pq hq
    by_cases e : q = pid
    · subst e; rw [pnew] at hq; cases hq; exact h.plNodupR q p hp
    · rw [hpls, set_ne _ _ _ _ e] at hq; exact h.plNodupR q pq hq
  · intro cid c0 hc0
    exact h.cnNodupR cid c0 (cold cid c0 hc0).2

/-- attach a new processor `id` to pipeline `pid`. -/
theorem refs_addPrPl (m m' : Mem) (h : Refs m) (id pid : Id) (p : Pl) (r : Pr) (hp : m.pls pid = some p)
    (hr : m.prs id = none) (hrt : r.ptype = 2) (hrp : r.parent = pid)
    (hnew : ∀ q pq, m.pls q = some pq → id ∉ pq.procs)
    (hpls : m'.pls = m.pls.set pid { p with procs := p.procs ++ [id] })
    (hcns : m'.cns = m.cns) (hprs : m'.prs = m.prs.set id r) : Refs m' := by
  have rne : ∀ rid r0, m.prs rid = some r0 → rid ≠ id := fun rid r0 h0 e => by rw [e, hr] at h0; cases h0
  have rget : ∀ rid r0, m.prs rid = some r0 → m'.prs rid = some r0 := fun rid r0 h0 => by
    rw [hprs, set_ne _ _ _ _ (rne rid r0 h0)]; exact h0
  have pget : ∀ q pq, q ≠ pid → m.pls q = some pq → m'.pls q = some pq := fun q pq e h0 => by
    rw [hpls, set_ne _ _ _ _ e]; exact h0
  have pnew : m'.pls pid = some { p with procs := p.procs ++ [id] } := by rw [hpls, set_eq]
  constructor
  · intro q pq cid hq hin
    rw [hcns]
    by_cases e : q = pid
    · subst e; rw [pnew] at hq; cases hq; exact h.plConn q p cid hp hin
    · rw [hpls, set_ne _ _ _ _ e] at hq; exact h.plConn q pq cid hq hin
  · intro cid c0 hc0
    rw [hcns] at hc0
    obtain ⟨p0, hp0, hin⟩ := h.connPl cid c0 hc0
    by_cases e2 : c0.pipeline = pid
    · rw [e2] at hp0; rw [hp] at hp0; cases hp0
      exact ⟨{ p with procs := p.procs ++ [id] }, by rw [e2]; exact pnew, hin⟩
    · exact ⟨p0, pget _ _ e2 hp0, hin⟩
  · intro q pq rid hq hin
    by_cases e : q = pid
    · subst e; rw [pnew] at hq; cases hq
      rcases List.mem_append.1 hin with hin | hin
      · obtain ⟨r0, hr0, a, b⟩ := h.plProc q p rid hp hin
        exact ⟨r0, rget rid r0 hr0, a, b⟩
      · have : rid = id := by simpa using hin
        subst this; exact ⟨r, by rw [hprs, set_eq], hrt, hrp⟩
    · rw [hpls, set_ne _ _ _ _ e] at hq
      obtain ⟨r0, hr0, a, b⟩ := h.plProc q pq rid hq hin
      exact ⟨r0, rget rid r0 hr0, a, b⟩
  · intro cid c0 rid hc0 hin
    rw [hcns] at hc0
    obtain ⟨r0, hr0, a, b⟩ := h.cnProc cid c0 rid hc0 hin
    exact ⟨r0, rget rid r0 hr0, a, b⟩
  · intro rid r0 hr0
    by_cases e : rid = id
    · subst e; rw [hprs, set_eq] at hr0; cases hr0
      exact Or.inl ⟨hrt, { p with procs := p.procs ++ [rid] }, by rw [hrp]; exact pnew, by simp⟩
    · rw [hprs, set_ne _ _ _ _ e] at hr0
      rcases h.procPar rid r0 hr0 with ⟨ht, p0, hp0, hin⟩ | ⟨ht, c0, hc0, hin⟩
      · by_cases e2 : r0.parent = pid
        · rw [e2] at hp0; rw [hp] at hp0; cases hp0
          exact Or.inl ⟨ht, { p with procs := p.procs ++ [id] }, by rw [e2]; exact pnew, by simp [hin]⟩
        · exact Or.inl ⟨ht, p0, pget _ _ e2 hp0, hin⟩
      · exact Or.inr ⟨ht, c0, by rw [hcns]; exact hc0, hin⟩
  · intro q pq hq
    by_cases e : q = pid
    · subst e; rw [pnew] at hq; cases hq; exact h.plNodupC q p hp
    · rw [hpls, set_ne _ _ _ _ e] at hq; exact h.plNodupC q pq hq
  · intro q pq hq
    by_cases e : q = pid
    · subst e; rw [pnew] at hq; cases hq
      exact List.nodup_append.2 ⟨h.plNodupR q p hp, by simp, by
        intro a ha b hb; have : b = id := by simpa using hb
        subst this; intro e; subst e; exact hnew q p hp ha⟩
    · rw [hpls, set_ne _ _ _ _ e] at hq; exact h.plNodupR q pq hq
  · intro cid c0 hc0
    rw [hcns] at hc0; exact h.cnNodupR cid c0 hc0

/-- attach a new processor `id` to connector `cid0`. -/
theorem refs_addPrCn (m m' : Mem) (h : Refs m) (id cid0 : Id) (c : Cn) (r : Pr) (hc : m.cns cid0 = some c)
    (hr : m.prs id = none) (hrt : r.ptype = 1) (hrp : r.parent = cid0)
    (hnew : ∀ q cq, m.cns q = some cq → id ∉ cq.procs)
    (hpls : m'.pls = m.pls) (hcns : m'.cns = m.cns.set cid0 { c with procs := c.procs ++ [id] })
    (hprs : m'.prs = m.prs.set id r) : Refs m' := by
  have rne : ∀ rid r0, m.prs rid = some r0 → rid ≠ id := fun rid r0 h0 e => by rw [e, hr] at h0; cases h0
  have rget : ∀ rid r0, m.prs rid = some r0 → m'.prs rid = some r0 := fun rid r0 h0 => by
    rw [hprs, set_ne _ _ _ _ (rne rid r0 h0)]; exact h0
  have cget : ∀ q cq, q ≠ cid0 → m.cns q = some cq → m'.cns q = some cq := fun q cq e h0 => by
    rw [hcns, set_ne _ _ _ _ e]; exact h0
  have cnew : m'.cns cid0 = some { c with procs := c.procs ++ [id] } := by rw [hcns, set_eq]
  constructor
  · intro q pq cid hq hin
    rw [hpls] at hq
    obtain ⟨c0, hc0, hcp0⟩ := h.plConn q pq cid hq hin
    by_cases e : cid = cid0
    · subst e; rw [hc] at hc0; cases hc0
      exact ⟨{ c with procs := c.procs ++ [id] }, cnew, hcp0⟩
    · exact ⟨c0, cget _ _ e hc0, hcp0⟩
  · intro cid c0 hc0
    rw [hpls]
    by_cases e : cid = cid0
    · subst e; rw [cnew] at hc0; cases hc0; exact h.connPl cid c hc
    · rw [hcns, set_ne _ _ _ _ e] at hc0; exact h.connPl cid c0 hc0
  · intro q pq rid hq hin
    rw [hpls] at hq
    obtain ⟨r0, hr0, a, b⟩ := h.plProc q pq rid hq hin
    exact ⟨r0, rget rid r0 hr0, a, b⟩
  · intro cid c0 rid hc0 hin
    by_cases e : cid = cid0
    · subst e; rw [cnew] at hc0; cases hc0
      rcases List.mem_append.1 hin with hin | hin
      · obtain ⟨r0, hr0, a, b⟩ := h.cnProc cid c rid hc hin
        exact ⟨r0, rget rid r0 hr0, a, b⟩
      · have : rid = id := by simpa using hin
        subst this; exact ⟨r, by rw [hprs, set_eq], hrt, hrp⟩
    · rw [hcns, set_ne _ _ _ _ e] at hc0
      obtain ⟨r0, hr0, a, b⟩ := h.cnProc cid c0 rid hc0 hin
      exact ⟨r0, rget rid r0 hr0, a, b⟩
  · intro rid r0 hr0
    by_cases e : rid = id
    · subst e; rw [hprs, set_eq] at hr0; cases hr0
      exact Or.inr ⟨hrt, { c with procs := c.procs ++ [rid] }, by rw [hrp]; exact cnew, by simp⟩
    · rw [hprs, set_ne _ _ _ _ e] at hr0
      rcases h.procPar rid r0 hr0 with ⟨ht, p0, hp0, hin⟩ | ⟨ht, c0, hc0, hin⟩
      · exact Or.inl ⟨ht, p0, by rw [hpls]; exact hp0, hin⟩
      · by_cases e2 : r0.parent = cid0
        · rw [e2] at hc0; rw [hc] at hc0; cases hc0
          exact Or.inr ⟨ht, { c with procs := c.procs ++ [id] }, by rw [e2]; exact cnew, by simp [hin]⟩
        · exact Or.inr ⟨ht, c0, cget _ _ e2 hc0, hin⟩
  · intro q pq hq
    rw [hpls] at hq; exact h.plNodupC q pq hq
  · intro q pq hq
    rw [hpls] at hq; exact h.plNodupR q pq hq
  · intro cid c0 hc0
    by_cases e : cid = cid0
    · subst e; rw [cnew] at hc0; cases hc0
      exact List.nodup_append.2 ⟨h.cnNodupR cid c hc, by simp, by
        intro a ha b hb; have : b = id := by simpa using hb
        subst this; intro e; subst e; exact hnew cid c hc ha⟩
    · rw [hcns, set_ne _ _ _ _ e] at hc0; exact h.cnNodupR cid c0 hc0

/-- detach processor `id` from pipeline `pid` and delete it. -/
theorem refs_remPrPl (m m' : Mem) (h : Refs m) (id pid : Id) (p : Pl) (r : Pr) (hp : m.pls pid = some p)
    (hr : m.prs id = some r) (hrt : r.ptype = 2) (hrp : r.parent = pid)
    (hpls : m'.pls = m.pls.set pid { p with procs := p.procs.erase id })
    (hcns : m'.cns = m.cns) (hprs : m'.prs = m.prs.del id) : Refs m' := by
  have rget : ∀ rid r0, rid ≠ id → m.prs rid = some r0 → m'.prs rid = some r0 := fun rid r0 e h0 => by
    rw [hprs, del_ne _ _ _ e]; exact h0
  have rold : ∀ rid r0, m'.prs rid = some r0 → rid ≠ id ∧ m.prs rid = some r0 := fun rid r0 h0 => by
    by_cases e : rid = id
    · subst e; rw [hprs, del_eq] at h0; cases h0
    · rw [hprs, del_ne _ _ _ e] at h0; exact ⟨e, h0⟩
  have pget : ∀ q pq, q ≠ pid → m.pls q = some pq → m'.pls q = some pq := fun q pq e h0 => by
    rw [hpls, set_ne _ _ _ _ e]; exact h0
  have pnew : m'.pls pid = some { p with procs := p.procs.erase id } := by rw [hpls, set_eq]
  have hnd := h.plNodupR pid p hp
  constructor
  · intro q pq cid hq hin
    rw [hcns]
    by_cases e : q = pid
    · subst e; rw [pnew] at hq; cases hq; exact h.plConn q p cid hp hin
    · rw [hpls, set_ne _ _ _ _ e] at hq; exact h.plConn q pq cid hq hin
  · intro cid c0 hc0
    rw [hcns] at hc0
    obtain ⟨p0, hp0, hin⟩ := h.connPl cid c0 hc0
    by_cases e2 : c0.pipeline = pid
    · rw [e2] at hp0; rw [hp] at hp0; cases hp0
      exact ⟨{ p with procs := p.procs.erase id }, by rw [e2]; exact pnew, hin⟩
    · exact ⟨p0, pget _ _ e2 hp0, hin⟩
  · intro q pq rid hq hin
    by_cases e : q = pid
    · subst e; rw [pnew] at hq; cases hq
      have hm := (List.Nodup.mem_erase_iff hnd).1 hin
      obtain ⟨r0, hr0, a, b⟩ := h.plProc q p rid hp hm.2
      exact ⟨r0, rget rid r0 hm.1 hr0, a, b⟩
    · rw [hpls, set_ne _ _ _ _ e] at hq
      obtain ⟨r0, hr0, a, b⟩ := h.plProc q pq rid hq hin
      have : rid ≠ id := by
        intro e2; subst e2; rw [hr] at hr0; cases hr0; exact e (b.symm.trans hrp)
      exact ⟨r0, rget rid r0 this hr0, a, b⟩
  · intro cid c0 rid hc0 hin
    rw [hcns] at hc0
    obtain ⟨r0, hr0, a, b⟩ := h.cnProc cid c0 rid hc0 hin
    have : rid ≠ id := by
      intro e2; subst e2; rw [hr] at hr0; cases hr0; rw [hrt] at a; cases a
    exact ⟨r0, rget rid r0 this hr0, a, b⟩
  · intro rid r0 hr0
    obtain ⟨e, hr0⟩ := rold rid r0 hr0
    rcases h.procPar rid r0 hr0 with ⟨ht, p0, hp0, hin⟩ | ⟨ht, c0, hc0, hin⟩
    · by_cases e2 : r0.parent = pid
      · rw [e2] at hp0; rw [hp] at hp0; cases hp0
        exact Or.inl ⟨ht, { p with procs := p.procs.erase id }, by rw [e2]; exact pnew, (List.mem_erase_of_ne e).2 hin⟩
      · exact Or.inl ⟨ht, p0, pget _ _ e2 hp0, hin⟩
    · exact Or.inr ⟨ht, c0, by rw [hcns]; exact hc0, hin⟩
  · intro q pq hq
    by_cases e : q = pid
    · subst e; rw [pnew] at hq; cases hq; exact h.plNodupC q p hp
    · rw [hpls, set_ne _ _ _ _ e] at hq; exact h.plNodupC q pq hq
  · intro q pq hq
    by_cases e : q = pid
    · subst e; rw [pnew] at hq; cases hq; exact hnd.erase id
    · rw [hpls, set_ne _ _ _ _ e] at hq; exact h.plNodupR q pq hq
  · intro cid c0 hc0
    rw [hcns] at hc0; exact h.cnNodupR cid c0 hc0

/-- detach processor `id` from connector `cid0` and delete it. -/
theorem refs_remPrCn (m m' : Mem) (h : Refs m) (id cid0 : Id) (c : Cn) (r : Pr) (hc : m.cns cid0 = some c)
    (hr : m.prs id = some r) (hrt : r.ptype = 1) (hrp : r.parent = cid0)
    (hpls : m'.pls = m.pls) (hcns : m'.cns = m.cns.set cid0 { c with procs := c.procs.erase id })
    (hprs : m'.prs = m.prs.del id) : Refs m' := by
  have rget : ∀ rid r0, rid ≠ id → m.prs rid = some r0 → m'.prs rid = some r0 := fun rid r0 e h0 => by
    rw [hprs, del_ne _ _ _ e]; exact h0
  have rold : ∀ rid r0, m'.prs rid = some r0 → rid ≠ id ∧ m.prs rid = some r0 := fun rid r0 h0 => by
    by_cases e : rid = id
    · subst e; rw [hprs, del_eq] at h0; cases h0
    · rw [hprs, del_ne _ _ _ e] at h0; exact ⟨e, h0⟩
  have cget : ∀ q cq, q ≠ cid0 → m.cns q = some cq → m'.cns q = some cq := fun q cq e h0 => by
    rw [hcns, set_ne _ _ _ _ e]; exact h0
  have cnew : m'.cns cid0 = some { c with procs := c.procs.erase id } := by rw [hcns, set_eq]
  have hnd := h.cnNodupR cid0 c hc
  constructor
  · intro q pq cid hq hin
    rw [hpls] at hq
    obtain ⟨c0, hc0, hcp0⟩ := h.plConn q pq cid hq hin
    by_cases e : cid = cid0
    · subst e; rw [hc] at hc0; cases hc0
      exact ⟨{ c with procs := c.procs.erase id }, cnew, hcp0⟩
    · exact ⟨c0, cget _ _ e hc0, hcp0⟩
  · intro cid c0 hc0
    rw [hpls]
    by_cases e : cid = cid0
    · subst e; rw [cnew] at hc0; cases hc0; exact h.connPl cid c hc
    · rw [hcns, set_ne _ _ _ _ e] at hc0; exact h.connPl cid c0 hc0
  · intro q pq rid hq hin
    rw [hpls] at hq
    obtain ⟨r0, hr0, a, b⟩ := h.plProc q pq rid hq hin
    have : rid ≠ id := by
      intro e2; subst e2; rw [hr] at hr0; cases hr0; rw [hrt] at a; cases a
    exact ⟨r0, rget rid r0 this hr0, a, b⟩
  · intro cid c0 rid hc0 hin
    by_cases e : cid = cid0
    · subst e; rw [cnew] at hc0; cases hc0
      have hm := (List.Nodup.mem_erase_iff hnd).1 hin
      obtain ⟨r0, hr0, a, b⟩ := h.cnProc cid c rid hc hm.2
      exact ⟨r0, rget rid r0 hm.1 hr0, a, b⟩
    · rw [hcns, set_ne _ _ _ _ e] at hc0
      obtain ⟨r0, hr0, a, b⟩ := h.cnProc cid c0 rid hc0 hin
      have : rid ≠ id := by
        intro e2; subst e2; rw [hr] at hr0; cases hr0; exact e (b.symm.trans hrp)
      exact ⟨r0, rget rid r0 this hr0, a, b⟩
  · intro rid r0 hr0
    obtain ⟨e, hr0⟩ := rold rid r0 hr0
    rcases h.procPar rid r0 hr0 with ⟨ht, p0, hp0, hin⟩ | ⟨ht, c0, hc0, hin⟩
    · exact Or.inl ⟨ht, p0, by rw [hpls]; exact hp0, hin⟩
    · by_cases e2 : r0.parent = cid0
      · rw [e2] at hc0; rw [hc] at hc0; cases hc0
        exact Or.inr ⟨ht, { c with procs := c.procs.erase id }, by rw [e2]; exact cnew, (List.mem_erase_of_ne e).2 hin⟩
      · exact Or.inr ⟨ht, c0, cget _ _ e2 hc0, hin⟩
  · intro q pq hq
    rw [hpls] at hq; exact h.plNodupC q pq hq
  · intro q pq hq
    rw [hpls] at hq; exact h.plNodupR q pq hq
  · intro cid c0 hc0
    by_cases e : cid = cid0
    · subst e; rw [cnew] at hc0; cases hc0; exact hnd.erase id
    · rw [hcns, set_ne _ _ _ _ e] at hc0; exact h.cnNodupR cid c0 hc0

/-- insert a new pipeline `id` with empty lists. -/
theorem refs_insPl (m m' : Mem) (h : Refs m) (id : Id) (p0 : Pl) (hp : m.pls id = none)
    (hc0 : p0.conns = []) (hr0 : p0.procs = [])
    (hpls : m'.pls = m.pls.set id p0) (hcns : m'.cns = m.cns) (hprs : m'.prs = m.prs) : Refs m' := by
  have pne : ∀ q pq, m.pls q = some pq → q ≠ id := fun q pq h0 e => by rw [e, hp] at h0; cases h0
  have pget : ∀ q pq, m.pls q = some pq → m'.pls q = some pq := fun q pq h0 => by
    rw [hpls, set_ne _ _ _ _ (pne q pq h0)]; exact h0
  have pold : ∀ q pq, m'.pls q = some pq → (q = id ∧ pq = p0) ∨ m.pls q = some pq := fun q pq h0 => by
    by_cases e : q = id
    · subst e; rw [hpls, set_eq] at h0; cases h0; exact Or.inl ⟨rfl, rfl⟩
    · rw [hpls, set_ne _ _ _ _ e] at h0; exact Or.inr h0
  constructor
  · intro q pq cid hq hin
    rw [hcns]
    rcases pold q pq hq with ⟨_, e⟩ | hq
    · subst e; rw [hc0] at hin; cases hin
    · exact h.plConn q pq cid hq hin
  · intro cid c hc
    rw [hcns] at hc
    obtain ⟨p, hp1, hin⟩ := h.connPl cid c hc
    exact ⟨p, pget _ _ hp1, hin⟩
  · intro q pq rid hq hin
    rw [hprs]
    rcases pold q pq hq with ⟨_, e⟩ | hq
    · subst e; rw [hr0] at hin; cases hin
    · exact h.plProc q pq rid hq hin
  · intro cid c rid hc hin
    rw [hcns] at hc; rw [hprs]; exact h.cnProc cid c rid hc hin
  · intro rid r hr
    rw [hprs] at hr
    rcases h.procPar rid r hr with ⟨ht, p, hp1, hin⟩ | ⟨ht, c, hc, hin⟩
    · exact Or.inl ⟨ht, p, pget _ _ hp1, hin⟩
    · exact Or.inr ⟨ht, c, by rw [hcns]; exact hc, hin⟩
  · intro q pq hq
    rcases pold q pq hq with ⟨_, e⟩ | hq
    · subst e; rw [hc0]; exact List.nodup_nil
    · exact h.plNodupC q pq hq
  · intro q pq hq
    rcases pold q pq hq with ⟨_, e⟩ | hq
    · subst e; rw [hr0]; exact List.nodup_nil
    · exact h.plNodupR q pq hq
  · intro cid c hc
    rw [hcns] at hc; exact h.cnNodupR cid c hc

/-- delete pipeline `id` whose lists are empty. -/
theorem refs_delPl (m m' : Mem) (h : Refs m) (id : Id) (p : Pl) (hp : m.pls id = some p)
    (hc0 : p.conns = []) (hr0 : p.procs = [])
    (hpls : m'.pls = m.pls.del id) (hcns : m'.cns = m.cns) (hprs : m'.prs = m.prs) : Refs m' := by
  have pget : ∀ q pq, q ≠ id → m.pls q = some pq → m'.pls q = some pq := fun q pq e h0 => by
    rw [hpls, del_ne _ _ _ e]; exact h0
  have pold : ∀ q pq, m'.pls q = some pq → q ≠ id ∧ m.pls q = some pq := fun q pq h0 => by
    by_cases e : q = id
    · subst e; rw [hpls, del_eq] at h0; cases h0
    · rw [hpls, del_ne _ _ _ e] at h0; exact ⟨e, h0⟩
  constructor
  · intro q pq cid hq hin
    rw [hcns]; exact h.plConn q pq cid (pold q pq hq).2 hin
  · intro cid c hc
    rw [hcns] at hc
    obtain ⟨p1, hp1, hin⟩ := h.connPl cid c hc
    have : c.pipeline ≠ id := by
      intro e; rw [e, hp] at hp1; cases hp1; rw [hc0] at hin; cases hin
    exact ⟨p1, pget _ _ this hp1, hin⟩
  · intro q pq rid hq hin
    rw [hprs]; exact h.plProc q pq rid (pold q pq hq).2 hin
  · intro cid c rid hc hin
    rw [hcns] at hc; rw [hprs]; exact h.cnProc cid c rid hc hin
  · intro rid r hr
    rw [hprs] at hr
    rcases h.procPar rid r hr with ⟨ht, p1, hp1, hin⟩ | ⟨ht, c, hc, hin⟩
    · have : r.parent ≠ id := by
        intro e; rw [e, hp] at hp1; cases hp1; rw [hr0] at hin; cases hin
      exact Or.inl ⟨ht, p1, pget _ _ this hp1, hin⟩
    · exact Or.inr ⟨ht, c, by rw [hcns]; exact hc, hin⟩
  · intro q pq hq; exact h.plNodupC q pq (pold q pq hq).2
  · intro q pq hq; exact h.plNodupR q pq (pold q pq hq).2
  · intro cid c hc
    rw [hcns] at hc; exact h.cnNodupR cid c hc

/-! ## generic helpers for `WF` and `Below` -/

theorem map_set_all {α} (P : α → Prop) (m : Map α) (k : Id) (v : α) (h : ∀ id a, m id = some a → P a) (hv : P v) :
    ∀ id a, m.set k v id = some a → P a := by
  intro id a ha
  by_cases e : id = k
  · subst e; rw [set_eq] at ha; cases ha; exact hv
  · rw [set_ne _ _ _ _ e] at ha; exact h id a ha

theorem map_del_all {α} (P : α → Prop) (m : Map α) (k : Id) (h : ∀ id a, m id = some a → P a) :
    ∀ id a, m.del k id = some a → P a := by
  intro id a ha
  by_cases e : id = k
  · subst e; rw [del_eq] at ha; cases ha
  · rw [del_ne _ _ _ e] at ha; exact h id a ha

theorem map_set_none {α} (m : Map α) (k : Id) (v : α) (n : Nat) (hk : k < n) (h : ∀ id, n ≤ id → m id = none) :
    ∀ id, n ≤ id → m.set k v id = none := by
  intro id hi
  have e : id ≠ k := fun e => by subst e; exact absurd hk (Nat.not_lt.2 hi)
  rw [set_ne _ _ _ _ e]; exact h id hi

theorem map_del_none {α} (m : Map α) (k : Id) (n : Nat) (h : ∀ id, n ≤ id → m id = none) :
    ∀ id, n ≤ id → m.del k id = none := by
  intro id hi
  by_cases e : id = k
  · subst e; exact del_eq _ _
  · rw [del_ne _ _ _ e]; exact h id hi

theorem key_lt {α} {m : Map α} {n : Nat} (h : ∀ id, n ≤ id → m id = none) {k : Id} {a : α} (hk : m k = some a) : k < n := by
  apply Classical.byContradiction
  intro hn
  rw [h k (Nat.le_of_not_lt hn)] at hk; cases hk

/-- with consistent references, bounded keys bound every listed id as well. -/
theorem below_of_refs {n : Nat} {m : Mem} (h : Refs m) (kp : ∀ id, n ≤ id → m.pls id = none)
    (kc : ∀ id, n ≤ id → m.cns id = none) (kr : ∀ id, n ≤ id → m.prs id = none) : Below n m := by
  refine ⟨kp, kc, kr, ?_, ?_, ?_⟩
  · intro pid p cid hp hin
    obtain ⟨c, hc, _⟩ := h.plConn pid p cid hp hin
    exact key_lt kc hc
  · intro pid p rid hp hin
    obtain ⟨r, hr, _⟩ := h.plProc pid p rid hp hin
    exact key_lt kr hr
  · intro cid c rid hc hin
    obtain ⟨r, hr, _⟩ := h.cnProc cid c rid hc hin
    exact key_lt kr hr

/-- what every successful effect of every operation preserves. -/
structure MInv (n : Nat) (m : Mem) : Prop where
  names : NamesOk m
  uniq  : NameUniq m
  refs  : Refs m
  wf    : WF m
  below : Below n m

theorem MInv.mono {n k : Nat} {m : Mem} (h : MInv n m) (hk : n ≤ k) : MInv k m :=
  ⟨h.names, h.uniq, h.refs, h.wf, h.below.mono hk⟩

/-! ## what a successful call did -/

theorem run_ok_inv (f : Svc) (s : St) (hok : (f.run s).1 = .ok ()) :
    f.pre s.mem = none ∧ (f.run s).2.mem = f.upd s.mem := by
  cases hp : f.pre s.mem with
  | some e => rw [Svc.run_pre_err hp] at hok; cases hok
  | none =>
    cases hf : s.failsNow with
    | true => rw [Svc.run_fail hp hf] at hok; cases hok
    | false => rw [Svc.run_ok hp hf]; exact ⟨rfl, by simp⟩

theorem guarded_ok_inv (g : Mem → Except Err Unit) (f : Svc) (s : St) (hok : (guarded g f s).1 = .ok ()) :
    g s.mem = .ok () ∧ f.pre s.mem = none ∧ (guarded g f s).2.mem = f.upd s.mem := by
  cases hg : g s.mem with
  | error e => simp [guarded, hg] at hok
  | ok u =>
    have hgd : guarded g f s = f.run s := by simp [guarded, hg]
    rw [hgd] at hok ⊢
    exact ⟨rfl, run_ok_inv f s hok⟩

theorem andThen_ok_inv (a b : M Unit) (s : St) (hok : (M.andThen a b s).1 = .ok ()) :
    (a s).1 = .ok () ∧ (b (a s).2).1 = .ok () ∧ (M.andThen a b s).2 = (b (a s).2).2 := by
  unfold M.andThen at hok ⊢
  rcases hr : a s with ⟨r, s'⟩
  rw [hr] at hok
  cases r with
  | error e => cases hok
  | ok u => cases u; exact ⟨rfl, hok, rfl⟩

theorem runSteps_none_pre (L : List Step) : ∀ (stack stk : List Svc) (s s' : St),
    runSteps L stack s = (none, stk, s') → PreOk s.mem L := by
  induction L with
  | nil => intro _ _ _ _ _; trivial
  | cons st rest ih =>
    intro stack stk s s' h
    simp only [runSteps] at h
    rcases hr : st.act.run s with ⟨r, s1⟩
    rw [hr] at h
    cases r with
    | error e => simp at h
    | ok u =>
      cases u
      have h1 := run_ok_inv st.act s (by rw [hr])
      have hs1 := Svc.run_ok_state hr
      refine ⟨h1.1, ?_⟩
      have := ih _ _ _ _ h
      rw [hs1] at this; simpa using this

theorem orch_ok_inv {β} (g : Mem → Except Err β) (steps : β → List Step) (s : St)
    (hok : (orch g steps s).1 = .ok ()) :
    ∃ b, g s.mem = .ok b ∧ PreOk s.mem (steps b) ∧ (orch g steps s).2.mem = applySteps s.mem (steps b) := by
  unfold orch at hok ⊢
  cases hf : s.failsNow
  · simp only [hf] at hok ⊢
    cases hg : g s.mem with
    | error e => simp [hg] at hok
    | ok b =>
      simp only [hg] at hok ⊢
      rcases hrs : runSteps (steps b) [] { s with ctr := s.ctr + 1, tx := some s.kv } with ⟨r, stk, s'⟩
      simp only [hrs] at hok ⊢
      cases r with
      | some e => simp at hok; split at hok <;> simp at hok
      | none =>
        simp only at hok ⊢
        have hs' := runSteps_none _ _ _ _ _ hrs
        have hpre := runSteps_none_pre _ _ _ _ _ hrs
        cases hc : s'.failsNow
        · simp only [hc] at hok ⊢
          refine ⟨b, rfl, hpre, ?_⟩
          rw [hs']; exact okRun_mem _ _
        · simp only [hc] at hok; simp at hok; split at hok <;> simp at hok
  · simp [hf] at hok

/-! ## names: pipeline insert / rename / delete -/

theorem names_insPl (m m' : Mem) (hn : NamesOk m) (hu : NameUniq m) (id : Id) (p0 : Pl) (hp : m.pls id = none)
    (hfree : m.names p0.name = false) (hpls : m'.pls = m.pls.set id p0)
    (hnames : m'.names = setName m.names p0.name true) : NamesOk m' ∧ NameUniq m' := by
  have pne : ∀ q pq, m.pls q = some pq → q ≠ id := fun q pq h0 e => by rw [e, hp] at h0; cases h0
  have nofree : ∀ q pq, m.pls q = some pq → pq.name ≠ p0.name := fun q pq h0 e => by
    have := (hn p0.name).2 ⟨q, pq, h0, e⟩; rw [hfree] at this; cases this
  constructor
  · intro n
    rw [hnames]
    by_cases e : n = p0.name
    · subst e; simp only [setName, if_true, true_iff]
      exact ⟨id, p0, by rw [hpls, set_eq], rfl⟩
    · simp only [setName, e, if_false]
      rw [hn n]
      constructor
      · rintro ⟨q, pq, hq, hnm⟩
        exact ⟨q, pq, by rw [hpls, set_ne _ _ _ _ (pne q pq hq)]; exact hq, hnm⟩
      · rintro ⟨q, pq, hq, hnm⟩
        by_cases e2 : q = id
        · subst e2; rw [hpls, set_eq] at hq; cases hq; exact absurd hnm.symm e
        · rw [hpls, set_ne _ _ _ _ e2] at hq; exact ⟨q, pq, hq, hnm⟩
  · intro i j p q hi hj hnm
    by_cases ei : i = id <;> by_cases ej : j = id
    · rw [ei, ej]
    · subst ei; rw [hpls, set_eq] at hi; cases hi
      rw [hpls, set_ne _ _ _ _ ej] at hj
      exact absurd hnm.symm (nofree j q hj)
    · subst ej; rw [hpls, set_eq] at hj; cases hj
      rw [hpls, set_ne _ _ _ _ ei] at hi
      exact absurd hnm (nofree i p hi)
    · rw [hpls, set_ne _ _ _ _ ei] at hi; rw [hpls, set_ne _ _ _ _ ej] at hj
      exact hu i j p q hi hj hnm

theorem names_updPl (m m' : Mem) (hn : NamesOk m) (hu : NameUniq m) (id : Id) (p p' : Pl) (hp : m.pls id = some p)
    (hok : ¬ (m.names p'.name = true ∧ p.name ≠ p'.name)) (hpls : m'.pls = m.pls.set id p')
    (hnames : m'.names = setName (setName m.names p.name false) p'.name true) : NamesOk m' ∧ NameUniq m' := by
  have other : ∀ q pq, q ≠ id → m.pls q = some pq → pq.name ≠ p'.name := by
    intro q pq e hq hnm
    have h1 : m.names p'.name = true := (hn p'.name).2 ⟨q, pq, hq, hnm⟩
    have h2 : p.name = p'.name := Classical.byContradiction fun h2 => hok ⟨h1, h2⟩
    exact e (hu q id pq p hq hp (hnm.trans h2.symm))
  constructor
  · intro n
    rw [hnames]
    by_cases e : n = p'.name
    · subst e; simp only [setName, if_true, true_iff]
      exact ⟨id, p', by rw [hpls, set_eq], rfl⟩
    · by_cases e2 : n = p.name
      · subst e2
        simp only [setName, e, if_false, if_true]
        constructor
        · intro h; cases h
        · rintro ⟨q, pq, hq, hnm⟩
          by_cases e3 : q = id
          · subst e3; rw [hpls, set_eq] at hq; cases hq; exact absurd hnm.symm e
          · rw [hpls, set_ne _ _ _ _ e3] at hq
            exact absurd (hu q id pq p hq hp hnm) e3
      · simp only [setName, e, e2, if_false]
        rw [hn n]
        constructor
        · rintro ⟨q, pq, hq, hnm⟩
          have : q ≠ id := by intro e3; subst e3; rw [hp] at hq; cases hq; exact e2 hnm.symm
          exact ⟨q, pq, by rw [hpls, set_ne _ _ _ _ this]; exact hq, hnm⟩
        · rintro ⟨q, pq, hq, hnm⟩
          by_cases e3 : q = id
          · subst e3; rw [hpls, set_eq] at hq; cases hq; exact absurd hnm.symm e
          · rw [hpls, set_ne _ _ _ _ e3] at hq; exact ⟨q, pq, hq, hnm⟩
  · intro i j pi pj hi hj hnm
    by_cases ei : i = id <;> by_cases ej : j = id
    · rw [ei, ej]
    · subst ei; rw [hpls, set_eq] at hi; cases hi
      rw [hpls, set_ne _ _ _ _ ej] at hj
      exact absurd hnm.symm (other j pj ej hj)
    · subst ej; rw [hpls, set_eq] at hj; cases hj
      rw [hpls, set_ne _ _ _ _ ei] at hi
      exact absurd hnm (other i pi ei hi)
    · rw [hpls, set_ne _ _ _ _ ei] at hi; rw [hpls, set_ne _ _ _ _ ej] at hj
      exact hu i j pi pj hi hj hnm

theorem names_delPl (m m' : Mem) (hn : NamesOk m) (hu : NameUniq m) (id : Id) (p : Pl) (hp : m.pls id = some p)
    (hpls : m'.pls = m.pls.del id) (hnames : m'.names = setName m.names p.name false) :
    NamesOk m' ∧ NameUniq m' := by
  constructor
  · intro n
    rw [hnames]
    by_cases e : n = p.name
    · subst e; simp only [setName, if_true]
      constructor
      · intro h; cases h
      · rintro ⟨q, pq, hq, hnm⟩
        by_cases e3 : q = id
        · subst e3; rw [hpls, del_eq] at hq; cases hq
        · rw [hpls, del_ne _ _ _ e3] at hq
          exact absurd (hu q id pq p hq hp hnm) e3
    · simp only [setName, e, if_false]
      rw [hn n]
      constructor
      · rintro ⟨q, pq, hq, hnm⟩
        have : q ≠ id := by intro e3; subst e3; rw [hp] at hq; cases hq; exact e hnm.symm
        exact ⟨q, pq, by rw [hpls, del_ne _ _ _ this]; exact hq, hnm⟩
      · rintro ⟨q, pq, hq, hnm⟩
        by_cases e3 : q = id
        · subst e3; rw [hpls, del_eq] at hq; cases hq
        · rw [hpls, del_ne _ _ _ e3] at hq; exact ⟨q, pq, hq, hnm⟩
  · intro i j pi pj hi hj hnm
    have hi' : i ≠ id ∧ m.pls i = some pi := by
      by_cases e : i = id
      · subst e; rw [hpls, del_eq] at hi; cases hi
      · rw [hpls, del_ne _ _ _ e] at hi; exact ⟨e, hi⟩
    have hj' : j ≠ id ∧ m.pls j = some pj := by
      by_cases e : j = id
      · subst e; rw [hpls, del_eq] at hj; cases hj
      · rw [hpls, del_ne _ _ _ e] at hj; exact ⟨e, hj⟩
    exact hu i j pi pj hi'.2 hj'.2 hnm

end Conduit.Ctl
