import ConduitModel.Proofs.CtlRefs

/-!
`MInv` is preserved by the successful effect of every operation (API and environment), and —
through all-or-nothing — by every failed one outside the F7 triggers: the inductive step of
C14's reference-consistency theorem.
-/
namespace Conduit.Ctl

/-! ## shapes of single-entity updates -/

theorem nameShape_setPl (m m' : Mem) (pid : Id) (p p' : Pl) (hp : m.pls pid = some p)
    (hpls : m'.pls = m.pls.set pid p') (hn : p'.name = p.name) (hnames : m'.names = m.names) : NameShape m m' := by
  refine ⟨fun id => ?_, hnames⟩
  by_cases e : id = pid
  · subst e; rw [hpls, set_eq, hp]; simp [hn]
  · rw [hpls, set_ne _ _ _ _ e]

theorem nameShape_same (m m' : Mem) (hpls : m'.pls = m.pls) (hnames : m'.names = m.names) : NameShape m m' :=
  ⟨fun id => by rw [hpls], hnames⟩

theorem refShape_setPl (m m' : Mem) (pid : Id) (p p' : Pl) (hp : m.pls pid = some p)
    (hpls : m'.pls = m.pls.set pid p') (h1 : p'.conns = p.conns) (h2 : p'.procs = p.procs)
    (hcns : m'.cns = m.cns) (hprs : m'.prs = m.prs) : RefShape m m' := by
  refine ⟨fun id => ?_, fun id => by rw [hcns], fun id => by rw [hprs]⟩
  by_cases e : id = pid
  · subst e; rw [hpls, set_eq, hp]; simp [h1, h2]
  · rw [hpls, set_ne _ _ _ _ e]

theorem refShape_setCn (m m' : Mem) (cid : Id) (c c' : Cn) (hc : m.cns cid = some c)
    (hcns : m'.cns = m.cns.set cid c') (h1 : c'.typ = c.typ) (h2 : c'.pipeline = c.pipeline) (h3 : c'.procs = c.procs)
    (hpls : m'.pls = m.pls) (hprs : m'.prs = m.prs) : RefShape m m' := by
  refine ⟨fun id => by rw [hpls], fun id => ?_, fun id => by rw [hprs]⟩
  by_cases e : id = cid
  · subst e; rw [hcns, set_eq, hc]; simp [h1, h2, h3]
  · rw [hcns, set_ne _ _ _ _ e]

theorem refShape_setPr (m m' : Mem) (rid : Id) (r r' : Pr) (hr : m.prs rid = some r)
    (hprs : m'.prs = m.prs.set rid r') (h1 : (r'.plugin = 0) ↔ (r.plugin = 0)) (h2 : r'.ptype = r.ptype)
    (h3 : r'.parent = r.parent) (hpls : m'.pls = m.pls) (hcns : m'.cns = m.cns) : RefShape m m' := by
  refine ⟨fun id => by rw [hpls], fun id => by rw [hcns], fun id => ?_⟩
  by_cases e : id = rid
  · subst e; rw [hprs, set_eq, hr]; simp [h1, h2, h3]
  · rw [hprs, set_ne _ _ _ _ e]

theorem minv_shape {n : Nat} {m m' : Mem} (h : MInv n m) (hr : RefShape m m') (hn : NameShape m m') : MInv n m' :=
  ⟨names_shape hn h.names, uniq_shape hn h.uniq, refs_shape hr h.refs, wf_shape hr h.wf, below_shape hr h.below⟩

/-! ## structural effects preserve `MInv` -/

theorem minv_insPl {n : Nat} {m m' : Mem} (h : MInv n m) (p0 : Pl) (hfree : m.names p0.name = false)
    (hc0 : p0.conns = []) (hr0 : p0.procs = [])
    (hpls : m'.pls = m.pls.set n p0) (hcns : m'.cns = m.cns) (hprs : m'.prs = m.prs)
    (hnames : m'.names = setName m.names p0.name true) : MInv (n + 1) m' := by
  have hp : m.pls n = none := h.below.pls n (Nat.le_refl _)
  obtain ⟨a, b⟩ := names_insPl m m' h.names h.uniq n p0 hp hfree hpls hnames
  have hrefs := refs_insPl m m' h.refs n p0 hp hc0 hr0 hpls hcns hprs
  refine ⟨a, b, hrefs, ⟨by rw [hcns]; exact h.wf.cnTyp, by rw [hprs]; exact h.wf.prPlg⟩, below_of_refs hrefs ?_ ?_ ?_⟩
  · rw [hpls]; exact map_set_none _ _ _ _ (Nat.lt_succ_self n) (fun id hi => h.below.pls id (by omega))
  · rw [hcns]; exact fun id hi => h.below.cns id (by omega)
  · rw [hprs]; exact fun id hi => h.below.prs id (by omega)

theorem minv_delPl {n : Nat} {m m' : Mem} (h : MInv n m) (id : Id) (p : Pl) (hp : m.pls id = some p)
    (hc0 : p.conns = []) (hr0 : p.procs = [])
    (hpls : m'.pls = m.pls.del id) (hcns : m'.cns = m.cns) (hprs : m'.prs = m.prs)
    (hnames : m'.names = setName m.names p.name false) : MInv n m' := by
  obtain ⟨a, b⟩ := names_delPl m m' h.names h.uniq id p hp hpls hnames
  have hrefs := refs_delPl m m' h.refs id p hp hc0 hr0 hpls hcns hprs
  refine ⟨a, b, hrefs, ⟨by rw [hcns]; exact h.wf.cnTyp, by rw [hprs]; exact h.wf.prPlg⟩, below_of_refs hrefs ?_ ?_ ?_⟩
  · rw [hpls]; exact map_del_none _ _ _ h.below.pls
  · rw [hcns]; exact h.below.cns
  · rw [hprs]; exact h.below.prs

theorem minv_addCn {n : Nat} {m m' : Mem} (h : MInv n m) (pid : Id) (p : Pl) (c : Cn) (hp : m.pls pid = some p)
    (hcp : c.pipeline = pid) (hcr : c.procs = []) (hct : c.typ = 1 ∨ c.typ = 2)
    (hpls : m'.pls = m.pls.set pid { p with conns := p.conns ++ [n] })
    (hcns : m'.cns = m.cns.set n c) (hprs : m'.prs = m.prs) (hnames : m'.names = m.names) : MInv (n + 1) m' := by
  have hc : m.cns n = none := h.below.cns n (Nat.le_refl _)
  have hnew : ∀ q pq, m.pls q = some pq → n ∉ pq.conns := fun q pq hq hin => Nat.lt_irrefl _ (h.below.plC q pq n hq hin)
  have hrefs := refs_addCn m m' h.refs n pid p c hp hc hcp hcr hnew hpls hcns hprs
  have hns := nameShape_setPl m m' pid p _ hp hpls rfl hnames
  refine ⟨names_shape hns h.names, uniq_shape hns h.uniq, hrefs,
    ⟨by rw [hcns]; exact map_set_all _ _ _ _ h.wf.cnTyp hct, by rw [hprs]; exact h.wf.prPlg⟩, below_of_refs hrefs ?_ ?_ ?_⟩
  · rw [hpls]; exact map_set_none _ _ _ _ (Nat.lt_succ_of_lt (key_lt h.below.pls hp)) (fun id hi => h.below.pls id (by omega))
  · rw [hcns]; exact map_set_none _ _ _ _ (Nat.lt_succ_self n) (fun id hi => h.below.cns id (by omega))
  · rw [hprs]; exact fun id hi => h.below.prs id (by omega)

theorem minv_remCn {n : Nat} {m m' : Mem} (h : MInv n m) (id pid : Id) (p : Pl) (c : Cn) (hp : m.pls pid = some p)
    (hc : m.cns id = some c) (hcp : c.pipeline = pid) (hcr : c.procs = [])
    (hpls : m'.pls = m.pls.set pid { p with conns := p.conns.erase id })
    (hcns : m'.cns = m.cns.del id) (hprs : m'.prs = m.prs) (hnames : m'.names = m.names) : MInv n m' := by
  have hrefs := refs_remCn m m' h.refs id pid p c hp hc hcp hcr hpls hcns hprs
  have hns := nameShape_setPl m m' pid p _ hp hpls rfl hnames
  refine ⟨names_shape hns h.names, uniq_shape hns h.uniq, hrefs,
    ⟨by rw [hcns]; exact map_del_all _ _ _ h.wf.cnTyp, by rw [hprs]; exact h.wf.prPlg⟩, below_of_refs hrefs ?_ ?_ ?_⟩
  · rw [hpls]; exact map_set_none _ _ _ _ (key_lt h.below.pls hp) h.below.pls
  · rw [hcns]; exact map_del_none _ _ _ h.below.cns
  · rw [hprs]; exact h.below.prs

theorem minv_addPrPl {n : Nat} {m m' : Mem} (h : MInv n m) (pid : Id) (p : Pl) (r : Pr) (hp : m.pls pid = some p)
    (hrt : r.ptype = 2) (hrp : r.parent = pid) (hrg : r.plugin ≠ 0)
    (hpls : m'.pls = m.pls.set pid { p with procs := p.procs ++ [n] })
    (hcns : m'.cns = m.cns) (hprs : m'.prs = m.prs.set n r) (hnames : m'.names = m.names) : MInv (n + 1) m' := by
  have hr : m.prs n = none := h.below.prs n (Nat.le_refl _)
  have hnew : ∀ q pq, m.pls q = some pq → n ∉ pq.procs := fun q pq hq hin => Nat.lt_irrefl _ (h.below.plR q pq n hq hin)
  have hrefs := refs_addPrPl m m' h.refs n pid p r hp hr hrt hrp hnew hpls hcns hprs
  have hns := nameShape_setPl m m' pid p _ hp hpls rfl hnames
  refine ⟨names_shape hns h.names, uniq_shape hns h.uniq, hrefs,
    ⟨by rw [hcns]; exact h.wf.cnTyp, by rw [hprs]; exact map_set_all _ _ _ _ h.wf.prPlg hrg⟩, below_of_refs hrefs ?_ ?_ ?_⟩
  · rw [hpls]; exact map_set_none _ _ _ _ (Nat.lt_succ_of_lt (key_lt h.below.pls hp)) (fun id hi => h.below.pls id (by omega))
  · rw [hcns]; exact fun id hi => h.below.cns id (by omega)
  · rw [hprs]; exact map_set_none _ _ _ _ (Nat.lt_succ_self n) (fun id hi => h.below.prs id (by omega))

theorem minv_addPrCn {n : Nat} {m m' : Mem} (h : MInv n m) (cid0 : Id) (c : Cn) (r : Pr) (hc : m.cns cid0 = some c)
    (hrt : r.ptype = 1) (hrp : r.parent = cid0) (hrg : r.plugin ≠ 0)
    (hpls : m'.pls = m.pls) (hcns : m'.cns = m.cns.set cid0 { c with procs := c.procs ++ [n] })
    (hprs : m'.prs = m.prs.set n r) (hnames : m'.names = m.names) : MInv (n + 1) m' := by
  have hr : m.prs n = none := h.below.prs n (Nat.le_refl _)
  have hnew : ∀ q cq, m.cns q = some cq → n ∉ cq.procs := fun q cq hq hin => Nat.lt_irrefl _ (h.below.cnR q cq n hq hin)
  have hrefs := refs_addPrCn m m' h.refs n cid0 c r hc hr hrt hrp hnew hpls hcns hprs
  have hns := nameShape_same m m' hpls hnames
  refine ⟨names_shape hns h.names, uniq_shape hns h.uniq, hrefs,
    ⟨by rw [hcns]; exact map_set_all _ _ _ _ h.wf.cnTyp (h.wf.cnTyp cid0 c hc),
     by rw [hprs]; exact map_set_all _ _ _ _ h.wf.prPlg hrg⟩, below_of_refs hrefs ?_ ?_ ?_⟩
  · rw [hpls]; exact fun id hi => h.below.pls id (by omega)
  · rw [hcns]; exact map_set_none _ _ _ _ (Nat.lt_succ_of_lt (key_lt h.below.cns hc)) (fun id hi => h.below.cns id (by omega))
  · rw [hprs]; exact map_set_none _ _ _ _ (Nat.lt_succ_self n) (fun id hi => h.below.prs id (by omega))

theorem minv_remPrPl {n : Nat} {m m' : Mem} (h : MInv n m) (id pid : Id) (p : Pl) (r : Pr) (hp : m.pls pid = some p)
    (hr : m.prs id = some r) (hrt : r.ptype = 2) (hrp : r.parent = pid)
    (hpls : m'.pls = m.pls.set pid { p with procs := p.procs.erase id })
    (hcns : m'.cns = m.cns) (hprs : m'.prs = m.prs.del id) (hnames : m'.names = m.names) : MInv n m' := by
  have hrefs := refs_remPrPl m m' h.refs id pid p r hp hr hrt hrp hpls hcns hprs
  have hns := nameShape_setPl m m' pid p _ hp hpls rfl hnames
  refine ⟨names_shape hns h.names, uniq_shape hns h.uniq, hrefs,
    ⟨by rw [hcns]; exact h.wf.cnTyp, by rw [hprs]; exact map_del_all _ _ _ h.wf.prPlg⟩, below_of_refs hrefs ?_ ?_ ?_⟩
  · rw [hpls]; exact map_set_none _ _ _ _ (key_lt h.below.pls hp) h.below.pls
  · rw [hcns]; exact h.below.cns
  · rw [hprs]; exact map_del_none _ _ _ h.below.prs

theorem minv_remPrCn {n : Nat} {m m' : Mem} (h : MInv n m) (id cid0 : Id) (c : Cn) (r : Pr) (hc : m.cns cid0 = some c)
    (hr : m.prs id = some r) (hrt : r.ptype = 1) (hrp : r.parent = cid0)
    (hpls : m'.pls = m.pls) (hcns : m'.cns = m.cns.set cid0 { c with procs := c.procs.erase id })
    (hprs : m'.prs = m.prs.del id) (hnames : m'.names = m.names) : MInv n m' := by
  have hrefs := refs_remPrCn m m' h.refs id cid0 c r hc hr hrt hrp hpls hcns hprs
  have hns := nameShape_same m m' hpls hnames
  refine ⟨names_shape hns h.names, uniq_shape hns h.uniq, hrefs,
    ⟨by rw [hcns]; exact map_set_all _ _ _ _ h.wf.cnTyp (h.wf.cnTyp cid0 c hc),
     by rw [hprs]; exact map_del_all _ _ _ h.wf.prPlg⟩, below_of_refs hrefs ?_ ?_ ?_⟩
  · rw [hpls]; exact h.below.pls
  · rw [hcns]; exact map_set_none _ _ _ _ (key_lt h.below.cns hc) h.below.cns
  · rw [hprs]; exact map_del_none _ _ _ h.below.prs

/-! ## every operation, successful call -/

theorem updPl_eq (m : Mem) (id : Id) (f : Pl → Pl) (p : Pl) (hp : m.pls id = some p) :
    m.updPl id f = { m with pls := m.pls.set id (f p) } := by simp [Mem.updPl, hp]
theorem updCn_eq (m : Mem) (id : Id) (f : Cn → Cn) (c : Cn) (hc : m.cns id = some c) :
    m.updCn id f = { m with cns := m.cns.set id (f c) } := by simp [Mem.updCn, hc]
theorem updPr_eq (m : Mem) (id : Id) (f : Pr → Pr) (r : Pr) (hr : m.prs id = some r) :
    m.updPr id f = { m with prs := m.prs.set id (f r) } := by simp [Mem.updPr, hr]

theorem ok_plCreate (n : Nat) (name desc prov : Nat) (s0 : St) (h : MInv n s0.mem)
    (hok : ((svcPlCreate n name desc prov).run s0).1 = .ok ()) :
    MInv (n + 1) ((svcPlCreate n name desc prov).run s0).2.mem := by
  obtain ⟨hpre, hm⟩ := run_ok_inv _ s0 hok
  rw [hm]
  have hv : plValid s0.mem.names name = true := by
    cases hv : plValid s0.mem.names name
    · simp [svcPlCreate, hv] at hpre
    · rfl
  have hfree : s0.mem.names name = false := by
    simp [plValid] at hv; exact hv.1.2
  exact minv_insPl h { name, desc, status := 3, prov, dlq := Dlq.default, conns := [], procs := [] } hfree rfl rfl rfl rfl rfl rfl

theorem ok_plUpdate (v : Variant) (n i name desc : Nat) (g : Mem → Except Err Unit) (s0 : St) (h : MInv n s0.mem)
    (hok : (guarded g (svcPlUpdate v i name desc) s0).1 = .ok ()) :
    MInv n (guarded g (svcPlUpdate v i name desc) s0).2.mem := by
  obtain ⟨_, hpre, hm⟩ := guarded_ok_inv _ _ s0 hok
  rw [hm]
  cases hp : s0.mem.pls i with
  | none => simp [svcPlUpdate, hp] at hpre
  | some p =>
    have hcond : ¬ (s0.mem.names name = true ∧ p.name ≠ name) := by
      simp only [svcPlUpdate, hp] at hpre
      by_cases h0 : name = 0
      · simp [h0] at hpre
      · simp only [h0, if_false] at hpre
        intro hc; simp [hc.1, hc.2] at hpre
    have hm' : (svcPlUpdate v i name desc).upd s0.mem =
        { s0.mem with pls := s0.mem.pls.set i { p with name, desc },
                      names := setName (setName s0.mem.names p.name false) name true } := by
      simp only [svcPlUpdate, hp]
    rw [hm']
    have key : ∀ m' : Mem, m'.pls = s0.mem.pls.set i { p with name, desc } → m'.cns = s0.mem.cns →
        m'.prs = s0.mem.prs → m'.names = setName (setName s0.mem.names p.name false) name true → MInv n m' := by
      intro m' e1 e2 e3 e4
      obtain ⟨a, b⟩ := names_updPl s0.mem m' h.names h.uniq i p { p with name, desc } hp hcond e1 e4
      have hr := refShape_setPl s0.mem m' i p _ hp e1 rfl rfl e2 e3
      exact ⟨a, b, refs_shape hr h.refs, wf_shape hr h.wf, below_shape hr h.below⟩
    exact key _ rfl rfl rfl rfl

/-- a field-only pipeline update (`UpdateDLQ`, `UpdateStatus`). -/
theorem ok_updPl_fields {n : Nat} {m : Mem} (h : MInv n m) (i : Id) (f : Pl → Pl)
    (hf : ∀ p, (f p).name = p.name ∧ (f p).conns = p.conns ∧ (f p).procs = p.procs) : MInv n (m.updPl i f) := by
  cases hp : m.pls i with
  | none => simp [Mem.updPl, hp]; exact h
  | some p =>
    rw [updPl_eq m i f p hp]
    exact minv_shape h (refShape_setPl _ _ i p _ hp rfl (hf p).2.1 (hf p).2.2 rfl rfl)
      (nameShape_setPl _ _ i p _ hp rfl (hf p).1 rfl)

theorem ok_updCn_fields {n : Nat} {m : Mem} (h : MInv n m) (i : Id) (f : Cn → Cn)
    (hf : ∀ c, (f c).typ = c.typ ∧ (f c).pipeline = c.pipeline ∧ (f c).procs = c.procs) : MInv n (m.updCn i f) := by
  cases hc : m.cns i with
  | none => simp [Mem.updCn, hc]; exact h
  | some c =>
    rw [updCn_eq m i f c hc]
    exact minv_shape h (refShape_setCn _ _ i c _ hc rfl (hf c).1 (hf c).2.1 (hf c).2.2 rfl rfl)
      (nameShape_same _ _ rfl rfl)

theorem ok_plDelete (n i : Nat) (s0 : St) (h : MInv n s0.mem)
    (hok : (opPlDelete i s0).1 = .ok ()) : MInv n (opPlDelete i s0).2.mem := by
  unfold opPlDelete at hok ⊢
  obtain ⟨hg, hpre, hm⟩ := guarded_ok_inv _ _ s0 hok
  rw [hm]
  cases hgp : plGuards s0.mem i with
  | error e => simp [hgp, bind, Except.bind] at hg
  | ok p =>
    obtain ⟨hp, _, _⟩ := plGuards_ok hgp
    simp only [hgp, bind, Except.bind] at hg
    have hc0 : p.conns = [] := by
      cases h1 : check p.conns.isEmpty Err.att with
      | error e => simp [h1] at hg
      | ok _ => simpa using check_ok h1
    have hr0 : p.procs = [] := by
      cases h1 : check p.conns.isEmpty Err.att with
      | error e => simp [h1] at hg
      | ok _ => simp only [h1] at hg; simpa using check_ok hg
    have hm' : (svcPlDelete i).upd s0.mem =
        { s0.mem with pls := s0.mem.pls.del i, names := setName s0.mem.names p.name false } := by
      simp only [svcPlDelete, hp]
    rw [hm']
    exact minv_delPl h i p hp hc0 hr0 rfl rfl rfl rfl

theorem cnCreate_pre_typ {id typ plugin pid name settings prov state : Nat} {m : Mem}
    (h : (svcCnCreate id typ plugin pid name settings prov state).pre m = none) : typ = 1 ∨ typ = 2 := by
  simp only [svcCnCreate] at h
  by_cases h1 : typ = 1
  · exact Or.inl h1
  · by_cases h2 : typ = 2
    · exact Or.inr h2
    · split at h
      · cases h
      · split at h
        · cases h
        · simp [h1, h2] at h

/-- the two-step effect "create connector `n`, add it to pipeline `pid`". -/
theorem ok_cnCreate_effect (v : Variant) {n : Nat} {m : Mem} (h : MInv n m) (typ plugin pid name settings prov : Nat) (p : Pl)
    (hp : m.pls pid = some p) (ht : typ = 1 ∨ typ = 2) :
    MInv (n + 1) ((svcPlAddConn v pid n).upd ((svcCnCreate n typ plugin pid name settings prov 0).upd m)) := by
  have hp1 : ((svcCnCreate n typ plugin pid name settings prov 0).upd m).pls pid = some p := hp
  simp only [svcPlAddConn]
  rw [updPl_eq _ pid _ p hp1]
  exact minv_addCn h pid p { typ, plugin, name, settings, pipeline := pid, prov, state := 0, procs := [] } hp rfl rfl ht
    rfl rfl rfl rfl

theorem ok_cnCreate (v : Variant) (n typ plugin pid name settings : Nat) (s0 : St) (h : MInv n s0.mem)
    (hok : (opCnCreate v n typ plugin pid name settings s0).1 = .ok ()) :
    MInv (n + 1) (opCnCreate v n typ plugin pid name settings s0).2.mem := by
  unfold opCnCreate at hok ⊢
  obtain ⟨b, hg, hpre, hm⟩ := orch_ok_inv _ _ s0 hok
  rw [hm]
  have hpl : ∃ p, s0.mem.pls pid = some p := by
    simp only [bind, Except.bind] at hg
    cases hgp : plGuards s0.mem pid with
    | error e => simp [hgp] at hg
    | ok p => exact ⟨p, (plGuards_ok hgp).1⟩
  obtain ⟨p, hp⟩ := hpl
  exact ok_cnCreate_effect v h typ plugin pid name settings 0 p hp (cnCreate_pre_typ hpre.1)

theorem ok_cnUpdate (v : Variant) (n i plugin name settings : Nat) (s0 : St) (h : MInv n s0.mem)
    (hok : (opCnUpdate v i plugin name settings s0).1 = .ok ()) :
    MInv n (opCnUpdate v i plugin name settings s0).2.mem := by
  unfold opCnUpdate at hok ⊢
  obtain ⟨b, _, _, hm⟩ := orch_ok_inv _ _ s0 hok
  rw [hm]
  simp only [applySteps, svcCnUpdate]
  exact ok_updCn_fields h i _ (fun c => ⟨rfl, rfl, rfl⟩)

theorem ok_cnDelete (v : Variant) (n i : Nat) (s0 : St) (h : MInv n s0.mem)
    (hok : (opCnDelete v i s0).1 = .ok ()) : MInv n (opCnDelete v i s0).2.mem := by
  unfold opCnDelete at hok ⊢
  obtain ⟨c, hg, _, hm⟩ := orch_ok_inv _ _ s0 hok
  rw [hm]
  obtain ⟨hc, _, hprocs, p, hp⟩ := cnGuardsDelete_ok hg
  simp only [applySteps, svcPlRemConn, svcCnDelete]
  have hp1 : ({ s0.mem with cns := s0.mem.cns.del i } : Mem).pls c.pipeline = some p := hp
  rw [updPl_eq _ c.pipeline _ p hp1]
  exact minv_remCn h i c.pipeline p c hp hc rfl hprocs rfl rfl rfl rfl

theorem ok_envCn (v : Variant) (n typ pid name settings : Nat) (s0 : St) (h : MInv n s0.mem)
    (hok : (opBody v n (.envCn typ pid name settings) s0).1 = .ok ()) :
    MInv (n + 1) (opBody v n (.envCn typ pid name settings) s0).2.mem := by
  simp only [opBody] at hok ⊢
  obtain ⟨h1, h2, h3⟩ := andThen_ok_inv _ _ s0 hok
  rw [h3]
  obtain ⟨hg, hpre, hm1⟩ := guarded_ok_inv _ _ s0 h1
  obtain ⟨_, hm2⟩ := run_ok_inv _ _ h2
  rw [hm2, hm1]
  have hpl : ∃ p, s0.mem.pls pid = some p := by
    unfold getPl at hg
    cases hq : s0.mem.pls pid with
    | none => simp [hq, bind, Except.bind] at hg
    | some p => exact ⟨p, rfl⟩
  obtain ⟨p, hp⟩ := hpl
  exact ok_cnCreate_effect v h typ 1 pid name settings 1 p hp (cnCreate_pre_typ hpre)

theorem prCreate_pre_plugin {id plugin ptype parent settings : Nat} {workers : Int} {prov cond : Nat} {m : Mem}
    (h : (svcPrCreate id plugin ptype parent settings workers prov cond).pre m = none) : plugin ≠ 0 := by
  simp only [svcPrCreate] at h
  split at h
  · cases h
  · split at h
    · rename_i hk; intro e; subst e; simp [prPluginKnown] at hk
    · cases h

theorem ok_prCreate_effect (v : Variant) {n : Nat} {m : Mem} (h : MInv n m) (plugin ptype parent settings : Nat)
    (workers : Int) (prov cond : Nat) (hg : plugin ≠ 0)
    (hpar : (ptype = 2 ∧ ∃ p, m.pls parent = some p) ∨ (ptype = 1 ∧ ∃ c, m.cns parent = some c)) :
    MInv (n + 1) ((attachStep v ptype parent n).act.upd ((svcPrCreate n plugin ptype parent settings workers prov cond).upd m)) := by
  rcases hpar with ⟨h2, p, hp⟩ | ⟨h1, c, hc⟩
  · subst h2
    simp only [attachStep, if_true, svcPlAddProc]
    have hp1 : ((svcPrCreate n plugin 2 parent settings workers prov cond).upd m).pls parent = some p := hp
    rw [updPl_eq _ parent _ p hp1]
    exact minv_addPrPl h parent p
      { plugin, settings, workers := if workers = 0 then 1 else workers, cond, ptype := 2, parent, prov } hp rfl rfl hg
      rfl rfl rfl rfl
  · subst h1
    simp only [attachStep, show ¬ (1 : Nat) = 2 by decide, if_false, svcCnAddProc]
    have hc1 : ((svcPrCreate n plugin 1 parent settings workers prov cond).upd m).cns parent = some c := hc
    rw [updCn_eq _ parent _ c hc1]
    exact minv_addPrCn h parent c
      { plugin, settings, workers := if workers = 0 then 1 else workers, cond, ptype := 1, parent, prov } hc rfl rfl hg
      rfl rfl rfl rfl

theorem procPipeline_parent {m : Mem} {ptype parent : Nat} {p : Pl} (h : procPipeline m ptype parent = .ok p) :
    (ptype = 2 ∧ ∃ p, m.pls parent = some p) ∨ (ptype = 1 ∧ ∃ c, m.cns parent = some c) := by
  rcases procPipeline_ok h with ⟨a, b⟩ | ⟨a, c, hc, _⟩
  · exact Or.inl ⟨a, p, b⟩
  · exact Or.inr ⟨a, c, hc⟩

theorem ok_prCreate (v : Variant) (n plugin ptype parent settings : Nat) (workers : Int) (cond : Nat) (s0 : St)
    (h : MInv n s0.mem) (hok : (opPrCreate v n plugin ptype parent settings workers cond s0).1 = .ok ()) :
    MInv (n + 1) (opPrCreate v n plugin ptype parent settings workers cond s0).2.mem := by
  unfold opPrCreate at hok ⊢
  obtain ⟨b, hg, hpre, hm⟩ := orch_ok_inv _ _ s0 hok
  rw [hm]
  have hpp : ∃ p, procPipeline s0.mem ptype parent = .ok p := by
    simp only [bind, Except.bind] at hg
    cases hq : procPipeline s0.mem ptype parent with
    | error e => simp [hq] at hg
    | ok p => exact ⟨p, rfl⟩
  obtain ⟨p, hpp⟩ := hpp
  exact ok_prCreate_effect v h plugin ptype parent settings workers 0 cond (prCreate_pre_plugin hpre.1)
    (procPipeline_parent hpp)

theorem ok_envPr (v : Variant) (n ptype parent settings : Nat) (s0 : St) (h : MInv n s0.mem)
    (hok : (opBody v n (.envPr ptype parent settings) s0).1 = .ok ()) :
    MInv (n + 1) (opBody v n (.envPr ptype parent settings) s0).2.mem := by
  simp only [opBody] at hok ⊢
  obtain ⟨h1, h2, h3⟩ := andThen_ok_inv _ _ s0 hok
  rw [h3]
  obtain ⟨hg, hpre, hm1⟩ := guarded_ok_inv _ _ s0 h1
  obtain ⟨_, hm2⟩ := run_ok_inv _ _ h2
  rw [hm2, hm1]
  have hpar : (ptype = 2 ∧ ∃ p, s0.mem.pls parent = some p) ∨ (ptype = 1 ∧ ∃ c, s0.mem.cns parent = some c) := by
    by_cases e2 : ptype = 2
    · simp only [e2, if_true] at hg
      unfold getPl at hg
      cases hq : s0.mem.pls parent with
      | none => simp [hq, bind, Except.bind] at hg
      | some p => exact Or.inl ⟨e2, p, rfl⟩
    · by_cases e1 : ptype = 1
      · simp only [e2, e1, if_false, if_true] at hg
        unfold getCn at hg
        cases hq : s0.mem.cns parent with
        | none => simp [hq, bind, Except.bind] at hg
        | some c => exact Or.inr ⟨e1, c, rfl⟩
      · simp [e2, e1] at hg
  have := ok_prCreate_effect v h 1 ptype parent settings 0 1 0 (by decide) hpar
  rcases hpar with ⟨e2, _⟩ | ⟨e1, _⟩
  · subst e2; simpa [attachStep] using this
  · subst e1; simpa [attachStep] using this

theorem ok_prUpdate (v : Variant) (n i plugin settings : Nat) (workers : Int) (s0 : St) (h : MInv n s0.mem)
    (hok : (opPrUpdate v i plugin settings workers s0).1 = .ok ()) :
    MInv n (opPrUpdate v i plugin settings workers s0).2.mem := by
  unfold opPrUpdate at hok ⊢
  obtain ⟨r, hg, hpre, hm⟩ := orch_ok_inv _ _ s0 hok
  rw [hm]
  obtain ⟨hr, _, _⟩ := prGuards_ok hg
  have hpl : plugin ≠ 0 := by
    have := hpre.1
    simp only [svcPrUpdate, hr] at this
    intro e; simp [e] at this
  simp only [applySteps, svcPrUpdate]
  rw [updPr_eq _ i _ r hr]
  exact minv_shape h
    (refShape_setPr _ _ i r _ hr rfl ⟨fun e => absurd e hpl, fun e => absurd e (h.wf.prPlg i r hr)⟩ rfl rfl rfl rfl)
    (nameShape_same _ _ rfl rfl)

theorem ok_prDelete (v : Variant) (n i : Nat) (s0 : St) (h : MInv n s0.mem)
    (hok : (opPrDelete v i s0).1 = .ok ()) : MInv n (opPrDelete v i s0).2.mem := by
  unfold opPrDelete at hok ⊢
  obtain ⟨r, hg, _, hm⟩ := orch_ok_inv _ _ s0 hok
  rw [hm]
  obtain ⟨hr, _, _⟩ := prGuards_ok hg
  rcases h.refs.procPar i r hr with ⟨h2, p, hp, _⟩ | ⟨h1, c, hc, _⟩
  · simp only [applySteps, detachStep, h2, if_true, svcPlRemProc, svcPrDelete]
    have hp1 : ({ s0.mem with prs := s0.mem.prs.del i } : Mem).pls r.parent = some p := hp
    rw [updPl_eq _ r.parent _ p hp1]
    exact minv_remPrPl h i r.parent p r hp hr h2 rfl rfl rfl rfl rfl
  · have h12 : ¬ r.ptype = 2 := by omega
    simp only [applySteps, detachStep, h12, if_false, svcCnRemProc, svcPrDelete]
    have hc1 : ({ s0.mem with prs := s0.mem.prs.del i } : Mem).cns r.parent = some c := hc
    rw [updCn_eq _ r.parent _ c hc1]
    exact minv_remPrCn h i r.parent c r hc hr h1 rfl rfl rfl rfl rfl

/-- **every operation**: a call that returns success maps `MInv n` to `MInv (n+1)`. -/
theorem opBody_ok_minv (v : Variant) (n : Nat) (op : Op) (s0 : St) (h : MInv n s0.mem)
    (hok : (opBody v n op s0).1 = .ok ()) : MInv (n + 1) (opBody v n op s0).2.mem := by
  cases op with
  | plCreate name desc => exact ok_plCreate n name desc 0 s0 h hok
  | plUpdate i name desc => exact (ok_plUpdate v n i name desc _ s0 h hok).mono (Nat.le_succ n)
  | plUpdateDLQ i d =>
    simp only [opBody, opPlUpdateDLQ] at hok ⊢
    obtain ⟨_, _, hm⟩ := guarded_ok_inv _ _ s0 hok
    rw [hm]
    exact (ok_updPl_fields h i (fun p => { p with dlq := d }) (fun p => ⟨rfl, rfl, rfl⟩)).mono (Nat.le_succ n)
  | plDelete i => exact (ok_plDelete n i s0 h hok).mono (Nat.le_succ n)
  | cnCreate typ plugin pid name settings => exact ok_cnCreate v n typ plugin pid name settings s0 h hok
  | cnUpdate i plugin name settings => exact (ok_cnUpdate v n i plugin name settings s0 h hok).mono (Nat.le_succ n)
  | cnDelete i => exact (ok_cnDelete v n i s0 h hok).mono (Nat.le_succ n)
  | prCreate plugin ptype parent settings workers cond =>
    exact ok_prCreate v n plugin ptype parent settings workers cond s0 h hok
  | prUpdate i plugin settings workers => exact (ok_prUpdate v n i plugin settings workers s0 h hok).mono (Nat.le_succ n)
  | prDelete i => exact (ok_prDelete v n i s0 h hok).mono (Nat.le_succ n)
  | envStatus i st =>
    simp only [opBody] at hok ⊢
    obtain ⟨_, hm⟩ := run_ok_inv _ s0 hok
    rw [hm]
    exact (ok_updPl_fields h i (fun p => { p with status := st }) (fun p => ⟨rfl, rfl, rfl⟩)).mono (Nat.le_succ n)
  | envState i st =>
    simp only [opBody] at hok ⊢
    obtain ⟨_, hm⟩ := run_ok_inv _ s0 hok
    rw [hm]
    exact (ok_updCn_fields h i (fun c => { c with state := st }) (fun c => ⟨rfl, rfl, rfl⟩)).mono (Nat.le_succ n)
  | envPl name => exact ok_plCreate n name 0 1 s0 h hok
  | envCn typ pid name settings => exact ok_envCn v n typ pid name settings s0 h hok
  | envPr ptype parent settings => exact ok_envPr v n ptype parent settings s0 h hok

end Conduit.Ctl
