import ConduitModel.Proofs.CtlOps

/-!
memory = store: every service call syncs exactly the entry its mutation touches (footprint), so
a successful call keeps the store a copy of memory; failed calls are covered by atomicity.
-/
namespace Conduit.Ctl

/-- the store that is an exact copy of memory. -/
def KV.ofMem (m : Mem) : KV := { pls := m.pls, cns := m.cns, prs := m.prs }

/-- a service call's mutation touches only the entry it then writes to the store. -/
def Footprint (f : Svc) : Prop :=
  ∀ m, (∀ j, (f.kind ≠ .pl ∨ j ≠ f.id) → (f.upd m).pls j = m.pls j) ∧
       (∀ j, (f.kind ≠ .cn ∨ j ≠ f.id) → (f.upd m).cns j = m.cns j) ∧
       (∀ j, (f.kind ≠ .pr ∨ j ≠ f.id) → (f.upd m).prs j = m.prs j)

theorem KV.ext' {a b : KV} (h1 : a.pls = b.pls) (h2 : a.cns = b.cns) (h3 : a.prs = b.prs) : a = b := by
  cases a; cases b; simp at *; exact ⟨h1, h2, h3⟩

theorem sync_ofMem (f : Svc) (hf : Footprint f) (m : Mem) :
    (KV.ofMem m).sync (f.upd m) f.kind f.id = KV.ofMem (f.upd m) := by
  obtain ⟨h1, h2, h3⟩ := hf m
  cases hk : f.kind
  · refine KV.ext' ?_ ?_ ?_
    · funext j; by_cases hj : j = f.id
      · simp [KV.sync, KV.ofMem, hj]
      · simp [KV.sync, KV.ofMem, hj, h1 j (Or.inr hj)]
    · funext j; simp [KV.sync, KV.ofMem, h2 j (Or.inl (by simp [hk]))]
    · funext j; simp [KV.sync, KV.ofMem, h3 j (Or.inl (by simp [hk]))]
  · refine KV.ext' ?_ ?_ ?_
    · funext j; simp [KV.sync, KV.ofMem, h1 j (Or.inl (by simp [hk]))]
    · funext j; by_cases hj : j = f.id
      · simp [KV.sync, KV.ofMem, hj]
      · simp [KV.sync, KV.ofMem, hj, h2 j (Or.inr hj)]
    · funext j; simp [KV.sync, KV.ofMem, h3 j (Or.inl (by simp [hk]))]
  · refine KV.ext' ?_ ?_ ?_
    · funext j; simp [KV.sync, KV.ofMem, h1 j (Or.inl (by simp [hk]))]
    · funext j; simp [KV.sync, KV.ofMem, h2 j (Or.inl (by simp [hk]))]
    · funext j; by_cases hj : j = f.id
      · simp [KV.sync, KV.ofMem, hj]
      · simp [KV.sync, KV.ofMem, hj, h3 j (Or.inr hj)]

/-! ### every service method has the footprint property -/

theorem fp_updPl (id : Id) (g : Pl → Pl) (keep : Bool) (pre : Mem → Option Err) (nm : Option Nat) :
    Footprint { pre, upd := fun m => m.updPl id g, kind := .pl, id, keep, nm } := by
  intro m
  refine ⟨fun j hj => ?_, fun j _ => ?_, fun j _ => ?_⟩ <;> simp only [Mem.updPl] <;> split <;> try rfl
  rcases hj with hj | hj
  · exact absurd rfl hj
  · exact Map.set_other _ _ _ _ hj

theorem fp_updCn (id : Id) (g : Cn → Cn) (keep : Bool) (pre : Mem → Option Err) :
    Footprint { pre, upd := fun m => m.updCn id g, kind := .cn, id, keep } := by
  intro m
  refine ⟨fun j _ => ?_, fun j hj => ?_, fun j _ => ?_⟩ <;> simp only [Mem.updCn] <;> split <;> try rfl
  rcases hj with hj | hj
  · exact absurd rfl hj
  · exact Map.set_other _ _ _ _ hj

theorem fp_updPr (id : Id) (g : Pr → Pr) (keep : Bool) (pre : Mem → Option Err) :
    Footprint { pre, upd := fun m => m.updPr id g, kind := .pr, id, keep } := by
  intro m
  refine ⟨fun j _ => ?_, fun j _ => ?_, fun j hj => ?_⟩ <;> simp only [Mem.updPr] <;> split <;> try rfl
  rcases hj with hj | hj
  · exact absurd rfl hj
  · exact Map.set_other _ _ _ _ hj

theorem fp_plCreate (id name desc prov : Nat) : Footprint (svcPlCreate id name desc prov) := by
  intro m
  refine ⟨fun j hj => ?_, fun j _ => rfl, fun j _ => rfl⟩
  rcases hj with hj | hj
  · exact absurd rfl hj
  · exact Map.set_other _ _ _ _ hj

theorem fp_plUpdate (v : Variant) (id name desc : Nat) : Footprint (svcPlUpdate v id name desc) := by
  intro m
  refine ⟨fun j hj => ?_, fun j _ => ?_, fun j _ => ?_⟩ <;> simp only [svcPlUpdate] <;> split <;> try rfl
  rcases hj with hj | hj
  · exact absurd rfl hj
  · exact Map.set_other _ _ _ _ hj

theorem fp_plDelete (id : Nat) : Footprint (svcPlDelete id) := by
  intro m
  refine ⟨fun j hj => ?_, fun j _ => ?_, fun j _ => ?_⟩ <;> simp only [svcPlDelete] <;> split <;> try rfl
  rcases hj with hj | hj
  · exact absurd rfl hj
  · exact Map.del_other _ _ _ hj

theorem fp_cnCreate (id typ plugin pid name settings prov state : Nat) :
    Footprint (svcCnCreate id typ plugin pid name settings prov state) := by
  intro m
  refine ⟨fun j _ => rfl, fun j hj => ?_, fun j _ => rfl⟩
  rcases hj with hj | hj
  · exact absurd rfl hj
  · exact Map.set_other _ _ _ _ hj

theorem fp_cnDelete (id : Nat) : Footprint (svcCnDelete id) := by
  intro m
  refine ⟨fun j _ => rfl, fun j hj => ?_, fun j _ => rfl⟩
  rcases hj with hj | hj
  · exact absurd rfl hj
  · exact Map.del_other _ _ _ hj

theorem fp_prCreate (id plugin ptype parent settings : Nat) (workers : Int) (prov cond : Nat) :
    Footprint (svcPrCreate id plugin ptype parent settings workers prov cond) := by
  intro m
  refine ⟨fun j _ => rfl, fun j _ => rfl, fun j hj => ?_⟩
  rcases hj with hj | hj
  · exact absurd rfl hj
  · exact Map.set_other _ _ _ _ hj

theorem fp_prDelete (id : Nat) : Footprint (svcPrDelete id) := by
  intro m
  refine ⟨fun j _ => rfl, fun j _ => rfl, fun j hj => ?_⟩
  rcases hj with hj | hj
  · exact absurd rfl hj
  · exact Map.del_other _ _ _ hj

/-- all steps of a list have the footprint property. -/
def FootprintAll (L : List Step) : Prop := ∀ st ∈ L, Footprint st.act

/-- a successful service call keeps the write target an exact copy of memory. -/
theorem stepOk_tx_agree (f : Svc) (hf : Footprint f) (s : St) (h : s.tx = some (KV.ofMem s.mem)) :
    (stepOk f s).tx = some (KV.ofMem (stepOk f s).mem) := by
  rw [(stepOk_tx_some f s _ h).1, stepOk_mem, sync_ofMem f hf]

theorem okRun_tx_agree (L : List Step) : ∀ (s : St), FootprintAll L → s.tx = some (KV.ofMem s.mem) →
    (okRun s L).tx = some (KV.ofMem (okRun s L).mem) := by
  induction L with
  | nil => intro s _ h; exact h
  | cons st rest ih =>
    intro s hf h
    exact ih _ (fun x hx => hf x (List.mem_cons_of_mem _ hx)) (stepOk_tx_agree _ (hf st List.mem_cons_self) s h)

theorem memEqStore_iff (s : St) : MemEqStore s ↔ s.kv = KV.ofMem s.mem ∧ s.tx = none := by
  unfold MemEqStore KV.ofMem
  constructor
  · rintro ⟨a, b, c, d⟩; exact ⟨KV.ext' a.symm b.symm c.symm, d⟩
  · rintro ⟨a, d⟩; rw [a]; exact ⟨rfl, rfl, rfl, d⟩

/-! ### no transaction is left open -/

theorem Svc.run_tx_none (f : Svc) (s : St) (h : s.tx = none) : (f.run s).2.tx = none := by
  unfold Svc.run
  split
  · exact h
  · split
    · exact h
    · exact (St.write_tx_none _ _ (by exact h)).1

theorem orch_tx_none {β} (g : Mem → Except Err β) (steps : β → List Step) (s : St) (h : s.tx = none) :
    (orch g steps s).2.tx = none := by
  unfold orch
  split
  · exact h
  · simp only
    split
    · rfl
    · split
      · split
        · split <;> rfl
        · rfl
      · split <;> rfl

theorem guarded_tx_none (g : Mem → Except Err Unit) (f : Svc) (s : St) (h : s.tx = none) :
    (guarded g f s).2.tx = none := by
  unfold guarded; split
  · exact h
  · exact Svc.run_tx_none f s h

theorem andThen_tx_none (a b : M Unit) (s : St) (ha : (a s).2.tx = none)
    (hb : ∀ s', s'.tx = none → (b s').2.tx = none) : (M.andThen a b s).2.tx = none := by
  unfold M.andThen
  split
  · rename_i s' heq; exact hb s' (by rw [heq] at ha; exact ha)
  · rename_i e s' heq; rw [heq] at ha; exact ha

theorem exec_tx_none (v : Variant) (s : St) (op : Op) (k : Option Nat) (h : s.tx = none) :
    (exec v s op k).2.tx = none := by
  unfold exec
  simp only
  cases op <;> simp only [opBody, opPlCreate, opPlUpdate, opPlUpdateDLQ, opPlDelete, opCnCreate, opCnUpdate,
    opCnDelete, opPrCreate, opPrUpdate, opPrDelete]
  all_goals first
    | exact Svc.run_tx_none _ _ h
    | exact guarded_tx_none _ _ _ h
    | exact orch_tx_none _ _ _ h
    | exact andThen_tx_none _ _ _ (guarded_tx_none _ _ _ h) (fun s' hs' => Svc.run_tx_none _ s' hs')

/-! ### successful calls keep the store a copy of memory -/

theorem Svc.run_ok_state {f : Svc} {s s' : St} (h : f.run s = (.ok (), s')) : s' = stepOk f s := by
  unfold Svc.run at h
  split at h
  · simp at h
  · split at h
    · simp at h
    · simp at h; rw [← h]; rfl

theorem runSteps_none (L : List Step) : ∀ (stack stk : List Svc) (s s' : St),
    runSteps L stack s = (none, stk, s') → s' = okRun s L := by
  induction L with
  | nil => intro stack stk s s' h; simp [runSteps] at h; simp [okRun, h.2]
  | cons st rest ih =>
    intro stack stk s s' h
    simp only [runSteps] at h
    split at h
    · rename_i s1 heq
      rw [Svc.run_ok_state heq] at h
      exact ih _ _ _ _ h
    · simp at h

theorem stepOk_memEq (f : Svc) (hf : Footprint f) (s : St) (h1 : s.kv = KV.ofMem s.mem) (h2 : s.tx = none) :
    (stepOk f s).kv = KV.ofMem (stepOk f s).mem ∧ (stepOk f s).tx = none := by
  obtain ⟨a, b⟩ := stepOk_tx_none f s h2
  rw [b, h1, stepOk_mem, sync_ofMem f hf]; exact ⟨rfl, a⟩

/-- a transactional orchestrator method that succeeds leaves the store a copy of memory. -/
theorem orch_ok_memEq {β} (g : Mem → Except Err β) (steps : β → List Step) (s : St)
    (h1 : s.kv = KV.ofMem s.mem) (hfp : ∀ b, g s.mem = .ok b → FootprintAll (steps b))
    (hok : (orch g steps s).1 = .ok ()) :
    (orch g steps s).2.kv = KV.ofMem (orch g steps s).2.mem ∧ (orch g steps s).2.tx = none := by
  unfold orch at hok ⊢
  cases hf : s.failsNow
  · simp only [hf] at hok ⊢
    cases hg : g s.mem with
    | error e => simp [hg] at hok
    | ok b =>
      simp only [hg] at hok ⊢
      rcases hrs : runSteps (steps b) [] { s with ctr := s.ctr + 1, tx := some s.kv } with ⟨r, stk, s'⟩
      simp only [hrs] at hok ⊢
      cases r with
      | some e => simp at hok; split at hok <;> simp at hok
      | none =>
        simp only at hok ⊢
        have hs' := runSteps_none _ _ _ _ _ hrs
        cases hc : s'.failsNow
        · simp only [hc] at hok ⊢
          have := okRun_tx_agree (steps b) { s with ctr := s.ctr + 1, tx := some s.kv } (hfp b hg) (by simp [h1])
          rw [← hs'] at this
          simp [this]
        · simp only [hc] at hok; simp at hok; split at hok <;> simp at hok
  · simp [hf] at hok

theorem guarded_ok_memEq (g : Mem → Except Err Unit) (f : Svc) (hf : Footprint f) (s : St)
    (h1 : s.kv = KV.ofMem s.mem) (h2 : s.tx = none) (hok : (guarded g f s).1 = .ok ()) :
    (guarded g f s).2.kv = KV.ofMem (guarded g f s).2.mem ∧ (guarded g f s).2.tx = none := by
  cases hg : g s.mem with
  | error e => simp [guarded, hg] at hok
  | ok u =>
    have hgd : guarded g f s = f.run s := by simp [guarded, hg]
    rw [hgd] at hok ⊢
    rcases hr : f.run s with ⟨r, s'⟩
    rw [hr] at hok
    cases r with
    | error e => simp at hok
    | ok u =>
      have := Svc.run_ok_state hr
      subst this
      exact stepOk_memEq f hf s h1 h2

theorem fp_attach (v : Variant) (ptype parent rid : Nat) : Footprint (attachStep v ptype parent rid).act := by
  unfold attachStep; split
  · exact fp_updPl _ _ _ _ _
  · exact fp_updCn _ _ _ _

theorem fp_detach (v : Variant) (ptype parent rid : Nat) : Footprint (detachStep v ptype parent rid).act := by
  unfold detachStep; split
  · exact fp_updPl _ _ _ _ _
  · exact fp_updCn _ _ _ _

theorem run_ok_memEq (f : Svc) (hf : Footprint f) (s : St)
    (h1 : s.kv = KV.ofMem s.mem) (h2 : s.tx = none) (hok : (f.run s).1 = .ok ()) :
    (f.run s).2.kv = KV.ofMem (f.run s).2.mem ∧ (f.run s).2.tx = none := by
  have := guarded_ok_memEq (fun _ => .ok ()) f hf s h1 h2 (by simpa [guarded] using hok)
  simpa [guarded] using this

theorem andThen_ok_memEq (a b : M Unit) (s : St)
    (ha : (a s).1 = .ok () → (a s).2.kv = KV.ofMem (a s).2.mem ∧ (a s).2.tx = none)
    (hb : ∀ s', s'.kv = KV.ofMem s'.mem → s'.tx = none → (b s').1 = .ok () →
      (b s').2.kv = KV.ofMem (b s').2.mem ∧ (b s').2.tx = none)
    (hok : (M.andThen a b s).1 = .ok ()) :
    (M.andThen a b s).2.kv = KV.ofMem (M.andThen a b s).2.mem ∧ (M.andThen a b s).2.tx = none := by
  unfold M.andThen at hok ⊢
  rcases hr : a s with ⟨r, s'⟩
  rw [hr] at hok ha
  cases r with
  | error e => simp at hok
  | ok u =>
    cases u
    simp only at hok ⊢
    obtain ⟨x, y⟩ := ha rfl
    exact hb s' x y hok

/-- **memory = store, success case**: whatever the failing index, a call that returns
success leaves the store an exact copy of memory and no transaction open. -/
theorem exec_ok_memEq (v : Variant) (s : St) (op : Op) (k : Option Nat) (h : MemEqStore s)
    (hok : (exec v s op k).1 = .ok ()) : MemEqStore (exec v s op k).2 := by
  obtain ⟨h1, h2⟩ := (memEqStore_iff s).1 h
  rw [memEqStore_iff]
  unfold exec at hok ⊢
  simp only at hok ⊢
  generalize (if op.isApi then k else none) = k' at hok ⊢
  have h1' : ({ s with ctr := 0, failAt := k' } : St).kv = KV.ofMem ({ s with ctr := 0, failAt := k' } : St).mem := h1
  have h2' : ({ s with ctr := 0, failAt := k' } : St).tx = none := h2
  cases op <;> simp only [opBody, opPlCreate, opPlUpdate, opPlUpdateDLQ, opPlDelete, opCnCreate, opCnUpdate,
    opCnDelete, opPrCreate, opPrUpdate, opPrDelete] at hok ⊢
  case plCreate => exact run_ok_memEq _ (fp_plCreate _ _ _ _) _ h1' h2' hok
  case plUpdate => exact guarded_ok_memEq _ _ (fp_plUpdate _ _ _ _) _ h1' h2' hok
  case plUpdateDLQ => exact guarded_ok_memEq _ _ (fp_updPl _ _ _ _ _) _ h1' h2' hok
  case plDelete => exact guarded_ok_memEq _ _ (fp_plDelete _) _ h1' h2' hok
  case cnCreate =>
    refine orch_ok_memEq _ _ _ h1' (fun b _ st hst => ?_) hok
    simp at hst; rcases hst with rfl | rfl
    · exact fp_cnCreate _ _ _ _ _ _ _ _
    · exact fp_updPl _ _ _ _ _
  case cnUpdate =>
    refine orch_ok_memEq _ _ _ h1' (fun b _ st hst => ?_) hok
    simp at hst; subst hst; exact fp_updCn _ _ _ _
  case cnDelete =>
    refine orch_ok_memEq _ _ _ h1' (fun b _ st hst => ?_) hok
    simp at hst; rcases hst with rfl | rfl
    · exact fp_cnDelete _
    · exact fp_updPl _ _ _ _ _
  case prCreate =>
    refine orch_ok_memEq _ _ _ h1' (fun b _ st hst => ?_) hok
    simp at hst; rcases hst with rfl | rfl
    · exact fp_prCreate _ _ _ _ _ _ _ _
    · exact fp_attach _ _ _ _
  case prUpdate =>
    refine orch_ok_memEq _ _ _ h1' (fun b _ st hst => ?_) hok
    simp at hst; subst hst; exact fp_updPr _ _ _ _
  case prDelete =>
    refine orch_ok_memEq _ _ _ h1' (fun b _ st hst => ?_) hok
    simp at hst; rcases hst with rfl | rfl
    · exact fp_prDelete _
    · exact fp_detach _ _ _ _
  case envStatus => exact run_ok_memEq _ (fp_updPl _ _ _ _ _) _ h1' h2' hok
  case envState => exact run_ok_memEq _ (fp_updCn _ _ _ _) _ h1' h2' hok
  case envPl => exact run_ok_memEq _ (fp_plCreate _ _ _ _) _ h1' h2' hok
  case envCn =>
    exact andThen_ok_memEq _ _ _ (guarded_ok_memEq _ _ (fp_cnCreate _ _ _ _ _ _ _ _) _ h1' h2')
      (fun s' a b c => run_ok_memEq _ (fp_updPl _ _ _ _ _) s' a b c) hok
  case envPr t par st =>
    refine andThen_ok_memEq _ _ _ (guarded_ok_memEq _ _ (fp_prCreate _ _ _ _ _ _ _ _) _ h1' h2')
      (fun s' a b c => ?_) hok
    by_cases ht : t = 2
    · simp only [ht, if_true] at c ⊢
      exact run_ok_memEq _ (fp_updPl _ _ _ _ _) s' a b c
    · simp only [ht, if_false] at c ⊢
      exact run_ok_memEq _ (fp_updCn _ _ _ _) s' a b c

/-! ### environment operations (never fault-injected): an error means nothing happened -/

theorem run_nofail_err (f : Svc) (s : St) (hf : s.failAt = none) (he : (f.run s).1 ≠ .ok ()) : (f.run s).2 = s := by
  have hn : s.failsNow = false := by simp [St.failsNow, hf]
  cases hp : f.pre s.mem with
  | some e => rw [Svc.run_pre_err hp]
  | none => rw [Svc.run_ok hp hn] at he; exact absurd rfl he

theorem run_nofail_ok (f : Svc) (s : St) (hf : s.failAt = none) (hp : f.pre s.mem = none) :
    f.run s = (.ok (), stepOk f s) := Svc.run_ok hp (by simp [St.failsNow, hf])

theorem env_err_unchanged (v : Variant) (s : St) (op : Op) (k : Option Nat) (hapi : op.isApi = false)
    (he : (exec v s op k).1 ≠ .ok ()) : (exec v s op k).2.view = s.view := by
  unfold exec at he ⊢
  simp only [hapi, Bool.false_eq_true, if_false] at he ⊢
  have hf : ({ s with ctr := 0, failAt := none } : St).failAt = none := rfl
  cases op <;> (try (simp [Op.isApi] at hapi)) <;> simp only [opBody] at he ⊢
  case envStatus i st =>
    have := run_nofail_err (svcPlStatus i st) _ hf he
    simp [this, St.view]
  case envState i st =>
    have := run_nofail_err (svcCnSetState i st) _ hf he
    simp [this, St.view]
  case envPl n =>
    have := run_nofail_err (svcPlCreate s.next n 0 1) _ hf he
    simp [this, St.view]
  case envCn typ pid name settings =>
    unfold M.andThen guarded at he ⊢
    cases hg : (do let _ ← getPl s.mem pid; pure () : Except Err Unit) with
    | error e => simp only [hg] at he ⊢; simp [St.view]
    | ok u =>
      cases u
      have hg' : (do let _ ← getPl ({ s with ctr := 0, failAt := none } : St).mem pid; pure () : Except Err Unit) = .ok () := hg
      simp only [hg'] at he ⊢
      cases hp : (svcCnCreate s.next typ 1 pid name settings 1 0).pre s.mem with
      | some e =>
        have := Svc.run_pre_err (f := svcCnCreate s.next typ 1 pid name settings 1 0) (s := { s with ctr := 0, failAt := none }) hp
        simp only [this] at he ⊢; simp [St.view]
      | none =>
        have h1 := run_nofail_ok (svcCnCreate s.next typ 1 pid name settings 1 0) { s with ctr := 0, failAt := none } hf hp
        simp only [h1] at he ⊢
        -- the pipeline exists (guard), so AddConnector's validation passes: no error possible
        have hpl : ∃ p, s.mem.pls pid = some p := by
          unfold getPl at hg
          cases h : s.mem.pls pid with
          | none => simp [h, bind, Except.bind] at hg
          | some p => exact ⟨p, rfl⟩
        obtain ⟨p, hp2⟩ := hpl
        have hpre2 : (svcPlAddConn v pid s.next).pre (stepOk (svcCnCreate s.next typ 1 pid name settings 1 0) { s with ctr := 0, failAt := none }).mem = none := by
          simp [svcPlAddConn, svcCnCreate, preHasPl, hp2]
        have h2 := run_nofail_ok (svcPlAddConn v pid s.next) (stepOk (svcCnCreate s.next typ 1 pid name settings 1 0) { s with ctr := 0, failAt := none })
          (by simp) hpre2
        rw [h2] at he; exact absurd rfl he
  case envPr ptype parent settings =>
    unfold M.andThen guarded at he ⊢
    generalize hgd : (if ptype = 2 then (do let _ ← getPl s.mem parent; pure () : Except Err Unit)
        else if ptype = 1 then (do let _ ← getCn s.mem parent; pure ()) else .error .inv) = g at he ⊢
    have hg'' : (if ptype = 2 then (do let _ ← getPl ({ s with ctr := 0, failAt := none } : St).mem parent; pure () : Except Err Unit)
        else if ptype = 1 then (do let _ ← getCn ({ s with ctr := 0, failAt := none } : St).mem parent; pure ()) else .error .inv) = g := hgd
    simp only [hg''] at he ⊢
    cases g with
    | error e => simp [St.view]
    | ok u =>
      cases u
      simp only at he ⊢
      cases hp : (svcPrCreate s.next 1 ptype parent settings 0 1 0).pre s.mem with
      | some e =>
        have := Svc.run_pre_err (f := svcPrCreate s.next 1 ptype parent settings 0 1 0) (s := { s with ctr := 0, failAt := none }) hp
        simp only [this] at he ⊢; simp [St.view]
      | none =>
        have h1 := run_nofail_ok (svcPrCreate s.next 1 ptype parent settings 0 1 0) { s with ctr := 0, failAt := none } hf hp
        simp only [h1] at he ⊢
        by_cases h2 : ptype = 2
        · simp only [h2, if_true] at hgd he
          have hpl : ∃ p, s.mem.pls parent = some p := by
            unfold getPl at hgd
            cases h : s.mem.pls parent with
            | none => simp [h, bind, Except.bind] at hgd
            | some p => exact ⟨p, rfl⟩
          obtain ⟨p, hp2⟩ := hpl
          have h3 := run_nofail_ok (svcPlAddProc v parent s.next) (stepOk (svcPrCreate s.next 1 2 parent settings 0 1 0) { s with ctr := 0, failAt := none })
            (by simp) (by simp [svcPlAddProc, svcPrCreate, preHasPl, hp2])
          subst h2
          rw [h3] at he; exact absurd rfl he
        · by_cases h1' : ptype = 1
          · simp only [h2, h1', if_false, if_true] at hgd he
            have hcn : ∃ c, s.mem.cns parent = some c := by
              unfold getCn at hgd
              cases h : s.mem.cns parent with
              | none => simp [h, bind, Except.bind] at hgd
              | some c => exact ⟨c, rfl⟩
            obtain ⟨c, hc2⟩ := hcn
            have h3 := run_nofail_ok (svcCnAddProc v parent s.next) (stepOk (svcPrCreate s.next 1 1 parent settings 0 1 0) { s with ctr := 0, failAt := none })
              (by simp) (by simp [svcCnAddProc, svcPrCreate, preHasCn, hc2])
            subst h1'
            simp only [show ¬ (1 : Nat) = 2 by decide, if_false] at he
            rw [h3] at he; exact absurd rfl he
          · simp [h2, h1'] at hgd

end Conduit.Ctl
