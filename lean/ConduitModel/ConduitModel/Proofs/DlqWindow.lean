import ConduitModel.Model.DlqWindow
import ConduitModel.Spec.DlqWindow

namespace Conduit.Dlq

/-- well-formedness of the ring: cursor in range, nack counter exact. -/
structure Win.WF (w : Win) : Prop where
  cur_lt : 0 < w.win.length → w.cur < w.win.length
  nacks_eq : w.nacks = w.win.count true

theorem Win.new_wf (size thr : Nat) : (Win.new size thr).WF := by
  constructor
  · intro h; simp only [Win.new] at h ⊢; exact h
  · simp [Win.new, List.count_replicate]

theorem logical_length (w : Win) : w.logical.length = w.win.length := by
  simp only [Win.logical, List.length_append, List.length_drop, List.length_take]; omega

theorem logical_count (w : Win) : w.logical.count true = w.win.count true := by
  simp only [Win.logical, List.count_append]
  have := List.take_append_drop (w.cur + 1) w.win
  conv => rhs; rw [← this]
  simp only [List.count_append]; omega

theorem lastN_length (size : Nat) (h : List Bool) : (lastN size h).length = size := by
  simp [lastN]

theorem lastN_snoc (size : Nat) (h : List Bool) (x : Bool) (hs : 0 < size) :
    lastN size (h ++ [x]) = (lastN size h).tail ++ [x] := by
  simp only [lastN, List.length_append, List.length_cons, List.length_nil, Nat.zero_add]
  rw [← List.append_assoc, List.drop_append_of_le_length (by simp; omega)]
  rw [List.tail_drop]


theorem put_win (w : Win) (x : Bool) :
    (w.put x).win = w.win.set ((w.cur + 1) % w.win.length) x := by
  by_cases h : w.win[(w.cur + 1) % w.win.length]? = some x
  · simp only [Win.put, h, if_true]
    rw [List.getElem?_eq_some_iff] at h
    obtain ⟨hl, he⟩ := h
    rw [← he, List.set_getElem_self]
  · simp only [Win.put, h, if_false]

theorem put_cur (w : Win) (x : Bool) : (w.put x).cur = (w.cur + 1) % w.win.length := by
  by_cases h : w.win[(w.cur + 1) % w.win.length]? = some x <;> simp only [Win.put, h, if_true, if_false]

theorem put_thr (w : Win) (x : Bool) : (w.put x).thr = w.thr := by
  by_cases h : w.win[(w.cur + 1) % w.win.length]? = some x <;> simp only [Win.put, h, if_true, if_false]

theorem put_length (w : Win) (x : Bool) : (w.put x).win.length = w.win.length := by
  rw [put_win]; simp

theorem put_logical (w : Win) (x : Bool) (hn : 0 < w.win.length) (hc : w.cur < w.win.length) :
    (w.put x).logical = w.logical.tail ++ [x] := by
  unfold Win.logical
  rw [put_win, put_cur]
  by_cases h : w.cur + 1 < w.win.length
  · rw [Nat.mod_eq_of_lt h]
    rw [List.drop_set_of_lt (by omega)]
    rw [List.take_add_one, List.take_set_of_le (Nat.le_refl _)]
    have hne : List.drop (w.cur + 1) w.win ≠ [] := by
      intro hc'; have := congrArg List.length hc'; simp at this; omega
    rw [List.tail_append_of_ne_nil hne, List.tail_drop]
    simp [List.getElem?_set_self h]
  · have he : w.cur + 1 = w.win.length := by omega
    rw [he, Nat.mod_self]
    simp only [List.drop_length, List.take_length, List.nil_append, Nat.zero_add]
    rw [List.drop_set_of_lt (by omega)]
    cases hw : w.win with
    | nil => simp [hw] at hn
    | cons a t => simp


theorem logical_head (w : Win) (hn : 0 < w.win.length) (hc : w.cur < w.win.length) :
    w.logical.head? = w.win[(w.cur + 1) % w.win.length]? := by
  unfold Win.logical
  by_cases h2 : w.cur + 1 < w.win.length
  · rw [Nat.mod_eq_of_lt h2]
    have hne : List.drop (w.cur + 1) w.win ≠ [] := by
      intro hc'; have := congrArg List.length hc'; simp at this; omega
    cases hd : List.drop (w.cur + 1) w.win with
    | nil => exact absurd hd hne
    | cons a t =>
      have := List.head?_drop (l := w.win) (i := w.cur + 1)
      rw [hd] at this; simp at this
      simp [this]
  · have he : w.cur + 1 = w.win.length := by omega
    rw [he, Nat.mod_self]
    simp only [List.drop_length, List.take_length, List.nil_append]
    exact List.head?_eq_getElem?

theorem put_wf (w : Win) (x : Bool) (hwf : w.WF) (hn : 0 < w.win.length) : (w.put x).WF := by
  have hc := hwf.cur_lt hn
  constructor
  · intro _; rw [put_cur, put_length]; exact Nat.mod_lt _ hn
  · have hlog := put_logical w x hn hc
    have h1 := logical_count (w.put x)
    rw [hlog] at h1
    rw [← h1]
    have hm : (w.cur + 1) % w.win.length < w.win.length := Nat.mod_lt _ hn
    have hcnt := hwf.nacks_eq
    rw [← logical_count w] at hcnt
    have hhead := logical_head w hn hc
    by_cases h : w.win[(w.cur + 1) % w.win.length]? = some x
    · have hw : (w.put x).nacks = w.nacks := by simp only [Win.put, h, if_true]
      rw [hw, hcnt]
      rw [h] at hhead
      cases hl : w.logical with
      | nil => simp [hl] at hhead
      | cons a t =>
        simp only [hl, List.head?_cons, Option.some.injEq] at hhead
        subst hhead
        simp [List.count_cons]
    · have hg : w.win[(w.cur + 1) % w.win.length]? = some (!x) := by
        have : w.win[(w.cur + 1) % w.win.length]? = some (w.win[(w.cur + 1) % w.win.length]'hm) :=
          List.getElem?_eq_getElem hm
        rw [this] at h ⊢
        cases hv : w.win[(w.cur + 1) % w.win.length]'hm <;> cases x <;> simp_all
      rw [hg] at hhead
      cases hl : w.logical with
      | nil => simp [hl] at hhead
      | cons a t =>
        simp only [hl, List.head?_cons, Option.some.injEq] at hhead
        subst hhead
        rw [hl] at hcnt
        cases x
        · simp only [Win.put, h, if_false]
          simp at hcnt ⊢; omega
        · simp only [Win.put, h, if_false]
          simp at hcnt ⊢; omega


/-- Refinement relation between the ring buffer (either engine) and the abstract spec with the
*documented* `size`, `thr` (the ring may have been shrunk to 1 slot when `thr = 0`). -/
structure Rel (size thr : Nat) (w : Win) (s : Spec) : Prop where
  wf : w.WF
  thr_eq : w.thr = thr
  len : w.win.length = size ∨ (thr = 0 ∧ 0 < size ∧ w.win.length = 1)
  frozen : s.frozen = decide (thr < w.nacks)
  win_eq : w.win.length = size → w.logical = lastN size s.hist
  bound : s.frozen = false → recentNacks size s.hist ≤ thr

theorem rel_init (size thr : Nat) : Rel size thr (Win.new size thr) Spec.init := by
  refine ⟨Win.new_wf _ _, rfl, ?_, ?_, ?_, ?_⟩
  · simp only [Win.new]
    by_cases h : 0 < size ∧ thr = 0
    · right; simp [h]
    · left; simp [h]
  · simp [Win.new, Spec.init]
  · intro hl
    have hrot : ∀ n : Nat, List.drop 1 (List.replicate n false) ++ List.take 1 (List.replicate n false)
        = List.replicate n false := by
      intro n; cases n with
      | zero => rfl
      | succ k => simp [List.replicate_succ, ← List.replicate_succ']
    simp only [Win.new, List.length_replicate] at hl
    simp only [Win.logical, Win.new, Spec.init, lastN, hl, List.append_nil, List.length_nil,
      List.drop_zero, Nat.zero_add]
    exact hrot size
  · intro _; simp [recentNacks, lastN, Spec.init, List.count_replicate]

theorem rel_size_pos {size thr : Nat} {w : Win} {s : Spec} (r : Rel size thr w s) :
    0 < size ↔ 0 < w.win.length := by
  rcases r.len with h | ⟨_, h2, h3⟩ <;> omega

/-- the heart of the refinement: after recording `x`, ring counter and spec count agree on
the threshold test. -/
theorem rel_put_count {size thr : Nat} {w : Win} {s : Spec} (r : Rel size thr w s)
    (hs : 0 < size) (hnf : s.frozen = false) (x : Bool) :
    (thr < recentNacks size (s.hist ++ [x]) ↔ thr < (w.put x).nacks) := by
  have hn : 0 < w.win.length := (rel_size_pos r).1 hs
  have hc := r.wf.cur_lt hn
  have hwf' := put_wf w x r.wf hn
  have hcount : (w.put x).nacks = (w.logical.tail ++ [x]).count true := by
    rw [hwf'.nacks_eq, ← logical_count, put_logical w x hn hc]
  rcases r.len with h | ⟨h1, _, h3⟩
  · rw [hcount, r.win_eq h, recentNacks, lastN_snoc _ _ _ hs]
  · -- thr = 0, one slot
    subst h1
    have hb := r.bound hnf
    have hfz := r.frozen; rw [hnf] at hfz
    have hz : w.nacks = 0 := by
      have : ¬ (0 < w.nacks) := by simpa using hfz.symm
      omega
    have hl : w.logical = [false] := by
      have h1 := logical_length w
      have h2 := logical_count w
      rw [← r.wf.nacks_eq, hz] at h2
      rw [h3] at h1
      cases hm : w.logical with
      | nil => rw [hm] at h1; simp at h1
      | cons b t =>
        rw [hm] at h1 h2
        cases t with
        | nil =>
          cases b
          · rfl
          · simp at h2
        | cons c t' => simp at h1
    rw [hcount, hl, recentNacks, lastN_snoc _ _ _ hs]
    have : (lastN size s.hist).tail.count true = 0 := by
      have h0 : (lastN size s.hist).count true = 0 := by
        have := hb; unfold recentNacks at this; omega
      cases hh : lastN size s.hist with
      | nil => simp
      | cons a t =>
        rw [hh] at h0
        simp only [List.tail_cons]
        rw [List.count_cons] at h0; omega
    simp [List.count_append, this]

theorem rel_put {size thr : Nat} {w : Win} {s : Spec} (r : Rel size thr w s)
    (hs : 0 < size) (hnf : s.frozen = false) (x : Bool) :
    Rel size thr (w.put x)
      { hist := s.hist ++ [x], frozen := decide (thr < recentNacks size (s.hist ++ [x])) } := by
  have hn : 0 < w.win.length := (rel_size_pos r).1 hs
  have hc := r.wf.cur_lt hn
  refine ⟨put_wf w x r.wf hn, by rw [put_thr]; exact r.thr_eq, by rw [put_length]; exact r.len, ?_, ?_, ?_⟩
  · simp only
    have := rel_put_count r hs hnf x
    by_cases h : thr < recentNacks size (s.hist ++ [x])
    · simp [h, this.1 h]
    · simp [h, (not_congr this).1 h]
  · intro hl
    rw [put_length] at hl
    rw [put_logical w x hn hc, r.win_eq hl, lastN_snoc _ _ _ hs]
  · intro hf; simpa using hf


/-- v1 `store`: simulates one spec step; the verdict of `Nack` is the spec verdict. -/
theorem v1_step {size thr : Nat} {w : Win} {s : Spec} (r : Rel size thr w s) (x : Bool) :
    Rel size thr (w.store1 x) (Spec.step size thr s x).1 ∧
    (x = true → decide ((w.store1 x).nacks ≤ (w.store1 x).thr) = (Spec.step size thr s x).2) := by
  unfold Win.store1 Spec.step
  by_cases hs : size = 0
  · have hl : w.win.length = 0 := by
      have := rel_size_pos r; omega
    simp only [hs, hl, true_or, if_true]
    refine ⟨by simpa [hs] using r, ?_⟩
    intro _
    have := r.wf.nacks_eq
    have hw : w.win = [] := List.length_eq_zero_iff.mp hl
    rw [hw] at this; simp at this
    simp [this]
  · have hsp : 0 < size := by omega
    have hn : 0 < w.win.length := (rel_size_pos r).1 hsp
    have hn' : ¬ w.win.length = 0 := by omega
    simp only [hs, if_false, hn', false_or]
    by_cases hf : s.frozen = true
    · have hfz := r.frozen; rw [hf] at hfz
      have hlt : thr < w.nacks := by simpa using hfz.symm
      have hlt' : w.thr < w.nacks := by rw [r.thr_eq]; exact hlt
      simp only [hlt', if_true, hf]
      refine ⟨r, ?_⟩
      intro hx; subst hx
      simp; omega
    · have hnf : s.frozen = false := by simpa using hf
      have hfz := r.frozen; rw [hnf] at hfz
      have hlt : ¬ thr < w.nacks := by simpa using hfz.symm
      have hlt' : ¬ w.thr < w.nacks := by rw [r.thr_eq]; exact hlt
      simp only [hlt', if_false, hnf, Bool.false_eq_true]
      have hput := rel_put r hsp hnf x
      have hcnt := rel_put_count r hsp hnf x
      by_cases h : thr < recentNacks size (s.hist ++ [x])
      · simp only [h, if_true]
        simp only [h, decide_true] at hput
        refine ⟨hput, ?_⟩
        intro hx; subst hx
        have := hcnt.1 h
        rw [put_thr, r.thr_eq]; simp; omega
      · simp only [h, if_false]
        simp only [h, decide_false] at hput
        refine ⟨hput, ?_⟩
        intro _
        have := (not_congr hcnt).1 h
        rw [put_thr, r.thr_eq]; simp; omega


theorem run_size_zero (thr : Nat) (s : Spec) (os : List Bool) :
    Spec.run 0 thr s os = (s, List.replicate os.length true) := by
  induction os with
  | nil => rfl
  | cons o os ih => simp [Spec.run, Spec.step, ih, List.replicate_succ]

theorem run_frozen (size thr : Nat) (s : Spec) (hs : size ≠ 0) (hf : s.frozen = true) (x : Bool) (k : Nat) :
    Spec.run size thr s (List.replicate k x) = (s, List.replicate k (!x)) := by
  induction k with
  | zero => rfl
  | succ k ih => simp [Spec.run, Spec.step, hs, hf, ih, List.replicate_succ]

theorem put_nacks_same (w : Win) (x : Bool)
    (h : w.win[(w.cur + 1) % w.win.length]? = some x) : (w.put x).nacks = w.nacks := by
  simp only [Win.put, h, if_true]

theorem put_nacks_false_le (w : Win) : (w.put false).nacks ≤ w.nacks := by
  by_cases h : w.win[(w.cur + 1) % w.win.length]? = some false
  · rw [put_nacks_same w false h]; exact Nat.le_refl _
  · simp only [Win.put, h, if_false]; simp

def Win.exitCond (w : Win) (x : Bool) : Prop :=
  x = true ∧ w.win[(w.cur + 1) % w.win.length]? ≠ some x ∧ (w.put x).thr < (w.put x).nacks

theorem storeLoop_exit (w : Win) (x : Bool) (k i : Nat) (h : w.exitCond x) :
    Win.storeLoop x w (k+1) i = (w.put x, i) := by
  rw [Win.storeLoop]; exact if_pos h

theorem storeLoop_cont (w : Win) (x : Bool) (k i : Nat) (h : ¬ w.exitCond x) :
    Win.storeLoop x w (k+1) i = Win.storeLoop x (w.put x) k (i+1) := by
  rw [Win.storeLoop]; exact if_neg h

theorem run_cons_freeze (size thr : Nat) (s : Spec) (x : Bool) (os : List Bool) (hs : size ≠ 0)
    (hnf : s.frozen = false) (h : thr < recentNacks size (s.hist ++ [x])) :
    Spec.run size thr s (x :: os) =
      ((Spec.run size thr { hist := s.hist ++ [x], frozen := true } os).1,
       (!x) :: (Spec.run size thr { hist := s.hist ++ [x], frozen := true } os).2) := by
  simp [Spec.run, Spec.step, hs, hnf, h]

theorem run_cons_ok (size thr : Nat) (s : Spec) (x : Bool) (os : List Bool) (hs : size ≠ 0)
    (hnf : s.frozen = false) (h : ¬ thr < recentNacks size (s.hist ++ [x])) :
    Spec.run size thr s (x :: os) =
      ((Spec.run size thr { hist := s.hist ++ [x], frozen := false } os).1,
       true :: (Spec.run size thr { hist := s.hist ++ [x], frozen := false } os).2) := by
  simp [Spec.run, Spec.step, hs, hnf, h]

theorem v2_loop {size thr : Nat} (hsp : 0 < size) (x : Bool) :
    ∀ (k : Nat) (w : Win) (s : Spec) (i : Nat), Rel size thr w s → s.frozen = false →
      Rel size thr (Win.storeLoop x w k i).1 (Spec.run size thr s (List.replicate k x)).1 ∧
      (x = true → (Win.storeLoop x w k i).2 = i + (Spec.run size thr s (List.replicate k x)).2.count true) := by
  intro k
  induction k with
  | zero => intro w s i r _; exact ⟨by simpa [Win.storeLoop, Spec.run] using r, by intro _; simp [Win.storeLoop, Spec.run]⟩
  | succ k ih =>
    intro w s i r hnf
    have hs : size ≠ 0 := by omega
    have hput := rel_put r hsp hnf x
    have hcnt := rel_put_count r hsp hnf x
    have hfz := r.frozen; rw [hnf] at hfz
    have hle : w.nacks ≤ thr := by
      have : ¬ thr < w.nacks := by simpa using hfz.symm
      omega
    rw [List.replicate_succ]
    by_cases hex : w.exitCond x
    · rw [storeLoop_exit w x k i hex]
      obtain ⟨hx, _, hlt⟩ := hex
      rw [put_thr, r.thr_eq] at hlt
      have hfr := hcnt.2 hlt
      rw [run_cons_freeze size thr s x _ hs hnf hfr]
      simp only [hfr, decide_true] at hput
      rw [run_frozen size thr _ hs rfl x k]
      refine ⟨hput, ?_⟩
      intro _; subst hx; simp [List.count_replicate]
    · rw [storeLoop_cont w x k i hex]
      have hnlt : ¬ thr < (w.put x).nacks := by
        intro hlt
        cases x with
        | false => have := put_nacks_false_le w; omega
        | true =>
          by_cases hslot : w.win[(w.cur + 1) % w.win.length]? = some true
          · rw [put_nacks_same w true hslot] at hlt; omega
          · exact hex ⟨rfl, hslot, by rw [put_thr, r.thr_eq]; exact hlt⟩
      have hnfr := (not_congr hcnt).2 hnlt
      rw [run_cons_ok size thr s x _ hs hnf hnfr]
      simp only [hnfr, decide_false] at hput
      have := ih (w.put x) _ (i+1) hput rfl
      refine ⟨this.1, ?_⟩
      intro hx
      rw [this.2 hx]; simp; omega

/-- v2 `store(count, x)` simulates `count` spec steps; for nacks the returned number is the
number of tolerated ones. -/
theorem v2_storeN {size thr : Nat} {w : Win} {s : Spec} (r : Rel size thr w s) (x : Bool) (count : Nat) :
    Rel size thr (w.storeN count x).1 (Spec.run size thr s (List.replicate count x)).1 ∧
    (x = true → (w.storeN count x).2 = (Spec.run size thr s (List.replicate count x)).2.count true) := by
  unfold Win.storeN
  by_cases hs : size = 0
  · have hl : w.win.length = 0 := by have := rel_size_pos r; omega
    subst hs
    simp only [hl, if_true, run_size_zero]
    exact ⟨r, by intro _; simp⟩
  · have hsp : 0 < size := by omega
    have hn' : ¬ w.win.length = 0 := by have := (rel_size_pos r).1 hsp; omega
    simp only [hn', if_false]
    by_cases hf : s.frozen = true
    · have hfz := r.frozen; rw [hf] at hfz
      have hlt' : w.thr < w.nacks := by rw [r.thr_eq]; simpa using hfz.symm
      simp only [hlt', if_true, run_frozen size thr s hs hf]
      exact ⟨r, by intro hx; subst hx; simp [List.count_replicate]⟩
    · have hnf : s.frozen = false := by simpa using hf
      have hfz := r.frozen; rw [hnf] at hfz
      have hlt' : ¬ w.thr < w.nacks := by rw [r.thr_eq]; simpa using hfz.symm
      simp only [hlt', if_false]
      have := v2_loop hsp x count w s 0 r hnf
      exact ⟨this.1, by intro hx; rw [this.2 hx]; simp⟩


theorem all_false_of_count (l : List Bool) (h : l.count true = 0) : l = List.replicate l.length false := by
  induction l with
  | nil => rfl
  | cons a t ih =>
    cases a with
    | true => simp at h
    | false =>
      simp only [List.count_cons, Bool.false_eq_true, beq_iff_eq, if_false, Nat.add_zero] at h
      simp only [List.length_cons, List.replicate_succ]
      rw [← ih h]

/-- rotation invariance behind the v2 `Ack` shortcut: with no nack in the ring, skipping the
store leaves a ring that is still related to the spec state that did record the ack. -/
theorem rel_skip_ack {size thr : Nat} {w : Win} {s : Spec} (r : Rel size thr w s) (hz : w.nacks = 0) :
    Rel size thr w (Spec.step size thr s false).1 := by
  have h1 := (v1_step r false).1
  have hle : (w.store1 false).nacks ≤ w.nacks := by
    unfold Win.store1; split
    · exact Nat.le_refl _
    · exact put_nacks_false_le w
  have hz' : (w.store1 false).nacks = 0 := by omega
  have hlen : (w.store1 false).win.length = w.win.length := by
    unfold Win.store1; split
    · rfl
    · exact put_length w false
  refine ⟨r.wf, r.thr_eq, r.len, ?_, ?_, h1.bound⟩
  · rw [h1.frozen, hz, hz']
  · intro hl
    rw [← h1.win_eq (by rw [hlen]; exact hl)]
    have ha := all_false_of_count w.logical (by rw [logical_count, ← r.wf.nacks_eq]; exact hz)
    have hb := all_false_of_count (w.store1 false).logical
      (by rw [logical_count, ← h1.wf.nacks_eq]; exact hz')
    rw [ha, hb, logical_length, logical_length, hlen]

theorem rel_skip_acks {size thr : Nat} {w : Win} (hz : w.nacks = 0) :
    ∀ (n : Nat) (s : Spec), Rel size thr w s → Rel size thr w (Spec.run size thr s (List.replicate n false)).1 := by
  intro n
  induction n with
  | zero => intro s r; simpa [Spec.run] using r
  | succ n ih =>
    intro s r
    have := ih _ (rel_skip_ack r hz)
    simpa [List.replicate_succ, Spec.run] using this

theorem v2_ackN {size thr : Nat} {w : Win} {s : Spec} (r : Rel size thr w s) (n : Nat) :
    Rel size thr (w.ackN n) (Spec.run size thr s (List.replicate n false)).1 := by
  unfold Win.ackN
  split
  · rename_i hz; exact rel_skip_acks hz n s r
  · exact (v2_storeN r false n).1

/-- an ack is never refused by the spec. -/
theorem run_acks_all_true (size thr : Nat) (s : Spec) (n : Nat) :
    (Spec.run size thr s (List.replicate n false)).2 = List.replicate n true := by
  induction n generalizing s with
  | zero => rfl
  | succ n ih =>
    simp only [List.replicate_succ, Spec.run, ih]
    congr 1
    unfold Spec.step
    split
    · rfl
    · split
      · rfl
      · simp only; split <;> rfl

theorem run_append (size thr : Nat) (s : Spec) (a b : List Bool) :
    Spec.run size thr s (a ++ b) =
      ((Spec.run size thr (Spec.run size thr s a).1 b).1,
       (Spec.run size thr s a).2 ++ (Spec.run size thr (Spec.run size thr s a).1 b).2) := by
  induction a generalizing s with
  | nil => simp [Spec.run]
  | cons x a ih => simp [Spec.run, ih]

/-- v1 fed an outcome list = the spec run. -/
theorem v1_run {size thr : Nat} : ∀ (os : List Bool) (w : Win) (s : Spec), Rel size thr w s →
    Rel size thr (runV1 w os).1 (Spec.run size thr s os).1 ∧ (runV1 w os).2 = (Spec.run size thr s os).2 := by
  intro os
  induction os with
  | nil => intro w s r; exact ⟨by simpa [runV1, Spec.run] using r, rfl⟩
  | cons o os ih =>
    intro w s r
    cases o with
    | false =>
      have h := v1_step r false
      have := ih (w.store1 false) _ h.1
      simp only [runV1, Win.ack1, Spec.run]
      refine ⟨this.1, ?_⟩
      rw [this.2]
      congr 1
      have := run_acks_all_true size thr s 1
      simpa [Spec.run] using this.symm
    | true =>
      have h := v1_step r true
      have := ih (w.store1 true) _ h.1
      simp only [runV1, Win.nack1, Spec.run]
      exact ⟨this.1, by rw [this.2, h.2 rfl]⟩

end Conduit.Dlq
