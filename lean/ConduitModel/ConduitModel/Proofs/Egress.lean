import ConduitModel.Spec.Egress

/-! Helper lemmas for C18 (core only). -/
namespace Conduit.Egress

theorem firstMatch_isSome (bits : Nat) (tbl : List (Nat × Nat × String)) (a : Nat) :
    (firstMatch bits tbl a).isSome = tbl.any fun r => cidrContains bits (r.1, r.2.1) a := by
  induction tbl with
  | nil => rfl
  | cons r tbl ih =>
    obtain ⟨n, l, s⟩ := r
    simp only [firstMatch, List.any_cons]
    by_cases h : cidrContains bits (n, l) a = true
    · simp [h]
    · simp [h, ih]

/-- `classifyV4` refuses iff a table row contains the address or its first byte reaches the
multicast threshold. -/
theorem classifyV4_isSome (t : Tables) (a : Nat) :
    (classifyV4 t a).isSome =
      ((t.v4.any fun r => cidrContains 32 (r.1, r.2.1) a) || decide (a / 2 ^ 24 ≥ t.v4McastFirstByte)) := by
  unfold classifyV4
  rw [← firstMatch_isSome]
  cases firstMatch 32 t.v4 a with
  | some r => rfl
  | none =>
    by_cases h : a / 2 ^ 24 ≥ t.v4McastFirstByte <;> simp [h]

/-- the genuinely-IPv6 part of `Refuse` as one boolean. -/
def refusedV6Part (t : Tables) (x : Nat) : Bool :=
  cidrContains 128 t.nat64 x || cidrContains 128 t.translated x || x / 2 ^ 112 == 0x2002 ||
  x / 2 ^ 96 == 0x20010000 || isV4Compatible x ||
  (t.v6.any fun r => cidrContains 128 (r.1, r.2.1) x) || x / 2 ^ 120 == t.v6McastFirstByte

theorem refused_b4 (t : Tables) (a : Nat) : refused t (.b4 a) = (classifyV4 t a).isSome := by
  simp only [refused, refuse, to16, to4]
  cases classifyV4 t a <;> rfl

theorem refused_b16 (t : Tables) (x : Nat) :
    refused t (.b16 x) =
      if x / P32 = 0xffff then (classifyV4 t (x % P32)).isSome else refusedV6Part t x := by
  simp only [refused, refuse, to16, to4]
  by_cases h : x / P32 = 0xffff
  · simp only [h, if_true]
    cases classifyV4 t (x % P32) <;> rfl
  · simp only [h, if_false, refusedV6Part]
    by_cases h1 : cidrContains 128 t.nat64 x = true
    · simp [h1]
    by_cases h2 : cidrContains 128 t.translated x = true
    · simp [h1, h2]
    by_cases h3 : x / 2 ^ 112 = 0x2002
    · simp [h1, h2, h3]
    by_cases h4 : x / 2 ^ 96 = 0x20010000
    · simp [h1, h2, h3, h4]
    by_cases h5 : isV4Compatible x = true
    · simp [h1, h2, h3, h4, h5]
    have h3' : (x / 2 ^ 112 == 0x2002) = false := by simpa using h3
    have h4' : (x / 2 ^ 96 == 0x20010000) = false := by simpa using h4
    simp only [h1, h2, h3, h4, h5, h3', h4', if_false, Bool.false_eq_true, Bool.false_or]
    rw [← firstMatch_isSome]
    cases firstMatch 128 t.v6 x with
    | some r => simp
    | none =>
      by_cases h6 : x / 2 ^ 120 = t.v6McastFirstByte
      · simp [h6]
      · have h6' : (x / 2 ^ 120 == t.v6McastFirstByte) = false := by simpa using h6
        simp [h6, h6']

theorem refused_bad (t : Tables) : refused t .bad = true := rfl

/-! ### re-parsing the dialed address changes neither verdict -/

theorem refused_reparse (t : Tables) (ip : IP) (hv : ip.Valid) : refused t (reparse ip) = refused t ip := by
  cases ip with
  | b4 a =>
    have ha : a < 4294967296 := hv
    simp only [reparse, to16, refused_b16, refused_b4, P32]
    have h1 : (0xffff * 4294967296 + a) / 4294967296 = 0xffff := by omega
    have h2 : (0xffff * 4294967296 + a) % 4294967296 = a := by omega
    simp [h1, h2]
  | b16 x => rfl
  | bad => rfl

theorem to16_reparse (ip : IP) : to16 (reparse ip) = to16 ip := by
  cases ip <;> simp [reparse, to16]

theorem ipEqual_reparse (a ip : IP) : ipEqual a (reparse ip) = ipEqual a ip := by
  simp only [ipEqual, to16_reparse]

theorem matchesCarveOut_reparse (p : Policy) (ip : IP) (port : String) :
    matchesCarveOut p (reparse ip) port = matchesCarveOut p ip port := by
  simp only [matchesCarveOut, ipEqual_reparse]

theorem reparse_ne_bad {ip : IP} (h : ip ≠ .bad) : reparse ip ≠ .bad := by
  cases ip <;> simp_all [reparse, to16]

theorem matchesCarveOut_bad (p : Policy) (port : String) : matchesCarveOut p .bad port = false := by
  simp only [matchesCarveOut, ipEqual, to16]
  induction p.allow with
  | nil => rfl
  | cons e es ih =>
    simp only [List.any_cons, ih, Bool.or_false]
    cases e.ip with
    | none => rfl
    | some eip => cases to16 eip <;> simp

/-- the Control hook never contradicts the per-candidate gate of `dialContext`. -/
theorem dialControl_eq_gate (t : Tables) (p : Policy) (ip : IP) (port : String) (hv : ip.Valid) :
    dialControl t p ip port = (!(refused t ip) || matchesCarveOut p ip port) := by
  unfold dialControl
  cases hip : ip with
  | bad => simp [reparse, to16, refused_bad, matchesCarveOut_bad]
  | b4 a =>
    have := refused_reparse t (.b4 a) (hip ▸ hv)
    have h2 := matchesCarveOut_reparse p (.b4 a) port
    simp only [reparse, to16] at this h2 ⊢
    simp [this, h2]
  | b16 x => simp [reparse, to16]

theorem connectAttempts_append (l₁ l₂ : List Attempt) :
    connectAttempts (l₁ ++ l₂) = connectAttempts l₁ ++ connectAttempts l₂ := by
  induction l₁ with
  | nil => rfl
  | cons x xs ih => cases x <;> simp [connectAttempts, ih]

/-- inside the base dialer: connect(2) happens only after the Control hook let the address pass. -/
theorem connectAttempts_baseDial (t : Tables) (p : Policy) (port : String) (ok : IP → Bool) :
    ∀ (addrs : List IP), (∀ a ∈ addrs, a.Valid) → ∀ a ∈ connectAttempts (baseDial t p port ok addrs),
      a ∈ addrs ∧ (refused t a = false ∨ matchesCarveOut p a port = true)
  | [], _, a, h => by simp [baseDial, connectAttempts] at h
  | x :: xs, hv, a, h => by
    have ih := connectAttempts_baseDial t p port ok xs (fun y hy => hv y (by simp [hy]))
    have lift : ∀ a ∈ connectAttempts (baseDial t p port ok xs),
        a ∈ x :: xs ∧ (refused t a = false ∨ matchesCarveOut p a port = true) :=
      fun a h => ⟨List.mem_cons_of_mem _ (ih a h).1, (ih a h).2⟩
    unfold baseDial at h
    by_cases hc : (!dialControl t p x port) = true
    · simp only [hc, if_true, connectAttempts] at h
      exact lift a h
    · have hpass : dialControl t p x port = true := by simpa using hc
      have hgate : refused t x = false ∨ matchesCarveOut p x port = true := by
        rw [dialControl_eq_gate t p x port (hv x (by simp))] at hpass
        cases h1 : refused t x <;> simp_all
      simp only [hc, if_false, Bool.false_eq_true] at h
      by_cases hk : ok x = true
      · simp only [hk, if_true, connectAttempts, List.mem_singleton] at h
        subst h; exact ⟨by simp, hgate⟩
      · simp only [hk, if_false, Bool.false_eq_true, connectAttempts, List.mem_cons] at h
        rcases h with rfl | h
        · exact ⟨by simp, hgate⟩
        · exact lift a h

/-- the dial events of a request are those of `dialContext` on some candidate list, or none. -/
theorem doRequest_events (t : Tables) (p : Policy) (scheme host port : String) (reqIP : Option IP)
    (expand : IP → List IP) (ok : IP → Bool) (answers : Option (List IP)) (redirects : Bool) :
    (doRequest t p scheme host port reqIP expand ok answers redirects).2 = [] ∨
    ((p.enabled = true ∧ matchHostPort p scheme host port reqIP = true) ∧
      ∃ cs, (doRequest t p scheme host port reqIP expand ok answers redirects).2 = dialContext t p port expand ok cs) := by
  unfold doRequest
  by_cases he : p.enabled = true
  · by_cases hm : matchHostPort p scheme host port reqIP = true
    · simp only [he, hm, Bool.not_true, Bool.false_eq_true, if_false]
      cases hc : candidatesOf reqIP answers with
      | none => exact Or.inl rfl
      | some cs =>
        cases cs with
        | nil => exact Or.inl rfl
        | cons c cs =>
          refine Or.inr ⟨⟨trivial, trivial⟩, c :: cs, ?_⟩
          simp only [doDial]
          split
          · rfl
          · split
            · rfl
            · split <;> rfl
    · simp [he, hm]
  · simp [he]

end Conduit.Egress
