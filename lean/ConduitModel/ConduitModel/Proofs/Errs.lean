import ConduitModel.Spec.Errs

/-! Helper lemmas for C20 (core only). -/
namespace Conduit.Errs

/-! ### the DFS is `findSome?` over the reachable list -/

mutual
theorem first_eq_findSome {α : Type} (p : Err → Option α) : ∀ e, first p e = (reach e).findSome? p
  | .leaf s => by simp [first, reach]
  | .wrap k e => by
    simp only [first, reach, List.findSome?_cons, first_eq_findSome p e]
    cases p (.wrap k e) <;> rfl
  | .opaque l => by simp [first, reach]
  | .join es => by
    simp only [first, reach, List.findSome?_cons, firstL_eq_findSome p es]
    cases p (.join es) <;> rfl
  | .fatal e => by
    simp only [first, reach, List.findSome?_cons, first_eq_findSome p e]
    cases p (.fatal e) <;> rfl
  | .coded c e => by
    simp only [first, reach, List.findSome?_cons, first_eq_findSome p e]
    cases p (.coded c e) <;> rfl
  | .status g r => by simp [first, reach]
theorem firstL_eq_findSome {α : Type} (p : Err → Option α) : ∀ es, firstL p es = (reachL es).findSome? p
  | [] => rfl
  | e :: es => by
    simp only [firstL, reachL, List.findSome?_append, first_eq_findSome p e, firstL_eq_findSome p es]
end

theorem self_mem_reach : ∀ e : Err, e ∈ reach e
  | .leaf _ | .wrap _ _ | .opaque _ | .join _ | .fatal _ | .coded _ _ | .status _ _ => by simp [reach]

theorem first_isSome_iff {α : Type} (p : Err → Option α) (e : Err) :
    (first p e).isSome = true ↔ ∃ x ∈ reach e, (p x).isSome = true := by
  rw [first_eq_findSome, List.findSome?_isSome_iff]

theorem firstL_isSome_iff {α : Type} (p : Err → Option α) (es : List Err) :
    (firstL p es).isSome = true ↔ ∃ x ∈ reachL es, (p x).isSome = true := by
  rw [firstL_eq_findSome, List.findSome?_isSome_iff]

theorem mem_reachL {x : Err} : ∀ {es : List Err}, x ∈ reachL es ↔ ∃ e ∈ es, x ∈ reach e
  | [] => by simp [reachL]
  | e :: es => by simp [reachL, List.mem_append, mem_reachL (es := es)]

theorem firstL_isSome_any {α : Type} (p : Err → Option α) (es : List Err) :
    (firstL p es).isSome = es.any fun e => (first p e).isSome := by
  induction es with
  | nil => rfl
  | cons e es ih =>
    simp only [firstL, List.any_cons, ← ih]
    cases first p e <;> simp [Option.or]

/-! ### reachability is transitive -/

mutual
theorem reach_trans : ∀ (w : Err) {e x : Err}, e ∈ reach w → x ∈ reach e → x ∈ reach w
  | .leaf s, e, x, he, hx => by
    simp [reach] at he; subst he; exact hx
  | .wrap k w, e, x, he, hx => by
    simp only [reach, List.mem_cons] at he ⊢
    rcases he with rfl | he
    · simpa [reach] using hx
    · exact Or.inr (reach_trans w he hx)
  | .opaque l, e, x, he, hx => by
    simp [reach] at he; subst he; exact hx
  | .join es, e, x, he, hx => by
    simp only [reach, List.mem_cons] at he ⊢
    rcases he with rfl | he
    · simpa [reach] using hx
    · exact Or.inr (reachL_trans es he hx)
  | .fatal w, e, x, he, hx => by
    simp only [reach, List.mem_cons] at he ⊢
    rcases he with rfl | he
    · simpa [reach] using hx
    · exact Or.inr (reach_trans w he hx)
  | .coded c w, e, x, he, hx => by
    simp only [reach, List.mem_cons] at he ⊢
    rcases he with rfl | he
    · simpa [reach] using hx
    · exact Or.inr (reach_trans w he hx)
  | .status g r, e, x, he, hx => by
    simp [reach] at he; subst he; exact hx
theorem reachL_trans : ∀ (ws : List Err) {e x : Err}, e ∈ reachL ws → x ∈ reach e → x ∈ reachL ws
  | [], e, x, he, hx => by simp [reachL] at he
  | w :: ws, e, x, he, hx => by
    simp only [reachL, List.mem_append] at he ⊢
    rcases he with he | he
    · exact Or.inl (reach_trans w he hx)
    · exact Or.inr (reachL_trans ws he hx)
end

end Conduit.Errs

namespace Conduit.Errs

/-! ### constructors -/

theorem errorAt_mid (pre post : List Val) (e : Err) : errorAt (pre ++ Val.err e :: post) pre.length = some e := by
  simp [errorAt]

theorem errorf_of_idx {fmt : List Nat} {pre post : List Val} {e : Err}
    (h : errorfIdx fmt (pre.length + 1 + post.length) = some pre.length) :
    errorf fmt (pre ++ Val.err e :: post) = .wrap "x" e := by
  have hl : (pre ++ Val.err e :: post).length = pre.length + 1 + post.length := by
    simp [List.length_append]; omega
  simp [errorf, errorfWraps, hl, h, errorAt_mid]

theorem filterMap_id_nones {α : Type} : ∀ {l : List (Option α)}, (∀ x ∈ l, x = none) → l.filterMap id = []
  | [], _ => rfl
  | x :: l, h => by
    have hx : x = none := h x (by simp)
    subst hx
    simpa using filterMap_id_nones (l := l) (fun y hy => h y (by simp [hy]))

theorem join_layer_pre_none {pre post : List E} {e : Err} (h : ∀ x ∈ pre, x = none) :
    (pre ++ some e :: post).filterMap id = e :: post.filterMap id := by
  simp [List.filterMap_append, filterMap_id_nones h]

/-- what a plain layer builds, up to the only things the probes can see. -/
theorem first_app_plain {α : Type} (p : Err → Option α) {l : Layer}
    (hw : ∀ k e, k ≠ "val" → p (.wrap k e) = none) (hf : l = .fatal → ∀ e, p (.fatal e) = none)
    (hj : ∀ es, p (.join es) = none)
    (hl : l.Plain) (e : Err) : first p (l.app e) = first p e := by
  cases l with
  | errorf fmt pre post =>
    simp only [Layer.app, errorf_of_idx hl, first, hw "x" e (by decide), Option.none_or]
  | std k => simp only [Layer.app, first, hw k e hl, Option.none_or]
  | fatal =>
    simp only [Layer.app]
    split
    · rfl
    · simp only [first, hf rfl, Option.none_or]
  | join pre post =>
    simp only [Layer.app, join_layer_pre_none hl.1, filterMap_id_nones hl.2, first, firstL, hj,
      Option.none_or, Option.or_none]
  | cwrap c => exact absurd hl (by simp [Layer.Plain])

theorem first_app_keepsFirst {α : Type} (p : Err → Option α)
    (hw : ∀ k e, k ≠ "val" → p (.wrap k e) = none) (hf : ∀ e, p (.fatal e) = none)
    (hj : ∀ es, p (.join es) = none) (hc : ∀ c e, p (.coded c e) = none)
    {l : Layer} (hl : l.KeepsFirst) {e : Err} {a : α} (h : first p e = some a) :
    first p (l.app e) = some a := by
  cases l with
  | errorf fmt pre post =>
    simp only [Layer.app, errorf_of_idx hl, first, hw "x" e (by decide), Option.none_or, h]
  | std k => simp only [Layer.app, first, hw k e hl, Option.none_or, h]
  | fatal =>
    simp only [Layer.app]
    split
    · exact h
    · simp only [first, hf, Option.none_or, h]
  | join pre post =>
    simp only [Layer.app, join_layer_pre_none hl, first, firstL, hj, Option.none_or, h, Option.some_or]
  | cwrap c =>
    simp only [Layer.app, cwrap, first, hc, Option.none_or, h]

/-! probes are blind to wrapper nodes -/

theorem codeNode_wrap (k e) : codeNode (.wrap k e) = none := rfl
theorem codeNode_fatal (e) : codeNode (.fatal e) = none := rfl
theorem codeNode_join (es) : codeNode (.join es) = none := rfl
theorem statusNode_wrap (k e) : statusNode (.wrap k e) = none := rfl
theorem statusNode_fatal (e) : statusNode (.fatal e) = none := rfl
theorem statusNode_join (es) : statusNode (.join es) = none := rfl
theorem statusNode_coded (c e) : statusNode (.coded c e) = none := rfl
theorem isNode_wrap (t k e) (h : k ≠ "val") : isNode t (.wrap k e) = none := by simp [isNode, h]
theorem isNode_fatal (t e) : isNode t (.fatal e) = none := rfl
theorem isNode_join (t es) : isNode t (.join es) = none := rfl
theorem isNode_coded (t c e) : isNode t (.coded c e) = none := rfl
theorem fatalNode_wrap (k e) : fatalNode (.wrap k e) = none := rfl
theorem fatalNode_join (es) : fatalNode (.join es) = none := rfl
theorem fatalNode_coded (c e) : fatalNode (.coded c e) = none := rfl

end Conduit.Errs

namespace Conduit.Errs

/-! ### layers keep their argument reachable -/

theorem mem_reach_app {l : Layer} (hl : l.Keeps) (e : Err) : e ∈ reach (l.app e) := by
  cases l with
  | errorf fmt pre post =>
    simp only [Layer.app, errorf_of_idx hl, reach, List.mem_cons]
    exact Or.inr (self_mem_reach e)
  | std k => simp only [Layer.app, reach, List.mem_cons]; exact Or.inr (self_mem_reach e)
  | fatal =>
    simp only [Layer.app]
    split
    · exact self_mem_reach e
    · simp only [reach, List.mem_cons]; exact Or.inr (self_mem_reach e)
  | join pre post =>
    simp only [Layer.app, reach, List.mem_cons]
    refine Or.inr (mem_reachL.mpr ⟨e, ?_, self_mem_reach e⟩)
    simp [List.mem_filterMap]
  | cwrap c =>
    simp only [Layer.app, cwrap, reach, List.mem_cons]; exact Or.inr (self_mem_reach e)

theorem mem_reach_applyAll : ∀ {ls : List Layer}, (∀ l ∈ ls, l.Keeps) → ∀ e : Err, e ∈ reach (applyAll ls e)
  | [], _, e => self_mem_reach e
  | l :: ls, h, e => by
    have h1 := mem_reach_app (h l (by simp)) (applyAll ls e)
    have h2 := mem_reach_applyAll (ls := ls) (fun x hx => h x (by simp [hx])) e
    exact reach_trans _ h1 h2

theorem first_isSome_mono {α : Type} (p : Err → Option α) {w e : Err} (h : e ∈ reach w)
    (hs : (first p e).isSome = true) : (first p w).isSome = true := by
  rw [first_isSome_iff] at hs ⊢
  obtain ⟨x, hx, hp⟩ := hs
  exact ⟨x, reach_trans w h hx, hp⟩

/-! ### registry lookups -/

theorem lookup_of_mem_nodup : ∀ {reg : List (String × Nat)}, (reg.map Prod.fst).Nodup →
    ∀ {r : String} {g : Nat}, (r, g) ∈ reg → reg.lookup r = some g
  | [], _, _, _, h => by simp at h
  | (k, v) :: reg, hn, r, g, h => by
    simp only [List.map_cons, List.nodup_cons] at hn
    simp only [List.mem_cons, Prod.mk.injEq] at h
    rw [List.lookup_cons]
    by_cases hk : r = k
    · subst hk
      simp only [beq_self_eq_true]
      rcases h with h | h
      · simp [h.2]
      · exact absurd (List.mem_map.mpr ⟨(r, g), h, rfl⟩) hn.1
    · have : (r == k) = false := by simp [hk]
      simp only [this]
      rcases h with h | h
      · exact absurd h.1 hk
      · exact lookup_of_mem_nodup hn.2 h

/-- iterate one kind of statement over a list of layers -/
theorem first_applyAll_keepsFirst {α : Type} (p : Err → Option α)
    (hw : ∀ k e, k ≠ "val" → p (.wrap k e) = none) (hf : ∀ e, p (.fatal e) = none)
    (hj : ∀ es, p (.join es) = none) (hc : ∀ c e, p (.coded c e) = none) :
    ∀ (ls : List Layer), (∀ l ∈ ls, l.KeepsFirst) → ∀ {e : Err} {a : α}, first p e = some a →
      first p (applyAll ls e) = some a
  | [], _, _, _, h => h
  | l :: ls, hl, _, _, h =>
    first_app_keepsFirst p hw hf hj hc (hl l (by simp))
      (first_applyAll_keepsFirst p hw hf hj hc ls (fun x hx => hl x (by simp [hx])) h)

theorem firstCoded_isSome (e : Err) : (firstCoded e).isSome = (getErr e).isSome := by
  have h1 := first_isSome_iff (fun x => match x with | .coded c e => some (Err.coded c e) | _ => none) e
  have h2 := first_isSome_iff codeNode e
  unfold firstCoded getErr
  have : ∀ x : Err, ((match x with | .coded c e => some (Err.coded c e) | _ => none : Option Err)).isSome = (codeNode x).isSome := by
    intro x; cases x <;> rfl
  simp only [this] at h1
  cases ha : (first (fun x => match x with | .coded c e => some (Err.coded c e) | _ => none) e).isSome <;>
  cases hb : (first codeNode e).isSome
  · rfl
  · exact absurd (h1.mpr (h2.mp hb)) (by simp [ha])
  · exact absurd (h2.mpr (h1.mp ha)) (by simp [hb])
  · rfl

end Conduit.Errs
