import ConduitModel.Model.Extract
import ConduitModel.Proofs.PathClean

/-!
Lemmas for `ExtractBinary`: what an accepted entry name looks like, where `filepath.Join(dest, ·)`
puts it, and the file-system invariant of the extraction loop.
-/
namespace Conduit.Registry

theorem clean_abs {p : Path} (h : isAbs p = true) : clean p = slash :: joinSlash (cleanSegs p) := by
  simp [clean, h]

theorem clean_rel {p : Path} (h : isAbs p = false) :
    clean p = if cleanSegs p = [] then dotSeg else joinSlash (cleanSegs p) := by
  simp [clean, h]

/-- A name that passes the refusal test of `ExtractBinary` is relative and cleans to normal
elements only: no `..` survives, nothing is rooted. -/
theorem not_escapes {name : Path} (h : escapes (clean name) = false) :
    isAbs name = false ∧ ∀ s ∈ cleanSegs name, Normal s := by
  simp only [escapes, Bool.or_eq_false_iff] at h
  obtain ⟨⟨h1, h2⟩, h3⟩ := h
  cases ha : isAbs name with
  | true => rw [clean_abs ha] at h1; simp [isAbs] at h1
  | false =>
    refine ⟨rfl, ?_⟩
    obtain ⟨k, ns, hk, hn, -⟩ := cleanSegs_form name
    cases k with
    | zero => rw [hk]; simpa using hn
    | succ k =>
      exfalso
      rw [clean_rel ha, hk] at h2 h3
      simp only [List.replicate_succ, List.cons_append] at h2 h3
      cases hr : List.replicate k dotdotSeg ++ ns with
      | nil => rw [hr] at h2; simp [joinSlash] at h2
      | cons t ts =>
        rw [hr] at h3
        simp [joinSlash, hasPrefix, dotdotSeg, List.isPrefixOf] at h3

/-! ## Where `filepath.Join(dest, cleanName)` and its `Dir` point -/

theorem normal_noslash {s : Seg} (h : Normal s) : slash ∉ s := h.2.2.2

theorem not_normal_nil : ¬ Normal [] := fun h => h.1 rfl
theorem not_normal_dot : ¬ Normal dotSeg := fun h => h.2.1 rfl

theorem filter_normal_self {Q : List Seg} (h : ∀ s ∈ Q, Normal s) :
    Q.filter (fun s => decide (Normal s)) = Q :=
  List.filter_eq_self.mpr (fun s hs => by simpa using h s hs)

theorem split_join_benign {Q : List Seg} (h : ∀ s ∈ Q, Normal s) :
    (∀ s ∈ splitSlash (joinSlash Q), Benign s) ∧
    (splitSlash (joinSlash Q)).filter (fun s => decide (Normal s)) = Q := by
  cases Q with
  | nil => simp [joinSlash, splitSlash, Benign, not_normal_nil]
  | cons q qs =>
    rw [splitSlash_joinSlash _ (fun s hs => normal_noslash (h s hs)) (List.cons_ne_nil _ _)]
    exact ⟨fun s hs => Or.inl (h s hs), filter_normal_self h⟩

/-- the cleaned name as a string, for an accepted entry. -/
def relStr (ns : List Seg) : Path := if ns = [] then dotSeg else joinSlash ns

theorem relStr_benign {ns : List Seg} (h : ∀ s ∈ ns, Normal s) :
    (∀ s ∈ splitSlash (relStr ns), Benign s) ∧
    (splitSlash (relStr ns)).filter (fun s => decide (Normal s)) = ns := by
  unfold relStr
  by_cases hn : ns = []
  · subst hn
    simp [splitSlash_noslash dotSeg (by decide), Benign, not_normal_dot]
  · rw [if_neg hn]; exact split_join_benign h

theorem cleanSegs_join {D ns : List Seg} (hD : ∀ s ∈ D, Normal s) (hn : ∀ s ∈ ns, Normal s) :
    cleanSegs (slash :: joinSlash D ++ slash :: relStr ns) = D ++ ns := by
  have e : splitSlash (slash :: joinSlash D ++ slash :: relStr ns)
      = [] :: (splitSlash (joinSlash D) ++ splitSlash (relStr ns)) := by
    rw [List.cons_append, splitSlash_cons_slash, splitSlash_append]
  rw [cleanSegs_benign, e]
  · rw [List.filter_cons, List.filter_append, (split_join_benign hD).2, (relStr_benign hn).2]
    simp [not_normal_nil]
  · rw [e]
    intro s hs
    simp only [List.mem_cons, List.mem_append] at hs
    rcases hs with h | h | h
    · exact Or.inr (Or.inl h)
    · exact (split_join_benign hD).1 s h
    · exact (relStr_benign hn).1 s h

/-- `filepath.Join(dest, cleanName)` for a clean absolute `dest` and an accepted name is literally
`dest/<elements of the name>`. -/
theorem join2_clean {D ns : List Seg} (hD : ∀ s ∈ D, Normal s) (hn : ∀ s ∈ ns, Normal s) :
    join2 (slash :: joinSlash D) (relStr ns) = slash :: joinSlash (D ++ ns) := by
  unfold join2
  rw [if_pos (List.cons_ne_nil _ _)]
  have ha : isAbs (slash :: joinSlash D ++ slash :: relStr ns) = true := by simp [isAbs]
  rw [clean_abs ha, cleanSegs_join hD hn]

theorem pathSegs_abs {Q : List Seg} (h : ∀ s ∈ Q, Normal s) : pathSegs (slash :: joinSlash Q) = Q := by
  unfold pathSegs
  rw [splitSlash_cons_slash]
  cases Q with
  | nil => simp [joinSlash, splitSlash]
  | cons q qs =>
    rw [splitSlash_joinSlash _ (fun s hs => normal_noslash (h s hs)) (List.cons_ne_nil _ _)]
    rw [List.filter_cons]
    simp only [ne_eq, not_true_eq_false, decide_false, Bool.false_eq_true, if_false]
    exact List.filter_eq_self.mpr (fun s hs => by simpa using (h s hs).1)

theorem dirCut_append {a s : Path} (h : slash ∉ s) : dirCut (a ++ slash :: s) = a ++ [slash] := by
  unfold dirCut
  have : (a ++ slash :: s).reverse = s.reverse ++ slash :: a.reverse := by simp
  rw [this, List.dropWhile_append_of_pos (fun x hx => by
    have : x ≠ slash := fun e => h (by rw [← e]; simpa using hx)
    simpa using this)]
  simp [List.dropWhile]

/-- `filepath.Dir` of `/q1/…/qn` (normal elements) is `/q1/…/q(n-1)`. -/
theorem pathSegs_dir {Q : List Seg} (h : ∀ s ∈ Q, Normal s) :
    pathSegs (dir (slash :: joinSlash Q)) = Q.dropLast := by
  rcases List.eq_nil_or_concat Q with rfl | ⟨Q', s, rfl⟩
  · simp [joinSlash, dir, dirCut, clean, cleanSegs, splitSlash, isAbs, cleanStep, pathSegs]
  · have hs : Normal s := h s (by simp)
    have hQ' : ∀ t ∈ Q', Normal t := fun t ht => h t (by simp [ht])
    rw [List.concat_eq_append] at h ⊢
    rw [List.dropLast_concat, joinSlash_concat]
    unfold dir
    by_cases hq : Q' = []
    · subst hq
      rw [if_pos rfl]
      have : dirCut (slash :: s) = [] ++ [slash] := dirCut_append (a := []) (normal_noslash hs)
      rw [this]
      simp [clean, cleanSegs, splitSlash, isAbs, cleanStep, pathSegs, joinSlash]
    · rw [if_neg hq]
      have : dirCut (slash :: (joinSlash Q' ++ slash :: s)) = (slash :: joinSlash Q') ++ [slash] := by
        rw [← List.cons_append]; exact dirCut_append (normal_noslash hs)
      rw [this]
      have ha : isAbs ((slash :: joinSlash Q') ++ [slash]) = true := by simp [isAbs]
      have e : splitSlash ((slash :: joinSlash Q') ++ [slash]) = [] :: (splitSlash (joinSlash Q') ++ [[]]) := by
        rw [List.cons_append, splitSlash_cons_slash, splitSlash_append]; simp [splitSlash]
      rw [clean_abs ha, cleanSegs_benign, e]
      · rw [List.filter_cons, List.filter_append, (split_join_benign hQ').2]
        simp only [not_normal_nil, decide_false, Bool.false_eq_true, if_false, List.filter_cons, List.filter_nil, List.append_nil]
        exact pathSegs_abs hQ'
      · rw [e]
        intro t ht
        simp only [List.mem_cons, List.mem_append, List.not_mem_nil, or_false] at ht
        rcases ht with h | h | h
        · exact Or.inr (Or.inl h)
        · exact (split_join_benign hQ').1 t h
        · exact Or.inr (Or.inl h)

/-! ## File-system invariant of the extraction loop -/

structure FSInv (D : List Seg) (fs : FS) : Prop where
  base  : ∀ d ∈ prefixes D, d ∈ fs.dirs
  dirs  : ∀ d ∈ fs.dirs, d ∈ prefixes D ∨ Inside D d
  files : ∀ f ∈ fs.files, Inside D f.1

theorem prefixes_append (D m : List Seg) :
    ∀ q ∈ prefixes (D ++ m), q ∈ prefixes D ∨ ∃ r ∈ prefixes m, q = D ++ r := by
  induction D with
  | nil => intro q hq; exact Or.inr ⟨q, hq, rfl⟩
  | cons d ds ih =>
    intro q hq
    simp only [List.cons_append, prefixes, List.mem_cons, List.mem_map] at hq
    rcases hq with rfl | ⟨q', hq', rfl⟩
    · exact Or.inl (by simp [prefixes])
    · rcases ih q' hq' with h | ⟨r, hr, rfl⟩
      · exact Or.inl (by simp only [prefixes, List.mem_cons, List.mem_map]; exact Or.inr ⟨q', h, rfl⟩)
      · exact Or.inr ⟨r, hr, rfl⟩

theorem prefixes_mem (m : List Seg) : ∀ r ∈ prefixes m, r ≠ [] ∧ ∀ s ∈ r, s ∈ m := by
  induction m with
  | nil => intro r hr; simp [prefixes] at hr
  | cons a as ih =>
    intro r hr
    simp only [prefixes, List.mem_cons, List.mem_map] at hr
    rcases hr with rfl | ⟨r', hr', rfl⟩
    · simp
    · refine ⟨by simp, ?_⟩
      intro s hs
      simp only [List.mem_cons] at hs ⊢
      rcases hs with h | h
      · exact Or.inl h
      · exact Or.inr ((ih r' hr').2 s h)

theorem prefixes_dropLast (D : List Seg) : ∀ q ∈ prefixes D.dropLast, q ∈ prefixes D := by
  induction D with
  | nil => intro q hq; simp [prefixes] at hq
  | cons d ds ih =>
    cases ds with
    | nil => intro q hq; simp [prefixes] at hq
    | cons e es =>
      intro q hq
      simp only [List.dropLast_cons_cons, prefixes, List.mem_cons, List.mem_map] at hq ⊢
      rcases hq with h | ⟨q', hq', rfl⟩
      · exact Or.inl h
      · have := ih q' hq'
        simp only [prefixes, List.mem_cons, List.mem_map] at this
        exact Or.inr ⟨q', by simpa [prefixes] using this, rfl⟩

/-- every ancestor `MkdirAll(filepath.Dir(destPath))` may create is `dest`, above it, or inside it. -/
theorem prefixes_dir_target {D ns : List Seg} (hn : ∀ s ∈ ns, Normal s) :
    ∀ q ∈ prefixes (D ++ ns).dropLast, q ∈ prefixes D ∨ Inside D q := by
  intro q hq
  by_cases he : ns = []
  · subst he; rw [List.append_nil] at hq; exact Or.inl (prefixes_dropLast D q hq)
  · rw [List.dropLast_append_of_ne_nil he] at hq
    rcases prefixes_append D ns.dropLast q hq with h | ⟨r, hr, rfl⟩
    · exact Or.inl h
    · obtain ⟨h1, h2⟩ := prefixes_mem _ r hr
      exact Or.inr ⟨r, rfl, h1, fun s hs => hn s (List.dropLast_subset _ (h2 s hs))⟩

theorem mkdirAllAux_inv {D : List Seg} (nm : Nat) (qs : List (List Seg)) :
    ∀ fs, FSInv D fs → (∀ q ∈ qs, q ∈ prefixes D ∨ Inside D q) → FSInv D (FS.mkdirAllAux nm fs qs).1 := by
  induction qs with
  | nil => intro fs h _; exact h
  | cons q qs ih =>
    intro fs h hq
    have hq' : ∀ x ∈ qs, x ∈ prefixes D ∨ Inside D x := fun x hx => hq x (by simp [hx])
    unfold FS.mkdirAllAux
    by_cases h1 : fs.isDir q = true
    · rw [if_pos h1]; exact ih fs h hq'
    · rw [if_neg h1]
      by_cases h2 : fs.isFile q = true
      · rw [if_pos h2]; exact h
      · rw [if_neg h2]
        by_cases h3 : nm < (q.getLast?.getD []).length
        · rw [if_pos h3]; exact h
        · rw [if_neg h3]
          refine ih _ ⟨?_, ?_, h.files⟩ hq'
          · intro d hd; simp [h.base d hd]
          · intro d hd
            simp only [List.mem_append, List.mem_singleton] at hd
            rcases hd with hd | rfl
            · exact h.dirs d hd
            · exact hq d (by simp)

theorem withFile_inv {D : List Seg} {fs : FS} {q : List Seg} (n : Nat) (h : FSInv D fs) (hq : Inside D q) :
    FSInv D (fs.withFile q n) := by
  refine ⟨h.base, h.dirs, ?_⟩
  intro f hf
  simp only [FS.withFile, List.mem_append, List.mem_singleton] at hf
  rcases hf with hf | rfl
  · exact h.files f hf
  · exact hq

theorem initial_inv {D : List Seg} (hD : ∀ s ∈ D, Normal s) : FSInv D (FS.initial (slash :: joinSlash D)) := by
  unfold FS.initial
  rw [pathSegs_abs hD]
  exact ⟨fun d hd => hd, fun d hd => Or.inl hd, fun f hf => by simp at hf⟩

/-! ## The loop invariant -/

theorem sumSizes_append (l : List (List Seg × Nat)) (q : List Seg) (n : Nat) :
    sumSizes (l ++ [(q, n)]) = sumSizes l + n := by simp [sumSizes]

structure ExInv (cap : Nat) (D : List Seg) (st : ExState) : Prop where
  fs    : FSInv D st.fs
  total : sumSizes st.fs.files = st.total
  le    : st.total ≤ cap
  cand  : st.candidate = [] ∨ (Normal st.candidate ∧ (D ++ [st.candidate]) ∈ st.fs.files.map Prod.fst)

/-- what holds after one loop iteration, whether it continues (`none`) or refuses. -/
def Post (cap : Nat) (D : List Seg) (r : ExState × Option ExErr) : Prop :=
  FSInv D r.1.fs ∧ sumSizes r.1.fs.files ≤ cap + 1 ∧ (r.2 = none → ExInv cap D r.1)

theorem mkdirAllAux_files (nm : Nat) (qs : List (List Seg)) :
    ∀ fs, (FS.mkdirAllAux nm fs qs).1.files = fs.files := by
  induction qs with
  | nil => intro fs; rfl
  | cons q qs ih =>
    intro fs
    unfold FS.mkdirAllAux
    split
    · exact ih fs
    · split
      · rfl
      · split
        · rfl
        · rw [ih]

theorem mkdirAllAux_dirs_mono (nm : Nat) (qs : List (List Seg)) :
    ∀ fs d, d ∈ fs.dirs → d ∈ (FS.mkdirAllAux nm fs qs).1.dirs := by
  induction qs with
  | nil => intro fs d h; exact h
  | cons q qs ih =>
    intro fs d h
    unfold FS.mkdirAllAux
    split
    · exact ih fs d h
    · split
      · exact h
      · split
        · exact h
        · exact ih _ d (by simp [h])

theorem createExcl_some {nm : Nat} {fs : FS} {p : Path} {q : List Seg} (h : fs.createExcl nm p = some q) :
    q = pathSegs p ∧ q ≠ [] ∧ fs.isDir q = false := by
  unfold FS.createExcl at h
  simp only at h
  split at h
  · exact absurd h (by simp)
  · rename_i h1
    split at h
    · exact absurd h (by simp)
    · split at h
      · exact absurd h (by simp)
      · simp only [Option.some.injEq] at h
        subst h
        simp only [not_or] at h1
        exact ⟨rfl, h1.1, by simpa using h1.2.1⟩

theorem mem_prefixes_self {D : List Seg} (h : D ≠ []) : D ∈ prefixes D := by
  induction D with
  | nil => exact absurd rfl h
  | cons d ds ih =>
    cases ds with
    | nil => simp [prefixes]
    | cons e es =>
      simp only [prefixes, List.mem_cons, List.mem_map]
      exact Or.inr ⟨e :: es, by simpa [prefixes] using ih (List.cons_ne_nil _ _), rfl⟩

/-- path facts for an entry name that passed the refusal test, `dest = /D₁/…/Dₙ` clean. -/
theorem accepted_paths {D : List Seg} (hD : ∀ s ∈ D, Normal s) {name : Path}
    (h : escapes (clean name) = false) :
    ∃ ns, (∀ s ∈ ns, Normal s) ∧ clean name = relStr ns ∧
      join2 (slash :: joinSlash D) (clean name) = slash :: joinSlash (D ++ ns) ∧
      pathSegs (join2 (slash :: joinSlash D) (clean name)) = D ++ ns ∧
      pathSegs (dir (join2 (slash :: joinSlash D) (clean name))) = (D ++ ns).dropLast := by
  obtain ⟨ha, hn⟩ := not_escapes h
  have hc : clean name = relStr (cleanSegs name) := by rw [clean_rel ha]; rfl
  have hall : ∀ s ∈ D ++ cleanSegs name, Normal s := by
    intro s hs; rcases List.mem_append.mp hs with h | h
    · exact hD s h
    · exact hn s h
  refine ⟨cleanSegs name, hn, hc, ?_, ?_, ?_⟩
  · rw [hc, join2_clean hD hn]
  · rw [hc, join2_clean hD hn, pathSegs_abs hall]
  · rw [hc, join2_clean hD hn, pathSegs_dir hall]

theorem relStr_root {ns : List Seg} (hn : ∀ s ∈ ns, Normal s) (hne : ns ≠ [])
    (h : containsSlash (relStr ns) = false) : ∃ c, ns = [c] ∧ relStr ns = c := by
  cases ns with
  | nil => exact absurd rfl hne
  | cons c cs =>
    cases cs with
    | nil => exact ⟨c, rfl, by simp [relStr, joinSlash]⟩
    | cons d ds =>
      exfalso
      simp [relStr, joinSlash, containsSlash] at h

theorem extractReg_post {cap nm : Nat} {D : List Seg} (hD : ∀ s ∈ D, Normal s) {st : ExState}
    (hst : ExInv cap D st) (e : Entry) (hesc : escapes (clean e.name) = false) :
    Post cap D (extractReg cap nm (slash :: joinSlash D) st e (clean e.name)) := by
  obtain ⟨ns, hn, hc, -, hp, hd⟩ := accepted_paths hD hesc
  unfold extractReg
  simp only []
  have hr : FSInv D (st.fs.mkdirAll nm (dir (join2 (slash :: joinSlash D) (clean e.name)))).1 := by
    unfold FS.mkdirAll
    rw [hd]
    exact mkdirAllAux_inv nm _ _ hst.fs (prefixes_dir_target hn)
  have hf : (st.fs.mkdirAll nm (dir (join2 (slash :: joinSlash D) (clean e.name)))).1.files = st.fs.files := by
    unfold FS.mkdirAll; exact mkdirAllAux_files _ _ _
  generalize st.fs.mkdirAll nm (dir (join2 (slash :: joinSlash D) (clean e.name))) = r at hr hf
  have hsz : sumSizes r.1.files ≤ cap + 1 := by rw [hf, hst.total]; have := hst.le; omega
  by_cases h1 : r.2 = false
  · rw [if_pos h1]; exact ⟨hr, hsz, by simp⟩
  · rw [if_neg h1]
    cases hce : r.1.createExcl nm (join2 (slash :: joinSlash D) (clean e.name)) with
    | none => exact ⟨hr, hsz, by simp⟩
    | some q =>
      simp only []
      obtain ⟨hq, hqne, hqd⟩ := createExcl_some hce
      rw [hp] at hq
      have hnsne : ns ≠ [] := by
        intro h0; subst h0
        rw [List.append_nil] at hq; subst hq
        have := hr.base q (mem_prefixes_self hqne)
        simp [FS.isDir, this] at hqd
      have hin : Inside D q := ⟨ns, hq, hnsne, hn⟩
      have hle := hst.le
      by_cases h2 : e.avail < min e.size (cap - st.total + 1)
      · rw [if_pos h2]
        refine ⟨withFile_inv _ hr hin, ?_, by simp⟩
        simp only [FS.withFile, sumSizes_append, hf, hst.total]
        omega
      · rw [if_neg h2]
        have hfs : FSInv D (r.1.withFile q (min e.size (cap - st.total + 1))) := withFile_inv _ hr hin
        have hsum : sumSizes (r.1.withFile q (min e.size (cap - st.total + 1))).files
            = st.total + min e.size (cap - st.total + 1) := by
          simp only [FS.withFile, sumSizes_append, hf, hst.total]
        by_cases h3 : cap < st.total + min e.size (cap - st.total + 1)
        · rw [if_pos h3]
          exact ⟨hfs, by rw [hsum]; omega, by simp⟩
        · rw [if_neg h3]
          have hcand' : st.candidate = [] ∨ (Normal st.candidate ∧
              (D ++ [st.candidate]) ∈ (r.1.withFile q (min e.size (cap - st.total + 1))).files.map Prod.fst) := by
            rcases hst.cand with h | ⟨h, h'⟩
            · exact Or.inl h
            · refine Or.inr ⟨h, ?_⟩
              simp only [FS.withFile, List.map_append, List.mem_append, hf]
              exact Or.inl h'
          by_cases h4 : (!containsSlash (clean e.name)) = false
          · rw [if_pos h4]
            exact ⟨hfs, by rw [hsum]; omega, fun _ => ⟨hfs, hsum, by simp only []; omega, hcand'⟩⟩
          · rw [if_neg h4]
            by_cases h5 : st.candidate ≠ []
            · rw [if_pos h5]; exact ⟨hfs, by rw [hsum]; omega, by simp⟩
            · rw [if_neg h5]
              refine ⟨hfs, by simp only []; rw [hsum]; omega, fun _ => ⟨hfs, hsum, by simp only []; omega, ?_⟩⟩
              have h4' : containsSlash (relStr ns) = false := by
                rw [← hc]; simpa using h4
              obtain ⟨c, hc1, hc2⟩ := relStr_root hn hnsne h4'
              refine Or.inr ⟨?_, ?_⟩
              · simp only []; rw [hc, hc2]; exact hn c (by simp [hc1])
              · simp only [FS.withFile, List.map_append, List.mem_append]
                refine Or.inr ?_
                simp only [List.map_cons, List.map_nil, List.mem_singleton]
                rw [hc, hc2, hq, hc1]

theorem post_of_inv {cap : Nat} {D : List Seg} {st : ExState} (h : ExInv cap D st) (r : Option ExErr) :
    Post cap D (st, r) :=
  ⟨h.fs, by rw [h.total]; have := h.le; omega, fun _ => h⟩

theorem extractEntry_post {cap nm : Nat} {D : List Seg} (hD : ∀ s ∈ D, Normal s) {st : ExState}
    (hst : ExInv cap D st) (e : Entry) : Post cap D (extractEntry cap nm (slash :: joinSlash D) st e) := by
  unfold extractEntry
  simp only []
  by_cases hesc : escapes (clean e.name) = true
  · rw [if_pos hesc]; exact post_of_inv hst _
  · rw [if_neg hesc]
    cases e.typ with
    | reg => exact extractReg_post hD hst e (by simpa using hesc)
    | _ => exact post_of_inv hst _

theorem extractLoop_post {cap nm : Nat} {D : List Seg} (hD : ∀ s ∈ D, Normal s) (es : List Entry) :
    ∀ st, ExInv cap D st → Post cap D (extractLoop cap nm (slash :: joinSlash D) st es) := by
  induction es with
  | nil => intro st h; exact post_of_inv h _
  | cons e es ih =>
    intro st h
    have hp := extractEntry_post (nm := nm) hD h e
    unfold extractLoop
    generalize extractEntry cap nm (slash :: joinSlash D) st e = r at hp
    obtain ⟨st', err⟩ := r
    cases err with
    | some err => exact hp
    | none => exact ih st' (hp.2.2 rfl)

/-- a loop that ran to the end met no link, no escaping name. -/
theorem extractLoop_none {cap nm : Nat} {dest : Path} (es : List Entry) :
    ∀ st, (extractLoop cap nm dest st es).2 = none →
      ∀ e ∈ es, e.typ ≠ .symlink ∧ e.typ ≠ .link ∧ escapes (clean e.name) = false := by
  induction es with
  | nil => intro _ _ e he; simp at he
  | cons e es ih =>
    intro st h
    unfold extractLoop at h
    cases hr : extractEntry cap nm dest st e with
    | mk st' err =>
      rw [hr] at h
      cases err with
      | some err => simp at h
      | none =>
        simp only at h
        intro x hx
        simp only [List.mem_cons] at hx
        rcases hx with rfl | hx
        · unfold extractEntry at hr
          simp only [] at hr
          by_cases hesc : escapes (clean x.name) = true
          · rw [if_pos hesc] at hr; simp at hr
          · rw [if_neg hesc] at hr
            refine ⟨?_, ?_, by simpa using hesc⟩
            · intro ht; rw [ht] at hr; simp at hr
            · intro ht; rw [ht] at hr; simp at hr
        · exact ih st' h x hx

theorem initial_exinv {cap : Nat} {D : List Seg} (hD : ∀ s ∈ D, Normal s) :
    ExInv cap D { fs := FS.initial (slash :: joinSlash D), candidate := [], total := 0 } :=
  ⟨initial_inv hD, by simp [FS.initial, sumSizes], Nat.zero_le _, Or.inl rfl⟩

/-! ## The candidate is the unique root-level regular file -/

theorem joinSlash_ne_nil {s : Seg} {ss : List Seg} (h : s ≠ []) : joinSlash (s :: ss) ≠ [] := by
  cases ss with
  | nil => simpa [joinSlash] using h
  | cons t ts => simp [joinSlash, h]

/-- `filepath.Clean` never returns the empty string. -/
theorem clean_ne_nil (p : Path) : clean p ≠ [] := by
  unfold clean
  simp only []
  split
  · simp
  · split
    · simp [dotSeg]
    · rename_i hne
      obtain ⟨k, ns, hk, hn, -⟩ := cleanSegs_form p
      cases hs : cleanSegs p with
      | nil => exact absurd hs hne
      | cons s ss =>
        apply joinSlash_ne_nil
        have hm : s ∈ List.replicate k dotdotSeg ++ ns := by rw [← hk, hs]; simp
        rcases List.mem_append.mp hm with h | h
        · rw [List.eq_of_mem_replicate h]; simp [dotdotSeg]
        · exact (hn s h).1

theorem extractEntry_candidate {cap nm : Nat} {dest : Path} {st st' : ExState} {e : Entry}
    (h : extractEntry cap nm dest st e = (st', none)) :
    (isRootReg e = true → st.candidate = [] ∧ st'.candidate = clean e.name) ∧
    (isRootReg e = false → st'.candidate = st.candidate) := by
  unfold extractEntry at h
  simp only [] at h
  by_cases hesc : escapes (clean e.name) = true
  · rw [if_pos hesc] at h; simp at h
  · rw [if_neg hesc] at h
    cases ht : e.typ with
    | dir => rw [ht] at h; simp only [Prod.mk.injEq, and_true] at h; subst h; simp [isRootReg, ht]
    | other => rw [ht] at h; simp only [Prod.mk.injEq, and_true] at h; subst h; simp [isRootReg, ht]
    | symlink => rw [ht] at h; simp at h
    | link => rw [ht] at h; simp at h
    | reg =>
      rw [ht] at h
      simp only [] at h
      unfold extractReg at h
      simp only [] at h
      split at h
      · simp at h
      · split at h
        · simp at h
        · split at h
          · simp at h
          · split at h
            · simp at h
            · split at h
              · rename_i hroot
                simp only [Prod.mk.injEq, and_true] at h
                subst h
                have : containsSlash (clean e.name) = true := by simpa using hroot
                simp [isRootReg, ht, this]
              · rename_i hroot
                split at h
                · simp at h
                · rename_i hc
                  simp only [Prod.mk.injEq, and_true] at h
                  subst h
                  have hns : containsSlash (clean e.name) = false := by
                    cases hcs : containsSlash (clean e.name) with
                    | false => rfl
                    | true => simp [hcs] at hroot
                  have hc' : st.candidate = [] := by simpa using hc
                  simp [isRootReg, ht, hns, hc']

theorem extractLoop_candidate {cap nm : Nat} {dest : Path} (es : List Entry) :
    ∀ (st st' : ExState), extractLoop cap nm dest st es = (st', none) →
      (st.candidate ≠ [] → es.filter isRootReg = [] ∧ st'.candidate = st.candidate) ∧
      (st.candidate = [] → (es.filter isRootReg = [] ∧ st'.candidate = []) ∨
        (∃ e, es.filter isRootReg = [e] ∧ st'.candidate = clean e.name)) := by
  induction es with
  | nil =>
    intro st st' h
    simp only [extractLoop, Prod.mk.injEq, and_true] at h
    subst h
    exact ⟨fun _ => ⟨rfl, rfl⟩, fun h => Or.inl ⟨rfl, h⟩⟩
  | cons e es ih =>
    intro st st' h
    unfold extractLoop at h
    cases hr : extractEntry cap nm dest st e with
    | mk st1 err =>
      rw [hr] at h
      cases err with
      | some err => simp at h
      | none =>
        simp only at h
        obtain ⟨hroot, hnot⟩ := extractEntry_candidate hr
        obtain ⟨ih1, ih2⟩ := ih st1 st' h
        cases hre : isRootReg e with
        | true =>
          obtain ⟨hc0, hc1⟩ := hroot hre
          have hne : st1.candidate ≠ [] := by rw [hc1]; exact clean_ne_nil _
          obtain ⟨hf, hcand⟩ := ih1 hne
          refine ⟨fun hx => absurd hc0 hx, fun _ => Or.inr ⟨e, ?_, by rw [hcand, hc1]⟩⟩
          simp [hre, hf]
        | false =>
          have hc := hnot hre
          constructor
          · intro hx
            obtain ⟨hf, hcand⟩ := ih1 (by rw [hc]; exact hx)
            exact ⟨by simp [hre, hf], by rw [hcand, hc]⟩
          · intro hx
            rcases ih2 (by rw [hc]; exact hx) with ⟨hf, hcand⟩ | ⟨e', hf, hcand⟩
            · exact Or.inl ⟨by simp [hre, hf], hcand⟩
            · exact Or.inr ⟨e', by simp [hre, hf], hcand⟩

end Conduit.Registry
