import ConduitModel.Model.Gates

/-!
Dominance in gate programs: a later call can only have run if every earlier straight-line guarded
call succeeded.
-/
namespace Conduit.Gates

theorem exec_dominates_aux (env : Env) : ∀ (gs : List GateCall) (i j k : Nat) (g : GateCall),
    gs[j]? = some g → g.isGate = true → j < k →
    (i + k) ∈ (exec env i gs).1 → (i + j) ∈ (exec env i gs).1 := by
  intro gs
  induction gs with
  | nil => intro i j k g hg; simp at hg
  | cons g0 gs ih =>
    intro i j k g hg hgate hjk hk
    cases j with
    | zero =>
      simp only [List.getElem?_cons_zero, Option.some.injEq] at hg
      subst hg
      simp only [GateCall.isGate, Bool.and_eq_true, Bool.not_eq_true', beq_iff_eq] at hgate
      obtain ⟨⟨hgd, hc⟩, hd⟩ := hgate
      unfold exec at hk ⊢
      by_cases hst : env.stop i = true
      · simp [hst] at hk
      simp only [hst, hd, Bool.false_eq_true, if_false, hc, bne_self_eq_false, Bool.false_and] at hk ⊢
      by_cases hs : env.succ i = true
      · simp only [hs, if_true] at hk ⊢; simp
      · simp only [hs, hgd, if_true] at hk
        simp at hk
    | succ j =>
      cases k with
      | zero => omega
      | succ k =>
        simp only [List.getElem?_cons_succ] at hg
        have e1 : i + (k + 1) = (i + 1) + k := by omega
        have e2 : i + (j + 1) = (i + 1) + j := by omega
        rw [e1] at hk
        rw [e2]
        have hne : i + 1 + k ≠ i := by omega
        unfold exec at hk ⊢
        by_cases hst : env.stop i = true
        · simp [hst] at hk
        rw [if_neg hst] at hk ⊢
        split at hk
        · rename_i h; rw [if_pos h]; exact ih (i + 1) j k g hg hgate (by omega) hk
        · rename_i h; rw [if_neg h]
          split at hk
          · rename_i h2; rw [if_pos h2]; exact ih (i + 1) j k g hg hgate (by omega) hk
          · rename_i h2; rw [if_neg h2]
            split at hk
            · rename_i h3; rw [if_pos h3]
              simp only [List.mem_cons] at hk ⊢
              rcases hk with hk | hk
              · exact absurd hk hne
              · exact Or.inr (ih (i + 1) j k g hg hgate (by omega) hk)
            · rename_i h3; rw [if_neg h3]
              split at hk
              · simp at hk
              · rename_i h4; rw [if_neg h4]; exact ih (i + 1) j k g hg hgate (by omega) hk

/-- indices of successfully executed calls of the whole function. -/
def ran (env : Env) (order : List GateCall) : List Nat := (exec env 0 order).1

/-- a straight-line guarded call dominates everything after it. -/
theorem exec_dominates (env : Env) (order : List GateCall) (j k : Nat) (g : GateCall)
    (hg : order[j]? = some g) (hgate : g.isGate = true) (hjk : j < k) (hk : k ∈ ran env order) :
    j ∈ ran env order := by
  have := exec_dominates_aux env order 0 j k g hg hgate hjk (by simpa [ran] using hk)
  simpa [ran] using this

theorem mem_positions {order : List GateCall} {n : String} {k : Nat} :
    k ∈ positions order n ↔ ∃ g, order[k]? = some g ∧ g.name = n := by
  unfold positions
  simp only [List.mem_filter, List.mem_range, beq_iff_eq]
  constructor
  · rintro ⟨hk, h⟩
    cases hg : order[k]? with
    | none => rw [hg] at h; simp at h
    | some g => rw [hg] at h; simp only [Option.map_some, Option.some.injEq] at h; exact ⟨g, rfl, h⟩
  · rintro ⟨g, hg, hn⟩
    refine ⟨?_, by rw [hg]; simp [hn]⟩
    exact (List.getElem?_eq_some_iff.mp hg).1

/-- `domBy order a b`: whenever a call named `b` ran, a call named `a` ran (successfully) before it. -/
theorem domBy_sound {order : List GateCall} {a b : String} (h : domBy order a b = true) (env : Env)
    (k : Nat) (gk : GateCall) (hk : order[k]? = some gk) (hb : gk.name = b) (hran : k ∈ ran env order) :
    ∃ j gj, j < k ∧ order[j]? = some gj ∧ gj.name = a ∧ j ∈ ran env order := by
  unfold domBy at h
  rw [List.all_eq_true] at h
  have := h k (mem_positions.mpr ⟨gk, hk, hb⟩)
  rw [List.any_eq_true] at this
  obtain ⟨j, hj, hm⟩ := this
  rw [List.mem_range] at hj
  cases hgj : order[j]? with
  | none => rw [hgj] at hm; simp at hm
  | some gj =>
    rw [hgj] at hm
    simp only [Bool.and_eq_true, beq_iff_eq] at hm
    exact ⟨j, gj, hj, hgj, hm.1, exec_dominates env order j k gj hgj hm.2 hj hran⟩

theorem exec_mem_succ (env : Env) : ∀ (gs : List GateCall) (i x : Nat),
    x ∈ (exec env i gs).1 → env.succ x = true := by
  intro gs
  induction gs with
  | nil => intro i x h; simp [exec] at h
  | cons g gs ih =>
    intro i x h
    unfold exec at h
    split at h
    · simp at h
    · split at h
      · exact ih _ _ h
      · split at h
        · exact ih _ _ h
        · split at h
          · rename_i hs
            simp only [List.mem_cons] at h
            rcases h with rfl | h
            · exact hs
            · exact ih _ _ h
          · split at h
            · simp at h
            · exact ih _ _ h

theorem ranNamed_iff {order : List GateCall} {ran : List Nat} {n : String} :
    ranNamed order ran n = true ↔ ∃ k g, k ∈ ran ∧ order[k]? = some g ∧ g.name = n := by
  unfold ranNamed
  rw [List.any_eq_true]
  constructor
  · rintro ⟨k, hk, h⟩
    cases hg : order[k]? with
    | none => rw [hg] at h; simp at h
    | some g => rw [hg] at h; exact ⟨k, g, hk, hg, by simpa using h⟩
  · rintro ⟨k, g, hk, hg, hn⟩
    exact ⟨k, hk, by rw [hg]; simp [hn]⟩


/-- a function that returned without error (and without an early success return) executed every
straight-line guarded call successfully. -/
theorem exec_complete_aux (env : Env) (hstop : ∀ i, env.stop i = false) : ∀ (gs : List GateCall) (i j : Nat) (g : GateCall),
    gs[j]? = some g → g.isGate = true → (exec env i gs).2 = none → (i + j) ∈ (exec env i gs).1 := by
  intro gs
  induction gs with
  | nil => intro i j g hg; simp at hg
  | cons g0 gs ih =>
    intro i j g hg hgate hnone
    unfold exec at hnone ⊢
    rw [if_neg (by simp [hstop i])] at hnone ⊢
    cases j with
    | zero =>
      simp only [List.getElem?_cons_zero, Option.some.injEq] at hg
      subst hg
      simp only [GateCall.isGate, Bool.and_eq_true, Bool.not_eq_true', beq_iff_eq] at hgate
      obtain ⟨⟨hgd, hc⟩, hd⟩ := hgate
      simp only [hd, Bool.false_eq_true, if_false, hc, bne_self_eq_false, Bool.false_and] at hnone ⊢
      by_cases hs : env.succ i = true
      · simp [hs]
      · simp [hs, hgd] at hnone
    | succ j =>
      simp only [List.getElem?_cons_succ] at hg
      have e2 : i + (j + 1) = (i + 1) + j := by omega
      rw [e2]
      split at hnone
      · rename_i h; rw [if_pos h]; exact ih (i + 1) j g hg hgate hnone
      · rename_i h; rw [if_neg h]
        split at hnone
        · rename_i h2; rw [if_pos h2]; exact ih (i + 1) j g hg hgate hnone
        · rename_i h2; rw [if_neg h2]
          split at hnone
          · rename_i h3; rw [if_pos h3]
            simp only [List.mem_cons]
            exact Or.inr (ih (i + 1) j g hg hgate hnone)
          · rename_i h3; rw [if_neg h3]
            split at hnone
            · simp at hnone
            · rename_i h4; rw [if_neg h4]; exact ih (i + 1) j g hg hgate hnone

theorem exec_complete (env : Env) (hstop : ∀ i, env.stop i = false) (order : List GateCall) (j : Nat)
    (g : GateCall) (hg : order[j]? = some g) (hgate : g.isGate = true) (h : (exec env 0 order).2 = none) :
    j ∈ ran env order := by
  have := exec_complete_aux env hstop order 0 j g hg hgate h
  simpa [ran] using this

/-- if the function returned the error of the guarded call at position `k`, every earlier
straight-line guarded call succeeded. -/
theorem exec_fail_dominates_aux (env : Env) : ∀ (gs : List GateCall) (i j k : Nat) (g : GateCall),
    gs[j]? = some g → g.isGate = true → j < k →
    (exec env i gs).2 = some (i + k) → env.succ (i + j) = true := by
  intro gs
  induction gs with
  | nil => intro i j k g hg; simp at hg
  | cons g0 gs ih =>
    intro i j k g hg hgate hjk hk
    unfold exec at hk
    by_cases hst : env.stop i = true
    · simp [hst] at hk
    rw [if_neg hst] at hk
    cases j with
    | zero =>
      simp only [List.getElem?_cons_zero, Option.some.injEq] at hg
      subst hg
      simp only [GateCall.isGate, Bool.and_eq_true, Bool.not_eq_true', beq_iff_eq] at hgate
      obtain ⟨⟨hgd, hc⟩, hd⟩ := hgate
      simp only [hd, Bool.false_eq_true, if_false, hc, bne_self_eq_false, Bool.false_and] at hk
      by_cases hs : env.succ i = true
      · simpa using hs
      · simp only [hs, hgd, if_true] at hk
        simp only [Bool.false_eq_true, if_false, Option.some.injEq] at hk
        omega
    | succ j =>
      cases k with
      | zero => omega
      | succ k =>
        simp only [List.getElem?_cons_succ] at hg
        have e1 : i + (k + 1) = (i + 1) + k := by omega
        have e2 : i + (j + 1) = (i + 1) + j := by omega
        rw [e1] at hk
        rw [e2]
        split at hk
        · exact ih (i + 1) j k g hg hgate (by omega) hk
        · split at hk
          · exact ih (i + 1) j k g hg hgate (by omega) hk
          · split at hk
            · exact ih (i + 1) j k g hg hgate (by omega) hk
            · split at hk
              · simp only [Option.some.injEq] at hk; omega
              · exact ih (i + 1) j k g hg hgate (by omega) hk

/-- a call was *reached*: it executed successfully or it is the guarded call whose failure ended the function. -/
def reached (env : Env) (order : List GateCall) (k : Nat) : Prop :=
  k ∈ ran env order ∨ (exec env 0 order).2 = some k

/-- `domBy order a b`: whenever a call named `b` was reached, a call named `a` succeeded before it. -/
theorem domBy_reached {order : List GateCall} {a b : String} (h : domBy order a b = true) (env : Env)
    (k : Nat) (gk : GateCall) (hk : order[k]? = some gk) (hb : gk.name = b) (hr : reached env order k) :
    ∃ (j : Nat) (gj : GateCall), j < k ∧ order[j]? = some gj ∧ gj.name = a ∧ env.succ j = true := by
  unfold domBy at h
  rw [List.all_eq_true] at h
  have := h k (mem_positions.mpr ⟨gk, hk, hb⟩)
  rw [List.any_eq_true] at this
  obtain ⟨j, hj, hm⟩ := this
  rw [List.mem_range] at hj
  cases hgj : order[j]? with
  | none => rw [hgj] at hm; simp at hm
  | some gj =>
    rw [hgj] at hm
    simp only [Bool.and_eq_true, beq_iff_eq] at hm
    refine ⟨j, gj, hj, hgj, hm.1, ?_⟩
    rcases hr with hr | hr
    · exact exec_mem_succ _ _ _ _ (exec_dominates env order j k gj hgj hm.2 hj hr)
    · have := exec_fail_dominates_aux env order 0 j k gj hgj hm.2 hj (by simpa using hr)
      simpa using this

/-- a straight-line guarded call named `n` occurs. -/
def hasGate (order : List GateCall) (n : String) : Bool := order.any fun (g : GateCall) => g.name == n && g.isGate

theorem hasGate_get {order : List GateCall} {n : String} (h : hasGate order n = true) :
    ∃ (j : Nat) (g : GateCall), order[j]? = some g ∧ g.name = n ∧ g.isGate = true := by
  unfold hasGate at h
  rw [List.any_eq_true] at h
  obtain ⟨g, hg, hm⟩ := h
  obtain ⟨j, hj, hgj⟩ := List.getElem_of_mem hg
  simp only [Bool.and_eq_true, beq_iff_eq] at hm
  exact ⟨j, g, by simp [hgj, hj], hm.1, hm.2⟩

end Conduit.Gates
