import ConduitModel.Model.IndexState
import ConduitModel.Proofs.Gates

/-!
The persisted index version never decreases, whatever sequence of `VerifyIndex` calls runs.
-/
namespace Conduit.IndexState
open Conduit.Gates

/-- the regenerated `index.CheckRollback` passes exactly when the fetched version is not below the
high-water mark. -/
theorem checkRollback_none (f h : Int) : (Generated.RegistryIndex.CheckRollback f h).isNone = true ↔ h ≤ f := by
  unfold Generated.RegistryIndex.CheckRollback
  by_cases hlt : f < h
  · simp [hlt]
  · simp [hlt]; omega

theorem dom_gateSucc {order : List GateCall} {a b : String} (h : domBy order a b = true) (st : State) (r : Req)
    (hb : ranNamed order (exec (envOf order st r) 0 order).1 b = true) : gateSucc st r a = true := by
  obtain ⟨k, g, hk, hg, hn⟩ := ranNamed_iff.mp hb
  obtain ⟨j, gj, -, hgj, hja, hj⟩ := domBy_sound h (envOf order st r) k g hg hn hk
  have := exec_mem_succ _ _ _ _ hj
  simp only [envOf, hgj] at this
  rw [hja] at this
  exact this

/-- one call never lowers the persisted version. -/
theorem step_monotone {order : List GateCall} (h : domBy order "CheckRollback" "SaveState" = true)
    (st : State) (r : Req) : st.version ≤ (stepOrder order st r).1.version := by
  unfold stepOrder
  simp only []
  by_cases hs : ranNamed order (exec (envOf order st r) 0 order).1 "SaveState" = true
  · rw [if_pos hs]
    have := dom_gateSucc h st r hs
    simp only [gateSucc] at this
    exact (checkRollback_none _ _).mp this
  · rw [if_neg hs]; exact Int.le_refl _

/-- a call that does not persist leaves the state untouched; one that does records exactly the
fetched version. -/
theorem step_version_cases (order : List GateCall) (st : State) (r : Req) :
    (stepOrder order st r).1 = st ∨ (stepOrder order st r).1.version = r.version := by
  unfold stepOrder
  simp only []
  by_cases hs : ranNamed order (exec (envOf order st r) 0 order).1 "SaveState" = true
  · rw [if_pos hs]; exact Or.inr rfl
  · rw [if_neg hs]; exact Or.inl rfl

/-- an accepted index is not older than the recorded high-water mark, and is recorded. -/
theorem step_accept {order : List GateCall} (hr : hasGate order "CheckRollback" = true)
    (hsv : hasGate order "SaveState" = true) (st : State) (r : Req)
    (hacc : (stepOrder order st r).2 = none) :
    st.version ≤ r.version ∧ (stepOrder order st r).1.version = r.version := by
  have hnone : (exec (envOf order st r) 0 order).2 = none := by
    unfold stepOrder at hacc
    simp only [] at hacc
    cases he : (exec (envOf order st r) 0 order).2 with
    | none => rfl
    | some i =>
      rw [he] at hacc
      exfalso
      cases ho : order[i]? <;> simp [ho] at hacc
  have hstop : ∀ i, (envOf order st r).stop i = false := fun _ => rfl
  obtain ⟨j, g, hg, hn, hgate⟩ := hasGate_get hr
  have hj := exec_complete _ hstop order j g hg hgate hnone
  have hsucc := exec_mem_succ _ _ _ _ hj
  simp only [envOf, hg, hn, gateSucc] at hsucc
  obtain ⟨j2, g2, hg2, hn2, hgate2⟩ := hasGate_get hsv
  have hj2 := exec_complete _ hstop order j2 g2 hg2 hgate2 hnone
  have hsaved : ranNamed order (exec (envOf order st r) 0 order).1 "SaveState" = true :=
    ranNamed_iff.mpr ⟨j2, g2, hj2, hg2, hn2⟩
  refine ⟨(checkRollback_none _ _).mp hsucc, ?_⟩
  unfold stepOrder
  simp only [hsaved, if_true]

/-- any sequence of calls (= any interleaving of concurrent installs under the state lock) never
lowers the persisted version. -/
theorem runSeq_monotone {order : List GateCall} (h : domBy order "CheckRollback" "SaveState" = true) :
    ∀ (rs : List Req) (st : State), st.version ≤ (runSeq order st rs).1.version := by
  intro rs
  induction rs with
  | nil => intro st; exact Int.le_refl _
  | cons r rs ih =>
    intro st
    simp only [runSeq]
    exact Int.le_trans (step_monotone h st r) (ih _)

/-- every index accepted anywhere in the sequence has a version no greater than the final
high-water mark. -/
theorem runSeq_accepted_le_final {order : List GateCall} (h : domBy order "CheckRollback" "SaveState" = true)
    (hr : hasGate order "CheckRollback" = true) (hsv : hasGate order "SaveState" = true) :
    ∀ (rs : List Req) (st : State) (i : Nat) (r : Req), rs[i]? = some r →
      (runSeq order st rs).2[i]? = some none → r.version ≤ (runSeq order st rs).1.version := by
  intro rs
  induction rs with
  | nil => intro st i r hi; simp at hi
  | cons r0 rs ih =>
    intro st i r hi hacc
    simp only [runSeq] at hacc ⊢
    cases i with
    | zero =>
      simp only [List.getElem?_cons_zero, Option.some.injEq] at hi hacc
      subst hi
      have := (step_accept hr hsv st r0 hacc).2
      rw [← this]
      exact runSeq_monotone h rs _
    | succ i =>
      simp only [List.getElem?_cons_succ] at hi hacc
      exact ih _ i r hi hacc

end Conduit.IndexState
