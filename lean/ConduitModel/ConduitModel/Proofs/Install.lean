import ConduitModel.Model.Install
import ConduitModel.Proofs.Gates

/-!
Lemmas for the install pipeline: what a successfully executed call tells about the scenario, the
case analysis of the verification gate, and the decision table of the regenerated `policy.Decide`.
-/
namespace Conduit.Install
open Conduit.Gates Conduit.Generated.Policy

/-- if a call named `b` ran and `a` dominates `b` in the order, then `a`'s success condition holds
in the scenario. -/
theorem dom_gateSucc {order : List GateCall} {a b : String} (h : domBy order a b = true) (s : Scenario)
    (hb : ranNamed order (exec (envOf order s) 0 order).1 b = true) : gateSucc s a = true := by
  obtain ⟨k, g, hk, hg, hn⟩ := ranNamed_iff.mp hb
  obtain ⟨j, gj, -, hgj, hja, hj⟩ := domBy_sound h (envOf order s) k g hg hn hk
  have := exec_mem_succ _ _ _ _ hj
  simp only [envOf, hgj] at this
  rw [hja] at this
  exact this

theorem indexOfName_some {order : List GateCall} {n : String} {k : Nat} (h : indexOfName order n = some k) :
    ∃ g, order[k]? = some g ∧ g.name = n := by
  unfold indexOfName at h
  have := List.find?_some h
  cases hg : order[k]? with
  | none => rw [hg] at this; simp at this
  | some g => rw [hg] at this; exact ⟨g, rfl, by simpa using this⟩

/-- if the call named `b` was reached (ran, or failed and ended the function) and `a` dominates `b`,
then `a`'s success condition holds in the scenario. -/
theorem dom_gateSucc_reached {order : List GateCall} {a b : String} (h : domBy order a b = true) (s : Scenario)
    (hb : (match indexOfName order b with
      | some k => (exec (envOf order s) 0 order).1.contains k || (exec (envOf order s) 0 order).2 == some k
      | none => false) = true) : gateSucc s a = true := by
  cases hi : indexOfName order b with
  | none => rw [hi] at hb; simp at hb
  | some k =>
    rw [hi] at hb
    simp only [Bool.or_eq_true, List.contains_iff_mem, beq_iff_eq] at hb
    obtain ⟨g, hg, hn⟩ := indexOfName_some hi
    obtain ⟨j, gj, -, hgj, hja, hj⟩ := domBy_reached h (envOf order s) k g hg hn hb
    simp only [envOf, hgj] at hj
    rw [hja] at hj
    exact hj

/-- case analysis of a passed verification gate. -/
theorem gate_ok_cases {s : Scenario} {b : Bool} (h : runVerificationGate s = .ok b) :
    (s.allowUnsigned = false ∧ s.sigFetch = .ok ∧ s.provFetch = .ok ∧ s.verifier = .signed ∧ b = true) ∨
    (s.allowUnsigned = true ∧ Decide s.ctx = (true, none) ∧ s.unsignedLogOK = true ∧ b = false) := by
  unfold runVerificationGate at h
  cases hau : s.allowUnsigned with
  | true =>
    right
    simp only [hau, if_true, unsignedInstallGate] at h
    cases hd : Decide s.ctx with
    | mk al code =>
      rw [hd] at h
      cases code with
      | some c => simp at h
      | none =>
        simp only at h
        cases al with
        | false => simp at h
        | true =>
          cases hl : s.unsignedLogOK with
          | false => simp [hl] at h
          | true =>
            simp only [hl] at h
            simp only [Bool.not_true, Bool.false_eq_true, if_false, Except.ok.injEq] at h
            exact ⟨rfl, rfl, rfl, h.symm⟩
  | false =>
    left
    simp only [hau, Bool.false_eq_true, if_false, fetchArtifactRef] at h
    cases hs : s.sigFetch <;> simp only [hs] at h <;> try (simp at h; done)
    cases hp : s.provFetch <;> simp only [hp] at h <;> try (simp at h; done)
    cases hv : s.verifier <;> simp only [hv] at h <;> try (simp at h; done)
    simp only [Except.ok.injEq] at h
    exact ⟨rfl, rfl, rfl, rfl, h.symm⟩

theorem toBool_ok {α ε : Type} {e : Except ε α} (h : e.toBool = true) : ∃ b, e = .ok b := by
  cases e with
  | ok b => exact ⟨b, rfl⟩
  | error _ => simp [Except.toBool] at h

/-- decision table of the regenerated `policy.Decide`: an unsigned install is allowed exactly when
the operator policy permits it, the caller is not the MCP tool, and either the context is
non-interactive with the explicit environment acknowledgement set, or it is an interactive terminal
(not CI) with a typed confirmation. -/
theorem decide_allowed_iff (c : Context) :
    Decide c = (true, none) ↔
      (c.OperatorPolicy = true ∧ c.IsMCP = false ∧
        (((c.TTY = false ∨ c.CIEnv = true) ∧ c.EnvVarSet = true) ∨
         (c.TTY = true ∧ c.CIEnv = false ∧ c.TypedConfirmation = true))) := by
  obtain ⟨a, b, m, p, e, t⟩ := c
  cases a <;> cases b <;> cases m <;> cases p <;> cases e <;> cases t <;> decide

/-- `Decide` reports `allowed` exactly when it returns no error (so the defensive `!dec.Allowed()`
test of `unsignedInstallGate` is unreachable). -/
theorem decide_consistent (c : Context) : (Decide c).1 = true ↔ (Decide c).2 = none := by
  obtain ⟨a, b, m, p, e, t⟩ := c
  cases a <;> cases b <;> cases m <;> cases p <;> cases e <;> cases t <;> decide

/-- decision table of the regenerated `policy.DecideStaleBundle` (same shape as `Decide`). -/
theorem decideStale_allowed_iff (c : StaleBundleContext) :
    (DecideStaleBundle c).1 = true ↔
      (c.OperatorAllowStaleBundle = true ∧ c.IsMCP = false ∧
        (((c.TTY = false ∨ c.CIEnv = true) ∧ c.EnvVarSet = true) ∨
         (c.TTY = true ∧ c.CIEnv = false ∧ c.TypedConfirmation = true))) := by
  obtain ⟨a, b, m, e, t, p⟩ := c
  cases a <;> cases b <;> cases m <;> cases p <;> cases e <;> cases t <;> decide

end Conduit.Install
