import ConduitModel.Model.Json
import ConduitModel.Proofs.JsonStr

/-! Helper lemmas: integer literals, and the parser inverts the compact printer. -/
namespace Conduit.Codec

/-! ### digits -/

theorem digit_facts : ∀ k, k < 10 → isDigit (Char.ofNat (48 + k)) = true ∧ digitVal (Char.ofNat (48 + k)) = k := by
  decide

theorem isDigit_digitChar (n : Nat) : isDigit (digitChar n) = true :=
  (digit_facts (n % 10) (Nat.mod_lt _ (by decide))).1

theorem digitVal_digitChar (n : Nat) : digitVal (digitChar n) = n % 10 :=
  (digit_facts (n % 10) (Nat.mod_lt _ (by decide))).2

theorem digitChar_ne_zero : ∀ k, k < 10 → 0 < k → digitChar k ≠ '0' := by decide

theorem printNatF_digits : ∀ (f n : Nat), ∀ c ∈ printNatF f n, isDigit c = true
  | 0, _, c, h => by simp [printNatF] at h
  | f + 1, n, c, h => by
    unfold printNatF at h
    by_cases h10 : n < 10
    · simp only [h10, if_true, List.mem_singleton] at h
      subst h; exact isDigit_digitChar n
    · simp only [h10, if_false, List.mem_append, List.mem_singleton] at h
      rcases h with h | h
      · exact printNatF_digits f (n / 10) c h
      · subst h; exact isDigit_digitChar _

theorem digitsVal_snoc (xs : List Char) (c : Char) : digitsVal (xs ++ [c]) = digitsVal xs * 10 + digitVal c := by
  simp [digitsVal, List.foldl_append]

theorem digitsVal_printNatF : ∀ (f n : Nat), n < f → digitsVal (printNatF f n) = n
  | 0, _, h => absurd h (Nat.not_lt_zero _)
  | f + 1, n, h => by
    unfold printNatF
    by_cases h10 : n < 10
    · simp only [h10, if_true]
      simp only [digitsVal, List.foldl, digitVal_digitChar]
      omega
    · simp only [h10, if_false]
      rw [digitsVal_snoc, digitsVal_printNatF f (n / 10) (by omega), digitVal_digitChar]
      omega

theorem printNatF_pos : ∀ (f n : Nat), 0 < n → n < f → ∃ d ds, printNatF f n = d :: ds ∧ d ≠ '0'
  | 0, _, _, h => absurd h (Nat.not_lt_zero _)
  | f + 1, n, hp, h => by
    unfold printNatF
    by_cases h10 : n < 10
    · exact ⟨digitChar n, [], by simp [h10], digitChar_ne_zero n h10 hp⟩
    · obtain ⟨d, ds, e, hd⟩ := printNatF_pos f (n / 10) (by omega) (by omega)
      exact ⟨d, ds ++ [digitChar (n % 10)], by simp [h10, e], hd⟩

/-- shape of a printed natural: non-empty, and a leading `0` only for zero itself. -/
theorem printNat_shape (n : Nat) : ∃ d ds, printNat n = d :: ds ∧ ¬ (d = '0' ∧ ds ≠ []) := by
  unfold printNat
  by_cases h0 : n = 0
  · subst h0; exact ⟨'0', [], by decide, by simp⟩
  · obtain ⟨d, ds, e, hd⟩ := printNatF_pos (n + 1) n (by omega) (by omega)
    exact ⟨d, ds, e, fun h => hd h.1⟩

/-- what may follow a number: not a digit, no fraction, no exponent. -/
def Delim : List Char → Prop
  | [] => True
  | c :: _ => isDigit c = false ∧ c ≠ '.' ∧ c ≠ 'e' ∧ c ≠ 'E'

theorem spanDigits_append (ds rest : List Char) (h : ∀ c ∈ ds, isDigit c = true) (hr : Delim rest) :
    spanDigits (ds ++ rest) = (ds, rest) := by
  induction ds with
  | nil =>
    cases rest with
    | nil => rfl
    | cons c r => simp [spanDigits, hr.1]
  | cons d ds ih =>
    have hd := h d (by simp)
    have := ih (fun c hc => h c (by simp [hc]))
    simp [spanDigits, hd, this]

theorem parseNatLit_print (n : Nat) (rest : List Char) (hr : Delim rest) :
    parseNatLit (printNat n ++ rest) = some (n, rest) := by
  have hs := spanDigits_append (printNat n) rest (printNatF_digits _ _) hr
  have hv : digitsVal (printNat n) = n := digitsVal_printNatF (n + 1) n (by omega)
  obtain ⟨d, ds, e, hz⟩ := printNat_shape n
  unfold parseNatLit
  rw [hs]; rw [e] at hv ⊢
  cases rest with
  | nil => simp [hz, hv]
  | cons c r =>
    have := hr
    simp only [Delim] at this
    simp [hz, hv, this.2.1, this.2.2.1, this.2.2.2]

/-! ### first characters -/

theorem isWs_false_of_isDigit (d : Char) (h : isDigit d = true) : isWs d = false := by
  simp only [isWs, Bool.or_eq_false_iff, decide_eq_false_iff_not]
  refine ⟨⟨⟨?_, ?_⟩, ?_⟩, ?_⟩ <;> (intro h'; subst h'; revert h; decide)

theorem isDigit_ne (d : Char) (h : isDigit d = true) :
    d ≠ 'n' ∧ d ≠ 't' ∧ d ≠ 'f' ∧ d ≠ '"' ∧ d ≠ '[' ∧ d ≠ '{' ∧ d ≠ '-' ∧ d ≠ ']' ∧ d ≠ '}' := by
  refine ⟨?_, ?_, ?_, ?_, ?_, ?_, ?_, ?_, ?_⟩ <;> (intro h'; subst h'; revert h; decide)

theorem skipWs_cons (c : Char) (r : List Char) (h : isWs c = false) : skipWs (c :: r) = c :: r := by
  simp [skipWs, h]

/-- a printed value starts with a character that is neither white space nor a closing bracket. -/
theorem print_head (j : Json) : ∃ c r, j.print = c :: r ∧ isWs c = false ∧ c ≠ ']' ∧ c ≠ '}' := by
  cases j with
  | null => exact ⟨'n', _, rfl, by decide, by decide, by decide⟩
  | bool b => cases b <;> exact ⟨_, _, rfl, by decide, by decide, by decide⟩
  | num n =>
    simp only [Json.print, printInt]
    by_cases hn : n < 0
    · exact ⟨'-', printNat n.natAbs, by simp [hn], by decide, by decide, by decide⟩
    · obtain ⟨d, ds, e, _⟩ := printNat_shape n.toNat
      have hd : isDigit d = true := printNatF_digits _ _ d (by rw [← printNat, e]; simp)
      exact ⟨d, ds, by simp [hn, e], isWs_false_of_isDigit d hd, (isDigit_ne d hd).2.2.2.2.2.2.2.1,
        (isDigit_ne d hd).2.2.2.2.2.2.2.2⟩
  | str s => exact ⟨'"', _, rfl, by decide, by decide, by decide⟩
  | arr l => cases l <;> exact ⟨'[', _, rfl, by decide, by decide, by decide⟩
  | obj l =>
    cases l with
    | nil => exact ⟨'{', _, rfl, by decide, by decide, by decide⟩
    | cons kv t => cases kv; exact ⟨'{', _, rfl, by decide, by decide, by decide⟩

theorem delim_printRest (xs : List Json) (rest : List Char) : Delim (Json.printRest xs ++ rest) := by
  cases xs <;> simp [Json.printRest, Delim] <;> decide

theorem delim_printMembers (kvs : List (Str × Json)) (rest : List Char) : Delim (Json.printMembers kvs ++ rest) := by
  cases kvs with
  | nil => simp [Json.printMembers, Delim]; decide
  | cons kv t => cases kv; simp [Json.printMembers, Delim]; decide

/-! ### the parser inverts the printer -/

mutual
theorem parseVal_print : (j : Json) → (fuel : Nat) → (rest : List Char) → Delim rest → j.size < fuel →
    parseVal fuel (j.print ++ rest) = some (j, rest)
  | .null, fuel, rest, _, hf => by
    obtain ⟨f, rfl⟩ : ∃ f, fuel = f + 1 := ⟨fuel - 1, by simp [Json.size] at hf; omega⟩
    simp [parseVal, Json.print, skipWs, isWs]
  | .bool true, fuel, rest, _, hf => by
    obtain ⟨f, rfl⟩ : ∃ f, fuel = f + 1 := ⟨fuel - 1, by simp [Json.size] at hf; omega⟩
    simp [parseVal, Json.print, skipWs, isWs]
  | .bool false, fuel, rest, _, hf => by
    obtain ⟨f, rfl⟩ : ∃ f, fuel = f + 1 := ⟨fuel - 1, by simp [Json.size] at hf; omega⟩
    simp [parseVal, Json.print, skipWs, isWs]
  | .str s, fuel, rest, _, hf => by
    obtain ⟨f, rfl⟩ : ∃ f, fuel = f + 1 := ⟨fuel - 1, by simp [Json.size] at hf; omega⟩
    simp [parseVal, Json.print, quote, skipWs, isWs, unescape_escape]
  | .num n, fuel, rest, hd, hf => by
    obtain ⟨f, rfl⟩ : ∃ f, fuel = f + 1 := ⟨fuel - 1, by simp [Json.size] at hf; omega⟩
    simp only [Json.print, printInt]
    by_cases hn : n < 0
    · simp [hn, parseVal, skipWs, isWs, parseNatLit_print _ _ hd]
      omega
    · obtain ⟨d, ds, e, _⟩ := printNat_shape n.toNat
      have hdg : isDigit d = true := printNatF_digits _ _ d (by rw [← printNat, e]; simp)
      have hne := isDigit_ne d hdg
      have hws := isWs_false_of_isDigit d hdg
      have hp := parseNatLit_print n.toNat rest hd
      rw [e] at hp
      simp only [hn, if_false, e, List.cons_append]
      rw [parseVal]
      simp [skipWs, hws, hne.1, hne.2.1, hne.2.2.1, hne.2.2.2.1, hne.2.2.2.2.1, hne.2.2.2.2.2.1, hne.2.2.2.2.2.2.1]
      simp at hp
      rw [hp]
      simp; omega
  | .arr [], fuel, rest, _, hf => by
    obtain ⟨f, rfl⟩ : ∃ f, fuel = f + 1 := ⟨fuel - 1, by simp [Json.size] at hf; omega⟩
    simp [parseVal, Json.print, skipWs, isWs]
  | .arr (x :: xs), fuel, rest, hd, hf => by
    obtain ⟨f, rfl⟩ : ∃ f, fuel = f + 1 := ⟨fuel - 1, by simp [Json.size] at hf; omega⟩
    have ih := parseElems_print (x :: xs) f rest (by simp) (by simp [Json.size] at hf; omega)
    obtain ⟨c, r, e, hw, hb, _⟩ := print_head x
    simp only [Json.print, List.cons_append, List.append_assoc] at ih ⊢
    rw [parseVal]
    simp only [skipWs_cons '[' _ (by decide)]
    simp only [e, List.cons_append] at ih ⊢
    simp [skipWs_cons c _ hw, hb, ih]
  | .obj [], fuel, rest, _, hf => by
    obtain ⟨f, rfl⟩ : ∃ f, fuel = f + 1 := ⟨fuel - 1, by simp [Json.size] at hf; omega⟩
    simp [parseVal, Json.print, skipWs, isWs]
  | .obj ((k, v) :: kvs), fuel, rest, hd, hf => by
    obtain ⟨f, rfl⟩ : ∃ f, fuel = f + 1 := ⟨fuel - 1, by simp [Json.size] at hf; omega⟩
    have ih := parseMembers_print ((k, v) :: kvs) f rest (by simp) (by simp [Json.size] at hf; omega)
    simp only [Json.print, quote, List.cons_append, List.append_assoc, List.nil_append] at ih ⊢
    rw [parseVal]
    simp only [skipWs_cons '{' _ (by decide)]
    simp [skipWs_cons '"' _ (by decide), ih]
theorem parseElems_print : (l : List Json) → (fuel : Nat) → (rest : List Char) → l ≠ [] → Json.sizeL l < fuel →
    parseElems fuel (match l with | [] => [] | x :: xs => x.print ++ (Json.printRest xs ++ rest)) = some (l, rest)
  | [], _, _, h, _ => absurd rfl h
  | [x], fuel, rest, _, hf => by
    obtain ⟨f, rfl⟩ : ∃ f, fuel = f + 1 := ⟨fuel - 1, by simp [Json.sizeL] at hf; omega⟩
    have ih := parseVal_print x f (Json.printRest [] ++ rest) (delim_printRest _ _) (by simp [Json.sizeL] at hf; omega)
    simp only [parseElems, ih]
    simp [Json.printRest, skipWs, isWs]
  | x :: y :: ys, fuel, rest, _, hf => by
    obtain ⟨f, rfl⟩ : ∃ f, fuel = f + 1 := ⟨fuel - 1, by simp [Json.sizeL] at hf; omega⟩
    have ih := parseVal_print x f (Json.printRest (y :: ys) ++ rest) (delim_printRest _ _) (by simp [Json.sizeL] at hf; omega)
    have ih2 := parseElems_print (y :: ys) f rest (by simp) (by simp [Json.sizeL] at hf ⊢; omega)
    simp only [parseElems, ih]
    simp only [Json.printRest, List.cons_append, List.append_assoc] at ih2 ⊢
    simp [skipWs, isWs, ih2]
theorem parseMembers_print : (l : List (Str × Json)) → (fuel : Nat) → (rest : List Char) → l ≠ [] → Json.sizeM l < fuel →
    parseMembers fuel (match l with | [] => [] | (k, v) :: t => quote k ++ ':' :: (v.print ++ (Json.printMembers t ++ rest))) = some (l, rest)
  | [], _, _, h, _ => absurd rfl h
  | [(k, v)], fuel, rest, _, hf => by
    obtain ⟨f, rfl⟩ : ∃ f, fuel = f + 1 := ⟨fuel - 1, by simp [Json.sizeM] at hf; omega⟩
    have ih := parseVal_print v f (Json.printMembers [] ++ rest) (delim_printMembers _ _) (by simp [Json.sizeM] at hf; omega)
    simp only [parseMembers, quote, List.cons_append, List.append_assoc, List.nil_append]
    simp only [skipWs_cons '"' _ (by decide), if_true, unescape_escape, skipWs_cons ':' _ (by decide), ih]
    simp [Json.printMembers, skipWs, isWs]
  | (k, v) :: (k2, v2) :: t, fuel, rest, _, hf => by
    obtain ⟨f, rfl⟩ : ∃ f, fuel = f + 1 := ⟨fuel - 1, by simp [Json.sizeM] at hf; omega⟩
    have ih := parseVal_print v f (Json.printMembers ((k2, v2) :: t) ++ rest) (delim_printMembers _ _) (by simp [Json.sizeM] at hf; omega)
    have ih2 := parseMembers_print ((k2, v2) :: t) f rest (by simp) (by simp [Json.sizeM] at hf ⊢; omega)
    simp only [parseMembers, quote, List.cons_append, List.append_assoc, List.nil_append]
    simp only [skipWs_cons '"' _ (by decide), if_true, unescape_escape, skipWs_cons ':' _ (by decide), ih]
    simp only [Json.printMembers, quote, List.cons_append, List.append_assoc, List.nil_append] at ih2 ⊢
    simp [skipWs, isWs, ih2]
end


/-! ### the fuel of `parse` suffices -/

mutual
theorem size_le_length : (j : Json) → j.size ≤ j.print.length
  | .null => by simp [Json.size, Json.print]
  | .bool true => by simp [Json.size, Json.print]
  | .bool false => by simp [Json.size, Json.print]
  | .num n => by
    obtain ⟨c, r, e, _⟩ := print_head (.num n)
    simp [Json.size, e]
  | .str s => by simp [Json.size, Json.print, quote]
  | .arr [] => by simp [Json.size, Json.sizeL, Json.print]
  | .arr (x :: xs) => by
    have h1 := size_le_length x
    have h2 := sizeL_le_length xs
    simp [Json.size, Json.sizeL, Json.print]; omega
  | .obj [] => by simp [Json.size, Json.sizeM, Json.print]
  | .obj ((k, v) :: kvs) => by
    have h1 := size_le_length v
    have h2 := sizeM_le_length kvs
    simp [Json.size, Json.sizeM, Json.print]; omega
theorem sizeL_le_length : (xs : List Json) → Json.sizeL xs + 1 ≤ (Json.printRest xs).length
  | [] => by simp [Json.sizeL, Json.printRest]
  | x :: xs => by
    have h1 := size_le_length x
    have h2 := sizeL_le_length xs
    simp [Json.sizeL, Json.printRest]; omega
theorem sizeM_le_length : (kvs : List (Str × Json)) → Json.sizeM kvs + 1 ≤ (Json.printMembers kvs).length
  | [] => by simp [Json.sizeM, Json.printMembers]
  | (k, v) :: kvs => by
    have h1 := size_le_length v
    have h2 := sizeM_le_length kvs
    simp [Json.sizeM, Json.printMembers]; omega
end

/-- the parser inverts the printer, also when white space follows (the newline `Encoder.Encode`
appends). -/
theorem parse_print_ws (j : Json) (ws : List Char) (hd : Delim ws) (hw : skipWs ws = []) :
    parse (j.print ++ ws) = some j := by
  have h := parseVal_print j ((j.print ++ ws).length + 1) ws hd (by
    have := size_le_length j; simp; omega)
  unfold parse
  rw [h]
  simp [hw]

theorem parse_print (j : Json) : parse j.print = some j := by
  have := parse_print_ws j [] trivial rfl
  simpa using this

theorem parse_print_newline (j : Json) : parse (j.print ++ ['\n']) = some j :=
  parse_print_ws j ['\n'] (by simp [Delim]; decide) (by decide)

end Conduit.Codec
