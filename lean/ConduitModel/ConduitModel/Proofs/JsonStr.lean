import ConduitModel.Model.JsonStr

/-! Helper lemmas: the JSON string unescaper inverts the escaper, character by character. -/
namespace Conduit.Codec

theorem hexVal_hexDigit_lt : ∀ k, k < 16 → hexVal (hexDigit k) = some k := by decide

theorem hexVal_hexDigit (n : Nat) : hexVal (hexDigit n) = some (n % 16) := by
  have h := hexVal_hexDigit_lt (n % 16) (Nat.mod_lt _ (by decide))
  simpa [hexDigit, Nat.mod_mod] using h

theorem hex4_u4 (n : Nat) (h : n < 65536) :
    hex4 (hexDigit (n / 4096)) (hexDigit (n / 256)) (hexDigit (n / 16)) (hexDigit n) = some n := by
  simp only [hex4, hexVal_hexDigit]
  congr 1; omega

theorem push_push (c : Char) (x : Option (Str × List Char)) :
    push c x = x.map (fun p => (c :: p.1, p.2)) := by
  cases x with
  | none => rfl
  | some p => cases p; rfl

/-- a character that needs no escape is read back as itself. -/
theorem unescFrom_raw (c : Char) (t : List Char) (h1 : c ≠ '"') (h2 : c ≠ '\\') :
    unescFrom none (c :: t) = push c (unescFrom none t) := by
  rw [unescFrom.eq_def]; simp [h1, h2, flushSur]

theorem unescFrom_simple (e ch : Char) (t : List Char) (he : e ≠ 'u') (hs : simpleEsc e = some ch) :
    unescFrom none ('\\' :: e :: t) = push ch (unescFrom none t) := by
  rw [unescFrom.eq_def]; simp [he, hs, flushSur]

theorem unescFrom_u4 (n : Nat) (t : List Char) (h : n < 0xD800) :
    unescFrom none (u4 n ++ t) = push (Char.ofNat n) (unescFrom none t) := by
  have h4 := hex4_u4 n (by omega)
  have hl : isLowSur n = false := by simp [isLowSur]; omega
  have hh : isHighSur n = false := by simp [isHighSur]; omega
  rw [unescFrom.eq_def]; simp [u4, h4, hl, hh, flushSur]

theorem needsU_lt (c : Char) (h : needsU c = true) : c.toNat < 0xD800 := by
  simp only [needsU, Bool.or_eq_true, decide_eq_true_eq] at h
  rcases h with ((((h | h) | h) | h) | h) | h
  · omega
  · subst h; decide
  · subst h; decide
  · subst h; decide
  · omega
  · omega

/-- the per-character lemma: what the escaper writes for `c` is read back as `c`. -/
theorem unescFrom_escapeChar (c : Char) (t : List Char) :
    unescFrom none (escapeChar c ++ t) = push c (unescFrom none t) := by
  unfold escapeChar
  by_cases h1 : c = '"'
  · subst h1; exact unescFrom_simple '"' '"' t (by decide) (by decide)
  by_cases h2 : c = '\\'
  · subst h2; exact unescFrom_simple '\\' '\\' t (by decide) (by decide)
  by_cases h3 : c = '\n'
  · subst h3; exact unescFrom_simple 'n' '\n' t (by decide) (by decide)
  by_cases h4 : c = '\r'
  · subst h4; exact unescFrom_simple 'r' '\r' t (by decide) (by decide)
  by_cases h5 : c = '\t'
  · subst h5; exact unescFrom_simple 't' '\t' t (by decide) (by decide)
  by_cases h6 : needsU c = true
  · simp only [h1, h2, h3, h4, h5, h6, if_false, if_true]
    rw [unescFrom_u4 _ _ (needsU_lt c h6), Char.ofNat_toNat]
  · simp only [h1, h2, h3, h4, h5, h6, if_false]
    exact unescFrom_raw c t h1 h2

theorem unescape_escape (s : Str) (rest : List Char) :
    unescape (escape s ++ '"' :: rest) = some (s, rest) := by
  unfold unescape
  induction s with
  | nil => rw [unescFrom.eq_def]; simp [escape, flushSur]
  | cons c t ih =>
    simp only [escape, List.append_assoc]
    rw [unescFrom_escapeChar, ih]; rfl

theorem unquote_quote (s : Str) : unquote (quote s) = some s := by
  simp [unquote, quote, unescape_escape]

/-- the literal starts with `"`; no character of it is white space at the front. -/
theorem quote_eq (s : Str) (rest : List Char) : quote s ++ rest = '"' :: (escape s ++ '"' :: rest) := by
  simp [quote]

end Conduit.Codec
