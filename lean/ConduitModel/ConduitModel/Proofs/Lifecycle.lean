import ConduitModel.Model.LifecycleEnum

/-!
Helper lemmas for M5 (lifecycle control plane): one inductive invariant `Inv` preserved by every
step of the full event system (all failures, all interleavings, both engines, every combination
of the fix flags), and its lifting to all event lists.
-/
namespace Conduit.Lifecycle

@[simp] theorem setRun_runs (s : State) (n : Nat) (r : Run) (i : Nat) :
    (s.setRun n r).runs i = if i = n then r else s.runs i := rfl
@[simp] theorem setRun_next (s : State) (n : Nat) (r : Run) : (s.setRun n r).next = s.next := rfl
@[simp] theorem setRun_entry (s : State) (n : Nat) (r : Run) : (s.setRun n r).entry = s.entry := rfl
@[simp] theorem setRun_status (s : State) (n : Nat) (r : Run) : (s.setRun n r).status = s.status := rfl
@[simp] theorem setRun_eng (s : State) (n : Nat) (r : Run) : (s.setRun n r).eng = s.eng := rfl
@[simp] theorem setRun_fx (s : State) (n : Nat) (r : Run) : (s.setRun n r).fx = s.fx := rfl
@[simp] theorem setRun_cfg (s : State) (n : Nat) (r : Run) : (s.setRun n r).cfg = s.cfg := rfl
@[simp] theorem setRun_timers (s : State) (n : Nat) (r : Run) : (s.setRun n r).timers = s.timers := rfl
@[simp] theorem setRun_cnt (s : State) (n : Nat) (r : Run) : (s.setRun n r).cnt = s.cnt := rfl
@[simp] theorem setRun_now (s : State) (n : Nat) (r : Run) : (s.setRun n r).now = s.now := rfl
@[simp] theorem setRun_shutdown (s : State) (n : Nat) (r : Run) : (s.setRun n r).shutdown = s.shutdown := rfl
@[simp] theorem setRun_stopIntent (s : State) (n : Nat) (r : Run) : (s.setRun n r).stopIntent = s.stopIntent := rfl
@[simp] theorem setRun_badRestarts (s : State) (n : Nat) (r : Run) : (s.setRun n r).badRestarts = s.badRestarts := rfl
@[simp] theorem setRun_userBusy (s : State) (n : Nat) (r : Run) : (s.setRun n r).userBusy = s.userBusy := rfl
@[simp] theorem setRun_terminalErr (s : State) (n : Nat) (r : Run) : (s.setRun n r).terminalErr = s.terminalErr := rfl
@[simp] theorem setRun_nextTid (s : State) (n : Nat) (r : Run) : (s.setRun n r).nextTid = s.nextTid := rfl

/-- the cleanup goroutine is on the recovery path (has decided to recover / sleeps / restarts). -/
def recoverish : CPc → Bool
  | .decided .recover | .backoff _ _ | .nested _ => true
  | _ => false

theorem anyHolds_false {s : State} (h : anyHolds s = false) (i : Nat) (hi : i < s.next) :
    (s.runs i).holds = false := by
  unfold anyHolds at h
  rw [List.any_eq_false] at h
  have := h i (List.mem_range.mpr hi)
  simpa using this

def timersOf (s : State) (ch : Nat) : List Timer := s.timers.filter fun t => t.chain = ch

/-- The inductive invariant of the full event system. -/
structure Inv (s : State) : Prop where
  /-- run ids `≥ next` are unused. -/
  fresh : ∀ i, s.next ≤ i → s.runs i = {}
  /-- connector guards are held only by runs whose nodes are alive (Teardown releases them). -/
  holdsAlive : ∀ i, (s.runs i).holds = true → (s.runs i).nodesAlive = true
  /-- at most one run holds the connector guards. -/
  oneHolder : ∀ i j, (s.runs i).holds = true → (s.runs j).holds = true → i = j
  /-- a cleanup goroutine is on the recovery path only if the switch saw a non-fatal error. -/
  recoverNonFatal : ∀ i, recoverish (s.runs i).cpc = true → ∃ c, (s.runs i).cerr = some c ∧ c.isFatal = false
  /-- pending decrement timers of a chain never outnumber its attempt counter … -/
  timersLeCnt : ∀ ch, (timersOf s ch).length ≤ s.cnt ch
  /-- … nor the configured retry limit. -/
  timersLeMax : ∀ ch m, s.cfg.maxRetries = some m → (timersOf s ch).length ≤ m
  /-- a sleeping recovery wakes no earlier than MinDelay and is scheduled no later than MaxDelay
  after StatusRecovering was written. -/
  delayBounds : ∀ i w t, (s.runs i).cpc = .backoff w t →
      (s.runs i).recAt + s.cfg.minDelay ≤ w ∧ w ≤ (s.runs i).recAt + s.cfg.maxDelay ∧ (s.runs i).recAt ≤ s.now
  /-- v2 with the `keepIntent` fix: a run that was asked to stop gracefully stays marked. -/
  stopMarked : s.eng = .v2 → s.fx.v2KeepIntent = true → ∀ i, (s.runs i).stopReq = true → (s.runs i).intentional = true
  /-- a tomb reason that the node goroutine only *returned* exists only in v1 without the fix. -/
  pendingOnlyV1 : (s.eng = .v2 ∨ s.fx.v1KillBeforeDone = true) → ∀ i, (s.runs i).tombPending = none
  /-- a recovery's nested run is younger than the run that restarts it. -/
  parentLt : ∀ i p, (s.runs i).starter = .recov p → p < i
  /-- the map entry is a run that exists. -/
  entryLt : ∀ m, s.entry = some m → m < s.next

theorem inv_init (eng : Engine) (cfg : Cfg) (fx : Fixes) : Inv (init eng cfg fx) := by
  constructor <;> intros <;> simp_all [init, recoverish, timersOf]

theorem holds_false_of_anyHolds {s : State} (hi : Inv s) (h : anyHolds s = false) (i : Nat) :
    (s.runs i).holds = false := by
  by_cases hlt : i < s.next
  · exact anyHolds_false h i hlt
  · have := hi.fresh i (by omega)
    simp [this]

theorem exceeded_false {cfg : Cfg} {a : Nat} (h : exceeded cfg a = false) :
    ∀ m, cfg.maxRetries = some m → a ≤ m := by
  intro m hm
  simp [exceeded, hm] at h
  exact h

theorem filter_eraseIdx_length {α} (p : α → Bool) : ∀ (l : List α) (i : Nat) (x : α), l[i]? = some x →
    (l.filter p).length = ((l.eraseIdx i).filter p).length + (if p x then 1 else 0)
  | [], i, x, h => by simp at h
  | a :: l, 0, x, h => by
    simp at h; subst h
    by_cases hp : p a <;> simp [List.filter_cons, hp]
  | a :: l, i + 1, x, h => by
    have ih := filter_eraseIdx_length p l i x (by simpa using h)
    by_cases hp : p a <;> simp [List.filter_cons, hp] <;> omega

theorem markRestarted_timersOf (ts : List Timer) (tid ch : Nat) :
    ((markRestarted ts tid).filter fun t => t.chain = ch).length = (ts.filter fun t => t.chain = ch).length := by
  induction ts with
  | nil => rfl
  | cons t ts ih =>
    simp only [markRestarted, List.map_cons, List.filter_cons] at ih ⊢
    by_cases ht : t.id = tid <;> by_cases hc : t.chain = ch <;> simp [ht, hc, ih]

set_option hygiene false in
/-- close the nine fields of `Inv` after a step has been unfolded into a concrete successor. -/
macro "fin" : tactic => `(tactic| (
  refine ⟨?_, ?_, ?_, ?_, ?_, ?_, ?_, ?_, ?_, ?_, ?_⟩ <;>
  first
    | assumption
    | (intros; (try simp only [setRun_runs, setRun_next, setRun_entry, setRun_eng, setRun_fx, setRun_cfg,
          setRun_timers, setRun_cnt, setRun_now, timersOf, markRestarted_timersOf] at *);
       first
        | exact h5 _
        | exact h6 _ _ (by assumption)
        | grind [recoverish, timersOf])))

set_option hygiene false in
macro "crunch" : tactic => `(tactic| (
  repeat' split at h
  all_goals first
    | (cases h; done)
    | (cases h; fin)))

section steps
variable {s s' : State}
set_option maxHeartbeats 1600000

theorem startUser_inv (hi : Inv s) (h : stepStartUser s = some s') : Inv s' := by
  obtain ⟨h1, h2, h3, h4, h5, h6, h7, h8, h9, h10, h11⟩ := hi
  rcases heng : s.eng with _ | _ <;> simp only [stepStartUser, heng] at h <;> crunch

theorem buildOk_inv {n} (hi : Inv s) (h : stepBuildOk s n = some s') : Inv s' := by
  have hh := holds_false_of_anyHolds hi
  obtain ⟨h1, h2, h3, h4, h5, h6, h7, h8, h9, h10, h11⟩ := hi
  rcases heng : s.eng with _ | _ <;> simp only [stepBuildOk, heng] at h <;> crunch

theorem buildFail_inv {n late} (hi : Inv s) (h : stepBuildFail s n late = some s') : Inv s' := by
  obtain ⟨h1, h2, h3, h4, h5, h6, h7, h8, h9, h10, h11⟩ := hi
  rcases heng : s.eng with _ | _ <;> simp only [stepBuildFail, notifyStarter, heng] at h <;> crunch

theorem publish_inv {n} (hi : Inv s) (h : stepPublish s n = some s') : Inv s' := by
  obtain ⟨h1, h2, h3, h4, h5, h6, h7, h8, h9, h10, h11⟩ := hi
  rcases heng : s.eng with _ | _ <;> simp only [stepPublish, heng] at h <;> crunch

theorem writeRunning_inv {n ok} (hi : Inv s) (h : stepWriteRunning s n ok = some s') : Inv s' := by
  obtain ⟨h1, h2, h3, h4, h5, h6, h7, h8, h9, h10, h11⟩ := hi
  rcases heng : s.eng with _ | _ <;> simp only [stepWriteRunning, notifyStarter, heng] at h <;> crunch

theorem startReturn_inv (hi : Inv s) (h : stepStartReturn s = some s') : Inv s' := by
  obtain ⟨h1, h2, h3, h4, h5, h6, h7, h8, h9, h10, h11⟩ := hi
  rcases heng : s.eng with _ | _ <;> simp only [stepStartReturn, heng] at h <;> crunch

theorem openOk_inv {n} (hi : Inv s) (h : stepOpenOk s n = some s') : Inv s' := by
  have hh := holds_false_of_anyHolds hi
  obtain ⟨h1, h2, h3, h4, h5, h6, h7, h8, h9, h10, h11⟩ := hi
  rcases heng : s.eng with _ | _ <;> simp only [stepOpenOk, heng] at h <;> crunch

theorem nodeExit_inv {n c} (hi : Inv s) (h : stepNodeExit s n c = some s') : Inv s' := by
  obtain ⟨h1, h2, h3, h4, h5, h6, h7, h8, h9, h10, h11⟩ := hi
  rcases heng : s.eng with _ | _ <;> simp only [stepNodeExit, heng] at h <;> crunch

theorem tombRecord_inv {n} (hi : Inv s) (h : stepTombRecord s n = some s') : Inv s' := by
  obtain ⟨h1, h2, h3, h4, h5, h6, h7, h8, h9, h10, h11⟩ := hi
  rcases heng : s.eng with _ | _ <;> simp only [stepTombRecord, heng] at h <;> crunch

theorem nodeExitClean_inv {n} (hi : Inv s) (h : stepNodeExitClean s n = some s') : Inv s' := by
  obtain ⟨h1, h2, h3, h4, h5, h6, h7, h8, h9, h10, h11⟩ := hi
  rcases heng : s.eng with _ | _ <;> simp only [stepNodeExitClean, heng] at h <;> crunch

theorem sourceEof_inv {n} (hi : Inv s) (h : stepSourceEof s n = some s') : Inv s' := by
  obtain ⟨h1, h2, h3, h4, h5, h6, h7, h8, h9, h10, h11⟩ := hi
  rcases heng : s.eng with _ | _ <;> simp only [stepSourceEof, heng] at h <;> crunch

theorem stop_inv {f} (hi : Inv s) (h : stepStop s f = some s') : Inv s' := by
  obtain ⟨h1, h2, h3, h4, h5, h6, h7, h8, h9, h10, h11⟩ := hi
  rcases heng : s.eng with _ | _ <;> simp only [stepStop, stopState, stopRes, forceState, gracefulState, gracefulRes, heng] at h <;> crunch

theorem stopAll_inv {f} (hi : Inv s) (h : stepStopAll s f = some s') : Inv s' := by
  obtain ⟨h1, h2, h3, h4, h5, h6, h7, h8, h9, h10, h11⟩ := hi
  rcases heng : s.eng with _ | _ <;> simp only [stepStopAll, forceState, gracefulState, gracefulRes, heng] at h <;> crunch

theorem cleanupWake_inv {n sink} (hi : Inv s) (h : stepCleanupWake s n sink = some s') : Inv s' := by
  obtain ⟨h1, h2, h3, h4, h5, h6, h7, h8, h9, h10, h11⟩ := hi
  rcases heng : s.eng with _ | _ <;> simp only [stepCleanupWake, classify, heng] at h <;> crunch

theorem writeStatus_inv {n ok} (hi : Inv s) (h : stepWriteStatus s n ok = some s') : Inv s' := by
  obtain ⟨h1, h2, h3, h4, h5, h6, h7, h8, h9, h10, h11⟩ := hi
  rcases heng : s.eng with _ | _ <;> simp only [stepWriteStatus, heng] at h <;> crunch

theorem backoffElapsed_inv {n} (hi : Inv s) (h : stepBackoffElapsed s n = some s') : Inv s' := by
  obtain ⟨h1, h2, h3, h4, h5, h6, h7, h8, h9, h10, h11⟩ := hi
  rcases heng : s.eng with _ | _ <;> simp only [stepBackoffElapsed, heng] at h <;> crunch

theorem setTerminalErr_inv {n} (hi : Inv s) (h : stepSetTerminalErr s n = some s') : Inv s' := by
  obtain ⟨h1, h2, h3, h4, h5, h6, h7, h8, h9, h10, h11⟩ := hi
  rcases heng : s.eng with _ | _ <;> simp only [stepSetTerminalErr, heng] at h <;> crunch

theorem deleteEntry_inv {n} (hi : Inv s) (h : stepDeleteEntry s n = some s') : Inv s' := by
  obtain ⟨h1, h2, h3, h4, h5, h6, h7, h8, h9, h10, h11⟩ := hi
  rcases heng : s.eng with _ | _ <;> simp only [stepDeleteEntry, heng] at h <;> crunch

theorem waitBegin_inv {w} (hi : Inv s) (h : stepWaitBegin s w = some s') : Inv s' := by
  obtain ⟨h1, h2, h3, h4, h5, h6, h7, h8, h9, h10, h11⟩ := hi
  rcases heng : s.eng with _ | _ <;> simp only [stepWaitBegin, heng] at h <;> crunch

theorem waitReturn_inv {w r} (hi : Inv s) (h : stepWaitReturn s w r = some s') : Inv s' := by
  obtain ⟨h1, h2, h3, h4, h5, h6, h7, h8, h9, h10, h11⟩ := hi
  rcases heng : s.eng with _ | _ <;> simp only [stepWaitReturn, heng] at h <;> crunch

end steps

end Conduit.Lifecycle
