import ConduitModel.Model.LifecycleOpen

namespace Conduit.LifecycleOpen

theorem openUpTo_apply (f : Nat → Bool) : ∀ (k j : Nat), openUpTo f k j = (decide (j < k) || f j)
  | 0, j => by simp [openUpTo]
  | k + 1, j => by
    simp only [openUpTo, setSrc]
    by_cases h : j = k
    · subst h; simp
    · rw [if_neg h, openUpTo_apply f k j]
      have : (j < k + 1) ↔ (j < k) := by omega
      simp [this]

theorem closeDownTo_apply (lo : Nat) : ∀ (hi : Nat) (f : Nat → Bool) (j : Nat),
    closeDownTo f lo hi j = (f j && !(decide (lo ≤ j) && decide (j < hi)))
  | 0, f, j => by simp [closeDownTo]
  | hi + 1, f, j => by
    simp only [closeDownTo]
    by_cases hlo : lo ≤ hi
    · rw [if_pos hlo, closeDownTo_apply lo hi (setSrc f hi false) j]
      simp only [setSrc]
      by_cases h : j = hi
      · subst h; simp [hlo]
      · rw [if_neg h]
        have : (j < hi + 1) ↔ (j < hi) := by omega
        simp [this]
    · rw [if_neg hlo]
      have h1 : ¬ (lo ≤ j ∧ j < hi + 1) := by omega
      have h2 : (decide (lo ≤ j) && decide (j < hi + 1)) = false := by
        cases h3 : (decide (lo ≤ j) && decide (j < hi + 1))
        · rfl
        · simp only [Bool.and_eq_true, decide_eq_true_eq] at h3; exact absurd h3 h1
      simp [h2]

theorem anyHeld_false_iff (g : Guards) (n : Nat) :
    g.anyHeld n = false ↔ g.sink = false ∧ ∀ j, j < n → g.src j = false := by
  simp only [Guards.anyHeld, Bool.or_eq_false_iff, List.any_eq_false, List.mem_range]
  constructor
  · intro ⟨h1, h2⟩; exact ⟨h1, fun j hj => by simpa using h2 j hj⟩
  · intro ⟨h1, h2⟩; exact ⟨h1, fun j hj => by simp [h2 j hj]⟩

end Conduit.LifecycleOpen
