import ConduitModel.Proofs.Lifecycle

/-!
`Inv` is preserved by the remaining steps (attempt counting, timers, time) and hence by every
step and every event list: `reach_inv`.
-/
namespace Conduit.Lifecycle

section steps
variable {s s' : State}
set_option maxHeartbeats 1600000

theorem recoverBegin_inv {n d ok} (hi : Inv s) (h : stepRecoverBegin s n d ok = some s') : Inv s' := by
  obtain ⟨h1, h2, h3, h4, h5, h6, h7, h8, h9, h10, h11⟩ := hi
  simp only [stepRecoverBegin] at h
  split at h
  · cases h
  · rename_i hg
    simp only [not_or, Nat.not_lt, Decidable.not_not] at hg
    obtain ⟨hcpc, hmin, hmax⟩ := hg
    have hrec : recoverish (s.runs n).cpc = true := by rw [hcpc]; rfl
    split at h
    · -- UpdateStatus(Recovering) failed
      cases h
      refine ⟨?_, ?_, ?_, ?_, ?_, ?_, ?_, ?_, ?_, ?_, ?_⟩ <;>
      first
        | assumption
        | (intros; (try simp only [setRun_runs, setRun_next, setRun_entry, setRun_eng, setRun_fx, setRun_cfg,
              setRun_timers, setRun_cnt, setRun_now, timersOf] at *);
           first | exact h5 _ | exact h6 _ _ (by assumption) | grind [recoverish, timersOf])
    · split at h
      · -- MaxRetries exceeded: counter incremented, no timer
        cases h
        refine ⟨?_, ?_, ?_, ?_, ?_, ?_, ?_, ?_, ?_, ?_, ?_⟩ <;>
        first
          | assumption
          | (intro ch
             have := h5 ch
             simp only [timersOf] at *
             show _ ≤ (if ch = (s.runs n).chain then _ else _)
             split <;> omega)
          | (intros; (try simp only [setRun_runs, setRun_next, setRun_entry, setRun_eng, setRun_fx, setRun_cfg,
                setRun_timers, setRun_cnt, setRun_now, timersOf] at *);
             first | exact h6 _ _ (by assumption) | grind [recoverish, timersOf])
      · -- back-off: counter incremented, one timer armed
        rename_i hex
        have hexf : exceeded s.cfg (s.cnt (s.runs n).chain + 1) = false := by simpa using hex
        have hle := exceeded_false hexf
        cases h
        refine ⟨?f1, ?f2, ?f3, ?f4, ?f5, ?f6, ?f7, ?f8, ?f9, ?f10, ?f11⟩
        case f5 =>
          intro ch
          have := h5 ch
          simp only [timersOf, List.filter_append, List.length_append, List.filter_cons, List.filter_nil] at *
          show _ ≤ (if ch = (s.runs n).chain then _ else _)
          by_cases hc : (s.runs n).chain = ch
          · subst hc; simp; omega
          · have : ¬ ch = (s.runs n).chain := fun e => hc e.symm
            simp [hc, this]; omega
        case f6 =>
          intro ch m hm
          have a := h6 ch m hm
          have b := h5 ch
          have c := hle m hm
          simp only [timersOf, List.filter_append, List.length_append, List.filter_cons, List.filter_nil] at *
          by_cases hc : (s.runs n).chain = ch
          · subst hc; simp; omega
          · simp [hc]; omega
        all_goals first
          | assumption
          | (intros; (try simp only [setRun_runs, setRun_next, setRun_entry, setRun_eng, setRun_fx, setRun_cfg,
                setRun_timers, setRun_cnt, setRun_now] at *); grind [recoverish])

theorem attemptDecay_inv {i} (hi : Inv s) (h : stepAttemptDecay s i = some s') : Inv s' := by
  obtain ⟨h1, h2, h3, h4, h5, h6, h7, h8, h9, h10, h11⟩ := hi
  simp only [stepAttemptDecay] at h
  split at h
  · cases h
  · rename_i t ht
    split at h
    · cases h
    · cases h
      have key := fun ch => filter_eraseIdx_length (fun t' : Timer => decide (t'.chain = ch)) s.timers i t ht
      refine ⟨h1, h2, h3, h4, ?_, ?_, h7, h8, h9, h10, h11⟩
      · intro ch
        have a := h5 ch
        have k := key ch
        simp only [timersOf] at *
        show _ ≤ (if ch = t.chain then _ else _)
        by_cases hc : t.chain = ch
        · subst hc; simp at k ⊢; omega
        · have : ¬ ch = t.chain := fun e => hc e.symm
          simp [hc, this] at k ⊢; omega
      · intro ch m hm
        have a := h6 ch m hm
        have k := key ch
        simp only [timersOf] at *
        split at k <;> omega

theorem tick_inv {d} (hi : Inv s) (h : (if d = 0 then none else some { s with now := s.now + d }) = some s') : Inv s' := by
  obtain ⟨h1, h2, h3, h4, h5, h6, h7, h8, h9, h10, h11⟩ := hi
  split at h
  · cases h
  · cases h
    refine ⟨h1, h2, h3, h4, h5, h6, ?_, h8, h9, h10, h11⟩
    intro i w t hb
    have := h7 i w t hb
    simp at *; omega

end steps

/-- every step of the full event system preserves `Inv`. -/
theorem step_inv {s s' : State} {e : Event} (hi : Inv s) (h : step s e = some s') : Inv s' := by
  cases e <;> simp only [step] at h
  · exact startUser_inv hi h
  · exact buildOk_inv hi h
  · exact buildFail_inv hi h
  · exact publish_inv hi h
  · exact writeRunning_inv hi h
  · exact startReturn_inv hi h
  · exact openOk_inv hi h
  · exact nodeExit_inv hi h
  · exact tombRecord_inv hi h
  · exact nodeExitClean_inv hi h
  · exact sourceEof_inv hi h
  · exact stop_inv hi h
  · exact stopAll_inv hi h
  · exact cleanupWake_inv hi h
  · exact writeStatus_inv hi h
  · exact recoverBegin_inv hi h
  · exact backoffElapsed_inv hi h
  · exact setTerminalErr_inv hi h
  · exact deleteEntry_inv hi h
  · exact tick_inv hi h
  · exact attemptDecay_inv hi h
  · exact waitBegin_inv hi h
  · exact waitReturn_inv hi h

theorem runFrom_inv : ∀ (evs : List Event) {s s' : State}, Inv s → runFrom s evs = some s' → Inv s'
  | [], s, s', hi, h => by simp [runFrom] at h; exact h ▸ hi
  | e :: es, s, s', hi, h => by
    simp only [runFrom] at h
    cases hs : step s e with
    | none => simp [hs] at h
    | some s1 =>
      simp [hs] at h
      exact runFrom_inv es (step_inv hi hs) h

/-- every reachable state of M5 (any engine, configuration, fix flags, event list) satisfies `Inv`. -/
theorem reach_inv {eng cfg fx s} (h : Reach eng cfg fx s) : Inv s := by
  obtain ⟨evs, h⟩ := h
  exact runFrom_inv evs (inv_init eng cfg fx) h

/-- a run of the hypothesis-restricted system is a run of the full system. -/
theorem runFromH_runFrom (hy : Hyps) : ∀ (evs : List Event) {s s' : State},
    runFromH hy s evs = some s' → runFrom s evs = some s'
  | [], s, s', h => by simpa [runFromH, runFrom] using h
  | e :: es, s, s', h => by
    simp only [runFromH, stepH] at h
    simp only [runFrom]
    split at h
    · cases hs : step s e with
      | none => simp [hs] at h
      | some s1 =>
        simp [hs] at h ⊢
        exact runFromH_runFrom hy es h
    · simp at h

end Conduit.Lifecycle
