import ConduitModel.Proofs.LifecycleRun

/-!
C10 "a pipeline that a user stopped, or that stopped because the server is shutting down, is never
restarted by recovery" — for engine v2 WITH the two stop fixes (`v2RecheckStop`, `v2KeepIntent`),
for every event list in which no Stop/StopAll call overlaps a Start that has not published yet.
-/
namespace Conduit.Lifecycle

/-- the only hypothesis: no Stop/StopAll while a Start is between status check and publication. -/
def hypStop : Hyps := { Hyps.all with stopDuringStart := false }

structure InvStop (s : State) : Prop where
  isV2 : s.eng = .v2
  fix1 : s.fx.v2RecheckStop = true
  fix2 : s.fx.v2KeepIntent = true
  /-- no recovery restart has happened while a stop request was in force. -/
  noBad : s.badRestarts = 0
  /-- while a stop request is in force, whatever run the map resolves is marked (or the server is
  shutting down) … -/
  guard : s.stopIntent = true → s.shutdown = true ∨
      ∀ m, s.entry = some m → ((s.runs m).forced = true ∨ (s.runs m).intentional = true)
  /-- … and no Start is on its way to publish an unmarked run. -/
  quiet : s.stopIntent = true → ∀ i, (s.runs i).phase = .building ∨ (s.runs i).phase = .built → s.next ≤ i

theorem startInFlight_false {s : State} (h : startInFlight s = false) (i : Nat) (hi : i < s.next) :
    (s.runs i).phase ≠ .building ∧ (s.runs i).phase ≠ .built := by
  unfold startInFlight at h
  rw [List.any_eq_false] at h
  have := h i (List.mem_range.mpr hi)
  simpa using this

set_option hygiene false in
macro "finS" : tactic => `(tactic| (
  refine ⟨?_, ?_, ?_, ?_, ?_, ?_⟩ <;>
  first
    | assumption
    | (intros; (try simp only [setRun_runs, setRun_next, setRun_entry, setRun_eng, setRun_fx, setRun_shutdown,
          setRun_stopIntent, setRun_badRestarts] at *) <;> grind)))

set_option hygiene false in
macro "crunchS" : tactic => `(tactic| (
  repeat' split at h
  all_goals first
    | (cases h; done)
    | (cases h; finS)))

section steps
variable {s s' : State}
set_option maxHeartbeats 1600000

theorem stepH_invStop {e : Event} (hi : Inv s) (hs : InvStop s) (h : stepH hypStop s e = some s') : InvStop s' := by
  have hm := hi.stopMarked
  have hfresh := hi.fresh
  obtain ⟨g1, g2, g3, g4, g5, g6⟩ := hs
  simp only [stepH] at h
  split at h
  case isFalse => cases h
  rename_i hal
  cases e <;> simp only [step] at h
  case startUser => simp only [stepStartUser, g1] at h; crunchS
  case buildOk n => simp only [stepBuildOk, g1] at h; crunchS
  case buildFail n l => simp only [stepBuildFail, notifyStarter, g1] at h; crunchS
  case publish n => simp only [stepPublish, g1] at h; crunchS
  case writeRunning n ok => simp only [stepWriteRunning, notifyStarter, g1] at h; crunchS
  case startReturn => simp only [stepStartReturn, g1] at h; crunchS
  case openOk n => simp only [stepOpenOk, g1] at h; crunchS
  case nodeExit n c => simp only [stepNodeExit, g1] at h; crunchS
  case tombRecord n => simp only [stepTombRecord, g1] at h; crunchS
  case nodeExitClean n => simp only [stepNodeExitClean, g1] at h; crunchS
  case sourceEof n => simp only [stepSourceEof, g1] at h; crunchS
  case stop f =>
    have hq : ∀ m, s.entry = some m → (s.status = .running ∨ s.status = .recovering) →
        ∀ i, (s.runs i).phase = .building ∨ (s.runs i).phase = .built → s.next ≤ i := by
      intro m hm' hst i hp
      by_cases hlt : i < s.next
      · have hf : startInFlight s = false := by
          simp [allowed, hypStop, Hyps.all, hm'] at hal
          exact hal
        have := startInFlight_false hf i hlt
        rcases hp with hp | hp <;> simp [hp] at this
      · omega
    simp only [stepStop, stopState, stopRes, forceState, gracefulState, gracefulRes, g1] at h
    crunchS
  case stopAll f =>
    simp only [stepStopAll, forceState, gracefulState, gracefulRes, g1] at h
    have hq : ∀ i, (s.runs i).phase = .building ∨ (s.runs i).phase = .built → s.next ≤ i := by
      intro i hp
      by_cases hlt : i < s.next
      · have hf : startInFlight s = false := by
          simp only [allowed, hypStop, Hyps.all] at hal
          split at hal <;> simp at hal <;> exact hal
        have := startInFlight_false hf i hlt
        rcases hp with hp | hp <;> simp [hp] at this
      · omega
    crunchS
  case cleanupWake n k => simp only [stepCleanupWake, classify, g1] at h; crunchS
  case writeStatus n ok => simp only [stepWriteStatus, g1] at h; crunchS
  case recoverBegin n d ok => simp only [stepRecoverBegin, g1] at h; crunchS
  case backoffElapsed n => simp only [stepBackoffElapsed, g1, g2] at h; crunchS
  case setTerminalErr n => simp only [stepSetTerminalErr, g1] at h; crunchS
  case deleteEntry n => simp only [stepDeleteEntry, g1] at h; crunchS
  case tick d => crunchS
  case attemptDecay i => simp only [stepAttemptDecay, g1] at h; crunchS
  case waitBegin w => simp only [stepWaitBegin, g1] at h; crunchS
  case waitReturn w r => simp only [stepWaitReturn, g1] at h; crunchS

end steps

theorem invStop_init (cfg : Cfg) (fx : Fixes) (h1 : fx.v2RecheckStop = true) (h2 : fx.v2KeepIntent = true) :
    InvStop (init .v2 cfg fx) := by
  constructor <;> simp_all [init]

theorem runFromH_invStop : ∀ (evs : List Event) {s s' : State}, Inv s → InvStop s →
    runFromH hypStop s evs = some s' → InvStop s'
  | [], s, s', _, hs, h => by simp [runFromH] at h; exact h ▸ hs
  | e :: es, s, s', hi, hs, h => by
    simp only [runFromH] at h
    cases hst : stepH hypStop s e with
    | none => simp [hst] at h
    | some s1 =>
      simp [hst] at h
      have hstep : step s e = some s1 := by
        simp only [stepH] at hst; split at hst <;> simp_all
      exact runFromH_invStop es (step_inv hi hstep) (stepH_invStop hi hs hst) h

end Conduit.Lifecycle
