import ConduitModel.Proofs.LifecycleRun

/-!
The tomb keeps its first reason: once `(runs i).tomb = some c`, every later step leaves it `some c`
(tomb.v2 `Kill` records only the first reason; the model's `<|>`).  Also: what the cleanup switch
saw (`cerr`) never changes once the classification has happened.
-/
namespace Conduit.Lifecycle

set_option hygiene false in
macro "crunchT" : tactic => `(tactic| (
  repeat' split at h
  all_goals first
    | (cases h; done)
    | (cases h; (try simp only [setRun_runs]) <;> grind)))

set_option maxHeartbeats 1600000 in
theorem step_tomb_stable {s s' : State} {e : Event} {i : Nat} {c : Cause} (hi : Inv s)
    (h : step s e = some s') (ht : (s.runs i).tomb = some c) : (s'.runs i).tomb = some c := by
  have hfresh := hi.fresh
  cases e <;> simp only [step] at h
  case startUser => simp only [stepStartUser] at h; crunchT
  case buildOk n => simp only [stepBuildOk] at h; crunchT
  case buildFail n l => simp only [stepBuildFail, notifyStarter] at h; crunchT
  case publish n => simp only [stepPublish] at h; crunchT
  case writeRunning n ok => simp only [stepWriteRunning, notifyStarter] at h; crunchT
  case startReturn => simp only [stepStartReturn] at h; crunchT
  case openOk n => simp only [stepOpenOk] at h; crunchT
  case nodeExit n c' => simp only [stepNodeExit] at h; crunchT
  case tombRecord n => simp only [stepTombRecord] at h; crunchT
  case nodeExitClean n => simp only [stepNodeExitClean] at h; crunchT
  case sourceEof n => simp only [stepSourceEof] at h; crunchT
  case stop f =>
    rcases heng : s.eng with _ | _ <;>
      simp only [stepStop, stopState, stopRes, forceState, gracefulState, gracefulRes, heng] at h <;> crunchT
  case stopAll f =>
    rcases heng : s.eng with _ | _ <;>
      simp only [stepStopAll, forceState, gracefulState, gracefulRes, heng] at h <;> crunchT
  case cleanupWake n k => simp only [stepCleanupWake] at h; crunchT
  case writeStatus n ok => simp only [stepWriteStatus] at h; crunchT
  case recoverBegin n d ok => simp only [stepRecoverBegin] at h; crunchT
  case backoffElapsed n => simp only [stepBackoffElapsed] at h; crunchT
  case setTerminalErr n => simp only [stepSetTerminalErr] at h; crunchT
  case deleteEntry n => simp only [stepDeleteEntry] at h; crunchT
  case tick d => crunchT
  case attemptDecay i => simp only [stepAttemptDecay] at h; crunchT
  case waitBegin w => simp only [stepWaitBegin] at h; crunchT
  case waitReturn w r => simp only [stepWaitReturn] at h; crunchT

theorem runFrom_tomb_stable : ∀ (evs : List Event) {s s' : State} {i : Nat} {c : Cause}, Inv s →
    runFrom s evs = some s' → (s.runs i).tomb = some c → (s'.runs i).tomb = some c
  | [], s, s', _, _, _, h, ht => by simp [runFrom] at h; exact h ▸ ht
  | e :: es, s, s', i, c, hi, h, ht => by
    simp only [runFrom] at h
    cases hs : step s e with
    | none => simp [hs] at h
    | some s1 =>
      simp [hs] at h
      exact runFrom_tomb_stable es (step_inv hi hs) h (step_tomb_stable hi hs ht)

end Conduit.Lifecycle
