import ConduitModel.Model.LockTable

/-!
The lock table with lookup + create + insert inside one `p.mu` section: all callers of one id
obtain the same mutex, hence mutual exclusion of the per-id sections in every interleaving, and
the state an apply mutates is the state its plan / hash check read.
-/
namespace Conduit.LockTable

variable {σ : Type}

theorem setCaller_same (s : LT σ) (c : Nat) (k : Caller σ) : (setCaller s c k).cs c = k := by
  simp [setCaller]

theorem setCaller_other (s : LT σ) (c : Nat) (k : Caller σ) (j : Nat) (h : j ≠ c) : (setCaller s c k).cs j = s.cs j := by
  simp [setCaller, h]

/-- the one-section get-or-create: afterwards `l` is the table's entry for `id`, which exists,
and no existing entry has changed. -/
theorem fullSeg_spec (id : Id) (x : Loc) :
    (execSeg id x [.lookup, .create, .insert]).l = (execSeg id x [.lookup, .create, .insert]).table id ∧
    ((execSeg id x [.lookup, .create, .insert]).table id).isSome = true ∧
    (∀ j, (x.table j).isSome = true → (execSeg id x [.lookup, .create, .insert]).table j = x.table j) := by
  cases h : x.table id with
  | some m => simp [execSeg, execPrim, h]
  | none =>
    simp only [execSeg, List.foldl, execPrim, h, Option.isSome_none, Bool.false_eq_true, if_false]
    refine ⟨by simp, by simp, ?_⟩
    intro j hj
    by_cases e : j = id
    · subst e; rw [h] at hj; cases hj
    · simp [e]

/-- the invariant (for the code's section structure). -/
structure Inv (sys : Sys σ) (s : LT σ) : Prop where
  seg0 : ∀ c i, (s.cs c).pc = .seg i → i = 0
  past : ∀ c, ((s.cs c).pc = .acquire ∨ holds s c) →
    (s.cs c).l = s.table (sys.idOf c) ∧ (s.table (sys.idOf c)).isSome = true
  own  : ∀ c m, holds s c → (s.cs c).l = some m → s.held m = some c
  snapOk : ∀ c, (s.cs c).pc = .apply → (s.cs c).snap = some (s.st (sys.idOf c))

/-- mutual exclusion follows from the invariant. -/
theorem Inv.mutex {sys : Sys σ} {s : LT σ} (h : Inv sys s) (c1 c2 : Nat) (h1 : holds s c1) (h2 : holds s c2)
    (hid : sys.idOf c1 = sys.idOf c2) : c1 = c2 := by
  obtain ⟨a1, b1⟩ := h.past c1 (Or.inr h1)
  obtain ⟨a2, _⟩ := h.past c2 (Or.inr h2)
  cases ht : s.table (sys.idOf c1) with
  | none => rw [ht] at b1; cases b1
  | some m =>
    have e1 := h.own c1 m h1 (by rw [a1, ht])
    have e2 := h.own c2 m h2 (by rw [a2, ← hid, ht])
    rw [e1] at e2; cases e2; rfl

theorem inv_init (sys : Sys σ) (st0 : Id → σ) : Inv sys (LT.init st0) := by
  constructor
  · intro c i h; simp [LT.init] at h; exact h.symm
  · intro c h; rcases h with h | h | h | h <;> simp [LT.init] at h
  · intro c m h; rcases h with h | h | h <;> simp [LT.init] at h
  · intro c h; simp [LT.init] at h

theorem holds_setCaller_other (s s0 : LT σ) (c : Nat) (k : Caller σ) (j : Nat) (h : j ≠ c)
    (hcs : s0.cs = s.cs) : holds (setCaller s0 c k) j ↔ holds s j := by
  unfold holds; rw [setCaller_other _ _ _ _ h, hcs]

theorem inv_step (sys : Sys σ) (hshape : sys.shape = codeShape) (s s' : LT σ) (c : Nat) (hi : Inv sys s)
    (hs : step sys s c = some s') : Inv sys s' := by
  unfold step at hs
  cases hpc : (s.cs c).pc with
  | seg i =>
    have i0 : i = 0 := hi.seg0 c i hpc
    subst i0
    simp only [hpc, hshape, codeShape, List.getElem?_cons_zero, List.length_cons, List.length_nil] at hs
    simp only [Nat.lt_irrefl, if_false, Option.some.injEq, Nat.zero_add] at hs
    subst hs
    obtain ⟨f1, f2, f3⟩ := fullSeg_spec (sys.idOf c) { table := s.table, next := s.next, l := (s.cs c).l, ok := (s.cs c).ok }
    constructor
    · intro j i h
      by_cases e : j = c
      · subst e; rw [setCaller_same] at h; cases h
      · rw [setCaller_other _ _ _ _ e] at h; exact hi.seg0 j i h
    · intro j h
      by_cases e : j = c
      · subst e; rw [setCaller_same]; exact ⟨f1, f2⟩
      · rw [setCaller_other _ _ _ _ e]
        have h' : (s.cs j).pc = .acquire ∨ holds s j := by
          rcases h with h | h
          · rw [setCaller_other _ _ _ _ e] at h; exact Or.inl h
          · exact Or.inr ((holds_setCaller_other s _ c _ j e rfl).1 h)
        obtain ⟨a, b⟩ := hi.past j h'
        have := f3 (sys.idOf j) b
        exact ⟨by rw [a]; exact this.symm, by show ((execSeg _ _ _).table (sys.idOf j)).isSome = true; rw [this]; exact b⟩
    · intro j m h hl
      by_cases e : j = c
      · subst e; rcases h with h | h | h <;> rw [setCaller_same] at h <;> cases h
      · rw [setCaller_other _ _ _ _ e] at hl
        exact hi.own j m ((holds_setCaller_other s _ c _ j e rfl).1 h) hl
    · intro j h
      by_cases e : j = c
      · subst e; rw [setCaller_same] at h; cases h
      · rw [setCaller_other _ _ _ _ e] at h ⊢; exact hi.snapOk j h
  | acquire =>
    simp only [hpc] at hs
    cases hl : (s.cs c).l with
    | none => simp [hl] at hs
    | some m =>
      simp only [hl] at hs
      cases hh : s.held m with
      | some _ => simp [hh] at hs
      | none =>
        simp only [hh, Option.some.injEq] at hs
        subst hs
        constructor
        · intro j i h
          by_cases e : j = c
          · subst e; rw [setCaller_same] at h; cases h
          · rw [setCaller_other _ _ _ _ e] at h; exact hi.seg0 j i h
        · intro j h
          by_cases e : j = c
          · subst e; rw [setCaller_same]
            have := hi.past j (Or.inl hpc); rw [hl] at this; exact this
          · rw [setCaller_other _ _ _ _ e]
            refine hi.past j ?_
            rcases h with h | h
            · rw [setCaller_other _ _ _ _ e] at h; exact Or.inl h
            · exact Or.inr ((holds_setCaller_other s _ c _ j e rfl).1 h)
        · intro j m' h hl'
          by_cases e : j = c
          · subst e; rw [setCaller_same] at hl'
            cases hl'
            simp [setCaller]
          · rw [setCaller_other _ _ _ _ e] at hl'
            have := hi.own j m' ((holds_setCaller_other s _ c _ j e rfl).1 h) hl'
            have hne : m' ≠ m := by intro e'; rw [e', hh] at this; cases this
            simp [setCaller, hne, this]
        · intro j h
          by_cases e : j = c
          · subst e; rw [setCaller_same] at h; cases h
          · rw [setCaller_other _ _ _ _ e] at h ⊢; exact hi.snapOk j h
  | check =>
    simp only [hpc, Option.some.injEq] at hs
    subst hs
    have hc : holds s c := Or.inl hpc
    constructor
    · intro j i h
      by_cases e : j = c
      · subst e; rw [setCaller_same] at h; cases h
      · rw [setCaller_other _ _ _ _ e] at h; exact hi.seg0 j i h
    · intro j h
      by_cases e : j = c
      · subst e; rw [setCaller_same]; exact hi.past j (Or.inr hc)
      · rw [setCaller_other _ _ _ _ e]
        refine hi.past j ?_
        rcases h with h | h
        · rw [setCaller_other _ _ _ _ e] at h; exact Or.inl h
        · exact Or.inr ((holds_setCaller_other s _ c _ j e rfl).1 h)
    · intro j m h hl
      by_cases e : j = c
      · subst e; rw [setCaller_same] at hl; exact hi.own j m hc hl
      · rw [setCaller_other _ _ _ _ e] at hl
        exact hi.own j m ((holds_setCaller_other s _ c _ j e rfl).1 h) hl
    · intro j h
      by_cases e : j = c
      · subst e; rw [setCaller_same]; rfl
      · rw [setCaller_other _ _ _ _ e] at h ⊢; exact hi.snapOk j h
  | apply =>
    simp only [hpc, Option.some.injEq] at hs
    subst hs
    have hc : holds s c := Or.inr (Or.inl hpc)
    constructor
    · intro j i h
      by_cases e : j = c
      · subst e; rw [setCaller_same] at h; cases h
      · rw [setCaller_other _ _ _ _ e] at h; exact hi.seg0 j i h
    · intro j h
      by_cases e : j = c
      · subst e; rw [setCaller_same]; exact hi.past j (Or.inr hc)
      · rw [setCaller_other _ _ _ _ e]
        refine hi.past j ?_
        rcases h with h | h
        · rw [setCaller_other _ _ _ _ e] at h; exact Or.inl h
        · exact Or.inr ((holds_setCaller_other s _ c _ j e rfl).1 h)
    · intro j m h hl
      by_cases e : j = c
      · subst e; rw [setCaller_same] at hl; exact hi.own j m hc hl
      · rw [setCaller_other _ _ _ _ e] at hl
        exact hi.own j m ((holds_setCaller_other s _ c _ j e rfl).1 h) hl
    · intro j h
      by_cases e : j = c
      · subst e; rw [setCaller_same] at h; cases h
      · rw [setCaller_other _ _ _ _ e] at h ⊢
        have hj : holds s j := Or.inr (Or.inl h)
        have hne : sys.idOf j ≠ sys.idOf c := fun hid => e (hi.mutex j c hj hc hid)
        rw [hi.snapOk j h]
        simp [setCaller, hne]
  | unlock =>
    simp only [hpc] at hs
    cases hl : (s.cs c).l with
    | none => simp [hl] at hs
    | some m =>
      simp only [hl, Option.some.injEq] at hs
      subst hs
      have hc : holds s c := Or.inr (Or.inr hpc)
      have hown := hi.own c m hc hl
      constructor
      · intro j i h
        by_cases e : j = c
        · subst e; rw [setCaller_same] at h; cases h
        · rw [setCaller_other _ _ _ _ e] at h; exact hi.seg0 j i h
      · intro j h
        by_cases e : j = c
        · subst e; rcases h with h | h | h | h <;> rw [setCaller_same] at h <;> cases h
        · rw [setCaller_other _ _ _ _ e]
          refine hi.past j ?_
          rcases h with h | h
          · rw [setCaller_other _ _ _ _ e] at h; exact Or.inl h
          · exact Or.inr ((holds_setCaller_other s _ c _ j e rfl).1 h)
      · intro j m' h hl'
        by_cases e : j = c
        · subst e; rcases h with h | h | h <;> rw [setCaller_same] at h <;> cases h
        · rw [setCaller_other _ _ _ _ e] at hl'
          have := hi.own j m' ((holds_setCaller_other s _ c _ j e rfl).1 h) hl'
          have hne : m' ≠ m := by
            intro e'; rw [e', hown] at this; cases this; exact e rfl
          simp [setCaller, hne, this]
      · intro j h
        by_cases e : j = c
        · subst e; rw [setCaller_same] at h; cases h
        · rw [setCaller_other _ _ _ _ e] at h ⊢; exact hi.snapOk j h
  | done => simp [hpc] at hs

theorem inv_run (sys : Sys σ) (hshape : sys.shape = codeShape) : ∀ (sched : List Nat) (s : LT σ), Inv sys s →
    Inv sys (run sys s sched)
  | [], _, h => h
  | c :: rest, s, h => by
    simp only [run]
    cases hs : step sys s c with
    | none => exact inv_run sys hshape rest s h
    | some s' => exact inv_run sys hshape rest s' (inv_step sys hshape s s' c h hs)

end Conduit.LockTable
