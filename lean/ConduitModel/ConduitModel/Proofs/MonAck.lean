import ConduitModel.Proofs.MonView

/-!
# Justified acknowledgements add no violation

`AckJust tree μ ρ` — the record with root `ρ` may be acknowledged in monitor state `μ`: its DLQ write
was confirmed, or it is clean, was never written to the DLQ, and every destination of the tree
confirmed it or it was filtered. `foldl_ackT_just`: acknowledging, in read order, records that are
all justified only pops `pending`.
-/
namespace Conduit.Funnel
open Conduit.Funnel.Mon

def AckJust (tree : TaskNode) (μ : TSt) (ρ : Nat) : Prop :=
  ρ ∈ μ.dlqOk ∨ (Clean μ ρ ∧ ρ ∉ μ.dlqAny ∧ viaDestsT tree μ ρ = true)

theorem failedPiece_false_of_clean {μ : TSt} {ρ : Nat} (h : Clean μ ρ) : failedPieceT μ ρ = false := by
  unfold failedPieceT
  rw [List.any_eq_false]
  intro e he
  by_cases hr : e.2.1 = ρ
  · have := h.2 e he hr
    simp [this]
  · simp [hr]

theorem ackViol_nil (tree : TaskNode) (μ : TSt) (p : PosV) (r : Rec) (rest : List Rec) (hp : μ.pending = r :: rest)
    (hk : keyOf r.pos = keyOf p) (hj : AckJust tree μ (root r)) : ackViol tree μ p = [] := by
  unfold ackViol
  rw [hp]
  simp only [hk, beq_self_eq_true, if_true, List.nil_append]
  rcases hj with hj | ⟨hc, hany, hv⟩
  · have : μ.dlqOk.contains (root r) = true := by simpa using hj
    simp only [this, Bool.not_true, Bool.and_false, Bool.false_eq_true, if_false, Bool.true_or, if_true, List.append_nil]
  · have h1 : μ.errored.contains (root r) = false := by simpa using hc.1
    have h2 := failedPiece_false_of_clean hc
    have h3 : μ.dlqAny.contains (root r) = false := by simpa using hany
    simp only [h1, h2, h3, hv, Bool.or_false, Bool.false_and, Bool.false_eq_true, if_false, Bool.or_true, if_true,
      List.append_nil]

/-- justification only looks at the fact lists -/
theorem AckJust.congr {tree : TaskNode} {μ μ' : TSt} {ρ : Nat} (h : AckJust tree μ ρ)
    (h1 : μ'.filtered = μ.filtered) (h2 : μ'.errored = μ.errored) (h3 : μ'.written = μ.written)
    (h4 : μ'.dlqAny = μ.dlqAny) (h5 : μ'.dlqOk = μ.dlqOk) : AckJust tree μ' ρ := by
  unfold AckJust Clean viaDestsT at *
  rw [h1, h2, h3, h4, h5]
  exact h

/-- acknowledging justified records in read order only pops `pending` -/
theorem foldl_ackT_just (tree : TaskNode) : ∀ (ps : List PosV) (μ : TSt),
    (∀ (q : Nat) (p : PosV), ps[q]? = some p → ∃ r, μ.pending[q]? = some r ∧ keyOf r.pos = keyOf p ∧ AckJust tree μ (root r)) →
    ps.foldl (ackT tree) μ = { μ with pending := μ.pending.drop ps.length } := by
  intro ps
  induction ps with
  | nil => intro μ _; simp
  | cons p ps ih =>
    intro μ h
    obtain ⟨r, hr, hk, hj⟩ := h 0 p rfl
    cases hp : μ.pending with
    | nil => rw [hp] at hr; cases hr
    | cons r' rest =>
      rw [hp] at hr
      have : r' = r := by simpa using hr
      subst this
      rw [List.foldl_cons, ackT_eq, ackViol_nil tree μ p r' rest hp hk hj, List.append_nil, hp]
      rw [ih]
      · simp
      · intro q p' hq
        obtain ⟨r2, hr2, hk2, hj2⟩ := h (q + 1) p' (by simpa using hq)
        refine ⟨r2, ?_, hk2, hj2.congr rfl rfl rfl rfl rfl⟩
        rw [hp] at hr2
        simpa using hr2

end Conduit.Funnel
