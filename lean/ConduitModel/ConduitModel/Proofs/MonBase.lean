import ConduitModel.Spec.FunnelMon

/-!
# The trace monitor with tagged violations

`Mon.step` (Spec/FunnelMon.lean) collects its violations as strings whose first word names the
property (`C01 …`, `C04 …`, `C05 …`, `C07 …`, `C08 …`). To state soundness clause by clause without
reasoning about string prefixes, `stepT` is the same monitor with every violation carrying its
property as a `Clause`; `step_erase` / `run_eq_runT` show that forgetting the tags gives back
`Mon.step` / `Mon.run` exactly. Core-only.
-/
namespace Conduit.Funnel.Mon
open Conduit.Funnel

inductive Clause | c01 | c04 | c05 | c07 | c08
deriving DecidableEq, Repr

/-- the monitor state with tagged violations -/
structure TSt where
  calls : List (Nat × Nat) := []
  filtered : List Nat := []
  errored : List Nat := []
  written : List (Nat × Nat × Nat × Bool) := []
  dlqOk : List Nat := []
  dlqAny : List Nat := []
  pending : List Rec := []
  tv : List (Clause × String) := []

/-- forget the tags -/
def TSt.erase (s : TSt) : St :=
  { calls := s.calls, filtered := s.filtered, errored := s.errored, written := s.written,
    dlqOk := s.dlqOk, dlqAny := s.dlqAny, pending := s.pending, violations := s.tv.map (·.2) }

def callNoL (calls : List (Nat × Nat)) (task : Nat) : Nat := ((calls.find? (·.1 == task)).map (·.2)).getD 0

def bumpL (calls : List (Nat × Nat)) (task : Nat) : List (Nat × Nat) :=
  if (calls.find? (·.1 == task)).isSome then
    calls.map fun (t, n) => if t == task then (t, n+1) else (t, n)
  else calls ++ [(task, 1)]

def violT (s : TSt) (c : Clause) (m : String) : TSt := { s with tv := s.tv ++ [(c, m)] }

/-- roots filtered / errored by one processor call -/
def filteredBy (recs : List Rec) (out : List PR) : List Nat :=
  (recs.zip out).filterMap fun (r, o) => match o with
    | .filter => some (root r)
    | .multi [] => some (root r)
    | _ => none

def erroredBy (recs : List Rec) (out : List PR) : List Nat :=
  (recs.zip out).filterMap fun (r, o) => match o with
    | .error _ => some (root r)
    | _ => none

def pcallT (scripts : List (Nat × List Reply)) (s : TSt) (task : Nat) (recs : List Rec) : TSt :=
  let call := callNoL s.calls task
  let s := { s with calls := bumpL s.calls task }
  match replyOfCall scripts task call with
  | some (.proc out) =>
    { s with filtered := s.filtered ++ filteredBy recs out, errored := s.errored ++ erroredBy recs out }
  | _ => s

/-- earlier writes to the same destination from the same source as `recs` -/
def prevW (s : TSt) (task : Nat) (recs : List Rec) : List (Nat × Nat × Nat × Bool) :=
  s.written.filter fun w => w.1 == task && w.2.1 / 100 == (recs.head?.map fun r => root r / 100).getD 0

def dupW (s : TSt) (task : Nat) (recs : List Rec) : Bool :=
  recs.any (fun r => (prevW s task recs).any (fun w => w.2.2.1 == r.tag))

def lastRootW (s : TSt) (task : Nat) (recs : List Rec) : Nat :=
  ((prevW s task recs).getLast?.map (·.2.1)).getD 0

def entriesW (scripts : List (Nat × List Reply)) (task call : Nat) (recs : List Rec) : List (Nat × Nat × Nat × Bool) :=
  (List.range recs.length).filterMap fun j => recs[j]?.map fun r =>
    (task, root r, r.tag, confirmed scripts task call j (recs.map (·.pos)))

def writeT (scripts : List (Nat × List Reply)) (s : TSt) (task : Nat) (recs : List Rec) : TSt :=
  let call := callNoL s.calls task
  { s with
    calls := bumpL s.calls task
    written := s.written ++ entriesW scripts task call recs
    tv := s.tv ++ (if dupW s task recs then [(.c05, s!"C05 duplicate write to t{task}")] else [])
               ++ (if step.mono (lastRootW s task recs) recs then [] else [(.c05, s!"C05 out-of-order write to t{task}")]) }

def dlqLast (s : TSt) (rs : List Rec) : Nat :=
  ((s.dlqAny.filter (· / 100 == (rs.head?.map fun r => root r / 100).getD 0)).getLast?).getD 0

/-- leading confirmed records of one DLQ write -/
def oksQ (scripts : List (Nat × List Reply)) (task call : Nat) (rs : List Rec) : List Bool :=
  ((List.range rs.length).map fun j => match rs[j]? with
    | some _ => confirmed scripts task call j (rs.map (·.pos))
    | none => false).takeWhile id

def dlqDup (s : TSt) (rs : List Rec) : Bool := rs.any (fun r => s.dlqOk.contains (root r))

def dlqOrd (s : TSt) (rs : List Rec) : Bool := (rs.map root).all (fun x => decide (dlqLast s rs ≤ x))

def dlqwT (scripts : List (Nat × List Reply)) (s : TSt) (task : Nat) (recs : List (Rec × Option Err × Nat)) : TSt :=
  let call := callNoL s.calls task
  let rs := recs.map (·.1)
  { s with
    calls := bumpL s.calls task
    dlqAny := s.dlqAny ++ rs.map root
    dlqOk := s.dlqOk ++ (rs.take (oksQ scripts task call rs).length).map root
    tv := s.tv ++ (if dlqDup s rs then [(.c07, "C07 record written to the DLQ twice")] else [])
               ++ (if dlqOrd s rs then [] else [(.c07, "C07 DLQ writes out of source order")]) }

def viaDestsT (tree : TaskNode) (s : TSt) (ρ : Nat) : Bool :=
  (dests tree).all fun d =>
    let ws := s.written.filter fun w => w.1 == d && w.2.1 == ρ
    ws.all (·.2.2.2) && (!ws.isEmpty || s.filtered.contains ρ)

def failedPieceT (s : TSt) (ρ : Nat) : Bool := s.written.any fun w => w.2.1 == ρ && !w.2.2.2

/-- one acknowledged position -/
def ackT (tree : TaskNode) (s : TSt) (p : PosV) : TSt :=
  match s.pending with
  | [] => violT s .c04 "C04 ack beyond the records read"
  | r :: rest =>
    let viaDlq := s.dlqOk.contains (root r)
    let c8 := (s.errored.contains (root r) || failedPieceT s (root r)) && !viaDlq
    let c7 := s.dlqAny.contains (root r) && !viaDlq
    let c1 := viaDlq || viaDestsT tree s (root r)
    let s := { s with pending := rest }
    let s := if keyOf r.pos == keyOf p then s else violT s .c04 s!"C04 ack out of order (expected {keyOf r.pos}, got {keyOf p})"
    let s := if c8 then
        violT s .c08 s!"C08 record {root r} failed (processor error / rejected piece) but was acked without being dead-lettered" else s
    let s := if c7 then violT s .c07 s!"C07 record {root r} acked after an unconfirmed DLQ write" else s
    if c1 then s else violT s .c01 s!"C01 unjustified ack of record {root r}"

def stepT (tree : TaskNode) (scripts : List (Nat × List Reply)) (s : TSt) : Ev → TSt
  | .pcall task recs => pcallT scripts s task recs
  | .write task recs => writeT scripts s task recs
  | .dlqw task recs => dlqwT scripts s task recs
  | .sack ps => ps.foldl (ackT tree) s

/-- the tagged monitor state after a log -/
def runStT (tree : TaskNode) (scripts : List (Nat × List Reply)) (batches : List (List Rec)) (log : List Ev) : TSt :=
  log.foldl (stepT tree scripts) { pending := batches.flatten }

/-- the tagged violations of a log (`[]` when the source hypothesis does not hold, as `Mon.run`) -/
def runT (tree : TaskNode) (scripts : List (Nat × List Reply)) (batches : List (List Rec)) (log : List Ev) :
    List (Clause × String) :=
  if !sourceWellFormed batches then [] else (runStT tree scripts batches log).tv

/-- the violations of one property -/
def runTagged (c : Clause) (tree : TaskNode) (scripts : List (Nat × List Reply)) (batches : List (List Rec))
    (log : List Ev) : List String :=
  ((runT tree scripts batches log).filter (·.1 == c)).map (·.2)

/-! ## forgetting the tags gives `Mon.step` -/

theorem erase_callNo (s : TSt) (task : Nat) : callNo s.erase task = callNoL s.calls task := rfl

theorem erase_bump (s : TSt) (task : Nat) : bump s.erase task = ({ s with calls := bumpL s.calls task } : TSt).erase := by
  unfold bump bumpL TSt.erase
  dsimp only
  split <;> rfl

theorem erase_viol (s : TSt) (c : Clause) (m : String) : viol s.erase m = (violT s c m).erase := by
  unfold viol violT TSt.erase
  simp

theorem ackT_nil (tree : TaskNode) (s : TSt) (p : PosV) (h : s.pending = []) :
    ackT tree s p = violT s .c04 "C04 ack beyond the records read" := by
  unfold ackT; rw [h]

theorem ackT_cons (tree : TaskNode) (s : TSt) (p : PosV) (r : Rec) (rest : List Rec) (h : s.pending = r :: rest) :
    ackT tree s p =
      (let viaDlq := s.dlqOk.contains (root r)
       let c8 := (s.errored.contains (root r) || failedPieceT s (root r)) && !viaDlq
       let c7 := s.dlqAny.contains (root r) && !viaDlq
       let c1 := viaDlq || viaDestsT tree s (root r)
       let s := { s with pending := rest }
       let s := if keyOf r.pos == keyOf p then s else violT s .c04 s!"C04 ack out of order (expected {keyOf r.pos}, got {keyOf p})"
       let s := if c8 then
          violT s .c08 s!"C08 record {root r} failed (processor error / rejected piece) but was acked without being dead-lettered" else s
       let s := if c7 then violT s .c07 s!"C07 record {root r} acked after an unconfirmed DLQ write" else s
       if c1 then s else violT s .c01 s!"C01 unjustified ack of record {root r}") := by
  unfold ackT; rw [h]

theorem ack1_erase (tree : TaskNode) (scripts : List (Nat × List Reply)) (s : TSt) (p : PosV) :
    step tree scripts s.erase (.sack [p]) = (ackT tree s p).erase := by
  unfold step
  simp only [List.foldl]
  cases hp : s.pending with
  | nil =>
    have : s.erase.pending = [] := hp
    simp only [this]
    rw [ackT_nil tree s p hp]
    exact erase_viol s _ _
  | cons r rest =>
    have : s.erase.pending = r :: rest := hp
    rw [ackT_cons tree s p r rest hp]
    simp only [this]
    simp only [viol, violT, apply_ite St.dlqAny, apply_ite St.dlqOk, apply_ite St.written, apply_ite St.filtered,
      apply_ite St.errored, ite_self, viaDestsT, failedPieceT, TSt.erase]
    by_cases b1 : (keyOf r.pos == keyOf p) = true <;>
    by_cases b2 : (s.dlqOk.contains (root r) || (dests tree).all fun d => ((List.filter (fun w => w.fst == d && w.snd.fst == root r) s.written).all fun x => x.snd.snd.snd) && (!(List.filter (fun w => w.fst == d && w.snd.fst == root r) s.written).isEmpty || s.filtered.contains (root r))) = true <;>
    by_cases b3 : (s.dlqAny.contains (root r) && !s.dlqOk.contains (root r)) = true <;>
    by_cases b4 : ((s.errored.contains (root r) || s.written.any fun w => w.snd.fst == root r && !w.snd.snd.snd) && !s.dlqOk.contains (root r)) = true <;>
    simp only [b1, b2, b3, b4, if_true, if_false, Bool.false_eq_true, List.map_append, List.map_cons, List.map_nil, List.append_assoc]

theorem sack_cons (tree : TaskNode) (scripts : List (Nat × List Reply)) (σ : St) (p : PosV) (ps : List PosV) :
    step tree scripts σ (.sack (p :: ps)) = step tree scripts (step tree scripts σ (.sack [p])) (.sack ps) := rfl

theorem sack_erase (tree : TaskNode) (scripts : List (Nat × List Reply)) : ∀ (ps : List PosV) (s : TSt),
    step tree scripts s.erase (.sack ps) = (ps.foldl (ackT tree) s).erase := by
  intro ps
  induction ps with
  | nil => intro s; rfl
  | cons p ps ih =>
    intro s
    rw [sack_cons, ack1_erase, ih, List.foldl_cons]

theorem pcall_erase (tree : TaskNode) (scripts : List (Nat × List Reply)) (s : TSt) (task : Nat) (recs : List Rec) :
    step tree scripts s.erase (.pcall task recs) = (pcallT scripts s task recs).erase := by
  unfold step pcallT
  simp only [erase_callNo, erase_bump]
  cases replyOfCall scripts task (callNoL s.calls task) with
  | none => rfl
  | some rp =>
    cases rp with
    | proc out => rfl
    | dest _ _ => rfl

theorem write_erase (tree : TaskNode) (scripts : List (Nat × List Reply)) (s : TSt) (task : Nat) (recs : List Rec) :
    step tree scripts s.erase (.write task recs) = (writeT scripts s task recs).erase := by
  unfold step writeT
  simp only [erase_callNo, erase_bump]
  by_cases h1 : dupW s task recs = true <;>
  by_cases h2 : step.mono (lastRootW s task recs) recs = true
  all_goals
    simp only [h1, h2, if_true, if_false, Bool.false_eq_true]
    simp only [dupW, lastRootW, prevW] at h1 h2
    simp only [TSt.erase, viol, h1, h2, if_true, if_false, Bool.false_eq_true, entriesW,
      List.map_append, List.map_cons, List.map_nil, List.append_nil]

set_option linter.unusedSimpArgs false

theorem not_true_false {b : Bool} (h : ¬ b = true) : b = false := by cases b <;> simp_all

theorem dlqw_erase (tree : TaskNode) (scripts : List (Nat × List Reply)) (s : TSt) (task : Nat)
    (recs : List (Rec × Option Err × Nat)) :
    step tree scripts s.erase (.dlqw task recs) = (dlqwT scripts s task recs).erase := by
  unfold step dlqwT
  simp only [erase_callNo, erase_bump]
  split <;> rename_i h1 <;> split <;> rename_i h2
  · have hd : dlqDup s (recs.map (·.1)) = true := h1
    have ho : dlqOrd s (recs.map (·.1)) = true := h2
    simp only [hd, ho, if_true, TSt.erase, viol, oksQ, List.map_append, List.map_cons, List.map_nil, List.append_nil]
    rfl
  · have hd : dlqDup s (recs.map (·.1)) = true := h1
    have ho : dlqOrd s (recs.map (·.1)) = false := not_true_false h2
    simp only [hd, ho, if_true, if_false, Bool.false_eq_true, TSt.erase, viol, oksQ, List.map_append, List.map_cons, List.map_nil, List.append_nil]
    rfl
  · have hd : dlqDup s (recs.map (·.1)) = false := not_true_false h1
    have ho : dlqOrd s (recs.map (·.1)) = true := h2
    simp only [hd, ho, if_true, if_false, Bool.false_eq_true, TSt.erase, viol, oksQ, List.map_append, List.map_cons, List.map_nil, List.append_nil]
    rfl
  · have hd : dlqDup s (recs.map (·.1)) = false := not_true_false h1
    have ho : dlqOrd s (recs.map (·.1)) = false := not_true_false h2
    simp only [hd, ho, if_true, if_false, Bool.false_eq_true, TSt.erase, viol, oksQ, List.map_append, List.map_cons, List.map_nil, List.append_nil]
    rfl

/-- forgetting the tags of `stepT` gives `Mon.step` -/
theorem step_erase (tree : TaskNode) (scripts : List (Nat × List Reply)) (s : TSt) (e : Ev) :
    step tree scripts s.erase e = (stepT tree scripts s e).erase := by
  cases e with
  | pcall t r => exact pcall_erase tree scripts s t r
  | write t r => exact write_erase tree scripts s t r
  | dlqw t r => exact dlqw_erase tree scripts s t r
  | sack ps => exact sack_erase tree scripts ps s

theorem foldl_erase (tree : TaskNode) (scripts : List (Nat × List Reply)) : ∀ (log : List Ev) (s : TSt),
    log.foldl (step tree scripts) s.erase = (log.foldl (stepT tree scripts) s).erase := by
  intro log
  induction log with
  | nil => intro s; rfl
  | cons e log ih => intro s; rw [List.foldl_cons, List.foldl_cons, step_erase, ih]

theorem runSt_eq (tree : TaskNode) (scripts : List (Nat × List Reply)) (batches : List (List Rec)) (log : List Ev) :
    runSt tree scripts batches log = (runStT tree scripts batches log).erase :=
  foldl_erase tree scripts log { pending := batches.flatten }

/-- `Mon.run` is the tagged monitor with the tags forgotten -/
theorem run_eq_runT (tree : TaskNode) (scripts : List (Nat × List Reply)) (batches : List (List Rec)) (log : List Ev) :
    run tree scripts batches log = (runT tree scripts batches log).map (·.2) := by
  unfold run runT
  split
  · rfl
  · exact congrArg St.violations (runSt_eq tree scripts batches log)

theorem run_nil_iff (tree : TaskNode) (scripts : List (Nat × List Reply)) (batches : List (List Rec)) (log : List Ev) :
    run tree scripts batches log = [] ↔ runT tree scripts batches log = [] := by
  rw [run_eq_runT]; simp

/-- the monitor is silent iff it is silent for every property -/
theorem runT_nil_of_tagged (tree : TaskNode) (scripts : List (Nat × List Reply)) (batches : List (List Rec))
    (log : List Ev) (h : ∀ c, runTagged c tree scripts batches log = []) : runT tree scripts batches log = [] := by
  cases hl : runT tree scripts batches log with
  | nil => rfl
  | cons v vs =>
    have := h v.1
    unfold runTagged at this
    rw [hl] at this
    simp at this

end Conduit.Funnel.Mon
