import ConduitModel.Proofs.MonBase
import ConduitModel.Proofs.PassBase

/-!
# The C04 clause of the trace monitor follows from the order of the acknowledged keys

`ackViol` — the violations one acknowledged position adds; `ackT_eq` — `ackT` only pops the head of
`pending` and appends `ackViol`. The pending list and the `C04` violations depend on the `.sack`
events only: when the keys acknowledged by a log (`ackedKeys`) are a prefix of the keys of the
records read, no `C04` violation is added and `pending` loses exactly that prefix (`c04_fold`).
-/
namespace Conduit.Funnel.Mon
open Conduit.Funnel

/-- the violations of property `c` among tagged violations -/
def filt (c : Clause) (tv : List (Clause × String)) : List (Clause × String) := tv.filter (·.1 == c)

theorem filt_append (c : Clause) (a b : List (Clause × String)) : filt c (a ++ b) = filt c a ++ filt c b := by
  unfold filt; rw [List.filter_append]

theorem filt_nil (c : Clause) : filt c [] = [] := rfl

/-- the violations added by acknowledging position `p` in monitor state `s` -/
def ackViol (tree : TaskNode) (s : TSt) (p : PosV) : List (Clause × String) :=
  match s.pending with
  | [] => [(.c04, "C04 ack beyond the records read")]
  | r :: _ =>
    (if keyOf r.pos == keyOf p then [] else [(.c04, s!"C04 ack out of order (expected {keyOf r.pos}, got {keyOf p})")]) ++
    (if (s.errored.contains (root r) || failedPieceT s (root r)) && !s.dlqOk.contains (root r) then
      [(.c08, s!"C08 record {root r} failed (processor error / rejected piece) but was acked without being dead-lettered")] else []) ++
    (if s.dlqAny.contains (root r) && !s.dlqOk.contains (root r) then
      [(.c07, s!"C07 record {root r} acked after an unconfirmed DLQ write")] else []) ++
    (if s.dlqOk.contains (root r) || viaDestsT tree s (root r) then [] else [(.c01, s!"C01 unjustified ack of record {root r}")])

theorem ackT_eq (tree : TaskNode) (s : TSt) (p : PosV) :
    ackT tree s p = { s with pending := s.pending.tail, tv := s.tv ++ ackViol tree s p } := by
  cases hp : s.pending with
  | nil =>
    rw [ackT_nil tree s p hp]
    unfold violT ackViol
    rw [hp]
    cases s; simp_all
  | cons r rest =>
    rw [ackT_cons tree s p r rest hp]
    unfold ackViol
    rw [hp]
    simp only [violT, List.tail_cons]
    cases (keyOf r.pos == keyOf p) <;>
    cases ((s.errored.contains (root r) || failedPieceT s (root r)) && !s.dlqOk.contains (root r)) <;>
    cases (s.dlqAny.contains (root r) && !s.dlqOk.contains (root r)) <;>
    cases (s.dlqOk.contains (root r) || viaDestsT tree s (root r)) <;>
    simp

/-- the non-violation fields after a sequence of acks -/
theorem foldl_ackT_fields (tree : TaskNode) : ∀ (ps : List PosV) (s : TSt),
    (ps.foldl (ackT tree) s).pending = s.pending.drop ps.length ∧
    (ps.foldl (ackT tree) s).calls = s.calls ∧ (ps.foldl (ackT tree) s).filtered = s.filtered ∧
    (ps.foldl (ackT tree) s).errored = s.errored ∧ (ps.foldl (ackT tree) s).written = s.written ∧
    (ps.foldl (ackT tree) s).dlqOk = s.dlqOk ∧ (ps.foldl (ackT tree) s).dlqAny = s.dlqAny := by
  intro ps
  induction ps with
  | nil => intro s; simp
  | cons p ps ih =>
    intro s
    rw [List.foldl_cons]
    obtain ⟨h1, h2, h3, h4, h5, h6, h7⟩ := ih (ackT tree s p)
    rw [h1, h2, h3, h4, h5, h6, h7, ackT_eq]
    refine ⟨?_, rfl, rfl, rfl, rfl, rfl, rfl⟩
    simp only [List.length_cons]
    cases s.pending with
    | nil => simp
    | cons a l => simp

theorem pending_keys_prefix_cons {pend : List Rec} {k : Nat} {ks : List Nat}
    (h : (k :: ks) <+: pend.map (fun r => keyOf r.pos)) :
    ∃ r rest, pend = r :: rest ∧ keyOf r.pos = k ∧ ks <+: rest.map (fun r => keyOf r.pos) := by
  cases pend with
  | nil => simp at h
  | cons r rest =>
    rw [List.map_cons, List.cons_prefix_cons] at h
    exact ⟨r, rest, rfl, h.1.symm, h.2⟩

theorem filt_nil_of (c : Clause) (l : List (Clause × String)) (hl : ∀ x ∈ l, x.1 ≠ c) : filt c l = [] := by
  unfold filt
  rw [List.filter_eq_nil_iff]
  intro x hx
  simpa using hl x hx

/-- an ack of the head of `pending` with the right key adds no `C04` violation -/
theorem ackViol_c04 (tree : TaskNode) (s : TSt) (p : PosV) (r : Rec) (rest : List Rec) (hp : s.pending = r :: rest)
    (hk : keyOf r.pos = keyOf p) : filt .c04 (ackViol tree s p) = [] := by
  apply filt_nil_of
  intro x hx
  unfold ackViol at hx
  rw [hp] at hx
  simp only [hk, beq_self_eq_true, if_true, List.nil_append, List.mem_append] at hx
  rcases hx with (hx | hx) | hx
  · split at hx
    · simp at hx; rw [hx]; exact fun h => nomatch h
    · cases hx
  · split at hx
    · simp at hx; rw [hx]; exact fun h => nomatch h
    · cases hx
  · split at hx
    · cases hx
    · simp at hx; rw [hx]; exact fun h => nomatch h

/-- acks in read order add no `C04` violation -/
theorem foldl_ackT_c04 (tree : TaskNode) : ∀ (ps : List PosV) (s : TSt),
    ps.map keyOf <+: s.pending.map (fun r => keyOf r.pos) →
    filt .c04 (ps.foldl (ackT tree) s).tv = filt .c04 s.tv := by
  intro ps
  induction ps with
  | nil => intro s _; rfl
  | cons p ps ih =>
    intro s h
    rw [List.map_cons] at h
    obtain ⟨r, rest, hp, hk, hrest⟩ := pending_keys_prefix_cons h
    rw [List.foldl_cons, ih]
    · rw [ackT_eq]
      show filt .c04 (s.tv ++ ackViol tree s p) = _
      rw [filt_append, ackViol_c04 tree s p r rest hp hk, List.append_nil]
    · rw [ackT_eq]
      show _ <+: List.map _ (s.pending.tail)
      rw [hp]
      exact hrest

/-- `stepT` on any event: what happens to `pending` and to the `C04` violations -/
theorem stepT_pending (tree : TaskNode) (scripts : List (Nat × List Reply)) (s : TSt) (e : Ev) :
    (stepT tree scripts s e).pending = s.pending.drop (evKeys e).length := by
  cases e with
  | pcall t r =>
    show (pcallT scripts s t r).pending = _
    unfold pcallT
    simp only [evKeys, List.length_nil, List.drop_zero]
    split <;> rfl
  | write t r => rfl
  | dlqw t r => rfl
  | sack ps =>
    show (ps.foldl (ackT tree) s).pending = _
    rw [(foldl_ackT_fields tree ps s).1]
    simp [evKeys]

theorem stepT_c04 (tree : TaskNode) (scripts : List (Nat × List Reply)) (s : TSt) (e : Ev)
    (h : evKeys e <+: s.pending.map (fun r => keyOf r.pos)) :
    filt .c04 (stepT tree scripts s e).tv = filt .c04 s.tv := by
  cases e with
  | pcall t r =>
    show filt .c04 (pcallT scripts s t r).tv = _
    unfold pcallT
    dsimp only
    split <;> rfl
  | write t r =>
    show filt .c04 (writeT scripts s t r).tv = _
    unfold writeT
    simp only [filt_append]
    split <;> split <;> simp [filt]
  | dlqw t r =>
    show filt .c04 (dlqwT scripts s t r).tv = _
    unfold dlqwT
    simp only [filt_append]
    split <;> split <;> simp [filt]
  | sack ps => exact foldl_ackT_c04 tree ps s h

/-- the whole log: when the acknowledged keys are a prefix of the keys of the pending records, no
`C04` violation is added and `pending` loses exactly the acknowledged prefix. -/
theorem c04_fold (tree : TaskNode) (scripts : List (Nat × List Reply)) : ∀ (log : List Ev) (s : TSt),
    log.flatMap evKeys <+: s.pending.map (fun r => keyOf r.pos) →
    filt .c04 (log.foldl (stepT tree scripts) s).tv = filt .c04 s.tv ∧
    (log.foldl (stepT tree scripts) s).pending = s.pending.drop (log.flatMap evKeys).length := by
  intro log
  induction log with
  | nil => intro s _; simp
  | cons e log ih =>
    intro s h
    rw [List.flatMap_cons] at h
    have h1 : evKeys e <+: s.pending.map (fun r => keyOf r.pos) := List.IsPrefix.trans (List.prefix_append _ _) h
    have hp := stepT_pending tree scripts s e
    have h2 : log.flatMap evKeys <+: (stepT tree scripts s e).pending.map (fun r => keyOf r.pos) := by
      rw [hp, List.map_drop]
      obtain ⟨t, ht⟩ := h
      rw [← ht, List.append_assoc, List.drop_left]
      exact List.prefix_append _ _
    obtain ⟨i1, i2⟩ := ih (stepT tree scripts s e) h2
    rw [List.foldl_cons, i1, i2, stepT_c04 tree scripts s e h1, hp, List.drop_drop, List.flatMap_cons, List.length_append]
    exact ⟨rfl, rfl⟩

end Conduit.Funnel.Mon
