import ConduitModel.Proofs.MonTaskDefs
import ConduitModel.Proofs.MonWorkerAck
import ConduitModel.Proofs.MonRunWorker

/-!
# The three operation-level lemmas the pipeline induction rests on, as a bundle

`Deps G` packages the statements of `procDo_mon` (Proofs/MonProc.lean), `destDo_mon`
(Proofs/MonDest.lean) and `workerNack_mon` (Proofs/MonWorkerNack.lean), so that the pipeline
induction (Proofs/MonPipe.lean) can be developed against them.
-/
namespace Conduit.Funnel
open Conduit.Funnel.Mon

structure Deps (G : Ctx) : Prop where
  proc : ∀ {s s' : PS} {r : Except Stop Batch} {b : Batch} {task n0 : Nat} {pre : List Nat},
    GInv G s → BInv b → b.tainted = false → Align G n0 b → nAcked s = n0 →
    FlagsAF b → Facts G (G.mu s) pre pre True n0 b 0 →
    exec (procDo task b) s = (r, s') → RP G s' →
    (G.mu s').tv = [] ∧
    ∀ b1, r = .ok b1 →
      GInv G s' ∧ nAcked s' = n0 ∧ BInv b1 ∧ b1.pos = b.pos ∧ Align G n0 b1 ∧
      Ext (InR G n0 b.pos.length) (G.mu s) (G.mu s') ∧
      Facts G (G.mu s') pre pre True n0 b1 0 ∧
      (b1.tainted = false → FlagsAF b1) ∧
      (∀ sub, WBelow G s sub → WBelow G s' sub)
  dest : ∀ {s s' : PS} {r : Except Stop Batch} {b : Batch} {d n0 : Nat} {pre : List Nat},
    GInv G s → BInv b → b.tainted = false → Align G n0 b → nAcked s = n0 →
    FlagsAF b → Facts G (G.mu s) pre pre True n0 b 0 → WBelow G s [d] →
    exec (destDo d b none) s = (r, s') →
    (G.mu s').tv = [] ∧
    ∀ b1, r = .ok b1 →
      GInv G s' ∧ nAcked s' = n0 ∧ BInv b1 ∧ b1.pos = b.pos ∧ Align G n0 b1 ∧
      Ext (InR G n0 b.pos.length) (G.mu s) (G.mu s') ∧
      Facts G (G.mu s') pre (pre ++ [d]) False n0 b1 0 ∧
      (b1.tainted = false → FlagsAF b1) ∧
      (∀ sub, d ∉ sub → WBelow G s sub → WBelow G s' sub)
  nack : ∀ {s s' : PS} {r : Except Stop Unit} {sb : Batch} {n0 task : Nat},
    GInv G s → BOK sb → sb.split = [] → NackOK sb → Align G n0 sb → nAcked s = n0 →
    exec (workerNack sb task) s = (r, s') →
    (G.mu s').tv = [] ∧
    (r = .ok () → GInv G s' ∧ nAcked s' = n0 + sb.pos.length ∧ Ext (InR G n0 sb.pos.length) (G.mu s) (G.mu s'))

end Conduit.Funnel
