import ConduitModel.Proofs.MonTaskDefs

/-!
# `DestinationTask.Do` against the monitor (no record splitting)
-/
namespace Conduit.Funnel
open Conduit.Funnel.Mon

/-! ## helpers -/

theorem mono_nil (last : Nat) : Mon.step.mono last [] = true := by
  unfold Mon.step.mono; rfl

theorem mono_cons (last : Nat) (r : Rec) (rs : List Rec) :
    Mon.step.mono last (r :: rs) = (decide (last ≤ root r) && Mon.step.mono (root r) rs) := by
  rw [Mon.step.mono]

/-- `mono` holds when `last` is below every root and the roots are in (weak) order -/
theorem mono_of_sorted : ∀ (recs : List Rec) (last : Nat), (∀ r ∈ recs, last ≤ root r) →
    (∀ (i j : Nat) (a c : Rec), i < j → recs[i]? = some a → recs[j]? = some c → root a ≤ root c) →
    Mon.step.mono last recs = true := by
  intro recs
  induction recs with
  | nil => intro last _ _; exact mono_nil last
  | cons r rs ih =>
    intro last h1 h2
    rw [mono_cons, Bool.and_eq_true]
    refine ⟨by simpa using h1 r List.mem_cons_self, ih (root r) ?_ ?_⟩
    · intro r' hr'
      obtain ⟨j, hj⟩ := List.getElem?_of_mem hr'
      exact h2 0 (j + 1) r r' (by omega) rfl (by simpa using hj)
    · intro i j a c hij ha hc
      exact h2 (i + 1) (j + 1) a c (by omega) (by simpa using ha) (by simpa using hc)

theorem mem_entriesW {scr : List (Nat × List Reply)} {t c : Nat} {recs : List Rec} {e : Nat × Nat × Nat × Bool} :
    e ∈ entriesW scr t c recs ↔
      ∃ (j : Nat) (r : Rec), recs[j]? = some r ∧ e = (t, root r, r.tag, confirmed scr t c j (recs.map (·.pos))) := by
  unfold entriesW
  rw [List.mem_filterMap]
  constructor
  · rintro ⟨j, _, hj⟩
    cases hr : recs[j]? with
    | none => rw [hr] at hj; cases hj
    | some r =>
      rw [hr] at hj
      simp only [Option.map_some, Option.some.injEq] at hj
      exact ⟨j, r, hr, hj.symm⟩
  · rintro ⟨j, r, hr, he⟩
    refine ⟨j, ?_, ?_⟩
    · rw [List.mem_range]; exact (List.getElem?_eq_some_iff.mp hr).1
    · rw [hr, he]; rfl

theorem destReply_none {o : Option Reply} (h : (destReply o).1 = none) : o = some (.dest none (destReply o).2) := by
  cases o with
  | none => cases h
  | some r =>
    cases r with
    | proc out => cases h
    | dest w a =>
      simp only [destReply] at h ⊢
      rw [h]

theorem nAcked_push_write (s s' : PS) (t : Nat) (recs : List Rec) (h : s'.log = s.log.push (.write t recs)) :
    nAcked s' = nAcked s := by
  unfold nAcked
  rw [h, ackedKeys_push]
  simp [evKeys]

/-- the `k`-th active record of an aligned batch is a record read -/
theorem active_src {G : Ctx} {n0 : Nat} {b : Batch} (hwf : b.WF #[]) (hal : Align G n0 b) {k : Nat} {r : Rec}
    (h : b.active[k]? = some r) :
    ∃ (p : Nat) (src : Rec), (actList b.st)[k]? = some p ∧ b.recs[p]? = some r ∧ p < b.pos.length ∧
      G.all[n0 + p]? = some src ∧ root r = root src := by
  have hlen : b.active.length = b.nAct := active_length hwf.1.st_len hwf.2
  have hk : k < (actList b.st).length := by
    have := (List.getElem?_eq_some_iff.mp h).1
    unfold Batch.nAct at hlen
    omega
  have hp : (actList b.st)[k]? = some (actList b.st)[k] := List.getElem?_eq_getElem hk
  have hr : b.recs[(actList b.st)[k]]? = some r := by rw [← active_getElem? hwf hp]; exact h
  have hlt : (actList b.st)[k] < b.pos.length := by
    have := actList_lt hk
    have := hwf.1.st_len; have := hwf.1.pos_len
    omega
  obtain ⟨src, hsrc⟩ := hal.src hlt
  exact ⟨_, src, hp, hr, hlt, hsrc, hal.lin _ r src hr hsrc⟩

/-- the `.write` of the active records of a pending batch to a destination nothing pending was
written to: no duplicate, roots in order -/
theorem write_silent {G : Ctx} (hs : Src G) {s : PS} {b : Batch} {d n0 : Nat}
    (hI : GInv G s) (hb : BInv b) (hal : Align G n0 b) (hf : nAcked s = n0) (hbelow : WBelow G s [d]) :
    dupW (G.mu s) d b.active = false ∧ Mon.step.mono (lastRootW (G.mu s) d b.active) b.active = true := by
  have hprev : ∀ e ∈ prevW (G.mu s) d b.active, ∀ r ∈ b.active, e.2.1 < root r ∧ e.2.1 = e.2.2.1 % 1000 := by
    intro e he r hr
    unfold prevW at he
    rw [List.mem_filter] at he
    obtain ⟨hm, hc⟩ := he
    simp only [Bool.and_eq_true, beq_iff_eq] at hc
    have hnp := hbelow e hm (by simp [hc.1])
    rw [hf] at hnp
    obtain ⟨k, hk⟩ := List.getElem?_of_mem hr
    obtain ⟨p, src, _, _, _, hsrc, hroot⟩ := active_src hb.wf hal hk
    rw [hroot]
    exact ⟨hnp.lt hs hsrc (by omega), hI.wr e hm⟩
  constructor
  · apply not_true_false
    intro hd
    unfold dupW at hd
    simp only [List.any_eq_true, beq_iff_eq] at hd
    obtain ⟨r, hr, e, he, heq⟩ := hd
    obtain ⟨h1, h2⟩ := hprev e he r hr
    have : root r = r.tag % 1000 := rfl
    rw [heq] at h2
    omega
  · apply mono_of_sorted
    · intro r hr
      unfold lastRootW
      cases hl : (prevW (G.mu s) d b.active).getLast? with
      | none => simp
      | some e =>
        have := (hprev e (List.mem_of_getLast? hl) r hr).1
        simp only [Option.map_some, Option.getD_some]
        omega
    · intro i j a c hij ha hc
      obtain ⟨p, src, hp, _, _, hsrc, hroot⟩ := active_src hb.wf hal ha
      obtain ⟨p', src', hp', _, _, hsrc', hroot'⟩ := active_src hb.wf hal hc
      have hpw := List.pairwise_iff_getElem.mp (actList_pairwise b.st)
      obtain ⟨hi1, hi2⟩ := List.getElem?_eq_some_iff.mp hp
      obtain ⟨hj1, hj2⟩ := List.getElem?_eq_some_iff.mp hp'
      have := hpw i j hi1 hj1 hij
      rw [hi2, hj2] at this
      rw [hroot, hroot']
      exact Nat.le_of_lt (hs.root_lt hsrc hsrc' (by omega))

/-- A destination task `d` on a batch in flight, when nothing pending was written to `d` before
(`WBelow G s [d]`): the `.write` event never makes the monitor fire (no duplicate write, roots in
order); when the task returns a batch, the state invariant still holds, the only new monitor facts
concern roots of the batch, a record the destination confirmed is `Active` for `pre ++ [d]`, a
filtered record stays `Filtered`, a rejected record is nacked, no record is flagged retry. -/
theorem destDo_mon {G : Ctx} (hs : Src G) {s s' : PS} {r : Except Stop Batch} {b : Batch}
    {d n0 : Nat} {pre : List Nat}
    (hI : GInv G s) (hb : BInv b) (hclean : b.tainted = false) (hal : Align G n0 b) (hf : nAcked s = n0)
    (haf : FlagsAF b) (hfacts : Facts G (G.mu s) pre pre True n0 b 0) (hbelow : WBelow G s [d])
    (h : exec (destDo d b none) s = (r, s')) :
    (G.mu s').tv = [] ∧
    ∀ b1, r = .ok b1 →
      GInv G s' ∧ nAcked s' = n0 ∧ BInv b1 ∧ b1.pos = b.pos ∧ Align G n0 b1 ∧
      Ext (InR G n0 b.pos.length) (G.mu s) (G.mu s') ∧
      Facts G (G.mu s') pre (pre ++ [d]) False n0 b1 0 ∧
      (b1.tainted = false → FlagsAF b1) ∧
      (∀ sub, d ∉ sub → WBelow G s sub → WBelow G s' sub) := by
  have hspec := (destDo_spec d b s s' r hb h).2
  rw [destDo_shape] at h
  have hr : destDoP b (destReply (nextReply s.scripts d)).1 (destReply (nextReply s.scripts d)).2 = r :=
    (Prod.mk.inj h).1
  have hs' := (Prod.mk.inj h).2
  have hlog : s'.log = s.log.push (.write d b.active) := by rw [← hs']
  have hscr : s'.scripts = popScripts s.scripts d := by rw [← hs']
  clear h hs'
  have hmu : G.mu s' = writeT G.scripts (G.mu s) d b.active := mu_push G s s' _ hlog
  obtain ⟨hdup, hmono⟩ := write_silent hs hI hb hal hf hbelow
  have hn : nAcked s' = nAcked s := nAcked_push_write s s' d b.active hlog
  have htv : (G.mu s').tv = [] := by
    rw [hmu]
    simp only [writeT, hdup, hmono, if_true, if_false, Bool.false_eq_true, List.append_nil]
    exact hI.safe
  have hwr : (G.mu s').written = (G.mu s).written ++ entriesW G.scripts d (callNoL (G.mu s).calls d) b.active := by
    rw [hmu]; rfl
  have herr : (G.mu s').errored = (G.mu s).errored := by rw [hmu]; rfl
  have hfil : (G.mu s').filtered = (G.mu s).filtered := by rw [hmu]; rfl
  have hany : (G.mu s').dlqAny = (G.mu s).dlqAny := by rw [hmu]; rfl
  have hok : (G.mu s').dlqOk = (G.mu s).dlqOk := by rw [hmu]; rfl
  refine ⟨htv, ?_⟩
  intro b1 hb1
  rw [hb1] at hr
  obtain ⟨hw, all, hlen, hloop, hrecs, hpos, hstlen, hact, hnact, htaint⟩ := destDoP_effect hb.wf hb.split _ _ hr
  have hrep : replyOfCall G.scripts d (callNoL (G.mu s).calls d) =
      some (.dest none (destReply (nextReply s.scripts d)).2) := by
    rw [← hI.sc.nextReply d]; exact destReply_none hw
  have hconf : ∀ j : Nat, confirmed G.scripts d (callNoL (G.mu s).calls d) j (b.active.map (·.pos)) =
      ((all.map (·.2.isNone))[j]?).getD false := by
    intro j
    unfold confirmed
    rw [hrep]
    simp only []
    rw [hloop]
  have hnAct : b.active.length = all.length := by rw [hlen]; exact active_length hb.wf.1.st_len hb.wf.2
  -- the new entries
  have hnew : ∀ e ∈ entriesW G.scripts d (callNoL (G.mu s).calls d) b.active,
      ∃ (k p : Nat) (src : Rec) (a : PosV × Option Err), (actList b.st)[k]? = some p ∧ p < b.pos.length ∧
        G.all[n0 + p]? = some src ∧ all[k]? = some a ∧ e.1 = d ∧ e.2.1 = root src ∧ e.2.2.2 = a.2.isNone ∧
        e.2.1 = e.2.2.1 % 1000 := by
    intro e he
    obtain ⟨j, r, hj, rfl⟩ := mem_entriesW.mp he
    obtain ⟨p, src, hp, _, hlt, hsrc, hroot⟩ := active_src hb.wf hal hj
    have hjl : j < all.length := by rw [← hnAct]; exact (List.getElem?_eq_some_iff.mp hj).1
    refine ⟨j, p, src, all[j], hp, hlt, hsrc, List.getElem?_eq_getElem hjl, rfl, hroot, ?_, rfl⟩
    show confirmed _ _ _ _ _ = _
    rw [hconf j]
    simp [hjl]
  have hnew' : ∀ (k p : Nat) (src : Rec), (actList b.st)[k]? = some p → G.all[n0 + p]? = some src →
      ∃ e ∈ entriesW G.scripts d (callNoL (G.mu s).calls d) b.active, e.1 = d ∧ e.2.1 = root src := by
    intro k p src hp hsrc
    have hk : k < b.active.length := by
      rw [hnAct, hlen]; exact (List.getElem?_eq_some_iff.mp hp).1
    obtain ⟨p', src', hp', _, _, hsrc', hroot⟩ := active_src hb.wf hal (List.getElem?_eq_getElem hk)
    rw [hp] at hp'
    cases hp'
    rw [hsrc] at hsrc'
    cases hsrc'
    exact ⟨_, mem_entriesW.mpr ⟨k, _, List.getElem?_eq_getElem hk, rfl⟩, rfl, hroot⟩
  -- the new statuses
  have hst : ∀ (q : Nat) (st' : Status), b1.st[q]? = some st' → ∃ st, b.st[q]? = some st ∧
      ((q ∉ actList b.st ∧ st' = st ∧ st.flag = .filter) ∨
       (∃ (k : Nat) (a : PosV × Option Err), (actList b.st)[k]? = some q ∧ all[k]? = some a ∧
          st' = ackEffect a st ∧ st.flag = .ack)) := by
    intro q st' hq
    have hql : q < b.st.length := by rw [← hstlen]; exact (List.getElem?_eq_some_iff.mp hq).1
    have hbq : b.st[q]? = some b.st[q] := List.getElem?_eq_getElem hql
    refine ⟨b.st[q], hbq, ?_⟩
    by_cases hm : q ∈ actList b.st
    · right
      obtain ⟨k, hk⟩ := List.getElem?_of_mem hm
      have hkl : k < all.length := by rw [hlen]; exact (List.getElem?_eq_some_iff.mp hk).1
      have := hact k q _ _ hk hbq (List.getElem?_eq_getElem hkl)
      rw [hq] at this
      have hnf := (notFilt_iff hql).mp (mem_actList.mp hm).2
      refine ⟨k, all[k], hk, List.getElem?_eq_getElem hkl, Option.some.inj this, ?_⟩
      rcases haf q _ hbq with h | h
      · exact h
      · exact absurd h hnf
    · left
      have := hnact q hm
      rw [hq, hbq] at this
      refine ⟨hm, Option.some.inj this, ?_⟩
      have hnn : ¬ notFilt b.st q = true := fun h => hm (mem_actList.mpr ⟨hql, h⟩)
      by_cases hfl : b.st[q].flag = .filter
      · exact hfl
      · exact absurd ((notFilt_iff hql).mpr hfl) hnn
  obtain ⟨hbinv, _⟩ := hspec b1 hb1
  -- a new entry with the root of record `q` is the entry of `q`
  have hnewq : ∀ e ∈ entriesW G.scripts d (callNoL (G.mu s).calls d) b.active, ∀ (q : Nat) (src : Rec),
      G.all[n0 + q]? = some src → e.2.1 = root src →
      ∃ (k : Nat) (a : PosV × Option Err), (actList b.st)[k]? = some q ∧ all[k]? = some a ∧ e.2.2.2 = a.2.isNone := by
    intro e he q src hsrc hroot
    obtain ⟨k', p', src', a', hp', _, hsrc', ha', _, hr', hc', _⟩ := hnew e he
    have hidx : n0 + p' = n0 + q := hs.idx_of_root hsrc' hsrc (by rw [← hr', hroot])
    have hpq : p' = q := by omega
    subst hpq
    exact ⟨k', a', hp', ha', hc'⟩
  have hginv : GInv G s' := by
    refine ⟨htv, hI.sc.event (.write d b.active) d rfl hlog hscr, ?_, ?_, ?_, ?_⟩
    · rw [hn, ← hI.acked, hlog, ackedKeys_push]
      simp [evKeys]
    · intro x hx
      rw [hany] at hx
      rw [hn]; exact hI.dlqAny x hx
    · intro x hx
      rw [hok] at hx
      rw [hn]; exact hI.dlqOk x hx
    · intro e he
      rw [hwr, List.mem_append] at he
      rcases he with he | he
      · exact hI.wr e he
      · obtain ⟨_, _, _, _, _, _, _, _, _, _, _, h8⟩ := hnew e he
        exact h8
  have hext : Ext (InR G n0 b.pos.length) (G.mu s) (G.mu s') := by
    refine ⟨?_, ?_, ?_, ?_, ?_, ?_, ?_, ?_, ?_, ?_⟩ <;> intro x hx
    · rw [hfil]; exact hx
    · rw [hfil] at hx; exact Or.inl hx
    · rw [herr]; exact hx
    · rw [herr] at hx; exact Or.inl hx
    · rw [hwr]; exact List.mem_append_left _ hx
    · rw [hwr, List.mem_append] at hx
      rcases hx with hx | hx
      · exact Or.inl hx
      · obtain ⟨k, p, src, a, _, hlt, hsrc, _, _, hroot, _, _⟩ := hnew x hx
        exact Or.inr ⟨p, src, hlt, hsrc, hroot.symm⟩
    · rw [hany]; exact hx
    · rw [hany] at hx; exact Or.inl hx
    · rw [hok]; exact hx
    · rw [hok] at hx; exact Or.inl hx
  have hfacts' : Facts G (G.mu s') pre (pre ++ [d]) False n0 b1 0 := by
    refine ⟨?_, ?_, ?_⟩
    · intro q st' src _ hq hsrc hfl
      obtain ⟨st, hbq, hc⟩ := hst q st' hq
      rcases hc with ⟨_, rfl, hflt⟩ | ⟨k, a, hk, ha, rfl, hack⟩
      · rw [hflt] at hfl; cases hfl
      · obtain ⟨ap, ae⟩ := a
        cases ae with
        | some e => simp [ackEffect] at hfl
        | none =>
          have hold := hfacts.ack q st src (Nat.zero_le _) hbq hsrc hack
          refine ⟨⟨?_, ?_⟩, ?_⟩
          · rw [herr]; exact hold.1.1
          · intro e he hroot
            rw [hwr, List.mem_append] at he
            rcases he with he | he
            · exact hold.1.2 e he hroot
            · obtain ⟨k', a', hk', ha', hc'⟩ := hnewq e he q src hsrc hroot
              have := actList_inj hk' hk
              subst this
              rw [ha] at ha'
              cases ha'
              rw [hc']; rfl
          · intro d' hd'
            rw [List.mem_append] at hd'
            rcases hd' with hd' | hd'
            · obtain ⟨e, he, h1, h2⟩ := hold.2 d' hd'
              exact ⟨e, by rw [hwr]; exact List.mem_append_left _ he, h1, h2⟩
            · have hdd : d' = d := by simpa using hd'
              subst hdd
              obtain ⟨e, he, h1, h2⟩ := hnew' k q src hk hsrc
              exact ⟨e, by rw [hwr]; exact List.mem_append_right _ he, h1, h2⟩
    · intro q st' src _ hq hsrc hfl
      obtain ⟨st, hbq, hc⟩ := hst q st' hq
      rcases hc with ⟨hm, rfl, hflt⟩ | ⟨k, a, hk, ha, rfl, hack⟩
      · have hold := hfacts.fil q st' src (Nat.zero_le _) hbq hsrc hflt
        refine ⟨⟨?_, ?_⟩, ?_⟩
        · rw [herr]; exact hold.1.1
        · intro e he hroot
          rw [hwr, List.mem_append] at he
          rcases he with he | he
          · exact hold.1.2 e he hroot
          · obtain ⟨k', a', hk', _, _⟩ := hnewq e he q src hsrc hroot
            exact absurd (List.mem_of_getElem? hk') hm
        · rw [hfil]; exact hold.2
      · obtain ⟨ap, ae⟩ := a
        cases ae with
        | some e => simp [ackEffect] at hfl
        | none =>
          simp only [ackEffect] at hfl
          rw [hack] at hfl; cases hfl
    · intro q st' src _ hq hsrc hfl
      obtain ⟨st, hbq, hc⟩ := hst q st' hq
      rcases hc with ⟨hm, rfl, hflt⟩ | ⟨k, a, hk, ha, rfl, hack⟩
      · rw [hflt] at hfl; cases hfl
      · obtain ⟨ap, ae⟩ := a
        cases ae with
        | some e => simp [ackEffect] at hfl
        | none =>
          simp only [ackEffect] at hfl
          rw [hack] at hfl; cases hfl
  refine ⟨hginv, by rw [hn, hf], hbinv, hpos, ⟨?_, ?_⟩, hext, hfacts', ?_, ?_⟩
  · intro q p hq
    rw [hpos] at hq
    exact hal.pos q p hq
  · intro q r src hq hsrc
    rw [hrecs] at hq
    exact hal.lin q r src hq hsrc
  · intro ht q st' hq
    rw [hclean, Bool.false_or] at htaint
    rw [ht] at htaint
    have hall : ∀ a ∈ all, a.2 = none := by
      intro a ha
      have := List.any_eq_false.mp htaint.symm a ha
      cases h2 : a.2 with
      | none => rfl
      | some e => rw [h2] at this; simp at this
    obtain ⟨st, hbq, hc⟩ := hst q st' hq
    rcases hc with ⟨hm, rfl, hflt⟩ | ⟨k, a, hk, ha, rfl, hack⟩
    · exact Or.inr hflt
    · have := hall a (List.mem_of_getElem? ha)
      left
      unfold ackEffect
      rw [this]
      exact hack
  · intro sub hd hw e he hsub
    rw [hn]
    rw [hwr, List.mem_append] at he
    rcases he with he | he
    · exact hw e he hsub
    · obtain ⟨_, _, _, _, _, _, _, _, h5, _⟩ := hnew e he
      rw [h5] at hsub
      exact absurd hsub hd

end Conduit.Funnel
