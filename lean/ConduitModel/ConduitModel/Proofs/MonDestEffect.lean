import ConduitModel.Proofs.PassTask
import ConduitModel.Proofs.WorkerConfirm

/-!
# Exact effect of `DestinationTask.Do` (pure core `destDoP`) on a batch without split records,
and the trace monitor's `confirmedLoop` verdicts for the same reply
-/
namespace Conduit.Funnel

/-- what the ack `a` for an active record does to its status -/
def ackEffect (a : PosV × Option Err) (st : Status) : Status :=
  match a.2 with
  | some e => { flag := .nack, err := some e }
  | none => st


/-! ### `tainted` through `markBatchRecords` -/

theorem nack_tainted {b b' : Batch} {i : Nat} {errs : List (Option Err)} (h : b.nack i errs = .ok b') :
    b'.tainted = true := by
  rw [nack_eq_model] at h
  unfold Batch.nackP at h
  obtain ⟨st, _, h2⟩ := bind_ok h
  cases h2
  rfl

theorem destMarkStep_tainted {from_ : Nat} {acks : List (PosV × Option Err)} {b b1 : Batch} {n : Nat}
    (h : destMarkStep from_ acks b n = .ok b1) :
    b1.tainted = (b.tainted || (acks[n]?.toList).any (·.2.isSome)) := by
  unfold destMarkStep at h
  cases ha : acks[n]? with
  | none => rw [ha] at h; cases h; simp
  | some a =>
    obtain ⟨ap, ae⟩ := a
    cases ae with
    | none => rw [ha] at h; cases h; simp
    | some e =>
      rw [ha] at h
      simp only at h
      rw [nack_tainted h]; simp

theorem destMarkLoop_tainted (from_ : Nat) (acks : List (PosV × Option Err)) :
    ∀ (n : Nat) (b b' : Batch), (List.range n).reverse.foldlM (destMarkStep from_ acks) b = .ok b' →
      b'.tainted = (b.tainted || (acks.take n).any (·.2.isSome)) := by
  intro n
  induction n with
  | zero => intro b b' h; cases h; simp
  | succ n ih =>
    intro b b' h
    rw [List.range_succ, List.reverse_append] at h
    simp only [List.reverse_cons, List.reverse_nil, List.nil_append, List.cons_append, List.foldlM_cons] at h
    obtain ⟨b1, h1, h2⟩ := bind_ok h
    rw [ih _ _ h2, destMarkStep_tainted h1, List.take_add_one, List.any_append]
    cases b.tainted <;> cases (acks[n]?.toList).any (·.2.isSome) <;> cases (acks.take n).any (·.2.isSome) <;> rfl

theorem destMark_tainted {b b' : Batch} {from_ : Nat} {acks : List (PosV × Option Err)}
    (h : destMark b from_ acks = .ok b') : b'.tainted = (b.tainted || acks.any (·.2.isSome)) := by
  rw [destMark_eq_model] at h
  have := destMarkLoop_tainted from_ acks acks.length b b' h
  rwa [List.take_length] at this

/-! ### the ack loop vs. the monitor's `confirmedLoop`, for any batch -/

theorem ackLoop_mon (positions : List PosV) :
    ∀ (fuel : Nat) (b : Batch) (c : Nat) (resps : List AckResp) (acc : List Bool) (b' : Batch) (n : Nat),
      destAckLoop positions fuel b c resps = .ok (b', n) → positions.length ≤ n →
      ∃ k : Nat, (∀ r ∈ resps.take k, ∃ l, r = AckResp.acks l) ∧
        n = c + ((resps.take k).flatMap ackList).length ∧
        Mon.confirmedLoop positions fuel c resps acc = acc ++ ((resps.take k).flatMap ackList).map (·.2.isNone) ∧
        b'.tainted = (b.tainted || ((resps.take k).flatMap ackList).any (·.2.isSome)) := by
  intro fuel
  induction fuel with
  | zero =>
    intro b c resps acc b' n hr hn
    unfold destAckLoop at hr
    cases hr
    refine ⟨0, by simp, by simp, ?_, by simp⟩
    unfold Mon.confirmedLoop
    simp
  | succ fuel ih =>
    intro b c resps acc b' n hr hn
    unfold destAckLoop at hr
    cases resps with
    | nil => cases hr
    | cons r rest =>
      cases r with
      | err e => cases hr
      | acks acks =>
        simp only at hr
        by_cases hv : validateAcks acks (positions.drop c) = true
        · simp only [hv, Bool.not_true, Bool.false_eq_true, if_false] at hr
          obtain ⟨b1, e1, hr⟩ := bind_ok hr
          have ht1 := destMark_tainted e1
          have hcl : Mon.confirmedLoop positions (fuel + 1) c (AckResp.acks acks :: rest) acc =
              if c + acks.length ≥ positions.length then acc ++ acks.map (·.2.isNone)
              else Mon.confirmedLoop positions fuel (c + acks.length) rest (acc ++ acks.map (·.2.isNone)) := by
            rw [Mon.confirmedLoop]
            simp only [hv, Bool.not_true, Bool.false_eq_true, if_false]
          rw [hcl]
          by_cases hge : c + acks.length ≥ positions.length
          · simp only [hge, if_true] at hr ⊢
            cases hr
            refine ⟨1, ?_, by simp [ackList], by simp [ackList], by simp [ackList, ht1]⟩
            intro r hr
            simp only [List.take_succ_cons, List.take_zero, List.mem_cons, List.not_mem_nil, or_false] at hr
            exact ⟨acks, hr⟩
          · simp only [hge, if_false] at hr ⊢
            obtain ⟨k, hk1, hk2, hk3, hk4⟩ := ih b1 (c + acks.length) rest (acc ++ acks.map (·.2.isNone)) b' n hr hn
            refine ⟨k + 1, ?_, ?_, ?_, ?_⟩
            · intro r hr
              simp only [List.take_succ_cons, List.mem_cons] at hr
              rcases hr with rfl | hr
              · exact ⟨acks, rfl⟩
              · exact hk1 r hr
            · rw [hk2]; simp [List.take_succ_cons, ackList]; omega
            · rw [hk3]; simp [List.take_succ_cons, ackList]
            · rw [hk4, ht1]; simp [List.take_succ_cons, ackList, Bool.or_assoc]
        · simp only [hv, Bool.not_false, if_true] at hr
          cases hr

/-- the acks of two all-`.acks` prefixes of the same reply with the same total length coincide -/
theorem flatMap_take_eq (resps : List AckResp) {k k' : Nat}
    (hl : ((resps.take k).flatMap ackList).length = ((resps.take k').flatMap ackList).length) :
    (resps.take k).flatMap ackList = (resps.take k').flatMap ackList := by
  have key : ∀ (a c : Nat), a ≤ c →
      ((resps.take a).flatMap ackList).length = ((resps.take c).flatMap ackList).length →
      (resps.take a).flatMap ackList = (resps.take c).flatMap ackList := by
    intro a c hac hlen
    have h1 : resps.take c = resps.take a ++ (resps.take c).drop a := by
      have := (List.take_append_drop a (resps.take c)).symm
      rwa [List.take_take, Nat.min_eq_left hac] at this
    rw [h1, List.flatMap_append] at hlen ⊢
    rw [List.length_append] at hlen
    have : (((resps.take c).drop a).flatMap ackList).length = 0 := by omega
    rw [List.length_eq_zero_iff] at this
    rw [this, List.append_nil]
  by_cases h : k ≤ k'
  · exact key k k' h hl
  · exact (key k' k (by omega) hl.symm).symm

theorem destDoP_effect {h : Heap} {b : Batch} (hwf : b.WF h) (hsplit : b.split = []) (werr : Option Err)
    (resps : List AckResp) {b' : Batch} (hr : destDoP b werr resps = .ok b') :
    werr = none ∧ ∃ all : List (PosV × Option Err), all.length = b.nAct ∧
      Mon.confirmedLoop (b.active.map (·.pos)) (b.active.map (·.pos)).length 0 resps [] = all.map (·.2.isNone) ∧
      b'.recs = b.recs ∧ b'.pos = b.pos ∧ b'.st.length = b.st.length ∧
      (∀ (k p : Nat) (st : Status) (a : PosV × Option Err), (actList b.st)[k]? = some p → b.st[p]? = some st →
          all[k]? = some a → b'.st[p]? = some (ackEffect a st)) ∧
      (∀ q : Nat, q ∉ actList b.st → b'.st[q]? = b.st[q]?) ∧
      b'.tainted = (b.tainted || all.any (·.2.isSome)) := by
  have hact : b.active.length = b.nAct := active_length hwf.1.st_len hwf.2
  have hex : ∃ (b'' : Batch) (all : List (PosV × Option Err)), destDoP b werr resps = .ok b'' ∧ werr = none ∧
      all.length = b.nAct ∧
      AckPost h (b.active.map (·.pos)) resps b 0 b'' (b.active.map (·.pos)).length all := by
    rcases destDoP_total hwf werr resps with hx | ⟨e, e0⟩
    · exact hx
    · rw [e0] at hr; cases hr
  obtain ⟨b'', all, e0, hw, hlen, post⟩ := hex
  rw [e0] at hr
  cases hr
  subst hw
  refine ⟨rfl, all, hlen, ?_⟩
  -- the loop equation
  unfold destDoP at e0
  simp only at e0
  obtain ⟨⟨b1, n⟩, hl, e0⟩ := bind_ok e0
  simp only at e0
  by_cases hlt : n < (b.active.map (·.pos)).length
  · simp only [hlt, if_true] at e0; cases e0
  simp only [hlt, if_false] at e0
  have hb1 : b1 = b' := by cases e0; rfl
  subst hb1
  obtain ⟨k, _, hk2, hk3, hk4⟩ := ackLoop_mon (b.active.map (·.pos)) _ b 0 resps [] b1 n hl (by omega)
  obtain ⟨k', _, hall⟩ := post.consumed
  have hL : (resps.take k).flatMap ackList = all := by
    rw [hall]
    apply flatMap_take_eq
    rw [← hall, hlen, ← hact]
    have hle : n ≤ (b.active.map (·.pos)).length := by
      -- rerun the totality lemma on the loop itself to bound `n`
      rcases destAckLoop_total (b.active.map (·.pos)) (b.active.map (·.pos)).length hwf (by simp [hact]) 0
        (Nat.zero_le _) resps with ⟨b2, n2, all2, e2, post2⟩ | ⟨e, e2⟩
      · rw [hl] at e2; cases e2; exact post2.le
      · rw [hl] at e2; cases e2
    simp only [List.length_map] at hlt hle
    omega
  rw [hL] at hk3 hk4
  have M := post.mark.marked hsplit
  refine ⟨by simpa using hk3, post.mark.recs, post.mark.pos, ?_, ?_, ?_, hk4⟩
  · rw [post.mark.wf.1.st_len, hwf.1.st_len, post.mark.recs]
  · intro k p st a hk hst ha
    obtain ⟨ap, ae⟩ := a
    have hkl : k < all.length := by
      have := List.getElem?_eq_some_iff.mp ha
      exact this.1
    cases ae with
    | some e =>
      have := (M p).1 e ⟨k, ap, hkl, by rw [Nat.zero_add]; exact hk, ha⟩
      rw [this]; rfl
    | none =>
      have : b1.st[p]? = b.st[p]? := by
        apply (M p).2
        rintro ⟨e, i, ap', hi, h1, h2⟩
        rw [Nat.zero_add] at h1
        have := actList_inj h1 hk
        subst this
        rw [ha] at h2; cases h2
      rw [this, hst]; rfl
  · intro q hq
    apply (M q).2
    rintro ⟨e, i, ap', hi, h1, h2⟩
    exact hq (List.mem_of_getElem? h1)

end Conduit.Funnel
