import ConduitModel.Proofs.MonFInv
import ConduitModel.Proofs.MonDest

/-!
# `DestinationTask.Do` against the monitor, task-attributed version (for pipelines with fan-out)
-/
namespace Conduit.Funnel
open Conduit.Funnel.Mon

/-- `write_silent` from the two facts it really uses: the `.write` of the active records of a batch
aligned at `n0` to a destination to which only records before `n0` were written: no duplicate,
roots in order -/
theorem write_silentF {G : Ctx} (hs : Src G) {s : PS} {b : Batch} {d n0 : Nat}
    (hwr : ∀ e ∈ (G.mu s).written, e.2.1 = e.2.2.1 % 1000) (hb : BInv b) (hal : Align G n0 b)
    (hbelow : ∀ e ∈ (G.mu s).written, e.1 = d → NonPend G n0 e.2.1) :
    dupW (G.mu s) d b.active = false ∧ Mon.step.mono (lastRootW (G.mu s) d b.active) b.active = true := by
  have hprev : ∀ e ∈ prevW (G.mu s) d b.active, ∀ r ∈ b.active, e.2.1 < root r ∧ e.2.1 = e.2.2.1 % 1000 := by
    intro e he r hr
    unfold prevW at he
    rw [List.mem_filter] at he
    obtain ⟨hm, hc⟩ := he
    simp only [Bool.and_eq_true, beq_iff_eq] at hc
    have hnp := hbelow e hm hc.1
    obtain ⟨k, hk⟩ := List.getElem?_of_mem hr
    obtain ⟨p, src, _, _, _, hsrc, hroot⟩ := active_src hb.wf hal hk
    rw [hroot]
    exact ⟨hnp.lt hs hsrc (by omega), hwr e hm⟩
  constructor
  · apply not_true_false
    intro hd
    unfold dupW at hd
    simp only [List.any_eq_true, beq_iff_eq] at hd
    obtain ⟨r, hr, e, he, heq⟩ := hd
    obtain ⟨h1, h2⟩ := hprev e he r hr
    have : root r = r.tag % 1000 := rfl
    rw [heq] at h2
    omega
  · apply mono_of_sorted
    · intro r hr
      unfold lastRootW
      cases hl : (prevW (G.mu s) d b.active).getLast? with
      | none => simp
      | some e =>
        have := (hprev e (List.mem_of_getLast? hl) r hr).1
        simp only [Option.map_some, Option.getD_some]
        omega
    · intro i j a c hij ha hc
      obtain ⟨p, src, hp, _, _, hsrc, hroot⟩ := active_src hb.wf hal ha
      obtain ⟨p', src', hp', _, _, hsrc', hroot'⟩ := active_src hb.wf hal hc
      have hpw := List.pairwise_iff_getElem.mp (actList_pairwise b.st)
      obtain ⟨hi1, hi2⟩ := List.getElem?_eq_some_iff.mp hp
      obtain ⟨hj1, hj2⟩ := List.getElem?_eq_some_iff.mp hp'
      have := hpw i j hi1 hj1 hij
      rw [hi2, hj2] at this
      rw [hroot, hroot']
      exact Nat.le_of_lt (hs.root_lt hsrc hsrc' (by omega))

/-- A destination task `d` on a batch in flight (records aligned at `n0`, all statuses `ack` /
`filter`, `ActiveT` / `FilteredT` for the tasks `T` and destinations `D` passed so far, `d` and the
tasks `Ts` / destinations `Ds` below have not seen the records yet, and every earlier write to `d`
was of a record before `n0`). Whatever the result: the base invariant still holds (in particular
the `.write` event does not make the monitor fire) and the step is a `QStep` of `d` about roots of
the batch. When a batch is returned: still aligned, the facts hold with `d` added to the tasks and
destinations passed, no status is `retry`. -/
theorem destDo_monF {G : Ctx} (hs : Src G) {s s' : PS} {r : Except Stop Batch} {b : Batch}
    {d n0 : Nat} {T D Ts Ds : List Nat}
    (hB : Base G s) (hb : BInv b) (hclean : b.tainted = false) (hal : Align G n0 b)
    (haf : FlagsAF b) (hfacts : FactsT G (G.view s) T D T D True (d :: Ts) (d :: Ds) n0 b 0)
    (hbelow : ∀ e ∈ (G.mu s).written, e.1 = d → NonPend G n0 e.2.1)
    (hd : d ∈ tasksS G.tree) (hdd : d ∈ dests G.tree) (hnt : d ∉ Ts) (hnd : d ∉ Ds)
    (h : exec (destDo d b none) s = (r, s')) :
    Base G s' ∧ QStep G d true (InR G n0 b.pos.length) s s' ∧
    ∀ b1, r = .ok b1 →
      BInv b1 ∧ b1.pos = b.pos ∧ Align G n0 b1 ∧
      FactsT G (G.view s') T D (T ++ [d]) (D ++ [d]) False Ts Ds n0 b1 0 ∧
      (b1.tainted = false → FlagsAF b1) := by
  have hspec := (destDo_spec d b s s' r hb h).2
  rw [destDo_shape] at h
  have hr : destDoP b (destReply (nextReply s.scripts d)).1 (destReply (nextReply s.scripts d)).2 = r :=
    (Prod.mk.inj h).1
  have hs' := (Prod.mk.inj h).2
  have hlog : s'.log = s.log.push (.write d b.active) := by rw [← hs']
  have hscr : s'.scripts = popScripts s.scripts d := by rw [← hs']
  have hmas : s'.mas = s.mas := by rw [← hs']
  have hwin : s'.win = s.win := by rw [← hs']
  have hthr : s'.thr = s.thr := by rw [← hs']
  have hsize : s'.size = s.size := by rw [← hs']
  have hdlqT : s'.dlqTask = s.dlqTask := by rw [← hs']
  clear h hs'
  have hmu : G.mu s' = writeT G.scripts (G.mu s) d b.active := mu_push G s s' _ hlog
  have hE : G.errT s' = G.errT s := by
    rw [errT_push G s s' _ hlog]
    simp [errNew]
  obtain ⟨hdup, hmono⟩ := write_silentF hs hB.wr hb hal hbelow
  have htv : (G.mu s').tv = [] := by
    rw [hmu]
    simp only [writeT, hdup, hmono, if_true, if_false, Bool.false_eq_true, List.append_nil]
    exact hB.safe
  have hwr : (G.mu s').written = (G.mu s).written ++ entriesW G.scripts d (callNoL (G.mu s).calls d) b.active := by
    rw [hmu]; rfl
  have hfil : (G.mu s').filtered = (G.mu s).filtered := by rw [hmu]; rfl
  have hany : (G.mu s').dlqAny = (G.mu s).dlqAny := by rw [hmu]; rfl
  have hok : (G.mu s').dlqOk = (G.mu s).dlqOk := by rw [hmu]; rfl
  -- membership in the new `written` / `E`
  have hmemL : ∀ e, e ∈ (G.mu s).written → e ∈ (G.view s').μ.written := by
    intro e he
    show e ∈ (G.mu s').written
    rw [hwr]; exact List.mem_append_left _ he
  have hmemR : ∀ e, e ∈ entriesW G.scripts d (callNoL (G.mu s).calls d) b.active → e ∈ (G.view s').μ.written := by
    intro e he
    show e ∈ (G.mu s').written
    rw [hwr]; exact List.mem_append_right _ he
  have hmem : ∀ e, e ∈ (G.view s').μ.written →
      e ∈ (G.mu s).written ∨ e ∈ entriesW G.scripts d (callNoL (G.mu s).calls d) b.active := by
    intro e he
    have he : e ∈ (G.mu s').written := he
    rw [hwr, List.mem_append] at he
    exact he
  have hmemE : ∀ x, x ∈ (G.view s').E → x ∈ G.errT s := by
    intro x hx
    have hx : x ∈ G.errT s' := hx
    rw [hE] at hx
    exact hx
  -- the new entries (whatever the result)
  have hnew0 : ∀ e ∈ entriesW G.scripts d (callNoL (G.mu s).calls d) b.active,
      ∃ (p : Nat) (src : Rec), p < b.pos.length ∧ G.all[n0 + p]? = some src ∧ e.1 = d ∧ e.2.1 = root src ∧
        e.2.1 = e.2.2.1 % 1000 := by
    intro e he
    obtain ⟨j, r, hj, rfl⟩ := mem_entriesW.mp he
    obtain ⟨p, src, _, _, hlt, hsrc, hroot⟩ := active_src hb.wf hal hj
    exact ⟨p, src, hlt, hsrc, rfl, hroot, rfl⟩
  have hbase : Base G s' := by
    refine ⟨htv, hB.sc.event (.write d b.active) d rfl hlog hscr, ?_, ?_, ?_, fun hg => by rw [hscr]; exact (hB.ns hg).pop d⟩
    · intro e he
      rw [hwr, List.mem_append] at he
      rcases he with he | he
      · exact hB.wr e he
      · obtain ⟨_, _, _, _, _, _, h⟩ := hnew0 e he
        exact h
    · intro x hx
      rw [hE] at hx
      exact hB.errIn x hx
    · intro e he
      rw [hwr, List.mem_append] at he
      rcases he with he | he
      · exact hB.wrIn e he
      · obtain ⟨_, _, _, _, h, _, _⟩ := hnew0 e he
        rw [h]; exact hdd
  have hext : ExtT [d] [d] (InR G n0 b.pos.length) (G.view s) (G.view s') := by
    refine ⟨?_, ?_, ?_, ?_, ?_, ?_⟩ <;> intro x hx
    · show x ∈ (G.mu s').filtered
      rw [hfil]; exact hx
    · have hx : x ∈ (G.mu s').filtered := hx
      rw [hfil] at hx; exact Or.inl hx
    · show x ∈ G.errT s'
      rw [hE]; exact hx
    · exact Or.inl (hmemE x hx)
    · exact hmemL x hx
    · rcases hmem x hx with hx | hx
      · exact Or.inl hx
      · obtain ⟨p, src, hlt, hsrc, h1, hroot, _⟩ := hnew0 x hx
        exact Or.inr ⟨by rw [h1]; exact List.mem_cons_self, p, src, hlt, hsrc, hroot.symm⟩
  have hq : QStep G d true (InR G n0 b.pos.length) s s' :=
    ⟨⟨.write d b.active, hlog, rfl, rfl, fun tk i h => by cases h⟩, hscr, hmas, hwin, hthr, hsize, hdlqT, hext, hany, hok⟩
  refine ⟨hbase, hq, ?_⟩
  intro b1 hb1
  rw [hb1] at hr
  obtain ⟨hw, all, hlen, hloop, hrecs, hpos, hstlen, hact, hnact, htaint⟩ := destDoP_effect hb.wf hb.split _ _ hr
  have hrep : replyOfCall G.scripts d (callNoL (G.mu s).calls d) =
      some (.dest none (destReply (nextReply s.scripts d)).2) := by
    rw [← hB.sc.nextReply d]; exact destReply_none hw
  have hconf : ∀ j : Nat, confirmed G.scripts d (callNoL (G.mu s).calls d) j (b.active.map (·.pos)) =
      ((all.map (·.2.isNone))[j]?).getD false := by
    intro j
    unfold confirmed
    rw [hrep]
    simp only []
    rw [hloop]
  have hnAct : b.active.length = all.length := by rw [hlen]; exact active_length hb.wf.1.st_len hb.wf.2
  -- the new entries
  have hnew : ∀ e ∈ entriesW G.scripts d (callNoL (G.mu s).calls d) b.active,
      ∃ (k p : Nat) (src : Rec) (a : PosV × Option Err), (actList b.st)[k]? = some p ∧ p < b.pos.length ∧
        G.all[n0 + p]? = some src ∧ all[k]? = some a ∧ e.1 = d ∧ e.2.1 = root src ∧ e.2.2.2 = a.2.isNone ∧
        e.2.1 = e.2.2.1 % 1000 := by
    intro e he
    obtain ⟨j, r, hj, rfl⟩ := mem_entriesW.mp he
    obtain ⟨p, src, hp, _, hlt, hsrc, hroot⟩ := active_src hb.wf hal hj
    have hjl : j < all.length := by rw [← hnAct]; exact (List.getElem?_eq_some_iff.mp hj).1
    refine ⟨j, p, src, all[j], hp, hlt, hsrc, List.getElem?_eq_getElem hjl, rfl, hroot, ?_, rfl⟩
    show confirmed _ _ _ _ _ = _
    rw [hconf j]
    simp [hjl]
  have hnew' : ∀ (k p : Nat) (src : Rec), (actList b.st)[k]? = some p → G.all[n0 + p]? = some src →
      ∃ e ∈ entriesW G.scripts d (callNoL (G.mu s).calls d) b.active, e.1 = d ∧ e.2.1 = root src := by
    intro k p src hp hsrc
    have hk : k < b.active.length := by
      rw [hnAct, hlen]; exact (List.getElem?_eq_some_iff.mp hp).1
    obtain ⟨p', src', hp', _, _, hsrc', hroot⟩ := active_src hb.wf hal (List.getElem?_eq_getElem hk)
    rw [hp] at hp'
    cases hp'
    rw [hsrc] at hsrc'
    cases hsrc'
    exact ⟨_, mem_entriesW.mpr ⟨k, _, List.getElem?_eq_getElem hk, rfl⟩, rfl, hroot⟩
  -- the new statuses
  have hst : ∀ (q : Nat) (st' : Status), b1.st[q]? = some st' → ∃ st, b.st[q]? = some st ∧
      ((q ∉ actList b.st ∧ st' = st ∧ st.flag = .filter) ∨
       (∃ (k : Nat) (a : PosV × Option Err), (actList b.st)[k]? = some q ∧ all[k]? = some a ∧
          st' = ackEffect a st ∧ st.flag = .ack)) := by
    intro q st' hq
    have hql : q < b.st.length := by rw [← hstlen]; exact (List.getElem?_eq_some_iff.mp hq).1
    have hbq : b.st[q]? = some b.st[q] := List.getElem?_eq_getElem hql
    refine ⟨b.st[q], hbq, ?_⟩
    by_cases hm : q ∈ actList b.st
    · right
      obtain ⟨k, hk⟩ := List.getElem?_of_mem hm
      have hkl : k < all.length := by rw [hlen]; exact (List.getElem?_eq_some_iff.mp hk).1
      have := hact k q _ _ hk hbq (List.getElem?_eq_getElem hkl)
      rw [hq] at this
      have hnf := (notFilt_iff hql).mp (mem_actList.mp hm).2
      refine ⟨k, all[k], hk, List.getElem?_eq_getElem hkl, Option.some.inj this, ?_⟩
      rcases haf q _ hbq with h | h
      · exact h
      · exact absurd h hnf
    · left
      have := hnact q hm
      rw [hq, hbq] at this
      refine ⟨hm, Option.some.inj this, ?_⟩
      have hnn : ¬ notFilt b.st q = true := fun h => hm (mem_actList.mpr ⟨hql, h⟩)
      by_cases hfl : b.st[q].flag = .filter
      · exact hfl
      · exact absurd ((notFilt_iff hql).mpr hfl) hnn
  obtain ⟨hbinv, _⟩ := hspec b1 hb1
  -- a new entry with the root of record `q` is the entry of `q`
  have hnewq : ∀ e ∈ entriesW G.scripts d (callNoL (G.mu s).calls d) b.active, ∀ (q : Nat) (src : Rec),
      G.all[n0 + q]? = some src → e.2.1 = root src →
      ∃ (k : Nat) (a : PosV × Option Err), (actList b.st)[k]? = some q ∧ all[k]? = some a ∧ e.2.2.2 = a.2.isNone := by
    intro e he q src hsrc hroot
    obtain ⟨k', p', src', a', hp', _, hsrc', ha', _, hr', hc', _⟩ := hnew e he
    have hidx : n0 + p' = n0 + q := hs.idx_of_root hsrc' hsrc (by rw [← hr', hroot])
    have hpq : p' = q := by omega
    subst hpq
    exact ⟨k', a', hp', ha', hc'⟩
  -- `CleanT` for the tasks / destinations passed plus `d`, from the old `CleanT` and `FreshT`
  have hcleanT : ∀ (q : Nat) (src : Rec), G.all[n0 + q]? = some src →
      CleanT (G.view s) T D (root src) → FreshT (G.view s) (d :: Ts) (d :: Ds) (root src) →
      (∀ e ∈ entriesW G.scripts d (callNoL (G.mu s).calls d) b.active, e.2.1 = root src → e.2.2.2 = true) →
      CleanT (G.view s') (T ++ [d]) (D ++ [d]) (root src) := by
    intro q src hsrc hcl hfr hne
    refine ⟨?_, ?_⟩
    · intro t ht hx
      have hx := hmemE _ hx
      rcases List.mem_append.mp ht with h1 | h1
      · exact hcl.1 t h1 hx
      · have h1 : t = d := by simpa using h1
        rw [h1] at hx
        exact hfr.1 d List.mem_cons_self hx
    · intro e he hd' hroot
      rcases hmem e he with he | he
      · rcases List.mem_append.mp hd' with h1 | h1
        · exact hcl.2 e he h1 hroot
        · have h1 : e.1 = d := by simpa using h1
          exact absurd hroot (hfr.2 e he (by rw [h1]; exact List.mem_cons_self))
      · exact hne e he hroot
  have hfacts' : FactsT G (G.view s') T D (T ++ [d]) (D ++ [d]) False Ts Ds n0 b1 0 := by
    refine ⟨?_, ?_, ?_, ?_⟩
    · intro q st' src _ hq hsrc hfl
      obtain ⟨st, hbq, hc⟩ := hst q st' hq
      have hql : q < b.st.length := (List.getElem?_eq_some_iff.mp hbq).1
      rcases hc with ⟨_, rfl, hflt⟩ | ⟨k, a, hk, ha, rfl, hack⟩
      · rw [hflt] at hfl; cases hfl
      · obtain ⟨ap, ae⟩ := a
        cases ae with
        | some e => simp [ackEffect] at hfl
        | none =>
          have hold := hfacts.ack q st src (Nat.zero_le _) hbq hsrc hack
          have hfr := hfacts.fresh q src (Nat.zero_le _) hql hsrc
          refine ⟨hcleanT q src hsrc hold.1 hfr ?_, ?_⟩
          · intro e he hroot
            obtain ⟨k', a', hk', ha', hc'⟩ := hnewq e he q src hsrc hroot
            have := actList_inj hk' hk
            subst this
            rw [ha] at ha'
            cases ha'
            rw [hc']; rfl
          · intro d' hd'
            rw [List.mem_append] at hd'
            rcases hd' with hd' | hd'
            · obtain ⟨e, he, h1, h2⟩ := hold.2 d' hd'
              exact ⟨e, hmemL e he, h1, h2⟩
            · have hdd' : d' = d := by simpa using hd'
              rw [hdd']
              obtain ⟨e, he, h1, h2⟩ := hnew' k q src hk hsrc
              exact ⟨e, hmemR e he, h1, h2⟩
    · intro q st' src _ hq hsrc hfl
      obtain ⟨st, hbq, hc⟩ := hst q st' hq
      have hql : q < b.st.length := (List.getElem?_eq_some_iff.mp hbq).1
      rcases hc with ⟨hm, rfl, hflt⟩ | ⟨k, a, hk, ha, rfl, hack⟩
      · have hold := hfacts.fil q st' src (Nat.zero_le _) hbq hsrc hflt
        have hfr := hfacts.fresh q src (Nat.zero_le _) hql hsrc
        refine ⟨hcleanT q src hsrc hold.1 hfr ?_, ?_⟩
        · intro e he hroot
          obtain ⟨k', a', hk', _, _⟩ := hnewq e he q src hsrc hroot
          exact absurd (List.mem_of_getElem? hk') hm
        · show root src ∈ (G.mu s').filtered
          rw [hfil]; exact hold.2
      · obtain ⟨ap, ae⟩ := a
        cases ae with
        | some e => simp [ackEffect] at hfl
        | none =>
          simp only [ackEffect] at hfl
          rw [hack] at hfl; cases hfl
    · intro q st' src _ hq hsrc hfl
      obtain ⟨st, hbq, hc⟩ := hst q st' hq
      rcases hc with ⟨hm, rfl, hflt⟩ | ⟨k, a, hk, ha, rfl, hack⟩
      · rw [hflt] at hfl; cases hfl
      · obtain ⟨ap, ae⟩ := a
        cases ae with
        | some e => simp [ackEffect] at hfl
        | none =>
          simp only [ackEffect] at hfl
          rw [hack] at hfl; cases hfl
    · intro q src _ hql hsrc
      have hfr := hfacts.fresh q src (Nat.zero_le _) (by rw [← hstlen]; exact hql) hsrc
      refine ⟨fun t ht hx => hfr.1 t (List.mem_cons_of_mem _ ht) (hmemE _ hx), fun e he hd' => ?_⟩
      rcases hmem e he with he | he
      · exact hfr.2 e he (List.mem_cons_of_mem _ hd')
      · obtain ⟨_, _, _, _, h5, _, _⟩ := hnew0 e he
        rw [h5] at hd'
        exact absurd hd' hnd
  refine ⟨hbinv, hpos, ⟨?_, ?_⟩, hfacts', ?_⟩
  · intro q p hq
    rw [hpos] at hq
    exact hal.pos q p hq
  · intro q r src hq hsrc
    rw [hrecs] at hq
    exact hal.lin q r src hq hsrc
  · intro ht q st' hq
    rw [hclean, Bool.false_or] at htaint
    rw [ht] at htaint
    have hall : ∀ a ∈ all, a.2 = none := by
      intro a ha
      have := List.any_eq_false.mp htaint.symm a ha
      cases h2 : a.2 with
      | none => rfl
      | some e => rw [h2] at this; simp at this
    obtain ⟨st, hbq, hc⟩ := hst q st' hq
    rcases hc with ⟨hm, rfl, hflt⟩ | ⟨k, a, hk, ha, rfl, hack⟩
    · exact Or.inr hflt
    · have := hall a (List.mem_of_getElem? ha)
      left
      unfold ackEffect
      rw [this]
      exact hack

end Conduit.Funnel
