import ConduitModel.Proofs.MonFMulti
import ConduitModel.Proofs.MonFPerm
import ConduitModel.Proofs.PassFan

/-!
# The fan-out step against the monitor (children without further fan-out, root handler chain)
-/
namespace Conduit.Funnel
open Conduit.Funnel.Mon

/-! ## the fan-out context as branches are started -/

namespace FanCtx
theorem push_id (F : FanCtx) (T D : List Nat) : (F.push T D).id = F.id := rfl
theorem push_m0 (F : FanCtx) (T D : List Nat) : (F.push T D).m0 = F.m0 := rfl
theorem push_L (F : FanCtx) (T D : List Nat) : (F.push T D).L = F.L := rfl
theorem push_M (F : FanCtx) (T D : List Nat) : (F.push T D).M = F.M := rfl
theorem push_Tp (F : FanCtx) (T D : List Nat) : (F.push T D).Tp = F.Tp := rfl
theorem push_Dp (F : FanCtx) (T D : List Nat) : (F.push T D).Dp = F.Dp := rfl
theorem push_t (F : FanCtx) (T D : List Nat) : (F.push T D).t = F.t + 1 := by simp [push, t]
theorem push_Tcur (F : FanCtx) (T D : List Nat) : (F.push T D).Tcur = T := by simp [push, Tcur]
theorem push_Dcur (F : FanCtx) (T D : List Nat) : (F.push T D).Dcur = D := by simp [push, Dcur]
theorem push_TTp (F : FanCtx) (T D : List Nat) : (F.push T D).TTp = F.Tp ++ F.brT.flatten := by
  simp [push, TTp, List.dropLast_concat]
theorem push_DDp (F : FanCtx) (T D : List Nat) : (F.push T D).DDp = F.Dp ++ F.brD.flatten := by
  simp [push, DDp, List.dropLast_concat]
theorem push_TT (F : FanCtx) (T D : List Nat) : (F.push T D).TT = F.Tp ++ F.brT.flatten ++ T := by
  rw [TT, push_TTp, push_Tcur]
theorem push_DD (F : FanCtx) (T D : List Nat) : (F.push T D).DD = F.Dp ++ F.brD.flatten ++ D := by
  rw [DD, push_DDp, push_Dcur]
theorem push_all_T (F : FanCtx) (T D : List Nat) :
    (F.push T D).Tp ++ (F.push T D).brT.flatten = F.Tp ++ F.brT.flatten ++ T := by
  simp [push, List.append_assoc]
theorem push_all_D (F : FanCtx) (T D : List Nat) :
    (F.push T D).Dp ++ (F.push T D).brD.flatten = F.Dp ++ F.brD.flatten ++ D := by
  simp [push, List.append_assoc]
end FanCtx

/-- the tally between two branches: `F.brT` lists the branches that have run -/
structure MBet {G : Ctx} {a : Acker} (C : MC G a) (F : FanCtx) (s : PS) : Prop where
  base : Base G s
  hid : F.id < s.mas.size
  mok : MOK (s.mas[F.id]!)
  br : (s.mas[F.id]!).branches = F.M
  len : (s.mas[F.id]!).positions.length = F.L
  keys : ∀ (ix : Nat) (src : Rec), ix < F.L → G.all[F.m0 + ix]? = some src → kAt (s.mas[F.id]!) ix = keyR src
  srcs : ∀ ix : Nat, ix < F.L → ∃ src, G.all[F.m0 + ix]? = some src
  votes : ∀ (ix : Nat) (src : Rec), ix < F.L → G.all[F.m0 + ix]? = some src → (s.mas[F.id]!).term ix = false →
    (s.mas[F.id]!).votes ix ≤ F.t ∧
    ((s.mas[F.id]!).votes ix = F.t → VF (G.view s) (F.Tp ++ F.brT.flatten) (F.Dp ++ F.brD.flatten) (root src))
  acked : ∀ (ix : Nat) (src : Rec), ix < F.L → G.all[F.m0 + ix]? = some src → (s.mas[F.id]!).term ix = true →
    (s.mas[F.id]!).ack ix = true →
    F.t = F.M ∧ ((s.mas[F.id]!).released ≤ ix → VF (G.view s) (F.Tp ++ F.brT.flatten) (F.Dp ++ F.brD.flatten) (root src))
  lin : ∀ (ix : Nat) (src : Rec), ix < F.L → G.all[F.m0 + ix]? = some src →
    ((s.mas[F.id]!).term ix = true ∨ 0 < (s.mas[F.id]!).votes ix) →
    root ((s.mas[F.id]!).record[ix]?.getD default) = root src
  rel : ∀ ix : Nat, ix < (s.mas[F.id]!).released → (s.mas[F.id]!).term ix = true
  parW : C.InvW (F.m0 + (s.mas[F.id]!).released) s
  par : C.Inv (F.m0 + (s.mas[F.id]!).released) s ∨
    ((s.mas[F.id]!).released < F.L ∧ (s.mas[F.id]!).term (s.mas[F.id]!).released = true ∧
      (s.mas[F.id]!).ack (s.mas[F.id]!).released = false)
  top : C.top ≤ F.id
  tle : F.t ≤ F.M
  dlen : F.brD.length = F.t
  dsubs : ∀ x ∈ F.Dp ++ F.brD.flatten, x ∈ F.Tp ++ F.brT.flatten

/-- starting the next branch (tasks `T`, destinations `D`) -/
theorem MBet.start {G : Ctx} {a : Acker} {C : MC G a} {F : FanCtx} {s : PS} (h : MBet C F s) (T D : List Nat)
    (hlt : F.t < F.M) (hbelow : ∀ x ∈ T, x ∈ C.Below) (hdT : ∀ x ∈ T, x ∉ F.Tp ++ F.brT.flatten)
    (hdD : ∀ x ∈ D, x ∉ F.Dp ++ F.brD.flatten) (hsub : ∀ x ∈ D, x ∈ T)
    (hcT : F.t + 1 = F.M → ∀ x ∈ C.T, x ∈ F.Tp ++ F.brT.flatten ++ T)
    (hcD : F.t + 1 = F.M → ∀ x ∈ C.D, x ∈ F.Dp ++ F.brD.flatten ++ D) :
    MAInv C (F.push T D) F.m0 s := by
  have hid : (F.push T D).id = F.id := rfl
  have hm0 : (F.push T D).m0 = F.m0 := rfl
  have hL : (F.push T D).L = F.L := rfl
  have hM : (F.push T D).M = F.M := rfl
  refine ⟨h.base, h.hid, ?_, h.srcs, h.parW, h.par, ⟨Nat.le_refl _, Nat.le_add_right _ _⟩, ?_, h.top, ?_, ?_, ?_, ?_, ?_, ?_, ?_⟩
  · refine ⟨h.mok, h.br, h.len, h.keys, ?_, ?_, ?_, h.lin, h.rel⟩
    · intro ix src _ _ _ hlt'
      exact absurd hlt' (by rw [hm0]; omega)
    · intro ix src hl hsrc hterm _
      obtain ⟨h1, h2⟩ := h.votes ix src hl hsrc hterm
      simp only [FanCtx.push_id, FanCtx.push_t, FanCtx.push_TTp, FanCtx.push_DDp] at *
      exact ⟨by omega, fun hv => h2 (by omega)⟩
    · intro ix src hl hsrc hterm hack
      obtain ⟨h1, _⟩ := h.acked ix src hl hsrc hterm hack
      simp only [FanCtx.push_M] at *
      omega
  · rw [FanCtx.push_t, hM]
    exact ⟨Nat.succ_pos _, hlt, by simp [FanCtx.push, h.dlen, FanCtx.t]⟩
  · rw [FanCtx.push_Tcur]; exact hbelow
  · rw [FanCtx.push_Tcur, FanCtx.push_TTp]; exact hdT
  · rw [FanCtx.push_Dcur, FanCtx.push_DDp]; exact hdD
  · rw [FanCtx.push_Dcur, FanCtx.push_Tcur]; exact hsub
  · rw [FanCtx.push_t, hM, FanCtx.push_TT]; exact hcT
  · rw [FanCtx.push_t, hM, FanCtx.push_DD]; exact hcD
  · rw [FanCtx.push_DDp, FanCtx.push_TTp]; exact h.dsubs

/-- after a branch (completed or failed) -/
theorem MAInv.finish {G : Ctx} {a : Acker} {C : MC G a} {F : FanCtx} {s : PS} {p : Nat} (T D : List Nat)
    (h : MAInv C (F.push T D) p s) : MBet C (F.push T D) s := by
  have hTT : (F.push T D).Tp ++ (F.push T D).brT.flatten = (F.push T D).TT := by
    rw [FanCtx.push_all_T, FanCtx.push_TT]
  have hDD : (F.push T D).Dp ++ (F.push T D).brD.flatten = (F.push T D).DD := by
    rw [FanCtx.push_all_D, FanCtx.push_DD]
  refine ⟨h.base, h.hid, h.ti.mok, h.ti.br, h.ti.len, h.ti.keys, h.srcs, ?_, ?_, h.ti.lin, h.ti.rel, h.parW, h.par, h.top,
    h.tpos.2.1, h.tpos.2.2, ?_⟩
  · intro ix src hl hsrc hterm
    rw [hTT, hDD]
    by_cases hlt : (F.push T D).m0 + ix < p
    · exact h.ti.lo ix src hl hsrc hterm hlt
    · obtain ⟨h1, _⟩ := h.ti.hi ix src hl hsrc hterm (by omega)
      exact ⟨by omega, fun hv => by rw [hv] at h1; omega⟩
  · intro ix src hl hsrc hterm hack
    rw [hTT, hDD]
    obtain ⟨_, h2, h3⟩ := h.ti.acked ix src hl hsrc hterm hack
    exact ⟨h2, h3⟩
  · rw [hTT, hDD]
    intro x hx
    rw [FanCtx.DD] at hx
    rw [FanCtx.TT]
    rcases List.mem_append.mp hx with h1 | h1
    · exact List.mem_append_left _ (h.ddp x h1)
    · exact List.mem_append_right _ (h.dsub x h1)


/-! ## children of a fan-out -/

theorem mem_tasksL {l : List TaskNode} {x : Nat} : x ∈ tasksL l ↔ ∃ n ∈ l, x ∈ tasksS n := by
  induction l with
  | nil => rw [tasksL_nil]; simp
  | cons c cs ih =>
    rw [tasksL_cons, List.mem_append, ih]
    constructor
    · rintro (h | ⟨n, hn, hx⟩)
      · exact ⟨c, List.mem_cons_self, h⟩
      · exact ⟨n, List.mem_cons_of_mem _ hn, hx⟩
    · rintro ⟨n, hn, hx⟩
      rcases List.mem_cons.mp hn with rfl | hn
      · exact Or.inl hx
      · exact Or.inr ⟨n, hn, hx⟩

theorem mem_destsL {l : List TaskNode} {x : Nat} : x ∈ destsL l ↔ ∃ n ∈ l, x ∈ destsS n := by
  induction l with
  | nil => rw [destsL_nil]; simp
  | cons c cs ih =>
    rw [destsL_cons, List.mem_append, ih]
    constructor
    · rintro (h | ⟨n, hn, hx⟩)
      · exact ⟨c, List.mem_cons_self, h⟩
      · exact ⟨n, List.mem_cons_of_mem _ hn, hx⟩
    · rintro ⟨n, hn, hx⟩
      rcases List.mem_cons.mp hn with rfl | hn
      · exact Or.inl hx
      · exact Or.inr ⟨n, hn, hx⟩

/-- distinct children have disjoint tasks -/
theorem tasksL_disj : ∀ (l : List TaskNode), (tasksL l).Nodup → ∀ (i j : Nat) (n n' : TaskNode),
    l[i]? = some n → l[j]? = some n' → i ≠ j → ∀ x ∈ tasksS n, x ∉ tasksS n' := by
  intro l
  induction l with
  | nil => intro _ i j n n' hi; simp at hi
  | cons c cs ih =>
    intro hnd i j n n' hi hj hij x hx hx'
    rw [tasksL_cons] at hnd
    obtain ⟨h1, h2, h3⟩ := List.nodup_append.mp hnd
    cases i with
    | zero =>
      cases j with
      | zero => exact hij rfl
      | succ j =>
        simp only [List.getElem?_cons_zero, Option.some.injEq] at hi
        simp only [List.getElem?_cons_succ] at hj
        subst hi
        exact h3 x hx x (mem_tasksL.mpr ⟨n', List.mem_of_getElem? hj, hx'⟩) rfl
    | succ i =>
      cases j with
      | zero =>
        simp only [List.getElem?_cons_zero, Option.some.injEq] at hj
        simp only [List.getElem?_cons_succ] at hi
        subst hj
        exact h3 x hx' x (mem_tasksL.mpr ⟨n, List.mem_of_getElem? hi, hx⟩) rfl
      | succ j =>
        simp only [List.getElem?_cons_succ] at hi hj
        exact ih h2 i j n n' hi hj (by omega) x hx hx'

theorem tasksS_nodup_of_tasksL {l : List TaskNode} (h : (tasksL l).Nodup) {n : TaskNode} (hn : n ∈ l) : (tasksS n).Nodup := by
  induction l with
  | nil => cases hn
  | cons c cs ih =>
    rw [tasksL_cons] at h
    obtain ⟨h1, h2, _⟩ := List.nodup_append.mp h
    rcases List.mem_cons.mp hn with rfl | hn
    · exact h1
    · exact ih h2 hn

/-- what a child that has not run yet needs: the arrival facts of the batch, and nothing pending
written below it -/
structure Ready (G : Ctx) (v : MV) (Tp Dp : List Nat) (n : TaskNode) (n0 : Nat) (b : Batch) : Prop where
  facts : FactsT G v Tp Dp Tp Dp True (tasksS n) (destsS n) n0 b 0
  below : WBelowP G n0 v (destsS n)

theorem Ready.ext {G : Ctx} {v v' : MV} {Tp Dp Ts Ds : List Nat} {R : Nat → Prop} {n : TaskNode} {n0 : Nat} {b : Batch}
    (h : Ready G v Tp Dp n n0 b) (he : ExtT Ts Ds R v v') (hT : ∀ x ∈ Ts, x ∉ Tp ∧ x ∉ tasksS n)
    (hD : ∀ x ∈ Ds, x ∉ Dp ∧ x ∉ destsS n) : Ready G v' Tp Dp n n0 b := by
  have hd1 : (∀ t ∈ Ts, t ∉ Tp) ∧ ∀ d ∈ Ds, d ∉ Dp := ⟨fun t ht => (hT t ht).1, fun d hd => (hD d hd).1⟩
  have hd2 : (∀ t ∈ Ts, t ∉ tasksS n) ∧ ∀ d ∈ Ds, d ∉ destsS n := ⟨fun t ht => (hT t ht).2, fun d hd => (hD d hd).2⟩
  refine ⟨⟨?_, ?_, ?_, ?_⟩, ?_⟩
  · intro q st src hq hst hsrc hf
    exact (h.facts.ack q st src hq hst hsrc hf).ext he (Or.inr hd1)
  · intro q st src hq hst hsrc hf
    exact (h.facts.fil q st src hq hst hsrc hf).ext he (Or.inr hd1)
  · intro q st src hq hst hsrc hf
    obtain ⟨h1, h2, h3⟩ := h.facts.retry q st src hq hst hsrc hf
    exact ⟨h1.ext he (Or.inr hd1), h2, h3.ext he (Or.inr hd1)⟩
  · intro q src hq hql hsrc
    exact (h.facts.fresh q src hq hql hsrc).ext he (Or.inr hd2)
  · intro e he' hm
    rcases he.wr_new e he' with h1 | ⟨h1, _⟩
    · exact h.below e h1 hm
    · exact absurd hm (hD _ h1).2

theorem Ready.congr {G : Ctx} {v : MV} {Tp Dp : List Nat} {n : TaskNode} {n0 : Nat} {b b' : Batch}
    (h : Ready G v Tp Dp n n0 b) (hst : b'.st = b.st) : Ready G v Tp Dp n n0 b' := by
  refine ⟨⟨?_, ?_, ?_, ?_⟩, h.below⟩
  · intro q st src hq hs; rw [hst] at hs; exact h.facts.ack q st src hq hs
  · intro q st src hq hs; rw [hst] at hs; exact h.facts.fil q st src hq hs
  · intro q st src hq hs; rw [hst] at hs; exact h.facts.retry q st src hq hs
  · intro q src hq hql; rw [hst] at hql; exact h.facts.fresh q src hq hql

theorem clone_fields (h : Heap) (b : Batch) : (b.clone h).2.st = b.st ∧ (b.clone h).2.recs = b.recs ∧
    (b.clone h).2.pos = b.pos ∧ (b.clone h).2.tainted = b.tainted := by
  unfold Batch.clone
  cases b.runs with
  | none => exact ⟨rfl, rfl, rfl, rfl⟩
  | some rs => exact ⟨rfl, rfl, rfl, rfl⟩


theorem MBet.frame {G : Ctx} {a : Acker} {C : MC G a} {F : FanCtx} {s s' : PS} (h : MBet C F s)
    (hf : SameBut (F.id + 1) s s') : MBet C F s' := by
  have hv : G.view s' = G.view s := view_same G s s' hf.log
  have hm : s'.mas[F.id]! = s.mas[F.id]! := hf.mas _ (Nat.lt_succ_self _)
  have hf' : SameBut C.top s s' := hf.mono (by have := h.top; omega)
  refine ⟨h.base.same hf.log hf.scripts, Nat.lt_of_lt_of_le h.hid hf.masSize, ?_, ?_, ?_, ?_, h.srcs, ?_, ?_, ?_, ?_, ?_, ?_,
    h.top, h.tle, h.dlen, h.dsubs⟩
  · rw [hm]; exact h.mok
  · rw [hm]; exact h.br
  · rw [hm]; exact h.len
  · rw [hm]; exact h.keys
  · rw [hm, hv]; exact h.votes
  · rw [hm, hv]; exact h.acked
  · rw [hm]; exact h.lin
  · rw [hm]; exact h.rel
  · rw [hm]; exact C.frameW h.parW hf'
  · rw [hm]
    rcases h.par with hp | hp
    · exact Or.inl (C.frame hp hf')
    · exact Or.inr hp

theorem log_mono_branches {fuel : Nat} {nexts : List TaskNode} {order : List Nat} {b : Batch} {a : Acker}
    {errs : Option Err} {pan : Option String} {s s' : PS} {r : Except Stop Unit}
    (h : exec (branches fuel nexts order b a errs pan) s = (r, s')) : s.log.toList <+: s'.log.toList :=
  log_mono_of_spec ((pipeline_keeps_inv (prims_logPrefix _) fuel).2.2.2 _ _ _ _ _ _) h

/-- static facts about one fan-out invocation -/
structure FanStatic {G : Ctx} {a : Acker} (C : MC G a) (Tp Dp : List Nat) (nexts : List TaskNode) (n0 : Nat) (sb : Batch) :
    Prop where
  lin : ∀ n ∈ nexts, Linear n
  nodup : (tasksL nexts).Nodup
  notTp : ∀ x ∈ tasksL nexts, x ∉ Tp
  below : ∀ x ∈ tasksL nexts, x ∈ C.Below
  inT : ∀ x ∈ tasksL nexts, x ∈ tasksS G.tree
  inD : ∀ x ∈ destsL nexts, x ∈ dests G.tree
  coverT : ∀ x ∈ C.T, x ∈ Tp ∨ x ∈ tasksL nexts
  coverD : ∀ x ∈ C.D, x ∈ Dp ∨ x ∈ destsL nexts
  dT : ∀ x ∈ Dp, x ∈ Tp
  binv : BInv sb
  clean : sb.tainted = false
  al : Align G n0 sb
  af : FlagsAF sb


/-- the branches of one fan-out, run one after the other: whatever happens the tally invariant
holds between the branches, and the only new facts are by tasks of the branches about the batch -/
theorem branchesF {G : Ctx} (hs : Src G) (hns : NS G.scripts) {a : Acker} (C : MC G a) (hben : Benign C)
    (hdead : ∀ (s : PS) (j : Nat), C.Dead s j) (Tp Dp : List Nat) (nexts : List TaskNode) (n0 : Nat) (sb : Batch)
    (hst : FanStatic C Tp Dp nexts n0 sb) :
    ∀ (fuel : Nat) (order : List Nat) (errs : Option Err) (pan : Option String) (F : FanCtx) (s s' : PS)
      (r : Except Stop Unit),
      F.m0 = n0 → F.L = sb.pos.length → F.M = nexts.length → F.Tp = Tp → F.Dp = Dp →
      MBet C F s →
      order.Nodup → (∀ k ∈ order, k < nexts.length) → F.t + order.length = F.M →
      (∀ k ∈ order, ∀ n, nexts[k]? = some n →
        Ready G (G.view s) Tp Dp n n0 sb ∧ (∀ x ∈ tasksS n, x ∉ F.brT.flatten)) →
      (∀ (k : Nat) (n : TaskNode), nexts[k]? = some n → k ∉ order →
        (∀ x ∈ tasksS n, x ∈ F.brT.flatten) ∧ (∀ x ∈ destsS n, x ∈ F.brD.flatten)) →
      exec (branches fuel nexts order sb (.multi F.id a) errs pan) s = (r, s') → RP G s' →
      ∃ F' : FanCtx, F'.id = F.id ∧ F'.m0 = n0 ∧ F'.L = F.L ∧ MBet C F' s' ∧
        ExtT (tasksL nexts) (destsL nexts) (InR G n0 sb.pos.length) (G.view s) (G.view s') := by
  intro fuel
  induction fuel with
  | zero =>
    intro order errs pan F s s' r h1 _ _ _ _ hB _ _ _ _ _ h _
    rw [branches] at h; cases h
    exact ⟨F, rfl, h1, rfl, hB, ExtT.refl _ _ _ _⟩
  | succ fuel ih =>
    intro order errs pan F s s' r hm0 hL hM hTp hDp hB hnd hval hcnt hready hstarted h hrp
    cases order with
    | nil =>
      have : s' = s := by
        cases pan with
        | some m => rw [branches] at h; cases h; rfl
        | none =>
          cases errs with
          | some e => rw [branches] at h; cases h; rfl
          | none => rw [branches] at h; cases h; rfl
      subst this
      exact ⟨F, rfl, hm0, rfl, hB, ExtT.refl _ _ _ _⟩
    | cons k rest =>
      rw [branches] at h
      have hkl : k < nexts.length := hval k List.mem_cons_self
      have hk : nexts[k]? = some nexts[k] := List.getElem?_eq_getElem hkl
      generalize hn : nexts[k] = n at hk
      have hnm : n ∈ nexts := List.mem_of_getElem? hk
      rw [hk] at h
      dsimp only at h
      rw [exec_bind, exec_get] at h
      dsimp only at h
      rcases hcl : Batch.clone s.heap sb with ⟨hp, bb⟩
      rw [hcl] at h
      dsimp only at h
      obtain ⟨hbb, hbpos⟩ := clone_BInv s.heap sb hst.binv
      obtain ⟨cst, crecs, _, ctaint⟩ := clone_fields s.heap sb
      rw [hcl] at hbb hbpos cst crecs ctaint
      dsimp only at hbb hbpos cst crecs ctaint
      rw [exec_bind, exec_set] at h
      dsimp only at h
      generalize hs1 : ({ s with heap := hp } : PS) = s1 at h
      have hsame : SameBut (F.id + 1) s s1 := by
        rw [← hs1]; exact ⟨rfl, rfl, rfl, rfl, rfl, rfl, Nat.le_refl _, fun _ _ => rfl⟩
      have hv1 : G.view s1 = G.view s := view_same G s s1 hsame.log
      have hB1 : MBet C F s1 := hB.frame hsame
      -- the child's tasks / destinations
      have hTn : ∀ x ∈ tasksS n, x ∈ tasksL nexts := fun x hx => mem_tasksL.mpr ⟨n, hnm, hx⟩
      have hDn : ∀ x ∈ destsS n, x ∈ destsL nexts := fun x hx => mem_destsL.mpr ⟨n, hnm, hx⟩
      obtain ⟨hrdy, hfreshn⟩ := hready k List.mem_cons_self n hk
      have hrest : rest.Nodup ∧ k ∉ rest := by
        have := List.nodup_cons.mp hnd; exact ⟨this.2, this.1⟩
      have hlt : F.t < F.M := by simp only [List.length_cons] at hcnt; omega
      have hnotT : ∀ x ∈ tasksS n, x ∉ F.Tp ++ F.brT.flatten := by
        intro x hx hm
        rcases List.mem_append.mp hm with h1 | h1
        · rw [hTp] at h1; exact hst.notTp x (hTn x hx) h1
        · exact hfreshn x hx h1
      have hnotD : ∀ x ∈ destsS n, x ∉ F.Dp ++ F.brD.flatten := by
        intro x hx hm
        exact hnotT x (destsS_sub_tasksS n x hx) (hB.dsubs x hm)
      have hcT : F.t + 1 = F.M → ∀ x ∈ C.T, x ∈ F.Tp ++ F.brT.flatten ++ tasksS n := by
        intro hlast x hx
        have hr0 : rest = [] := by
          simp only [List.length_cons] at hcnt
          exact List.length_eq_zero_iff.mp (by omega)
        rcases hst.coverT x hx with h1 | h1
        · exact List.mem_append_left _ (List.mem_append_left _ (by rw [hTp]; exact h1))
        · obtain ⟨n', hn', hx'⟩ := mem_tasksL.mp h1
          obtain ⟨k', hk', hk'e⟩ := List.getElem_of_mem hn'
          by_cases hkk : k' = k
          · subst hkk
            have : n' = n := by rw [← hk'e, hn]
            rw [this] at hx'
            exact List.mem_append_right _ hx'
          · have := hstarted k' n' (by rw [← hk'e]; exact List.getElem?_eq_getElem hk') (by rw [hr0]; simpa using hkk)
            exact List.mem_append_left _ (List.mem_append_right _ (this.1 x hx'))
      have hcD : F.t + 1 = F.M → ∀ x ∈ C.D, x ∈ F.Dp ++ F.brD.flatten ++ destsS n := by
        intro hlast x hx
        have hr0 : rest = [] := by
          simp only [List.length_cons] at hcnt
          exact List.length_eq_zero_iff.mp (by omega)
        rcases hst.coverD x hx with h1 | h1
        · exact List.mem_append_left _ (List.mem_append_left _ (by rw [hDp]; exact h1))
        · obtain ⟨n', hn', hx'⟩ := mem_destsL.mp h1
          obtain ⟨k', hk', hk'e⟩ := List.getElem_of_mem hn'
          by_cases hkk : k' = k
          · subst hkk
            have : n' = n := by rw [← hk'e, hn]
            rw [this] at hx'
            exact List.mem_append_right _ hx'
          · have := hstarted k' n' (by rw [← hk'e]; exact List.getElem?_eq_getElem hk') (by rw [hr0]; simpa using hkk)
            exact List.mem_append_left _ (List.mem_append_right _ (this.2 x hx'))
      have hI1 : MAInv C (F.push (tasksS n) (destsS n)) F.m0 s1 :=
        hB1.start (tasksS n) (destsS n) hlt (fun x hx => hst.below x (hTn x hx)) hnotT hnotD
          (destsS_sub_tasksS n) hcT hcD
      -- the branch, against the contract of its handler chain
      let F' := F.push (tasksS n) (destsS n)
      have hpath : PathF (multiMC C hben hdead hs F') Tp Dp n := by
        refine ⟨?_, ?_, tasksS_nodup_of_tasksL hst.nodup hnm, fun x hx => hst.inT x (hTn x hx),
          fun x hx => hst.inD x (hDn x hx), ?_, fun x hx => hst.notTp x (hTn x hx), hst.dT⟩
        · intro x hx
          have hx' : x ∈ F'.Tp ++ F'.Tcur := hx
          rw [FanCtx.push_Tcur, FanCtx.push_Tp, hTp] at hx'
          exact List.mem_append.mp hx'
        · intro x hx
          have hx' : x ∈ F'.Dp ++ F'.Dcur := hx
          rw [FanCtx.push_Dcur, FanCtx.push_Dp, hDp] at hx'
          exact List.mem_append.mp hx'
        · intro x hx
          show x ∈ F'.Tcur
          rw [FanCtx.push_Tcur]; exact hx
      have hal' : Align G n0 bb := hst.al.congr hbpos crecs
      have haf' : FlagsAF bb := by intro q st hq; rw [cst] at hq; exact hst.af q st hq
      have hrdy1 : Ready G (G.view s1) Tp Dp n n0 bb := by rw [hv1]; exact hrdy.congr cst
      rw [exec_bind, exec_tryCatch, exec_bind] at h
      rcases hd : exec (doTaskAttempt fuel n bb (.run (.multi F.id a)) none false) s1 with ⟨rb, s2⟩
      rw [hd] at h
      -- the rest of the loop only appends to the log
      have hmono : s2.log.toList <+: s'.log.toList := by
        cases rb with
        | ok u => dsimp only at h; rw [exec_pure] at h; dsimp only at h; exact log_mono_branches h
        | error e =>
          dsimp only at h; rw [exec_pure] at h; dsimp only at h
          cases e <;> exact log_mono_branches h
      have hres := pipeF_linear hs hns fuel (.run (.multi F'.id a)) (multiMC C hben hdead hs F') n Tp Dp n0 bb none false
        s1 s2 rb (hst.lin n hnm) trivial hpath (fun hh => nomatch hh) (by rw [← hm0]; exact hI1) hbb
        (by rw [ctaint]; exact hst.clean) hal' haf' hrdy1.facts hrdy1.below hd (hrp.prefix hmono)
      have hI2 : ∃ p, MAInv C F' p s2 := by
        cases rb with
        | ok u => exact ⟨_, hres.ok rfl⟩
        | error e => exact hres.err (fun hh => nomatch hh)
      obtain ⟨p2, hI2⟩ := hI2
      have hB2 : MBet C F' s2 := hI2.finish
      have hext12 : ExtT (tasksL nexts) (destsL nexts) (InR G n0 sb.pos.length) (G.view s) (G.view s2) := by
        have := hres.ext
        rw [hv1, hbpos] at this
        exact this.mono hTn hDn (fun _ hx => hx)
      -- the remaining branches
      have hready' : ∀ k' ∈ rest, ∀ n', nexts[k']? = some n' →
          Ready G (G.view s2) Tp Dp n' n0 sb ∧ (∀ x ∈ tasksS n', x ∉ F'.brT.flatten) := by
        intro k' hk' n' hn'
        obtain ⟨r1, r2⟩ := hready k' (List.mem_cons_of_mem _ hk') n' hn'
        have hne : k ≠ k' := fun he => hrest.2 (he ▸ hk')
        have hdisj := tasksL_disj nexts hst.nodup k k' n n' hk hn' hne
        have hext := hres.ext
        rw [hv1] at hext
        refine ⟨r1.ext hext (fun x hx => ⟨hst.notTp x (hTn x hx), hdisj x hx⟩)
          (fun x hx => ⟨fun hm => hst.notTp x (hTn x (destsS_sub_tasksS n x hx)) (hst.dT x hm),
            fun hm => hdisj x (destsS_sub_tasksS n x hx) (destsS_sub_tasksS n' x hm)⟩), ?_⟩
        intro x hx hm
        have : F'.brT.flatten = F.brT.flatten ++ tasksS n := by simp [F', FanCtx.push]
        rw [this] at hm
        rcases List.mem_append.mp hm with h1 | h1
        · exact r2 x hx h1
        · exact hdisj x h1 hx
      have hstarted' : ∀ (k' : Nat) (n' : TaskNode), nexts[k']? = some n' → k' ∉ rest →
          (∀ x ∈ tasksS n', x ∈ F'.brT.flatten) ∧ (∀ x ∈ destsS n', x ∈ F'.brD.flatten) := by
        intro k' n' hn' hk'
        have e1 : F'.brT.flatten = F.brT.flatten ++ tasksS n := by simp [F', FanCtx.push]
        have e2 : F'.brD.flatten = F.brD.flatten ++ destsS n := by simp [F', FanCtx.push]
        rw [e1, e2]
        by_cases hkk : k' = k
        · subst hkk
          have : n' = n := by rw [hk] at hn'; exact (Option.some.inj hn').symm
          rw [this]
          exact ⟨fun x hx => List.mem_append_right _ hx, fun x hx => List.mem_append_right _ hx⟩
        · have := hstarted k' n' hn' (by simp [hkk, hk'])
          exact ⟨fun x hx => List.mem_append_left _ (this.1 x hx), fun x hx => List.mem_append_left _ (this.2 x hx)⟩
      have hcont : ∀ (errs' : Option Err) (pan' : Option String),
          exec (branches fuel nexts rest sb (.multi F.id a) errs' pan') s2 = (r, s') →
          ∃ F'' : FanCtx, F''.id = F.id ∧ F''.m0 = n0 ∧ F''.L = F.L ∧ MBet C F'' s' ∧
            ExtT (tasksL nexts) (destsL nexts) (InR G n0 sb.pos.length) (G.view s) (G.view s') := by
        intro errs' pan' hx
        obtain ⟨F'', g1, g2, g3, g4, g5⟩ := ih rest errs' pan' F' s2 s' r hm0 hL hM hTp hDp hB2 hrest.1
          (fun k' hk' => hval k' (List.mem_cons_of_mem _ hk'))
          (by simp only [List.length_cons] at hcnt; rw [FanCtx.push_t]; show F.t + 1 + rest.length = F.M; omega)
          hready' hstarted' hx hrp
        exact ⟨F'', g1, g2, g3, g4, hext12.trans g5⟩
      cases rb with
      | ok u =>
        dsimp only at h
        rw [exec_pure] at h
        dsimp only at h
        exact hcont _ _ h
      | error e =>
        dsimp only at h
        rw [exec_pure] at h
        dsimp only at h
        cases e with
        | panic m => dsimp only at h; exact hcont _ _ h
        | err e => dsimp only at h; exact hcont _ _ h


/-! ## the fan-out step under the root handler chain -/

/-- trees in which no fan-out lies below another fan-out -/
inductive Fan1 : TaskNode → Prop
  | mk (id : Nat) (kind : TaskKind) (next : List TaskNode) :
      (next.length ≤ 1 → ∀ n ∈ next, Fan1 n) → (2 ≤ next.length → ∀ n ∈ next, Linear n) → Fan1 (.mk id kind next)

theorem Fan1.child {node : TaskNode} (h : Fan1 node) (hl : node.next.length = 1) : ∀ n ∈ node.next, Fan1 n := by
  cases h with
  | mk id kind next h1 _ => exact h1 (by show next.length ≤ 1; have : next.length = 1 := hl; omega)

theorem Fan1.fan {node : TaskNode} (h : Fan1 node) (hl : 2 ≤ node.next.length) : ∀ n ∈ node.next, Linear n := by
  cases h with
  | mk id kind next _ h2 => exact h2 hl

/-- the contract is the root chain's -/
def IsWorker (G : Ctx) (hs : Src G) : ∀ a, MC G a → Prop :=
  fun a C => (⟨a, C⟩ : (a : Acker) × MC G a) = ⟨.run .worker, workerMC G hs⟩

theorem workerMC_benign (G : Ctx) (hs : Src G) : Benign (workerMC G hs) where
  ackFail := fun fuel sb p s s' r hI hb hsp hal hj h hr => by
    rcases runWorker_exec fuel sb true 0 s s' r hb h with ⟨e, rfl, rfl⟩ | ⟨h0, rfl, rfl⟩ | ⟨_, sb2, e1, e2, e3, hb2, _, hx⟩
    · exact hI
    · exact absurd rfl hr
    · simp only [if_true] at hx
      rcases workerAck_shape hb2 hx with ⟨_, rfl⟩ | ⟨hok, _⟩
      · exact hI
      · exact absurd hok hr

theorem FactsT.fresh_sub {G : Ctx} {v : MV} {T D T' D' Ts Ds Ts' Ds' : List Nat} {nd : Prop} {n0 : Nat} {b : Batch} {i : Nat}
    (h : FactsT G v T D T' D' nd Ts Ds n0 b i) (ht : ∀ x ∈ Ts', x ∈ Ts) (hd : ∀ x ∈ Ds', x ∈ Ds) :
    FactsT G v T D T' D' nd Ts' Ds' n0 b i :=
  ⟨h.ack, h.fil, h.retry, fun q src hq hql hsrc =>
    ⟨fun t ht' => (h.fresh q src hq hql hsrc).1 t (ht t ht'), fun e he hm => (h.fresh q src hq hql hsrc).2 e he (hd _ hm)⟩⟩


/-- the branches of a fan-out under the root chain, from the state in which the tally was created -/
theorem fan_coreF {G : Ctx} (hs : Src G) (hns : NS G.scripts) (fuel : Nat) (node : TaskNode) (T D : List Nat) (n0 : Nat)
    (sb : Batch) (s s' : PS) (r : Except Stop Unit)
    (hg : Fan1 node) (hpath : PathF (workerMC G hs) T D node) (h2 : 2 ≤ node.next.length)
    (hI : WInv G n0 s) (hb : BInv sb) (hcl : sb.tainted = false) (hal : Align G n0 sb) (haf : FlagsAF sb)
    (hfacts : FactsT G (G.view s) T D (T ++ [node.id]) (D ++ own node) (node.kind ≠ .dest)
      (tasksL node.next) (destsL node.next) n0 sb 0)
    (hbelow : WBelowP G n0 (G.view s) (destsL node.next))
    (order : List Nat) (rest : List (List Nat))
    (hord : order.Nodup ∧ (∀ k ∈ order, k < node.next.length) ∧ (∀ k : Nat, k < node.next.length → k ∈ order) ∧
      order.length = node.next.length)
    (ma : MA) (hma : maNew node.next.length sb.pos = .ok ma)
    (h : exec (branches fuel node.next order sb (.multi s.mas.size (.run .worker)) none none)
      { s with mas := s.mas.push ma, orders := rest } = (r, s')) (hrp : RP G s') :
    ∃ F' : FanCtx, F'.m0 = n0 ∧ F'.L = sb.pos.length ∧ MBet (workerMC G hs) F' s' ∧
      ExtT (tasksL node.next) (destsL node.next) (InR G n0 sb.pos.length) (G.view s) (G.view s') := by
  generalize hs1 : ({ s with mas := s.mas.push ma, orders := rest } : PS) = s1 at h
  let C := workerMC G hs
  let F0 : FanCtx := { id := s.mas.size, m0 := n0, L := sb.pos.length, M := node.next.length,
                       Tp := T ++ [node.id], Dp := D ++ own node, brT := [], brD := [] }
  obtain ⟨hmok, _, hv0⟩ := maNew_MOK node.next.length sb.pos ma (by omega) hma
  obtain ⟨hfr, hbr, hpos⟩ := maNew_fresh node.next.length sb.pos ma hma
  have hts := tasksS_own node
  have hds := destsS_own node
  have hidn : node.id ∉ tasksL node.next := by
    have := hpath.nodup; rw [hts] at this; exact (List.nodup_cons.mp this).1
  have hm1 : s1.mas[s.mas.size]! = ma := by rw [← hs1]; exact mas_push_get_size _ _
  have hsame : SameBut 0 s s1 := by
    rw [← hs1]
    exact ⟨rfl, rfl, rfl, rfl, rfl, rfl, by simp, fun i hi => absurd hi (Nat.not_lt_zero _)⟩
  have hv1 : G.view s1 = G.view s := view_same G s s1 hsame.log
  have hI1 : WInv G n0 s1 := hI.same hsame.log hsame.scripts
  have hpl : sb.pos.length = sb.st.length := by rw [hb.wf.1.pos_len, hb.wf.1.st_len]
  have hnoterm : ∀ ix : Nat, ma.term ix = false := by
    intro ix
    simp only [MA.term]
    rw [hfr.2.2.1, List.getElem?_replicate]
    split <;> rfl
  have hB0 : MBet C F0 s1 := by
    refine ⟨hI1.base, by rw [← hs1]; show s.mas.size < (s.mas.push ma).size; simp, by rw [hm1]; exact hmok, by rw [hm1]; exact hbr,
      by rw [hm1, hpos], ?_, ?_, ?_, ?_, ?_, ?_, ?_, ?_, Nat.zero_le _, Nat.zero_le _, rfl, ?_⟩
    · intro ix src hl hsrc
      show kAt (s1.mas[s.mas.size]!) ix = keyR src
      rw [hm1]
      unfold kAt
      rw [hpos]
      have hl' : ix < sb.pos.length := hl
      obtain ⟨src', hsrc', hk⟩ := hal.pos ix _ (List.getElem?_eq_getElem hl')
      have hsrc2 : G.all[n0 + ix]? = some src := hsrc
      rw [hsrc2] at hsrc'
      cases hsrc'
      rw [List.getElem?_eq_getElem hl']
      exact hk
    · intro ix hl
      exact hal.src hl
    · intro ix src hl hsrc _
      show (s1.mas[s.mas.size]!).votes ix ≤ 0 ∧ _
      rw [hm1, hv0 ix]
      refine ⟨Nat.le_refl _, fun _ => ?_⟩
      rw [hv1]
      show VF (G.view s) ((T ++ [node.id]) ++ ([] : List (List Nat)).flatten) ((D ++ own node) ++ ([] : List (List Nat)).flatten) (root src)
      simp only [List.flatten_nil, List.append_nil]
      have hl' : ix < sb.st.length := by rw [← hpl]; exact hl
      have hst := List.getElem?_eq_getElem hl'
      rcases haf ix _ hst with hf | hf
      · exact VF.of_just (Or.inl (hfacts.ack ix _ src (Nat.zero_le _) hst hsrc hf))
      · exact VF.of_just (Or.inr (hfacts.fil ix _ src (Nat.zero_le _) hst hsrc hf))
    · intro ix src _ _ ht
      have : (s1.mas[s.mas.size]!).term ix = true := ht
      rw [hm1, hnoterm ix] at this; cases this
    · intro ix src _ _ ht
      have ht' : (s1.mas[s.mas.size]!).term ix = true ∨ 0 < (s1.mas[s.mas.size]!).votes ix := ht
      rw [hm1, hnoterm ix, hv0 ix] at ht'
      rcases ht' with h1 | h1
      · cases h1
      · omega
    · intro ix hix
      have : ix < (s1.mas[s.mas.size]!).released := hix
      rw [hm1, hfr.1] at this
      omega
    · show (workerMC G hs).InvW (n0 + (s1.mas[s.mas.size]!).released) s1
      rw [hm1, hfr.1]; exact hI1.toWInvW
    · left
      show (workerMC G hs).Inv (n0 + (s1.mas[s.mas.size]!).released) s1
      rw [hm1, hfr.1]; exact hI1
    · intro x hx
      show x ∈ (T ++ [node.id]) ++ ([] : List (List Nat)).flatten
      have hx' : x ∈ (D ++ own node) ++ ([] : List (List Nat)).flatten := hx
      simp only [List.flatten_nil, List.append_nil] at hx' ⊢
      rcases List.mem_append.mp hx' with h1 | h1
      · exact List.mem_append_left _ (hpath.dT x h1)
      · exact List.mem_append_right _ (by rw [own_sub node x h1]; simp)
  have hstat : FanStatic C (T ++ [node.id]) (D ++ own node) node.next n0 sb := by
    refine ⟨hg.fan h2, ?_, ?_, ?_, ?_, ?_, ?_, ?_, ?_, hb, hcl, hal, haf⟩
    · have := hpath.nodup; rw [hts] at this; exact (List.nodup_cons.mp this).2
    · intro x hx hm
      rcases List.mem_append.mp hm with h1 | h1
      · exact hpath.disjT x (by rw [hts]; exact List.mem_cons_of_mem _ hx) h1
      · simp only [List.mem_singleton] at h1; rw [h1] at hx; exact hidn hx
    · intro x hx; exact hpath.below x (by rw [hts]; exact List.mem_cons_of_mem _ hx)
    · intro x hx; exact hpath.inT x (by rw [hts]; exact List.mem_cons_of_mem _ hx)
    · intro x hx; exact hpath.inD x (by rw [hds]; exact List.mem_append_right _ hx)
    · intro x hx
      rcases hpath.coverT x hx with h1 | h1
      · exact Or.inl (List.mem_append_left _ h1)
      · rw [hts] at h1
        rcases List.mem_cons.mp h1 with h2 | h2
        · exact Or.inl (List.mem_append_right _ (by simp [h2]))
        · exact Or.inr h2
    · intro x hx
      rcases hpath.coverD x hx with h1 | h1
      · exact Or.inl (List.mem_append_left _ h1)
      · rw [hds] at h1
        rcases List.mem_append.mp h1 with h2 | h2
        · exact Or.inl (List.mem_append_right _ h2)
        · exact Or.inr h2
    · intro x hx
      rcases List.mem_append.mp hx with h1 | h1
      · exact List.mem_append_left _ (hpath.dT x h1)
      · exact List.mem_append_right _ (by rw [own_sub node x h1]; simp)
  have hready : ∀ k ∈ order, ∀ n, node.next[k]? = some n →
      Ready G (G.view s1) (T ++ [node.id]) (D ++ own node) n n0 sb ∧ (∀ x ∈ tasksS n, x ∉ F0.brT.flatten) := by
    intro k _ n hn
    have hnm : n ∈ node.next := List.mem_of_getElem? hn
    refine ⟨⟨?_, ?_⟩, fun x _ hm => by simp [F0] at hm⟩
    · rw [hv1]
      exact (hfacts.arrive haf).fresh_sub (fun x hx => mem_tasksL.mpr ⟨n, hnm, hx⟩) (fun x hx => mem_destsL.mpr ⟨n, hnm, hx⟩)
    · rw [hv1]
      exact hbelow.sub (fun x hx => mem_destsL.mpr ⟨n, hnm, hx⟩)
  obtain ⟨F', g1, g2, g3, g4, g5⟩ := branchesF hs hns C (workerMC_benign G hs) (fun _ _ => trivial)
    (T ++ [node.id]) (D ++ own node) node.next n0 sb hstat fuel order none none F0 s1 s' r rfl rfl rfl rfl rfl hB0
    hord.1 hord.2.1 (by show 0 + order.length = node.next.length; rw [hord.2.2.2]; omega) hready
    (fun k n hn hk => absurd (hord.2.2.1 k (List.getElem?_eq_some_iff.mp hn).1) hk) h hrp
  refine ⟨F', g2, g3, g4, ?_⟩
  rw [hv1] at g5
  exact g5


/-- `doNextTask` at a fan-out directly under the root handler chain, children without fan-out -/
theorem fanF_worker {G : Ctx} (hs : Src G) (hns : NS G.scripts) (fuel : Nat) : FanF G Fan1 (IsWorker G hs) (fuel+1) := by
  intro a C node T D n0 sb s s' r hg hpc hpath h2 hI hb hcl hal haf hfacts hbelow h hrp
  cases hpc
  have hWI : WInv G n0 s := hI
  -- C04 for this very execution: when it returns without error, exactly the batch was acknowledged
  have hc04 := fan_spec (fun _ => True) (fun _ _ _ _ => trivial) fuel (fun f _ => pipe_nosplit f)
    (.run .worker) workerContract node sb s s' r trivial h2 trivial (hWI.base.ns hns) hb h
  have hfinish : ∀ (F' : FanCtx), F'.m0 = n0 → F'.L = sb.pos.length → MBet (workerMC G hs) F' s' →
      ExtT (tasksL node.next) (destsL node.next) (InR G n0 sb.pos.length) (G.view s) (G.view s') →
      OutC (workerMC G hs) (tasksL node.next) (destsL node.next) n0 sb.pos.length s s' r := by
    intro F' f1 f2 hB hext
    refine ⟨hext, fun hr => ?_, fun _ => hB.base.safe⟩
    have hd := (hc04.2 hr).1
    have hn : nAcked s' = n0 + sb.pos.length := by
      unfold nAcked
      rw [hd, List.length_append]
      have := hWI.front
      unfold nAcked at this
      rw [this]; simp
    have hW := hB.parW
    have hfront : nAcked s' = F'.m0 + (s'.mas[F'.id]!).released := hW.front
    have hrel : (s'.mas[F'.id]!).released = F'.L := by rw [f1] at hfront; rw [f2]; omega
    rcases hB.par with hp | ⟨hp, _⟩
    · have : (workerMC G hs).Inv (F'.m0 + (s'.mas[F'.id]!).released) s' := hp
      rw [hrel, f1, f2] at this
      exact this
    · omega
  rw [doNextTask] at h
  split at h
  · rename_i he; rw [he] at h2; simp at h2
  · rename_i n he; rw [he] at h2; simp at h2
  · rw [exec_bind, exec_get] at h
    dsimp only at h
    have hrw := runsWhole_of_BInv s.heap sb hb
    simp only [hrw, Bool.not_true, Bool.false_eq_true, if_false] at h
    rw [original_of_split_nil hb.split] at h
    cases hma : maNew node.next.length sb.pos with
    | error e =>
      rw [hma] at h
      dsimp only at h
      rw [exec_throw] at h
      cases h
      exact OutC.fail hWI.base.safe
    | ok ma =>
      rw [hma] at h
      dsimp only at h
      rw [exec_bind, exec_set] at h
      dsimp only at h
      cases hso : s.orders with
      | nil =>
        simp only [hso] at h
        obtain ⟨F', f1, f2, f3, f4⟩ := fan_coreF hs hns fuel node T D n0 sb s s' r hg hpath h2 hWI hb hcl hal haf hfacts hbelow
          _ _ (order_perm _ _) ma hma h hrp
        exact hfinish F' f1 f2 f3 f4
      | cons o rest =>
        simp only [hso] at h
        obtain ⟨F', f1, f2, f3, f4⟩ := fan_coreF hs hns fuel node T D n0 sb s s' r hg hpath h2 hWI hb hcl hal haf hfacts hbelow
          _ _ (order_perm _ _) ma hma h hrp
        exact hfinish F' f1 f2 f3 f4

end Conduit.Funnel
