import ConduitModel.Proofs.MonFView

/-!
# Invariants and handler contracts for pipelines with fan-out (no record splitting)

* `Base G s` — what holds of every reachable state: monitor silent, scripts consistent, `written`
  entries well-formed, every attributed fact is by a task / destination of the tree;
* `QStep` — a task step (`procDo` / `destDo`, successful or not) as the handler chains see it;
* `FactsT` — per-record facts of a batch in flight, relative to the tasks / destinations passed;
* `MC G a` — the contract of an ack/nack handler chain `a` against the monitor: a state invariant
  `Inv p s` at a read frontier `p` (strong) / `InvW` (after a failed all-or-nothing call) / `Err`
  (after any failure), stable under task steps of the tasks below (`quiet`), and the specifications
  of an `Ack` (`ack`: the records must be justified for the tasks `T` and destinations `D`) and of a
  `Nack`.
-/
namespace Conduit.Funnel
open Conduit.Funnel.Mon

/-! ## all task ids of a tree -/

mutual
def tasksS : TaskNode → List Nat
  | .mk id _ next => id :: tasksL next
def tasksL : List TaskNode → List Nat
  | [] => []
  | n :: ns => tasksS n ++ tasksL ns
end

theorem tasksS_eq (node : TaskNode) : tasksS node = node.id :: tasksL node.next := by
  cases node with
  | mk id k next => rw [tasksS]; rfl

theorem tasksL_nil : tasksL [] = [] := by rw [tasksL]
theorem tasksL_cons (n : TaskNode) (ns : List TaskNode) : tasksL (n :: ns) = tasksS n ++ tasksL ns := by rw [tasksL]

/-! ## the base invariant -/

structure Base (G : Ctx) (s : PS) : Prop where
  safe : (G.mu s).tv = []
  sc : SC G s
  wr : ∀ e ∈ (G.mu s).written, e.2.1 = e.2.2.1 % 1000
  errIn : ∀ x ∈ G.errT s, x.1 ∈ tasksS G.tree
  wrIn : ∀ e ∈ (G.mu s).written, e.1 ∈ dests G.tree
  /-- for a case without record splitting the remaining scripts are split-free -/
  ns : NS G.scripts → NS s.scripts

/-- popping a reply keeps the scripts split-free -/
theorem NS.pop {scr : List (Nat × List Reply)} (h : NS scr) (t : Nat) : NS (popScripts scr t) := by
  unfold popScripts
  cases hf : scr.find? (·.1 == t) with
  | none => exact h
  | some kv =>
    obtain ⟨k, l⟩ := kv
    cases l with
    | nil => exact h
    | cons r rest =>
      have hmem := List.mem_of_find?_eq_some hf
      intro kv' hkv' rp hrp
      simp only [List.mem_map] at hkv'
      obtain ⟨⟨t', l'⟩, hm, he⟩ := hkv'
      by_cases ht : (t' == t) = true
      · simp only [ht, if_true] at he
        subst he
        exact h _ hmem rp (List.mem_cons_of_mem _ hrp)
      · simp only [ht] at he
        subst he
        exact h _ hm rp hrp

theorem Base.same {G : Ctx} {s s' : PS} (h : Base G s) (hlog : s'.log = s.log) (hscr : s'.scripts = s.scripts) : Base G s' := by
  have hm := mu_same G s s' hlog
  have he := errT_same G s s' hlog
  exact ⟨by rw [hm]; exact h.safe, h.sc.same hlog hscr, by rw [hm]; exact h.wr, by rw [he]; exact h.errIn,
    by rw [hm]; exact h.wrIn, by rw [hscr]; exact h.ns⟩

/-- `ρ` is the root of a record at an index `≥ p` -/
def InRge (G : Ctx) (p : Nat) (ρ : Nat) : Prop := ∃ (j : Nat) (src : Rec), p ≤ j ∧ G.all[j]? = some src ∧ root src = ρ

theorem InR.ge {G : Ctx} {n0 len : Nat} {ρ : Nat} (h : InR G n0 len ρ) : InRge G n0 ρ := by
  obtain ⟨q, src, _, h1, h2⟩ := h
  exact ⟨n0 + q, src, by omega, h1, h2⟩

theorem InRge.not_nonPend {G : Ctx} (hs : Src G) {p : Nat} {ρ : Nat} (h : InRge G p ρ) : ¬ NonPend G p ρ := by
  obtain ⟨j, src, hj, h1, h2⟩ := h
  intro hn
  have := hn.lt hs h1 hj
  omega

/-- A task step of task `t` (a destination iff `isDest`) about roots `R`, as seen by the handler
chains: one `.pcall` / `.write` event, the scripts of `t` popped, tallies untouched, new facts
attributed to `t`. -/
structure QStep (G : Ctx) (t : Nat) (isDest : Bool) (R : Nat → Prop) (s s' : PS) : Prop where
  log : ∃ e, s'.log = s.log.push e ∧ evKeys e = [] ∧ evTask e = some t ∧ ∀ tk i, e ≠ .dlqw tk i
  scripts : s'.scripts = popScripts s.scripts t
  mas : s'.mas = s.mas
  win : s'.win = s.win
  thr : s'.thr = s.thr
  size : s'.size = s.size
  dlqTask : s'.dlqTask = s.dlqTask
  ext : ExtT [t] (if isDest then [t] else []) R (G.view s) (G.view s')
  dlqAny : (G.mu s').dlqAny = (G.mu s).dlqAny
  dlqOk : (G.mu s').dlqOk = (G.mu s).dlqOk

theorem QStep.nAcked_eq {G : Ctx} {t : Nat} {isDest : Bool} {R : Nat → Prop} {s s' : PS} (h : QStep G t isDest R s s') :
    nAcked s' = nAcked s := by
  obtain ⟨e, h1, h2, _⟩ := h.log
  unfold nAcked
  rw [h1, ackedKeys_push, h2, List.append_nil]

theorem QStep.acked_eq {G : Ctx} {t : Nat} {isDest : Bool} {R : Nat → Prop} {s s' : PS} (h : QStep G t isDest R s s') :
    ackedKeys s'.log = ackedKeys s.log := by
  obtain ⟨e, h1, h2, _⟩ := h.log
  rw [h1, ackedKeys_push, h2, List.append_nil]

/-- `s'` differs from `s` at most in the split-run heap, the remaining fan-out orders, and the
tallies from `top` on (more may have been added) -/
structure SameBut (top : Nat) (s s' : PS) : Prop where
  log : s'.log = s.log
  scripts : s'.scripts = s.scripts
  win : s'.win = s.win
  thr : s'.thr = s.thr
  size : s'.size = s.size
  dlqTask : s'.dlqTask = s.dlqTask
  masSize : s.mas.size ≤ s'.mas.size
  mas : ∀ i : Nat, i < top → s'.mas[i]! = s.mas[i]!

/-! ## records in flight -/

/-- What the view `v` knows about the records `q ≥ i` of batch `b` (aligned at `n0`) once the task
of a node has run: `T D` = tasks / destinations passed before the node, `T' D'` = those plus the
node, `nd` = "the node is not a destination", `Ts Ds` = tasks / destinations strictly below the node
(which have not seen the records yet). -/
structure FactsT (G : Ctx) (v : MV) (T D T' D' : List Nat) (nd : Prop) (Ts Ds : List Nat) (n0 : Nat) (b : Batch) (i : Nat) :
    Prop where
  ack : ∀ (q : Nat) (st : Status) (src : Rec), i ≤ q → b.st[q]? = some st → G.all[n0 + q]? = some src →
    st.flag = .ack → ActiveT v T' D' (root src)
  fil : ∀ (q : Nat) (st : Status) (src : Rec), i ≤ q → b.st[q]? = some st → G.all[n0 + q]? = some src →
    st.flag = .filter → FilteredT v T' D' (root src)
  retry : ∀ (q : Nat) (st : Status) (src : Rec), i ≤ q → b.st[q]? = some st → G.all[n0 + q]? = some src →
    st.flag = .retry → ActiveT v T D (root src) ∧ nd ∧ CleanT v T' D' (root src)
  fresh : ∀ (q : Nat) (src : Rec), i ≤ q → q < b.st.length → G.all[n0 + q]? = some src → FreshT v Ts Ds (root src)

/-! ## the contract of a handler chain -/

/-- outcome of a handler call on a batch of `len` records at frontier `p` -/
structure CallOut (G : Ctx) (top : Nat) (Inv InvW : Nat → PS → Prop) (Err : PS → Prop) (Dead : PS → Nat → Prop)
    (p len : Nat) (atomic : Prop) (s s' : PS) (r : Except Stop Unit) : Prop where
  ok : r = .ok () → Inv (p + len) s'
  dead : ∀ j : Nat, Dead s j → Dead s' j
  stutter : atomic → r ≠ .ok () → InvW p s'
  err : r ≠ .ok () → Err s'
  view : ExtT [] [] (fun _ => False) (G.view s) (G.view s')
  masSize : s'.mas.size = s.mas.size
  mas : ∀ i : Nat, top ≤ i → s'.mas[i]! = s.mas[i]!

structure MC (G : Ctx) (a : Acker) where
  top : Nat
  Inv : Nat → PS → Prop
  InvW : Nat → PS → Prop
  Err : PS → Prop
  /-- tasks / destinations an acknowledged record must be justified for -/
  T : List Nat
  D : List Nat
  /-- tasks that may run while this chain waits -/
  Below : List Nat
  /-- the record at absolute index `j` has been nacked through this chain: whatever a branch still
  does with it is of no consequence -/
  Dead : PS → Nat → Prop
  inv_w : ∀ {p s}, Inv p s → InvW p s
  w_err : ∀ {p s}, InvW p s → Err s
  err_safe : ∀ {s}, Err s → (G.mu s).tv = []
  base : ∀ {p s}, Inv p s → Base G s
  baseW : ∀ {p s}, InvW p s → Base G s
  top_le : ∀ {p s}, InvW p s → top ≤ s.mas.size
  quiet : ∀ {p s s' t isDest R}, Inv p s → QStep G t isDest R s s' → t ∈ Below →
    (∀ x, R x → ∀ (j : Nat) (src : Rec), j < p → G.all[j]? = some src → root src = x → Dead s j) →
    Base G s' → Inv p s'
  quietW : ∀ {p s s' t isDest R}, InvW p s → QStep G t isDest R s s' → t ∈ Below →
    (∀ x, R x → ∀ (j : Nat) (src : Rec), j < p → G.all[j]? = some src → root src = x → Dead s j) →
    Base G s' → InvW p s'
  frame : ∀ {p s s'}, Inv p s → SameBut top s s' → Inv p s'
  frameW : ∀ {p s s'}, InvW p s → SameBut top s s' → InvW p s'
  dead_quiet : ∀ {s s' t isDest R j}, Dead s j → QStep G t isDest R s s' → Dead s' j
  dead_frame : ∀ {s s' j}, Dead s j → SameBut top s s' → Dead s' j
  ack : ∀ (fuel : Nat) (sb : Batch) (p : Nat) (s s' : PS) (r : Except Stop Unit),
    Inv p s → BOK sb → sb.split = [] → Align G p sb →
    (∀ (q : Nat) (src : Rec), q < sb.pos.length → G.all[p + q]? = some src →
      ActiveT (G.view s) T D (root src) ∨ FilteredT (G.view s) T D (root src)) →
    exec (ackerCall fuel a sb true 0) s = (r, s') →
    CallOut G top Inv InvW Err Dead p sb.pos.length False s s' r
  nack : ∀ (fuel : Nat) (sb : Batch) (task p : Nat) (s s' : PS) (r : Except Stop Unit),
    InvW p s → BOK sb → sb.split = [] → NackOK sb → Align G p sb → 0 < sb.pos.length →
    exec (ackerCall fuel a sb false task) s = (r, s') →
    CallOut G top Inv InvW Err Dead p sb.pos.length (sb.pos.length ≤ 1) s s' r ∧
    (r = .ok () → ∀ q : Nat, q < sb.pos.length → Dead s' (p + q))

end Conduit.Funnel
