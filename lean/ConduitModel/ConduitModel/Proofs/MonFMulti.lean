import ConduitModel.Proofs.MonFRelease
import ConduitModel.Proofs.MonFRun

/-!
# The contract of `runAckNacker(multiAckNacker(id, a))` for the running branch of a fan-out

Built over a parent chain `a` whose contract `C` is benign (a failed `Ack` leaves its invariant
intact): the root chain `runAckNacker(Worker)`.
-/
namespace Conduit.Funnel
open Conduit.Funnel.Mon

/-- going back over slots that are terminal and not acked -/
theorem TI.back {G : Ctx} {F : FanCtx} {v : MV} {p len : Nat} {m : MA} (h : TI G F v (p + len) m) (hp : F.m0 ≤ p)
    (hn : ∀ q : Nat, q < len → m.term (p - F.m0 + q) = true ∧ m.ack (p - F.m0 + q) = false) : TI G F v p m := by
  have hcase : ∀ ix : Nat, p ≤ F.m0 + ix → F.m0 + ix < p + len → m.term ix = true ∧ m.ack ix = false := by
    intro ix h1 h2
    have := hn (F.m0 + ix - p) (by omega)
    rw [show p - F.m0 + (F.m0 + ix - p) = ix by omega] at this
    exact this
  refine ⟨h.mok, h.br, h.len, h.keys, ?_, ?_, ?_, h.lin, h.rel⟩
  · intro ix src hl hsrc ht hlt
    exact h.lo ix src hl hsrc ht (by omega)
  · intro ix src hl hsrc ht hge
    by_cases hc : F.m0 + ix < p + len
    · have := (hcase ix hge hc).1
      rw [ht] at this; cases this
    · exact h.hi ix src hl hsrc ht (by omega)
  · intro ix src hl hsrc ht ha
    obtain ⟨h1, h2, h3⟩ := h.acked ix src hl hsrc ht ha
    refine ⟨?_, h2, h3⟩
    by_cases hc : p ≤ F.m0 + ix
    · have := (hcase ix hc h1).2
      rw [ha] at this; cases this
    · omega

/-- dead for the chain of the running branch: nacked through the parent chain (records before the
fan-out batch), or terminal and not acked in the tally -/
def MDead {G : Ctx} {a : Acker} (C : MC G a) (F : FanCtx) (s : PS) (j : Nat) : Prop :=
  (j < F.m0 → C.Dead s j) ∧
  (F.m0 ≤ j → j < F.m0 + F.L → (s.mas[F.id]!).term (j - F.m0) = true ∧ (s.mas[F.id]!).ack (j - F.m0) = false)


theorem MDead.frame {G : Ctx} {a : Acker} {C : MC G a} {F : FanCtx} {s s' : PS} {j : Nat} (h : MDead C F s j)
    (hm : s'.mas[F.id]! = s.mas[F.id]!) (hd : ∀ j, C.Dead s j → C.Dead s' j) : MDead C F s' j :=
  ⟨fun hj => hd j (h.1 hj), fun h1 h2 => by rw [hm]; exact h.2 h1 h2⟩

/-- outcome of a call of the running branch's chain -/
structure MCall {G : Ctx} {a : Acker} (C : MC G a) (F : FanCtx) (p len : Nat) (isAck : Bool) (s s' : PS)
    (r : Except Stop Unit) : Prop where
  ok : r = .ok () → MAInv C F (p + len) s'
  some : ∃ q, MAInv C F q s'
  stutter : isAck = false → len ≤ 1 → r ≠ .ok () → MAInv C F p s'
  view : ExtT [] [] (fun _ => False) (G.view s) (G.view s')
  masSize : s'.mas.size = s.mas.size
  mas : ∀ i : Nat, F.id + 1 ≤ i → s'.mas[i]! = s.mas[i]!
  dead : ∀ j : Nat, MDead C F s j → MDead C F s' j
  nacked : isAck = false → r = .ok () → ∀ q : Nat, q < len → MDead C F s' (p + q)

theorem MCall.same {G : Ctx} {a : Acker} {C : MC G a} {F : FanCtx} {p len : Nat} {isAck : Bool} {s : PS} {e : Stop}
    (h : MAInv C F p s) : MCall C F p len isAck s s (.error e) :=
  ⟨(fun hr => nomatch hr), ⟨p, h⟩, fun _ _ _ => h, ExtT.refl _ _ _ _, rfl, fun _ _ => rfl, fun _ hj => hj,
    fun _ hr => nomatch hr⟩

/-- `runAckNacker(multiAckNacker).Ack/Nack` of the running branch on a batch at its frontier -/
theorem multiCallF {G : Ctx} {a : Acker} (C : MC G a) (hben : Benign C) (hs : Src G) (F : FanCtx)
    (fuel : Nat) (sb : Batch) (isAck : Bool) (task p : Nat) (s s' : PS) (r : Except Stop Unit)
    (hI : MAInv C F p s) (hb : BOK sb) (hsp : sb.split = []) (hal : Align G p sb)
    (hj : isAck = true → ∀ (q : Nat) (src : Rec), q < sb.pos.length → G.all[p + q]? = some src →
      ActiveT (G.view s) (F.Tp ++ F.Tcur) (F.Dp ++ F.Dcur) (root src) ∨
      FilteredT (G.view s) (F.Tp ++ F.Tcur) (F.Dp ++ F.Dcur) (root src))
    (hn : isAck = false → NackOK sb)
    (h : exec (ackerCall fuel (.run (.multi F.id a)) sb isAck task) s = (r, s')) :
    MCall C F p sb.pos.length isAck s s' r := by
  rcases run_exec (.multi F.id a) fuel sb isAck task s s' r hb h with ⟨e, rfl, rfl⟩ | ⟨h0, rfl, rfl⟩ |
    ⟨_, f, sb2, e1, e2, e3, hb2, hsp2, hx⟩
  · exact MCall.same hI
  · have hp : sb.pos.length = 0 := by rw [hb.pos_len]; exact h0
    rw [hp]
    exact ⟨fun _ => hI, ⟨p, hI⟩, fun _ _ hr => absurd rfl hr, ExtT.refl _ _ _ _, rfl, fun _ _ => rfl, fun _ hj => hj,
      fun _ _ q hq => absurd hq (Nat.not_lt_zero _)⟩
  · rw [← e3]
    have hal2 : Align G p sb2 := hal.congr e3 e1
    have hob : sb2.original = sb2 := original_of_split_nil (hsp2 hsp)
    cases f with
    | zero => rw [ackerCall] at hx; cases hx; exact MCall.same hI
    | succ f =>
      rw [ackerCall_multi, exec_bind, exec_get] at hx
      dsimp only at hx
      rw [hob, exec_bind] at hx
      rcases hv : exec (forIn (List.range sb2.pos.length) (s.mas[F.id]!) (voteBody F.id sb2 isAck task)) s with ⟨rv, sv⟩
      rw [hv] at hx
      obtain ⟨hsv, hvote⟩ := voteLoopF hs hI.ti ⟨hI.tpos.1, hI.tpos.2.1⟩ hI.front.1 hI.front.2 sb2 isAck task hb2 hal2
        (fun ha q src hq hsrc => VF.of_just (hj ha q src (by rw [← e3]; exact hq) hsrc))
        (fun ha => by unfold NackOK; rw [e2]; exact hn ha) s F.id rv sv hv
      -- writing a (partially) voted tally back
      have hset : ∀ (m' : MA) (s1 : PS), ({ s with mas := s.mas.set! F.id m' } : PS) = s1 →
          m'.released = (s.mas[F.id]!).released →
          (∀ ix : Nat, (s.mas[F.id]!).term ix = true → m'.term ix = true ∧ m'.ack ix = (s.mas[F.id]!).ack ix) →
          s1.mas[F.id]! = m' ∧ s1.mas.size = s.mas.size ∧ (∀ i : Nat, i ≠ F.id → s1.mas[i]! = s.mas[i]!) ∧
          SameBut C.top s s1 ∧ G.view s1 = G.view s ∧
          ∀ (q : Nat), TI G F (G.view s) q m' → F.m0 ≤ q → q ≤ F.m0 + F.L → MAInv C F q s1 := by
        intro m' s1 hs1 hrel hfro
        have hm1 : s1.mas[F.id]! = m' := by rw [← hs1]; exact set!_get _ _ _ hI.hid
        have hsz1 : s1.mas.size = s.mas.size := by rw [← hs1]; simp [Array.set!]
        have hoth : ∀ i : Nat, i ≠ F.id → s1.mas[i]! = s.mas[i]! := by
          intro i hi; rw [← hs1]; exact (set!_other s.mas F.id i _ (Ne.symm hi)).2
        have hsame : SameBut C.top s s1 := by
          refine ⟨by rw [← hs1], by rw [← hs1], by rw [← hs1], by rw [← hs1], by rw [← hs1], by rw [← hs1],
            by rw [hsz1]; exact Nat.le_refl _, fun i hi => hoth i (by have := hI.top; omega)⟩
        have hview1 : G.view s1 = G.view s := view_same (G := G) s s1 (by rw [← hs1])
        refine ⟨hm1, hsz1, hoth, hsame, hview1, ?_⟩
        intro q htq h1 h2
        refine ⟨hI.base.same (by rw [← hs1]) (by rw [← hs1]), by rw [hsz1]; exact hI.hid, by rw [hm1, hview1]; exact htq,
          hI.srcs, by rw [hm1, hrel]; exact C.frameW hI.parW hsame, ?_, ⟨h1, h2⟩, hI.tpos, hI.top, hI.below, hI.disjT,
          hI.disjD, hI.dsub, hI.coverT, hI.coverD, hI.ddp⟩
        rw [hm1, hrel]
        rcases hI.par with hp | ⟨hp1, hp2, hp3⟩
        · exact Or.inl (C.frame hp hsame)
        · obtain ⟨k1, k2⟩ := hfro _ hp2
          exact Or.inr ⟨hp1, k1, by rw [k2]; exact hp3⟩
      cases rv with
      | error e =>
        dsimp only at hx
        cases hx
        rcases hsv with hsv | ⟨_, j, m', hjl, hsv, q1, q2, q3, q4⟩
        · rw [hsv]; exact MCall.same hI
        · obtain ⟨hm1, hsz1, hoth, hsame, hview1, hI1⟩ := hset m' _ hsv.symm q2 q4
          refine ⟨(fun hr => nomatch hr), ⟨p + j, hI1 _ q1 (by have := hI.front.1; omega) q3⟩, ?_, ?_, hsz1,
            fun i hi => hoth i (by omega), ?_, fun _ hr => nomatch hr⟩
          · intro _ hl _
            have hj0 : j = 0 := by omega
            subst hj0
            exact hI1 p q1 hI.front.1 hI.front.2
          · rw [hview1]; exact ExtT.refl _ _ _ _
          · intro i hjd
            refine ⟨fun hlt => C.dead_frame (hjd.1 hlt) hsame, fun h1 h2 => ?_⟩
            obtain ⟨k1, k2⟩ := hjd.2 h1 h2
            obtain ⟨k3, k4⟩ := q4 _ k1
            rw [hm1]
            exact ⟨k3, by rw [k4]; exact k2⟩
      | ok m' =>
        dsimp only at hx
        obtain ⟨hsv', hti, hrel, hle, hnk, hfro⟩ := hvote m' rfl
        rw [hsv'] at hx
        rw [exec_bind, exec_modify] at hx
        dsimp only at hx
        generalize hs1 : ({ s with mas := s.mas.set! F.id m' } : PS) = s1 at hx
        obtain ⟨hm1, hsz1, hoth, hsame, hview1, hI1⟩ := hset m' s1 hs1 hrel hfro
        have hIa := hI1 (p + sb2.pos.length) hti (by have := hI.front.1; omega) hle
        obtain ⟨g1, g2, g3, g4, g5, g6⟩ := releaseF C hben C.baseW hs F f (p + sb2.pos.length) s1 s' r hIa hx
        have hterm : ∀ ix : Nat, (s1.mas[F.id]!).term ix = (s'.mas[F.id]!).term ix ∧
            (s1.mas[F.id]!).ack ix = (s'.mas[F.id]!).ack ix := by
          intro ix; rw [g5]; exact ⟨rfl, rfl⟩
        refine ⟨fun _ => g1, ⟨_, g1⟩, ?_, ?_, by rw [g3, hsz1], ?_, ?_, ?_⟩
        · intro ha hl _
          have hback : TI G F (G.view s) p m' := hti.back hI.front.1 (hnk ha)
          have hIp := hI1 p hback hI.front.1 hI.front.2
          obtain ⟨k1, _⟩ := releaseF C hben C.baseW hs F f p s1 s' r hIp hx
          exact k1
        · rw [hview1] at g2; exact g2
        · intro i hi
          rw [g4 i hi, hoth i (by omega)]
        · intro j hjd
          refine ⟨fun hlt => g6 j (C.dead_frame (hjd.1 hlt) hsame), fun h1 h2 => ?_⟩
          obtain ⟨k1, k2⟩ := hjd.2 h1 h2
          obtain ⟨k3, k4⟩ := hfro _ k1
          rw [← (hterm _).1, ← (hterm _).2, hm1]
          exact ⟨k3, by rw [k4]; exact k2⟩
        · intro ha _ q hq
          refine ⟨fun hlt => by have := hI.front.1; omega, fun h1 h2 => ?_⟩
          have := hnk ha q hq
          rw [← (hterm _).1, ← (hterm _).2, hm1, show p + q - F.m0 = p - F.m0 + q by have := hI.front.1; omega]
          exact this


/-- a task step of the running branch keeps the tally invariant -/
theorem MAInv.quiet {G : Ctx} {a : Acker} {C : MC G a} {F : FanCtx} {p : Nat} {s s' : PS} {t : Nat} {isDest : Bool}
    {R : Nat → Prop} (h : MAInv C F p s) (hq : QStep G t isDest R s s') (ht : t ∈ F.Tcur)
    (hR : ∀ x, R x → ∀ (j : Nat) (src : Rec), j < p → G.all[j]? = some src → root src = x → MDead C F s j)
    (hdead : ∀ (s : PS) (j : Nat), C.Dead s j) (hB : Base G s') : MAInv C F p s' := by
  have hm : s'.mas[F.id]! = s.mas[F.id]! := by rw [hq.mas]
  have hnotT : ∀ x ∈ [t], x ∉ F.TTp := fun x hx => by
    simp only [List.mem_singleton] at hx; rw [hx]; exact h.disjT t ht
  have hnotD : ∀ x ∈ (if isDest then [t] else []), x ∉ F.DDp := by
    intro x hx hm'
    have hxt : x = t := by
      cases isDest
      · simp at hx
      · simpa using hx
    rw [hxt] at hm'
    -- a destination of the earlier branches is a task of the earlier branches
    exact h.disjT t ht (h.ddp t hm')
  have hRpar : ∀ x, R x → ∀ (j : Nat) (src : Rec), j < F.m0 + (s.mas[F.id]!).released → G.all[j]? = some src →
      root src = x → C.Dead s j := fun _ _ j _ _ _ _ => hdead s j
  refine ⟨hB, by rw [hq.mas]; exact h.hid, ?_, h.srcs, by rw [hm]; exact C.quietW h.parW hq (h.below t ht) hRpar hB, ?_,
    h.front, h.tpos, h.top, h.below, h.disjT, h.disjD, h.dsub, h.coverT, h.coverD, h.ddp⟩
  · -- the tally against the new view
    rw [hm]
    have ti := h.ti
    refine ⟨ti.mok, ti.br, ti.len, ti.keys, ?_, ?_, ?_, ti.lin, ti.rel⟩
    · intro ix src hl hsrc hterm hlt
      obtain ⟨h1, h2⟩ := ti.lo ix src hl hsrc hterm hlt
      refine ⟨h1, fun hv => (h2 hv).ext hq.ext (Or.inl fun hr => ?_)⟩
      have := (hR _ hr _ src hlt hsrc rfl).2 (by omega) (by omega)
      rw [show F.m0 + ix - F.m0 = ix by omega, hterm] at this
      exact absurd this.1 (by simp)
    · intro ix src hl hsrc hterm hge
      obtain ⟨h1, h2⟩ := ti.hi ix src hl hsrc hterm hge
      exact ⟨h1, fun hv => (h2 hv).ext hq.ext (Or.inr ⟨hnotT, hnotD⟩)⟩
    · intro ix src hl hsrc hterm hack
      obtain ⟨h1, h2, h3⟩ := ti.acked ix src hl hsrc hterm hack
      refine ⟨h1, h2, fun hrel => (h3 hrel).ext hq.ext (Or.inl fun hr => ?_)⟩
      have := (hR _ hr _ src h1 hsrc rfl).2 (by omega) (by omega)
      rw [show F.m0 + ix - F.m0 = ix by omega, hack] at this
      exact absurd this.2 (by simp)
  · rw [hm]
    rcases h.par with hp | hp
    · exact Or.inl (C.quiet hp hq (h.below t ht) hRpar hB)
    · exact Or.inr hp


/-- The contract of the handler chain `runAckNacker(multiAckNacker(F.id, a))` that the running branch
of a fan-out sees: an acknowledgement must be justified for the tasks / destinations above the
fan-out and of the running branch. -/
def multiMC {G : Ctx} {a : Acker} (C : MC G a) (hben : Benign C) (hdead : ∀ (s : PS) (j : Nat), C.Dead s j) (hs : Src G)
    (F : FanCtx) : MC G (.run (.multi F.id a)) where
  top := F.id + 1
  Inv := MAInv C F
  InvW := MAInv C F
  Err := fun s => ∃ p, MAInv C F p s
  T := F.Tp ++ F.Tcur
  D := F.Dp ++ F.Dcur
  Below := F.Tcur
  Dead := MDead C F
  inv_w := fun h => h
  w_err := fun h => ⟨_, h⟩
  err_safe := fun h => by obtain ⟨_, h⟩ := h; exact h.base.safe
  base := fun h => h.base
  baseW := fun h => h.base
  top_le := fun h => h.hid
  quiet := fun h hq ht hR hB => h.quiet hq ht hR hdead hB
  quietW := fun h hq ht hR hB => h.quiet hq ht hR hdead hB
  frame := fun h hf => h.frame hf
  frameW := fun h hf => h.frame hf
  dead_quiet := fun h hq => h.frame (by rw [hq.mas]) (fun j _ => hdead _ j)
  dead_frame := fun h hf => h.frame (hf.mas _ (Nat.lt_succ_self _)) (fun j _ => hdead _ j)
  ack := fun fuel sb p s s' r hI hb hsp hal hj h => by
    have mc := multiCallF C hben hs F fuel sb true 0 p s s' r hI hb hsp hal (fun _ => hj) (fun hh => nomatch hh) h
    exact ⟨mc.ok, mc.dead, fun hf => hf.elim, fun _ => mc.some, mc.view, mc.masSize, mc.mas⟩
  nack := fun fuel sb task p s s' r hI hb hsp hn hal _ h => by
    have mc := multiCallF C hben hs F fuel sb false task p s s' r hI hb hsp hal (fun hh => nomatch hh) (fun _ => hn) h
    exact ⟨⟨mc.ok, mc.dead, mc.stutter rfl, fun _ => mc.some, mc.view, mc.masSize, mc.mas⟩, mc.nacked rfl⟩

end Conduit.Funnel
