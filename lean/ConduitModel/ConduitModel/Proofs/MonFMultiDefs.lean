import ConduitModel.Proofs.MonFWorker
import ConduitModel.Proofs.PassMulti

/-!
# The invariant of a fan-out tally (`multiAckNacker`) against the monitor: definitions

One fan-out invocation: the batch has `L` records, the records `m0 … m0+L-1` read; `M` branches run
one after the other; `F.brT` / `F.brD` list the tasks / destinations of the branches started so
far (the last one is running). `TI` is the pure part (tally vs. monitor view), `MAInv` adds the
parent handler's invariant.
-/
namespace Conduit.Funnel
open Conduit.Funnel.Mon

structure FanCtx where
  id : Nat
  m0 : Nat
  L : Nat
  M : Nat
  /-- tasks / destinations the records were justified for when the fan-out was entered -/
  Tp : List Nat
  Dp : List Nat
  /-- tasks / destinations of the branches started so far, in start order; the last one is running -/
  brT : List (List Nat)
  brD : List (List Nat)

namespace FanCtx
/-- number of branches started -/
def t (F : FanCtx) : Nat := F.brT.length
def Tcur (F : FanCtx) : List Nat := F.brT.getLast?.getD []
def Dcur (F : FanCtx) : List Nat := F.brD.getLast?.getD []
/-- tasks above the fan-out and of the branches that ran before the current one -/
def TTp (F : FanCtx) : List Nat := F.Tp ++ F.brT.dropLast.flatten
def DDp (F : FanCtx) : List Nat := F.Dp ++ F.brD.dropLast.flatten
def TT (F : FanCtx) : List Nat := F.TTp ++ F.Tcur
def DD (F : FanCtx) : List Nat := F.DDp ++ F.Dcur
/-- the context of the next branch -/
def push (F : FanCtx) (T D : List Nat) : FanCtx := { F with brT := F.brT ++ [T], brD := F.brD ++ [D] }
end FanCtx

/-- every destination of `Dl` has a write of `ρ`, or `ρ` was filtered -/
def Cover (v : MV) (Dl : List Nat) (ρ : Nat) : Prop := ∀ d ∈ Dl, WrittenTo v.μ d ρ ∨ ρ ∈ v.μ.filtered

/-- what an ack vote asserts about a record: clean for the tasks `Tl` / destinations `Dl`, and
covered for `Dl` -/
def VF (v : MV) (Tl Dl : List Nat) (ρ : Nat) : Prop := CleanT v Tl Dl ρ ∧ Cover v Dl ρ

/-- the tally `m` against the view `v`, for the running branch at frontier `p` -/
structure TI (G : Ctx) (F : FanCtx) (v : MV) (p : Nat) (m : MA) : Prop where
  mok : MOK m
  br : m.branches = F.M
  len : m.positions.length = F.L
  keys : ∀ (ix : Nat) (src : Rec), ix < F.L → G.all[F.m0 + ix]? = some src → kAt m ix = keyR src
  /-- not terminal, already handed over by the running branch -/
  lo : ∀ (ix : Nat) (src : Rec), ix < F.L → G.all[F.m0 + ix]? = some src → m.term ix = false → F.m0 + ix < p →
    m.votes ix ≤ F.t ∧ (m.votes ix = F.t → VF v F.TT F.DD (root src))
  /-- not terminal, not yet handed over by the running branch -/
  hi : ∀ (ix : Nat) (src : Rec), ix < F.L → G.all[F.m0 + ix]? = some src → m.term ix = false → p ≤ F.m0 + ix →
    m.votes ix + 1 ≤ F.t ∧ (m.votes ix + 1 = F.t → VF v F.TTp F.DDp (root src))
  /-- acked by every branch -/
  acked : ∀ (ix : Nat) (src : Rec), ix < F.L → G.all[F.m0 + ix]? = some src → m.term ix = true → m.ack ix = true →
    F.m0 + ix < p ∧ F.t = F.M ∧ (m.released ≤ ix → VF v F.TT F.DD (root src))
  /-- lineage of the stored records -/
  lin : ∀ (ix : Nat) (src : Rec), ix < F.L → G.all[F.m0 + ix]? = some src → (m.term ix = true ∨ 0 < m.votes ix) →
    root (m.record[ix]?.getD default) = root src
  /-- what has been released was terminal -/
  rel : ∀ ix : Nat, ix < m.released → m.term ix = true

/-- the invariant of the handler chain `runAckNacker(multiAckNacker(id, a))` of the running branch -/
structure MAInv {G : Ctx} {a : Acker} (C : MC G a) (F : FanCtx) (p : Nat) (s : PS) : Prop where
  base : Base G s
  hid : F.id < s.mas.size
  ti : TI G F (G.view s) p (s.mas[F.id]!)
  srcs : ∀ ix : Nat, ix < F.L → ∃ src, G.all[F.m0 + ix]? = some src
  parW : C.InvW (F.m0 + (s.mas[F.id]!).released) s
  par : C.Inv (F.m0 + (s.mas[F.id]!).released) s ∨
    ((s.mas[F.id]!).released < F.L ∧ (s.mas[F.id]!).term (s.mas[F.id]!).released = true ∧
      (s.mas[F.id]!).ack (s.mas[F.id]!).released = false)
  front : F.m0 ≤ p ∧ p ≤ F.m0 + F.L
  tpos : 0 < F.t ∧ F.t ≤ F.M ∧ F.brD.length = F.t
  top : C.top ≤ F.id
  below : ∀ x ∈ F.Tcur, x ∈ C.Below
  disjT : ∀ x ∈ F.Tcur, x ∉ F.TTp
  disjD : ∀ x ∈ F.Dcur, x ∉ F.DDp
  dsub : ∀ x ∈ F.Dcur, x ∈ F.Tcur
  coverT : F.t = F.M → ∀ x ∈ C.T, x ∈ F.TT
  coverD : F.t = F.M → ∀ x ∈ C.D, x ∈ F.DD
  /-- destinations of the earlier branches are tasks of the earlier branches -/
  ddp : ∀ x ∈ F.DDp, x ∈ F.TTp

/-- a failed `Ack` through the chain leaves its strong invariant intact -/
structure Benign {G : Ctx} {a : Acker} (C : MC G a) : Prop where
  ackFail : ∀ (fuel : Nat) (sb : Batch) (p : Nat) (s s' : PS) (r : Except Stop Unit),
    C.Inv p s → BOK sb → sb.split = [] → Align G p sb →
    (∀ (q : Nat) (src : Rec), q < sb.pos.length → G.all[p + q]? = some src →
      ActiveT (G.view s) C.T C.D (root src) ∨ FilteredT (G.view s) C.T C.D (root src)) →
    exec (ackerCall fuel a sb true 0) s = (r, s') → r ≠ .ok () → C.Inv p s'

end Conduit.Funnel
