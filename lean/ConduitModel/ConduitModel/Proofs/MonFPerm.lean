import ConduitModel.Proofs.MonView

/-!
# A list of length `M` containing `0 … M-1` is a permutation of them (no duplicates, nothing else)
-/
namespace Conduit.Funnel

theorem perm_of_covers (M : Nat) (o : List Nat) (hlen : o.length = M) (hall : ∀ k : Nat, k < M → k ∈ o) :
    o.Nodup ∧ ∀ k ∈ o, k < M := by
  have h1 : List.range M ⊆ (o.eraseDups).filter (· < M) := by
    intro x hx
    rw [List.mem_range] at hx
    rw [List.mem_filter]
    exact ⟨List.mem_eraseDups.mpr (hall x hx), by simpa using hx⟩
  have h2 := List.nodup_range.length_le_of_subset h1
  simp only [List.length_range] at h2
  have h3 : ((o.eraseDups).filter (· < M)).length ≤ (o.eraseDups).length := List.length_filter_le _ _
  have h4 : (o.eraseDups).length ≤ o.length := eraseDups_length_le _ o (Nat.le_refl _)
  have h5 : (o.eraseDups).length = o.length := by omega
  have h6 : ((o.eraseDups).filter (· < M)).length = (o.eraseDups).length := by omega
  refine ⟨nodup_of_eraseDups_length _ o (Nat.le_refl _) h5, ?_⟩
  intro k hk
  have := List.length_filter_eq_length_iff.mp h6 k (List.mem_eraseDups.mpr hk)
  simpa using this

/-- the branch order `doNextTask` actually uses -/
theorem order_perm (n : Nat) (o : List Nat) :
    (if (o.length == n) = true ∧ ((List.range n).all fun x => o.contains x) = true then o else List.range n).Nodup ∧
    (∀ k ∈ (if (o.length == n) = true ∧ ((List.range n).all fun x => o.contains x) = true then o else List.range n), k < n) ∧
    (∀ k : Nat, k < n → k ∈ (if (o.length == n) = true ∧ ((List.range n).all fun x => o.contains x) = true then o else List.range n)) ∧
    (if (o.length == n) = true ∧ ((List.range n).all fun x => o.contains x) = true then o else List.range n).length = n := by
  split
  · rename_i hc
    obtain ⟨hl, hall⟩ := hc
    have hl' : o.length = n := by simpa using hl
    have hall' : ∀ x, x < n → x ∈ o := by
      intro x hx
      have := List.all_eq_true.mp hall x (List.mem_range.mpr hx)
      simpa using this
    obtain ⟨h1, h2⟩ := perm_of_covers n o hl' hall'
    exact ⟨h1, h2, hall', hl'⟩
  · exact ⟨List.nodup_range, fun k hk => List.mem_range.mp hk, fun k hk => List.mem_range.mpr hk, List.length_range⟩

end Conduit.Funnel
