import ConduitModel.Proofs.MonFInv
import ConduitModel.Proofs.MonFProc
import ConduitModel.Proofs.MonFDest
import ConduitModel.Proofs.MonPipe

/-!
# The task recursion against a handler contract (`MC`): any tree, no record splitting

`pipeF_all`: for every handler chain `a` with a contract `C : MC G a`, a batch in flight that
satisfies the arrival facts at a node is processed without the monitor ever firing; when the
recursion returns `.ok` the contract's invariant holds with the frontier advanced by the batch, and
the only new facts are by tasks of the subtree about roots of the batch; when it fails the
contract's error invariant holds. The fan-out case is a parameter (`FanF`).
-/
namespace Conduit.Funnel
open Conduit.Funnel.Mon

/-! ## outcome against a contract -/

structure OutC {G : Ctx} {a : Acker} (C : MC G a) (Ts Ds : List Nat) (p len : Nat) (s s' : PS) (r : Except Stop Unit) : Prop where
  ext : ExtT Ts Ds (InR G p len) (G.view s) (G.view s')
  ok : r = .ok () → C.Inv (p + len) s'
  err : r ≠ .ok () → C.Err s'

theorem OutC.fail {G : Ctx} {a : Acker} {C : MC G a} {Ts Ds : List Nat} {p len : Nat} {s : PS} {e : Stop}
    (h : C.Err s) : OutC C Ts Ds p len s s (.error e) :=
  ⟨ExtT.refl _ _ _ _, (fun hr => nomatch hr), (fun _ => h)⟩

/-- every written entry to a destination of `Ds` is of a record before the frontier `p` -/
def WBelowP (G : Ctx) (p : Nat) (v : MV) (Ds : List Nat) : Prop :=
  ∀ e ∈ v.μ.written, e.1 ∈ Ds → NonPend G p e.2.1

theorem WBelowP.out {G : Ctx} {v v' : MV} {Ds Ts' Ds' : List Nat} {p len : Nat} (h : WBelowP G p v Ds)
    (he : ExtT Ts' Ds' (InR G p len) v v') : WBelowP G (p + len) v' Ds := by
  intro e he' hsub
  rcases he.wr_new e he' with h1 | ⟨_, h1⟩
  · exact (h e h1 hsub).mono (by omega)
  · exact h1.nonPend

theorem WBelowP.sub {G : Ctx} {v : MV} {Ds Ds' : List Nat} {p : Nat} (h : WBelowP G p v Ds) (hs : ∀ x ∈ Ds', x ∈ Ds) :
    WBelowP G p v Ds' := fun e he hm => h e he (hs _ hm)

/-- destination ids are task ids -/
theorem dests_sub_tasks : ∀ (n : Nat) (node : TaskNode), sizeOf node ≤ n → ∀ x ∈ dests node, x ∈ tasksS node := by
  intro n
  induction n with
  | zero => intro node h; cases node; simp at h
  | succ n ih =>
    intro node hn x hx
    cases node with
    | mk id k next =>
      rw [dests] at hx
      rw [tasksS]
      rcases List.mem_append.mp hx with h1 | h1
      · split at h1
        · simp at h1; rw [h1]; exact List.mem_cons_self
        · cases h1
      · refine List.mem_cons_of_mem _ ?_
        have key : ∀ (l : List TaskNode), sizeOf l ≤ n → ∀ x ∈ destsL l, x ∈ tasksL l := by
          intro l
          induction l with
          | nil => intro _ x hx; rw [destsL_nil] at hx; cases hx
          | cons c cs ihl =>
            intro hl x hx
            rw [destsL_cons] at hx
            rw [tasksL]
            simp only [List.cons.sizeOf_spec] at hl
            rcases List.mem_append.mp hx with h2 | h2
            · exact List.mem_append_left _ (ih c (by omega) x h2)
            · exact List.mem_append_right _ (ihl (by omega) x h2)
        simp only [TaskNode.mk.sizeOf_spec] at hn
        exact key next (by omega) x h1

theorem destsS_sub_tasksS (node : TaskNode) : ∀ x ∈ destsS node, x ∈ tasksS node :=
  dests_sub_tasks _ node (Nat.le_refl _)


/-! ## the specifications -/

/-- the position of `node` relative to the contract `C`: `T D` = tasks / destinations passed -/
structure PathF {G : Ctx} {a : Acker} (C : MC G a) (T D : List Nat) (node : TaskNode) : Prop where
  coverT : ∀ x ∈ C.T, x ∈ T ∨ x ∈ tasksS node
  coverD : ∀ x ∈ C.D, x ∈ D ∨ x ∈ destsS node
  nodup : (tasksS node).Nodup
  inT : ∀ x ∈ tasksS node, x ∈ tasksS G.tree
  inD : ∀ x ∈ destsS node, x ∈ dests G.tree
  below : ∀ x ∈ tasksS node, x ∈ C.Below
  disjT : ∀ x ∈ tasksS node, x ∉ T
  dT : ∀ x ∈ D, x ∈ T

/-- `doTaskAttempt` on a batch arriving at `node` -/
def PipeF (G : Ctx) (Good : TaskNode → Prop) (P : ∀ a, MC G a → Prop) (fuel : Nat) : Prop :=
  ∀ (a : Acker) (C : MC G a) (node : TaskNode) (T D : List Nat) (n0 : Nat) (b : Batch) (retry : Option RetryAttempt)
    (skipDo : Bool) (s s' : PS) (r : Except Stop Unit),
    Good node → P a C → PathF C T D node → (skipDo = true → node.kind = .source) →
    C.Inv n0 s → BInv b → b.tainted = false → Align G n0 b → FlagsAF b →
    FactsT G (G.view s) T D T D True (tasksS node) (destsS node) n0 b 0 → WBelowP G n0 (G.view s) (destsS node) →
    exec (doTaskAttempt fuel node b a retry skipDo) s = (r, s') → RP G s' →
    OutC C (tasksS node) (destsS node) n0 b.pos.length s s' r

/-- the tainted loop of `node` from index `i` -/
def TaintF (G : Ctx) (Good : TaskNode → Prop) (P : ∀ a, MC G a → Prop) (fuel : Nat) : Prop :=
  ∀ (a : Acker) (C : MC G a) (node : TaskNode) (T D : List Nat) (n0 : Nat) (b : Batch) (retry : Option RetryAttempt)
    (i : Nat) (s s' : PS) (r : Except Stop Unit),
    Good node → P a C → PathF C T D node →
    C.Inv (n0 + i) s → BInv b → Align G n0 b →
    FactsT G (G.view s) T D (T ++ [node.id]) (D ++ own node) (node.kind ≠ .dest) (tasksL node.next) (destsL node.next) n0 b i →
    WBelowP G (n0 + i) (G.view s) (destsL node.next) →
    exec (taintedLoop fuel node b a retry i) s = (r, s') → RP G s' →
    OutC C (tasksS node) (destsS node) (n0 + i) (b.pos.length - i) s s' r

/-- `doNextTask` of `node` on a group of kept / filtered records -/
def NextF (G : Ctx) (Good : TaskNode → Prop) (P : ∀ a, MC G a → Prop) (fuel : Nat) : Prop :=
  ∀ (a : Acker) (C : MC G a) (node : TaskNode) (T D : List Nat) (n0 : Nat) (sb : Batch) (s s' : PS) (r : Except Stop Unit),
    Good node → P a C → PathF C T D node → node.next ≠ [] →
    C.Inv n0 s → BInv sb → sb.tainted = false → Align G n0 sb → FlagsAF sb →
    FactsT G (G.view s) T D (T ++ [node.id]) (D ++ own node) (node.kind ≠ .dest) (tasksL node.next) (destsL node.next) n0 sb 0 →
    WBelowP G n0 (G.view s) (destsL node.next) →
    exec (doNextTask fuel node sb a) s = (r, s') → RP G s' →
    OutC C (tasksL node.next) (destsL node.next) n0 sb.pos.length s s' r

/-- `doNextTask` at a fan-out -/
def FanF (G : Ctx) (Good : TaskNode → Prop) (P : ∀ a, MC G a → Prop) (fuel : Nat) : Prop :=
  ∀ (a : Acker) (C : MC G a) (node : TaskNode) (T D : List Nat) (n0 : Nat) (sb : Batch) (s s' : PS) (r : Except Stop Unit),
    Good node → P a C → PathF C T D node → 2 ≤ node.next.length →
    C.Inv n0 s → BInv sb → sb.tainted = false → Align G n0 sb → FlagsAF sb →
    FactsT G (G.view s) T D (T ++ [node.id]) (D ++ own node) (node.kind ≠ .dest) (tasksL node.next) (destsL node.next) n0 sb 0 →
    WBelowP G n0 (G.view s) (destsL node.next) →
    exec (doNextTask fuel node sb a) s = (r, s') → RP G s' →
    OutC C (tasksL node.next) (destsL node.next) n0 sb.pos.length s s' r

/-! ## facts under frames -/

theorem FactsT.ext {G : Ctx} {v v' : MV} {T D T' D' Ts Ds Tx Dx : List Nat} {nd : Prop} {n0 : Nat} {b : Batch} {i : Nat}
    {R : Nat → Prop} (h : FactsT G v T D T' D' nd Ts Ds n0 b i) (he : ExtT Tx Dx R v v')
    (hr : ∀ (q : Nat) (src : Rec), i ≤ q → q < b.st.length → G.all[n0 + q]? = some src → ¬ R (root src)) :
    FactsT G v' T D T' D' nd Ts Ds n0 b i := by
  have hlt : ∀ (q : Nat) (st : Status), b.st[q]? = some st → q < b.st.length :=
    fun q st h => (List.getElem?_eq_some_iff.mp h).1
  refine ⟨?_, ?_, ?_, ?_⟩
  · intro q st src hq hst hsrc hf
    exact (h.ack q st src hq hst hsrc hf).ext he (Or.inl (hr q src hq (hlt q st hst) hsrc))
  · intro q st src hq hst hsrc hf
    exact (h.fil q st src hq hst hsrc hf).ext he (Or.inl (hr q src hq (hlt q st hst) hsrc))
  · intro q st src hq hst hsrc hf
    obtain ⟨h1, h2, h3⟩ := h.retry q st src hq hst hsrc hf
    have hn := hr q src hq (hlt q st hst) hsrc
    exact ⟨h1.ext he (Or.inl hn), h2, h3.ext he (Or.inl hn)⟩
  · intro q src hq hql hsrc
    exact (h.fresh q src hq hql hsrc).ext he (Or.inl (hr q src hq hql hsrc))

theorem FactsT.mono_idx {G : Ctx} {v : MV} {T D T' D' Ts Ds : List Nat} {nd : Prop} {n0 : Nat} {b : Batch} {i j : Nat}
    (h : FactsT G v T D T' D' nd Ts Ds n0 b i) (hij : i ≤ j) : FactsT G v T D T' D' nd Ts Ds n0 b j :=
  ⟨fun q st src hq => h.ack q st src (by omega), fun q st src hq => h.fil q st src (by omega),
   fun q st src hq => h.retry q st src (by omega), fun q src hq => h.fresh q src (by omega)⟩

theorem FactsT.imp_nd {G : Ctx} {v : MV} {T D T' D' Ts Ds : List Nat} {nd nd' : Prop} {n0 : Nat} {b : Batch} {i : Nat}
    (h : FactsT G v T D T' D' nd Ts Ds n0 b i) (hi : nd → nd') : FactsT G v T D T' D' nd' Ts Ds n0 b i :=
  ⟨h.ack, h.fil, fun q st src hq hst hsrc hf =>
    ⟨(h.retry q st src hq hst hsrc hf).1, hi (h.retry q st src hq hst hsrc hf).2.1, (h.retry q st src hq hst hsrc hf).2.2⟩,
   h.fresh⟩

/-- the facts of a group of kept / filtered records, as arrival facts for what is below -/
theorem FactsT.arrive {G : Ctx} {v : MV} {T D T' D' Ts Ds : List Nat} {nd : Prop} {n0 : Nat} {b : Batch}
    (h : FactsT G v T D T' D' nd Ts Ds n0 b 0) (haf : FlagsAF b) : FactsT G v T' D' T' D' True Ts Ds n0 b 0 :=
  ⟨h.ack, h.fil, (fun q st _ _ hst _ hf => by rcases haf q st hst with h1 | h1 <;> rw [h1] at hf <;> cases hf), h.fresh⟩

/-- the facts of a sub-batch `[i, j)` -/
theorem FactsT.sub {G : Ctx} {v : MV} {T D T' D' Ts Ds : List Nat} {nd : Prop} {n0 : Nat} {b sb : Batch} {i j : Nat}
    (h : FactsT G v T D T' D' nd Ts Ds n0 b i) (hst : sb.st = (b.st.take j).drop i) :
    FactsT G v T D T' D' nd Ts Ds (n0 + i) sb 0 := by
  have key : ∀ (q : Nat) (st : Status), sb.st[q]? = some st → b.st[i + q]? = some st := by
    intro q st hq
    rw [hst, List.getElem?_drop, List.getElem?_take] at hq
    split at hq
    · exact hq
    · cases hq
  refine ⟨?_, ?_, ?_, ?_⟩
  · intro q st src _ hq hsrc hf
    exact h.ack (i + q) st src (by omega) (key q st hq) (by rw [← Nat.add_assoc]; exact hsrc) hf
  · intro q st src _ hq hsrc hf
    exact h.fil (i + q) st src (by omega) (key q st hq) (by rw [← Nat.add_assoc]; exact hsrc) hf
  · intro q st src _ hq hsrc hf
    exact h.retry (i + q) st src (by omega) (key q st hq) (by rw [← Nat.add_assoc]; exact hsrc) hf
  · intro q src _ hq hsrc
    have hq' : i + q < b.st.length := by
      have := (List.getElem?_eq_some_iff.mp (key q _ (List.getElem?_eq_getElem hq))).1
      exact this
    exact h.fresh (i + q) src (by omega) hq' (by rw [← Nat.add_assoc]; exact hsrc)


/-! ## a group of kept / filtered records: ack it, or hand it to the next task -/

theorem tasksS_own (node : TaskNode) : tasksS node = node.id :: tasksL node.next := tasksS_eq node

theorem own_sub (node : TaskNode) : ∀ x ∈ own node, x = node.id := by
  intro x hx
  unfold own at hx
  split at hx
  · simpa using hx
  · cases hx

/-- the justification the contract asks for, from the facts of a group of `ack` / `filter` statuses:
at a leaf, and at any node when all of them are filtered -/
theorem justF {G : Ctx} {a : Acker} {C : MC G a} {node : TaskNode} {T D : List Nat} {v : MV} {nd : Prop} {m : Nat} {sb : Batch}
    (hpath : PathF C T D node) (hb : BInv sb)
    (hfacts : FactsT G v T D (T ++ [node.id]) (D ++ own node) nd (tasksL node.next) (destsL node.next) m sb 0)
    (haf : FlagsAF sb)
    (hleaf : node.next = [] ∨ ∀ (q : Nat) (st : Status), sb.st[q]? = some st → st.flag = .filter) :
    ∀ (q : Nat) (src : Rec), q < sb.pos.length → G.all[m + q]? = some src →
      ActiveT v C.T C.D (root src) ∨ FilteredT v C.T C.D (root src) := by
  intro q src hq hsrc
  have hlen : sb.pos.length = sb.st.length := by rw [hb.wf.1.pos_len, hb.wf.1.st_len]
  have hlt : q < sb.st.length := by omega
  have hst := List.getElem?_eq_getElem hlt
  have hfr := hfacts.fresh q src (Nat.zero_le _) hlt hsrc
  have hTsub : ∀ x ∈ C.T, x ∈ (T ++ [node.id]) ++ tasksL node.next := by
    intro x hx
    rcases hpath.coverT x hx with h1 | h1
    · exact List.mem_append_left _ (List.mem_append_left _ h1)
    · rw [tasksS_own] at h1
      rcases List.mem_cons.mp h1 with h2 | h2
      · exact List.mem_append_left _ (List.mem_append_right _ (by simp [h2]))
      · exact List.mem_append_right _ h2
  have hDsub : ∀ x ∈ C.D, x ∈ (D ++ own node) ++ destsL node.next := by
    intro x hx
    rcases hpath.coverD x hx with h1 | h1
    · exact List.mem_append_left _ (List.mem_append_left _ h1)
    · rw [destsS_own] at h1
      rcases List.mem_append.mp h1 with h2 | h2
      · exact List.mem_append_left _ (List.mem_append_right _ h2)
      · exact List.mem_append_right _ h2
  rcases hleaf with hl | hl
  · rcases haf q _ hst with hfl | hfl
    · have ha := hfacts.ack q _ src (Nat.zero_le _) hst hsrc hfl
      left
      refine ⟨(ha.1.fresh hfr).mono hTsub hDsub, fun d hd => ?_⟩
      have := hDsub d hd
      rw [hl, destsL_nil, List.append_nil] at this
      exact ha.2 d this
    · have ha := hfacts.fil q _ src (Nat.zero_le _) hst hsrc hfl
      right
      exact ⟨(ha.1.fresh hfr).mono hTsub hDsub, ha.2⟩
  · have hfl := hl q _ hst
    have ha := hfacts.fil q _ src (Nat.zero_le _) hst hsrc hfl
    right
    exact ⟨(ha.1.fresh hfr).mono hTsub hDsub, ha.2⟩

theorem ExtT.none_mono {Ts Ds : List Nat} {R : Nat → Prop} {v v' : MV} (h : ExtT [] [] (fun _ => False) v v') :
    ExtT Ts Ds R v v' := h.mono (fun _ hx => nomatch hx) (fun _ hx => nomatch hx) (fun _ hf => hf.elim)

theorem grpF_step {G : Ctx} {Good : TaskNode → Prop} {P : ∀ a, MC G a → Prop} (fuel : Nat) (hN : NextF G Good P fuel)
    {a : Acker} {C : MC G a} {node : TaskNode} {T D : List Nat}
    {m : Nat} {sb : Batch} {s s' : PS} {r : Except Stop Unit}
    (hg : Good node) (hpc : P a C) (hpath : PathF C T D node)
    (hI : C.Inv m s) (hb : BInv sb) (hcl : sb.tainted = false) (hal : Align G m sb) (haf : FlagsAF sb)
    (hfacts : FactsT G (G.view s) T D (T ++ [node.id]) (D ++ own node) (node.kind ≠ .dest)
      (tasksL node.next) (destsL node.next) m sb 0)
    (hbelow : WBelowP G m (G.view s) (destsL node.next))
    (h : exec (if (node.next.isEmpty || !sb.hasActive) = true then ackerCall fuel a sb true 0
              else doNextTask fuel node sb a) s = (r, s')) (hrp : RP G s') :
    OutC C (tasksL node.next) (destsL node.next) m sb.pos.length s s' r := by
  by_cases hc : (node.next.isEmpty || !sb.hasActive) = true
  · simp only [hc, if_true] at h
    have hleaf : node.next = [] ∨ ∀ (q : Nat) (st : Status), sb.st[q]? = some st → st.flag = .filter := by
      rw [Bool.or_eq_true] at hc
      rcases hc with hc | hc
      · left; simpa using hc
      · right; exact all_filter_of_not_hasActive hb (by simpa using hc)
    have co := C.ack fuel sb m s s' r hI hb.bok hb.split hal (justF hpath hb hfacts haf hleaf) h
    exact ⟨co.view.none_mono, co.ok, co.err⟩
  · simp only [hc] at h
    have hne : node.next ≠ [] := by
      intro he; apply hc; rw [he]; rfl
    exact hN a C node T D m sb s s' r hg hpc hpath hne hI hb hcl hal haf hfacts hbelow h hrp

/-! ## one more unit of fuel -/

theorem tasksL_single (n : TaskNode) : tasksL [n] = tasksS n := by rw [tasksL_cons, tasksL_nil, List.append_nil]

theorem next_stepF {G : Ctx} {Good : TaskNode → Prop} {P : ∀ a, MC G a → Prop}
    (hchild : ∀ node, Good node → node.next.length = 1 → ∀ n ∈ node.next, Good n)
    (fuel : Nat) (hP : PipeF G Good P fuel) (hfan : FanF G Good P (fuel+1)) : NextF G Good P (fuel+1) := by
  intro a C node T D n0 sb s s' r hg hpc hpath hne hI hb hcl hal haf hfacts hbelow h hrp
  cases hnx : node.next with
  | nil => exact absurd hnx hne
  | cons n rest =>
    cases rest with
    | cons n2 rest2 =>
      rw [← hnx]
      exact hfan a C node T D n0 sb s s' r hg hpc hpath (by rw [hnx]; simp) hI hb hcl hal haf hfacts hbelow h hrp
    | nil =>
      rw [doNextTask] at h
      simp only [hnx] at h
      have hts : tasksS node = node.id :: tasksS n := by rw [tasksS_own, hnx, tasksL_single]
      have hds : destsS node = own node ++ destsS n := by rw [destsS_own, hnx, destsL_single]
      have hpath' : PathF C (T ++ [node.id]) (D ++ own node) n := by
        refine ⟨?_, ?_, ?_, ?_, ?_, ?_, ?_, ?_⟩
        · intro x hx
          rcases hpath.coverT x hx with h1 | h1
          · exact Or.inl (List.mem_append_left _ h1)
          · rw [hts] at h1
            rcases List.mem_cons.mp h1 with h2 | h2
            · exact Or.inl (List.mem_append_right _ (by simp [h2]))
            · exact Or.inr h2
        · intro x hx
          rcases hpath.coverD x hx with h1 | h1
          · exact Or.inl (List.mem_append_left _ h1)
          · rw [hds] at h1
            rcases List.mem_append.mp h1 with h2 | h2
            · exact Or.inl (List.mem_append_right _ h2)
            · exact Or.inr h2
        · have := hpath.nodup
          rw [hts] at this
          exact (List.nodup_cons.mp this).2
        · intro x hx; exact hpath.inT x (by rw [hts]; exact List.mem_cons_of_mem _ hx)
        · intro x hx; exact hpath.inD x (by rw [hds]; exact List.mem_append_right _ hx)
        · intro x hx; exact hpath.below x (by rw [hts]; exact List.mem_cons_of_mem _ hx)
        · intro x hx hm
          rcases List.mem_append.mp hm with h1 | h1
          · exact hpath.disjT x (by rw [hts]; exact List.mem_cons_of_mem _ hx) h1
          · have hnd := hpath.nodup
            rw [hts] at hnd
            simp only [List.mem_singleton] at h1
            rw [h1] at hx
            exact (List.nodup_cons.mp hnd).1 hx
        · intro x hx
          rcases List.mem_append.mp hx with h1 | h1
          · exact List.mem_append_left _ (hpath.dT x h1)
          · exact List.mem_append_right _ (by rw [own_sub node x h1]; simp)
      rw [tasksL_single, destsL_single]
      rw [hnx, tasksL_single, destsL_single] at hfacts
      rw [hnx, destsL_single] at hbelow
      exact hP a C n (T ++ [node.id]) (D ++ own node) n0 sb none false s s' r
        (hchild node hg (by rw [hnx]; rfl) n (by rw [hnx]; simp)) hpc hpath'
        (fun hh => nomatch hh) hI hb hcl hal haf (hfacts.arrive haf) hbelow h hrp


theorem destsL_sub_tasksL : ∀ (l : List TaskNode) (x : Nat), x ∈ destsL l → x ∈ tasksL l := by
  intro l
  induction l with
  | nil => intro x hx; rw [destsL_nil] at hx; cases hx
  | cons c cs ih =>
    intro x hx
    rw [destsL_cons] at hx
    rw [tasksL_cons]
    rcases List.mem_append.mp hx with h | h
    · exact List.mem_append_left _ (destsS_sub_tasksS c x h)
    · exact List.mem_append_right _ (ih x h)

theorem OutC.trans_pre {G : Ctx} {a : Acker} {C : MC G a} {Ts Ds Ts1 Ds1 Ts2 Ds2 : List Nat} {n0 len : Nat} {s s1 s' : PS}
    {r : Except Stop Unit} (he : ExtT Ts1 Ds1 (InR G n0 len) (G.view s) (G.view s1))
    (h : OutC C Ts2 Ds2 n0 len s1 s' r) (h1 : ∀ x ∈ Ts1, x ∈ Ts) (h2 : ∀ x ∈ Ds1, x ∈ Ds)
    (h3 : ∀ x ∈ Ts2, x ∈ Ts) (h4 : ∀ x ∈ Ds2, x ∈ Ds) : OutC C Ts Ds n0 len s s' r :=
  ⟨(he.mono h1 h2 (fun _ hx => hx)).trans (h.ext.mono h3 h4 (fun _ hx => hx)), h.ok, h.err⟩

theorem OutC.mono {G : Ctx} {a : Acker} {C : MC G a} {Ts Ds Ts2 Ds2 : List Nat} {n0 len : Nat} {s s' : PS}
    {r : Except Stop Unit} (h : OutC C Ts2 Ds2 n0 len s s' r)
    (h3 : ∀ x ∈ Ts2, x ∈ Ts) (h4 : ∀ x ∈ Ds2, x ∈ Ds) : OutC C Ts Ds n0 len s s' r :=
  ⟨h.ext.mono h3 h4 (fun _ hx => hx), h.ok, h.err⟩

/-- a failure after a step that only added facts about the batch -/
theorem OutC.fail_ext {G : Ctx} {a : Acker} {C : MC G a} {Ts Ds : List Nat} {p len : Nat} {s s' : PS} {e : Stop}
    (he : ExtT Ts Ds (InR G p len) (G.view s) (G.view s')) (h : C.Err s') : OutC C Ts Ds p len s s' (.error e) :=
  ⟨he, (fun hr => nomatch hr), (fun _ => h)⟩

theorem dta_stepF {G : Ctx} {Good : TaskNode → Prop} {P : ∀ a, MC G a → Prop} (hs : Src G) (hns : NS G.scripts) (fuel : Nat)
    (hN : NextF G Good P fuel) (hT : TaintF G Good P fuel) :
    PipeF G Good P (fuel+1) := by
  intro a C node T D n0 b retry skipDo s s' r hg hpc hpath hskip hI hb hcl hal haf hfacts hbelow h hrp
  rw [doTaskAttempt] at h
  have hts := tasksS_own node
  have hds := destsS_own node
  have hidn : node.id ∉ tasksL node.next := by
    have := hpath.nodup; rw [hts] at this; exact (List.nodup_cons.mp this).1
  have hsubT : ∀ x ∈ tasksL node.next, x ∈ tasksS node := fun x hx => by rw [hts]; exact List.mem_cons_of_mem _ hx
  have hsubD : ∀ x ∈ destsL node.next, x ∈ destsS node := fun x hx => by rw [hds]; exact List.mem_append_right _ hx
  have hownD : ∀ x ∈ own node, x ∈ destsS node := fun x hx => by rw [hds]; exact List.mem_append_left _ hx
  have hidT : ∀ x ∈ [node.id], x ∈ tasksS node := fun x hx => by
    rw [hts]; simp only [List.mem_singleton] at hx; rw [hx]; exact List.mem_cons_self
  -- what happens once the task of the node has run
  have hF : ∀ (b1 : Batch) (s1 : PS), C.Inv n0 s1 → BInv b1 → b1.pos = b.pos → Align G n0 b1 →
      FactsT G (G.view s1) T D (T ++ [node.id]) (D ++ own node) (node.kind ≠ .dest)
        (tasksL node.next) (destsL node.next) n0 b1 0 → (b1.tainted = false → FlagsAF b1) →
      WBelowP G n0 (G.view s1) (destsL node.next) →
      exec (if (!b1.tainted) = true then
              if (node.next.isEmpty || !b1.hasActive) = true then ackerCall fuel a b1 true 0
              else doNextTask fuel node b1 a
            else taintedLoop fuel node b1 a retry 0) s1 = (r, s') →
      OutC C (tasksS node) (destsS node) n0 b.pos.length s1 s' r := by
    intro b1 s1 hI1 hb1 hpos hal1 hfacts1 haf1 hbelow1 h
    rw [← hpos]
    by_cases ht : (!b1.tainted) = true
    · simp only [ht, if_true] at h
      have hcl1 : b1.tainted = false := by simpa using ht
      exact (grpF_step fuel hN hg hpc hpath hI1 hb1 hcl1 hal1 (haf1 hcl1) hfacts1 hbelow1 h hrp).mono hsubT hsubD
    · simp only [ht] at h
      have := hT a C node T D n0 b1 retry 0 s1 s' r hg hpc hpath (by simpa using hI1) hb1 hal1 hfacts1 (by simpa using hbelow1) h hrp
      simpa using this
  cases skipDo with
  | true =>
    simp only [if_true] at h
    rw [exec_bind, exec_pure] at h
    have hk := hskip rfl
    have hown : own node = [] := by unfold own; rw [hk]; rfl
    have hnd : node.kind ≠ .dest := by rw [hk]; exact fun hh => nomatch hh
    refine hF b s hI hb rfl hal ?_ (fun _ => haf) (hbelow.sub hsubD) h
    rw [hown, List.append_nil]
    have hfr1 : ∀ (q : Nat) (src : Rec), q < b.st.length → G.all[n0 + q]? = some src → FreshT (G.view s) [node.id] [] (root src) := by
      intro q src hq hsrc
      have := hfacts.fresh q src (Nat.zero_le _) hq hsrc
      exact ⟨fun t ht => this.1 t (hidT t ht), fun e _ hm => nomatch hm⟩
    have hlt : ∀ (q : Nat) (st : Status), b.st[q]? = some st → q < b.st.length :=
      fun q st h => (List.getElem?_eq_some_iff.mp h).1
    refine ⟨?_, ?_, ?_, ?_⟩
    · intro q st src _ hst hsrc hf
      have ha := hfacts.ack q st src (Nat.zero_le _) hst hsrc hf
      have := ha.1.fresh (hfr1 q src (hlt q st hst) hsrc)
      rw [List.append_nil] at this
      exact ⟨this, ha.2⟩
    · intro q st src _ hst hsrc hf
      have ha := hfacts.fil q st src (Nat.zero_le _) hst hsrc hf
      have := ha.1.fresh (hfr1 q src (hlt q st hst) hsrc)
      rw [List.append_nil] at this
      exact ⟨this, ha.2⟩
    · intro q st src _ hst _ hf
      rcases haf q st hst with h1 | h1 <;> rw [h1] at hf <;> cases hf
    · intro q src _ hq hsrc
      have := hfacts.fresh q src (Nat.zero_le _) hq hsrc
      exact ⟨fun t ht => this.1 t (hsubT t ht), fun e he hm => this.2 e he (hsubD _ hm)⟩
  | false =>
    simp only [Bool.false_eq_true, if_false] at h
    rw [exec_bind, exec_tryCatch] at h
    rcases ht : exec (taskDo node b) s with ⟨r1, s1⟩
    rw [ht] at h
    have hmono : s1.log.toList <+: s'.log.toList := by
      cases r1 with
      | error e => cases e <;> simp only [exec_throw] at h <;> cases h <;> exact List.prefix_refl _
      | ok b1 =>
        dsimp only at h
        by_cases ht1 : (!b1.tainted) = true
        · simp only [ht1, if_true] at h
          by_cases hc : (node.next.isEmpty || !b1.hasActive) = true
          · simp only [hc, if_true] at h; exact log_mono_acker h
          · simp only [hc] at h; exact log_mono_next h
        · simp only [ht1] at h; exact log_mono_taint h
    have hrp1 : RP G s1 := hrp.prefix hmono
    have hB := C.base hI
    -- the task itself: a quiet step, and the facts for the returned batch
    have hD : C.Inv n0 s1 ∧ ExtT [node.id] (own node) (InR G n0 b.pos.length) (G.view s) (G.view s1) ∧
        ∀ b1, r1 = .ok b1 →
          BInv b1 ∧ b1.pos = b.pos ∧ Align G n0 b1 ∧
          FactsT G (G.view s1) T D (T ++ [node.id]) (D ++ own node) (node.kind ≠ .dest)
            (tasksL node.next) (destsL node.next) n0 b1 0 ∧
          (b1.tainted = false → FlagsAF b1) := by
      unfold taskDo at ht
      cases hk : node.kind with
      | proc =>
        rw [hk] at ht
        have hown : own node = [] := by unfold own; rw [hk]; rfl
        have hfacts' : FactsT G (G.view s) T D T D True (node.id :: tasksL node.next) (destsS node) n0 b 0 := by
          rw [← hts]; exact hfacts
        obtain ⟨g1, g2, g3⟩ := procDo_monF hs hns hB hb hcl hal haf hfacts' (hpath.inT _ (hidT _ (List.mem_singleton.mpr rfl)))
          hidn ht hrp1
        refine ⟨C.quiet hI g2 (hpath.below _ (hidT _ (List.mem_singleton.mpr rfl))) (fun x hx j src hj hsrc hr => absurd hx (by rw [← hr]; exact fun hin => hin.disjoint hs (⟨0, src, Nat.lt_succ_self 0, by simpa using hsrc, rfl⟩ : InR G j 1 (root src)) (Or.inr (by omega)))) g1, ?_, ?_⟩
        · rw [hown]; exact g2.ext
        · intro b1 hb1
          obtain ⟨a3, a4, a5, a7, a8⟩ := g3 b1 hb1
          refine ⟨a3, a4, a5, ?_, a8⟩
          rw [hown, List.append_nil]
          have : destsS node = destsL node.next := by rw [hds, hown, List.nil_append]
          rw [this] at a7
          exact a7.imp_nd (fun _ hh => nomatch hh)
      | dest =>
        rw [hk] at ht
        have hown : own node = [node.id] := by unfold own; rw [hk]; rfl
        have hdsd : destsS node = node.id :: destsL node.next := by rw [hds, hown]; rfl
        have hfacts' : FactsT G (G.view s) T D T D True (node.id :: tasksL node.next) (node.id :: destsL node.next) n0 b 0 := by
          rw [← hts, ← hdsd]; exact hfacts
        have hidd : node.id ∉ destsL node.next := fun hm => hidn (destsL_sub_tasksL _ _ hm)
        have hb0 : ∀ e ∈ (G.mu s).written, e.1 = node.id → NonPend G n0 e.2.1 := by
          intro e he hm
          exact hbelow e he (by rw [hdsd, hm]; exact List.mem_cons_self)
        obtain ⟨g1, g2, g3⟩ := destDo_monF hs hB hb hcl hal haf hfacts' hb0
          (hpath.inT _ (hidT _ (List.mem_singleton.mpr rfl))) (hpath.inD _ (by rw [hdsd]; exact List.mem_cons_self)) hidn hidd ht
        refine ⟨C.quiet hI g2 (hpath.below _ (hidT _ (List.mem_singleton.mpr rfl))) (fun x hx j src hj hsrc hr => absurd hx (by rw [← hr]; exact fun hin => hin.disjoint hs (⟨0, src, Nat.lt_succ_self 0, by simpa using hsrc, rfl⟩ : InR G j 1 (root src)) (Or.inr (by omega)))) g1, ?_, ?_⟩
        · rw [hown]; exact g2.ext
        · intro b1 hb1
          obtain ⟨a3, a4, a5, a7, a8⟩ := g3 b1 hb1
          refine ⟨a3, a4, a5, ?_, a8⟩
          rw [hown]
          exact a7.imp_nd (fun hh => hh.elim)
      | source =>
        rw [hk] at ht
        cases ht
        have hown : own node = [] := by unfold own; rw [hk]; rfl
        refine ⟨hI, ExtT.refl _ _ _ _, fun b1 hb1 => ?_⟩
        cases hb1
        refine ⟨hb, rfl, hal, ?_, fun _ => haf⟩
        rw [hown, List.append_nil]
        have hfr1 : ∀ (q : Nat) (src : Rec), q < b.st.length → G.all[n0 + q]? = some src → FreshT (G.view s) [node.id] [] (root src) := by
          intro q src hq hsrc
          have := hfacts.fresh q src (Nat.zero_le _) hq hsrc
          exact ⟨fun t ht => this.1 t (hidT t ht), fun e _ hm => nomatch hm⟩
        have hlt : ∀ (q : Nat) (st : Status), b.st[q]? = some st → q < b.st.length :=
          fun q st h => (List.getElem?_eq_some_iff.mp h).1
        refine ⟨?_, ?_, ?_, ?_⟩
        · intro q st src _ hst hsrc hf
          have ha := hfacts.ack q st src (Nat.zero_le _) hst hsrc hf
          have := ha.1.fresh (hfr1 q src (hlt q st hst) hsrc)
          rw [List.append_nil] at this
          exact ⟨this, ha.2⟩
        · intro q st src _ hst hsrc hf
          have ha := hfacts.fil q st src (Nat.zero_le _) hst hsrc hf
          have := ha.1.fresh (hfr1 q src (hlt q st hst) hsrc)
          rw [List.append_nil] at this
          exact ⟨this, ha.2⟩
        · intro q st src _ hst _ hf
          rcases haf q st hst with h1 | h1 <;> rw [h1] at hf <;> cases hf
        · intro q src _ hq hsrc
          have := hfacts.fresh q src (Nat.zero_le _) hq hsrc
          exact ⟨fun t ht => this.1 t (hsubT t ht), fun e he hm => this.2 e he (hsubD _ hm)⟩
    obtain ⟨hI1, hext, hD3⟩ := hD
    have hbelow1 : WBelowP G n0 (G.view s1) (destsL node.next) := by
      intro e he hm
      rcases hext.wr_new e he with h1 | ⟨h1, _⟩
      · exact hbelow e h1 (hsubD _ hm)
      · exfalso
        have := own_sub node _ h1
        rw [this] at hm
        exact hidn (destsL_sub_tasksL _ _ hm)
    cases r1 with
    | error e =>
      dsimp only at h
      cases e <;> simp only [exec_throw] at h <;> cases h <;>
        exact OutC.fail_ext (hext.mono hidT hownD (fun _ hx => hx)) (C.w_err (C.inv_w hI1))
    | ok b1 =>
      dsimp only at h
      obtain ⟨a3, a4, a5, a7, a8⟩ := hD3 b1 rfl
      exact (hF b1 s1 hI1 a3 a4 a5 a7 a8 hbelow1 h).trans_pre hext hidT hownD (fun _ hx => hx) (fun _ hx => hx)


/-! ## the tainted loop -/

/-- "run the group `[i, j)`, then go on with the loop at `j`" -/
theorem taint_seqF {G : Ctx} {Good : TaskNode → Prop} {P : ∀ a, MC G a → Prop} (hs : Src G) (fuel : Nat)
    (hT : TaintF G Good P fuel) {a : Acker} {C : MC G a} {node : TaskNode}
    {T D : List Nat} {n0 : Nat} {b : Batch} {retry : Option RetryAttempt} {i j : Nat} {X : M Unit} {s s' : PS}
    {r : Except Stop Unit}
    (hg : Good node) (hpc : P a C) (hpath : PathF C T D node) (hb : BInv b) (hal : Align G n0 b)
    (hfacts : FactsT G (G.view s) T D (T ++ [node.id]) (D ++ own node) (node.kind ≠ .dest)
      (tasksL node.next) (destsL node.next) n0 b i)
    (hbelow : WBelowP G (n0 + i) (G.view s) (destsL node.next))
    (hij : i ≤ j) (hj : j ≤ b.pos.length)
    (hX : ∀ r1 s1, exec X s = (r1, s1) → RP G s1 → OutC C (tasksS node) (destsS node) (n0 + i) (j - i) s s1 r1)
    (h : exec (X >>= fun _ => taintedLoop fuel node b a retry j) s = (r, s')) (hrp : RP G s') :
    OutC C (tasksS node) (destsS node) (n0 + i) (b.pos.length - i) s s' r := by
  rw [exec_bind] at h
  rcases hx : exec X s with ⟨r1, s1⟩
  rw [hx] at h
  cases r1 with
  | error e =>
    dsimp only at h
    cases h
    have o1 := hX _ _ hx hrp
    exact OutC.fail_ext (o1.ext.mono (fun _ hx => hx) (fun _ hx => hx) (fun x hx => hx.mono (by omega)))
      (o1.err (fun hh => nomatch hh))
  | ok u =>
    dsimp only at h
    have hrp1 : RP G s1 := hrp.prefix (log_mono_taint h)
    have o1 := hX _ _ hx hrp1
    have g1 := o1.ok rfl
    have g3 := o1.ext
    have hpl : b.pos.length = b.st.length := by rw [hb.wf.1.pos_len, hb.wf.1.st_len]
    have hfacts1 : FactsT G (G.view s1) T D (T ++ [node.id]) (D ++ own node) (node.kind ≠ .dest)
        (tasksL node.next) (destsL node.next) n0 b j := by
      apply (hfacts.mono_idx hij).ext g3
      intro q src hq _ hsrc hin
      exact hin.disjoint hs (⟨0, src, Nat.lt_succ_self 0, by simpa using hsrc, rfl⟩ : InR G (n0 + q) 1 (root src))
        (Or.inl (by omega))
    have hbelow1 : WBelowP G (n0 + j) (G.view s1) (destsL node.next) := by
      have := hbelow.out g3
      rw [show n0 + i + (j - i) = n0 + j by omega] at this
      exact this
    have hI1 : C.Inv (n0 + j) s1 := by
      rw [show n0 + i + (j - i) = n0 + j by omega] at g1; exact g1
    have o2 := hT a C node T D n0 b retry j s1 s' r hg hpc hpath hI1 hb hal hfacts1 hbelow1 h hrp
    have k3 := o2.ext
    refine ⟨?_, fun hr => by
      rw [show n0 + i + (b.pos.length - i) = n0 + j + (b.pos.length - j) by omega]; exact o2.ok hr, o2.err⟩
    refine (g3.mono (fun _ hx => hx) (fun _ hx => hx) (fun x hx => hx.mono (by omega))).trans
      (k3.mono (fun _ hx => hx) (fun _ hx => hx) (fun x hx => ?_))
    have : InR G (n0 + i + (j - i)) (b.pos.length - j) x := by
      rw [show n0 + i + (j - i) = n0 + j by omega]; exact hx
    have := this.shift
    rw [show j - i + (b.pos.length - j) = b.pos.length - i by omega] at this
    exact this


theorem taint_stepF {G : Ctx} {Good : TaskNode → Prop} {P : ∀ a, MC G a → Prop} (hs : Src G) (fuel : Nat)
    (hP : PipeF G Good P fuel) (hN : NextF G Good P fuel)
    (hT : TaintF G Good P fuel) : TaintF G Good P (fuel+1) := by
  intro a C node T D n0 b retry i s s' r hg hpc hpath hI hb hal hfacts hbelow h hrp
  rw [taintedLoop] at h
  have hpl : b.pos.length = b.st.length := by rw [hb.wf.1.pos_len, hb.wf.1.st_len]
  have hts := tasksS_own node
  have hds := destsS_own node
  have hsubT : ∀ x ∈ tasksL node.next, x ∈ tasksS node := fun x hx => by rw [hts]; exact List.mem_cons_of_mem _ hx
  have hsubD : ∀ x ∈ destsL node.next, x ∈ destsS node := fun x hx => by rw [hds]; exact List.mem_append_right _ hx
  have hErr : C.Err s := C.w_err (C.inv_w hI)
  by_cases hi : i ≥ b.st.length
  · simp only [hi, if_true, exec_pure] at h
    cases h
    have h0 : b.pos.length - i = 0 := by omega
    rw [h0]
    exact ⟨ExtT.refl _ _ _ _, fun _ => by simpa using hI, fun hr => absurd rfl hr⟩
  · simp only [hi, if_false] at h
    have hlt : i < b.st.length := by omega
    have hg1 := groupEnd_gt b.st i hlt
    have hg2 := groupEnd_le b.st i (by omega)
    rw [exec_bind] at h
    rcases hsub : b.sub i (groupEnd b.st i) with e | sb
    · rw [hsub, exec_liftR_err] at h
      cases h
      exact OutC.fail hErr
    · rw [hsub, exec_liftR_ok] at h
      dsimp only at h
      obtain ⟨hsb, hsp, hss⟩ := sub_BInv hb hsub
      obtain ⟨_, _, _, _, hsr, _⟩ := sub_ok_fields hsub
      have hcl := sub_tainted hsub
      rw [exec_bind] at h
      rcases h0 : idx sb.st 0 "subBatch.recordStatuses[0]" with e | s0
      · rw [h0, exec_liftR_err] at h
        cases h
        exact OutC.fail hErr
      · rw [h0, exec_liftR_ok] at h
        dsimp only at h
        have hspan : i + sb.pos.length = groupEnd b.st i := by
          rw [hsp]; simp; omega
        rw [hspan] at h
        have hlen : sb.pos.length = groupEnd b.st i - i := by omega
        have h00 : sb.st[0]? = some s0 := idx_eq_ok_iff.mp h0
        have hbi : b.st[i]? = some s0 := by
          rw [hss] at h00
          simpa [List.getElem?_take, hg1] using h00
        have hgrp := group_flags b.st i s0 hbi
        have hal' : Align G (n0 + i) sb := hal.sub hsp hsr
        have hfacts' : FactsT G (G.view s) T D (T ++ [node.id]) (D ++ own node) (node.kind ≠ .dest)
            (tasksL node.next) (destsL node.next) (n0 + i) sb 0 := hfacts.sub hss
        have hsbst : ∀ (q : Nat) (st : Status), sb.st[q]? = some st → b.st[i + q]? = some st ∧ i + q < groupEnd b.st i := by
          intro q st hq
          rw [hss, List.getElem?_drop, List.getElem?_take] at hq
          split at hq
          · exact ⟨hq, by assumption⟩
          · cases hq
        have hseq : ∀ (X : M Unit), (∀ r1 s1, exec X s = (r1, s1) → RP G s1 →
              OutC C (tasksS node) (destsS node) (n0 + i) (groupEnd b.st i - i) s s1 r1) →
            exec (X >>= fun _ => taintedLoop fuel node b a retry (groupEnd b.st i)) s = (r, s') →
            OutC C (tasksS node) (destsS node) (n0 + i) (b.pos.length - i) s s' r :=
          fun X hX hx => taint_seqF hs fuel hT hg hpc hpath hb hal hfacts hbelow (by omega) (by omega) hX hx hrp
        have hack : (s0.flag = .ack ∨ s0.flag = .filter) →
            exec (if (node.next.isEmpty || !sb.hasActive) = true then do
                    let __r ← ackerCall fuel a sb true 0
                    taintedLoop fuel node b a retry (groupEnd b.st i)
                  else do
                    let __r ← doNextTask fuel node sb a
                    taintedLoop fuel node b a retry (groupEnd b.st i)) s = (r, s') →
            OutC C (tasksS node) (destsS node) (n0 + i) (b.pos.length - i) s s' r := by
          intro hfl0 h
          have haf : FlagsAF sb := by
            intro q st hq
            obtain ⟨h1, h2⟩ := hsbst q st hq
            have := hgrp (i + q) st (by omega) h2 h1
            rcases hfl0 with hh | hh <;> rw [hh] at this <;> simpa [sameGroup] using this
          have hX : ∀ r1 s1, exec (if (node.next.isEmpty || !sb.hasActive) = true then ackerCall fuel a sb true 0
              else doNextTask fuel node sb a) s = (r1, s1) → RP G s1 →
              OutC C (tasksS node) (destsS node) (n0 + i) (groupEnd b.st i - i) s s1 r1 := by
            intro r1 s1 hx hrp1
            rw [← hlen]
            exact (grpF_step fuel hN hg hpc hpath hI hsb hcl hal' haf hfacts' hbelow hx hrp1).mono hsubT hsubD
          by_cases hc : (node.next.isEmpty || !sb.hasActive) = true
          · simp only [hc, if_true] at h hX
            exact hseq _ hX h
          · simp only [hc] at h hX
            exact hseq _ hX h
        cases hfl : s0.flag with
        | ack => rw [hfl] at h; exact hack (Or.inl hfl) h
        | filter => rw [hfl] at h; exact hack (Or.inr hfl) h
        | nack =>
          rw [hfl] at h
          dsimp only at h
          refine hseq _ ?_ h
          intro r1 s1 hx _
          have hnk : NackOK sb := by
            intro x hx
            have hall := group_all_nack b.st i s0 hbi hfl
            rw [hss] at hx
            exact hsb.ne x (by rw [hss]; exact hx) (hall x hx)
          rw [← hlen]
          have co := (C.nack fuel sb node.id (n0 + i) s s1 r1 (C.inv_w hI) hsb.bok hsb.split hnk hal' (by omega) hx).1
          exact ⟨co.view.none_mono, co.ok, co.err⟩
        | retry =>
          rw [hfl] at h
          dsimp only at h
          have hallr : ∀ (q : Nat) (st : Status), sb.st[q]? = some st → st.flag = .retry := by
            intro q st hq
            obtain ⟨h1, h2⟩ := hsbst q st hq
            have := hgrp (i + q) st (by omega) h2 h1
            rw [hfl] at this
            simpa [sameGroup] using this
          have hD : ∀ (sb' : Batch) (nx : RetryAttempt), sb.setFlagRange .ack 0 sb.recs.length = .ok sb' →
              exec (do
                doTaskAttempt fuel node { sb' with tainted := false } a (some nx) false
                taintedLoop fuel node b a retry (groupEnd b.st i)) s = (r, s') →
              OutC C (tasksS node) (destsS node) (n0 + i) (b.pos.length - i) s s' r := by
            intro sb' nx hsf h
            obtain ⟨hfr, _⟩ := setFlagRange_fr (by decide) hsf
            have hwf' := C08_aligned_setFlagRange hsb.wf (by decide) hsf
            have hbi' : BInv { sb' with tainted := false } :=
              ⟨⟨⟨hwf'.1.st_len, hwf'.1.pos_len, hwf'.1.runs_ok, hwf'.1.split_keys⟩, hwf'.2⟩,
                hfr.split.trans hsb.split, fun rs hrs => hsb.runs rs (hfr.runs ▸ hrs), hfr.ne hsb.ne⟩
            obtain ⟨hij, hj⟩ := setFlagRange_inrange hsb.wf hsf
            have hsf2 := hsf
            rw [setFlagRange_ok hsb.wf .ack hij hj] at hsf2
            have hsb' : sb' = { sb with st := sb.flagged .ack 0 sb.recs.length } := by
              injection hsf2 with hsf2; exact hsf2.symm
            have hrecs : sb'.recs = sb.recs := by rw [hsb']
            have hst' : sb'.st = sb.flagged .ack 0 sb.recs.length := by rw [hsb']
            have hcf : countFilter sb.st = 0 := by
              unfold countFilter
              rw [List.length_eq_zero_iff, List.filter_eq_nil_iff]
              intro x hx
              obtain ⟨q, hq, rfl⟩ := List.getElem_of_mem hx
              have := hallr q _ (List.getElem?_eq_getElem hq)
              simp [this]
            have hact := actList_of_countFilter_zero hcf
            have hlenst : (sb.flagged .ack 0 sb.recs.length).length = sb.st.length := by
              rw [← hst', hwf'.1.st_len, hrecs, hsb.wf.1.st_len]
            have hnew : ∀ (q : Nat) (st' : Status), sb'.st[q]? = some st' →
                ∃ st, sb.st[q]? = some st ∧ st' = setFlagP .ack st := by
              intro q st' hq
              rw [hst'] at hq
              have hql : q < sb.st.length := by
                have := (List.getElem?_eq_some_iff.mp hq).1
                omega
              have hk : ∃ k : Nat, 0 ≤ k ∧ k < sb.recs.length ∧ (actList sb.st)[k]? = some q :=
                ⟨q, Nat.zero_le _, by rw [← hsb.wf.1.st_len]; exact hql, by rw [hact]; simp [hql]⟩
              rw [(getElem?_flagged sb .ack 0 sb.recs.length q).1 hk] at hq
              cases hs0 : sb.st[q]? with
              | none => rw [hs0] at hq; cases hq
              | some st => rw [hs0] at hq; exact ⟨st, rfl, by simpa using hq.symm⟩
            have hal'' : Align G (n0 + i) { sb' with tainted := false } := hal'.congr hfr.pos hrecs
            have haf'' : FlagsAF { sb' with tainted := false } := by
              intro q st' hq
              obtain ⟨st, _, rfl⟩ := hnew q st' hq
              exact Or.inl rfl
            have hp0 : 0 < sb.pos.length := by omega
            obtain ⟨src0, hsrc0⟩ := hal'.src hp0
            obtain ⟨_, hnd, hcl0⟩ := hfacts'.retry 0 s0 src0 (Nat.le_refl _) h00 hsrc0 hfl
            have hown : own node = [] := by
              unfold own
              cases hk : node.kind with
              | dest => exact absurd hk hnd
              | proc => rfl
              | source => rfl
            have hfacts'' : FactsT G (G.view s) T D T D True (tasksS node) (destsS node) (n0 + i)
                { sb' with tainted := false } 0 := by
              have hstl : ∀ q : Nat, q < sb'.st.length → q < sb.st.length := by
                intro q hq; rw [hst', hlenst] at hq; exact hq
              refine ⟨?_, ?_, ?_, ?_⟩
              · intro q st' src _ hq hsrc _
                obtain ⟨st, hst0, _⟩ := hnew q st' hq
                exact (hfacts'.retry q st src (Nat.zero_le _) hst0 hsrc (hallr q st hst0)).1
              · intro q st' src _ hq _ hf'
                obtain ⟨st, _, rfl⟩ := hnew q st' hq
                cases hf'
              · intro q st' src _ hq _ hf'
                obtain ⟨st, _, rfl⟩ := hnew q st' hq
                cases hf'
              · intro q src _ hq hsrc
                have hq' : q < sb.st.length := hstl q hq
                have hst0 := List.getElem?_eq_getElem hq'
                obtain ⟨_, _, hclq⟩ := hfacts'.retry q _ src (Nat.zero_le _) hst0 hsrc (hallr q _ hst0)
                have hfrq := hfacts'.fresh q src (Nat.zero_le _) hq' hsrc
                rw [hts, hds, hown, List.nil_append]
                refine ⟨fun t ht => ?_, hfrq.2⟩
                rcases List.mem_cons.mp ht with h1 | h1
                · rw [h1]; exact hclq.1 node.id (List.mem_append_right _ (List.mem_singleton.mpr rfl))
                · exact hfrq.1 t h1
            have hbelow'' : WBelowP G (n0 + i) (G.view s) (destsS node) := by
              rw [hds, hown, List.nil_append]; exact hbelow
            refine hseq _ ?_ h
            intro r1 s1 hx hrp1
            have := hP a C node T D (n0 + i) { sb' with tainted := false } (some nx) false s s1 r1 hg hpc hpath
              (fun hh => nomatch hh) hI hbi' rfl hal'' haf'' hfacts'' hbelow'' hx hrp1
            have hpe : ({ sb' with tainted := false } : Batch).pos.length = groupEnd b.st i - i := by
              show sb'.pos.length = _
              rw [hfr.pos]; exact hlen
            rw [hpe] at this
            exact this
          rw [exec_bind] at h
          rcases hsf : sb.setFlagRange Flag.ack 0 sb.recs.length with e | sb'
          · rw [hsf, exec_liftR_err] at h
            cases h
            exact OutC.fail hErr
          · rw [hsf, exec_liftR_ok] at h
            dsimp only at h
            cases retry with
            | none =>
              dsimp only at h
              by_cases c1 : 1 > maxRetryAttempts
              · simp only [c1, if_true, exec_throw_bind] at h
                cases h
                exact OutC.fail hErr
              · simp only [c1, if_false] at h
                exact hD sb' _ hsf h
            | some rt =>
              dsimp only at h
              by_cases c0 : (if sb'.recs.length ≥ rt.size then rt.stall + 1 else 0) ≥ maxRetryStall
              · simp only [c0, if_true, exec_throw_bind] at h
                cases h
                exact OutC.fail hErr
              · by_cases c1 : rt.count + 1 > maxRetryAttempts
                · simp only [c0, c1, if_true, if_false, exec_throw_bind] at h
                  cases h
                  exact OutC.fail hErr
                · simp only [c0, c1, if_false] at h
                  exact hD sb' _ hsf h

/-- The task recursion meets every handler contract, given the fan-out case. -/
theorem pipeF_all {G : Ctx} {Good : TaskNode → Prop} {P : ∀ a, MC G a → Prop} (hs : Src G) (hns : NS G.scripts)
    (hchild : ∀ node, Good node → node.next.length = 1 → ∀ n ∈ node.next, Good n)
    (hfan : ∀ fuel, (∀ f, f ≤ fuel → PipeF G Good P f) → FanF G Good P (fuel+1)) :
    ∀ fuel f, f ≤ fuel → PipeF G Good P f ∧ TaintF G Good P f ∧ NextF G Good P f := by
  intro fuel
  induction fuel with
  | zero =>
    intro f hf
    have : f = 0 := by omega
    subst this
    refine ⟨?_, ?_, ?_⟩
    · intro a C node T D n0 b retry skipDo s s' r _ _ _ _ hI _ _ _ _ _ _ h _
      rw [doTaskAttempt] at h; cases h; exact OutC.fail (C.w_err (C.inv_w hI))
    · intro a C node T D n0 b retry i s s' r _ _ _ hI _ _ _ _ h _
      rw [taintedLoop] at h; cases h; exact OutC.fail (C.w_err (C.inv_w hI))
    · intro a C node T D n0 sb s s' r _ _ _ _ hI _ _ _ _ _ _ h _
      rw [doNextTask] at h; cases h; exact OutC.fail (C.w_err (C.inv_w hI))
  | succ n ih =>
    intro f hf
    by_cases hle : f ≤ n
    · exact ih f hle
    · have : f = n + 1 := by omega
      subst this
      obtain ⟨p, t, nx⟩ := ih n (Nat.le_refl _)
      exact ⟨dta_stepF hs hns n nx t, taint_stepF hs n p nx t,
        next_stepF hchild n p (hfan n (fun f hf => (ih f hf).1))⟩


/-- pipelines without fan-out meet every contract -/
theorem pipeF_linear {G : Ctx} (hs : Src G) (hns : NS G.scripts) (fuel : Nat) :
    PipeF G Linear (fun _ _ => True) fuel :=
  (pipeF_all (Good := Linear) (P := fun _ _ => True) hs hns (fun node hg _ => hg.child)
    (fun _ _ a C node T D n0 sb s s' r hg _ _ h2 => by have := hg.len; omega) fuel fuel (Nat.le_refl _)).1

end Conduit.Funnel
