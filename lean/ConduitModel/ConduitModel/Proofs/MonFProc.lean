import ConduitModel.Proofs.MonFInv
import ConduitModel.Proofs.MonProc

/-!
# `ProcessorTask.Do` against the monitor, task-attributed version (for pipelines with fan-out)
-/
namespace Conduit.Funnel
open Conduit.Funnel.Mon

/-! ## the monitor step as a relation on views -/

/-- `v'` is `v` after a call of processor `task` on `recs` answered by `out` -/
structure PStepT (v v' : MV) (task : Nat) (recs : List Rec) (out : List PR) : Prop where
  fil : v'.μ.filtered = v.μ.filtered ++ filteredBy recs out
  err : v'.E = v.E ++ (erroredBy recs out).map (fun x => (task, x))
  wr : v'.μ.written = v.μ.written

/-- an entry of the new error list is an old one or one of this call -/
theorem PStepT.mem_E {v v' : MV} {task : Nat} {recs : List Rec} {out : List PR} (hp : PStepT v v' task recs out)
    {x : Nat × Nat} (hx : x ∈ v'.E) : x ∈ v.E ∨ (x.1 = task ∧ x.2 ∈ erroredBy recs out) := by
  rw [hp.err] at hx
  rcases List.mem_append.mp hx with h | h
  · exact Or.inl h
  · obtain ⟨y, hy1, hy2⟩ := List.mem_map.mp h
    rw [← hy2]
    exact Or.inr ⟨rfl, hy1⟩

theorem PStepT.notE {v v' : MV} {task : Nat} {recs : List Rec} {out : List PR} (hp : PStepT v v' task recs out)
    {t ρ : Nat} (h1 : (t, ρ) ∉ v.E) (hne : ρ ∉ erroredBy recs out) : (t, ρ) ∉ v'.E := by
  intro hx
  rcases hp.mem_E hx with h | ⟨_, h⟩
  · exact h1 h
  · exact hne h

/-- `CleanT` after the call, for any task list whose members were clean or had not seen the root -/
theorem PStepT.clean {v v' : MV} {task : Nat} {recs : List Rec} {out : List PR} {T T' D : List Nat} {ρ : Nat}
    (hp : PStepT v v' task recs out) (hc : CleanT v T D ρ) (hT : ∀ t ∈ T', t ∈ T ∨ (t, ρ) ∉ v.E)
    (hne : ρ ∉ erroredBy recs out) : CleanT v' T' D ρ := by
  refine ⟨fun t ht => ?_, fun e hm hd hroot => ?_⟩
  · rcases hT t ht with h1 | h1
    · exact hp.notE (hc.1 t h1) hne
    · exact hp.notE h1 hne
  · rw [hp.wr] at hm
    exact hc.2 e hm hd hroot

theorem PStepT.written {v v' : MV} {task : Nat} {recs : List Rec} {out : List PR} {d ρ : Nat}
    (hp : PStepT v v' task recs out) (h : WrittenTo v.μ d ρ) : WrittenTo v'.μ d ρ := by
  obtain ⟨e, hm, h1, h2⟩ := h
  exact ⟨e, by rw [hp.wr]; exact hm, h1, h2⟩

theorem PStepT.active {v v' : MV} {task : Nat} {recs : List Rec} {out : List PR} {T T' D : List Nat} {ρ : Nat}
    (hp : PStepT v v' task recs out) (ha : ActiveT v T D ρ) (hT : ∀ t ∈ T', t ∈ T ∨ (t, ρ) ∉ v.E)
    (hne : ρ ∉ erroredBy recs out) : ActiveT v' T' D ρ :=
  ⟨hp.clean ha.1 hT hne, fun d hd => hp.written (ha.2 d hd)⟩

theorem PStepT.filtered {v v' : MV} {task : Nat} {recs : List Rec} {out : List PR} {T T' D : List Nat} {ρ : Nat}
    (hp : PStepT v v' task recs out) (hf : FilteredT v T D ρ) (hT : ∀ t ∈ T', t ∈ T ∨ (t, ρ) ∉ v.E)
    (hne : ρ ∉ erroredBy recs out) : FilteredT v' T' D ρ :=
  ⟨hp.clean hf.1 hT hne, by rw [hp.fil]; exact List.mem_append_left _ hf.2⟩

theorem PStepT.fresh {v v' : MV} {task : Nat} {recs : List Rec} {out : List PR} {Ts Ds : List Nat} {ρ : Nat}
    (hp : PStepT v v' task recs out) (hf : FreshT v (task :: Ts) Ds ρ) (hnt : task ∉ Ts) : FreshT v' Ts Ds ρ := by
  refine ⟨fun t ht hx => ?_, fun e hm hd => ?_⟩
  · rcases hp.mem_E hx with h | ⟨h, _⟩
    · exact hf.1 t (List.mem_cons_of_mem _ ht) h
    · have h' : t = task := h
      rw [h'] at ht
      exact hnt ht
  · rw [hp.wr] at hm
    exact hf.2 e hm hd

theorem PStepT.ext {G : Ctx} {n0 task : Nat} {b : Batch} {h : Heap} (hwf : b.WF h) (hal : Align G n0 b) {v v' : MV}
    {out : List PR} (hp : PStepT v v' task b.active out) : ExtT [task] [] (InR G n0 b.pos.length) v v' := by
  have key : ∀ (k : Nat) (r : Rec), b.active[k]? = some r → InR G n0 b.pos.length (root r) := by
    intro k r hk
    obtain ⟨p, _, hrp⟩ := active_phys hwf hk
    obtain ⟨src, hsp, hroot, hlt⟩ := align_root hwf hal hrp
    exact ⟨p, src, hlt, hsp, hroot.symm⟩
  refine ⟨?_, ?_, ?_, ?_, ?_, ?_⟩ <;> intro x hx
  · rw [hp.fil]; exact List.mem_append_left _ hx
  · rw [hp.fil] at hx
    rcases List.mem_append.mp hx with h1 | h1
    · exact Or.inl h1
    · obtain ⟨k, r, o, h1, _, h3⟩ := mem_filteredBy h1
      rw [h3]; exact Or.inr (key k r h1)
  · rw [hp.err]; exact List.mem_append_left _ hx
  · rcases hp.mem_E hx with h1 | ⟨h1, h2⟩
    · exact Or.inl h1
    · obtain ⟨k, r, e, h3, _, h5⟩ := mem_erroredBy h2
      refine Or.inr ⟨by rw [h1]; exact List.mem_cons.mpr (Or.inl rfl), ?_⟩
      rw [h5]; exact key k r h3
  · rw [hp.wr]; exact hx
  · rw [hp.wr] at hx; exact Or.inl hx

/-! ## the facts after the call -/

theorem proc_factsT {G : Ctx} (hs : Src G) {h h' : Heap} {b b1 : Batch} {out : List PR} {n0 task : Nat}
    {T D Ts Ds : List Nat} {v v' : MV} (hwf : b.WF h) (hsplit : b.split = []) (hn : NoMulti out)
    (hr : procDoP h b out = .ok (h', b1)) (hal : Align G n0 b) (haf : FlagsAF b)
    (hfacts : FactsT G v T D T D True (task :: Ts) Ds n0 b 0) (hnt : task ∉ Ts)
    (hp : PStepT v v' task b.active out) :
    FactsT G v' T D (T ++ [task]) D True Ts Ds n0 b1 0 := by
  -- the task itself has not seen any record of the batch
  have hfr : ∀ (q : Nat) (st : Status) (src : Rec), b.st[q]? = some st → G.all[n0 + q]? = some src →
      (task, root src) ∉ v.E := by
    intro q st src hst hsrc
    exact (hfacts.fresh q src (Nat.zero_le _) (List.getElem?_eq_some_iff.mp hst).1 hsrc).1 task
      (List.mem_cons.mpr (Or.inl rfl))
  have hTadd : ∀ (q : Nat) (st : Status) (src : Rec), b.st[q]? = some st → G.all[n0 + q]? = some src →
      ∀ t ∈ T ++ [task], t ∈ T ∨ (t, root src) ∉ v.E := by
    intro q st src hst hsrc t ht
    rcases List.mem_append.mp ht with h1 | h1
    · exact Or.inl h1
    · have h2 : t = task := by
        rcases List.mem_cons.mp h1 with h2 | h2
        · exact h2
        · cases h2
      rw [h2]; exact Or.inr (hfr q st src hst hsrc)
  have hTsame : ∀ (ρ : Nat), ∀ t ∈ T, t ∈ T ∨ (t, ρ) ∉ v.E := fun _ _ ht => Or.inl ht
  -- a record whose new flag is neither `nack` nor `filter` was active and is still `ActiveT`
  have hkeep : ∀ (q : Nat) (st' : Status) (src : Rec), b1.st[q]? = some st' → G.all[n0 + q]? = some src →
      st'.flag ≠ .nack → st'.flag ≠ .filter →
      ActiveT v' T D (root src) ∧ ActiveT v' (T ++ [task]) D (root src) := by
    intro q st' src hst' hsrc hf1 hf2
    have hne := not_errored hs hwf hsplit hn hr hal hst' hsrc hf1
    obtain ⟨st, r, hst, hrec⟩ := proc_old hwf hsplit hn hr (Or.inl (List.getElem?_eq_some_iff.mp hst').1)
    rcases proc_cases hwf hsplit hn hr hst hrec with ⟨hfl, _, e2⟩ | ⟨hnf, _⟩
    · rw [hst'] at e2; cases e2; exact absurd hfl hf2
    · have hack : st.flag = .ack := (haf q st hst).resolve_right hnf
      have hact := hfacts.ack q st src (Nat.zero_le _) hst hsrc hack
      exact ⟨hp.active hact (hTsame _) hne, hp.active hact (hTadd q st src hst hsrc) hne⟩
  refine ⟨?_, ?_, ?_, ?_⟩
  · intro q st' src _ hst' hsrc hflag
    exact (hkeep q st' src hst' hsrc (by rw [hflag]; intro hh; cases hh) (by rw [hflag]; intro hh; cases hh)).2
  · intro q st' src _ hst' hsrc hflag
    have hne := not_errored hs hwf hsplit hn hr hal hst' hsrc (by rw [hflag]; intro hh; cases hh)
    obtain ⟨st, r, hst, hrec⟩ := proc_old hwf hsplit hn hr (Or.inl (List.getElem?_eq_some_iff.mp hst').1)
    rcases proc_cases hwf hsplit hn hr hst hrec with ⟨hfl, _, e2⟩ | ⟨hnf, k, o, hk, ho, hak, _, e2⟩
    · exact hp.filtered (hfacts.fil q st src (Nat.zero_le _) hst hsrc hfl) (hTadd q st src hst hsrc) hne
    · have hack : st.flag = .ack := (haf q st hst).resolve_right hnf
      have hact := hfacts.ack q st src (Nat.zero_le _) hst hsrc hack
      refine ⟨hp.clean hact.1 (hTadd q st src hst hsrc) hne, ?_⟩
      rw [hst'] at e2
      have e2 := Option.some.inj e2
      have hold : st.flag ≠ .filter := hnf
      have hmem : ∀ o', o' = o → (o = .filter ∨ o = .multi []) → root src ∈ v'.μ.filtered := by
        intro o' _ hoo
        have hno : o ≠ .nil := by rcases hoo with h1 | h1 <;> rw [h1] <;> intro hh <;> cases hh
        rw [hp.fil, ← hal.lin q r src hrec hsrc]
        exact List.mem_append_right _ (filteredBy_mem hak (padOut_out ho hno) hoo)
      cases o with
      | single r' => rw [e2] at hflag; exact absurd hflag hold
      | filter => exact hmem _ rfl (Or.inl rfl)
      | error e => rw [e2] at hflag; cases hflag
      | nil => rw [e2] at hflag; cases hflag
      | multi m =>
        match m, e2, hmem with
        | [], _, hmem => exact hmem _ rfl (Or.inr rfl)
        | [x], e2, _ => rw [e2] at hflag; exact absurd hflag hold
        | _ :: _ :: _, e2, _ => rw [e2] at hflag; exact absurd hflag hold
  · intro q st' src _ hst' hsrc hflag
    have hk := hkeep q st' src hst' hsrc (by rw [hflag]; intro hh; cases hh) (by rw [hflag]; intro hh; cases hh)
    exact ⟨hk.1, trivial, hk.2.1⟩
  · intro q src _ hq hsrc
    obtain ⟨st, r, hst, _⟩ := proc_old hwf hsplit hn hr (Or.inl hq)
    exact hp.fresh (hfacts.fresh q src (Nat.zero_le _) (List.getElem?_eq_some_iff.mp hst).1 hsrc) hnt

/-- A processor task `task` on a batch in flight (records aligned at `n0`, all statuses `ack` /
`filter`, `ActiveT` / `FilteredT` for the tasks `T` and destinations `D` passed so far, the task
itself and the tasks `Ts` / destinations `Ds` below have not seen the records yet). Whatever the
result: the base invariant still holds and the step is a `QStep` of `task` about roots of the
batch. When a batch is returned: it is still aligned, and the facts hold with `task` added to the
tasks passed (a kept or filtered record was not errored by `task`; a retried record keeps its old
facts; nothing below has seen the records). -/
theorem procDo_monF {G : Ctx} (hs : Src G) (hns : NS G.scripts) {s s' : PS} {r : Except Stop Batch} {b : Batch}
    {task n0 : Nat} {T D Ts Ds : List Nat}
    (hB : Base G s) (hb : BInv b) (hclean : b.tainted = false) (hal : Align G n0 b)
    (haf : FlagsAF b) (hfacts : FactsT G (G.view s) T D T D True (task :: Ts) Ds n0 b 0)
    (htask : task ∈ tasksS G.tree) (hnt : task ∉ Ts)
    (h : exec (procDo task b) s = (r, s')) (hrp : RP G s') :
    Base G s' ∧ QStep G task false (InR G n0 b.pos.length) s s' ∧
    ∀ b1, r = .ok b1 →
      BInv b1 ∧ b1.pos = b.pos ∧ Align G n0 b1 ∧
      FactsT G (G.view s') T D (T ++ [task]) D True Ts Ds n0 b1 0 ∧
      (b1.tainted = false → FlagsAF b1) := by
  obtain ⟨hp, h1, _⟩ := procDo_shape task b s
  rw [h1] at h
  obtain ⟨hr, hs'⟩ := Prod.mk.inj h
  have hlog : s'.log = s.log.push (.pcall task b.active) := by rw [← hs']
  have hscr : s'.scripts = popScripts s.scripts task := by rw [← hs']
  have hmas : s'.mas = s.mas := by rw [← hs']
  have hwin : s'.win = s.win := by rw [← hs']
  have hthr : s'.thr = s.thr := by rw [← hs']
  have hsize : s'.size = s.size := by rw [← hs']
  have hdlq : s'.dlqTask = s.dlqTask := by rw [← hs']
  have hmu : G.mu s' = pcallT G.scripts (G.mu s) task b.active := mu_push G s s' _ hlog
  rw [pcallT_eq] at hmu
  have hE : G.errT s' = G.errT s ++
      (erroredBy b.active (procOut (replyOfCall G.scripts task (callNoL (G.mu s).calls task)))).map
        (fun x => (task, x)) := errT_push G s s' _ hlog
  have hok := hrp.pcall task b.active hlog
  rw [hB.sc.nextReply] at hr
  have hnm := noMulti_replyOfCall hns task (callNoL (G.mu s).calls task)
  generalize procOut (replyOfCall G.scripts task (callNoL (G.mu s).calls task)) = out at hmu hE hok hr hnm
  have hfil : (G.mu s').filtered = (G.mu s).filtered ++ filteredBy b.active out := by rw [hmu]
  have hwr : (G.mu s').written = (G.mu s).written := by rw [hmu]
  have hany : (G.mu s').dlqAny = (G.mu s).dlqAny := by rw [hmu]
  have hdok : (G.mu s').dlqOk = (G.mu s).dlqOk := by rw [hmu]
  have hstep : PStepT (G.view s) (G.view s') task b.active out := ⟨hfil, hE, hwr⟩
  have hwf : b.WF s.heap := WF_of_runs_none hb.wf hb.runs
  refine ⟨?_, ?_, ?_⟩
  · refine ⟨by rw [hmu]; exact hB.safe, hB.sc.event (.pcall task b.active) task rfl hlog hscr, ?_, ?_, ?_,
      fun hg => by rw [hscr]; exact (hB.ns hg).pop task⟩
    · intro e he
      rw [hwr] at he
      exact hB.wr e he
    · intro x hx
      rcases hstep.mem_E hx with h2 | ⟨h2, _⟩
      · exact hB.errIn x h2
      · rw [h2]; exact htask
    · intro e he
      rw [hwr] at he
      exact hB.wrIn e he
  · exact ⟨⟨.pcall task b.active, hlog, rfl, rfl, fun tk i hh => by cases hh⟩, hscr, hmas, hwin, hthr, hsize, hdlq,
      hstep.ext hwf hal, hany, hdok⟩
  · intro b1 hb1
    rcases procDoP_total hwf out with ⟨h', b'', g1, g2, _⟩ | ⟨e, g1⟩
    · rw [g1, hb1] at hr
      have hbb : b'' = b1 := Except.ok.inj hr
      subst hbb
      have hfr := procDoP_fr hnm hb.split g1
      exact ⟨hb.of_fr hfr g2, hfr.pos, proc_align hwf hb.split hnm g1 hal hok,
        proc_factsT hs hwf hb.split hnm g1 hal haf hfacts hnt hstep,
        proc_flagsAF hwf hb.split hnm g1 haf hclean⟩
    · rw [g1, hb1] at hr
      cases hr

end Conduit.Funnel
