import ConduitModel.Proofs.MonFVote

/-!
# `multiAckNacker.releaseLocked` against the monitor, over a parent chain whose failed acks are benign
-/
namespace Conduit.Funnel
open Conduit.Funnel.Mon

/-! ## helpers -/

/-- the view only depends on the log -/
theorem view_same (G : Ctx) (s s' : PS) (h : s'.log = s.log) : G.view s' = G.view s := by
  unfold Ctx.view
  rw [mu_same G s s' h, errT_same G s s' h]

/-- `SameBut` for a smaller `top` -/
theorem SameBut.mono {top top' : Nat} {s s' : PS} (h : SameBut top s s') (hle : top' ≤ top) : SameBut top' s s' :=
  ⟨h.log, h.scripts, h.win, h.thr, h.size, h.dlqTask, h.masSize, fun i hi => h.mas i (by omega)⟩

/-- `TI` survives an extension of the view that adds no fact about any record -/
theorem TI.ext {G : Ctx} {F : FanCtx} {v v' : MV} {p : Nat} {m : MA} (h : TI G F v p m)
    (he : ExtT [] [] (fun _ => False) v v') : TI G F v' p m where
  mok := h.mok
  br := h.br
  len := h.len
  keys := h.keys
  lo := fun ix src a b c d =>
    ⟨(h.lo ix src a b c d).1, fun e => ((h.lo ix src a b c d).2 e).ext he (Or.inl (fun x => x))⟩
  hi := fun ix src a b c d =>
    ⟨(h.hi ix src a b c d).1, fun e => ((h.hi ix src a b c d).2 e).ext he (Or.inl (fun x => x))⟩
  acked := fun ix src a b c d =>
    ⟨(h.acked ix src a b c d).1, (h.acked ix src a b c d).2.1,
      fun e => ((h.acked ix src a b c d).2.2 e).ext he (Or.inl (fun x => x))⟩
  lin := h.lin
  rel := h.rel

/-- advancing `released` over terminal slots -/
theorem TI.withReleased {G : Ctx} {F : FanCtx} {v : MV} {p : Nat} {m : MA} (h : TI G F v p m) (k : Nat)
    (h1 : m.released ≤ k) (h2 : k ≤ F.L) (ht : ∀ ix : Nat, m.released ≤ ix → ix < k → m.term ix = true) :
    TI G F v p { m with released := k } where
  mok := h.mok.withReleased k (by rw [h.len]; exact h2)
  br := h.br
  len := h.len
  keys := h.keys
  lo := h.lo
  hi := h.hi
  acked := fun ix src a b c d =>
    ⟨(h.acked ix src a b c d).1, (h.acked ix src a b c d).2.1,
      fun e => (h.acked ix src a b c d).2.2 (Nat.le_trans h1 e)⟩
  lin := h.lin
  rel := fun ix hix => by
    by_cases hlt : ix < m.released
    · exact h.rel ix hlt
    · exact ht ix (by omega) hix

/-- `MAInv` only looks at the log, the scripts and the tallies up to `F.id` -/
theorem MAInv.frame {G : Ctx} {a : Acker} {C : MC G a} {F : FanCtx} {p : Nat} {s s' : PS} (h : MAInv C F p s)
    (hf : SameBut (F.id + 1) s s') : MAInv C F p s' := by
  have hm : s'.mas[F.id]! = s.mas[F.id]! := hf.mas F.id (by omega)
  have hv : G.view s' = G.view s := view_same G s s' hf.log
  have sbC : SameBut C.top s s' := hf.mono (by have := h.top; omega)
  refine ⟨h.base.same hf.log hf.scripts, Nat.lt_of_lt_of_le h.hid hf.masSize, ?_, h.srcs, ?_, ?_, h.front, h.tpos,
    h.top, h.below, h.disjT, h.disjD, h.dsub, h.coverT, h.coverD, h.ddp⟩
  · rw [hm, hv]; exact h.ti
  · rw [hm]; exact C.frameW h.parW sbC
  · rw [hm]; exact h.par.imp (fun x => C.frame x sbC) id

/-- rebuilding `MAInv` after a call of the parent chain -/
theorem MAInv.call {G : Ctx} {a : Acker} {C : MC G a} {F : FanCtx} {p : Nat} {s s1 : PS} (h : MAInv C F p s)
    (hv : ExtT [] [] (fun _ => False) (G.view s) (G.view s1)) (hsz : s1.mas.size = s.mas.size)
    (hmas : ∀ i : Nat, C.top ≤ i → s1.mas[i]! = s.mas[i]!) (hb : Base G s1)
    (hW : C.InvW (F.m0 + (s.mas[F.id]!).released) s1)
    (hpar : C.Inv (F.m0 + (s.mas[F.id]!).released) s1 ∨
      ((s.mas[F.id]!).released < F.L ∧ (s.mas[F.id]!).term (s.mas[F.id]!).released = true ∧
        (s.mas[F.id]!).ack (s.mas[F.id]!).released = false)) : MAInv C F p s1 := by
  have hm1 : s1.mas[F.id]! = s.mas[F.id]! := hmas F.id h.top
  refine ⟨hb, by rw [hsz]; exact h.hid, ?_, h.srcs, ?_, ?_, h.front, h.tpos,
    h.top, h.below, h.disjT, h.disjD, h.dsub, h.coverT, h.coverD, h.ddp⟩
  · rw [hm1]; exact h.ti.ext hv
  · rw [hm1]; exact hW
  · rw [hm1]; exact hpar

/-- the `modify` of the release loop -/
def setRel (id to : Nat) (s : PS) : PS := { s with mas := s.mas.set! id { (s.mas[id]!) with released := to } }

theorem setRel_same (top id to : Nat) (s : PS) (hle : top ≤ id) : SameBut top s (setRel id to s) := by
  refine ⟨rfl, rfl, rfl, rfl, rfl, rfl, ?_, fun i hi => ?_⟩
  · show s.mas.size ≤ (s.mas.set! id _).size
    rw [(set!_other s.mas id (id + 1) _ (by omega)).1]; exact Nat.le_refl _
  · show (s.mas.set! id _)[i]! = _
    exact (set!_other s.mas id i _ (by omega)).2

theorem setRel_size (id to : Nat) (s : PS) : (setRel id to s).mas.size = s.mas.size :=
  (set!_other s.mas id (id + 1) _ (by omega)).1

theorem setRel_other (id to : Nat) (s : PS) (i : Nat) (hi : i ≠ id) : (setRel id to s).mas[i]! = s.mas[i]! :=
  (set!_other s.mas id i _ (Ne.symm hi)).2

theorem setRel_get (id to : Nat) (s : PS) (h : id < s.mas.size) :
    (setRel id to s).mas[id]! = { (s.mas[id]!) with released := to } :=
  set!_get _ _ _ h

/-- after a successful call of the parent chain for the slots `[released, to)`, `released := to` -/
theorem MAInv.advance {G : Ctx} {a : Acker} {C : MC G a} {F : FanCtx} {p : Nat} {s s1 : PS} (h : MAInv C F p s)
    (hv : ExtT [] [] (fun _ => False) (G.view s) (G.view s1)) (hsz : s1.mas.size = s.mas.size)
    (hmas : ∀ i : Nat, C.top ≤ i → s1.mas[i]! = s.mas[i]!) (to : Nat)
    (hto1 : (s.mas[F.id]!).released ≤ to) (hto2 : to ≤ F.L)
    (hterm : ∀ ix : Nat, (s.mas[F.id]!).released ≤ ix → ix < to → (s.mas[F.id]!).term ix = true)
    (hinv : C.Inv (F.m0 + to) s1) : MAInv C F p (setRel F.id to s1) := by
  have hm1 : s1.mas[F.id]! = s.mas[F.id]! := hmas F.id h.top
  have hid1 : F.id < s1.mas.size := by rw [hsz]; exact h.hid
  have hm2 : (setRel F.id to s1).mas[F.id]! = { (s.mas[F.id]!) with released := to } := by
    rw [setRel_get _ _ _ hid1, hm1]
  have sb : SameBut C.top s1 (setRel F.id to s1) := setRel_same C.top F.id to s1 h.top
  have hv2 : G.view (setRel F.id to s1) = G.view s1 := view_same G _ _ rfl
  have hinv2 : C.Inv (F.m0 + to) (setRel F.id to s1) := C.frame hinv sb
  refine ⟨C.base hinv2, by rw [setRel_size]; exact hid1, ?_, h.srcs, ?_, ?_, h.front, h.tpos,
    h.top, h.below, h.disjT, h.disjD, h.dsub, h.coverT, h.coverD, h.ddp⟩
  · rw [hm2, hv2]; exact (h.ti.ext hv).withReleased to hto1 hto2 hterm
  · rw [hm2]; exact C.inv_w hinv2
  · rw [hm2]; exact Or.inl hinv2

/-! ## the batches handed to the parent are aligned -/

theorem align_ack {G : Ctx} {F : FanCtx} {v : MV} {p : Nat} {m : MA} (h : TI G F v p m)
    (hsrc : ∀ ix : Nat, ix < F.L → ∃ src, G.all[F.m0 + ix]? = some src) (f t : Nat) (ht : t ≤ F.L)
    (hterm : ∀ ix : Nat, f ≤ ix → ix < t → m.term ix = true) : Align G (F.m0 + f) (maAckBatch m f t) := by
  constructor
  · intro q pp hq
    simp only [maAckBatch, List.getElem?_drop, List.getElem?_take] at hq
    by_cases hlt : f + q < t
    · simp only [hlt, if_true] at hq
      obtain ⟨src, hs⟩ := hsrc (f + q) (by omega)
      refine ⟨src, by rw [Nat.add_assoc]; exact hs, ?_⟩
      rw [← h.keys (f + q) src (by omega) hs]
      unfold kAt
      rw [hq]
      rfl
    · simp [hlt] at hq
  · intro q r src hr hs
    simp only [maAckBatch, List.getElem?_drop, List.getElem?_take] at hr
    by_cases hlt : f + q < t
    · simp only [hlt, if_true] at hr
      rw [Nat.add_assoc] at hs
      have := h.lin (f + q) src (by omega) hs (Or.inl (hterm _ (by omega) hlt))
      rw [hr] at this
      exact this
    · simp [hlt] at hr

theorem align_nack {G : Ctx} {F : FanCtx} {v : MV} {p : Nat} {m : MA} (h : TI G F v p m)
    (hsrc : ∀ ix : Nat, ix < F.L → ∃ src, G.all[F.m0 + ix]? = some src) (ix : Nat) (hix : ix < F.L)
    (hterm : m.term ix = true) : Align G (F.m0 + ix) (maNackBatch m ix) := by
  constructor
  · intro q pp hq
    cases q with
    | zero =>
      simp only [maNackBatch, List.getElem?_cons_zero, Option.some.injEq] at hq
      obtain ⟨src, hs⟩ := hsrc ix hix
      refine ⟨src, hs, ?_⟩
      rw [← h.keys ix src hix hs, ← hq]
      rfl
    | succ q => simp [maNackBatch] at hq
  · intro q r src hr hs
    cases q with
    | zero =>
      simp only [maNackBatch, List.getElem?_cons_zero, Option.some.injEq] at hr
      have := h.lin ix src hix hs (Or.inl hterm)
      rw [hr] at this
      exact this
    | succ q => simp [maNackBatch] at hr

/-! ## the loop -/

/-- outcome of `releaseLocked` -/
structure RelF {G : Ctx} {a : Acker} (C : MC G a) (F : FanCtx) (p : Nat) (s s' : PS) : Prop where
  inv : MAInv C F p s'
  view : ExtT [] [] (fun _ => False) (G.view s) (G.view s')
  size : s'.mas.size = s.mas.size
  frame : ∀ i : Nat, F.id + 1 ≤ i → s'.mas[i]! = s.mas[i]!
  same : s'.mas[F.id]! = { (s.mas[F.id]!) with released := (s'.mas[F.id]!).released }
  dead : ∀ j : Nat, C.Dead s j → C.Dead s' j

theorem RelF.refl {G : Ctx} {a : Acker} {C : MC G a} {F : FanCtx} {p : Nat} {s : PS} (h : MAInv C F p s) :
    RelF C F p s s :=
  ⟨h, ExtT.refl _ _ _ _, rfl, fun _ _ => rfl, rfl, fun _ hj => hj⟩

/-- one parent call for the slots `[released, to)` followed by the rest of the loop -/
theorem releaseF_chunk {G : Ctx} {a : Acker} (C : MC G a) (F : FanCtx) (fuel p : Nat) (s s' : PS)
    (r : Except Stop Unit) (h : MAInv C F p s) (b : Batch) (isAck : Bool) (task to : Nat)
    (hto1 : (s.mas[F.id]!).released ≤ to) (hto2 : to ≤ F.L)
    (hterm : ∀ ix : Nat, (s.mas[F.id]!).released ≤ ix → ix < to → (s.mas[F.id]!).term ix = true)
    (hcall : ∀ (s1 : PS) (r1 : Except Stop Unit), exec (ackerCall fuel a b isAck task) s = (r1, s1) →
      ExtT [] [] (fun _ => False) (G.view s) (G.view s1) ∧ s1.mas.size = s.mas.size ∧
      (∀ i : Nat, C.top ≤ i → s1.mas[i]! = s.mas[i]!) ∧ (∀ j : Nat, C.Dead s j → C.Dead s1 j) ∧
      (r1 = .ok () → C.Inv (F.m0 + to) s1) ∧ (r1 ≠ .ok () → MAInv C F p s1))
    (ih : ∀ (p : Nat) (s s' : PS) (r : Except Stop Unit), MAInv C F p s →
      exec (releaseLoop fuel F.id a) s = (r, s') → RelF C F p s s')
    (hx : exec (do
        ackerCall fuel a b isAck task
        modify fun s => { s with mas := s.mas.set! F.id { (s.mas[F.id]!) with released := to } }
        releaseLoop fuel F.id a) s = (r, s')) : RelF C F p s s' := by
  rw [exec_bind] at hx
  rcases hc : exec (ackerCall fuel a b isAck task) s with ⟨r1, s1⟩
  rw [hc] at hx
  obtain ⟨p1, p2, p3, p4, p5, p6⟩ := hcall s1 r1 hc
  have htop := h.top
  have hm1 : s1.mas[F.id]! = s.mas[F.id]! := p3 F.id htop
  cases r1 with
  | error e =>
    dsimp only at hx
    cases hx
    exact ⟨p6 (fun h => nomatch h), p1, p2, fun i hi => p3 i (by omega), by rw [hm1], p4⟩
  | ok u =>
    dsimp only at hx
    rw [exec_bind, exec_modify] at hx
    dsimp only at hx
    have hx' : exec (releaseLoop fuel F.id a) (setRel F.id to s1) = (r, s') := hx
    have hid1 : F.id < s1.mas.size := by rw [p2]; exact h.hid
    have hinv2 : MAInv C F p (setRel F.id to s1) := h.advance p1 p2 p3 to hto1 hto2 hterm (p5 rfl)
    have hm2 : (setRel F.id to s1).mas[F.id]! = { (s.mas[F.id]!) with released := to } := by
      rw [setRel_get _ _ _ hid1, hm1]
    have hv2 : G.view (setRel F.id to s1) = G.view s1 := view_same G _ _ rfl
    obtain ⟨q1, q2, q3, q4, q5, q6⟩ := ih p _ s' r hinv2 hx'
    refine ⟨q1, ?_, by rw [q3, setRel_size, p2], fun i hi => ?_, ?_, fun j hj => ?_⟩
    · rw [hv2] at q2; exact p1.trans q2
    · rw [q4 i hi, setRel_other _ _ _ _ (by omega), p3 i (by omega)]
    · rw [q5, hm2]
    · exact q6 j (C.dead_frame (p4 j hj) (setRel_same C.top F.id to s1 htop))

/-- The release loop, as a structure. The hypothesis `hbaseW` (the weak invariant of the parent
chain implies the base invariant) is needed after a failed parent `Nack`. -/
theorem releaseF' {G : Ctx} {a : Acker} (C : MC G a) (hben : Benign C)
    (hbaseW : ∀ {p : Nat} {s : PS}, C.InvW p s → Base G s) (F : FanCtx) :
    ∀ (fuel : Nat) (p : Nat) (s s' : PS) (r : Except Stop Unit),
      MAInv C F p s → exec (releaseLoop fuel F.id a) s = (r, s') → RelF C F p s s' := by
  intro fuel
  induction fuel with
  | zero =>
    intro p s s' r h hx
    rw [releaseLoop] at hx
    cases hx
    exact RelF.refl h
  | succ fuel ih =>
    intro p s s' r h hx
    rw [releaseLoop, exec_bind, exec_get] at hx
    dsimp only at hx
    have hti := h.ti
    have hparW := h.parW
    have hpar := h.par
    generalize hm : s.mas[F.id]! = m at hx hti hparW hpar
    have hlen := hti.len
    by_cases h1 : m.released < m.positions.length
    · by_cases ht : m.term m.released = true
      · by_cases ha : m.ack m.released = true
        · obtain ⟨_, hkpos, hkle, hrun⟩ := maAckRun_spec m m.released h1 ht ha
          have ht0 := ht
          have ha0 := ha
          simp only [MA.term, MA.ack] at ht ha
          simp only [h1, ht, ha, if_true, Bool.not_true, Bool.false_eq_true, if_false] at hx
          have hk : (List.takeWhile (fun t => m.terminal[t]?.getD false && m.acked[t]?.getD false)
              (List.drop m.released (List.range m.positions.length))).length = (maAckRun m m.released).length := rfl
          rw [hk] at hx
          generalize (maAckRun m m.released).length = k at *
          refine releaseF_chunk C F fuel p s s' r h _ true 0 (m.released + k) (by rw [hm]; omega) (by omega)
            (by rw [hm]; intro ix a1 a2; exact (hrun ix a1 a2).1) ?_ ih hx
          intro s1 r1 hc
          have hInv : C.Inv (F.m0 + m.released) s := by
            rcases hpar with hp | ⟨_, _, h3⟩
            · exact hp
            · rw [ha0] at h3; cases h3
          have hb := maAckBatch_BOK m hti.mok m.released (m.released + k) (by omega) hkle
          have hal : Align G (F.m0 + m.released) (maAckBatch m m.released (m.released + k)) :=
            align_ack hti h.srcs m.released (m.released + k) (by omega) (fun ix a1 a2 => (hrun ix a1 a2).1)
          have hlenb : (maAckBatch m m.released (m.released + k)).pos.length = k := by
            simp only [maAckBatch, List.length_drop, List.length_take]; omega
          have hj : ∀ (q : Nat) (src : Rec), q < (maAckBatch m m.released (m.released + k)).pos.length →
              G.all[F.m0 + m.released + q]? = some src →
              ActiveT (G.view s) C.T C.D (root src) ∨ FilteredT (G.view s) C.T C.D (root src) := by
            intro q src hq hs
            rw [hlenb] at hq
            rw [Nat.add_assoc] at hs
            obtain ⟨tt, aa⟩ := hrun (m.released + q) (by omega) (by omega)
            obtain ⟨_, hM, hvf⟩ := hti.acked (m.released + q) src (by omega) hs tt aa
            exact ((hvf (by omega)).mono (h.coverT hM) (h.coverD hM)).just
          have co := C.ack fuel _ _ s s1 r1 hInv hb rfl hal hj hc
          refine ⟨co.view, co.masSize, co.mas, co.dead, fun hr => ?_, fun hr => ?_⟩
          · have := co.ok hr
            rw [hlenb, Nat.add_assoc] at this
            exact this
          · have hi1 := hben.ackFail fuel _ _ s s1 r1 hInv hb rfl hal hj hc hr
            exact h.call co.view co.masSize co.mas (C.base hi1) (by rw [hm]; exact C.inv_w hi1)
              (Or.inl (by rw [hm]; exact hi1))
        · have ha' : m.ack m.released = false := by simpa using ha
          have hne := hti.mok.nack_err m.released h1 ht ha'
          have ht0 := ht
          have ha0 := ha'
          simp only [MA.term, MA.ack] at ht ha'
          simp only [h1, ht, ha', if_true, Bool.not_true, Bool.false_eq_true, if_false] at hx
          refine releaseF_chunk C F fuel p s s' r h _ false _ (m.released + 1) (by rw [hm]; omega) (by omega)
            (by
              rw [hm]; intro ix a1 a2
              have : ix = m.released := by omega
              subst this; exact ht0) ?_ ih hx
          intro s1 r1 hc
          have hb : BOK (maNackBatch m m.released) := ⟨Or.inl rfl, (fun rs h => nomatch h), rfl, rfl⟩
          have hnk : NackOK (maNackBatch m m.released) := by
            intro st hst
            simp only [maNackBatch, List.mem_singleton] at hst
            subst hst
            exact hne
          have hal : Align G (F.m0 + m.released) (maNackBatch m m.released) :=
            align_nack hti h.srcs m.released (by omega) ht0
          have hlenb : (maNackBatch m m.released).pos.length = 1 := rfl
          obtain ⟨co, _⟩ := C.nack fuel _ _ _ s s1 r1 hparW hb rfl hnk hal (by rw [hlenb]; omega) hc
          refine ⟨co.view, co.masSize, co.mas, co.dead, fun hr => ?_, fun hr => ?_⟩
          · have := co.ok hr
            rw [hlenb, Nat.add_assoc] at this
            exact this
          · have hw := co.stutter (by rw [hlenb]; omega) hr
            exact h.call co.view co.masSize co.mas (hbaseW hw) (by rw [hm]; exact hw)
              (Or.inr (by rw [hm]; exact ⟨by omega, ht0, ha0⟩))
      · have ht' : m.term m.released = false := by simpa using ht
        simp only [MA.term] at ht'
        simp only [h1, ht', if_true, Bool.not_false] at hx
        have hx' : exec (pure () : M Unit) s = (r, s') := hx
        rw [exec_pure] at hx'
        cases hx'
        exact RelF.refl h
    · simp only [h1, if_false] at hx
      have hx' : exec (pure () : M Unit) s = (r, s') := hx
      rw [exec_pure] at hx'
      cases hx'
      exact RelF.refl h

/-- The release loop: whatever happens `MAInv` holds afterwards (a failed parent `Ack` is benign, a
failed parent `Nack` of the single record at the release point leaves the parent in its weak
invariant with that record terminal and nacked); no monitor fact other than DLQ facts and acks
changes; only tally `F.id` (its `released` field) and the tallies below `C.top` change.
(`hs` is not needed; `hbaseW` is needed after a failed parent `Nack`.) -/
theorem releaseF {G : Ctx} {a : Acker} (C : MC G a) (hben : Benign C)
    (hbaseW : ∀ {p : Nat} {s : PS}, C.InvW p s → Base G s) (hs : Src G) (F : FanCtx) :
    ∀ (fuel : Nat) (p : Nat) (s s' : PS) (r : Except Stop Unit),
      MAInv C F p s → exec (releaseLoop fuel F.id a) s = (r, s') →
      MAInv C F p s' ∧ ExtT [] [] (fun _ => False) (G.view s) (G.view s') ∧ s'.mas.size = s.mas.size ∧
      (∀ i : Nat, F.id + 1 ≤ i → s'.mas[i]! = s.mas[i]!) ∧
      (s'.mas[F.id]! = { (s.mas[F.id]!) with released := (s'.mas[F.id]!).released }) ∧
      (∀ j : Nat, C.Dead s j → C.Dead s' j) := by
  intro fuel p s s' r h hx
  obtain ⟨q1, q2, q3, q4, q5, q6⟩ := releaseF' C hben hbaseW F fuel p s s' r h hx
  exact ⟨q1, q2, q3, q4, q5, q6⟩

end Conduit.Funnel
