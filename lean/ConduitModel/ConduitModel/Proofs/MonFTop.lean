import ConduitModel.Proofs.MonFFan
import ConduitModel.Proofs.MonRun

/-!
# From the task recursion to the whole run: trees with (non-nested) fan-out, no record splitting
-/
namespace Conduit.Funnel
open Conduit.Funnel.Mon

/-- the task recursion under the root handler chain, for trees without nested fan-out -/
theorem pipeF_fan1 {G : Ctx} (hs : Src G) (hns : NS G.scripts) (fuel : Nat) : PipeF G Fan1 (IsWorker G hs) fuel :=
  (pipeF_all (Good := Fan1) (P := IsWorker G hs) hs hns (fun node hg hl => hg.child hl)
    (fun fuel _ => fanF_worker hs hns fuel) fuel fuel (Nat.le_refl _)).1

/-- no attributed fact concerns a record that has not been acknowledged yet (true between passes) -/
structure RestedT (G : Ctx) (s : PS) : Prop where
  err : ∀ x ∈ G.errT s, NonPend G (nAcked s) x.2
  wr : ∀ e ∈ (G.mu s).written, NonPend G (nAcked s) e.2.1

theorem RestedT.out {G : Ctx} {s s' : PS} {n0 len : Nat} {Ts Ds : List Nat} (h : RestedT G s)
    (he : ExtT Ts Ds (InR G n0 len) (G.view s) (G.view s')) (hn : nAcked s ≤ n0 + len) (hn' : nAcked s' = n0 + len) :
    RestedT G s' := by
  refine ⟨?_, ?_⟩
  · intro x hx
    rw [hn']
    rcases he.err_new x hx with h1 | ⟨_, h1⟩
    · exact (h.err x h1).mono hn
    · exact h1.nonPend
  · intro e hx
    rw [hn']
    rcases he.wr_new e hx with h1 | ⟨_, h1⟩
    · exact (h.wr e h1).mono hn
    · exact h1.nonPend

theorem RestedT.same {G : Ctx} {s s' : PS} (h : RestedT G s) (hlog : s'.log = s.log) : RestedT G s' := by
  have hm := mu_same G s s' hlog
  have he := errT_same G s s' hlog
  have hn : nAcked s' = nAcked s := by unfold nAcked; rw [hlog]
  exact ⟨by rw [he, hn]; exact h.err, by rw [hm, hn]; exact h.wr⟩

/-- what is required of the task tree -/
structure TreeOKF (G : Ctx) : Prop where
  fan1 : Fan1 G.tree
  src : G.tree.kind = .source
  nodup : (tasksS G.tree).Nodup

/-- one pass on the batch `recs` = the records `n0 …` read -/
theorem runPass_monF {G : Ctx} (hs : Src G) (hns : NS G.scripts) (ht : TreeOKF G) (fuel : Nat) (recs : List Rec) (n0 : Nat)
    {s s' : PS} {r : Except Stop Unit} (hI : WInv G n0 s) (hq : RestedT G s)
    (hrecs : ∀ (q : Nat) (x : Rec), recs[q]? = some x → G.all[n0 + q]? = some x)
    (h : exec (runPass fuel G.tree recs) s = (r, s')) (hrp : RP G s') :
    OutC (workerMC G hs) (tasksS G.tree) (dests G.tree) n0 recs.length s s' r := by
  unfold runPass at h
  have hpos : (Batch.new recs).pos.length = recs.length := by simp [Batch.new]
  rw [← hpos]
  have hf := hI.front
  have hpend : ∀ (q : Nat) (src : Rec), G.all[n0 + q]? = some src → ¬ NonPend G n0 (root src) := by
    intro q src hsrc hn
    have := hn.lt hs hsrc (by omega)
    omega
  have hstnew : ∀ (q : Nat) (st : Status), (Batch.new recs).st[q]? = some st → st.flag = .ack := by
    intro q st hst
    simp only [Batch.new, List.getElem?_map] at hst
    cases hx : recs[q]? with
    | none => rw [hx] at hst; cases hst
    | some x => rw [hx] at hst; cases hst; rfl
  refine pipeF_fan1 hs hns fuel (.run .worker) (workerMC G hs) G.tree [] [] n0 (Batch.new recs) none true s s' r
    ht.fan1 rfl ?_ (fun _ => ht.src) hI (new_BInv recs) rfl ?_ ?_ ?_ ?_ h hrp
  · exact ⟨fun x hx => Or.inr hx, fun x hx => Or.inr hx, ht.nodup, fun x hx => hx, fun x hx => hx, fun x hx => hx,
      (fun x _ hm => nomatch hm), (fun x hm => nomatch hm)⟩
  · constructor
    · intro q p hp
      simp only [Batch.new, List.getElem?_map] at hp
      cases hx : recs[q]? with
      | none => rw [hx] at hp; cases hp
      | some x =>
        rw [hx] at hp
        simp only [Option.map_some, Option.some.injEq] at hp
        exact ⟨x, hrecs q x hx, by rw [← hp]⟩
    · intro q x src hx hsrc
      have hx' : recs[q]? = some x := hx
      have := hrecs q x hx'
      rw [this] at hsrc
      cases hsrc
      rfl
  · intro q st hst
    exact Or.inl (hstnew q st hst)
  · refine ⟨?_, ?_, ?_, ?_⟩
    · intro q st src _ _ _ _
      exact ⟨⟨(fun t ht => nomatch ht), (fun e _ hd => nomatch hd)⟩, (fun d hd => nomatch hd)⟩
    · intro q st src _ hst _ hfl
      rw [hstnew q st hst] at hfl; cases hfl
    · intro q st src _ hst _ hfl
      rw [hstnew q st hst] at hfl; cases hfl
    · intro q src _ _ hsrc
      refine ⟨fun t _ hx => ?_, fun e he _ hr => ?_⟩
      · have := hq.err _ hx
        rw [hf] at this
        exact hpend q src hsrc this
      · have := hq.wr e he
        rw [hf, hr] at this
        exact hpend q src hsrc this
  · intro e he _
    have := hq.wr e he
    rw [hf] at this
    exact this

/-- the passes of a run, from a state between two passes -/
theorem runBatches_monF {G : Ctx} (hs : Src G) (hns : NS G.scripts) (ht : TreeOKF G) (fuel : Nat) :
    ∀ (rest done : List (List Rec)) (s s' : PS) (r : Except Stop Unit),
      G.batches = done ++ rest → WInv G done.flatten.length s → RestedT G s →
      exec (runBatches fuel G.tree rest) s = (r, s') → RP G s' → (G.mu s').tv = [] := by
  intro rest
  induction rest with
  | nil =>
    intro done s s' r _ hI _ h _
    rw [exec_runBatches_nil] at h
    cases h
    exact hI.base.safe
  | cons b bs ih =>
    intro done s s' r hb hI hq h hrp
    rw [exec_runBatches_cons] at h
    rcases hx : exec (runPass fuel G.tree b) (resetPass s) with ⟨r1, s1⟩
    rw [hx] at h
    have hI0 : WInv G done.flatten.length (resetPass s) := hI.same rfl rfl
    have hq0 : RestedT G (resetPass s) := hq.same rfl
    have hrecs : ∀ (q : Nat) (x : Rec), b[q]? = some x → G.all[done.flatten.length + q]? = some x := by
      intro q x hqx
      have hql := (List.getElem?_eq_some_iff.mp hqx).1
      unfold Ctx.all
      rw [hb, List.flatten_append, List.flatten_cons, List.getElem?_append_right (by omega),
        Nat.add_sub_cancel_left, List.getElem?_append_left hql]
      exact hqx
    cases r1 with
    | error e =>
      dsimp only at h
      cases h
      exact (runPass_monF hs hns ht fuel b _ hI0 hq0 hrecs hx hrp).err (fun hh => nomatch hh)
    | ok u =>
      cases u
      dsimp only at h
      have hmono : s1.log.toList <+: s'.log.toList := by
        have := runBatches_log_mono fuel G.tree bs s1
        rw [h] at this
        exact this
      have o1 := runPass_monF hs hns ht fuel b _ hI0 hq0 hrecs hx (hrp.prefix hmono)
      have g1 := o1.ok rfl
      have hI1 : WInv G (done.flatten.length + b.length) s1 := g1
      have hq1 : RestedT G s1 := hq0.out o1.ext (by rw [hI0.front]; omega) hI1.front
      refine ih (done ++ [b]) s1 s' r (by rw [hb]; simp) ?_ hq1 h hrp
      have : (done ++ [b]).flatten.length = done.flatten.length + b.length := by simp
      rw [this]; exact hI1

end Conduit.Funnel
