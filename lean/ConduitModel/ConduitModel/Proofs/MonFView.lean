import ConduitModel.Proofs.MonInv
import ConduitModel.Proofs.MonTaskDefs

/-!
# Task-attributed views (for pipelines with fan-out)

With fan-out the same record travels through several branches; what one branch knows about a record
must not be disturbed by what the other branches do with it. So the facts are attributed to tasks:

* `G.errT s` — ghost refinement of the monitor's `errored`: the pairs (task, root) of every processor
  error reply so far (`mem_errored_iff`: its second components are exactly `errored`);
* `MV` — the monitor state together with this ghost list; `G.view s`;
* `ExtT Ts Ds R v v'` — frame: `v'` extends `v`, every new error fact is by a task in `Ts`, every new
  `written` entry is to a destination in `Ds`, all about roots satisfying `R`;
* `CleanT`, `ActiveT`, `FilteredT` — the per-record facts relative to the tasks `T` / destinations `D`
  the record has passed.
-/
namespace Conduit.Funnel
open Conduit.Funnel.Mon

/-! ## the ghost error list -/

/-- one event: the call counters and the attributed errors -/
def errStep (scripts : List (Nat × List Reply)) (st : List (Nat × Nat) × List (Nat × Nat)) (e : Ev) :
    List (Nat × Nat) × List (Nat × Nat) :=
  match e with
  | .pcall t recs =>
    (bumpL st.1 t, st.2 ++ (erroredBy recs (procOut (replyOfCall scripts t (callNoL st.1 t)))).map (fun x => (t, x)))
  | .write t _ => (bumpL st.1 t, st.2)
  | .dlqw t _ => (bumpL st.1 t, st.2)
  | .sack _ => st

def Ctx.errT (G : Ctx) (s : PS) : List (Nat × Nat) := (s.log.toList.foldl (errStep G.scripts) ([], [])).2

theorem pcallT_eq' (scr : List (Nat × List Reply)) (μ : TSt) (t : Nat) (recs : List Rec) :
    pcallT scr μ t recs =
      { μ with calls := bumpL μ.calls t,
               filtered := μ.filtered ++ filteredBy recs (procOut (replyOfCall scr t (callNoL μ.calls t))),
               errored := μ.errored ++ erroredBy recs (procOut (replyOfCall scr t (callNoL μ.calls t))) } := by
  unfold pcallT
  dsimp only
  cases h : replyOfCall scr t (callNoL μ.calls t) with
  | none => simp [procOut, filteredBy, erroredBy]
  | some rp =>
    cases rp with
    | proc out => rfl
    | dest w a => simp [procOut, filteredBy, erroredBy]

theorem errStep_foldl (tree : TaskNode) (scripts : List (Nat × List Reply)) : ∀ (log : List Ev) (μ : TSt) (acc : List (Nat × Nat)),
    acc.map (·.2) = μ.errored →
    (log.foldl (errStep scripts) (μ.calls, acc)).1 = (log.foldl (stepT tree scripts) μ).calls ∧
    ((log.foldl (errStep scripts) (μ.calls, acc)).2).map (·.2) = (log.foldl (stepT tree scripts) μ).errored := by
  intro log
  induction log with
  | nil => intro μ acc h; exact ⟨rfl, h⟩
  | cons e log ih =>
    intro μ acc h
    rw [List.foldl_cons, List.foldl_cons]
    cases e with
    | pcall t r =>
      have hs : stepT tree scripts μ (.pcall t r) = pcallT scripts μ t r := rfl
      have hc : (pcallT scripts μ t r).calls = bumpL μ.calls t := by rw [pcallT_eq']
      have he : (pcallT scripts μ t r).errored =
          μ.errored ++ erroredBy r (procOut (replyOfCall scripts t (callNoL μ.calls t))) := by rw [pcallT_eq']
      have := ih (pcallT scripts μ t r)
        (acc ++ (erroredBy r (procOut (replyOfCall scripts t (callNoL μ.calls t)))).map (fun x => (t, x)))
        (by rw [he]; simp [h, List.map_map, Function.comp_def])
      rw [hc] at this
      rw [hs]
      exact this
    | write t r => exact ih (writeT scripts μ t r) acc h
    | dlqw t r => exact ih (dlqwT scripts μ t r) acc h
    | sack ps =>
      have hf := foldl_ackT_fields tree ps μ
      have hs : stepT tree scripts μ (.sack ps) = ps.foldl (ackT tree) μ := rfl
      have := ih (stepT tree scripts μ (.sack ps)) acc (by rw [hs, hf.2.2.2.1]; exact h)
      rw [hs, hf.2.1] at this
      rw [hs]
      exact this

theorem errT_errored (G : Ctx) (s : PS) : (G.errT s).map (·.2) = (G.mu s).errored :=
  (errStep_foldl G.tree G.scripts s.log.toList { pending := G.batches.flatten } [] rfl).2

theorem mem_errored_iff (G : Ctx) (s : PS) (x : Nat) : x ∈ (G.mu s).errored ↔ ∃ t, (t, x) ∈ G.errT s := by
  rw [← errT_errored, List.mem_map]
  constructor
  · rintro ⟨⟨t, y⟩, hm, rfl⟩; exact ⟨t, hm⟩
  · rintro ⟨t, hm⟩; exact ⟨(t, x), hm, rfl⟩

theorem errT_calls (G : Ctx) (s : PS) : (s.log.toList.foldl (errStep G.scripts) ([], [])).1 = (G.mu s).calls :=
  (errStep_foldl G.tree G.scripts s.log.toList { pending := G.batches.flatten } [] rfl).1

/-- the attributed errors one event adds -/
def errNew (G : Ctx) (s : PS) : Ev → List (Nat × Nat)
  | .pcall t recs => (erroredBy recs (procOut (replyOfCall G.scripts t (callNoL (G.mu s).calls t)))).map (fun x => (t, x))
  | _ => []

/-- one more event -/
theorem errT_push (G : Ctx) (s s' : PS) (e : Ev) (h : s'.log = s.log.push e) :
    G.errT s' = G.errT s ++ errNew G s e := by
  unfold Ctx.errT
  rw [h, Array.toList_push, List.foldl_append]
  simp only [List.foldl_cons, List.foldl_nil]
  cases e with
  | pcall t r => simp only [errStep, errNew]; rw [errT_calls]
  | write t r => simp [errStep, errNew]
  | dlqw t r => simp [errStep, errNew]
  | sack ps => simp [errStep, errNew]

theorem errT_same (G : Ctx) (s s' : PS) (h : s'.log = s.log) : G.errT s' = G.errT s := by
  unfold Ctx.errT; rw [h]

/-! ## views -/

/-- the monitor state with the attributed errors -/
structure MV where
  μ : TSt
  E : List (Nat × Nat)

def Ctx.view (G : Ctx) (s : PS) : MV := ⟨G.mu s, G.errT s⟩

/-- frame with attribution -/
structure ExtT (Ts Ds : List Nat) (R : Nat → Prop) (v v' : MV) : Prop where
  filt_mono : ∀ x ∈ v.μ.filtered, x ∈ v'.μ.filtered
  filt_new : ∀ x ∈ v'.μ.filtered, x ∈ v.μ.filtered ∨ R x
  err_mono : ∀ x ∈ v.E, x ∈ v'.E
  err_new : ∀ x ∈ v'.E, x ∈ v.E ∨ (x.1 ∈ Ts ∧ R x.2)
  wr_mono : ∀ e ∈ v.μ.written, e ∈ v'.μ.written
  wr_new : ∀ e ∈ v'.μ.written, e ∈ v.μ.written ∨ (e.1 ∈ Ds ∧ R e.2.1)

theorem ExtT.refl (Ts Ds : List Nat) (R : Nat → Prop) (v : MV) : ExtT Ts Ds R v v :=
  ⟨fun _ h => h, fun _ h => Or.inl h, fun _ h => h, fun _ h => Or.inl h, fun _ h => h, fun _ h => Or.inl h⟩

theorem ExtT.trans {Ts Ds : List Nat} {R : Nat → Prop} {a b c : MV} (h1 : ExtT Ts Ds R a b) (h2 : ExtT Ts Ds R b c) :
    ExtT Ts Ds R a c where
  filt_mono := fun x h => h2.filt_mono x (h1.filt_mono x h)
  filt_new := fun x h => (h2.filt_new x h).elim (fun h => h1.filt_new x h) Or.inr
  err_mono := fun x h => h2.err_mono x (h1.err_mono x h)
  err_new := fun x h => (h2.err_new x h).elim (fun h => h1.err_new x h) Or.inr
  wr_mono := fun x h => h2.wr_mono x (h1.wr_mono x h)
  wr_new := fun x h => (h2.wr_new x h).elim (fun h => h1.wr_new x h) Or.inr

theorem ExtT.mono {Ts Ds Ts' Ds' : List Nat} {R R' : Nat → Prop} {a b : MV} (h : ExtT Ts Ds R a b)
    (ht : ∀ x ∈ Ts, x ∈ Ts') (hd : ∀ x ∈ Ds, x ∈ Ds') (hr : ∀ x, R x → R' x) : ExtT Ts' Ds' R' a b where
  filt_mono := h.filt_mono
  filt_new := fun x hx => (h.filt_new x hx).imp id (hr x)
  err_mono := h.err_mono
  err_new := fun x hx => (h.err_new x hx).imp id (fun h => ⟨ht _ h.1, hr _ h.2⟩)
  wr_mono := h.wr_mono
  wr_new := fun x hx => (h.wr_new x hx).imp id (fun h => ⟨hd _ h.1, hr _ h.2⟩)

/-- views with the same fact lists -/
theorem ExtT.of_eq (Ts Ds : List Nat) (R : Nat → Prop) {v v' : MV} (h1 : v'.μ.filtered = v.μ.filtered) (h2 : v'.E = v.E)
    (h3 : v'.μ.written = v.μ.written) : ExtT Ts Ds R v v' := by
  refine ⟨?_, ?_, ?_, ?_, ?_, ?_⟩ <;> intro x hx
  · rw [h1]; exact hx
  · rw [h1] at hx; exact Or.inl hx
  · rw [h2]; exact hx
  · rw [h2] at hx; exact Or.inl hx
  · rw [h3]; exact hx
  · rw [h3] at hx; exact Or.inl hx

/-! ## per-record facts, relative to the tasks `T` and destinations `D` passed -/

/-- no task of `T` returned an error for root `ρ`, no destination of `D` rejected a piece of it -/
def CleanT (v : MV) (T D : List Nat) (ρ : Nat) : Prop :=
  (∀ t ∈ T, (t, ρ) ∉ v.E) ∧ ∀ e ∈ v.μ.written, e.1 ∈ D → e.2.1 = ρ → e.2.2.2 = true

def ActiveT (v : MV) (T D : List Nat) (ρ : Nat) : Prop := CleanT v T D ρ ∧ ∀ d ∈ D, WrittenTo v.μ d ρ

def FilteredT (v : MV) (T D : List Nat) (ρ : Nat) : Prop := CleanT v T D ρ ∧ ρ ∈ v.μ.filtered

/-- no task of `Ts` / destination of `Ds` has seen root `ρ` yet -/
def FreshT (v : MV) (Ts Ds : List Nat) (ρ : Nat) : Prop :=
  (∀ t ∈ Ts, (t, ρ) ∉ v.E) ∧ ∀ e ∈ v.μ.written, e.1 ∈ Ds → e.2.1 ≠ ρ

theorem CleanT.ext {v v' : MV} {T D Ts Ds : List Nat} {R : Nat → Prop} {ρ : Nat} (h : CleanT v T D ρ)
    (he : ExtT Ts Ds R v v') (hr : ¬ R ρ ∨ ((∀ t ∈ Ts, t ∉ T) ∧ ∀ d ∈ Ds, d ∉ D)) : CleanT v' T D ρ := by
  refine ⟨fun t ht hx => ?_, fun e hm hd hroot => ?_⟩
  · rcases he.err_new _ hx with h1 | ⟨h1, h2⟩
    · exact h.1 t ht h1
    · rcases hr with hr | hr
      · exact hr h2
      · exact hr.1 t h1 ht
  · rcases he.wr_new e hm with h1 | ⟨h1, h2⟩
    · exact h.2 e h1 hd hroot
    · rcases hr with hr | hr
      · rw [hroot] at h2; exact absurd h2 hr
      · exact absurd hd (hr.2 _ h1)

theorem WrittenTo.extT {v v' : MV} {Ts Ds : List Nat} {R : Nat → Prop} {d ρ : Nat} (h : WrittenTo v.μ d ρ)
    (he : ExtT Ts Ds R v v') : WrittenTo v'.μ d ρ := by
  obtain ⟨e, hm, h1, h2⟩ := h
  exact ⟨e, he.wr_mono e hm, h1, h2⟩

theorem ActiveT.ext {v v' : MV} {T D Ts Ds : List Nat} {R : Nat → Prop} {ρ : Nat} (h : ActiveT v T D ρ)
    (he : ExtT Ts Ds R v v') (hr : ¬ R ρ ∨ ((∀ t ∈ Ts, t ∉ T) ∧ ∀ d ∈ Ds, d ∉ D)) : ActiveT v' T D ρ :=
  ⟨h.1.ext he hr, fun d hd => (h.2 d hd).extT he⟩

theorem FilteredT.ext {v v' : MV} {T D Ts Ds : List Nat} {R : Nat → Prop} {ρ : Nat} (h : FilteredT v T D ρ)
    (he : ExtT Ts Ds R v v') (hr : ¬ R ρ ∨ ((∀ t ∈ Ts, t ∉ T) ∧ ∀ d ∈ Ds, d ∉ D)) : FilteredT v' T D ρ :=
  ⟨h.1.ext he hr, he.filt_mono ρ h.2⟩

theorem FreshT.ext {v v' : MV} {Ts Ds Ts' Ds' : List Nat} {R : Nat → Prop} {ρ : Nat} (h : FreshT v Ts Ds ρ)
    (he : ExtT Ts' Ds' R v v') (hr : ¬ R ρ ∨ ((∀ t ∈ Ts', t ∉ Ts) ∧ ∀ d ∈ Ds', d ∉ Ds)) : FreshT v' Ts Ds ρ := by
  refine ⟨fun t ht hx => ?_, fun e hm hd hroot => ?_⟩
  · rcases he.err_new _ hx with h1 | ⟨h1, h2⟩
    · exact h.1 t ht h1
    · rcases hr with hr | hr
      · exact hr h2
      · exact hr.1 t h1 ht
  · rcases he.wr_new e hm with h1 | ⟨h1, h2⟩
    · exact h.2 e h1 hd hroot
    · rcases hr with hr | hr
      · rw [hroot] at h2; exact hr h2
      · exact hr.2 _ h1 hd

/-- a clean record that meets fresh tasks is clean for them too -/
theorem CleanT.fresh {v : MV} {T D Ts Ds : List Nat} {ρ : Nat} (h : CleanT v T D ρ) (hf : FreshT v Ts Ds ρ) :
    CleanT v (T ++ Ts) (D ++ Ds) ρ := by
  refine ⟨fun t ht => ?_, fun e hm hd hroot => ?_⟩
  · rcases List.mem_append.mp ht with h1 | h1
    · exact h.1 t h1
    · exact hf.1 t h1
  · rcases List.mem_append.mp hd with h1 | h1
    · exact h.2 e hm h1 hroot
    · exact absurd hroot (hf.2 e hm h1)

theorem CleanT.mono {v : MV} {T D T' D' : List Nat} {ρ : Nat} (h : CleanT v T D ρ) (ht : ∀ x ∈ T', x ∈ T)
    (hd : ∀ x ∈ D', x ∈ D) : CleanT v T' D' ρ :=
  ⟨fun t h1 => h.1 t (ht t h1), fun e hm h1 hr => h.2 e hm (hd _ h1) hr⟩

end Conduit.Funnel
