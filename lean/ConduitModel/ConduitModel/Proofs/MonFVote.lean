import ConduitModel.Proofs.MonFMultiDefs

/-!
# The vote loop of `multiAckNacker.Ack` / `.Nack` against the monitor view
-/
namespace Conduit.Funnel
open Conduit.Funnel.Mon

/-! ## vote facts -/

theorem VF.of_just {v : MV} {T D : List Nat} {ρ : Nat} (h : ActiveT v T D ρ ∨ FilteredT v T D ρ) : VF v T D ρ := by
  rcases h with h | h
  · exact ⟨h.1, fun d hd => Or.inl (h.2 d hd)⟩
  · exact ⟨h.1, fun _ _ => Or.inr h.2⟩

theorem VF.just {v : MV} {T D : List Nat} {ρ : Nat} (h : VF v T D ρ) : ActiveT v T D ρ ∨ FilteredT v T D ρ := by
  by_cases hf : ρ ∈ v.μ.filtered
  · exact Or.inr ⟨h.1, hf⟩
  · exact Or.inl ⟨h.1, fun d hd => (h.2 d hd).resolve_right hf⟩

theorem VF.mono {v : MV} {T D T' D' : List Nat} {ρ : Nat} (h : VF v T D ρ) (ht : ∀ x ∈ T', x ∈ T) (hd : ∀ x ∈ D', x ∈ D) :
    VF v T' D' ρ :=
  ⟨h.1.mono ht hd, fun d hd' => h.2 d (hd d hd')⟩

theorem VF.union {v : MV} {T1 D1 T2 D2 : List Nat} {ρ : Nat} (h1 : VF v T1 D1 ρ) (h2 : VF v T2 D2 ρ) :
    VF v (T1 ++ T2) (D1 ++ D2) ρ := by
  refine ⟨⟨fun t ht => ?_, fun e hm hd hr => ?_⟩, fun d hd => ?_⟩
  · rcases List.mem_append.mp ht with g | g
    · exact h1.1.1 t g
    · exact h2.1.1 t g
  · rcases List.mem_append.mp hd with g | g
    · exact h1.1.2 e hm g hr
    · exact h2.1.2 e hm g hr
  · rcases List.mem_append.mp hd with g | g
    · exact h1.2 d g
    · exact h2.2 d g

theorem VF.ext {v v' : MV} {T D Ts Ds : List Nat} {R : Nat → Prop} {ρ : Nat} (h : VF v T D ρ)
    (he : ExtT Ts Ds R v v') (hr : ¬ R ρ ∨ ((∀ t ∈ Ts, t ∉ T) ∧ ∀ d ∈ Ds, d ∉ D)) : VF v' T D ρ :=
  ⟨h.1.ext he hr, fun d hd => (h.2 d hd).imp (fun w => w.extT he) (he.filt_mono ρ)⟩

/-! ## what one vote does to the tally -/

/-- slots other than the voted one are untouched -/
theorem maVote1_other (m : MA) (a : Bool) (t : Nat) (it : VItem) (i : Nat) (h : i ≠ it.ix) :
    (maVote1 m a t it).term i = m.term i ∧ (maVote1 m a t it).ack i = m.ack i ∧
    (maVote1 m a t it).votes i = m.votes i ∧ (maVote1 m a t it).record[i]? = m.record[i]? := by
  grind [maVote1]

/-- a vote on a terminal slot is skipped -/
theorem maVote1_term_id (m : MA) (a : Bool) (t : Nat) (it : VItem) (h : m.term it.ix = true) :
    maVote1 m a t it = m := by
  simp [maVote1, h]

/-- an ack vote on a live slot -/
theorem maVote1_ack_new (m : MA) (t : Nat) (it : VItem) (wf : m.WF) (hr : m.record.length = m.positions.length)
    (hx : it.ix < m.positions.length) (h : m.term it.ix = false) :
    (maVote1 m true t it).votes it.ix = m.votes it.ix + 1 ∧
    (m.votes it.ix + 1 = m.branches →
      (maVote1 m true t it).term it.ix = true ∧ (maVote1 m true t it).ack it.ix = true) ∧
    (m.votes it.ix + 1 ≠ m.branches → (maVote1 m true t it).term it.ix = false) ∧
    (maVote1 m true t it).record[it.ix]?.getD default = it.r := by
  have := wf.votes_len; have := wf.term_len; have := wf.ack_len
  grind [maVote1]

/-- a nack vote on a live slot -/
theorem maVote1_nack_new (m : MA) (t : Nat) (it : VItem) (wf : m.WF) (hr : m.record.length = m.positions.length)
    (hx : it.ix < m.positions.length) (h : m.term it.ix = false) :
    (maVote1 m false t it).term it.ix = true ∧ (maVote1 m false t it).ack it.ix = false ∧
    (maVote1 m false t it).record[it.ix]?.getD default = it.r := by
  have := wf.votes_len; have := wf.term_len; have := wf.ack_len
  grind [maVote1]

/-! ## one vote, and a whole call -/

/-- the frontier of the running branch moves over slot `i0` while the tally changes only there -/
theorem TI.step {G : Ctx} {F : FanCtx} {v : MV} {p : Nat} {m m' : MA} (h : TI G F v p m)
    (i0 : Nat) (src : Rec) (hi0 : F.m0 + i0 = p) (hsrc : G.all[p]? = some src)
    (hmok : MOK m') (hbr : m'.branches = m.branches) (hpos : m'.positions = m.positions)
    (hrel : m'.released = m.released)
    (hoth : ∀ i : Nat, i ≠ i0 → m'.term i = m.term i ∧ m'.ack i = m.ack i ∧ m'.votes i = m.votes i ∧
      m'.record[i]? = m.record[i]?)
    (hfroz : m.term i0 = true → m'.term i0 = true)
    (hlo : m'.term i0 = false → m'.votes i0 ≤ F.t ∧ (m'.votes i0 = F.t → VF v F.TT F.DD (root src)))
    (hack : m'.term i0 = true → m'.ack i0 = true → F.t = F.M ∧ (m'.released ≤ i0 → VF v F.TT F.DD (root src)))
    (hlin : (m'.term i0 = true ∨ 0 < m'.votes i0) → root (m'.record[i0]?.getD default) = root src) :
    TI G F v (p + 1) m' := by
  have hsame : ∀ src' : Rec, G.all[F.m0 + i0]? = some src' → src' = src := by
    intro src' hs'
    rw [hi0, hsrc] at hs'
    exact (Option.some.inj hs').symm
  refine ⟨hmok, hbr.trans h.br, by rw [hpos]; exact h.len, ?_, ?_, ?_, ?_, ?_, ?_⟩
  · intro ix src' hl hs'
    have : kAt m' ix = kAt m ix := by unfold kAt; rw [hpos]
    rw [this]; exact h.keys ix src' hl hs'
  · intro ix src' hl hs' ht hp
    by_cases he : ix = i0
    · subst he
      rw [hsame src' hs']
      exact hlo ht
    · obtain ⟨o1, _, o3, _⟩ := hoth ix he
      rw [o1] at ht
      rw [o3]
      exact h.lo ix src' hl hs' ht (by omega)
  · intro ix src' hl hs' ht hp
    have he : ix ≠ i0 := by omega
    obtain ⟨o1, _, o3, _⟩ := hoth ix he
    rw [o1] at ht
    rw [o3]
    exact h.hi ix src' hl hs' ht (by omega)
  · intro ix src' hl hs' ht ha
    by_cases he : ix = i0
    · subst he
      rw [hsame src' hs']
      obtain ⟨a1, a2⟩ := hack ht ha
      exact ⟨by omega, a1, a2⟩
    · obtain ⟨o1, o2, _, _⟩ := hoth ix he
      rw [o1] at ht
      rw [o2] at ha
      obtain ⟨a1, a2, a3⟩ := h.acked ix src' hl hs' ht ha
      rw [hrel]
      exact ⟨by omega, a2, a3⟩
  · intro ix src' hl hs' ht
    by_cases he : ix = i0
    · subst he
      rw [hsame src' hs']
      exact hlin ht
    · obtain ⟨o1, _, o3, o4⟩ := hoth ix he
      rw [o1, o3] at ht
      rw [o4]
      exact h.lin ix src' hl hs' ht
  · intro ix hx
    rw [hrel] at hx
    have := h.rel ix hx
    by_cases he : ix = i0
    · subst he; exact hfroz this
    · rw [(hoth ix he).1]; exact this

theorem FanCtx.vf_full {F : FanCtx} {v : MV} {ρ : Nat} (h1 : VF v F.TTp F.DDp ρ)
    (h2 : VF v (F.Tp ++ F.Tcur) (F.Dp ++ F.Dcur) ρ) : VF v F.TT F.DD ρ := by
  refine (h1.union h2).mono ?_ ?_
  · intro x hx
    rcases List.mem_append.mp hx with g | g
    · exact List.mem_append_left _ g
    · exact List.mem_append_right _ (List.mem_append_right _ g)
  · intro x hx
    rcases List.mem_append.mp hx with g | g
    · exact List.mem_append_left _ g
    · exact List.mem_append_right _ (List.mem_append_right _ g)

/-- The running branch votes on the record at its frontier `p` (tally slot `it.ix = p - m0`): an ack
must be justified for the tasks / destinations above the fan-out and of the running branch. -/
theorem TI.vote1 {G : Ctx} {F : FanCtx} {v : MV} {p : Nat} {m : MA} (h : TI G F v p m) (ht : 0 < F.t ∧ F.t ≤ F.M)
    (it : VItem) (isAck : Bool) (task : Nat) (src : Rec)
    (hix : F.m0 + it.ix = p) (hlt : it.ix < F.L) (hsrc : G.all[p]? = some src) (hroot : root it.r = root src)
    (hjust : isAck = true → VF v (F.Tp ++ F.Tcur) (F.Dp ++ F.Dcur) (root src))
    (herr : isAck = false → it.err.isSome = true) :
    TI G F v (p + 1) (maVote1 m isAck task it) ∧
    (isAck = false → (maVote1 m isAck task it).term it.ix = true ∧ (maVote1 m isAck task it).ack it.ix = false) := by
  have hL : it.ix < m.positions.length := by rw [h.len]; exact hlt
  have hsrc0 : G.all[F.m0 + it.ix]? = some src := by rw [hix]; exact hsrc
  by_cases hterm : m.term it.ix = true
  · -- the slot is terminal already: the vote is skipped
    have e : maVote1 m isAck task it = m := maVote1_term_id m isAck task it hterm
    rw [e]
    have hnack : m.ack it.ix = false := by
      cases ha : m.ack it.ix with
      | false => rfl
      | true =>
        have := (h.acked it.ix src hlt hsrc0 hterm ha).1
        omega
    refine ⟨h.step it.ix src hix hsrc h.mok rfl rfl rfl (fun _ _ => ⟨rfl, rfl, rfl, rfl⟩) (fun x => x) ?_ ?_ ?_,
      fun _ => ⟨hterm, hnack⟩⟩
    · intro hf; rw [hterm] at hf; cases hf
    · intro _ ha; rw [hnack] at ha; cases ha
    · intro hl; exact h.lin it.ix src hlt hsrc0 hl
  · have hterm' : m.term it.ix = false := by simpa using hterm
    obtain ⟨hv1, hv2⟩ := h.hi it.ix src hlt hsrc0 hterm' (by omega)
    obtain ⟨f1, f2, f3⟩ := maVote1_frame m isAck task it
    have hmok := maVote1_MOK m isAck task it h.mok hL herr
    have hoth := maVote1_other m isAck task it
    cases isAck with
    | false =>
      obtain ⟨n1, n2, n3⟩ := maVote1_nack_new m task it h.mok.wf h.mok.rec_len hL hterm'
      refine ⟨h.step it.ix src hix hsrc hmok f3 f2 f1 hoth (fun _ => n1) ?_ ?_ ?_, fun _ => ⟨n1, n2⟩⟩
      · intro hf; rw [n1] at hf; cases hf
      · intro _ ha; rw [n2] at ha; cases ha
      · intro _; rw [n3]; exact hroot
    | true =>
      obtain ⟨a1, a2, a3, a4⟩ := maVote1_ack_new m task it h.mok.wf h.mok.rec_len hL hterm'
      have hvf : m.votes it.ix + 1 = F.t → VF v F.TT F.DD (root src) :=
        fun he => FanCtx.vf_full (hv2 he) (hjust rfl)
      refine ⟨h.step it.ix src hix hsrc hmok f3 f2 f1 hoth (fun hc => by rw [hterm'] at hc; cases hc) ?_ ?_ ?_,
        fun hc => by cases hc⟩
      · intro _
        rw [a1]
        exact ⟨hv1, hvf⟩
      · intro htm _
        have hb : m.votes it.ix + 1 = m.branches := by
          apply Classical.byContradiction
          intro hn
          rw [a3 hn] at htm; cases htm
        have hbr := h.br
        have e1 : F.t = F.M := by omega
        exact ⟨e1, fun _ => hvf (by omega)⟩
      · intro _; rw [a4]; exact hroot

/-- a partially voted tally: votes for the first `j` records of the call were recorded -/
def PVote (G : Ctx) (F : FanCtx) (v : MV) (p : Nat) (m : MA) (j : Nat) (m' : MA) : Prop :=
  TI G F v (p + j) m' ∧ m'.released = m.released ∧ p + j ≤ F.m0 + F.L ∧
  (∀ ix : Nat, m.term ix = true → m'.term ix = true ∧ m'.ack ix = m.ack ix)

/-- the vote loop from index `k` on, the frontier at `p + k` -/
theorem voteLoopF_aux {G : Ctx} (hs : Src G) {F : FanCtx} {v : MV} (ht : 0 < F.t ∧ F.t ≤ F.M)
    (ob : Batch) (isAck : Bool) (task : Nat) (hb : BOK ob) (p : Nat) (hfront : F.m0 ≤ p) (hal : Align G p ob)
    (hjust : isAck = true → ∀ (q : Nat) (src : Rec), q < ob.pos.length → G.all[p + q]? = some src →
      VF v (F.Tp ++ F.Tcur) (F.Dp ++ F.Dcur) (root src))
    (hne : isAck = false → NackOK ob) (s : PS) (id : Nat) :
    ∀ (cnt k : Nat) (m : MA), k + cnt ≤ ob.pos.length → TI G F v (p + k) m → p + k ≤ F.m0 + F.L →
    ∀ (r : Except Stop MA) (s1 : PS), exec (forIn (List.range' k cnt) m (voteBody id ob isAck task)) s = (r, s1) →
      (s1 = s ∨ ((∃ e, r = .error e) ∧ ∃ (j : Nat) (m' : MA), k ≤ j ∧ j < k + cnt ∧
        s1 = { s with mas := s.mas.set! id m' } ∧ PVote G F v p m j m')) ∧
      ∀ m', r = .ok m' → s1 = s ∧
        TI G F v (p + k + cnt) m' ∧ m'.released = m.released ∧ p + k + cnt ≤ F.m0 + F.L ∧
        (isAck = false → ∀ q : Nat, k ≤ q → q < k + cnt →
          m'.term (p - F.m0 + q) = true ∧ m'.ack (p - F.m0 + q) = false) ∧
        (∀ ix : Nat, m.term ix = true → m'.term ix = true ∧ m'.ack ix = m.ack ix) := by
  intro cnt
  induction cnt with
  | zero =>
    intro k m _ h hle r s1 hx
    cases hx
    exact ⟨Or.inl rfl, fun m' e => by
      cases e
      exact ⟨rfl, h, rfl, hle, fun _ q h1 h2 => by omega, fun ix hx => ⟨hx, rfl⟩⟩⟩
  | succ cnt ih =>
    intro k m hk h hle r s1 hx
    rw [List.range'_succ, List.forIn_cons, exec_bind] at hx
    have hi : k < ob.pos.length := by omega
    have hir : k < ob.recs.length := by have := hb.pos_len; omega
    have hist : k < ob.st.length := by have := hb.st_len; omega
    cases hit : itemAt m ob k with
    | none =>
      rw [voteBody_none id ob isAck task k m s hit] at hx
      cases hx
      exact ⟨Or.inr ⟨⟨_, rfl⟩, k, m, Nat.le_refl _, by omega, rfl, h, rfl, hle, fun ix hx => ⟨hx, rfl⟩⟩,
        fun m' h => by cases h⟩
    | some it =>
      rw [voteBody_step id ob isAck task k m it s hir hist hit] at hx
      dsimp only at hx
      have hit' := hit
      unfold itemAt at hit'
      cases hix : maIndexOf m (ob.pos[k]?).join with
      | none => rw [hix] at hit'; cases hit'
      | some ix =>
        rw [hix] at hit'
        simp only [Option.map_some, Option.some.injEq] at hit'
        obtain ⟨hltm, hkey⟩ := maIndexOf_some hix
        have e1 : it.ix = ix := by rw [← hit']
        have e2 : it.err = (ob.st[k]?).bind (·.err) := by rw [← hit']
        have e3 : it.r = ob.recs[k]?.getD default := by rw [← hit']
        have hposk : ob.pos[k]? = some ob.pos[k] := List.getElem?_eq_getElem hi
        rw [hposk] at hkey
        simp only [Option.join_some] at hkey
        obtain ⟨src, hsrc, hksrc⟩ := hal.pos k _ hposk
        rw [hksrc] at hkey
        have hltL : ix < F.L := by rw [← h.len]; exact hltm
        -- the slot found is the frontier's
        have hidx : F.m0 + ix = p + k := by
          by_cases hj : p + k - F.m0 < F.L
          · have hsj : G.all[F.m0 + (p + k - F.m0)]? = some src := by
              rw [show F.m0 + (p + k - F.m0) = p + k by omega]; exact hsrc
            have hkj := h.keys (p + k - F.m0) src hj hsj
            have := kAt_inj m h.mok ix (p + k - F.m0) hltm (by rw [h.len]; exact hj) (hkey.trans hkj.symm)
            omega
          · have hlen := (List.getElem?_eq_some_iff.mp hsrc).1
            have hlt' : F.m0 + ix < G.all.length := by omega
            have hs' : G.all[F.m0 + ix]? = some G.all[F.m0 + ix] := List.getElem?_eq_getElem hlt'
            have hk' := h.keys ix _ hltL hs'
            exact hs.idx_of_key hs' hsrc (hk'.symm.trans hkey)
        have herr : isAck = false → it.err.isSome = true := by
          intro ha
          rw [e2, List.getElem?_eq_getElem hist]
          exact hne ha _ (List.getElem_mem _)
        have hroot : root it.r = root src := by
          rw [e3, List.getElem?_eq_getElem hir]
          exact hal.lin k _ src (List.getElem?_eq_getElem hir) hsrc
        obtain ⟨t1, t2⟩ := h.vote1 ht it isAck task src (by rw [e1]; exact hidx) (by rw [e1]; exact hltL) hsrc hroot
          (fun ha => hjust ha k src hi hsrc) herr
        obtain ⟨f1, _, _⟩ := maVote1_frame m isAck task it
        obtain ⟨g1, g2⟩ := ih (k + 1) (maVote1 m isAck task it) (by omega) t1 (by omega) r s1 hx
        refine ⟨?_, fun m' hm' => ?_⟩
        · rcases g1 with g1 | ⟨ge, j, m', j1, j2, g1, q1, q2, q3, q4⟩
          · exact Or.inl g1
          · refine Or.inr ⟨ge, j, m', by omega, by omega, g1, q1, q2.trans f1, q3, ?_⟩
            intro jx hjx
            obtain ⟨z1, z2, _⟩ := maVote1_frozen m isAck task it jx hjx
            obtain ⟨y1, y2⟩ := q4 jx z1
            exact ⟨y1, y2.trans z2⟩
        obtain ⟨k0, k1, k2, k3, k4, k5⟩ := g2 m' hm'
        have ea : p + (k + 1) + cnt = p + k + (cnt + 1) := by omega
        rw [ea] at k1 k3
        refine ⟨k0, k1, k2.trans f1, k3, ?_, ?_⟩
        · intro ha q hq1 hq2
          by_cases hq : q = k
          · subst hq
            obtain ⟨n1, n2⟩ := t2 ha
            have eix : p - F.m0 + q = it.ix := by omega
            rw [eix]
            obtain ⟨z1, z2⟩ := k5 it.ix n1
            exact ⟨z1, z2.trans n2⟩
          · exact k4 ha q (by omega) (by omega)
        · intro jx hjx
          obtain ⟨z1, z2, _⟩ := maVote1_frozen m isAck task it jx hjx
          obtain ⟨y1, y2⟩ := k5 jx z1
          exact ⟨y1, y2.trans z2⟩

/-- The vote loop of one `Ack` / `Nack` call of the running branch on a batch `ob` aligned at its
frontier `p`: if the loop completes the state is untouched and the tally satisfies `TI` at
`p + ob.pos.length`, `released` is unchanged, and after a nack every slot of the batch is terminal
and not acked; if it fails, the state is untouched or the partially voted tally (`PVote`) was written back. -/
theorem voteLoopF {G : Ctx} (hs : Src G) {F : FanCtx} {v : MV} {p : Nat} {m : MA} (h : TI G F v p m)
    (ht : 0 < F.t ∧ F.t ≤ F.M) (hfront : F.m0 ≤ p) (hfrontL : p ≤ F.m0 + F.L)
    (ob : Batch) (isAck : Bool) (task : Nat) (hb : BOK ob) (hal : Align G p ob)
    (hjust : isAck = true → ∀ (q : Nat) (src : Rec), q < ob.pos.length → G.all[p + q]? = some src →
      VF v (F.Tp ++ F.Tcur) (F.Dp ++ F.Dcur) (root src))
    (hne : isAck = false → NackOK ob) (s : PS) (id : Nat) (r : Except Stop MA) (s1 : PS)
    (hx : exec (forIn (List.range ob.pos.length) m (voteBody id ob isAck task)) s = (r, s1)) :
    (s1 = s ∨ ((∃ e, r = .error e) ∧ ∃ (j : Nat) (m' : MA), j < ob.pos.length ∧
      s1 = { s with mas := s.mas.set! id m' } ∧ PVote G F v p m j m')) ∧
    ∀ m', r = .ok m' → s1 = s ∧
      TI G F v (p + ob.pos.length) m' ∧ m'.released = m.released ∧ p + ob.pos.length ≤ F.m0 + F.L ∧
      (isAck = false → ∀ q : Nat, q < ob.pos.length →
        m'.term (p - F.m0 + q) = true ∧ m'.ack (p - F.m0 + q) = false) ∧
      (∀ ix : Nat, m.term ix = true → m'.term ix = true ∧ m'.ack ix = m.ack ix) := by
  rw [List.range_eq_range'] at hx
  obtain ⟨g1, g2⟩ := voteLoopF_aux hs ht ob isAck task hb p hfront hal hjust hne s id ob.pos.length 0 m
    (by omega) h hfrontL r s1 hx
  refine ⟨?_, fun m' hm' => ?_⟩
  · rcases g1 with g1 | ⟨ge, j, m', _, j2, g1, q⟩
    · exact Or.inl g1
    · exact Or.inr ⟨ge, j, m', by omega, g1, q⟩
  obtain ⟨k0, k1, k2, k3, k4, k5⟩ := g2 m' hm'
  exact ⟨k0, k1, k2, k3, fun ha q hq => k4 ha q (by omega) (by omega), k5⟩

end Conduit.Funnel
