import ConduitModel.Proofs.MonFWorkerNack
import ConduitModel.Proofs.MonFPipe

/-!
# The contract of the root handler chain `runAckNacker(Worker)` (`.run .worker`)
-/
namespace Conduit.Funnel
open Conduit.Funnel.Mon

/-- justified for all tasks and destinations of the tree ⇒ justified for the monitor -/
theorem ackJust_of_T {G : Ctx} {s : PS} (hB : Base G s) {ρ : Nat}
    (h : ActiveT (G.view s) (tasksS G.tree) (dests G.tree) ρ ∨ FilteredT (G.view s) (tasksS G.tree) (dests G.tree) ρ)
    (hany : ρ ∉ (G.mu s).dlqAny) : AckJust G.tree (G.mu s) ρ := by
  have hclean : ∀ (hc : CleanT (G.view s) (tasksS G.tree) (dests G.tree) ρ), Clean (G.mu s) ρ := by
    intro hc
    refine ⟨fun hx => ?_, fun e he hr => ?_⟩
    · obtain ⟨t, ht⟩ := (mem_errored_iff G s ρ).mp hx
      exact hc.1 t (hB.errIn _ ht) ht
    · exact hc.2 e he (hB.wrIn e he) hr
  right
  rcases h with h | h
  · have ha : Active (G.mu s) (dests G.tree) ρ := ⟨hclean h.1, h.2⟩
    exact ⟨ha.1, hany, viaDests_of_active ha (fun d hd => hd)⟩
  · have ha : Filtered (G.mu s) ρ := ⟨hclean h.1, h.2⟩
    exact ⟨ha.1, hany, viaDests_of_filtered ha⟩

/-- the exact shape of a `Worker.Ack` on a batch without split records -/
theorem workerAck_shape {sb : Batch} (hb : BOK sb) {s s' : PS} {r : Except Stop Unit} (h : exec (workerAck sb) s = (r, s')) :
    (r ≠ .ok () ∧ s' = s) ∨
    (r = .ok () ∧ s'.log = s.log.push (.sack sb.pos) ∧ s'.scripts = s.scripts ∧ s'.mas = s.mas) := by
  have e1 : exec (workerAck sb) s = workerAckP s sb := workerAck_eq sb s
  rw [e1] at h
  unfold workerAckP at h
  obtain ⟨o1, _, _⟩ := orig_ok hb
  rw [o1] at h
  by_cases hv : validateAckPositions sb.pos = true
  · simp only [hv, Bool.not_true, Bool.false_eq_true, if_false] at h
    right
    by_cases h0 : sb.recs.length = 0
    · simp only [h0, if_true] at h; cases h; exact ⟨rfl, rfl, rfl, rfl⟩
    · simp only [h0, if_false] at h; cases h; exact ⟨rfl, rfl, rfl, rfl⟩
  · simp only [hv, Bool.not_false, if_true] at h
    cases h
    exact Or.inl ⟨(fun hh => nomatch hh), rfl⟩

theorem view_sack {G : Ctx} {s s' : PS} {ps : List PosV} (hlog : s'.log = s.log.push (.sack ps))
    (hmu : (G.mu s').filtered = (G.mu s).filtered ∧ (G.mu s').written = (G.mu s).written) :
    ExtT [] [] (fun _ => False) (G.view s) (G.view s') := by
  apply ExtT.of_eq
  · exact hmu.1
  · show G.errT s' = G.errT s
    rw [errT_push G s s' _ hlog]; simp [errNew]
  · exact hmu.2

theorem WInv.same {G : Ctx} {p : Nat} {s s' : PS} (h : WInv G p s) (hlog : s'.log = s.log) (hscr : s'.scripts = s.scripts) :
    WInv G p s' := by
  have hm := mu_same G s s' hlog
  exact ⟨h.toWInvW.same hlog hscr, by rw [hm]; exact h.dlqAnyS⟩

theorem WInvW.quiet {G : Ctx} {p : Nat} {s s' : PS} {t : Nat} {isDest : Bool} {R : Nat → Prop} (h : WInvW G p s)
    (hq : QStep G t isDest R s s') (hB : Base G s') : WInvW G p s' :=
  ⟨hB, by rw [hq.acked_eq]; exact h.acked, by rw [hq.nAcked_eq]; exact h.front, by rw [hq.dlqAny]; exact h.dlqAny,
    by rw [hq.dlqOk]; exact h.dlqOk⟩

theorem WInv.quiet {G : Ctx} {p : Nat} {s s' : PS} {t : Nat} {isDest : Bool} {R : Nat → Prop} (h : WInv G p s)
    (hq : QStep G t isDest R s s') (hB : Base G s') : WInv G p s' :=
  ⟨h.toWInvW.quiet hq hB, by rw [hq.dlqAny]; exact h.dlqAnyS⟩

/-- `runAckNacker(Worker).Ack` against the strong invariant -/
theorem workerMC_ack {G : Ctx} (hs : Src G) (fuel : Nat) (sb : Batch) (p : Nat) (s s' : PS) (r : Except Stop Unit)
    (hI : WInv G p s) (hb : BOK sb) (_hsp : sb.split = []) (hal : Align G p sb)
    (hj : ∀ (q : Nat) (src : Rec), q < sb.pos.length → G.all[p + q]? = some src →
      ActiveT (G.view s) (tasksS G.tree) (dests G.tree) (root src) ∨ FilteredT (G.view s) (tasksS G.tree) (dests G.tree) (root src))
    (h : exec (ackerCall fuel (.run .worker) sb true 0) s = (r, s')) :
    CallOut G 0 (WInv G) (WInvW G) (fun s => (G.mu s).tv = []) (fun _ _ => True) p sb.pos.length False s s' r := by
  rcases runWorker_exec fuel sb true 0 s s' r hb h with ⟨e, rfl, rfl⟩ | ⟨h0, rfl, rfl⟩ | ⟨_, sb2, e1, e2, e3, hb2, _, hx⟩
  · exact ⟨(fun hh => nomatch hh), fun _ _ => trivial, fun hf => hf.elim, fun _ => hI.base.safe, ExtT.refl _ _ _ _, rfl, fun _ _ => rfl⟩
  · have hp : sb.pos.length = 0 := by rw [hb.pos_len]; exact h0
    exact ⟨fun _ => by rw [hp]; exact hI, fun _ _ => trivial, fun hf => hf.elim, fun hh => absurd rfl hh, ExtT.refl _ _ _ _, rfl, fun _ _ => rfl⟩
  · simp only [if_true] at hx
    rcases workerAck_shape hb2 hx with ⟨hr, rfl⟩ | ⟨hr, hlog, hscr, hmas⟩
    · exact ⟨fun hh => absurd hh hr, fun _ _ => trivial, fun hf => hf.elim, fun _ => hI.base.safe, ExtT.refl _ _ _ _, rfl, fun _ _ => rfl⟩
    · rw [e3] at hlog
      have hal2 : Align G p sb := hal
      have hmu := mu_sack_just (G := G) hlog hI.front (by
        intro q pp hq
        obtain ⟨src, hsrc, hk⟩ := hal2.pos q pp hq
        have hql : q < sb.pos.length := (List.getElem?_eq_some_iff.mp hq).1
        have hin : InR G p sb.pos.length (root src) := ⟨q, src, hql, hsrc, rfl⟩
        have hany : root src ∉ (G.mu s).dlqAny := fun hm => hin.not_nonPend hs (hI.dlqAnyS _ hm)
        exact ⟨src, hsrc, hk.symm, ackJust_of_T hI.base (hj q src hql hsrc) hany⟩)
      have hn : nAcked s' = p + sb.pos.length := by rw [nAcked_push_sack s s' _ hlog, hI.front]
      have hview : ExtT [] [] (fun _ => False) (G.view s) (G.view s') :=
        view_sack hlog (by rw [hmu]; exact ⟨rfl, rfl⟩)
      have hE : G.errT s' = G.errT s := by rw [errT_push G s s' _ hlog]; simp [errNew]
      refine ⟨fun _ => ?_, fun _ _ => trivial, fun hf => hf.elim, fun hh => absurd hr hh, hview, by rw [hmas], fun _ _ => by rw [hmas]⟩
      refine ⟨⟨⟨?_, ?_, ?_, ?_, ?_, by rw [hscr]; exact hI.base.ns⟩, ?_, hn, ?_, ?_⟩, ?_⟩
      · rw [hmu]; exact hI.base.safe
      · exact hI.base.sc.sack _ hlog hscr
      · intro e he; rw [hmu] at he; exact hI.base.wr e he
      · rw [hE]; exact hI.base.errIn
      · intro e he; rw [hmu] at he; exact hI.base.wrIn e he
      · rw [hlog, ackedKeys_push_sack, hI.acked, hal.keys, take_add_map]
      · intro x hx; rw [hmu] at hx; exact Or.inl ((hI.dlqAnyS x hx).mono (by omega))
      · intro x hx; rw [hmu] at hx; exact (hI.dlqOk x hx).mono (by omega)
      · intro x hx; rw [hmu] at hx; exact (hI.dlqAnyS x hx).mono (by omega)


/-- `runAckNacker(Worker).Nack` against the weak invariant -/
theorem workerMC_nack {G : Ctx} (hs : Src G) (fuel : Nat) (sb : Batch) (task p : Nat) (s s' : PS) (r : Except Stop Unit)
    (hI : WInvW G p s) (hb : BOK sb) (hsp : sb.split = []) (hn : NackOK sb) (hal : Align G p sb) (hpos : 0 < sb.pos.length)
    (h : exec (ackerCall fuel (.run .worker) sb false task) s = (r, s')) :
    CallOut G 0 (WInv G) (WInvW G) (fun s => (G.mu s).tv = []) (fun _ _ => True) p sb.pos.length (sb.pos.length ≤ 1) s s' r := by
  rcases runWorker_exec fuel sb false task s s' r hb h with ⟨e, rfl, rfl⟩ | ⟨h0, rfl, rfl⟩ | ⟨_, sb2, e1, e2, e3, hb2, hsp2, hx⟩
  · exact ⟨(fun hh => nomatch hh), fun _ _ => trivial, fun _ _ => hI, fun _ => hI.base.safe, ExtT.refl _ _ _ _, rfl, fun _ _ => rfl⟩
  · have hp : sb.pos.length = 0 := by rw [hb.pos_len]; exact h0
    omega
  · simp only [Bool.false_eq_true, if_false] at hx
    have hnk2 : NackOK sb2 := by unfold NackOK; rw [e2]; exact hn
    obtain ⟨g1, g2, g3, g4, g5⟩ := workerNack_monW hs hI hb2 (hsp2 hsp) hnk2 (hal.congr e3 e1) (by rw [e3]; exact hpos) hx
    rw [e3] at g1 g2
    exact ⟨g1, fun _ _ => trivial, g2, fun _ => g3, g4, by rw [g5], fun _ _ => by rw [g5]⟩

/-- The contract of the root chain `runAckNacker(Worker)`: an acknowledgement must be justified for
every task and every destination of the tree. -/
def workerMC (G : Ctx) (hs : Src G) : MC G (.run .worker) where
  top := 0
  Inv := WInv G
  InvW := WInvW G
  Err := fun s => (G.mu s).tv = []
  T := tasksS G.tree
  D := dests G.tree
  Below := tasksS G.tree
  Dead := fun _ _ => True
  inv_w := fun h => h.toWInvW
  w_err := fun h => h.base.safe
  err_safe := fun h => h
  base := fun h => h.base
  baseW := fun h => h.base
  top_le := fun _ => Nat.zero_le _
  quiet := fun h hq _ _ hB => h.quiet hq hB
  quietW := fun h hq _ _ hB => h.quiet hq hB
  frame := fun h hsb => h.same hsb.log hsb.scripts
  frameW := fun h hsb => h.same hsb.log hsb.scripts
  dead_quiet := fun _ _ => trivial
  dead_frame := fun _ _ => trivial
  ack := fun fuel sb p s s' r hI hb hsp hal hj h => workerMC_ack hs fuel sb p s s' r hI hb hsp hal hj h
  nack := fun fuel sb task p s s' r hI hb hsp hn hal hpos h =>
    ⟨workerMC_nack hs fuel sb task p s s' r hI hb hsp hn hal hpos h, fun _ _ _ => trivial⟩

end Conduit.Funnel
