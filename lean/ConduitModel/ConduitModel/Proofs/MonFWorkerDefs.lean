import ConduitModel.Proofs.MonFInv
import ConduitModel.Proofs.MonWorkerNack

/-!
# The invariants of the root handler (`Worker` + DLQ) for pipelines with fan-out

`WInv G p s` (strong): exactly the first `p` records read are acknowledged, every root the DLQ has
seen belongs to one of them. `WInvW G p s` (weak): as `WInv`, except that the record at the
frontier `p` may have an unconfirmed DLQ write — the state after a failed `Worker.Nack` of that
record (inside a fan-out the run goes on and the nack is retried).
-/
namespace Conduit.Funnel
open Conduit.Funnel.Mon

structure WInvW (G : Ctx) (p : Nat) (s : PS) : Prop where
  base : Base G s
  acked : ackedKeys s.log = (G.all.take p).map keyR
  front : nAcked s = p
  dlqAny : ∀ x ∈ (G.mu s).dlqAny, NonPend G p x ∨ ∃ src, G.all[p]? = some src ∧ root src = x
  dlqOk : ∀ x ∈ (G.mu s).dlqOk, NonPend G p x

structure WInv (G : Ctx) (p : Nat) (s : PS) : Prop extends WInvW G p s where
  dlqAnyS : ∀ x ∈ (G.mu s).dlqAny, NonPend G p x

theorem WInv.ginv {G : Ctx} {p : Nat} {s : PS} (h : WInv G p s) : GInv G s :=
  ⟨h.base.safe, h.base.sc, by rw [h.front]; exact h.acked, by rw [h.front]; exact h.dlqAnyS,
   by rw [h.front]; exact h.dlqOk, h.base.wr⟩

end Conduit.Funnel
