import ConduitModel.Proofs.MonFWorkerDefs

/-!
# `Worker.Nack` against the monitor, from the weak invariant (for pipelines with fan-out)
-/
namespace Conduit.Funnel
open Conduit.Funnel.Mon

/-! ## the DLQ write from the weak invariant -/

/-- a DLQ write of records at the read frontier is neither a duplicate nor out of order, even when
the record at the frontier itself already has an (unconfirmed) DLQ write -/
theorem dlqw_quietW {G : Ctx} (hs : Src G) {μ : TSt} {n0 len : Nat} {rs : List Rec}
    (hany : ∀ x ∈ μ.dlqAny, NonPend G n0 x ∨ ∃ src, G.all[n0]? = some src ∧ root src = x)
    (hok : ∀ x ∈ μ.dlqOk, NonPend G n0 x)
    (hrs : ∀ r ∈ rs, InR G n0 len (root r)) : dlqDup μ rs = false ∧ dlqOrd μ rs = true := by
  constructor
  · unfold dlqDup
    rw [List.any_eq_false]
    intro r hr hc
    have : root r ∈ μ.dlqOk := by simpa using hc
    exact (hrs r hr).not_nonPend hs (hok _ this)
  · unfold dlqOrd
    rw [List.all_eq_true]
    intro x hx
    obtain ⟨r, hr, rfl⟩ := List.mem_map.mp hx
    apply decide_eq_true
    unfold dlqLast
    cases hl : (μ.dlqAny.filter (· / 100 == (rs.head?.map fun r => root r / 100).getD 0)).getLast? with
    | none => exact Nat.zero_le _
    | some y =>
      have hy := List.mem_of_getLast? hl
      have hy' := (List.mem_filter.mp hy).1
      obtain ⟨q, src, hq, h1, h2⟩ := hrs r hr
      show y ≤ root r
      rcases hany y hy' with hnp | ⟨src0, h0, hr0⟩
      · have := hnp.lt hs h1 (by omega)
        omega
      · by_cases hq0 : q = 0
        · subst hq0
          rw [Nat.add_zero] at h1
          rw [h0] at h1
          cases h1
          omega
        · have := hs.root_lt h0 h1 (by omega)
          omega

/-- `mu_stWrite` from the weak facts about `dlqAny` / `dlqOk` -/
theorem mu_stWriteW {G : Ctx} (hs : Src G) {s : PS} {sb : Batch} {n0 : Nat} (task : Nat)
    (hany : ∀ x ∈ (G.mu s).dlqAny, NonPend G n0 x ∨ ∃ src, G.all[n0]? = some src ∧ root src = x)
    (hok : ∀ x ∈ (G.mu s).dlqOk, NonPend G n0 x)
    (hb : BOK sb) (hob : sb.original = sb) (hal : Align G n0 sb) :
    G.mu (stWrite s sb task) =
      { G.mu s with
        calls := bumpL (G.mu s).calls s.dlqTask
        dlqAny := (G.mu s).dlqAny ++ (sb.recs.take (accepted s sb)).map root
        dlqOk := (G.mu s).dlqOk ++
          ((sb.recs.take (accepted s sb)).take
            (oksQ G.scripts s.dlqTask (callNoL (G.mu s).calls s.dlqTask) (sb.recs.take (accepted s sb))).length).map root } := by
  have hlog : (stWrite s sb task).log = s.log.push (.dlqw s.dlqTask (dlqWritten s sb task)) := rfl
  rw [mu_push G s _ _ hlog]
  show dlqwT G.scripts (G.mu s) s.dlqTask (dlqWritten s sb task) = _
  have hrs : (dlqWritten s sb task).map (·.1) = sb.recs.take (accepted s sb) := by
    show (infoOf sb.original (accepted s sb) task).map (·.1) = _
    rw [infoOf_map_fst _ _ _ (by rw [hob]; exact hb.st_len), hob]
  obtain ⟨hd, ho⟩ := dlqw_quietW hs (μ := G.mu s) (n0 := n0) (len := sb.pos.length) (rs := sb.recs.take (accepted s sb))
    hany hok (hal.take_inR hb _)
  unfold dlqwT
  simp only [hrs, hd, ho, Bool.false_eq_true, if_true, if_false, List.append_nil]

/-- `mu_stAck` from the script consistency and the shape of the monitor state after the write -/
theorem mu_stAckW {G : Ctx} {s : PS} {sb : Batch} {n0 : Nat} (task : Nat) {n : Nat}
    (hsc : SC G s) (hob : sb.original = sb) (hal : Align G n0 sb) (hf : nAcked s = n0)
    (hW : (G.mu (stWrite s sb task)).dlqOk = (G.mu s).dlqOk ++
          ((sb.recs.take (accepted s sb)).take
            (oksQ G.scripts s.dlqTask (callNoL (G.mu s).calls s.dlqTask) (sb.recs.take (accepted s sb))).length).map root)
    (hnk : n ≤ accepted s sb) (hnc : n ≤ dlqConfirmed s sb) :
    G.mu (stAck s sb task n) =
      { G.mu (stWrite s sb task) with
        pending := (G.mu (stWrite s sb task)).pending.drop (sb.pos.take n).length } := by
  have hlog : (stAck s sb task n).log = (stWrite s sb task).log.push (.sack (sb.pos.take n)) := by
    have : (stAck s sb task n).log = (stWrite s sb task).log.push (.sack (sb.original.pos.take n)) := rfl
    rw [hob] at this; exact this
  have hf' : nAcked (stWrite s sb task) = n0 := by
    rw [nAcked_push_other s (stWrite s sb task) _ rfl rfl, hf]
  have hkl : accepted s sb ≤ sb.recs.length := by
    have := accepted_le s sb
    rw [hob] at this; exact this
  have hoks : n ≤ (oksQ G.scripts s.dlqTask (callNoL (G.mu s).calls s.dlqTask) (sb.recs.take (accepted s sb))).length := by
    apply oksQ_len
    · rw [List.length_take]; omega
    · intro j hj
      have hc := (C01_dlq_confirmed_is_monitor_confirmed s sb (n - 1) (by omega)).2 j (by omega)
      rw [hob] at hc
      rw [← hc]
      exact (confirmed_congr ((nextReply_eq_replyOfCall _ _).symm.trans (hsc.nextReply _)) _ _).symm
  apply mu_sack_just hlog hf'
  intro q p hq
  rw [List.getElem?_take] at hq
  by_cases hqn : q < n
  · simp only [hqn, if_true] at hq
    obtain ⟨src, hsrc, hk⟩ := hal.pos q p hq
    refine ⟨src, hsrc, hk.symm, Or.inl ?_⟩
    rw [hW]
    apply List.mem_append_right
    have hql : q < sb.recs.length := by omega
    have hr : sb.recs[q]? = some sb.recs[q] := List.getElem?_eq_getElem hql
    refine List.mem_map.mpr ⟨sb.recs[q], ?_, hal.lin q _ src hr hsrc⟩
    apply List.mem_of_getElem? (i := q)
    rw [List.getElem?_take, List.getElem?_take]
    have h1 : q < (oksQ G.scripts s.dlqTask (callNoL (G.mu s).calls s.dlqTask) (sb.recs.take (accepted s sb))).length := by omega
    have h2 : q < accepted s sb := by omega
    simp only [h1, h2, if_true, hr]
  · simp only [hqn, if_false] at hq; cases hq

/-- the positions of an aligned batch are non-empty -/
theorem Align.validate {G : Ctx} (hs : Src G) {n0 : Nat} {sb : Batch} (hal : Align G n0 sb) (n : Nat) :
    validateAckPositions (sb.pos.take n) = true := by
  unfold validateAckPositions
  rw [List.all_eq_true]
  intro p hp
  obtain ⟨q, hq⟩ := List.mem_iff_getElem?.1 (List.mem_of_mem_take hp)
  obtain ⟨src, hsrc, hk⟩ := hal.pos q p hq
  have := hs.key_ne_zero (List.mem_of_getElem? hsrc)
  unfold posEmpty
  rw [hk]
  simpa using this

theorem WInvW.same {G : Ctx} {p : Nat} {s s' : PS} (h : WInvW G p s) (hlog : s'.log = s.log)
    (hscr : s'.scripts = s.scripts) : WInvW G p s' := by
  have hm := mu_same G s s' hlog
  refine ⟨h.base.same hlog hscr, by rw [hlog]; exact h.acked, ?_, by rw [hm]; exact h.dlqAny, by rw [hm]; exact h.dlqOk⟩
  unfold nAcked
  rw [hlog]
  exact h.front

/-- for a write of one record: not confirmed, no leading confirmed record -/
theorem oksQ_single (scripts : List (Nat × List Reply)) (task call : Nat) (rs : List Rec) (h1 : rs.length = 1)
    (hc : confirmed scripts task call 0 (rs.map (·.pos)) = false) : oksQ scripts task call rs = [] := by
  match rs, h1 with
  | [r], _ =>
    unfold oksQ
    simp only [List.length_cons, List.length_nil, List.range_succ, List.range_zero, List.nil_append, List.map_cons,
      List.map_nil, List.getElem?_cons_zero] at hc ⊢
    rw [hc]
    rfl

/-- no cause of a panic for a batch without split runs, all of whose records carry an error and are
accepted by the window -/
theorem not_panicCause {s : PS} {sb : Batch} (hb : BOK sb) (hob : sb.original = sb) (hn : NackOK sb)
    (hfull : accepted s sb = sb.recs.length) : ¬ PanicCause s sb := by
  unfold PanicCause
  rw [hob]
  have h1 := hb.pos_len
  rintro (⟨h, _⟩ | h | ⟨h, _⟩ | h | h)
  · omega
  · rw [List.any_eq_true] at h
    obtain ⟨st, hst, hnone⟩ := h
    have := hn st (List.mem_of_mem_take hst)
    cases he : st.err with
    | none => rw [he] at this; cases this
    | some e => rw [he] at hnone; cases hnone
  · omega
  · omega
  · omega

/-! ## `Worker.Nack`: which failures leave what behind -/

/-- `workerNackRest_spec`, also saying that a fatal error before the ack comes from an empty position -/
theorem workerNackRest_spec' (batch : Batch) (n : Nat) (err : Option Err) (s1 : PS) :
    (n = 0 ∧ workerNackRest batch n err s1 = (rawRes err, s1)) ∨
    (0 < n ∧ ∃ r, workerNackRest batch n err s1 = (r, s1) ∧
      ((IsPanic r ∧ n > batch.original.pos.length) ∨
       (IsFatal r ∧ n ≤ batch.original.pos.length ∧ validateAckPositions (batch.original.pos.take n) = false))) ∨
    (0 < n ∧ n ≤ batch.original.pos.length ∧ validateAckPositions (batch.original.pos.take n) = true ∧
      ∃ r, workerNackRest batch n err s1 = (r, { s1 with log := s1.log.push (.sack (batch.original.pos.take n)) }) ∧
        ((IsPanic r ∧ n > batch.recs.length) ∨ r = rawRes err)) := by
  unfold workerNackRest
  by_cases hn : n > 0
  · right
    simp only [hn, if_true]
    by_cases h1 : n > batch.original.pos.length
    · left; simp only [h1, if_true]; exact ⟨trivial, _, rfl, Or.inl ⟨⟨_, rfl⟩, trivial⟩⟩
    · simp only [h1, if_false]
      by_cases h2 : validateAckPositions (batch.original.pos.take n) = true
      · right
        simp only [h2, Bool.not_true, Bool.false_eq_true, if_false]
        refine ⟨trivial, by omega, trivial, ?_⟩
        by_cases h3 : n > batch.recs.length
        · simp only [h3, if_true]; exact ⟨_, rfl, Or.inl ⟨⟨_, rfl⟩, trivial⟩⟩
        · simp only [h3, if_false, nackFin_eq]; exact ⟨_, rfl, Or.inr rfl⟩
      · left
        have h2' : validateAckPositions (batch.original.pos.take n) = false := Mon.not_true_false h2
        simp only [h2', Bool.not_false, if_true]
        refine ⟨trivial, ?_⟩
        cases err with
        | some e => exact ⟨_, rfl, Or.inr ⟨⟨_, rfl, rfl⟩, by omega, trivial⟩⟩
        | none => exact ⟨_, rfl, Or.inr ⟨⟨_, rfl, rfl⟩, by omega, trivial⟩⟩
  · left
    have : n = 0 := by omega
    subst this
    simp only [hn, if_false, nackFin_eq]
    exact ⟨trivial, trivial⟩

/-- `workerNackP_spec`, refined: a fatal error after the DLQ write alone means that the DLQ destination
confirmed nothing (or a position to acknowledge is empty); a fatal error after the ack means that not
all records were acknowledged. -/
theorem workerNackP_spec' (s : PS) (batch : Batch) (task : Nat) :
    (∃ r, workerNackP s batch task = (r, stNack s batch) ∧
      ((batch.original.recs.length = 0 ∧ r = .ok ()) ∨
       (0 < batch.original.recs.length ∧ accepted s batch = 0 ∧ (Panics s batch r ∨ IsFatal r ∨ Refused s batch r)) ∨
       (0 < accepted s batch ∧ Panics s batch r))) ∨
    (∃ r, workerNackP s batch task = (r, stWrite s batch task) ∧ 0 < accepted s batch ∧
      ((IsFatal r ∧ (dlqConfirmed s batch = 0 ∨ ∃ n : Nat, 1 ≤ n ∧ n ≤ batch.original.pos.length ∧
          validateAckPositions (batch.original.pos.take n) = false)) ∨
       (Panics s batch r ∧ 0 < dlqConfirmed s batch))) ∨
    (∃ n r, workerNackP s batch task = (r, stAck s batch task n) ∧ 1 ≤ n ∧ n ≤ accepted s batch ∧
      n ≤ dlqConfirmed s batch ∧ n ≤ batch.original.pos.length ∧
      validateAckPositions (batch.original.pos.take n) = true ∧
      (Panics s batch r ∨ (IsFatal r ∧ n < batch.original.recs.length) ∨
        (n = accepted s batch ∧ accepted s batch < batch.original.recs.length ∧ Refused s batch r) ∨
        (n = accepted s batch ∧ accepted s batch = batch.original.recs.length ∧ r = .ok ()))) := by
  unfold Panics PanicCause Refused dlqConfirmed dlqBatchAfter stAck stWrite stNack accepted
  rcases dlqNackP_spec s batch.original task with ⟨h0, he⟩ | ⟨hl, hk, he⟩ | ⟨hk, hcause, m, he⟩ | ⟨hk, hle, he⟩
  · left
    rw [workerNackP_of_ok he, stN_len_zero s _ h0, workerNackRest_zero]
    exact ⟨_, rfl, Or.inl ⟨h0, rfl⟩⟩
  · left
    rcases tailRes_lt s.thr batch.original 0 hl with ⟨hnone, m, hm⟩ | ⟨st, hst, hm⟩
    · rw [hm] at he; rw [workerNackP_of_error he]
      exact ⟨_, rfl, Or.inr (Or.inl ⟨hl, hk, Or.inl ⟨⟨m, rfl⟩,
        Or.inr (Or.inr (Or.inl (by rw [hk]; exact ⟨hl, hnone⟩)))⟩⟩)⟩
    · by_cases ht : s.thr > 0
      · simp only [ht, if_true] at hm
        rw [hm] at he; rw [workerNackP_of_ok he, workerNackRest_zero]
        exact ⟨_, rfl, Or.inr (Or.inl ⟨hl, hk, Or.inr (Or.inl (rawRes_fatal _))⟩)⟩
      · simp only [ht, if_false] at hm
        rw [hm] at he; rw [workerNackP_of_ok he, workerNackRest_zero]
        exact ⟨_, rfl, Or.inr (Or.inl ⟨hl, hk, Or.inr (Or.inr ⟨by omega, st, by rw [hk]; exact hst, rfl⟩)⟩)⟩
  · left
    rw [workerNackP_of_error he]
    refine ⟨_, rfl, Or.inr (Or.inr ⟨hk, ⟨m, rfl⟩, ?_⟩)⟩
    rcases hcause with hc | hc
    · exact Or.inl hc
    · exact Or.inr (Or.inl hc)
  · right
    generalize hkdef : (s.win.nackN batch.original.recs.length).2 = k at *
    have fin : ∀ (n : Nat) (err : Option Err), 0 < n → n ≤ k →
        dlqNackP s batch.original task = (.ok (n, err), stWg s batch.original task) →
        (∃ r, workerNackP s batch task = (r, stWg s batch.original task) ∧
          ((IsPanic r ∧ k > batch.original.pos.length) ∨
           (IsFatal r ∧ n ≤ batch.original.pos.length ∧ validateAckPositions (batch.original.pos.take n) = false))) ∨
        (n ≤ batch.original.pos.length ∧ validateAckPositions (batch.original.pos.take n) = true ∧
          ∃ r, workerNackP s batch task =
            (r, { stWg s batch.original task with
                  log := (stWg s batch.original task).log.push (.sack (batch.original.pos.take n)) }) ∧
            ((IsPanic r ∧ k > batch.recs.length) ∨ r = rawRes err)) := by
      intro n err hn hnk hd
      rw [workerNackP_of_ok hd]
      rcases workerNackRest_spec' batch n err (stWg s batch.original task) with ⟨h0, _⟩ | ⟨_, r, hr, hp⟩ | ⟨_, h1, h2, r, hr, hp⟩
      · omega
      · left
        refine ⟨r, hr, ?_⟩
        rcases hp with ⟨hp, hgt⟩ | hp
        · exact Or.inl ⟨hp, by omega⟩
        · exact Or.inr hp
      · right
        refine ⟨h1, h2, r, hr, ?_⟩
        rcases hp with ⟨hp, hgt⟩ | hp
        · exact Or.inl ⟨hp, by omega⟩
        · exact Or.inr hp
    have cpos : ∀ {P Q R : Prop}, k > batch.original.pos.length →
        P ∨ Q ∨ R ∨ k > batch.original.pos.length ∨ k > batch.recs.length :=
      fun h => Or.inr (Or.inr (Or.inr (Or.inl h)))
    have crec : ∀ {P Q R : Prop}, k > batch.recs.length →
        P ∨ Q ∨ R ∨ k > batch.original.pos.length ∨ k > batch.recs.length :=
      fun h => Or.inr (Or.inr (Or.inr (Or.inr h)))
    rcases hout : destDoP (Batch.new (batch.original.recs.take k)) (replyOf s).1 (replyOf s).2 with e | db
    · rw [hout] at he
      cases e with
      | panic m => exact absurd hout (destDoP_new_no_panic _ _ _ m)
      | err e =>
        left
        rw [workerNackP_of_ok (n := 0) (err := some (fatalE (wrap e))) he, workerNackRest_zero]
        exact ⟨_, rfl, hk, Or.inl ⟨rawRes_fatal _, Or.inl rfl⟩⟩
    · rw [hout] at he
      simp only [sendRes, sendResult] at he
      by_cases ha : leadAcks db.st < k
      · simp only [ha, if_true, afterSend] at he
        by_cases ha0 : leadAcks db.st = 0
        · left
          rw [ha0] at he
          rw [workerNackP_of_ok he, workerNackRest_zero]
          exact ⟨_, rfl, hk, Or.inl ⟨rawRes_fatal _, Or.inl ha0⟩⟩
        · rcases fin _ _ (by omega) (by omega) he with ⟨r, hr, hp⟩ | ⟨h1, h2, r, hr, hp⟩
          · left
            refine ⟨r, hr, hk, ?_⟩
            rcases hp with ⟨hp, hgt⟩ | hp
            · exact Or.inr ⟨⟨hp, cpos hgt⟩, (show 0 < leadAcks db.st by omega)⟩
            · exact Or.inl ⟨hp.1, Or.inr ⟨_, by omega, hp.2.1, hp.2.2⟩⟩
          · right
            refine ⟨leadAcks db.st, r, hr, by omega, by omega, Nat.le_refl _, h1, h2, ?_⟩
            rcases hp with ⟨hp, hgt⟩ | hp
            · exact Or.inl ⟨hp, crec hgt⟩
            · right; left; rw [hp]; exact ⟨rawRes_fatal _, by omega⟩
      · simp only [ha, if_false, afterSend] at he
        by_cases hlt : k < batch.original.recs.length
        · rcases tailRes_lt s.thr batch.original k hlt with ⟨hnone, m, hm⟩ | ⟨st, hst, hm⟩
          · left
            rw [hm] at he; rw [workerNackP_of_error he]
            exact ⟨_, rfl, hk, Or.inr ⟨⟨⟨m, rfl⟩, Or.inr (Or.inr (Or.inl ⟨hlt, hnone⟩))⟩,
              (show 0 < leadAcks db.st by omega)⟩⟩
          · by_cases ht : s.thr > 0
            · simp only [ht, if_true] at hm
              rw [hm] at he
              rcases fin _ _ hk (Nat.le_refl _) he with ⟨r, hr, hp⟩ | ⟨h1, h2, r, hr, hp⟩
              · left
                refine ⟨r, hr, hk, ?_⟩
                rcases hp with ⟨hp, hgt⟩ | hp
                · exact Or.inr ⟨⟨hp, cpos hgt⟩, (show 0 < leadAcks db.st by omega)⟩
                · exact Or.inl ⟨hp.1, Or.inr ⟨_, by omega, hp.2.1, hp.2.2⟩⟩
              · right
                refine ⟨k, r, hr, hk, Nat.le_refl _, (show k ≤ leadAcks db.st by omega), h1, h2, ?_⟩
                rcases hp with ⟨hp, hgt⟩ | hp
                · exact Or.inl ⟨hp, crec hgt⟩
                · right; left; rw [hp]; exact ⟨rawRes_fatal _, hlt⟩
            · simp only [ht, if_false] at hm
              rw [hm] at he
              rcases fin _ _ hk (Nat.le_refl _) he with ⟨r, hr, hp⟩ | ⟨h1, h2, r, hr, hp⟩
              · left
                refine ⟨r, hr, hk, ?_⟩
                rcases hp with ⟨hp, hgt⟩ | hp
                · exact Or.inr ⟨⟨hp, cpos hgt⟩, (show 0 < leadAcks db.st by omega)⟩
                · exact Or.inl ⟨hp.1, Or.inr ⟨_, by omega, hp.2.1, hp.2.2⟩⟩
              · right
                refine ⟨k, r, hr, hk, Nat.le_refl _, (show k ≤ leadAcks db.st by omega), h1, h2, ?_⟩
                rcases hp with ⟨hp, hgt⟩ | hp
                · exact Or.inl ⟨hp, crec hgt⟩
                · right; right; left
                  exact ⟨rfl, hlt, by omega, st, hst, hp⟩
        · rw [tailRes_ge _ _ _ hlt] at he
          rcases fin _ _ hk (Nat.le_refl _) he with ⟨r, hr, hp⟩ | ⟨h1, h2, r, hr, hp⟩
          · left
            refine ⟨r, hr, hk, ?_⟩
            rcases hp with ⟨hp, hgt⟩ | hp
            · exact Or.inr ⟨⟨hp, cpos hgt⟩, (show 0 < leadAcks db.st by omega)⟩
            · exact Or.inl ⟨hp.1, Or.inr ⟨_, by omega, hp.2.1, hp.2.2⟩⟩
          · right
            refine ⟨k, r, hr, hk, Nat.le_refl _, (show k ≤ leadAcks db.st by omega), h1, h2, ?_⟩
            rcases hp with ⟨hp, hgt⟩ | hp
            · exact Or.inl ⟨hp, crec hgt⟩
            · right; right; right
              exact ⟨rfl, by omega, hp⟩

/-! ## a write of ONE record: confirmed for the monitor iff confirmed for the engine -/

theorem confirmedLoop_zero (ps : List PosV) (c : Nat) (resps : List AckResp) (acc : List Bool) :
    confirmedLoop ps 0 c resps acc = acc := by
  rw [confirmedLoop]

theorem confirmedLoop_nil (ps : List PosV) (fuel c : Nat) (acc : List Bool) :
    confirmedLoop ps (fuel + 1) c [] acc = acc := by
  rw [confirmedLoop]
  exact fun h => Nat.succ_ne_zero _ h

theorem confirmedLoop_err (ps : List PosV) (fuel c : Nat) (e : Err) (rest : List AckResp) (acc : List Bool) :
    confirmedLoop ps (fuel + 1) c (.err e :: rest) acc = acc := by
  rw [confirmedLoop]

theorem confirmedLoop_acks (ps : List PosV) (fuel c : Nat) (l : List (PosV × Option Err)) (rest : List AckResp)
    (acc : List Bool) :
    confirmedLoop ps (fuel + 1) c (.acks l :: rest) acc =
      if !validateAcks l (ps.drop c) then acc else
      if c + l.length ≥ ps.length then acc ++ l.map (·.2.isNone)
      else confirmedLoop ps fuel (c + l.length) rest (acc ++ l.map (·.2.isNone)) := by
  rw [confirmedLoop]

/-- `DestinationTask.Do` on a fresh batch of ONE record succeeds whenever the monitor's bounded ack
loop confirms the record -/
theorem destDoP_single (recs : List Rec) (h1 : recs.length = 1) (resps : List AckResp)
    (hc : ((confirmedLoop (recs.map (·.pos)) (recs.map (·.pos)).length 0 resps [])[0]?).getD false = true) :
    ∃ db, destDoP (Batch.new recs) none resps = .ok db := by
  have hpl : (recs.map (·.pos)).length = 0 + 1 := by simp [h1]
  rw [hpl] at hc
  cases resps with
  | nil => rw [confirmedLoop_nil] at hc; simp at hc
  | cons a rest =>
    cases a with
    | err e => rw [confirmedLoop_err] at hc; simp at hc
    | acks l =>
      rw [confirmedLoop_acks] at hc
      by_cases hv : validateAcks l ((recs.map (·.pos)).drop 0) = true
      · simp only [hv, Bool.not_true, Bool.false_eq_true, if_false] at hc
        obtain ⟨hv1, _⟩ := validateAcks_spec _ _ hv
        have hl1 : l.length ≤ 1 := by simp at hv1; omega
        have hl0 : l.length ≠ 0 := by
          intro h0
          have : l = [] := List.length_eq_zero_iff.mp h0
          subst this
          simp [confirmedLoop_zero] at hc
        obtain ⟨b1, e1, _⟩ := mark_simple (new_simple recs) 0 l (by omega) (by
          intro i st _ hst
          simp only [Batch.new, List.getElem?_map] at hst
          cases hr : recs[i]? with
          | none => rw [hr] at hst; cases hst
          | some r => rw [hr] at hst; cases hst; rfl)
        have hl : destAckLoop (recs.map (·.pos)) (recs.map (·.pos)).length (Batch.new recs) 0 (.acks l :: rest) =
            .ok (b1, 0 + l.length) := by
          rw [hpl]
          unfold destAckLoop
          simp only [hv, Bool.not_true, Bool.false_eq_true, if_false]
          simp only [e1, bind, Except.bind]
          have hge : 0 + l.length ≥ (recs.map (·.pos)).length := by omega
          simp only [hge, if_true]
          rfl
        refine ⟨b1, ?_⟩
        unfold destDoP
        rw [new_active]
        simp only
        rw [hl]
        simp only [bind, Except.bind]
        have hlt : ¬ (0 + l.length < (recs.map (·.pos)).length) := by omega
        simp only [hlt, if_false]
        rfl
      · have hv' : validateAcks l ((recs.map (·.pos)).drop 0) = false := Mon.not_true_false hv
        simp only [hv', Bool.not_false, if_true] at hc
        simp at hc

theorem leadTrue_pos (l : List Bool) (h : (l[0]?).getD false = true) : 0 < leadTrue l := by
  cases l with
  | nil => simp at h
  | cons a l =>
    have ha : a = true := by simpa using h
    subst ha
    simp [leadTrue]

/-- a DLQ write of ONE record that the monitor counts as confirmed is confirmed for the engine -/
theorem dlqConfirmed_pos_single (s : PS) (batch : Batch)
    (h1 : (batch.original.recs.take (accepted s batch)).length = 1)
    (hc : confirmed s.scripts s.dlqTask 0 0 ((batch.original.recs.take (accepted s batch)).map (·.pos)) = true) :
    0 < dlqConfirmed s batch := by
  unfold confirmed at hc
  cases hr : replyOfCall s.scripts s.dlqTask 0 with
  | none => rw [hr] at hc; cases hc
  | some rp =>
    rw [hr] at hc
    cases rp with
    | proc o => cases hc
    | dest w acks =>
      cases w with
      | some e => cases hc
      | none =>
        simp only at hc
        have hro : replyOf s = (none, acks) := by
          unfold replyOf; rw [nextReply_eq_replyOfCall, hr]; rfl
        obtain ⟨db, hdb⟩ := destDoP_single _ h1 acks hc
        have hd : dlqBatchAfter s batch = .ok db := by
          unfold dlqBatchAfter; rw [hro]; exact hdb
        obtain ⟨_, _, hconf⟩ := destDoP_new_confirmed _ _ _ db hdb
        unfold dlqConfirmed
        rw [hd]
        simp only
        rw [leadAcks_eq_leadTrue, hconf]
        exact leadTrue_pos _ hc

/-! ## `Base` along the events of `Worker.Nack` -/

theorem Base.dlqwE {G : Ctx} {s s' : PS} {t : Nat} {i : List (Rec × Option Err × Nat)} (h : Base G s)
    (hlog : s'.log = s.log.push (.dlqw t i)) (hscr : s'.scripts = popScripts s.scripts t)
    (htv : (G.mu s').tv = []) (hwr : (G.mu s').written = (G.mu s).written) : Base G s' := by
  have he : G.errT s' = G.errT s := by
    rw [errT_push G s s' _ hlog]
    exact List.append_nil _
  exact ⟨htv, h.sc.event (.dlqw t i) t rfl hlog hscr, by rw [hwr]; exact h.wr, by rw [he]; exact h.errIn,
    by rw [hwr]; exact h.wrIn, fun hg => by rw [hscr]; exact (h.ns hg).pop t⟩

theorem Base.sackE {G : Ctx} {s s' : PS} {ps : List PosV} (h : Base G s)
    (hlog : s'.log = s.log.push (.sack ps)) (hscr : s'.scripts = s.scripts)
    (htv : (G.mu s').tv = []) (hwr : (G.mu s').written = (G.mu s).written) : Base G s' := by
  have he : G.errT s' = G.errT s := by
    rw [errT_push G s s' _ hlog]
    exact List.append_nil _
  exact ⟨htv, h.sc.sack ps hlog hscr, by rw [hwr]; exact h.wr, by rw [he]; exact h.errIn,
    by rw [hwr]; exact h.wrIn, by rw [hscr]; exact h.ns⟩

/-! ## the theorem -/

/-- `Worker.Nack` of a batch at the read frontier `p`, from the WEAK invariant — general form: the
strong invariant at `p + len` is promised for a NON-EMPTY batch only (for an empty batch the call
does nothing at all: `s' = s`). -/
theorem workerNack_monW' {G : Ctx} (hs : Src G) {s s' : PS} {r : Except Stop Unit} {sb : Batch} {p task : Nat}
    (hI : WInvW G p s) (hb : BOK sb) (hsp : sb.split = []) (hn : NackOK sb) (hal : Align G p sb)
    (h : exec (workerNack sb task) s = (r, s')) :
    (r = .ok () → 0 < sb.pos.length → WInv G (p + sb.pos.length) s') ∧
    (sb.pos.length = 0 → r = .ok () ∧ s' = s) ∧
    (sb.pos.length ≤ 1 → r ≠ .ok () → WInvW G p s') ∧
    (G.mu s').tv = [] ∧
    ExtT [] [] (fun _ => False) (G.view s) (G.view s') ∧
    s'.mas = s.mas := by
  have hob : sb.original = sb := original_of_split_nil hsp
  have e1 : exec (workerNack sb task) s = workerNackP s sb task := workerNack_eq sb task s
  rw [e1] at h
  have hB := hI.base
  have hf := hI.front
  have hW := mu_stWriteW hs task hI.dlqAny hI.dlqOk hb hob hal
  have hWtv : (G.mu (stWrite s sb task)).tv = [] := by rw [hW]; exact hB.safe
  have hWwr : (G.mu (stWrite s sb task)).written = (G.mu s).written := by rw [hW]
  have hWfi : (G.mu (stWrite s sb task)).filtered = (G.mu s).filtered := by rw [hW]
  have hlog1 : (stWrite s sb task).log = s.log.push (.dlqw s.dlqTask (dlqWritten s sb task)) := rfl
  have hscr1 : (stWrite s sb task).scripts = popScripts s.scripts s.dlqTask := rfl
  have hB1 : Base G (stWrite s sb task) := hB.dlqwE hlog1 hscr1 hWtv hWwr
  have hE1 : G.errT (stWrite s sb task) = G.errT s := by
    rw [errT_push G s _ _ hlog1]
    exact List.append_nil _
  have hX1 : ExtT [] [] (fun _ => False) (G.view s) (G.view (stWrite s sb task)) := ExtT.of_eq _ _ _ hWfi hE1 hWwr
  have hn1 : nAcked (stWrite s sb task) = p := by rw [nAcked_push_other s _ _ hlog1 rfl, hf]
  have hak1 : ackedKeys (stWrite s sb task).log = ackedKeys s.log := by
    rw [hlog1, ackedKeys_push]
    exact List.append_nil _
  have hkl : accepted s sb ≤ sb.recs.length := by
    have := accepted_le s sb
    rw [hob] at this; exact this
  have hpl := hb.pos_len
  rcases workerNackP_spec' s sb task with ⟨r', h', hr⟩ | ⟨r', h', hk, hr⟩ | ⟨n, r', h', hn1', hnk, hnc, hnp, hv, hr⟩
  · -- nothing emitted
    rw [h'] at h; cases h
    have hWs : WInvW G p (stNack s sb) := hI.same rfl rfl
    have hmu : G.mu (stNack s sb) = G.mu s := mu_same G s _ rfl
    refine ⟨?_, ?_, fun _ _ => hWs, hWs.base.safe, ?_, rfl⟩
    · intro hok hpos
      exfalso
      have h0 : sb.original.recs.length = 0 := by
        rcases hr with ⟨h0, _⟩ | ⟨_, _, hp | hp | hp⟩ | ⟨_, hp⟩
        · exact h0
        · exact absurd hok (not_ok_of_panics hp)
        · exact absurd hok (not_ok_of_fatal hp)
        · exact absurd hok (not_ok_of_refused hob hn hp)
        · exact absurd hok (not_ok_of_panics hp)
      rw [hob] at h0
      omega
    · intro h0
      have h0' : sb.original.recs.length = 0 := by rw [hob, ← hpl]; exact h0
      refine ⟨?_, stN_len_zero s _ h0'⟩
      have hacc : accepted s sb = 0 := by omega
      rcases hr with ⟨_, hok⟩ | ⟨hlt, _⟩ | ⟨hlt, _⟩
      · exact hok
      · omega
      · omega
    · exact ExtT.of_eq _ _ _ (congrArg TSt.filtered hmu) (errT_same G s _ rfl) (congrArg TSt.written hmu)
  · -- the DLQ write only: never `.ok`
    rw [h'] at h; cases h
    have hnok : r ≠ .ok () := by
      rcases hr with ⟨hp, _⟩ | ⟨hp, _⟩
      · exact not_ok_of_fatal hp
      · exact not_ok_of_panics hp
    refine ⟨fun hok => absurd hok hnok, fun h0 => by omega, ?_, hWtv, hX1, rfl⟩
    intro hle1 _
    have hrs1 : (sb.recs.take (accepted s sb)).length = 1 := by rw [List.length_take]; omega
    -- the DLQ destination confirmed nothing
    have hc0 : dlqConfirmed s sb = 0 := by
      rcases hr with ⟨_, hc | ⟨m, _, _, h3⟩⟩ | ⟨hp, _⟩
      · exact hc
      · rw [hob, hal.validate hs m] at h3; cases h3
      · exact absurd hp.2 (not_panicCause hb hob hn (by omega))
    have hq : oksQ G.scripts s.dlqTask (callNoL (G.mu s).calls s.dlqTask) (sb.recs.take (accepted s sb)) = [] := by
      apply oksQ_single _ _ _ _ hrs1
      cases hcf : confirmed G.scripts s.dlqTask (callNoL (G.mu s).calls s.dlqTask) 0
          ((sb.recs.take (accepted s sb)).map (·.pos)) with
      | false => rfl
      | true =>
        exfalso
        have hc' : confirmed s.scripts s.dlqTask 0 0 ((sb.original.recs.take (accepted s sb)).map (·.pos)) = true := by
          rw [hob, confirmed_congr ((nextReply_eq_replyOfCall _ _).symm.trans (hB.sc.nextReply _)) _ _]
          exact hcf
        have := dlqConfirmed_pos_single s sb (by rw [hob]; exact hrs1) hc'
        omega
    have fOk : (G.mu (stWrite s sb task)).dlqOk = (G.mu s).dlqOk := by
      rw [hW, hq]
      simp
    have fAny : (G.mu (stWrite s sb task)).dlqAny = (G.mu s).dlqAny ++ (sb.recs.take (accepted s sb)).map root := by
      rw [hW]
    refine ⟨hB1, by rw [hak1]; exact hI.acked, hn1, ?_, ?_⟩
    · intro x hx
      rw [fAny] at hx
      rcases List.mem_append.mp hx with h1 | h1
      · exact hI.dlqAny x h1
      · right
        obtain ⟨r0, hr0, rfl⟩ := List.mem_map.mp h1
        obtain ⟨q, src, hq, hsrc, hroot⟩ := hal.take_inR hb _ r0 hr0
        have hq0 : q = 0 := by omega
        subst hq0
        exact ⟨src, hsrc, hroot⟩
    · intro x hx
      rw [fOk] at hx
      exact hI.dlqOk x hx
  · -- the DLQ write, then the ack of the leading `n` positions
    rw [h'] at h; cases h
    have hWok : (G.mu (stWrite s sb task)).dlqOk = (G.mu s).dlqOk ++
        ((sb.recs.take (accepted s sb)).take
          (oksQ G.scripts s.dlqTask (callNoL (G.mu s).calls s.dlqTask) (sb.recs.take (accepted s sb))).length).map root := by
      rw [hW]
    have hA := mu_stAckW task hB.sc hob hal hf hWok hnk hnc
    have hlog2 : (stAck s sb task n).log = (stWrite s sb task).log.push (.sack (sb.pos.take n)) := by
      have : (stAck s sb task n).log = (stWrite s sb task).log.push (.sack (sb.original.pos.take n)) := rfl
      rw [hob] at this; exact this
    have hscr2 : (stAck s sb task n).scripts = (stWrite s sb task).scripts := rfl
    have hAtv : (G.mu (stAck s sb task n)).tv = [] := by rw [hA]; exact hWtv
    have hAwr : (G.mu (stAck s sb task n)).written = (G.mu (stWrite s sb task)).written := by rw [hA]
    have hAfi : (G.mu (stAck s sb task n)).filtered = (G.mu (stWrite s sb task)).filtered := by rw [hA]
    have hB2 : Base G (stAck s sb task n) := hB1.sackE hlog2 hscr2 hAtv hAwr
    have hE2 : G.errT (stAck s sb task n) = G.errT s := by
      rw [errT_push G _ _ _ hlog2, hE1]
      exact List.append_nil _
    have hX2 : ExtT [] [] (fun _ => False) (G.view s) (G.view (stAck s sb task n)) :=
      ExtT.of_eq _ _ _ (hAfi.trans hWfi) hE2 (hAwr.trans hWwr)
    rw [hob] at hnp
    refine ⟨fun hok _ => ?_, fun h0 => by omega, ?_, hAtv, hX2, rfl⟩
    · -- success: everything written, confirmed and acknowledged
      have hnn : n = accepted s sb ∧ accepted s sb = sb.original.recs.length := by
        rcases hr with hp | ⟨hp, _⟩ | ⟨_, _, hp⟩ | ⟨h1, h2, _⟩
        · exact absurd hok (not_ok_of_panics hp)
        · exact absurd hok (not_ok_of_fatal hp)
        · exact absurd hok (not_ok_of_refused hob hn hp)
        · exact ⟨h1, h2⟩
      obtain ⟨hn1'', hn2⟩ := hnn
      rw [hob] at hn2
      have hnl : n = sb.pos.length := by omega
      have htk : sb.pos.take n = sb.pos := by rw [hnl]; exact List.take_length
      have hrk : sb.recs.take (accepted s sb) = sb.recs := by rw [hn2]; exact List.take_length
      rw [htk] at hA hlog2
      rw [hrk] at hW
      have hnA : nAcked (stAck s sb task n) = p + sb.pos.length := by rw [nAcked_push_sack _ _ _ hlog2, hn1]
      have hnew : ∀ x ∈ sb.recs.map root, InR G p sb.pos.length x := by
        intro x hx
        obtain ⟨r0, hr0, rfl⟩ := List.mem_map.mp hx
        exact hal.take_inR hb sb.recs.length r0 (by rw [List.take_length]; exact hr0)
      have hnew' : ∀ (L : Nat), ∀ x ∈ (sb.recs.take L).map root, InR G p sb.pos.length x := by
        intro L x hx
        obtain ⟨r0, hr0, rfl⟩ := List.mem_map.mp hx
        exact hnew _ (List.mem_map.mpr ⟨r0, List.mem_of_mem_take hr0, rfl⟩)
      have fAny : (G.mu (stAck s sb task n)).dlqAny = (G.mu s).dlqAny ++ sb.recs.map root := by rw [hA, hW]
      have fOk : (G.mu (stAck s sb task n)).dlqOk = (G.mu s).dlqOk ++
          (sb.recs.take (oksQ G.scripts s.dlqTask (callNoL (G.mu s).calls s.dlqTask) sb.recs).length).map root := by
        rw [hA, hW]
      have hS : ∀ x ∈ (G.mu (stAck s sb task n)).dlqAny, NonPend G (p + sb.pos.length) x := by
        intro x hx
        rw [fAny] at hx
        rcases List.mem_append.mp hx with h1 | h1
        · rcases hI.dlqAny x h1 with h2 | ⟨src, h2, h3⟩
          · exact h2.mono (by omega)
          · exact ⟨p, src, by omega, h2, h3⟩
        · exact (hnew x h1).nonPend
      refine ⟨⟨hB2, ?_, hnA, fun x hx => Or.inl (hS x hx), ?_⟩, hS⟩
      · rw [hlog2, ackedKeys_push_sack, hak1, hI.acked, hal.keys, take_add_map]
      · intro x hx
        rw [fOk] at hx
        rcases List.mem_append.mp hx with h1 | h1
        · exact (hI.dlqOk x h1).mono (by omega)
        · exact (hnew' _ x h1).nonPend
    · -- a call for at most one record: the record is acknowledged, the call succeeds
      intro hle1 hne
      exfalso
      rcases hr with hp | ⟨_, hlt⟩ | ⟨_, hlt, _⟩ | ⟨_, _, hok⟩
      · exact not_panicCause hb hob hn (by omega) hp.2
      · rw [hob] at hlt; omega
      · rw [hob] at hlt; omega
      · exact hne hok

/-- `Worker.Nack` of a non-empty batch at the read frontier `p`, from the WEAK invariant (the record at
`p` may already have an unconfirmed DLQ write — a retried nack): the monitor stays silent; when the
call succeeds the strong invariant holds at `p + len`; when a call for at most one record fails the
weak invariant still holds at `p`; no `filtered` / attributed-error / `written` fact changes; the
tallies are untouched. (`hpos` is needed: for an empty batch the call succeeds without doing anything,
and the weak invariant at `p` does not give the strong one at `p + 0`, see `workerNack_monW'`.) -/
theorem workerNack_monW {G : Ctx} (hs : Src G) {s s' : PS} {r : Except Stop Unit} {sb : Batch} {p task : Nat}
    (hI : WInvW G p s) (hb : BOK sb) (hsp : sb.split = []) (hn : NackOK sb) (hal : Align G p sb)
    (hpos : 0 < sb.pos.length)
    (h : exec (workerNack sb task) s = (r, s')) :
    (r = .ok () → WInv G (p + sb.pos.length) s') ∧
    (sb.pos.length ≤ 1 → r ≠ .ok () → WInvW G p s') ∧
    (G.mu s').tv = [] ∧
    ExtT [] [] (fun _ => False) (G.view s) (G.view s') ∧
    s'.mas = s.mas := by
  obtain ⟨h1, _, h3, h4, h5, h6⟩ := workerNack_monW' hs hI hb hsp hn hal h
  exact ⟨fun hok => h1 hok hpos, h3, h4, h5, h6⟩

end Conduit.Funnel
