import ConduitModel.Proofs.MonC04
import ConduitModel.Proofs.MonGeneric
import ConduitModel.Proofs.WorkerConfirm

/-!
# Monitor facts along a run: context, the monitor state of an engine state, script consistency

* `Ctx` — the inputs of a case (task tree, the case's plugin scripts, source batches);
  `G.mu s` — the tagged monitor state after the event log of engine state `s`;
* `mu_push` — one more event is one more `stepT`;
* `pending_mu` — `pending` is always the records read minus as many as were acknowledged;
* `SC G s` — script consistency: the remaining scripts of `s` are the case's scripts minus the
  replies consumed so far, as counted by the monitor (`calls`); preserved by every engine
  computation (`prims_SC`), so the reply the engine pops is the reply the monitor looks up
  (`SC.nextReply`).
-/
namespace Conduit.Funnel
open Conduit.Funnel.Mon

structure Ctx where
  tree : TaskNode
  scripts : List (Nat × List Reply)
  batches : List (List Rec)

namespace Ctx
/-- all records read, in read order -/
def all (G : Ctx) : List Rec := G.batches.flatten
def muL (G : Ctx) (log : List Ev) : TSt := runStT G.tree G.scripts G.batches log
/-- the monitor state after the log of `s` -/
def mu (G : Ctx) (s : PS) : TSt := G.muL s.log.toList
end Ctx

theorem muL_append (G : Ctx) (l1 l2 : List Ev) :
    G.muL (l1 ++ l2) = l2.foldl (stepT G.tree G.scripts) (G.muL l1) := by
  unfold Ctx.muL runStT
  rw [List.foldl_append]

theorem mu_push (G : Ctx) (s s' : PS) (e : Ev) (h : s'.log = s.log.push e) :
    G.mu s' = stepT G.tree G.scripts (G.mu s) e := by
  unfold Ctx.mu
  rw [h, Array.toList_push, muL_append]
  rfl

theorem mu_same (G : Ctx) (s s' : PS) (h : s'.log = s.log) : G.mu s' = G.mu s := by
  unfold Ctx.mu; rw [h]

/-! ## `pending` -/

theorem pending_foldl (tree : TaskNode) (scripts : List (Nat × List Reply)) : ∀ (log : List Ev) (s : TSt),
    (log.foldl (stepT tree scripts) s).pending = s.pending.drop (log.flatMap evKeys).length := by
  intro log
  induction log with
  | nil => intro s; simp
  | cons e log ih =>
    intro s
    rw [List.foldl_cons, ih, stepT_pending, List.drop_drop, List.flatMap_cons, List.length_append]

/-- number of positions acknowledged so far -/
def nAcked (s : PS) : Nat := (ackedKeys s.log).length

theorem pending_mu (G : Ctx) (s : PS) : (G.mu s).pending = G.all.drop (nAcked s) := by
  unfold Ctx.mu Ctx.muL runStT
  rw [pending_foldl]
  rfl

/-! ## the call counters -/

def bumpMap (t : Nat) (l : List (Nat × Nat)) : List (Nat × Nat) :=
  l.map fun (x : Nat × Nat) => if x.1 == t then (x.1, x.2 + 1) else (x.1, x.2)

theorem bumpL_eq (calls : List (Nat × Nat)) (t : Nat) :
    bumpL calls t = if (calls.find? (·.1 == t)).isSome then bumpMap t calls else calls ++ [(t, 1)] := rfl

theorem find?_bumpMap_same (t : Nat) (l : List (Nat × Nat)) :
    (bumpMap t l).find? (·.1 == t) = (l.find? (·.1 == t)).map (fun x => (x.1, x.2 + 1)) := by
  induction l with
  | nil => rfl
  | cons a l ih =>
    obtain ⟨a1, a2⟩ := a
    unfold bumpMap at ih ⊢
    simp only [List.map_cons, List.find?_cons]
    by_cases ha : (a1 == t) = true
    · simp only [ha, if_true, Option.map_some]
    · have ha' : (a1 == t) = false := by simpa using ha
      simp only [ha', Bool.false_eq_true, if_false]
      exact ih

theorem find?_bumpMap_other (t t' : Nat) (h : t' ≠ t) (l : List (Nat × Nat)) :
    (bumpMap t l).find? (·.1 == t') = l.find? (·.1 == t') := by
  induction l with
  | nil => rfl
  | cons a l ih =>
    obtain ⟨a1, a2⟩ := a
    unfold bumpMap at ih ⊢
    simp only [List.map_cons, List.find?_cons]
    by_cases ha : (a1 == t) = true
    · have hat : a1 = t := by simpa using ha
      have : (a1 == t') = false := by
        rw [hat]; simpa using fun hh : t = t' => h hh.symm
      simp only [ha, if_true, this]
      exact ih
    · have ha' : (a1 == t) = false := by simpa using ha
      simp only [ha', Bool.false_eq_true, if_false]
      cases (a1 == t')
      · exact ih
      · rfl

theorem callNoL_bump_same (calls : List (Nat × Nat)) (t : Nat) : callNoL (bumpL calls t) t = callNoL calls t + 1 := by
  rw [bumpL_eq]
  unfold callNoL
  cases hf : calls.find? (·.1 == t) with
  | none =>
    simp only [Option.isSome_none, Bool.false_eq_true, if_false, List.find?_append, hf, Option.none_or]
    simp [List.find?_cons]
  | some x =>
    simp only [Option.isSome_some, if_true, find?_bumpMap_same, hf, Option.map_some, Option.getD_some]

theorem callNoL_bump_other (calls : List (Nat × Nat)) (t t' : Nat) (h : t' ≠ t) :
    callNoL (bumpL calls t) t' = callNoL calls t' := by
  rw [bumpL_eq]
  unfold callNoL
  split
  · rw [find?_bumpMap_other t t' h]
  · rw [List.find?_append]
    have : ([(t, 1)] : List (Nat × Nat)).find? (·.1 == t') = none := by
      simp only [List.find?_cons, List.find?_nil]
      have : (t == t') = false := by simpa using fun hh : t = t' => h hh.symm
      simp [this]
    rw [this]
    simp

/-- the counters of the monitor only depend on the events -/
theorem calls_stepT (tree : TaskNode) (scripts : List (Nat × List Reply)) (μ : TSt) (e : Ev) :
    (stepT tree scripts μ e).calls = match e with
      | .pcall t _ => bumpL μ.calls t
      | .write t _ => bumpL μ.calls t
      | .dlqw t _ => bumpL μ.calls t
      | .sack _ => μ.calls := by
  cases e with
  | pcall t r =>
    show (pcallT scripts μ t r).calls = _
    unfold pcallT
    dsimp only
    split <;> rfl
  | write t r => rfl
  | dlqw t r => rfl
  | sack ps => exact (foldl_ackT_fields tree ps μ).2.1


/-! ## script consistency -/

def repliesOf (scr : List (Nat × List Reply)) (t : Nat) : Option (List Reply) := (scr.find? (·.1 == t)).map (·.2)

theorem nextReply_eq (scr : List (Nat × List Reply)) (t : Nat) : nextReply scr t = (repliesOf scr t).bind List.head? := by
  unfold nextReply repliesOf
  cases scr.find? (·.1 == t) with
  | none => rfl
  | some x => obtain ⟨k, l⟩ := x; cases l <;> rfl

theorem replyOfCall_eq (scr : List (Nat × List Reply)) (t c : Nat) : replyOfCall scr t c = (repliesOf scr t).bind (·[c]?) := rfl

theorem find?_map_same (scr : List (Nat × List Reply)) (t : Nat) (rest : List Reply) :
    (scr.map fun (p : Nat × List Reply) => if p.1 == t then (p.1, rest) else (p.1, p.2)).find? (·.1 == t) =
      (scr.find? (·.1 == t)).map (fun x => (x.1, rest)) := by
  induction scr with
  | nil => rfl
  | cons a scr ih =>
    obtain ⟨a1, a2⟩ := a
    simp only [List.map_cons, List.find?_cons]
    by_cases ha : (a1 == t) = true
    · simp only [ha, if_true, Option.map_some]
    · have ha' : (a1 == t) = false := by simpa using ha
      simp only [ha', Bool.false_eq_true, if_false]
      exact ih

theorem repliesOf_pop_same (scr : List (Nat × List Reply)) (t : Nat) :
    repliesOf (popScripts scr t) t = (repliesOf scr t).map List.tail := by
  unfold popScripts repliesOf
  cases hf : scr.find? (·.1 == t) with
  | none => simp [hf]
  | some x =>
    obtain ⟨k, l⟩ := x
    cases l with
    | nil => simp [hf]
    | cons r rest =>
      simp only []
      have := find?_map_same scr t rest
      simp only [] at this
      rw [this, hf]
      rfl

theorem repliesOf_pop_other (scr : List (Nat × List Reply)) (t t' : Nat) (h : t' ≠ t) :
    repliesOf (popScripts scr t) t' = repliesOf scr t' := by
  unfold repliesOf
  rw [popScripts_other scr t t' h]

/-- the remaining scripts are the case's scripts minus the replies the monitor counted -/
def SC (G : Ctx) (s : PS) : Prop :=
  ∀ t : Nat, repliesOf s.scripts t = (repliesOf G.scripts t).map (·.drop (callNoL (G.mu s).calls t))

/-- the reply the engine pops next for `t` is the reply the monitor looks up for `t`'s next call -/
theorem SC.nextReply {G : Ctx} {s : PS} (h : SC G s) (t : Nat) :
    nextReply s.scripts t = replyOfCall G.scripts t (callNoL (G.mu s).calls t) := by
  rw [nextReply_eq, replyOfCall_eq, h t]
  cases repliesOf G.scripts t with
  | none => rfl
  | some l =>
    simp only [Option.map_some, Option.bind_some]
    rw [List.head?_eq_getElem?, List.getElem?_drop]
    rfl

/-- the task an event counts a call for -/
def evTask : Ev → Option Nat
  | .pcall t _ => some t
  | .write t _ => some t
  | .dlqw t _ => some t
  | .sack _ => none

theorem calls_stepT' (tree : TaskNode) (scripts : List (Nat × List Reply)) (μ : TSt) (e : Ev) :
    (stepT tree scripts μ e).calls = match evTask e with
      | some t => bumpL μ.calls t
      | none => μ.calls := by
  rw [calls_stepT]
  cases e <;> rfl

theorem SC.event {G : Ctx} {s s' : PS} (h : SC G s) (e : Ev) (t : Nat) (he : evTask e = some t)
    (hlog : s'.log = s.log.push e) (hscr : s'.scripts = popScripts s.scripts t) : SC G s' := by
  intro t'
  rw [mu_push G s s' e hlog, calls_stepT', he, hscr]
  dsimp only
  by_cases ht : t' = t
  · subst ht
    rw [repliesOf_pop_same, h t', callNoL_bump_same]
    cases repliesOf G.scripts t' with
    | none => rfl
    | some l =>
      simp only [Option.map_some]
      congr 1
      rw [List.tail_drop]
  · rw [repliesOf_pop_other _ _ _ ht, h t', callNoL_bump_other _ _ _ ht]

theorem SC.sack {G : Ctx} {s s' : PS} (h : SC G s) (ps : List PosV)
    (hlog : s'.log = s.log.push (.sack ps)) (hscr : s'.scripts = s.scripts) : SC G s' := by
  intro t'
  rw [mu_push G s s' _ hlog, calls_stepT', hscr]
  exact h t'

theorem SC.same {G : Ctx} {s s' : PS} (h : SC G s) (hlog : s'.log = s.log) (hscr : s'.scripts = s.scripts) : SC G s' := by
  intro t'
  rw [mu_same G s s' hlog, hscr]
  exact h t'


/-! ## the shape of the state after the four emitters -/

theorem procDo_shape (t : Nat) (b : Batch) (s : PS) :
    ∃ hp : Heap,
      exec (procDo t b) s =
        ((procDoP s.heap b (procOut (nextReply s.scripts t))).map (·.2),
          { s with log := s.log.push (.pcall t b.active), scripts := popScripts s.scripts t, heap := hp }) ∧
      (∀ (h' : Heap) (b' : Batch), procDoP s.heap b (procOut (nextReply s.scripts t)) = .ok (h', b') → hp = h') := by
  obtain ⟨hp, h1, h2⟩ := procDo_eq_model t b s
  refine ⟨hp, ?_, ?_⟩
  · have h1' : exec (procDo t b) s = _ := h1
    rw [h1']
    simp only [popReplyP_eq]
  · intro h' b' hb
    apply h2 h' b'
    simp only [popReplyP_eq]
    exact hb

theorem destDo_shape (t : Nat) (b : Batch) (s : PS) :
    exec (destDo t b none) s =
      (destDoP b (destReply (nextReply s.scripts t)).1 (destReply (nextReply s.scripts t)).2,
        { s with log := s.log.push (.write t b.active), scripts := popScripts s.scripts t }) := by
  have h1 : exec (destDo t b none) s = _ := destDo_eq_model t b none s
  rw [h1]
  simp only [popReplyP_eq]

theorem prims_SC (G : Ctx) : Prims (SC G) where
  frame := fun s t h hs => hs.same h.log h.scripts
  proc := fun task b t ht => by
    refine ⟨?_, fun _ _ => trivial⟩
    obtain ⟨hp, h1, _⟩ := procDo_shape task b t
    rw [h1]
    exact ht.event (.pcall task b.active) task rfl rfl rfl
  dest := fun task b t ht => by
    refine ⟨?_, fun _ _ => trivial⟩
    rw [destDo_shape]
    exact ht.event (.write task b.active) task rfl rfl rfl
  ack := fun b t ht => by
    refine ⟨?_, fun _ _ => trivial⟩
    have h1 : exec (workerAck b) t = workerAckP t b := workerAck_eq b t
    rw [h1]
    unfold workerAckP
    split
    · exact ht
    · dsimp only
      split
      · exact ht.sack _ rfl rfl
      · exact ht.sack _ rfl rfl
  nack := fun b task t ht => by
    refine ⟨?_, fun _ _ => trivial⟩
    have h1 : exec (workerNack b task) t = workerNackP t b task := workerNack_eq b task t
    rw [h1]
    have hw : SC G (stWrite t b task) := ht.event (.dlqw t.dlqTask _) t.dlqTask rfl rfl rfl
    rcases workerNackP_spec t b task with ⟨r, h', _⟩ | ⟨r, h', _⟩ | ⟨n, r, h', _⟩ <;> rw [h']
    · exact ht.same rfl rfl
    · exact hw
    · exact hw.sack _ rfl rfl

end Conduit.Funnel
