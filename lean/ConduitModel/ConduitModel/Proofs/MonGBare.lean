import ConduitModel.Proofs.MonGDefs

/-!
# The contracts of the BARE handlers (`Worker`, a fan-out tally) on batches without split runs

`workerMC` / `multiMC` (Proofs/MonFWorker.lean, Proofs/MonFMulti.lean) are the contracts of the
chains `runAckNacker(Worker)` / `runAckNacker(multiAckNacker(id, a))` on batches without runs, where
the run wrapper does nothing. With split runs the wrapper calls the bare handler itself (for a group
of records without run, and for the original record of a completed run), so the same contracts are
needed for `.worker` and `.multi id a`.
-/
namespace Conduit.Funnel
open Conduit.Funnel.Mon

/-- `Worker.Ack` (bare) against the strong invariant -/
theorem workerMC0_ack {G : Ctx} (hs : Src G) (fuel : Nat) (sb : Batch) (p : Nat) (s s' : PS) (r : Except Stop Unit)
    (hI : WInv G p s) (hb : BOK sb) (_hsp : sb.split = []) (hal : Align G p sb)
    (hj : ∀ (q : Nat) (src : Rec), q < sb.pos.length → G.all[p + q]? = some src →
      ActiveT (G.view s) (tasksS G.tree) (dests G.tree) (root src) ∨ FilteredT (G.view s) (tasksS G.tree) (dests G.tree) (root src))
    (h : exec (ackerCall fuel .worker sb true 0) s = (r, s')) :
    CallOut G 0 (WInv G) (WInvW G) (fun s => (G.mu s).tv = []) (fun _ _ => True) p sb.pos.length False s s' r := by
  cases fuel with
  | zero =>
    rw [ackerCall] at h; cases h
    exact ⟨(fun hh => nomatch hh), fun _ _ => trivial, fun hf => hf.elim, fun _ => hI.base.safe, ExtT.refl _ _ _ _, rfl, fun _ _ => rfl⟩
  | succ fuel =>
    have hx : exec (workerAck sb) s = (r, s') := by
      rw [ackerCall] at h; simpa only [if_true] using h
    rcases workerAck_shape hb hx with ⟨hr, rfl⟩ | ⟨hr, hlog, hscr, hmas⟩
    · exact ⟨fun hh => absurd hh hr, fun _ _ => trivial, fun hf => hf.elim, fun _ => hI.base.safe, ExtT.refl _ _ _ _, rfl, fun _ _ => rfl⟩
    · have hmu := mu_sack_just (G := G) hlog hI.front (by
        intro q pp hq
        obtain ⟨src, hsrc, hk⟩ := hal.pos q pp hq
        have hql : q < sb.pos.length := (List.getElem?_eq_some_iff.mp hq).1
        have hin : InR G p sb.pos.length (root src) := ⟨q, src, hql, hsrc, rfl⟩
        have hany : root src ∉ (G.mu s).dlqAny := fun hm => hin.not_nonPend hs (hI.dlqAnyS _ hm)
        exact ⟨src, hsrc, hk.symm, ackJust_of_T hI.base (hj q src hql hsrc) hany⟩)
      have hn : nAcked s' = p + sb.pos.length := by rw [nAcked_push_sack s s' _ hlog, hI.front]
      have hview : ExtT [] [] (fun _ => False) (G.view s) (G.view s') :=
        view_sack hlog (by rw [hmu]; exact ⟨rfl, rfl⟩)
      have hE : G.errT s' = G.errT s := by rw [errT_push G s s' _ hlog]; simp [errNew]
      refine ⟨fun _ => ?_, fun _ _ => trivial, fun hf => hf.elim, fun hh => absurd hr hh, hview, by rw [hmas], fun _ _ => by rw [hmas]⟩
      refine ⟨⟨⟨?_, ?_, ?_, ?_, ?_, by rw [hscr]; exact hI.base.ns⟩, ?_, hn, ?_, ?_⟩, ?_⟩
      · rw [hmu]; exact hI.base.safe
      · exact hI.base.sc.sack _ hlog hscr
      · intro e he; rw [hmu] at he; exact hI.base.wr e he
      · rw [hE]; exact hI.base.errIn
      · intro e he; rw [hmu] at he; exact hI.base.wrIn e he
      · rw [hlog, ackedKeys_push_sack, hI.acked, hal.keys, take_add_map]
      · intro x hx; rw [hmu] at hx; exact Or.inl ((hI.dlqAnyS x hx).mono (by omega))
      · intro x hx; rw [hmu] at hx; exact (hI.dlqOk x hx).mono (by omega)
      · intro x hx; rw [hmu] at hx; exact (hI.dlqAnyS x hx).mono (by omega)

/-- `Worker.Nack` (bare) against the weak invariant -/
theorem workerMC0_nack {G : Ctx} (hs : Src G) (fuel : Nat) (sb : Batch) (task p : Nat) (s s' : PS) (r : Except Stop Unit)
    (hI : WInvW G p s) (hb : BOK sb) (hsp : sb.split = []) (hn : NackOK sb) (hal : Align G p sb) (hpos : 0 < sb.pos.length)
    (h : exec (ackerCall fuel .worker sb false task) s = (r, s')) :
    CallOut G 0 (WInv G) (WInvW G) (fun s => (G.mu s).tv = []) (fun _ _ => True) p sb.pos.length (sb.pos.length ≤ 1) s s' r := by
  cases fuel with
  | zero =>
    rw [ackerCall] at h; cases h
    exact ⟨(fun hh => nomatch hh), fun _ _ => trivial, fun _ _ => hI, fun _ => hI.base.safe, ExtT.refl _ _ _ _, rfl, fun _ _ => rfl⟩
  | succ fuel =>
    have hx : exec (workerNack sb task) s = (r, s') := by
      rw [ackerCall] at h; simpa only [Bool.false_eq_true, if_false] using h
    obtain ⟨g1, g2, g3, g4, g5⟩ := workerNack_monW hs hI hb hsp hn hal hpos hx
    exact ⟨g1, fun _ _ => trivial, g2, fun _ => g3, g4, by rw [g5], fun _ _ => by rw [g5]⟩

/-- `multiAckNacker.Ack/Nack` (bare) of the running branch on a batch at its frontier -/
theorem multiCall0 {G : Ctx} {a : Acker} (C : MC G a) (hben : Benign C) (hs : Src G) (F : FanCtx)
    (fuel : Nat) (sb : Batch) (isAck : Bool) (task p : Nat) (s s' : PS) (r : Except Stop Unit)
    (hI : MAInv C F p s) (hb : BOK sb) (hsp : sb.split = []) (hal : Align G p sb)
    (hj : isAck = true → ∀ (q : Nat) (src : Rec), q < sb.pos.length → G.all[p + q]? = some src →
      ActiveT (G.view s) (F.Tp ++ F.Tcur) (F.Dp ++ F.Dcur) (root src) ∨
      FilteredT (G.view s) (F.Tp ++ F.Tcur) (F.Dp ++ F.Dcur) (root src))
    (hn : isAck = false → NackOK sb)
    (hx : exec (ackerCall fuel (.multi F.id a) sb isAck task) s = (r, s')) :
    MCall C F p sb.pos.length isAck s s' r := by
  have hob : sb.original = sb := original_of_split_nil hsp
  cases fuel with
  | zero => rw [ackerCall] at hx; cases hx; exact MCall.same hI
  | succ f =>
    rw [ackerCall_multi, exec_bind, exec_get] at hx
    dsimp only at hx
    rw [hob, exec_bind] at hx
    rcases hv : exec (forIn (List.range sb.pos.length) (s.mas[F.id]!) (voteBody F.id sb isAck task)) s with ⟨rv, sv⟩
    rw [hv] at hx
    obtain ⟨hsv, hvote⟩ := voteLoopF hs hI.ti ⟨hI.tpos.1, hI.tpos.2.1⟩ hI.front.1 hI.front.2 sb isAck task hb hal
      (fun ha q src hq hsrc => VF.of_just (hj ha q src hq hsrc))
      hn s F.id rv sv hv
    -- writing a (partially) voted tally back
    have hset : ∀ (m' : MA) (s1 : PS), ({ s with mas := s.mas.set! F.id m' } : PS) = s1 →
        m'.released = (s.mas[F.id]!).released →
        (∀ ix : Nat, (s.mas[F.id]!).term ix = true → m'.term ix = true ∧ m'.ack ix = (s.mas[F.id]!).ack ix) →
        s1.mas[F.id]! = m' ∧ s1.mas.size = s.mas.size ∧ (∀ i : Nat, i ≠ F.id → s1.mas[i]! = s.mas[i]!) ∧
        SameBut C.top s s1 ∧ G.view s1 = G.view s ∧
        ∀ (q : Nat), TI G F (G.view s) q m' → F.m0 ≤ q → q ≤ F.m0 + F.L → MAInv C F q s1 := by
      intro m' s1 hs1 hrel hfro
      have hm1 : s1.mas[F.id]! = m' := by rw [← hs1]; exact set!_get _ _ _ hI.hid
      have hsz1 : s1.mas.size = s.mas.size := by rw [← hs1]; simp [Array.set!]
      have hoth : ∀ i : Nat, i ≠ F.id → s1.mas[i]! = s.mas[i]! := by
        intro i hi; rw [← hs1]; exact (set!_other s.mas F.id i _ (Ne.symm hi)).2
      have hsame : SameBut C.top s s1 := by
        refine ⟨by rw [← hs1], by rw [← hs1], by rw [← hs1], by rw [← hs1], by rw [← hs1], by rw [← hs1],
          by rw [hsz1]; exact Nat.le_refl _, fun i hi => hoth i (by have := hI.top; omega)⟩
      have hview1 : G.view s1 = G.view s := view_same (G := G) s s1 (by rw [← hs1])
      refine ⟨hm1, hsz1, hoth, hsame, hview1, ?_⟩
      intro q htq h1 h2
      refine ⟨hI.base.same (by rw [← hs1]) (by rw [← hs1]), by rw [hsz1]; exact hI.hid, by rw [hm1, hview1]; exact htq,
        hI.srcs, by rw [hm1, hrel]; exact C.frameW hI.parW hsame, ?_, ⟨h1, h2⟩, hI.tpos, hI.top, hI.below, hI.disjT,
        hI.disjD, hI.dsub, hI.coverT, hI.coverD, hI.ddp⟩
      rw [hm1, hrel]
      rcases hI.par with hp | ⟨hp1, hp2, hp3⟩
      · exact Or.inl (C.frame hp hsame)
      · obtain ⟨k1, k2⟩ := hfro _ hp2
        exact Or.inr ⟨hp1, k1, by rw [k2]; exact hp3⟩
    cases rv with
    | error e =>
      dsimp only at hx
      cases hx
      rcases hsv with hsv | ⟨_, j, m', hjl, hsv, q1, q2, q3, q4⟩
      · rw [hsv]; exact MCall.same hI
      · obtain ⟨hm1, hsz1, hoth, hsame, hview1, hI1⟩ := hset m' _ hsv.symm q2 q4
        refine ⟨(fun hr => nomatch hr), ⟨p + j, hI1 _ q1 (by have := hI.front.1; omega) q3⟩, ?_, ?_, hsz1,
          fun i hi => hoth i (by omega), ?_, fun _ hr => nomatch hr⟩
        · intro _ hl _
          have hj0 : j = 0 := by omega
          subst hj0
          exact hI1 p q1 hI.front.1 hI.front.2
        · rw [hview1]; exact ExtT.refl _ _ _ _
        · intro i hjd
          refine ⟨fun hlt => C.dead_frame (hjd.1 hlt) hsame, fun h1 h2 => ?_⟩
          obtain ⟨k1, k2⟩ := hjd.2 h1 h2
          obtain ⟨k3, k4⟩ := q4 _ k1
          rw [hm1]
          exact ⟨k3, by rw [k4]; exact k2⟩
    | ok m' =>
      dsimp only at hx
      obtain ⟨hsv', hti, hrel, hle, hnk, hfro⟩ := hvote m' rfl
      rw [hsv'] at hx
      rw [exec_bind, exec_modify] at hx
      dsimp only at hx
      generalize hs1 : ({ s with mas := s.mas.set! F.id m' } : PS) = s1 at hx
      obtain ⟨hm1, hsz1, hoth, hsame, hview1, hI1⟩ := hset m' s1 hs1 hrel hfro
      have hIa := hI1 (p + sb.pos.length) hti (by have := hI.front.1; omega) hle
      obtain ⟨g1, g2, g3, g4, g5, g6⟩ := releaseF C hben C.baseW hs F f (p + sb.pos.length) s1 s' r hIa hx
      have hterm : ∀ ix : Nat, (s1.mas[F.id]!).term ix = (s'.mas[F.id]!).term ix ∧
          (s1.mas[F.id]!).ack ix = (s'.mas[F.id]!).ack ix := by
        intro ix; rw [g5]; exact ⟨rfl, rfl⟩
      refine ⟨fun _ => g1, ⟨_, g1⟩, ?_, ?_, by rw [g3, hsz1], ?_, ?_, ?_⟩
      · intro ha hl _
        have hback : TI G F (G.view s) p m' := hti.back hI.front.1 (hnk ha)
        have hIp := hI1 p hback hI.front.1 hI.front.2
        obtain ⟨k1, _⟩ := releaseF C hben C.baseW hs F f p s1 s' r hIp hx
        exact k1
      · rw [hview1] at g2; exact g2
      · intro i hi
        rw [g4 i hi, hoth i (by omega)]
      · intro j hjd
        refine ⟨fun hlt => g6 j (C.dead_frame (hjd.1 hlt) hsame), fun h1 h2 => ?_⟩
        obtain ⟨k1, k2⟩ := hjd.2 h1 h2
        obtain ⟨k3, k4⟩ := hfro _ k1
        rw [← (hterm _).1, ← (hterm _).2, hm1]
        exact ⟨k3, by rw [k4]; exact k2⟩
      · intro ha _ q hq
        refine ⟨fun hlt => by have := hI.front.1; omega, fun h1 h2 => ?_⟩
        have := hnk ha q hq
        rw [← (hterm _).1, ← (hterm _).2, hm1, show p + q - F.m0 = p - F.m0 + q by have := hI.front.1; omega]
        exact this

/-- The contract of the bare root handler `Worker`: every field except `ack` / `nack` is that of
`workerMC`. -/
def workerMC0 (G : Ctx) (hs : Src G) : MC G .worker where
  top := 0
  Inv := WInv G
  InvW := WInvW G
  Err := fun s => (G.mu s).tv = []
  T := tasksS G.tree
  D := dests G.tree
  Below := tasksS G.tree
  Dead := fun _ _ => True
  inv_w := fun h => h.toWInvW
  w_err := fun h => h.base.safe
  err_safe := fun h => h
  base := fun h => h.base
  baseW := fun h => h.base
  top_le := fun _ => Nat.zero_le _
  quiet := fun h hq _ _ hB => h.quiet hq hB
  quietW := fun h hq _ _ hB => h.quiet hq hB
  frame := fun h hsb => h.same hsb.log hsb.scripts
  frameW := fun h hsb => h.same hsb.log hsb.scripts
  dead_quiet := fun _ _ => trivial
  dead_frame := fun _ _ => trivial
  ack := fun fuel sb p s s' r hI hb hsp hal hj h => workerMC0_ack hs fuel sb p s s' r hI hb hsp hal hj h
  nack := fun fuel sb task p s s' r hI hb hsp hn hal hpos h =>
    ⟨workerMC0_nack hs fuel sb task p s s' r hI hb hsp hn hal hpos h, fun _ _ _ => trivial⟩

/-- The contract of the bare tally `multiAckNacker(F.id, a)` of the running branch of a fan-out:
every field except `ack` / `nack` is that of `multiMC`. -/
def multiMC0 {G : Ctx} {a : Acker} (C : MC G a) (hben : Benign C) (hdead : ∀ (s : PS) (j : Nat), C.Dead s j) (hs : Src G)
    (F : FanCtx) : MC G (.multi F.id a) where
  top := F.id + 1
  Inv := MAInv C F
  InvW := MAInv C F
  Err := fun s => ∃ p, MAInv C F p s
  T := F.Tp ++ F.Tcur
  D := F.Dp ++ F.Dcur
  Below := F.Tcur
  Dead := MDead C F
  inv_w := fun h => h
  w_err := fun h => ⟨_, h⟩
  err_safe := fun h => by obtain ⟨_, h⟩ := h; exact h.base.safe
  base := fun h => h.base
  baseW := fun h => h.base
  top_le := fun h => h.hid
  quiet := fun h hq ht hR hB => h.quiet hq ht hR hdead hB
  quietW := fun h hq ht hR hB => h.quiet hq ht hR hdead hB
  frame := fun h hf => h.frame hf
  frameW := fun h hf => h.frame hf
  dead_quiet := fun h hq => h.frame (by rw [hq.mas]) (fun j _ => hdead _ j)
  dead_frame := fun h hf => h.frame (hf.mas _ (Nat.lt_succ_self _)) (fun j _ => hdead _ j)
  ack := fun fuel sb p s s' r hI hb hsp hal hj h => by
    have mc := multiCall0 C hben hs F fuel sb true 0 p s s' r hI hb hsp hal (fun _ => hj) (fun hh => nomatch hh) h
    exact ⟨mc.ok, mc.dead, fun hf => hf.elim, fun _ => mc.some, mc.view, mc.masSize, mc.mas⟩
  nack := fun fuel sb task p s s' r hI hb hsp hn hal _ h => by
    have mc := multiCall0 C hben hs F fuel sb false task p s s' r hI hb hsp hal (fun hh => nomatch hh) (fun _ => hn) h
    exact ⟨⟨mc.ok, mc.dead, mc.stutter rfl, fun _ => mc.some, mc.view, mc.masSize, mc.mas⟩, mc.nacked rfl⟩

end Conduit.Funnel
