import ConduitModel.Proofs.MonSAll
import ConduitModel.Proofs.MonFTop

/-!
# Monitor soundness with record splitting AND fan-out: definitions

The split-run machinery of Proofs/MonS*.lean restated against an abstract handler contract
(`MC`, Proofs/MonFInv.lean): the handler chain of a batch in flight is `runAckNacker(X)`, `X` is the
Worker (root chain) or a fan-out tally (`multiAckNacker`, chain of a branch), `C0 : MC G X` is the
contract of `X` on batches without split runs; the run ledger decides when `X` is called.

* `FlightG C0 …` — a batch in flight (`Flight` with the contract's invariant at the read frontier,
  facts relative to the contract's tasks `C0.T` and destinations `C0.D`);
* `OutG C0 …` — outcome of a computation responsible for the rows `k ≥ i` of a batch: the
  attributed frame (always), the contract's invariant at the new frontier (success) or its error
  invariant (failure);
* `StepRelG` — what a task does, as far as the caller's frame is concerned.
-/
namespace Conduit.Funnel
open Conduit.Funnel.Mon

/-- the run has a piece still to vote: in the rows `≥ i` of the batch, or outside the batch -/
def LiveRun (rest : Nat → Nat) (b : Batch) (i : Nat) (rid : Nat) : Prop := 0 < cnt rid (b.view.drop i) ∨ 0 < rest rid

/-- lineage of the runs still alive -/
def HLinG (G : Ctx) (h : Heap) (rest : Nat → Nat) (b : Batch) (i : Nat) : Prop :=
  ∀ rid : Nat, LiveRun rest b i rid →
    ∃ src ∈ G.all, keyR src = keyOf (h[rid]!).origPos ∧ root (h[rid]!).origRec = root src

/-- a live run that got an ack vote and no nack vote: every destination of `D` saw a piece, or a
piece was filtered -/
def HTouchG (v : MV) (D : List Nat) (h : Heap) (rest : Nat → Nat) (b : Batch) (i : Nat) : Prop :=
  ∀ rid : Nat, LiveRun rest b i rid → 0 < (h[rid]!).terminal → (h[rid]!).nacked = false →
    Cover v D (root (h[rid]!).origRec)

/-- a live run with a nack vote has a vote -/
def NackT (h : Heap) (rest : Nat → Nat) (b : Batch) (i : Nat) : Prop :=
  ∀ rid : Nat, LiveRun rest b i rid → (h[rid]!).nacked = true → 0 < (h[rid]!).terminal

/-- a run one of whose pieces failed for a task of `T` / destination of `D` has a nack vote already,
or one of its pieces still to vote is flagged nack — in the batch (rows `≥ i`) or outside (`doom`) -/
def CIG (v : MV) (T D : List Nat) (h : Heap) (doom : Nat → Prop) (b : Batch) (i : Nat) : Prop :=
  ∀ rid : Nat, 0 < cnt rid (b.view.drop i) → ¬ CleanT v T D (root (h[rid]!).origRec) →
    (h[rid]!).nacked = true ∨ doom rid ∨
      ∃ (k : Nat) (row : Row), i ≤ k ∧ b.rows[k]? = some row ∧ row.run = some rid ∧ row.st.flag = .nack

/-- what the view knows about the rows `k ≥ i` once the task of a node has run: `pre` / `pre'` =
destinations passed before / including the node; cleanliness is relative to ALL tasks `T` and
destinations `D` of the handler chain -/
structure FactsG (G : Ctx) (v : MV) (T D : List Nat) (pre pre' : List Nat) (nd : Prop) (b : Batch) (sm : List Nat) (i : Nat) :
    Prop where
  ack : ∀ (k : Nat) (row : Row) (q : Nat) (src : Rec), i ≤ k → b.rows[k]? = some row → sm[k]? = some q →
    G.all[q]? = some src → row.st.flag = .ack → Reach v.μ pre' (root src)
  fil : ∀ (k : Nat) (row : Row) (q : Nat) (src : Rec), i ≤ k → b.rows[k]? = some row → sm[k]? = some q →
    G.all[q]? = some src → row.st.flag = .filter → root src ∈ v.μ.filtered
  retry : ∀ (k : Nat) (row : Row) (q : Nat) (src : Rec), i ≤ k → b.rows[k]? = some row → sm[k]? = some q →
    G.all[q]? = some src → row.st.flag = .retry → Reach v.μ pre (root src) ∧ nd
  clean : ∀ (k : Nat) (row : Row) (q : Nat) (src : Rec), i ≤ k → b.rows[k]? = some row → sm[k]? = some q →
    G.all[q]? = some src → row.run = none → row.st.flag ≠ .nack → CleanT v T D (root src)

/-- what was written to the destinations `sub` (those still ahead) belongs to records up to the
frontier `p` -/
def WBelowG (G : Ctx) (p : Nat) (μ : TSt) (sub : List Nat) : Prop :=
  ∀ e ∈ μ.written, e.1 ∈ sub → NonPend G (p + 1) e.2.1

/-- A batch in flight under the handler chain `runAckNacker(X)`, `C0` the contract of `X`: as
`Flight`, with the contract's invariant at the read frontier `nxJ sm nx i` (= source of row `i`, or
`nx` when no row is left). -/
structure FlightG {G : Ctx} {X : Acker} (C0 : MC G X) (s : PS) (pre pre' : List Nat) (nd : Prop) (sub : List Nat)
    (rest : Nat → Nat) (doom : Nat → Prop) (nx : Nat) (b : Batch) (sm : List Nat) (i : Nat) : Prop where
  inv : C0.Inv (nxJ sm nx i) s
  wseen : WSeen G s
  tinv : TInv s.heap rest b i
  srcmap : SrcMap G s.heap b sm
  nextok : NextOK rest b sm nx
  restlast : RestLast rest b
  hdoom : ∀ rid : Nat, doom rid → 0 < rest rid
  hlin : HLinG G s.heap rest b i
  htouch : HTouchG (G.view s) C0.D s.heap rest b i
  ci : CIG (G.view s) C0.T C0.D s.heap doom b i
  splitlin : SplitLin G b
  nosplit : NoSplitKey b
  facts : FactsG G (G.view s) C0.T C0.D pre pre' nd b sm i
  tags : TagsF G s sub b i
  below : WBelowG G (nxJ sm nx i) (G.mu s) sub
  nackt : NackT s.heap rest b i

/-- outcome of a computation responsible for the rows `k ≥ i` of batch `b`, under the chain
`runAckNacker(X)`; `Ts` / `Ds` = the tasks / destinations that may have added facts -/
structure OutG {G : Ctx} {X : Acker} (C0 : MC G X) (Ts Ds : List Nat) (rest : Nat → Nat) (doom : Nat → Prop)
    (b : Batch) (sm : List Nat) (i nx : Nat) (s s' : PS) (r : Except Stop Unit) : Prop where
  ext : ExtT Ts Ds (RootsOf G sm i) (G.view s) (G.view s')
  wseen : WSeen G s'
  err : r ≠ .ok () → C0.Err s'
  inv : r = .ok () → C0.Inv nx s'
  /-- every new `written` entry carries the tag of a row of the batch or a tag new at entry -/
  wtag : r = .ok () → ∀ e ∈ (G.mu s').written, e ∈ (G.mu s).written ∨
    (∃ (k : Nat) (row : Row), i ≤ k ∧ b.rows[k]? = some row ∧ row.r.tag = e.2.2.1) ∨ e.2.2.1 ∉ Seen G s
  hsize : r = .ok () → s.heap.size ≤ s'.heap.size
  hframe : r = .ok () → ∀ rid : Nat, rid < s.heap.size → cnt rid (b.view.drop i) = 0 → s'.heap[rid]! = s.heap[rid]!
  horig : r = .ok () → ∀ rid : Nat, rid < s.heap.size →
    (s'.heap[rid]!).origPos = (s.heap[rid]!).origPos ∧ (s'.heap[rid]!).origRec = (s.heap[rid]!).origRec
  lpost : r = .ok () → ∀ rid : Nat, 0 < cnt rid (b.view.drop i) → 0 < rest rid →
    RunOK (s'.heap[rid]!) (rest rid) ∧ 0 < (s'.heap[rid]!).terminal
  htouch : r = .ok () → ∀ rid : Nat, 0 < cnt rid (b.view.drop i) → 0 < rest rid →
    (s'.heap[rid]!).nacked = false → Cover (G.view s') C0.D (root (s'.heap[rid]!).origRec)
  ci : r = .ok () → ∀ rid : Nat, 0 < cnt rid (b.view.drop i) → 0 < rest rid →
    ¬ CleanT (G.view s') C0.T C0.D (root (s'.heap[rid]!).origRec) → (s'.heap[rid]!).nacked = true ∨ doom rid

/-- what a task (`ProcessorTask.Do` / `DestinationTask.Do` of task `t`) does on success, as far as
the caller's frame is concerned: `(s, b, sm)` before, `(s', b', sm')` after -/
structure StepRelG (G : Ctx) (s : PS) (b : Batch) (sm : List Nat) (s' : PS) (b' : Batch) (sm' : List Nat) : Prop where
  roots : ∀ ρ, RootsOf G sm' 0 ρ → RootsOf G sm 0 ρ
  empty : sm'.length = 0 ↔ sm.length = 0
  first : sm'[0]? = sm[0]?
  /-- the tag of a row of the new batch is the tag of a row of the old batch, or new -/
  tagsub : ∀ row' ∈ b'.rows, (∃ row ∈ b.rows, row.r.tag = row'.r.tag) ∨ row'.r.tag ∉ Seen G s
  /-- a new `written` entry carries the tag of a row of the old batch -/
  wtag : ∀ e ∈ (G.mu s').written, e ∈ (G.mu s).written ∨ ∃ row ∈ b.rows, row.r.tag = e.2.2.1
  seen : ∀ x ∈ Seen G s, x ∈ Seen G s'
  hsize : s.heap.size ≤ s'.heap.size
  hframe : ∀ rid : Nat, rid < s.heap.size → cnt rid b.view = 0 → s'.heap[rid]! = s.heap[rid]! ∧ cnt rid b'.view = 0
  horig : ∀ rid : Nat, rid < s.heap.size →
    (s'.heap[rid]!).origPos = (s.heap[rid]!).origPos ∧ (s'.heap[rid]!).origRec = (s.heap[rid]!).origRec
  mono : ∀ rid : Nat, cnt rid b.view ≤ cnt rid b'.view

end Conduit.Funnel
