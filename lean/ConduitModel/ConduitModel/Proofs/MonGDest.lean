import ConduitModel.Proofs.MonGDefs

/-!
# `DestinationTask.Do` against an abstract handler contract, on a batch that may carry split records
-/
namespace Conduit.Funnel
open Conduit.Funnel.Mon

/-! ## lineage of one run (the live-run versions of `SrcMap.run_src` / `SrcMap.run_of_root`) -/

/-- a row of run `rid` stems from the source at the run's position (lineage of `rid` only) -/
theorem SrcMap.run_srcGD {G : Ctx} {h : Heap} {b : Batch} {sm : List Nat} (hm : SrcMap G h b sm) (hs : Src G)
    {k q rid : Nat} {row : Row} {src : Rec}
    (hl : ∃ src ∈ G.all, keyR src = keyOf (h[rid]!).origPos ∧ root (h[rid]!).origRec = root src)
    (h1 : sm[k]? = some q) (h3 : b.rows[k]? = some row) (hr : row.run = some rid)
    (hsrc : G.all[q]? = some src) : root (h[rid]!).origRec = root src := by
  obtain ⟨src', hmem, hk, hroot⟩ := hl
  obtain ⟨q', hq'⟩ := List.getElem?_of_mem hmem
  obtain ⟨src2, g1, g2, _⟩ := hm.key k row q h3 h1
  rw [hsrc] at g1; cases g1
  rw [rowKey_run hr] at g2
  have := hs.idx_of_key hq' hsrc (by rw [hk, g2])
  subst this
  rw [hsrc] at hq'; cases hq'
  exact hroot

/-- a row whose record has the root of a run with a piece in the batch belongs to that run -/
theorem SrcMap.run_of_rootGD {G : Ctx} {h : Heap} {b : Batch} {sm : List Nat} (hm : SrcMap G h b sm) (hs : Src G)
    {k p rid : Nat} {row0 row : Row}
    (hl : ∃ src ∈ G.all, keyR src = keyOf (h[rid]!).origPos ∧ root (h[rid]!).origRec = root src)
    (h0 : b.rows[k]? = some row0)
    (hr0 : row0.run = some rid) (hp : b.rows[p]? = some row) (hroot : root row.r = root (h[rid]!).origRec) :
    row.run = some rid := by
  obtain ⟨q0, src0, a1, a2, _, _⟩ := hm.src h0
  obtain ⟨q, src, b1, b2, _, b4⟩ := hm.src hp
  have h1 := hm.run_srcGD hs hl a1 h0 hr0 a2
  have hq : q = q0 := hs.idx_of_root b2 a2 (by rw [← b4, hroot, h1])
  subst hq
  by_cases hkp : k = p
  · subst hkp
    rw [h0] at hp; cases hp
    exact hr0
  · obtain ⟨rid', r1, r2⟩ := hm.same_run hkp a1 b1 h0 hp
    rw [hr0] at r1; cases r1
    exact r2

/-! ## the `.write` event is silent -/

/-- `write_silentS` with the frontier `p` (= source of the first row) explicit -/
theorem write_silentG {G : Ctx} (hs : Src G) {s : PS} {b : Batch} {d p : Nat} {sub : List Nat} {sm : List Nat}
    {rs : List (Option Nat)} (hwf : b.WF s.heap) (hvb : VB b rs) (hm : SrcMap G s.heap b sm)
    (hfront : ∀ q : Nat, sm[0]? = some q → p = q) (haf : FlagsAF b)
    (htags : TagsF G s (d :: sub) b 0) (hbelow : WBelowG G p (G.mu s) (d :: sub)) :
    dupW (G.mu s) d b.active = false ∧ Mon.step.mono (lastRootW (G.mu s) d b.active) b.active = true := by
  have hprev : ∀ e ∈ prevW (G.mu s) d b.active, ∀ r ∈ b.active, e.2.1 ≤ root r ∧ e.2.2.1 ≠ r.tag := by
    intro e he r hr
    unfold prevW at he
    rw [List.mem_filter] at he
    obtain ⟨hmem, hc⟩ := he
    simp only [Bool.and_eq_true, beq_iff_eq] at hc
    have hed : e.1 ∈ d :: sub := by rw [hc.1]; exact List.mem_cons_self
    obtain ⟨i, src0, hi, hsrc0, hroot0⟩ := hbelow e hmem hed
    obtain ⟨j, hj⟩ := List.getElem?_of_mem hr
    obtain ⟨p', row, hp, hrow, hrr, hnf⟩ := active_row hwf hvb hj
    obtain ⟨q, src, hq, hsrc, _, hroot⟩ := hm.src hrow
    obtain ⟨_, f2, _, _⟩ := rows_fields hvb hrow
    have hack : row.st.flag = .ack := by
      rcases haf p' _ f2 with h1 | h1
      · exact h1
      · exact absurd h1 hnf
    constructor
    · have h0 : 0 < sm.length := by
        have := (List.getElem?_eq_some_iff.mp hq).1
        omega
      have hq0 : sm[0]? = some sm[0] := List.getElem?_eq_getElem h0
      have hn := hfront _ hq0
      have hle := hm.mono (Nat.zero_le p') hq0 hq
      rw [← hrr, hroot, ← hroot0]
      rcases Nat.lt_or_eq_of_le (by omega : i ≤ q) with hlt | heq
      · exact Nat.le_of_lt (hs.root_lt hsrc0 hsrc hlt)
      · subst heq
        rw [hsrc0] at hsrc; cases hsrc
        exact Nat.le_refl _
    · have := htags.unw p' row (Nat.zero_le _) hrow (Or.inl hack) e hmem hed
      rw [← hrr]; exact this
  constructor
  · apply not_true_false
    intro hd
    unfold dupW at hd
    simp only [List.any_eq_true, beq_iff_eq] at hd
    obtain ⟨r, hr, e, he, heq⟩ := hd
    exact (hprev e he r hr).2 heq
  · apply mono_of_sorted
    · intro r hr
      unfold lastRootW
      cases hl : (prevW (G.mu s) d b.active).getLast? with
      | none => simp
      | some e =>
        have := (hprev e (List.mem_of_getLast? hl) r hr).1
        simp only [Option.map_some, Option.getD_some]
        omega
    · intro i j a c hij ha hc
      obtain ⟨p1, row, hp, hrow, hrr, _⟩ := active_row hwf hvb ha
      obtain ⟨p2, row', hp', hrow', hrr', _⟩ := active_row hwf hvb hc
      have hpw := List.pairwise_iff_getElem.mp (actList_pairwise b.st)
      obtain ⟨hi1, hi2⟩ := List.getElem?_eq_some_iff.mp hp
      obtain ⟨hj1, hj2⟩ := List.getElem?_eq_some_iff.mp hp'
      have := hpw i j hi1 hj1 hij
      rw [hi2, hj2] at this
      rw [← hrr, ← hrr']
      exact hm.root_le hs (Nat.le_of_lt this) hrow hrow'

/-! ## the effect of the task on state, view and rows -/

/-- `destDo_eff` against the base invariant: the unconditional part (base invariant, written tags
seen, `QStep`, attributed errors unchanged) and, when a batch is returned, the effect on the rows -/
theorem destDo_effG {G : Ctx} (hs : Src G) {s s' : PS} {r : Except Stop Batch} {b : Batch} {d p : Nat}
    {sub : List Nat} {sm : List Nat} {rs : List (Option Nat)}
    (hB : Base G s) (hws : WSeen G s) (hwf : b.WF s.heap) (hvb : VB b rs) (hm : SrcMap G s.heap b sm)
    (hfront : ∀ q : Nat, sm[0]? = some q → p = q) (haf : FlagsAF b)
    (htags : TagsF G s (d :: sub) b 0) (hbelow : WBelowG G p (G.mu s) (d :: sub)) (hinD : d ∈ dests G.tree)
    (h : exec (destDo d b none) s = (r, s')) :
    Base G s' ∧ WSeen G s' ∧ QStep G d true (RootsOf G sm 0) s s' ∧ G.errT s' = G.errT s ∧
    ∀ b1, r = .ok b1 → DestEff G s s' d b b1 ∧ VB b1 rs ∧ (TaintC b → TaintC b1) ∧
      (∀ (q : Nat) (st st' : Status), b.st[q]? = some st → b1.st[q]? = some st' → st' = st ∨ st'.flag = .nack) ∧
      b1.st.length = b.st.length := by
  rw [destDo_shape] at h
  have hr : destDoP b (destReply (nextReply s.scripts d)).1 (destReply (nextReply s.scripts d)).2 = r :=
    (Prod.mk.inj h).1
  have hs' := (Prod.mk.inj h).2
  have hlog : s'.log = s.log.push (.write d b.active) := by rw [← hs']
  have hscr : s'.scripts = popScripts s.scripts d := by rw [← hs']
  have hheap : s'.heap = s.heap := by rw [← hs']
  have hmas : s'.mas = s.mas := by rw [← hs']
  have hwin : s'.win = s.win := by rw [← hs']
  have hthr : s'.thr = s.thr := by rw [← hs']
  have hsize : s'.size = s.size := by rw [← hs']
  have hdlqT : s'.dlqTask = s.dlqTask := by rw [← hs']
  clear h hs'
  have hmu : G.mu s' = writeT G.scripts (G.mu s) d b.active := mu_push G s s' _ hlog
  have hE : G.errT s' = G.errT s := by
    rw [errT_push G s s' _ hlog]
    simp [errNew]
  obtain ⟨hdup, hmono⟩ := write_silentG hs hwf hvb hm hfront haf htags hbelow
  have hn : nAcked s' = nAcked s := nAcked_push_write s s' d b.active hlog
  have hseen : Seen G s' = Seen G s := Seen.push_other _ hlog (fun _ _ hh => Ev.noConfusion hh)
  have htv : (G.mu s').tv = [] := by
    rw [hmu]
    simp only [writeT, hdup, hmono, if_true, if_false, Bool.false_eq_true, List.append_nil]
    exact hB.safe
  have hwr : (G.mu s').written = (G.mu s).written ++ entriesW G.scripts d (callNoL (G.mu s).calls d) b.active := by
    rw [hmu]; rfl
  have herr : (G.mu s').errored = (G.mu s).errored := by rw [hmu]; rfl
  have hfil : (G.mu s').filtered = (G.mu s).filtered := by rw [hmu]; rfl
  have hany : (G.mu s').dlqAny = (G.mu s).dlqAny := by rw [hmu]; rfl
  have hok : (G.mu s').dlqOk = (G.mu s).dlqOk := by rw [hmu]; rfl
  -- the new entries, whatever the reply
  have hnew0 : ∀ e ∈ entriesW G.scripts d (callNoL (G.mu s).calls d) b.active,
      ∃ (p : Nat) (row : Row), b.rows[p]? = some row ∧ row.st.flag = .ack ∧
        e.1 = d ∧ e.2.1 = root row.r ∧ e.2.2.1 = row.r.tag ∧ e.2.1 = e.2.2.1 % 1000 := by
    intro e he
    obtain ⟨j, r, hj, rfl⟩ := mem_entriesW.mp he
    obtain ⟨p, row, hp, hrow, hrr, hnf⟩ := active_row hwf hvb hj
    obtain ⟨_, f2, _, _⟩ := rows_fields hvb hrow
    have hack : row.st.flag = .ack := by
      rcases haf p _ f2 with h1 | h1
      · exact h1
      · exact absurd h1 hnf
    exact ⟨p, row, hrow, hack, rfl, by rw [hrr], by rw [hrr], rfl⟩
  have hbase : Base G s' := by
    refine ⟨htv, hB.sc.event (.write d b.active) d rfl hlog hscr, ?_, ?_, ?_, fun hg => by rw [hscr]; exact (hB.ns hg).pop d⟩
    · intro e he
      rw [hwr, List.mem_append] at he
      rcases he with he | he
      · exact hB.wr e he
      · obtain ⟨_, _, _, _, _, _, _, h⟩ := hnew0 e he
        exact h
    · intro x hx
      rw [hE] at hx
      exact hB.errIn x hx
    · intro e he
      rw [hwr, List.mem_append] at he
      rcases he with he | he
      · exact hB.wrIn e he
      · obtain ⟨_, _, _, _, h, _, _, _⟩ := hnew0 e he
        rw [h]; exact hinD
  have hwseen : WSeen G s' := by
    intro e he
    rw [hseen]
    rw [hwr, List.mem_append] at he
    rcases he with he | he
    · exact hws e he
    · obtain ⟨p, row, hrow, _, _, _, htag, _⟩ := hnew0 e he
      rw [htag]; exact htags.seen p row (Nat.zero_le _) hrow
  have hext : ExtT [d] [d] (RootsOf G sm 0) (G.view s) (G.view s') := by
    refine ⟨?_, ?_, ?_, ?_, ?_, ?_⟩ <;> intro x hx
    · show x ∈ (G.mu s').filtered
      rw [hfil]; exact hx
    · have hx : x ∈ (G.mu s').filtered := hx
      rw [hfil] at hx; exact Or.inl hx
    · show x ∈ G.errT s'
      rw [hE]; exact hx
    · have hx : x ∈ G.errT s' := hx
      rw [hE] at hx; exact Or.inl hx
    · show x ∈ (G.mu s').written
      rw [hwr]; exact List.mem_append_left _ hx
    · have hx : x ∈ (G.mu s').written := hx
      rw [hwr, List.mem_append] at hx
      rcases hx with hx | hx
      · exact Or.inl hx
      · obtain ⟨p, row, hrow, _, h1, hroot, _, _⟩ := hnew0 x hx
        obtain ⟨q, src, a1, a2, _, a4⟩ := hm.src hrow
        exact Or.inr ⟨by rw [h1]; exact List.mem_cons_self, p, q, src, Nat.zero_le _, a1, a2, by rw [hroot, a4]⟩
  have hq : QStep G d true (RootsOf G sm 0) s s' :=
    ⟨⟨.write d b.active, hlog, rfl, rfl, fun tk i h => by cases h⟩, hscr, hmas, hwin, hthr, hsize, hdlqT, hext, hany, hok⟩
  refine ⟨hbase, hwseen, hq, hE, ?_⟩
  intro b1 hb1
  rw [hb1] at hr
  obtain ⟨hw, all, hlen, hloop, hrecs, hpos, hruns, hsplit, hstlen, hwf1, hnack, hold, hfilt, htaint⟩ :=
    destDoP_effS hwf _ _ hr
  have hrep : replyOfCall G.scripts d (callNoL (G.mu s).calls d) =
      some (.dest none (destReply (nextReply s.scripts d)).2) := by
    rw [← hB.sc.nextReply d]; exact destReply_none hw
  have hconf : ∀ j : Nat, confirmed G.scripts d (callNoL (G.mu s).calls d) j (b.active.map (·.pos)) =
      ((all.map (·.2.isNone))[j]?).getD false := by
    intro j
    unfold confirmed
    rw [hrep]
    simp only []
    rw [hloop]
  have hnAct : b.active.length = all.length := by rw [hlen]; exact active_length hwf.1.st_len hwf.2
  have hvb1 : VB b1 rs :=
    ⟨by rw [hruns]; exact hvb.runs, by rw [hrecs]; exact hvb.rlen, by rw [hstlen, hrecs]; exact hvb.slen,
     by rw [hpos, hrecs]; exact hvb.plen, by rw [hpos]; exact hvb.nopos⟩
  -- the rows
  have hrows1 : ∀ (p : Nat) (row' : Row), b1.rows[p]? = some row' → ∃ row, b.rows[p]? = some row ∧ RowUpd row row' := by
    intro p row' hp
    obtain ⟨f1, f2, f3, f4⟩ := rows_fields hvb1 hp
    have hlt : p < b.st.length := by rw [← hstlen]; exact (List.getElem?_eq_some_iff.mp f2).1
    have g2 : b.st[p]? = some b.st[p] := List.getElem?_eq_getElem hlt
    rw [hrecs] at f1
    rw [hpos] at f3
    refine ⟨_, rows_of_fields hvb f1 g2 f3 f4, rfl, rfl, rfl, ?_⟩
    exact hold p _ _ g2 f2
  have hrlen : b1.rows.length = b.rows.length := by rw [rows_length, rows_length, hrecs]
  -- the new entries
  have hnew : ∀ e ∈ entriesW G.scripts d (callNoL (G.mu s).calls d) b.active,
      ∃ (p : Nat) (row row' : Row), b.rows[p]? = some row ∧ b1.rows[p]? = some row' ∧ row.st.flag = .ack ∧
        e.1 = d ∧ e.2.1 = root row.r ∧ e.2.2.1 = row.r.tag ∧ (e.2.2.2 = true ∨ row'.st.flag = .nack) := by
    intro e he
    obtain ⟨j, r, hj, rfl⟩ := mem_entriesW.mp he
    obtain ⟨p, row, hp, hrow, hrr, hnf⟩ := active_row hwf hvb hj
    obtain ⟨_, f2, _, _⟩ := rows_fields hvb hrow
    have hack : row.st.flag = .ack := by
      rcases haf p _ f2 with h1 | h1
      · exact h1
      · exact absurd h1 hnf
    have hjl : j < all.length := by rw [← hnAct]; exact (List.getElem?_eq_some_iff.mp hj).1
    have hlt1 : p < b1.rows.length := by rw [hrlen]; exact (List.getElem?_eq_some_iff.mp hrow).1
    have hrow1 : b1.rows[p]? = some b1.rows[p] := List.getElem?_eq_getElem hlt1
    refine ⟨p, row, _, hrow, hrow1, hack, rfl, by rw [hrr], by rw [hrr], ?_⟩
    show confirmed _ _ _ _ _ = true ∨ _
    rw [hconf j]
    have haj : all[j]? = some all[j] := List.getElem?_eq_getElem hjl
    cases hae : (all[j]).2 with
    | none => left; simp [hjl, hae]
    | some er =>
      right
      obtain ⟨st', hst', hfl⟩ := hnack j p _ hp haj (by rw [hae]; rfl)
      obtain ⟨_, g2, _, _⟩ := rows_fields hvb1 hrow1
      rw [hst'] at g2
      rw [← Option.some.inj g2]; exact hfl
  have heff : DestEff G s s' d b b1 := by
    refine ⟨hheap, hn, hseen, herr, hfil, hany, hok, ?_, hsplit, hrlen, hrows1, ?_, ?_, ?_⟩
    · unfold Batch.view; rw [hruns, hpos]
    · intro e he; rw [hwr]; exact List.mem_append_left _ he
    · intro e he
      rw [hwr, List.mem_append] at he
      rcases he with he | he
      · exact Or.inl he
      · exact Or.inr (hnew e he)
    · intro p row hrow hack
      obtain ⟨j, hj, haj⟩ := row_active hwf hvb hrow (by rw [hack]; exact fun hh => Flag.noConfusion hh)
      exact ⟨_, by rw [hwr]; exact List.mem_append_right _ (mem_entriesW.mpr ⟨j, _, haj, rfl⟩), rfl, rfl⟩
  exact ⟨heff, hvb1, htaint, hold, hstlen⟩

/-! ## the batch is in flight again -/

theorem flight_of_effG {G : Ctx} (hs : Src G) {X : Acker} (C0 : MC G X) {s s' : PS} {b b1 : Batch} {d : Nat}
    {pre sub : List Nat} {rest : Nat → Nat} {doom : Nat → Prop} {nx : Nat} {sm : List Nat} {rs : List (Option Nat)}
    (hF : FlightG C0 s pre pre True (d :: sub) rest doom nx b sm 0) (hd : d ∉ sub) (haf : FlagsAF b)
    (hvb : VB b rs) (he : DestEff G s s' d b b1) (hE : G.errT s' = G.errT s)
    (hinv : C0.Inv (nxJ sm nx 0) s') (hws : WSeen G s') (ht : TInv s'.heap rest b1 0) :
    FlightG C0 s' pre (pre ++ [d]) False sub rest doom nx b1 sm 0 := by
  have hm := hF.srcmap
  have hwf := hF.tinv.wf
  have haf' : ∀ (p : Nat) (row : Row), b.rows[p]? = some row → row.st.flag = .ack ∨ row.st.flag = .filter := by
    intro p row hp
    obtain ⟨_, f2, _, _⟩ := rows_fields hvb hp
    exact haf p _ f2
  have hnn : ∀ (p : Nat) (row : Row), b.rows[p]? = some row → row.st.flag ≠ .nack := by
    intro p row hp hfl
    rcases haf' p row hp with h2 | h2 <;> rw [hfl] at h2 <;> cases h2
  -- a status that is not a nack is the old status
  have hsame : ∀ {row row' : Row}, RowUpd row row' → row'.st.flag ≠ .nack → row'.st = row.st := by
    intro row row' hu hn
    rcases hu.2.2.2 with h1 | h1
    · exact h1
    · exact absurd h1 hn
  have hlive : ∀ rid : Nat, LiveRun rest b1 0 rid → LiveRun rest b 0 rid := by
    intro rid hl
    unfold LiveRun at hl ⊢
    rw [he.view] at hl
    exact hl
  have hmemE : ∀ x, x ∈ (G.view s').E → x ∈ (G.view s).E := by
    intro x hx
    have hx : x ∈ G.errT s' := hx
    rw [hE] at hx
    exact hx
  have hwrnew : ∀ e ∈ (G.view s').μ.written, e ∈ (G.view s).μ.written ∨
      ∃ (p : Nat) (row row' : Row), b.rows[p]? = some row ∧ b1.rows[p]? = some row' ∧ row.st.flag = .ack ∧
        e.1 = d ∧ e.2.1 = root row.r ∧ e.2.2.1 = row.r.tag ∧ (e.2.2.2 = true ∨ row'.st.flag = .nack) :=
    fun e hm' => he.wr_new e hm'
  refine
    { inv := hinv, wseen := hws, tinv := ht, srcmap := ⟨by rw [he.len]; exact hm.len, hm.step, ?_, ?_⟩,
      nextok := ?_, restlast := ?_, hdoom := hF.hdoom, hlin := ?_, htouch := ?_, ci := ?_,
      splitlin := ?_, nosplit := ?_, facts := ⟨?_, ?_, ?_, ?_⟩, tags := ⟨?_, ?_, ?_⟩, below := ?_,
      nackt := fun rid hl hn => by rw [he.heap] at hn ⊢; exact hF.nackt rid (hlive rid hl) hn }
  · -- srcmap.key
    intro k row' q hk hq
    obtain ⟨row, hrow, hu⟩ := he.rows1 k row' hk
    obtain ⟨src, a1, a2, a3⟩ := hm.key k row q hrow hq
    exact ⟨src, a1, by rw [he.heap, hu.rowKey]; exact a2, by rw [hu.1]; exact a3⟩
  · -- srcmap.same
    intro k row row' q h1 h2 h3 h4
    obtain ⟨r1, g1, u1⟩ := he.rows1 k row h1
    obtain ⟨r2, g2, u2⟩ := he.rows1 (k + 1) row' h2
    obtain ⟨rid, x1, x2⟩ := hm.same k r1 r2 q g1 g2 h3 h4
    exact ⟨rid, by rw [u1.2.2.1]; exact x1, by rw [u2.2.2.1]; exact x2⟩
  · -- nextok
    intro row' q hl hq
    rw [getLast?_rows, he.len] at hl
    obtain ⟨row, hrow, hu⟩ := he.rows1 _ row' hl
    have := hF.nextok row q (getLast?_rows.mpr hrow) hq
    rw [hu.2.2.1]; exact this
  · -- restlast
    intro rid hr hc
    rw [he.view] at hc
    obtain ⟨row, hl, hrun⟩ := hF.restlast rid hr hc
    rw [getLast?_rows] at hl
    obtain ⟨row', hrow', hu⟩ := he.rows0 hl
    rw [← he.len] at hrow'
    exact ⟨row', getLast?_rows.mpr hrow', by rw [hu.2.2.1]; exact hrun⟩
  · -- hlin
    rw [he.heap]
    intro rid hl
    exact hF.hlin rid (hlive rid hl)
  · -- htouch
    rw [he.heap]
    intro rid hl h2 h3 d' hd'
    rcases hF.htouch rid (hlive rid hl) h2 h3 d' hd' with ⟨e, hm', a, c⟩ | hf
    · exact Or.inl ⟨e, he.wr_old e hm', a, c⟩
    · refine Or.inr ?_
      show _ ∈ (G.mu s').filtered
      rw [he.fil]; exact hf
  · -- ci
    rw [he.heap]
    intro rid hc hncl
    rw [List.drop_zero, he.view] at hc
    obtain ⟨hrid, k0, row0, hrow0, hrun0⟩ := cnt_pos_row hwf hvb hc
    have hlin0 := hF.hlin rid (Or.inl (by rw [List.drop_zero]; exact hc))
    apply Classical.byContradiction
    intro hno
    apply hncl
    have hcl : CleanT (G.view s) C0.T C0.D (root (s.heap[rid]!).origRec) := by
      apply Classical.byContradiction
      intro hn
      rcases hF.ci rid (by rw [List.drop_zero]; exact hc) hn with h1 | h1 | ⟨k, row, _, hrow, _, hfl⟩
      · exact hno (Or.inl h1)
      · exact hno (Or.inr (Or.inl h1))
      · exact hnn k row hrow hfl
    refine ⟨fun t ht' hx => hcl.1 t ht' (hmemE _ hx), ?_⟩
    intro e hm' hdD hroot
    rcases hwrnew e hm' with old | ⟨p, row, row', hrow, hrow', _, _, hr, _, hc2⟩
    · exact hcl.2 e old hdD hroot
    · rcases hc2 with hc2 | hc2
      · exact hc2
      · exfalso
        apply hno
        right; right
        obtain ⟨row2, g1, hu⟩ := he.rows1 p row' hrow'
        rw [hrow] at g1; cases g1
        have := hm.run_of_rootGD hs hlin0 hrow0 hrun0 hrow (by rw [← hr, hroot])
        exact ⟨p, row', Nat.zero_le _, hrow', by rw [hu.2.2.1]; exact this, hc2⟩
  · -- splitlin
    unfold SplitLin; rw [he.split]; exact hF.splitlin
  · -- nosplit
    intro k row' hk hrun
    obtain ⟨row, hrow, hu⟩ := he.rows1 k row' hk
    rw [he.split, hu.2.1]
    exact hF.nosplit k row hrow (by rw [← hu.2.2.1]; exact hrun)
  · -- facts.ack
    intro k row' q src _ hk hq hsrc hfl
    obtain ⟨row, hrow, hu⟩ := he.rows1 k row' hk
    have hst := hsame hu (by rw [hfl]; exact fun hh => Flag.noConfusion hh)
    have hack : row.st.flag = .ack := by rw [← hst]; exact hfl
    have hold := hF.facts.ack k row q src (Nat.zero_le _) hrow hq hsrc hack
    obtain ⟨src2, a1, _, a3⟩ := hm.key k row q hrow hq
    rw [hsrc] at a1; cases a1
    intro d' hd'
    rw [List.mem_append] at hd'
    rcases hd' with hd' | hd'
    · obtain ⟨e, hm', x1, x2⟩ := hold d' hd'
      exact ⟨e, he.wr_old e hm', x1, x2⟩
    · have hdd : d' = d := by simpa using hd'
      subst hdd
      obtain ⟨e, hm', x1, x2⟩ := he.wr_row k row hrow hack
      exact ⟨e, hm', x1, by rw [x2, a3]⟩
  · -- facts.fil
    intro k row' q src _ hk hq hsrc hfl
    obtain ⟨row, hrow, hu⟩ := he.rows1 k row' hk
    have hst := hsame hu (by rw [hfl]; exact fun hh => Flag.noConfusion hh)
    show _ ∈ (G.mu s').filtered
    rw [he.fil]
    exact hF.facts.fil k row q src (Nat.zero_le _) hrow hq hsrc (by rw [← hst]; exact hfl)
  · -- facts.retry
    intro k row' q src _ hk hq hsrc hfl
    obtain ⟨row, hrow, hu⟩ := he.rows1 k row' hk
    have hst := hsame hu (by rw [hfl]; exact fun hh => Flag.noConfusion hh)
    rw [hst] at hfl
    rcases haf' k row hrow with h2 | h2 <;> rw [hfl] at h2 <;> cases h2
  · -- facts.clean
    intro k row' q src _ hk hq hsrc hrun hnack
    obtain ⟨row, hrow, hu⟩ := he.rows1 k row' hk
    have hrun0 : row.run = none := by rw [← hu.2.2.1]; exact hrun
    have hcl := hF.facts.clean k row q src (Nat.zero_le _) hrow hq hsrc hrun0 (hnn k row hrow)
    refine ⟨fun t ht' hx => hcl.1 t ht' (hmemE _ hx), ?_⟩
    intro e hm' hdD hroot
    rcases hwrnew e hm' with old | ⟨p, rowp, rowp', hrowp, hrowp', _, _, hr, _, hc2⟩
    · exact hcl.2 e old hdD hroot
    · obtain ⟨qp, srcp, b1', b2, _, b4⟩ := hm.src hrowp
      have hqq : qp = q := hs.idx_of_root b2 hsrc (by rw [← b4, ← hr, hroot])
      subst hqq
      have hkp : k = p := hm.own_src hrun0 hq b1' hrow
      subst hkp
      rw [hk] at hrowp'; cases hrowp'
      rcases hc2 with hc2 | hc2
      · exact hc2
      · exact absurd hc2 hnack
  · -- tags.nodup
    have : b1.rows.map (·.r.tag) = b.rows.map (·.r.tag) := by
      apply List.ext_getElem?
      intro k
      rw [List.getElem?_map, List.getElem?_map]
      cases h1 : b1.rows[k]? with
      | none =>
        have : b.rows[k]? = none := by
          rw [List.getElem?_eq_none_iff] at h1 ⊢
          rw [← he.len]; exact h1
        rw [this]
      | some row' =>
        obtain ⟨row, hrow, hu⟩ := he.rows1 k row' h1
        rw [hrow]
        simp only [Option.map_some]
        rw [hu.1]
    rw [this]; exact hF.tags.nodup
  · -- tags.seen
    intro k row' _ hk
    obtain ⟨row, hrow, hu⟩ := he.rows1 k row' hk
    rw [he.seen, hu.1]
    exact hF.tags.seen k row (Nat.zero_le _) hrow
  · -- tags.unw
    intro k row' _ hk hfl
    obtain ⟨row, hrow, hu⟩ := he.rows1 k row' hk
    have hst := hsame hu (by rcases hfl with h1 | h1 <;> rw [h1] <;> exact fun hh => Flag.noConfusion hh)
    rw [hst] at hfl
    have hold := hF.tags.unw k row (Nat.zero_le _) hrow hfl
    intro e hm' hsub
    rw [hu.1]
    rcases he.wr_new e hm' with old | ⟨_, _, _, _, _, _, hed, _, _, _⟩
    · exact hold e old (List.mem_cons_of_mem _ hsub)
    · rw [hed] at hsub; exact absurd hsub hd
  · -- below
    intro e hm' hsub
    rcases he.wr_new e hm' with old | ⟨_, _, _, _, _, _, hed, _, _, _⟩
    · exact hF.below e old (List.mem_cons_of_mem _ hsub)
    · rw [hed] at hsub; exact absurd hsub hd

/-! ## the frame of the step -/

theorem stepRelG_of_eff {G : Ctx} {s s' : PS} {b b1 : Batch} {d : Nat} {sm : List Nat}
    (he : DestEff G s s' d b b1) : StepRelG G s b sm s' b1 sm := by
  refine
    { roots := fun _ h => h, empty := Iff.rfl, first := rfl, tagsub := ?_, wtag := ?_, seen := ?_,
      hsize := by rw [he.heap]; exact Nat.le_refl _, hframe := ?_, horig := ?_,
      mono := fun rid => by rw [he.view]; exact Nat.le_refl _ }
  · intro row' hmem
    obtain ⟨k, hk⟩ := List.getElem?_of_mem hmem
    obtain ⟨row, hrow, hu⟩ := he.rows1 k row' hk
    exact Or.inl ⟨row, List.mem_of_getElem? hrow, by rw [hu.1]⟩
  · intro e hm'
    rcases he.wr_new e hm' with old | ⟨p, row, _, hrow, _, _, _, _, htag, _⟩
    · exact Or.inl old
    · exact Or.inr ⟨row, List.mem_of_getElem? hrow, htag.symm⟩
  · intro x hx; rw [he.seen]; exact hx
  · intro rid _ hc
    exact ⟨by rw [he.heap], by rw [he.view]; exact hc⟩
  · intro rid _
    rw [he.heap]; exact ⟨rfl, rfl⟩

/-! ## the theorem -/

/-- `destDo_monS` (Proofs/MonSDest.lean) for a batch in flight under an arbitrary handler chain
`runAckNacker(X)`, `C0 : MC G X`. Whatever the result: the base invariant holds, every written tag
has been seen, the step is a `QStep` of `d` about roots of the batch, and the contract's invariant
is kept. When a batch is returned it is in flight again with `d` among the destinations passed. -/
theorem destDo_monG {G : Ctx} (hs : Src G) {X : Acker} (C0 : MC G X) {s s' : PS} {r : Except Stop Batch} {b : Batch}
    {d : Nat} {pre sub : List Nat} {rest : Nat → Nat} {doom : Nat → Prop} {nx : Nat} {sm : List Nat}
    (hF : FlightG C0 s pre pre True (d :: sub) rest doom nx b sm 0) (hd : d ∉ sub)
    (hcl : b.tainted = false) (haf : FlagsAF b)
    (hbelow : d ∈ C0.Below) (hinT : d ∈ tasksS G.tree) (hinD : d ∈ dests G.tree)
    (h : exec (destDo d b none) s = (r, s')) :
    Base G s' ∧ WSeen G s' ∧ QStep G d true (RootsOf G sm 0) s s' ∧ C0.Inv (nxJ sm nx 0) s' ∧
    ∀ b1, r = .ok b1 →
      FlightG C0 s' pre (pre ++ [d]) False sub rest doom nx b1 sm 0 ∧ StepRelG G s b sm s' b1 sm ∧
      (b1.tainted = false → FlagsAF b1) := by
  have _ := hcl
  have _ := hinT
  obtain ⟨rs, hvb⟩ := hF.tinv.vb
  have hB : Base G s := C0.base hF.inv
  have hfront : ∀ q : Nat, sm[0]? = some q → nxJ sm nx 0 = q := by
    intro q hq
    unfold nxJ; rw [hq]; rfl
  obtain ⟨hbase, hwseen, hq, hE, hrest⟩ :=
    destDo_effG hs hB hF.wseen hF.tinv.wf hvb hF.srcmap hfront haf hF.tags hF.below hinD h
  -- no root of the batch belongs to a record before the frontier
  have hR : ∀ x, RootsOf G sm 0 x → ∀ (j : Nat) (src : Rec), j < nxJ sm nx 0 → G.all[j]? = some src → root src = x →
      C0.Dead s j := by
    intro x hx j src hj hsrc hroot
    exfalso
    obtain ⟨k, q, src', _, hk, hsrc', hroot'⟩ := hx
    have hjq : j = q := hs.idx_of_root hsrc hsrc' (by rw [hroot, hroot'])
    have h0 : 0 < sm.length := by
      have := (List.getElem?_eq_some_iff.mp hk).1
      omega
    have hq0 : sm[0]? = some sm[0] := List.getElem?_eq_getElem h0
    have hle := hF.srcmap.mono (Nat.zero_le k) hq0 hk
    have := hfront _ hq0
    omega
  have hinv : C0.Inv (nxJ sm nx 0) s' := C0.quiet hF.inv hq hbelow hR hbase
  refine ⟨hbase, hwseen, hq, hinv, ?_⟩
  intro b1 hb1
  obtain ⟨he, _, htaint, hold, hstlen⟩ := hrest b1 hb1
  have hstep := (destDo_sspec d b s s' r rest hF.tinv.sinv h).2 b1 hb1
  refine ⟨flight_of_effG hs C0 hF hd haf hvb he hE hinv hwseen hstep.inv.tinv, stepRelG_of_eff he, ?_⟩
  intro ht q st' hq'
  have htc : TaintC b := by
    intro st hst hfl
    obtain ⟨k, hk⟩ := List.getElem?_of_mem hst
    rcases haf k st hk with h1 | h1 <;> rcases hfl with h2 | h2 <;> rw [h1] at h2 <;> cases h2
  have htc1 := htaint htc
  have hlt : q < b.st.length := by rw [← hstlen]; exact (List.getElem?_eq_some_iff.mp hq').1
  have hbq : b.st[q]? = some b.st[q] := List.getElem?_eq_getElem hlt
  rcases hold q _ st' hbq hq' with h1 | h1
  · rw [h1]; exact haf q _ hbq
  · have := htc1 st' (List.mem_of_getElem? hq') (Or.inl h1)
    rw [ht] at this; cases this

end Conduit.Funnel
