import ConduitModel.Proofs.MonGPipe
import ConduitModel.Proofs.MonGFanDefs
import ConduitModel.Proofs.MonGOrig
import ConduitModel.Proofs.MonGBare

/-!
# Fan-out (not nested) on batches with split runs, under the root handler chain
-/
namespace Conduit.Funnel
open Conduit.Funnel.Mon

/-- every new `written` entry carries the tag of a row of `sb` or a tag new at `s` -/
def WT (G : Ctx) (sb : Batch) (s s' : PS) : Prop :=
  ∀ e ∈ (G.mu s').written, e ∈ (G.mu s).written ∨ (∃ row ∈ sb.rows, row.r.tag = e.2.2.1) ∨ e.2.2.1 ∉ Seen G s

theorem WT.refl (G : Ctx) (sb : Batch) (s : PS) : WT G sb s s := fun _ he => Or.inl he

theorem WT.trans {G : Ctx} {sb : Batch} {s s1 s2 : PS} (h1 : WT G sb s s1) (h2 : WT G sb s1 s2)
    (hseen : ∀ x ∈ Seen G s, x ∈ Seen G s1) : WT G sb s s2 := by
  intro e he
  rcases h2 e he with g | g | g
  · exact h1 e g
  · exact Or.inr (Or.inl g)
  · exact Or.inr (Or.inr (fun hm => g (hseen _ hm)))

/-- the branches only return `.ok` when no branch failed -/
theorem branches_ok_none : ∀ (fuel : Nat) (nexts : List TaskNode) (order : List Nat) (b : Batch) (a : Acker)
    (errs : Option Err) (pan : Option String) (s s' : PS),
    exec (branches fuel nexts order b a errs pan) s = (.ok (), s') → errs = none ∧ pan = none := by
  intro fuel
  induction fuel with
  | zero => intro nexts order b a errs pan s s' h; rw [branches] at h; cases h
  | succ fuel ih =>
    intro nexts order b a errs pan s s' h
    cases order with
    | nil =>
      cases pan with
      | some m => rw [branches] at h; cases h
      | none =>
        cases errs with
        | some e => rw [branches] at h; cases h
        | none => exact ⟨rfl, rfl⟩
    | cons k rest =>
      rw [branches] at h
      cases hk : nexts[k]? with
      | none => rw [hk] at h; exact ih _ _ _ _ _ _ _ _ h
      | some n =>
        rw [hk] at h
        dsimp only at h
        rw [exec_bind, exec_get] at h
        dsimp only at h
        rw [exec_bind, exec_set] at h
        dsimp only at h
        rw [exec_bind, exec_tryCatch, exec_bind] at h
        rcases hd : exec (doTaskAttempt fuel n (Batch.clone s.heap b).2 (.run a) none false)
          { s with heap := (Batch.clone s.heap b).1 } with ⟨rb, s2⟩
        rw [hd] at h
        cases rb with
        | ok u =>
          dsimp only at h; rw [exec_pure] at h; dsimp only at h
          exact ih _ _ _ _ _ _ _ _ h
        | error e =>
          dsimp only at h; rw [exec_pure] at h; dsimp only at h
          cases e with
          | panic m =>
            dsimp only at h
            have := (ih _ _ _ _ _ _ _ _ h).2
            cases pan <;> simp at this
          | err e =>
            dsimp only at h
            have := (ih _ _ _ _ _ _ _ _ h).1
            cases errs <;> simp at this

/-- linear subtrees under any contract (no fan-out hook needed) -/
theorem pipeG_linear {G : Ctx} (hs : Src G) (D : DepsG G) (fuel : Nat) : PipeG G Linear (fun _ _ => True) fuel :=
  (pipeG_all hs D Linear (fun _ _ => True) (fun _ h _ => h.child)
    (fun _ _ X C0 node pre nx sb sm rest doom s s' r hg _ _ h2 => by have := hg.len; omega) fuel fuel (Nat.le_refl _)).1

/-- static facts about one fan-out invocation under the chain with contract `C` -/
structure FanStaticG {G : Ctx} {a : Acker} (C : MC G a) (Tp Dp : List Nat) (nexts : List TaskNode) : Prop where
  lin : ∀ n ∈ nexts, Linear n
  nodup : (tasksL nexts).Nodup
  notTp : ∀ x ∈ tasksL nexts, x ∉ Tp
  below : ∀ x ∈ tasksL nexts, x ∈ C.Below
  inT : ∀ x ∈ tasksL nexts, x ∈ tasksS G.tree
  inD : ∀ x ∈ destsL nexts, x ∈ dests G.tree
  coverT : ∀ x ∈ C.T, x ∈ Tp ∨ x ∈ tasksL nexts
  coverD : ∀ x ∈ C.D, x ∈ Dp ∨ x ∈ destsL nexts
  dT : ∀ x ∈ Dp, x ∈ Tp

/-- the per-branch C04 ledger frame: a branch only touches the runs of its (cloned) batch -/
theorem branch_heap_frame {fuel : Nat} {n : TaskNode} {bb : Batch} {id : Nat} {s1 s2 : PS} {rb : Except Stop Unit}
    (hlin : Linear n) (hid : id < s1.mas.size) (hmok : MOK (s1.mas[id]!)) (hsi : SInv s1.heap (fun _ => 0) bb)
    (hd : exec (doTaskAttempt fuel n bb (.run (.multi id (.run .worker))) none false) s1 = (rb, s2)) :
    s1.heap.size ≤ s2.heap.size ∧ ∀ rid : Nat, rid < s1.heap.size → cnt rid bb.view = 0 → s2.heap[rid]! = s1.heap[rid]! := by
  have := spipe_linear fuel (.multi id (.run .worker)) (mContract (runContract wContract) id (Nat.zero_le _)) n bb none false
    s1 s2 rb (fun _ => 0) hlin ⟨trivial, hid, hmok⟩ hsi hd
  exact ⟨this.hsize, this.hframe⟩

/-- The branches of one fan-out under the root chain, run one after the other: whatever happens the
tally invariant holds between the branches, the only new facts are by tasks of the branches about
the batch, written tags are seen, and the heap entries that existed are untouched. -/
theorem branchesG {G : Ctx} (hs : Src G) (D : DepsG G) (Tp Dp pre : List Nat) (nexts : List TaskNode) (nx : Nat)
    (sb : Batch) (sm : List Nat) (hst : FanStaticG (workerMC G hs) Tp Dp nexts) (hcl : sb.tainted = false) (haf : FlagsAF sb)
    (hpre : ∀ x ∈ Dp, x ∈ pre) :
    ∀ (fuel : Nat) (order : List Nat) (errs : Option Err) (pan : Option String) (F : FanCtx) (s s' : PS)
      (r : Except Stop Unit),
      F.m0 = nxJ sm nx 0 → F.M = nexts.length → F.Tp = Tp → F.Dp = Dp →
      MBet (workerMC G hs) F s → WSeen G s →
      order.Nodup → (∀ k ∈ order, k < nexts.length) → F.t + order.length = F.M →
      (∀ k ∈ order, ∀ n, nexts[k]? = some n →
        ReadyG G s (Tp ++ tasksS n) (Dp ++ destsS n) pre n nx sb sm ∧ (∀ x ∈ tasksS n, x ∉ F.brT.flatten)) →
      (∀ (k : Nat) (n : TaskNode), nexts[k]? = some n → k ∉ order →
        (∀ x ∈ tasksS n, x ∈ F.brT.flatten) ∧ (∀ x ∈ destsS n, x ∈ F.brD.flatten)) →
      exec (branches fuel nexts order sb (.multi F.id (.run .worker)) errs pan) s = (r, s') → RP G s' → FT G s' →
      ∃ F' : FanCtx, F'.id = F.id ∧ F'.m0 = F.m0 ∧ F'.L = F.L ∧ MBet (workerMC G hs) F' s' ∧
        ExtT (tasksL nexts) (destsL nexts) (RootsOf G sm 0) (G.view s) (G.view s') ∧ WSeen G s' ∧ HFr s s' ∧
        (∀ x ∈ Seen G s, x ∈ Seen G s') ∧ (r = .ok () → WT G sb s s') := by
  let C := workerMC G hs
  have hben : Benign C := workerMC_benign G hs
  have hdead : ∀ (s : PS) (j : Nat), C.Dead s j := fun _ _ => trivial
  intro fuel
  induction fuel with
  | zero =>
    intro order errs pan F s s' r _ _ _ _ hB hw _ _ _ _ _ h _ _
    rw [branches] at h; cases h
    exact ⟨F, rfl, rfl, rfl, hB, ExtT.refl _ _ _ _, hw, HFr.refl _, fun _ hx => hx, fun hr => nomatch hr⟩
  | succ fuel ih =>
    intro order errs pan F s s' r hm0 hM hTp hDp hB hw hnd hval hcnt hready hstarted h hrp hft
    cases order with
    | nil =>
      have : s' = s := by
        cases pan with
        | some m => rw [branches] at h; cases h; rfl
        | none =>
          cases errs with
          | some e => rw [branches] at h; cases h; rfl
          | none => rw [branches] at h; cases h; rfl
      subst this
      exact ⟨F, rfl, rfl, rfl, hB, ExtT.refl _ _ _ _, hw, HFr.refl _, fun _ hx => hx, fun _ => WT.refl _ _ _⟩
    | cons k rest =>
      have hok0 := branches_ok_none (fuel + 1) nexts (k :: rest) sb (.multi F.id (.run .worker)) errs pan s s'
      rw [branches] at h
      have hkl : k < nexts.length := hval k List.mem_cons_self
      have hk : nexts[k]? = some nexts[k] := List.getElem?_eq_getElem hkl
      generalize hn : nexts[k] = n at hk
      have hnm : n ∈ nexts := List.mem_of_getElem? hk
      rw [hk] at h
      dsimp only at h
      rw [exec_bind, exec_get] at h
      dsimp only at h
      rw [exec_bind, exec_set] at h
      dsimp only at h
      generalize hs1 : ({ s with heap := (Batch.clone s.heap sb).1 } : PS) = s1 at h
      generalize hbb : (Batch.clone s.heap sb).2 = bb at h
      have hsame : SameBut (F.id + 1) s s1 := by
        rw [← hs1]; exact ⟨rfl, rfl, rfl, rfl, rfl, rfl, Nat.le_refl _, fun _ _ => rfl⟩
      have hv1 : G.view s1 = G.view s := view_same G s s1 hsame.log
      have hB1 : MBet C F s1 := hB.frame hsame
      -- the child's tasks / destinations
      have hTn : ∀ x ∈ tasksS n, x ∈ tasksL nexts := fun x hx => mem_tasksL.mpr ⟨n, hnm, hx⟩
      have hDn : ∀ x ∈ destsS n, x ∈ destsL nexts := fun x hx => mem_destsL.mpr ⟨n, hnm, hx⟩
      obtain ⟨hrdy, hfreshn⟩ := hready k List.mem_cons_self n hk
      have hrest : rest.Nodup ∧ k ∉ rest := by
        have := List.nodup_cons.mp hnd; exact ⟨this.2, this.1⟩
      have hlt : F.t < F.M := by simp only [List.length_cons] at hcnt; omega
      have hnotT : ∀ x ∈ tasksS n, x ∉ F.Tp ++ F.brT.flatten := by
        intro x hx hm
        rcases List.mem_append.mp hm with h1 | h1
        · rw [hTp] at h1; exact hst.notTp x (hTn x hx) h1
        · exact hfreshn x hx h1
      have hnotD : ∀ x ∈ destsS n, x ∉ F.Dp ++ F.brD.flatten := by
        intro x hx hm
        exact hnotT x (destsS_sub_tasksS n x hx) (hB.dsubs x hm)
      have hcT : F.t + 1 = F.M → ∀ x ∈ C.T, x ∈ F.Tp ++ F.brT.flatten ++ tasksS n := by
        intro hlast x hx
        have hr0 : rest = [] := by
          simp only [List.length_cons] at hcnt
          exact List.length_eq_zero_iff.mp (by omega)
        rcases hst.coverT x hx with h1 | h1
        · exact List.mem_append_left _ (List.mem_append_left _ (by rw [hTp]; exact h1))
        · obtain ⟨n', hn', hx'⟩ := mem_tasksL.mp h1
          obtain ⟨k', hk', hk'e⟩ := List.getElem_of_mem hn'
          by_cases hkk : k' = k
          · subst hkk
            have : n' = n := by rw [← hk'e, hn]
            rw [this] at hx'
            exact List.mem_append_right _ hx'
          · have := hstarted k' n' (by rw [← hk'e]; exact List.getElem?_eq_getElem hk') (by rw [hr0]; simpa using hkk)
            exact List.mem_append_left _ (List.mem_append_right _ (this.1 x hx'))
      have hcD : F.t + 1 = F.M → ∀ x ∈ C.D, x ∈ F.Dp ++ F.brD.flatten ++ destsS n := by
        intro hlast x hx
        have hr0 : rest = [] := by
          simp only [List.length_cons] at hcnt
          exact List.length_eq_zero_iff.mp (by omega)
        rcases hst.coverD x hx with h1 | h1
        · exact List.mem_append_left _ (List.mem_append_left _ (by rw [hDp]; exact h1))
        · obtain ⟨n', hn', hx'⟩ := mem_destsL.mp h1
          obtain ⟨k', hk', hk'e⟩ := List.getElem_of_mem hn'
          by_cases hkk : k' = k
          · subst hkk
            have : n' = n := by rw [← hk'e, hn]
            rw [this] at hx'
            exact List.mem_append_right _ hx'
          · have := hstarted k' n' (by rw [← hk'e]; exact List.getElem?_eq_getElem hk') (by rw [hr0]; simpa using hkk)
            exact List.mem_append_left _ (List.mem_append_right _ (this.2 x hx'))
      have hI1 : MAInv C (F.push (tasksS n) (destsS n)) F.m0 s1 :=
        hB1.start (tasksS n) (destsS n) hlt (fun x hx => hst.below x (hTn x hx)) hnotT hnotD
          (destsS_sub_tasksS n) hcT hcD
      -- the branch, against the contract of its handler chain
      let F' := F.push (tasksS n) (destsS n)
      let C0 := multiMC0 C hben hdead hs F'
      have hT0 : C0.T = Tp ++ tasksS n := by
        show F'.Tp ++ F'.Tcur = _
        rw [FanCtx.push_Tcur, FanCtx.push_Tp, hTp]
      have hD0 : C0.D = Dp ++ destsS n := by
        show F'.Dp ++ F'.Dcur = _
        rw [FanCtx.push_Dcur, FanCtx.push_Dp, hDp]
      have hpath : PathG C0 pre n := by
        refine ⟨?_, tasksS_nodup_of_tasksL hst.nodup hnm, fun x hx => hst.inT x (hTn x hx),
          fun x hx => hst.inD x (hDn x hx), ?_⟩
        · intro x hx
          rw [hD0] at hx
          rcases List.mem_append.mp hx with h1 | h1
          · exact Or.inl (hpre x h1)
          · exact Or.inr h1
        · intro x hx
          show x ∈ F'.Tcur
          rw [FanCtx.push_Tcur]; exact hx
      have hw1 : WSeen G s1 := by
        intro e he
        have hm : G.mu s1 = G.mu s := mu_same G s s1 hsame.log
        rw [hm] at he
        have hsn : Seen G s1 = Seen G s := Seen.same hsame.log
        rw [hsn]; exact hw e he
      have hfl : FlightG C0 s1 pre pre True (destsS n) (fun _ => 0) (fun _ => False) nx bb sm 0 := by
        have := hrdy.flight hw C0 hT0 hD0 (by
          show MAInv C F' (nxJ sm nx 0) { s with heap := (sb.clone s.heap).1 }
          have e : ({ s with heap := (sb.clone s.heap).1 } : PS) = s1 := hs1
          rw [e, ← hm0]; exact hI1)
        have e : ({ s with heap := (sb.clone s.heap).1 } : PS) = s1 := hs1
        have e2 : (sb.clone s.heap).2 = bb := hbb
        rw [e, e2] at this
        exact this
      obtain ⟨cst, _, _, ctaint⟩ := clone_fields s.heap sb
      have cst' : bb.st = sb.st := by rw [← hbb]; exact cst
      have ctaint' : bb.tainted = sb.tainted := by rw [← hbb]; exact ctaint
      have haf' : FlagsAF bb := by intro q st hq; rw [cst'] at hq; exact haf q st hq
      rw [exec_bind, exec_tryCatch, exec_bind] at h
      rcases hd : exec (doTaskAttempt fuel n bb (.run (.multi F.id (.run .worker))) none false) s1 with ⟨rb, s2⟩
      rw [hd] at h
      -- the rest of the loop only appends to the log
      have hmono : s2.log.toList <+: s'.log.toList := by
        cases rb with
        | ok u => dsimp only at h; rw [exec_pure] at h; dsimp only at h; exact log_mono_branches h
        | error e =>
          dsimp only at h; rw [exec_pure] at h; dsimp only at h
          cases e <;> exact log_mono_branches h
      have hres := pipeG_linear hs D fuel (.multi F'.id (.run .worker)) C0 n pre nx bb sm (fun _ => 0) (fun _ => False) none false
        s1 s2 rb (hst.lin n hnm) trivial hpath (fun hh => Bool.noConfusion hh) hfl (by rw [ctaint']; exact hcl) haf' hd
        (hrp.prefix hmono) (hft.prefix hmono)
      have hI2 : ∃ p, MAInv C F' p s2 := by
        cases rb with
        | ok u => exact ⟨_, hres.inv rfl⟩
        | error e => exact hres.err (fun hh => nomatch hh)
      obtain ⟨p2, hI2⟩ := hI2
      have hB2 : MBet C F' s2 := hI2.finish
      have hext12 : ExtT (tasksL nexts) (destsL nexts) (RootsOf G sm 0) (G.view s) (G.view s2) := by
        have := hres.ext
        rw [hv1] at this
        exact this.mono hTn hDn (fun _ hx => hx)
      -- heap: what existed before the clone is untouched
      have hsi1 : SInv s1.heap (fun _ => 0) bb := hfl.tinv.sinv
      obtain ⟨hz1, hz2⟩ := branch_heap_frame (hst.lin n hnm) hI1.hid hI1.ti.mok hsi1 hd
      obtain ⟨_, _, hc3, hc4, hc5⟩ := clone_SInv hrdy.sinv (fun r hr => ⟨hrdy.whole r hr, rfl⟩)
      have hheap1 : s1.heap = (sb.clone s.heap).1 := by rw [← hs1]
      have hfr12 : HFr s s2 := by
        refine ⟨by rw [hheap1] at hz1; exact Nat.le_trans hc3 hz1, fun rid hlt' => ?_⟩
        have h1 : rid < s1.heap.size := by rw [hheap1]; exact Nat.lt_of_lt_of_le hlt' hc3
        have h2 : cnt rid bb.view = 0 := by rw [← hbb]; exact hc5 rid hlt'
        rw [hz2 rid h1 h2, hheap1]
        exact hc4 rid hlt'
      have hseen12 : ∀ x ∈ Seen G s, x ∈ Seen G s2 := by
        intro x hx
        have hsn : Seen G s1 = Seen G s := Seen.same hsame.log
        rw [← hsn] at hx
        exact Seen.mono (log_mono_dta hd) x hx
      -- the remaining branches
      have hready' : ∀ k' ∈ rest, ∀ n', nexts[k']? = some n' →
          ReadyG G s2 (Tp ++ tasksS n') (Dp ++ destsS n') pre n' nx sb sm ∧ (∀ x ∈ tasksS n', x ∉ F'.brT.flatten) := by
        intro k' hk' n' hn'
        obtain ⟨r1, r2⟩ := hready k' (List.mem_cons_of_mem _ hk') n' hn'
        have hne : k ≠ k' := fun he => hrest.2 (he ▸ hk')
        have hdisj := tasksL_disj nexts hst.nodup k k' n n' hk hn' hne
        have hext := hres.ext
        rw [hv1] at hext
        refine ⟨r1.frame hext ?_ ?_ hseen12 hfr12, ?_⟩
        · intro x hx hm
          rcases List.mem_append.mp hm with h1 | h1
          · exact hst.notTp x (hTn x hx) h1
          · exact hdisj x hx h1
        · intro x hx
          have hxT := destsS_sub_tasksS n x hx
          refine ⟨fun hm => ?_, fun hm => hdisj x hxT (destsS_sub_tasksS n' x hm)⟩
          rcases List.mem_append.mp hm with h1 | h1
          · exact hst.notTp x (hTn x hxT) (hst.dT x h1)
          · exact hdisj x hxT (destsS_sub_tasksS n' x h1)
        · intro x hx hm
          have : F'.brT.flatten = F.brT.flatten ++ tasksS n := by simp [F', FanCtx.push]
          rw [this] at hm
          rcases List.mem_append.mp hm with h1 | h1
          · exact r2 x hx h1
          · exact hdisj x h1 hx
      have hstarted' : ∀ (k' : Nat) (n' : TaskNode), nexts[k']? = some n' → k' ∉ rest →
          (∀ x ∈ tasksS n', x ∈ F'.brT.flatten) ∧ (∀ x ∈ destsS n', x ∈ F'.brD.flatten) := by
        intro k' n' hn' hk'
        have e1 : F'.brT.flatten = F.brT.flatten ++ tasksS n := by simp [F', FanCtx.push]
        have e2 : F'.brD.flatten = F.brD.flatten ++ destsS n := by simp [F', FanCtx.push]
        rw [e1, e2]
        by_cases hkk : k' = k
        · subst hkk
          have : n' = n := by rw [hk] at hn'; exact (Option.some.inj hn').symm
          rw [this]
          exact ⟨fun x hx => List.mem_append_right _ hx, fun x hx => List.mem_append_right _ hx⟩
        · have := hstarted k' n' hn' (by simp [hkk, hk'])
          exact ⟨fun x hx => List.mem_append_left _ (this.1 x hx), fun x hx => List.mem_append_left _ (this.2 x hx)⟩
      have hcont : ∀ (errs' : Option Err) (pan' : Option String) (hwt : r = .ok () → errs' = none ∧ pan' = none → WT G sb s s2),
          exec (branches fuel nexts rest sb (.multi F.id (.run .worker)) errs' pan') s2 = (r, s') →
          ∃ F'' : FanCtx, F''.id = F.id ∧ F''.m0 = F.m0 ∧ F''.L = F.L ∧ MBet C F'' s' ∧
            ExtT (tasksL nexts) (destsL nexts) (RootsOf G sm 0) (G.view s) (G.view s') ∧ WSeen G s' ∧ HFr s s' ∧
            (∀ x ∈ Seen G s, x ∈ Seen G s') ∧ (r = .ok () → WT G sb s s') := by
        intro errs' pan' hwt hx
        obtain ⟨F'', g1, g2, g3, g4, g5, g6, g7, g8, g9⟩ := ih rest errs' pan' F' s2 s' r hm0 hM hTp hDp hB2 hres.wseen hrest.1
          (fun k' hk' => hval k' (List.mem_cons_of_mem _ hk'))
          (by simp only [List.length_cons] at hcnt; rw [FanCtx.push_t]; show F.t + 1 + rest.length = F.M; omega)
          hready' hstarted' hx hrp hft
        refine ⟨F'', g1, g2, g3, g4, hext12.trans g5, g6, hfr12.trans g7, fun x hx' => g8 x (hseen12 x hx'), fun hr => ?_⟩
        subst hr
        have hnone := branches_ok_none fuel nexts rest sb (.multi F.id (.run .worker)) errs' pan' s2 s' hx
        exact (hwt rfl hnone).trans (g9 rfl) hseen12
      cases rb with
      | ok u =>
        dsimp only at h
        rw [exec_pure] at h
        dsimp only at h
        refine hcont _ _ (fun _ _ => ?_) h
        -- the branch's new entries carry tags of rows of the clone = rows of the batch
        intro e he
        rcases hres.wtag rfl e he with g | ⟨k', row, _, hrow, ht⟩ | g
        · have hm : G.mu s1 = G.mu s := mu_same G s s1 hsame.log
          rw [hm] at g; exact Or.inl g
        · have hrw : ∃ row0 ∈ sb.rows, row0.r.tag = row.r.tag := by
            have hk'l : k' < bb.recs.length := by
              have := (List.getElem?_eq_some_iff.mp hrow).1; rwa [rows_length] at this
            obtain ⟨_, crecs, _, _⟩ := clone_fields s.heap sb
            have crecs' : bb.recs = sb.recs := by rw [← hbb]; exact crecs
            have hk'l2 : k' < sb.recs.length := by rw [← crecs']; exact hk'l
            rw [rows_get bb hk'l] at hrow
            refine ⟨_, List.mem_of_getElem? (rows_get sb hk'l2), ?_⟩
            rw [← Option.some.inj hrow, crecs']
          obtain ⟨row0, h0, h1⟩ := hrw
          exact Or.inr (Or.inl ⟨row0, h0, h1.trans ht⟩)
        · have hsn : Seen G s1 = Seen G s := Seen.same hsame.log
          rw [hsn] at g; exact Or.inr (Or.inr g)
      | error e =>
        dsimp only at h
        rw [exec_pure] at h
        dsimp only at h
        cases e with
        | panic m =>
          dsimp only at h
          refine hcont _ _ (fun _ hn' => ?_) h
          have := hn'.2
          cases pan <;> simp at this
        | err e =>
          dsimp only at h
          refine hcont _ _ (fun _ hn' => ?_) h
          have := hn'.1
          cases errs <;> simp at this

/-! ## the fan-out step under the root handler chain -/

/-- every source between the first and a given one has a row -/
theorem SM.onto {G : Ctx} {h : Heap} {b : Batch} {sm : List Nat} (hm : SrcMap G h b sm) {q0 : Nat} (h0 : sm[0]? = some q0) :
    ∀ (k qk : Nat), sm[k]? = some qk → ∀ q : Nat, q0 ≤ q → q ≤ qk → ∃ k' : Nat, sm[k']? = some q := by
  intro k
  induction k with
  | zero =>
    intro qk hk q h1 h2
    rw [h0] at hk; cases hk
    exact ⟨0, by rw [h0]; congr 1; omega⟩
  | succ k ih =>
    intro qk hk q h1 h2
    have hlt : k < sm.length := by have := (List.getElem?_eq_some_iff.mp hk).1; omega
    have hkk : sm[k]? = some sm[k] := List.getElem?_eq_getElem hlt
    rcases hm.step k _ qk hkk hk with he | he
    · exact ih _ hkk q h1 (by omega)
    · by_cases hq : q ≤ sm[k]
      · exact ih _ hkk q h1 hq
      · exact ⟨k + 1, by rw [hk]; congr 1; omega⟩

/-- the ledger invariant of a batch whose runs are whole does not depend on `rest` -/
theorem SInv.whole0 {h : Heap} {rest : Nat → Nat} {b : Batch} (hi : SInv h rest b)
    (hw : ∀ r : Nat, 0 < cnt r b.view → rest r = 0) : SInv h (fun _ => 0) b :=
  ⟨hi.wf, hi.ne, hi.runs, hi.nopos, fun r hr => by
      obtain ⟨g1, g2⟩ := hi.acc r hr
      rw [hw r hr] at g2
      exact ⟨g1, g2⟩,
    fun _ _ => rfl, hi.shape, hi.headless⟩

/-- the contract is the bare root handler's -/
def IsWorkerG (G : Ctx) (hs : Src G) : ∀ X, MC G X → Prop :=
  fun X C0 => (⟨X, C0⟩ : (X : Acker) × MC G X) = ⟨.worker, workerMC0 G hs⟩

theorem GoodG.child {G : Ctx} {node : TaskNode} (h : GoodG G node) (hl : node.next.length = 1) : ∀ n ∈ node.next, GoodG G n := by
  intro n hn
  obtain ⟨h1, h2, h3⟩ := h
  have hnx : node.next = [n] := by
    cases hx : node.next with
    | nil => rw [hx] at hl; simp at hl
    | cons a t =>
      cases t with
      | nil => rw [hx] at hn; simp at hn; rw [hn]
      | cons c t => rw [hx] at hl; simp at hl
  have hts : tasksS node = node.id :: tasksS n := by rw [tasksS_own, hnx, tasksL_single]
  have hds : destsS node = own node ++ destsS n := by rw [destsS_own, hnx, destsL_single]
  rw [hts] at h2
  refine ⟨h1.child hl n hn, (List.nodup_cons.mp h2).2, fun x hx hxt => ?_⟩
  have := h3 x hx (by rw [hts]; exact List.mem_cons_of_mem _ hxt)
  rw [hds] at this
  rcases List.mem_append.mp this with g | g
  · have : x = node.id := own_sub node x g
    rw [this] at hxt
    exact absurd hxt (List.nodup_cons.mp h2).1
  · exact g

/-- the branches of a fan-out under the root chain, from the state in which the tally was created -/
theorem fan_coreG {G : Ctx} (hs : Src G) (D : DepsG G) (fuel : Nat) (node : TaskNode) (pre : List Nat) (nx : Nat)
    (sb : Batch) (sm : List Nat) (rest : Nat → Nat) (doom : Nat → Prop) (s s' : PS) (r : Except Stop Unit)
    (hg : GoodG G node) (hpath : PathG (workerMC0 G hs) pre node) (h2 : 2 ≤ node.next.length)
    (hF : FlightG (workerMC0 G hs) s pre (pre ++ own node) (node.kind ≠ .dest) (destsL node.next) rest doom nx sb sm 0)
    (hcl : sb.tainted = false) (haf : FlagsAF sb) (hrw : runsWhole s.heap sb = true)
    (order : List Nat) (orest : List (List Nat))
    (hord : order.Nodup ∧ (∀ k ∈ order, k < node.next.length) ∧ (∀ k : Nat, k < node.next.length → k ∈ order) ∧
      order.length = node.next.length)
    (ma : MA) (hma : maNew node.next.length sb.original.pos = .ok ma)
    (h : exec (branches fuel node.next order sb (.multi s.mas.size (.run .worker)) none none)
      { s with mas := s.mas.push ma, orders := orest } = (r, s')) (hrp : RP G s') (hft : FT G s') :
    ∃ F' : FanCtx, F'.m0 = nxJ sm nx 0 ∧ F'.L = sb.original.pos.length ∧ MBet (workerMC G hs) F' s' ∧
      ExtT (tasksL node.next) (destsL node.next) (RootsOf G sm 0) (G.view s) (G.view s') ∧ WSeen G s' ∧ HFr s s' ∧
      (∀ x ∈ Seen G s, x ∈ Seen G s') ∧ (r = .ok () → WT G sb s s') := by
  generalize hs1 : ({ s with mas := s.mas.push ma, orders := orest } : PS) = s1 at h
  let C := workerMC G hs
  let C0 := workerMC0 G hs
  let Tp : List Nat := (tasksS G.tree).filter (fun x => decide (x ∉ tasksL node.next))
  let Dp : List Nat := (dests G.tree).filter (fun x => decide (x ∉ destsL node.next))
  let m0 := nxJ sm nx 0
  let F0 : FanCtx := { id := s.mas.size, m0 := m0, L := sb.original.pos.length, M := node.next.length,
                       Tp := Tp, Dp := Dp, brT := [], brD := [] }
  obtain ⟨hfan1, hnodup, hgd⟩ := hg
  obtain ⟨hmok, _, hv0⟩ := maNew_MOK node.next.length sb.original.pos ma (by omega) hma
  obtain ⟨hfr, hbr, hpos⟩ := maNew_fresh node.next.length sb.original.pos ma hma
  have hts := tasksS_own node
  have hds := destsS_own node
  have hidn : node.id ∉ tasksL node.next := by
    have := hnodup; rw [hts] at this; exact (List.nodup_cons.mp this).1
  have hm1 : s1.mas[s.mas.size]! = ma := by rw [← hs1]; exact mas_push_get_size _ _
  have hsame : SameBut 0 s s1 := by
    rw [← hs1]
    exact ⟨rfl, rfl, rfl, rfl, rfl, rfl, by simp, fun i hi => absurd hi (Nat.not_lt_zero _)⟩
  have hv1 : G.view s1 = G.view s := view_same G s s1 hsame.log
  have hmu1 : G.mu s1 = G.mu s := mu_same G s s1 hsame.log
  have hheap1 : s1.heap = s.heap := by rw [← hs1]
  have hI : WInv G m0 s := hF.inv
  have hI1 : WInv G m0 s1 := hI.same hsame.log hsame.scripts
  have hsi : SInv s.heap rest sb := hF.tinv.sinv
  have hwhole := runsWhole_acc hsi hrw
  have hsi0 : SInv s.heap (fun _ => 0) sb := hsi.whole0 (fun r hr => (hwhole r hr).2)
  obtain ⟨rs, hvb⟩ := hsi.vb
  have hm := hF.srcmap
  -- the sources of the batch
  have hkeys : (∀ (ix : Nat) (p : PosV), sb.original.pos[ix]? = some p → ∃ src, G.all[m0 + ix]? = some src ∧ keyOf p = keyR src) ∧
      (∀ (k q : Nat), sm[k]? = some q → m0 ≤ q ∧ q < m0 + sb.original.pos.length) ∧
      (∀ ix : Nat, ix < sb.original.pos.length → ∃ k : Nat, sm[k]? = some (m0 + ix)) := by
    cases hq0 : sm[0]? with
    | none =>
      have hl0 : sm.length = 0 := by have := List.getElem?_eq_none_iff.mp hq0; omega
      have hr0 : sb.recs.length = 0 := by rw [← rows_length, ← hm.len]; exact hl0
      have hp0 : sb.pos.length = 0 := by rw [hvb.plen]; exact hr0
      have hop : sb.original.pos.length = 0 := by
        by_cases hsp : sb.split.length = 0
        · rw [original_of_split_nil (List.length_eq_zero_iff.mp hsp)]; exact hp0
        · rw [original_pos hsi.wf hsp]
          have := List.length_filter_le (fun x => x != none) sb.pos
          omega
      refine ⟨fun ix p hp => ?_, fun k q hk => ?_, fun ix hix => by omega⟩
      · have := (List.getElem?_eq_some_iff.mp hp).1; omega
      · have := (List.getElem?_eq_some_iff.mp hk).1; omega
    | some q0 =>
      have hm0e : m0 = q0 := by show nxJ sm nx 0 = q0; unfold nxJ; rw [hq0]; rfl
      obtain ⟨k1, k2, k3⟩ := orig_keys hs hsi0 (fun r hr => (hwhole r hr).1) hm hma hq0
      rw [hm0e]
      refine ⟨k1, k2, fun ix hix => ?_⟩
      have hne : sm ≠ [] := by intro he; rw [he] at hq0; cases hq0
      obtain ⟨ql, hql⟩ : ∃ ql, sm.getLast? = some ql := ⟨_, List.getLast?_eq_some_getLast hne⟩
      have hql' := hql
      rw [List.getLast?_eq_getElem?] at hql'
      have := k3 ql hql
      exact SM.onto hm hq0 _ ql hql' (q0 + ix) (by omega) (by omega)
  obtain ⟨hk1, hk2, hk3⟩ := hkeys
  -- facts about rows
  have hrowfl : ∀ (k : Nat) (row : Row), sb.rows[k]? = some row → row.st.flag = .ack ∨ row.st.flag = .filter :=
    fun k row hr => flagsAF_row hvb haf hr
  have hTsub : ∀ x ∈ Tp, x ∈ tasksS G.tree := fun x hx => (List.mem_filter.mp hx).1
  have hDsub : ∀ x ∈ Dp, x ∈ dests G.tree := fun x hx => (List.mem_filter.mp hx).1
  have hDpre : ∀ x ∈ Dp, x ∈ pre ++ own node := by
    intro x hx
    obtain ⟨h1, h2'⟩ := List.mem_filter.mp hx
    have h2'' : x ∉ destsL node.next := by simpa using h2'
    rcases hpath.coverD x h1 with g | g
    · exact List.mem_append_left _ g
    · rw [hds] at g
      rcases List.mem_append.mp g with g | g
      · exact List.mem_append_right _ g
      · exact absurd g h2''
  have hDT : ∀ x ∈ Dp, x ∈ Tp := by
    intro x hx
    obtain ⟨h1, h2'⟩ := List.mem_filter.mp hx
    have h2'' : x ∉ destsL node.next := by simpa using h2'
    refine List.mem_filter.mpr ⟨destsS_sub_tasksS G.tree x h1, ?_⟩
    simp only [decide_eq_true_eq]
    intro hxt
    have := hgd x h1 (by rw [hts]; exact List.mem_cons_of_mem _ hxt)
    rw [hds] at this
    rcases List.mem_append.mp this with g | g
    · rw [own_sub node x g] at hxt; exact hidn hxt
    · exact h2'' g
  -- every row's root is clean for the whole tree
  have hcleanrow : ∀ (k : Nat) (row : Row) (q : Nat) (src : Rec), sb.rows[k]? = some row → sm[k]? = some q →
      G.all[q]? = some src → CleanT (G.view s) (tasksS G.tree) (dests G.tree) (root src) := by
    intro k row q src hr hq hsrc
    have hnn : row.st.flag ≠ .nack := by
      rcases hrowfl k row hr with h1 | h1 <;> rw [h1] <;> exact fun hh => Flag.noConfusion hh
    cases hrun : row.run with
    | none => exact hF.facts.clean k row q src (Nat.zero_le _) hr hq hsrc hrun hnn
    | some rid =>
      have hc : 0 < cnt rid (sb.view.drop 0) := (cnt_drop_pos hvb).mpr ⟨k, row, Nat.zero_le _, hr, hrun⟩
      have hlin := hF.hlin rid (Or.inl hc)
      have hroot := run_rootG hs hm hlin hr hrun hq hsrc
      apply Classical.byContradiction
      intro hncl
      rw [← hroot] at hncl
      rcases hF.ci rid hc hncl with g | g | ⟨k', row', _, hr', _, hfl'⟩
      · have := hF.nackt rid (Or.inl hc) g
        have := (hwhole rid (by simpa using hc)).1
        omega
      · have := hF.hdoom rid g
        have := (hwhole rid (by simpa using hc)).2
        omega
      · rcases hrowfl k' row' hr' with h1 | h1 <;> rw [h1] at hfl' <;> cases hfl'
  have hcoverrow : ∀ (k : Nat) (row : Row) (q : Nat) (src : Rec), sb.rows[k]? = some row → sm[k]? = some q →
      G.all[q]? = some src → Cover (G.view s) Dp (root src) := by
    intro k row q src hr hq hsrc d hd
    rcases hrowfl k row hr with h1 | h1
    · exact Or.inl (hF.facts.ack k row q src (Nat.zero_le _) hr hq hsrc h1 d (hDpre d hd))
    · exact Or.inr (hF.facts.fil k row q src (Nat.zero_le _) hr hq hsrc h1)
  have hnoterm : ∀ ix : Nat, ma.term ix = false := by
    intro ix
    simp only [MA.term]
    rw [hfr.2.2.1, List.getElem?_replicate]
    split <;> rfl
  have hB0 : MBet C F0 s1 := by
    refine ⟨hI1.base, by rw [← hs1]; show s.mas.size < (s.mas.push ma).size; simp, by rw [hm1]; exact hmok, by rw [hm1]; exact hbr,
      by rw [hm1, hpos], ?_, ?_, ?_, ?_, ?_, ?_, ?_, ?_, Nat.zero_le _, Nat.zero_le _, rfl, ?_⟩
    · intro ix src hl hsrc
      show kAt (s1.mas[s.mas.size]!) ix = keyR src
      rw [hm1]
      unfold kAt
      rw [hpos]
      have hl' : ix < sb.original.pos.length := hl
      obtain ⟨src', hsrc', hk⟩ := hk1 ix _ (List.getElem?_eq_getElem hl')
      have hsrc2 : G.all[m0 + ix]? = some src := hsrc
      rw [hsrc2] at hsrc'
      cases hsrc'
      rw [List.getElem?_eq_getElem hl']
      exact hk
    · intro ix hl
      have hl' : ix < sb.original.pos.length := hl
      obtain ⟨src, hsrc, _⟩ := hk1 ix _ (List.getElem?_eq_getElem hl')
      exact ⟨src, hsrc⟩
    · intro ix src hl hsrc _
      show (s1.mas[s.mas.size]!).votes ix ≤ 0 ∧ _
      rw [hm1, hv0 ix]
      refine ⟨Nat.le_refl _, fun _ => ?_⟩
      rw [hv1]
      show VF (G.view s) (Tp ++ ([] : List (List Nat)).flatten) (Dp ++ ([] : List (List Nat)).flatten) (root src)
      simp only [List.flatten_nil, List.append_nil]
      obtain ⟨k, hk⟩ := hk3 ix hl
      have hkr : k < sb.rows.length := by rw [← hm.len]; exact (List.getElem?_eq_some_iff.mp hk).1
      obtain ⟨row, hrow⟩ : ∃ row, sb.rows[k]? = some row := ⟨_, List.getElem?_eq_getElem hkr⟩
      have hsrc2 : G.all[m0 + ix]? = some src := hsrc
      exact ⟨(hcleanrow k row _ src hrow hk hsrc2).mono hTsub hDsub, hcoverrow k row _ src hrow hk hsrc2⟩
    · intro ix src _ _ ht
      have : (s1.mas[s.mas.size]!).term ix = true := ht
      rw [hm1, hnoterm ix] at this; cases this
    · intro ix src _ _ ht
      have ht' : (s1.mas[s.mas.size]!).term ix = true ∨ 0 < (s1.mas[s.mas.size]!).votes ix := ht
      rw [hm1, hnoterm ix, hv0 ix] at ht'
      rcases ht' with h1 | h1
      · cases h1
      · omega
    · intro ix hix
      have : ix < (s1.mas[s.mas.size]!).released := hix
      rw [hm1, hfr.1] at this
      omega
    · show (workerMC G hs).InvW (m0 + (s1.mas[s.mas.size]!).released) s1
      rw [hm1, hfr.1]; exact hI1.toWInvW
    · left
      show (workerMC G hs).Inv (m0 + (s1.mas[s.mas.size]!).released) s1
      rw [hm1, hfr.1]; exact hI1
    · intro x hx
      show x ∈ Tp ++ ([] : List (List Nat)).flatten
      have hx' : x ∈ Dp ++ ([] : List (List Nat)).flatten := hx
      simp only [List.flatten_nil, List.append_nil] at hx' ⊢
      exact hDT x hx'
  have hstat : FanStaticG C Tp Dp node.next := by
    refine ⟨hfan1.fan h2, ?_, ?_, ?_, ?_, ?_, ?_, ?_, hDT⟩
    · have := hnodup; rw [hts] at this; exact (List.nodup_cons.mp this).2
    · intro x hx hm'
      have := (List.mem_filter.mp hm').2
      simp only [decide_eq_true_eq] at this
      exact this hx
    · intro x hx; exact hpath.inT x (by rw [hts]; exact List.mem_cons_of_mem _ hx)
    · intro x hx; exact hpath.inT x (by rw [hts]; exact List.mem_cons_of_mem _ hx)
    · intro x hx; exact hpath.inD x (by rw [hds]; exact List.mem_append_right _ hx)
    · intro x hx
      by_cases hxn : x ∈ tasksL node.next
      · exact Or.inr hxn
      · exact Or.inl (List.mem_filter.mpr ⟨hx, by simpa using hxn⟩)
    · intro x hx
      by_cases hxn : x ∈ destsL node.next
      · exact Or.inr hxn
      · exact Or.inl (List.mem_filter.mpr ⟨hx, by simpa using hxn⟩)
  have hw1 : WSeen G s1 := by
    intro e he
    rw [hmu1] at he
    have hsn : Seen G s1 = Seen G s := Seen.same hsame.log
    rw [hsn]; exact hF.wseen e he
  have hready : ∀ k ∈ order, ∀ n, node.next[k]? = some n →
      ReadyG G s1 (Tp ++ tasksS n) (Dp ++ destsS n) (pre ++ own node) n nx sb sm ∧ (∀ x ∈ tasksS n, x ∉ F0.brT.flatten) := by
    intro k _ n hn
    have hnm : n ∈ node.next := List.mem_of_getElem? hn
    have hTn : ∀ x ∈ tasksS n, x ∈ tasksL node.next := fun x hx => mem_tasksL.mpr ⟨n, hnm, hx⟩
    have hDn : ∀ x ∈ destsS n, x ∈ destsL node.next := fun x hx => mem_destsL.mpr ⟨n, hnm, hx⟩
    have hTall : ∀ x ∈ Tp ++ tasksS n, x ∈ tasksS G.tree := by
      intro x hx
      rcases List.mem_append.mp hx with g | g
      · exact hTsub x g
      · exact hpath.inT x (by rw [hts]; exact List.mem_cons_of_mem _ (hTn x g))
    have hDall : ∀ x ∈ Dp ++ destsS n, x ∈ dests G.tree := by
      intro x hx
      rcases List.mem_append.mp hx with g | g
      · exact hDsub x g
      · exact hpath.inD x (by rw [hds]; exact List.mem_append_right _ (hDn x g))
    refine ⟨?_, fun x _ hm' => by simp [F0] at hm'⟩
    have hsn : Seen G s1 = Seen G s := Seen.same hsame.log
    refine ⟨by rw [hheap1]; exact hsi0, by rw [hheap1]; exact fun r hr => (hwhole r hr).1, by rw [hheap1]; exact hm, ?_,
      ?_, ?_, hF.splitlin, hF.nosplit, ?_, ?_, ?_, ?_⟩
    · -- nextok
      intro row q hl hq
      rcases hF.nextok row q hl hq with ⟨_, rid, g2, g3⟩ | ⟨g1, _⟩
      · have hc : 0 < cnt rid sb.view := by
          rw [List.getLast?_eq_getElem?] at hl
          exact (cnt_pos hvb).mpr ⟨_, row, hl, g2⟩
        have := (hwhole rid hc).2
        omega
      · exact Or.inr ⟨g1, fun _ _ => rfl⟩
    · -- hlin
      rw [hheap1]
      intro rid hl
      rcases hl with g | g
      · exact hF.hlin rid (Or.inl g)
      · exact absurd g (Nat.lt_irrefl 0)
    · -- ci
      rw [hheap1, hv1]
      intro rid hc hncl
      have hncl' : ¬ CleanT (G.view s) C0.T C0.D (root (s.heap[rid]!).origRec) := fun hcl' => hncl (hcl'.mono hTall hDall)
      rcases hF.ci rid hc hncl' with g | g | g
      · exact Or.inl g
      · have := hF.hdoom rid g
        have := (hwhole rid (by simpa using hc)).2
        omega
      · exact Or.inr (Or.inr g)
    · -- facts
      rw [hv1]
      refine ⟨fun k row q src hk hr hq hsrc hf => hF.facts.ack k row q src hk hr hq hsrc hf,
        fun k row q src hk hr hq hsrc hf => hF.facts.fil k row q src hk hr hq hsrc hf, ?_, ?_⟩
      · intro k row q src _ hr _ _ hf
        rcases hrowfl k row hr with h1 | h1 <;> rw [h1] at hf <;> cases hf
      · intro k row q src _ hr hq hsrc _ _
        exact (hcleanrow k row q src hr hq hsrc).mono hTall hDall
    · -- tags
      refine ⟨hF.tags.nodup, fun k row hk hr => by rw [hsn]; exact hF.tags.seen k row hk hr, ?_⟩
      intro k row hk hr hf e he hsub
      rw [hmu1] at he
      exact hF.tags.unw k row hk hr hf e he (hDn _ hsub)
    · -- below
      rw [hmu1]
      intro e he hsub
      exact hF.below e he (hDn _ hsub)
    · -- nackt
      rw [hheap1]
      intro rid hl hn'
      rcases hl with g | g
      · exact hF.nackt rid (Or.inl g) hn'
      · exact absurd g (Nat.lt_irrefl 0)
  obtain ⟨F', g1, g2, g3, g4, g5, g6, g7, g8, g9⟩ := branchesG hs D Tp Dp (pre ++ own node) node.next nx sb sm hstat hcl haf hDpre
    fuel order none none F0 s1 s' r rfl rfl rfl rfl hB0 hw1
    hord.1 hord.2.1 (by show 0 + order.length = node.next.length; rw [hord.2.2.2]; omega) hready
    (fun k n hn hk => absurd (hord.2.2.1 k (List.getElem?_eq_some_iff.mp hn).1) hk) h hrp hft
  have hsn : Seen G s1 = Seen G s := Seen.same hsame.log
  refine ⟨F', g2, g3, g4, by rw [hv1] at g5; exact g5, g6, ?_, fun x hx => g8 x (by rw [hsn]; exact hx), fun hr => ?_⟩
  · exact ⟨by rw [← hheap1]; exact g7.1, fun rid hlt => by rw [← hheap1] at hlt ⊢; exact g7.2 rid hlt⟩
  · intro e he
    rcases g9 hr e he with a | a | a
    · rw [hmu1] at a; exact Or.inl a
    · exact Or.inr (Or.inl a)
    · rw [hsn] at a; exact Or.inr (Or.inr a)

/-- `doNextTask` at a fan-out directly under the root handler chain, children without fan-out -/
theorem fanG_worker {G : Ctx} (hs : Src G) (D : DepsG G) (fuel : Nat) : FanG G (GoodG G) (IsWorkerG G hs) (fuel+1) := by
  intro X C0 node pre nx sb sm rest doom s s' r hg hpc hpath h2 hF hcl haf h hrp hft
  cases hpc
  have hWI : WInv G (nxJ sm nx 0) s := hF.inv
  have hsi : SInv s.heap rest sb := hF.tinv.sinv
  obtain ⟨rs, hvb⟩ := hsi.vb
  have hm := hF.srcmap
  have hErr : (workerMC0 G hs).Err s := hWI.base.safe
  -- C04 for this very execution: heap frame, and when it returns without error the forwarded keys were acknowledged
  have hc04 := sfan_spec (fun _ => True) (fun _ _ _ _ => trivial) fuel (fun f _ => spipe_full f)
    .worker wContract node sb s s' r rest trivial h2 trivial hsi h
  have hfinish : runsWhole s.heap sb = true → ∀ (ma : MA), maNew node.next.length sb.original.pos = .ok ma →
      ∀ (F' : FanCtx), F'.m0 = nxJ sm nx 0 → F'.L = sb.original.pos.length → MBet (workerMC G hs) F' s' →
      ExtT (tasksL node.next) (destsL node.next) (RootsOf G sm 0) (G.view s) (G.view s') → WSeen G s' → HFr s s' →
      (r = .ok () → WT G sb s s') →
      OutG (workerMC0 G hs) (tasksL node.next) (destsL node.next) rest doom sb sm 0 nx s s' r := by
    intro hrw ma hma F' f1 f2 hB hext hw' hfr hwt
    have hwhole := runsWhole_acc hsi hrw
    have hsi0 : SInv s.heap (fun _ => 0) sb := hsi.whole0 (fun r hr => (hwhole r hr).2)
    have hkeysfk : keys sb.original.pos = fk s.heap rest sb.view := fan_keys hsi hwhole hma
    -- the frontier after the batch
    have hnx : nx = nxJ sm nx 0 + sb.original.pos.length := by
      cases hq0 : sm[0]? with
      | none =>
        have hl0 : sm.length = 0 := by have := List.getElem?_eq_none_iff.mp hq0; omega
        have hr0 : sb.recs.length = 0 := by rw [← rows_length, ← hm.len]; exact hl0
        have hp0 : sb.pos.length = 0 := by rw [hvb.plen]; exact hr0
        have hop : sb.original.pos.length = 0 := by
          by_cases hsp : sb.split.length = 0
          · rw [original_of_split_nil (List.length_eq_zero_iff.mp hsp)]; exact hp0
          · rw [original_pos hsi.wf hsp]
            have := List.length_filter_le (fun x => x != none) sb.pos
            omega
        rw [hop, nxJ_ge (by omega)]; rfl
      | some q0 =>
        obtain ⟨_, _, k3⟩ := orig_keys hs hsi0 (fun r hr => (hwhole r hr).1) hm hma hq0
        have hne : sm ≠ [] := by intro he; rw [he] at hq0; cases hq0
        obtain ⟨ql, hql⟩ : ∃ ql, sm.getLast? = some ql := ⟨_, List.getLast?_eq_some_getLast hne⟩
        have hrne : sb.rows ≠ [] := by
          intro he
          have := hm.len
          rw [he] at this
          exact hne (List.length_eq_zero_iff.mp this)
        obtain ⟨rowl, hrl⟩ : ∃ rowl, sb.rows.getLast? = some rowl := ⟨_, List.getLast?_eq_some_getLast hrne⟩
        have h3 := k3 ql hql
        have hm0e : nxJ sm nx 0 = q0 := by unfold nxJ; rw [hq0]; rfl
        rcases hF.nextok rowl ql hrl hql with ⟨_, rid, g2, g3⟩ | ⟨g1, _⟩
        · have hc : 0 < cnt rid sb.view := by
            rw [List.getLast?_eq_getElem?] at hrl
            exact (cnt_pos hvb).mpr ⟨_, rowl, hrl, g2⟩
          have := (hwhole rid hc).2
          omega
        · rw [hm0e]; omega
    refine ⟨hext, hw', fun _ => hB.base.safe, fun hr => ?_, fun hr e he => ?_, fun _ => hfr.1, fun _ rid hlt _ => hfr.2 rid hlt,
      fun _ rid hlt => by rw [hfr.2 rid hlt]; exact ⟨rfl, rfl⟩, ?_, ?_, ?_⟩
    · -- the invariant at the new frontier
      have hd := ((hc04.ok hr).ok hr).1
      have hd1 : ackedKeys s'.log = ackedKeys s.log ++ fk s.heap rest sb.view := hd.1
      have hn : nAcked s' = nxJ sm nx 0 + sb.original.pos.length := by
        unfold nAcked
        rw [hd1, List.length_append, ← hkeysfk]
        have := hWI.front
        unfold nAcked at this
        rw [this]
        simp [keys]
      have hW := hB.parW
      have hfront : nAcked s' = F'.m0 + (s'.mas[F'.id]!).released := hW.front
      have hrel : (s'.mas[F'.id]!).released = F'.L := by rw [f1] at hfront; rw [f2]; omega
      rcases hB.par with hp | ⟨hp, _⟩
      · have : (workerMC G hs).Inv (F'.m0 + (s'.mas[F'.id]!).released) s' := hp
        rw [hrel, f1, f2, ← hnx] at this
        exact this
      · omega
    · rcases hwt hr e he with a | ⟨row, hrow, ht⟩ | a
      · exact Or.inl a
      · obtain ⟨k, hk⟩ := List.getElem?_of_mem hrow
        exact Or.inr (Or.inl ⟨k, row, Nat.zero_le _, hk, ht⟩)
      · exact Or.inr (Or.inr a)
    · intro _ rid hc hrest
      have := (hwhole rid (by simpa using hc)).2
      omega
    · intro _ rid hc hrest
      have := (hwhole rid (by simpa using hc)).2
      omega
    · intro _ rid hc hrest
      have := (hwhole rid (by simpa using hc)).2
      omega
  rw [doNextTask] at h
  split at h
  · rename_i he; rw [he] at h2; simp at h2
  · rename_i n he; rw [he] at h2; simp at h2
  · rw [exec_bind, exec_get] at h
    dsimp only at h
    by_cases hrw : runsWhole s.heap sb = true
    · simp only [hrw, Bool.not_true, Bool.false_eq_true, if_false] at h
      cases hma : maNew node.next.length sb.original.pos with
      | error e =>
        rw [hma] at h
        dsimp only at h
        rw [exec_throw] at h
        cases h
        exact OutG.fail hErr hF.wseen
      | ok ma =>
        rw [hma] at h
        dsimp only at h
        rw [exec_bind, exec_set] at h
        dsimp only at h
        cases hso : s.orders with
        | nil =>
          simp only [hso] at h
          obtain ⟨F', f1, f2, f3, f4, f5, f6, _, f8⟩ := fan_coreG hs D fuel node pre nx sb sm rest doom s s' r hg hpath h2 hF hcl haf hrw
            _ _ (order_perm _ _) ma hma h hrp hft
          exact hfinish hrw ma hma F' f1 f2 f3 f4 f5 f6 f8
        | cons o orest =>
          simp only [hso] at h
          obtain ⟨F', f1, f2, f3, f4, f5, f6, _, f8⟩ := fan_coreG hs D fuel node pre nx sb sm rest doom s s' r hg hpath h2 hF hcl haf hrw
            _ _ (order_perm _ _) ma hma h hrp hft
          exact hfinish hrw ma hma F' f1 f2 f3 f4 f5 f6 f8
    · simp only [hrw, Bool.not_false, if_true, exec_throw_bind] at h
      cases h
      exact OutG.fail hErr hF.wseen

end Conduit.Funnel
