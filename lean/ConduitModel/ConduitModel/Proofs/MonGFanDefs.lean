import ConduitModel.Proofs.MonGDefs
import ConduitModel.Proofs.PassSFan

/-!
# Fan-out on batches with split runs, against the monitor: definitions and the per-branch lemmas

* `GoodG` — the trees handled: fan-out not nested (`Fan1`), unique task ids below the node, and the
  destinations of the tree among the tasks of the subtree are destinations of the subtree;
* `ReadyG` — what a child of a fan-out that has not run yet needs of the fan-out batch `sb` (all
  runs whole) in the current state; `ReadyG.flight`: the clone handed to the child is a batch in
  flight under the child's handler chain; `ReadyG.frame`: what another branch does in between does
  not matter;
* `orig_keys` — `originalBatch()` of the fan-out batch lists the source records of the batch.
-/
namespace Conduit.Funnel
open Conduit.Funnel.Mon

/-- trees without nested fan-out, with unique task ids in the subtree; a destination of the tree that
is a task of the subtree is a destination of the subtree -/
def GoodG (G : Ctx) (node : TaskNode) : Prop :=
  Fan1 node ∧ (tasksS node).Nodup ∧ ∀ x ∈ dests G.tree, x ∈ tasksS node → x ∈ destsS node

/-- What the child `n` of a fan-out needs of the fan-out batch `sb` in state `s` (before its clone is
made): `T` / `D` = the tasks / destinations its handler chain justifies for, `pre` = the destinations
passed, `nx` = the read frontier after the batch. All runs of `sb` are whole and untouched. -/
structure ReadyG (G : Ctx) (s : PS) (T D pre : List Nat) (n : TaskNode) (nx : Nat) (sb : Batch) (sm : List Nat) : Prop where
  sinv : SInv s.heap (fun _ => 0) sb
  whole : ∀ r : Nat, 0 < cnt r sb.view → (s.heap[r]!).terminal = 0
  srcmap : SrcMap G s.heap sb sm
  nextok : NextOK (fun _ => 0) sb sm nx
  hlin : HLinG G s.heap (fun _ => 0) sb 0
  ci : CIG (G.view s) T D s.heap (fun _ => False) sb 0
  splitlin : SplitLin G sb
  nosplit : NoSplitKey sb
  facts : FactsG G (G.view s) T D pre pre True sb sm 0
  tags : TagsF G s (destsS n) sb 0
  below : WBelowG G (nxJ sm nx 0) (G.mu s) (destsS n)
  nackt : NackT s.heap (fun _ => 0) sb 0

/-! ## the rows of a clone -/

/-- rename the run of a row -/
def Row.ren (ρ : Nat → Nat) (row : Row) : Row := { row with run := row.run.map ρ }

/-- the rows of a clone are the rows of the batch with the runs renamed, given that the pieces are -/
theorem clone_rows_of_view {h : Heap} {b : Batch} {rs rs' : List (Option Nat)} (hwf : b.WF h) (hruns : b.runs = some rs)
    (hruns' : (b.clone h).2.runs = some rs') {ρ : Nat → Nat} (hv : (b.clone h).2.view = b.view.map (ren ρ)) :
    (b.clone h).2.rows = b.rows.map (Row.ren ρ) := by
  obtain ⟨w1, _, w3, w4, w5, _⟩ := C08_aligned_clone hwf
  have hro := hwf.1.runs_ok
  rw [hruns] at hro
  have hro' := w1.1.runs_ok
  rw [hruns', w3] at hro'
  have hpl := hwf.1.pos_len
  have hsl := hwf.1.st_len
  have hv1 : b.view = rs.zip b.pos := by unfold Batch.view; rw [hruns]; rfl
  have hv2 : (b.clone h).2.view = rs'.zip b.pos := by unfold Batch.view; rw [hruns', w5]; rfl
  apply List.ext_getElem?
  intro k
  rw [List.getElem?_map]
  by_cases hk : k < b.recs.length
  · have hk' : k < (b.clone h).2.recs.length := by rw [w3]; exact hk
    rw [rows_get _ hk', rows_get b hk, w3, w4, w5]
    simp only [Option.map_some, Row.ren]
    congr 2
    rw [runAt_of_runs hruns', runAt_of_runs hruns]
    have h1 : k < rs.length := by rw [hro.1]; exact hk
    have h2 : k < rs'.length := by rw [hro'.1]; exact hk
    have h3 : k < b.pos.length := by rw [hpl]; exact hk
    have e1 : (rs'.zip b.pos)[k]? = some (rs'[k], b.pos[k]) :=
      List.getElem?_zip_eq_some.mpr ⟨List.getElem?_eq_getElem h2, List.getElem?_eq_getElem h3⟩
    have e2 : (rs.zip b.pos)[k]? = some (rs[k], b.pos[k]) :=
      List.getElem?_zip_eq_some.mpr ⟨List.getElem?_eq_getElem h1, List.getElem?_eq_getElem h3⟩
    rw [hv2, hv1] at hv
    have e3 := congrArg (fun l => l[k]?) hv
    simp only [List.getElem?_map, e1, e2, Option.map_some, Option.some.injEq, ren, Prod.mk.injEq] at e3
    rw [List.getElem?_eq_getElem h1, List.getElem?_eq_getElem h2, e3.1]
    cases rs[k] <;> rfl
  · have e1 : (b.clone h).2.rows[k]? = none := List.getElem?_eq_none (by rw [rows_length, w3]; omega)
    have e2 : b.rows[k]? = none := List.getElem?_eq_none (by rw [rows_length]; omega)
    rw [e1, e2]; rfl

/-- `clone()` on the rows: there is a renaming `ρ` of the runs (as in `clone_ren`) such that the rows
of the clone are the rows of the batch with `run` renamed by `ρ`; the entry of `ρ id` is the copy of
the entry of `id`, the copies are new, nothing that existed is touched -/
theorem clone_rows {h : Heap} {b : Batch} {rs : List (Option Nat)} (hwf : b.WF h) (hruns : b.runs = some rs) :
    ∃ ρ : Nat → Nat,
      (b.clone h).2.rows = b.rows.map (Row.ren ρ) ∧
      (b.clone h).2.view = b.view.map (ren ρ) ∧
      (∀ a c : Nat, a < h.size → c < h.size → ρ a = ρ c → a = c) ∧
      (∀ id : Nat, id < h.size → (b.clone h).1[ρ id]! = h[id]!) ∧
      (∀ id : Nat, 0 < cnt id b.view → h.size ≤ ρ id ∧ ρ id < (b.clone h).1.size) ∧
      (∀ i : Nat, i < h.size → (b.clone h).1[i]! = h[i]!) ∧ h.size ≤ (b.clone h).1.size := by
  obtain ⟨ρ, hv, hinj, hcopy, hfresh, hold, hsz, _, rs', hruns'⟩ := clone_ren hwf hruns
  exact ⟨ρ, clone_rows_of_view hwf hruns hruns' hv, hv, hinj, hcopy, hfresh, hold, hsz⟩

/-- row `k` of a list of renamed rows -/
theorem rows_ren_get {l l' : List Row} {ρ : Nat → Nat} (h : l' = l.map (Row.ren ρ)) {k : Nat} {row' : Row}
    (hr : l'[k]? = some row') : ∃ row, l[k]? = some row ∧ row' = row.ren ρ := by
  rw [h, List.getElem?_map] at hr
  cases h0 : l[k]? with
  | none => rw [h0] at hr; cases hr
  | some row => rw [h0] at hr; exact ⟨row, rfl, (Option.some.inj hr).symm⟩

theorem rows_ren_get' {l l' : List Row} {ρ : Nat → Nat} (h : l' = l.map (Row.ren ρ)) {k : Nat} {row : Row}
    (hr : l[k]? = some row) : l'[k]? = some (row.ren ρ) := by
  rw [h, List.getElem?_map, hr]; rfl

/-- the facts about the rows only depend on the statuses and on which rows have no run -/
theorem FactsG.of_rows {G : Ctx} {v : MV} {T D pre pre' : List Nat} {nd : Prop} {b b' : Batch} {sm : List Nat} {i : Nat}
    (hf : FactsG G v T D pre pre' nd b sm i)
    (h : ∀ (k : Nat) (row' : Row), b'.rows[k]? = some row' →
      ∃ row, b.rows[k]? = some row ∧ row'.st = row.st ∧ (row'.run = none → row.run = none)) :
    FactsG G v T D pre pre' nd b' sm i := by
  refine ⟨?_, ?_, ?_, ?_⟩
  · intro k row' q src hk hr hq hs hfl
    obtain ⟨row, a1, a2, _⟩ := h k row' hr
    exact hf.ack k row q src hk a1 hq hs (by rw [← a2]; exact hfl)
  · intro k row' q src hk hr hq hs hfl
    obtain ⟨row, a1, a2, _⟩ := h k row' hr
    exact hf.fil k row q src hk a1 hq hs (by rw [← a2]; exact hfl)
  · intro k row' q src hk hr hq hs hfl
    obtain ⟨row, a1, a2, _⟩ := h k row' hr
    exact hf.retry k row q src hk a1 hq hs (by rw [← a2]; exact hfl)
  · intro k row' q src hk hr hq hs hrun hfl
    obtain ⟨row, a1, a2, a3⟩ := h k row' hr
    exact hf.clean k row q src hk a1 hq hs (a3 hrun) (by rw [← a2]; exact hfl)

theorem ReadyG.flight_aux {G : Ctx} {s : PS} {T D pre : List Nat} {n : TaskNode} {nx : Nat} {sb : Batch} {sm : List Nat}
    (hR : ReadyG G s T D pre n nx sb sm) (hw : WSeen G s) {X : Acker} (C0 : MC G X) (hT : C0.T = T) (hD : C0.D = D)
    (s1 : PS) (hlog : s1.log = s.log) (hh : s1.heap = (sb.clone s.heap).1) (hinv : C0.Inv (nxJ sm nx 0) s1) :
    FlightG C0 s1 pre pre True (destsS n) (fun _ => 0) (fun _ => False) nx (sb.clone s.heap).2 sm 0 := by
  have hwhole : ∀ r : Nat, 0 < cnt r sb.view → (s.heap[r]!).terminal = 0 ∧ (fun _ : Nat => 0) r = 0 :=
    fun r hr => ⟨hR.whole r hr, rfl⟩
  obtain ⟨c1, _, _, _, _⟩ := clone_SInv hR.sinv hwhole
  obtain ⟨rs, hruns⟩ := hR.sinv.runs
  obtain ⟨ρ, hrows, hv, _, hcopy, _, _, _⟩ := clone_rows hR.sinv.wf hruns
  obtain ⟨rsb, hvb⟩ := hR.sinv.vb
  have hids : ∀ r : Nat, 0 < cnt r sb.view → r < s.heap.size := fun r hr => (hR.sinv.acc r hr).1
  have hvw : G.view s1 = G.view s := view_same G s s1 hlog
  have hmu : G.mu s1 = G.mu s := mu_same G s s1 hlog
  have hsn : Seen G s1 = Seen G s := Seen.same hlog
  have hsplit := clone_split s.heap sb
  -- the entry of a renamed run of the batch
  have hent : ∀ r : Nat, 0 < cnt r sb.view → s1.heap[ρ r]! = s.heap[r]! := by
    intro r hr; rw [hh]; exact hcopy r (hids r hr)
  have hrowid : ∀ (k : Nat) (row : Row) (rid : Nat), sb.rows[k]? = some row → row.run = some rid → 0 < cnt rid sb.view :=
    fun k row rid hr hrun => (cnt_pos hvb).mpr ⟨k, row, hr, hrun⟩
  -- a live run of the clone
  have hlive : ∀ rid' : Nat, 0 < cnt rid' ((sb.clone s.heap).2.view.drop 0) → ∃ r, rid' = ρ r ∧ 0 < cnt r sb.view := by
    intro rid' hc
    rw [List.drop_zero, hv] at hc
    exact cnt_ren_pos ρ sb.view rid' hc
  generalize hbb : (sb.clone s.heap).2 = bb at *
  refine ⟨hinv, ?_, by rw [hh]; exact c1.tinv, ?_, ?_, ?_, ?_, ?_, ?_, ?_, ?_, ?_, ?_, ?_, ?_, ?_⟩
  · -- wseen
    intro e he
    rw [hmu] at he
    rw [hsn]
    exact hw e he
  · -- srcmap
    refine ⟨by rw [hrows, List.length_map]; exact hR.srcmap.len, hR.srcmap.step, ?_, ?_⟩
    · intro k row' q hr hq
      obtain ⟨row, a1, a2⟩ := rows_ren_get hrows hr
      obtain ⟨src, b1, b2, b3⟩ := hR.srcmap.key k row q a1 hq
      refine ⟨src, b1, ?_, by rw [a2]; exact b3⟩
      rw [← b2, a2]
      unfold rowKey
      cases hrun : row.run with
      | none => simp only [Row.ren, hrun, Option.map_none]
      | some rid =>
        simp only [Row.ren, hrun, Option.map_some]
        rw [hent rid (hrowid k row rid a1 hrun)]
    · intro k row1 row2 q hr1 hr2 hq1 hq2
      obtain ⟨r1, a1, a2⟩ := rows_ren_get hrows hr1
      obtain ⟨r2, b1, b2⟩ := rows_ren_get hrows hr2
      obtain ⟨rid, e1, e2⟩ := hR.srcmap.same k r1 r2 q a1 b1 hq1 hq2
      exact ⟨ρ rid, by rw [a2]; simp only [Row.ren, e1, Option.map_some], by rw [b2]; simp only [Row.ren, e2, Option.map_some]⟩
  · -- nextok
    intro row' q hl hq
    rw [hrows, List.getLast?_map] at hl
    cases h0 : sb.rows.getLast? with
    | none => rw [h0] at hl; cases hl
    | some row =>
      rcases hR.nextok row q h0 hq with ⟨_, rid, _, hpos⟩ | ⟨h1, _⟩
      · exact absurd hpos (Nat.lt_irrefl 0)
      · exact Or.inr ⟨h1, fun _ _ => rfl⟩
  · -- restlast
    intro rid hpos _
    exact absurd hpos (Nat.lt_irrefl 0)
  · -- hdoom
    intro rid hd
    exact hd.elim
  · -- hlin
    intro rid' hl
    rcases hl with hl | hl
    · obtain ⟨r, h1, h2⟩ := hlive rid' hl
      subst h1
      rw [hent r h2]
      exact hR.hlin r (Or.inl (by rw [List.drop_zero]; exact h2))
    · exact absurd hl (Nat.lt_irrefl 0)
  · -- htouch
    intro rid' hl hterm
    rcases hl with hl | hl
    · obtain ⟨r, h1, h2⟩ := hlive rid' hl
      subst h1
      rw [hent r h2, hR.whole r h2] at hterm
      exact absurd hterm (Nat.lt_irrefl 0)
    · exact absurd hl (Nat.lt_irrefl 0)
  · -- ci
    intro rid' hc hnc
    obtain ⟨r, h1, h2⟩ := hlive rid' hc
    subst h1
    rw [hent r h2, hvw, hT, hD] at hnc
    rw [hent r h2]
    rcases hR.ci r (by rw [List.drop_zero]; exact h2) hnc with h3 | h3 | ⟨k, row, hk, hr, hrun, hfl⟩
    · exact Or.inl h3
    · exact h3.elim
    · refine Or.inr (Or.inr ⟨k, row.ren ρ, hk, rows_ren_get' hrows hr, ?_, hfl⟩)
      simp only [Row.ren, hrun, Option.map_some]
  · -- splitlin
    intro e he
    rw [hsplit] at he
    exact hR.splitlin e he
  · -- nosplit
    intro k row' hr hrun
    obtain ⟨row, a1, a2⟩ := rows_ren_get hrows hr
    rw [hsplit, a2]
    have hn : row.run = none := by
      rw [a2] at hrun
      cases h0 : row.run with
      | none => rfl
      | some x => simp [Row.ren, h0] at hrun
    exact hR.nosplit k row a1 hn
  · -- facts
    rw [hvw, hT, hD]
    apply hR.facts.of_rows
    intro k row' hr
    obtain ⟨row, a1, a2⟩ := rows_ren_get hrows hr
    refine ⟨row, a1, by rw [a2]; rfl, ?_⟩
    intro hrun
    rw [a2] at hrun
    cases h0 : row.run with
    | none => rfl
    | some x => simp [Row.ren, h0] at hrun
  · -- tags
    refine ⟨?_, ?_, ?_⟩
    · have : bb.rows.map (·.r.tag) = sb.rows.map (·.r.tag) := by
        rw [hrows, List.map_map]
        apply List.map_congr_left
        intro row _
        rfl
      rw [this]
      exact hR.tags.nodup
    · intro k row' hk hr
      obtain ⟨row, a1, a2⟩ := rows_ren_get hrows hr
      rw [hsn, a2]
      exact hR.tags.seen k row hk a1
    · intro k row' hk hr hfl
      obtain ⟨row, a1, a2⟩ := rows_ren_get hrows hr
      rw [hmu, a2]
      rw [a2] at hfl
      exact hR.tags.unw k row hk a1 hfl
  · -- below
    rw [hmu]
    exact hR.below
  · -- nackt
    intro rid' hl hna
    rcases hl with hl | hl
    · obtain ⟨r, h1, h2⟩ := hlive rid' hl
      subst h1
      rw [hent r h2] at hna ⊢
      exact hR.nackt r (Or.inl (by rw [List.drop_zero]; exact h2)) hna
    · exact absurd hl (Nat.lt_irrefl 0)

/-- the clone handed to the child is a batch in flight under the child's handler chain -/
theorem ReadyG.flight {G : Ctx} {s : PS} {T D pre : List Nat} {n : TaskNode} {nx : Nat} {sb : Batch} {sm : List Nat}
    (hR : ReadyG G s T D pre n nx sb sm) (hw : WSeen G s) {X : Acker} (C0 : MC G X) (hT : C0.T = T) (hD : C0.D = D)
    (hinv : C0.Inv (nxJ sm nx 0) { s with heap := (sb.clone s.heap).1 }) :
    FlightG C0 { s with heap := (sb.clone s.heap).1 } pre pre True (destsS n) (fun _ => 0) (fun _ => False) nx
      (sb.clone s.heap).2 sm 0 :=
  hR.flight_aux hw C0 hT hD _ rfl rfl hinv

/-- what the other branches do does not matter to a child that has not run yet: new facts by tasks
`Ts` / destinations `Ds` foreign to the child, old heap entries untouched -/
theorem ReadyG.frame {G : Ctx} {s s' : PS} {T D pre : List Nat} {n : TaskNode} {nx : Nat} {sb : Batch} {sm : List Nat}
    {Ts Ds : List Nat} {R : Nat → Prop} (hR : ReadyG G s T D pre n nx sb sm)
    (hext : ExtT Ts Ds R (G.view s) (G.view s')) (hT : ∀ x ∈ Ts, x ∉ T) (hD : ∀ x ∈ Ds, x ∉ D ∧ x ∉ destsS n)
    (hseen : ∀ x ∈ Seen G s, x ∈ Seen G s') (hfr : HFr s s') : ReadyG G s' T D pre n nx sb sm := by
  obtain ⟨rsb, hvb⟩ := hR.sinv.vb
  have hsame : ∀ rid : Nat, 0 < cnt rid sb.view → s'.heap[rid]! = s.heap[rid]! :=
    fun rid hr => hfr.2 rid (hR.sinv.acc rid hr).1
  have hfor : (∀ t ∈ Ts, t ∉ T) ∧ ∀ d ∈ Ds, d ∉ D := ⟨hT, fun d hd => (hD d hd).1⟩
  have hreach : ∀ (l : List Nat) (ρ : Nat), Reach (G.view s).μ l ρ → Reach (G.view s').μ l ρ :=
    fun l ρ h d hd => (h d hd).extT hext
  have hwr : ∀ e ∈ (G.mu s').written, e.1 ∈ destsS n → e ∈ (G.mu s).written := by
    intro e he hd
    rcases hext.wr_new e he with h1 | ⟨h1, _⟩
    · exact h1
    · exact absurd hd (hD _ h1).2
  refine ⟨hR.sinv.frame hfr.1 hsame, ?_, ?_, hR.nextok, ?_, ?_, hR.splitlin, hR.nosplit, ?_, ?_, ?_, ?_⟩
  · -- whole
    intro r hr
    rw [hsame r hr]
    exact hR.whole r hr
  · -- srcmap
    apply SM.heap hR.srcmap
    intro row hrow rid hrun
    obtain ⟨k, hk⟩ := List.getElem?_of_mem hrow
    rw [hsame rid ((cnt_pos hvb).mpr ⟨k, row, hk, hrun⟩)]
  · -- hlin
    intro rid hl
    rcases hl with hc | hc
    · rw [hsame rid (by rw [List.drop_zero] at hc; exact hc)]
      exact hR.hlin rid (Or.inl hc)
    · exact absurd hc (Nat.lt_irrefl 0)
  · -- ci
    intro rid hc hnc
    have hc' : 0 < cnt rid sb.view := by rw [List.drop_zero] at hc; exact hc
    rw [hsame rid hc'] at hnc ⊢
    exact hR.ci rid hc (fun hcl => hnc (hcl.ext hext (Or.inr hfor)))
  · -- facts
    refine ⟨?_, ?_, ?_, ?_⟩
    · intro k row q src hk hr hq hs hfl
      exact hreach _ _ (hR.facts.ack k row q src hk hr hq hs hfl)
    · intro k row q src hk hr hq hs hfl
      exact hext.filt_mono _ (hR.facts.fil k row q src hk hr hq hs hfl)
    · intro k row q src hk hr hq hs hfl
      obtain ⟨h1, h2⟩ := hR.facts.retry k row q src hk hr hq hs hfl
      exact ⟨hreach _ _ h1, h2⟩
    · intro k row q src hk hr hq hs hrun hfl
      exact (hR.facts.clean k row q src hk hr hq hs hrun hfl).ext hext (Or.inr hfor)
  · -- tags
    refine ⟨hR.tags.nodup, fun k row hk hr => hseen _ (hR.tags.seen k row hk hr), ?_⟩
    intro k row hk hr hfl e he hd
    exact hR.tags.unw k row hk hr hfl e (hwr e he hd) hd
  · -- below
    intro e he hd
    exact hR.below e (hwr e he hd) hd
  · -- nackt
    intro rid hl hna
    rcases hl with hc | hc
    · rw [hsame rid (by rw [List.drop_zero] at hc; exact hc)] at hna ⊢
      exact hR.nackt rid (Or.inl hc) hna
    · exact absurd hc (Nat.lt_irrefl 0)

end Conduit.Funnel
