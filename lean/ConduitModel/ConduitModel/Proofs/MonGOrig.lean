import ConduitModel.Proofs.MonGDefs
import ConduitModel.Proofs.PassSFan

/-!
# `originalBatch()` of a fan-out batch lists the source records of the batch
-/
namespace Conduit.Funnel
open Conduit.Funnel.Mon

/-! ## local facts about the block structure -/

/-- a head piece carries the original position of its run -/
theorem shape_orig_at (h : Heap) : ∀ (l : List Piece) (prev : Option Nat) (seen : List Nat) (k r kk : Nat),
    ShapeFrom h prev seen l → l[k]? = some (some r, some kk) → (h[r]!).origPos = some kk := by
  intro l
  induction l with
  | nil => intro _ _ k r kk _ hk; simp at hk
  | cons x t ih =>
    intro prev seen k r kk hs hk
    obtain ⟨ro, q⟩ := x
    cases k with
    | zero =>
      simp only [List.getElem?_cons_zero, Option.some.injEq, Prod.mk.injEq] at hk
      obtain ⟨e1, e2⟩ := hk
      subst e1; subst e2
      exact hs.2.1
    | succ k =>
      rw [List.getElem?_cons_succ] at hk
      cases ro with
      | none => exact ih none seen k r kk hs.2 hk
      | some r2 =>
        cases q with
        | none => exact ih _ _ k r kk hs.2 hk
        | some k2 => exact ih _ _ k r kk hs.2.2 hk

/-- the piece before a tail piece belongs to the same run -/
theorem shape_tail_adj (h : Heap) : ∀ (l : List Piece) (prev : Option Nat) (seen : List Nat) (k r : Nat) (x : Piece),
    ShapeFrom h prev seen l → l[k]? = some x → l[k+1]? = some (some r, none) → x.1 = some r := by
  intro l
  induction l with
  | nil => intro _ _ k r x _ hk; simp at hk
  | cons x0 t ih =>
    intro prev seen k r x hs hk hk1
    obtain ⟨ro, q⟩ := x0
    rw [List.getElem?_cons_succ] at hk1
    cases k with
    | zero =>
      simp only [List.getElem?_cons_zero, Option.some.injEq] at hk
      subst hk
      cases t with
      | nil => simp at hk1
      | cons y t' =>
        simp only [List.getElem?_cons_zero, Option.some.injEq] at hk1
        subst hk1
        cases ro with
        | none => exact absurd hs.2.1 (by simp)
        | some r2 =>
          cases q with
          | none => exact hs.2.1
          | some k2 => exact hs.2.2.1
    | succ k =>
      rw [List.getElem?_cons_succ] at hk
      cases ro with
      | none => exact ih none seen k r x hs.2 hk hk1
      | some r2 =>
        cases q with
        | none => exact ih _ _ k r x hs.2 hk hk1
        | some k2 => exact ih _ _ k r x hs.2.2 hk hk1

/-- a head piece does not follow a piece of its own run -/
theorem shape_head_adj (h : Heap) : ∀ (l : List Piece) (prev : Option Nat) (seen : List Nat) (k r kk : Nat) (x : Piece),
    ShapeFrom h prev seen l → (∀ r : Nat, prev = some r → r ∈ seen) → l[k]? = some x → x.1 = some r →
    l[k+1]? = some (some r, some kk) → False := by
  intro l
  induction l with
  | nil => intro _ _ k r kk x _ _ hk; simp at hk
  | cons x0 t ih =>
    intro prev seen k r kk x hs hp hk hx hk1
    obtain ⟨ro, q⟩ := x0
    rw [List.getElem?_cons_succ] at hk1
    cases k with
    | zero =>
      simp only [List.getElem?_cons_zero, Option.some.injEq] at hk
      subst hk
      simp only at hx
      subst hx
      cases t with
      | nil => simp at hk1
      | cons y t' =>
        simp only [List.getElem?_cons_zero, Option.some.injEq] at hk1
        subst hk1
        cases q with
        | none => exact hs.2.1 (hp r hs.1)
        | some k2 => exact hs.2.2.1 List.mem_cons_self
    | succ k =>
      rw [List.getElem?_cons_succ] at hk
      cases ro with
      | none => exact ih none seen k r kk x hs.2 (fun r hr => by cases hr) hk hx hk1
      | some r2 =>
        cases q with
        | none =>
          have h1 : prev = some r2 := hs.1
          exact ih _ _ k r kk x hs.2 (fun r' hr' => by cases hr'; exact hp r2 h1) hk hx hk1
        | some k2 =>
          exact ih _ _ k r kk x hs.2.2 (fun r' hr' => by cases hr'; exact List.mem_cons_self) hk hx hk1

/-! ## counting the non-nil positions along the rows -/

/-- If the source index grows exactly at the rows with a non-nil position, the `ix`-th non-nil
position (after the first row) sits at a row of source `m0 + 1 + ix`. -/
theorem filt_src : ∀ (pt : List PosV) (st : List Nat) (m0 : Nat), pt.length = st.length →
    (∀ (k : Nat) (p : PosV) (q q' : Nat), pt[k]? = some p → (m0 :: st)[k]? = some q → st[k]? = some q' →
      (p ≠ none → q' = q + 1) ∧ (p = none → q' = q)) →
    (∀ (ix : Nat) (p : PosV), (pt.filter (· != none))[ix]? = some p →
      ∃ k : Nat, pt[k]? = some p ∧ p ≠ none ∧ st[k]? = some (m0 + 1 + ix)) ∧
    (∀ (k q : Nat), st[k]? = some q → m0 ≤ q ∧ q ≤ m0 + (pt.filter (· != none)).length) ∧
    (∀ q : Nat, (m0 :: st).getLast? = some q → q = m0 + (pt.filter (· != none)).length) := by
  intro pt
  induction pt with
  | nil =>
    intro st m0 hl _
    have : st = [] := List.length_eq_zero_iff.mp hl.symm
    subst this
    refine ⟨fun ix p h => by simp at h, fun k q h => by simp at h, fun q h => ?_⟩
    simp at h
    simp; omega
  | cons p1 pt ih =>
    intro st m0 hl hadj
    cases st with
    | nil => simp at hl
    | cons m1 st =>
      have hl' : pt.length = st.length := by simpa using hl
      have h0 := hadj 0 p1 m0 m1 rfl rfl rfl
      obtain ⟨i1, i2, i3⟩ := ih st m1 hl' (fun k p q q' a b c =>
        hadj (k+1) p q q' (by rw [List.getElem?_cons_succ]; exact a) (by rw [List.getElem?_cons_succ]; exact b)
          (by rw [List.getElem?_cons_succ]; exact c))
      cases p1 with
      | none =>
        have hm : m1 = m0 := h0.2 rfl
        subst hm
        have hf : List.filter (· != none) ((none : PosV) :: pt) = List.filter (· != none) pt := rfl
        rw [hf]
        refine ⟨?_, ?_, ?_⟩
        · intro ix p h
          obtain ⟨k, a, a', b⟩ := i1 ix p h
          exact ⟨k+1, by rw [List.getElem?_cons_succ]; exact a, a', by rw [List.getElem?_cons_succ]; exact b⟩
        · intro k q h
          cases k with
          | zero =>
            simp only [List.getElem?_cons_zero, Option.some.injEq] at h
            omega
          | succ k =>
            rw [List.getElem?_cons_succ] at h
            exact i2 k q h
        · intro q h
          rw [List.getLast?_cons_cons] at h
          exact i3 q h
      | some kk =>
        have hm : m1 = m0 + 1 := h0.1 (by simp)
        subst hm
        have hf : List.filter (· != none) ((some kk : PosV) :: pt) = some kk :: List.filter (· != none) pt := rfl
        rw [hf]
        refine ⟨?_, ?_, ?_⟩
        · intro ix p h
          cases ix with
          | zero =>
            simp only [List.getElem?_cons_zero, Option.some.injEq] at h
            subst h
            exact ⟨0, rfl, by simp, rfl⟩
          | succ ix =>
            rw [List.getElem?_cons_succ] at h
            obtain ⟨k, a, a', b⟩ := i1 ix p h
            refine ⟨k+1, by rw [List.getElem?_cons_succ]; exact a, a', ?_⟩
            rw [List.getElem?_cons_succ, b]
            congr 1; omega
        · intro k q h
          cases k with
          | zero =>
            simp only [List.getElem?_cons_zero, Option.some.injEq] at h
            simp only [List.length_cons]
            omega
          | succ k =>
            rw [List.getElem?_cons_succ] at h
            have := i2 k q h
            simp only [List.length_cons]
            omega
        · intro q h
          rw [List.getLast?_cons_cons] at h
          have := i3 q h
          simp only [List.length_cons]
          omega

/-- At a fan-out (`runsWhole`, `maNew` succeeded), `originalBatch()` lists the source records of the
batch: its positions are the keys of the sources `m0, m0+1, …`, one per source, where `m0` is the
source of the first row. -/
theorem orig_keys {G : Ctx} (hs : Src G) {h : Heap} {b : Batch} {sm : List Nat} {M : Nat} {ma : MA}
    (hi : SInv h (fun _ => 0) b) (hwhole : ∀ r : Nat, 0 < cnt r b.view → (h[r]!).terminal = 0)
    (hm : SrcMap G h b sm) (hma : maNew M b.original.pos = .ok ma) {m0 : Nat} (hq0 : sm[0]? = some m0) :
    (∀ (ix : Nat) (p : PosV), b.original.pos[ix]? = some p → ∃ src, G.all[m0 + ix]? = some src ∧ keyOf p = keyR src) ∧
    (∀ (k q : Nat), sm[k]? = some q → m0 ≤ q ∧ q < m0 + b.original.pos.length) ∧
    (∀ q : Nat, sm.getLast? = some q → q + 1 = m0 + b.original.pos.length) := by
  obtain ⟨rs, hb⟩ := hi.vb
  obtain ⟨prev, seen, hsh, hp1, _⟩ := hi.shape
  -- `originalBatch()` keeps the non-nil positions
  have horig : b.original.pos = b.pos.filter (· != none) := by
    by_cases hsp : b.split.length = 0
    · have ho : b.original = b := original_of_split_nil (List.length_eq_zero_iff.mp hsp)
      rw [ho] at hma ⊢
      have hnn := maNew_nonnil hma
      symm
      rw [List.filter_eq_self]
      intro p hp
      simpa using hnn p hp
    · exact original_pos hi.wf hsp
  rw [horig]
  have hrl : b.rows.length = b.pos.length := by rw [rows_length, hb.plen]
  have rowAt : ∀ (k : Nat) (p : PosV), b.pos[k]? = some p → ∃ row, b.rows[k]? = some row ∧ row.pos = p := by
    intro k p hp
    have hk : k < b.rows.length := by rw [hrl]; exact (List.getElem?_eq_some_iff.mp hp).1
    refine ⟨b.rows[k], List.getElem?_eq_getElem hk, ?_⟩
    have := (rows_fields hb (List.getElem?_eq_getElem hk)).2.2.1
    rw [hp] at this
    exact (Option.some.inj this).symm
  -- the key of a non-nil position is the key of the row's source
  have hkey : ∀ (k : Nat) (p : PosV) (q : Nat), b.pos[k]? = some p → p ≠ none → sm[k]? = some q →
      ∃ src, G.all[q]? = some src ∧ keyOf p = keyR src := by
    intro k p q hp hpn hq
    obtain ⟨row, hr, hrp⟩ := rowAt k p hp
    obtain ⟨src, a1, a2, _⟩ := hm.key k row q hr hq
    refine ⟨src, a1, ?_⟩
    rw [← a2]
    have hv := rows_view hb hr
    unfold rowKey
    cases hrun : row.run with
    | none => simp only []; rw [hrp]
    | some rid =>
      simp only []
      rw [hrun, hrp] at hv
      cases p with
      | none => exact absurd rfl hpn
      | some kk => rw [shape_orig_at h b.view prev seen k rid kk hsh hv]
  -- the source index grows exactly at the rows with a non-nil position
  have hadj : ∀ (k : Nat) (p : PosV) (q q' : Nat), b.pos[k+1]? = some p → sm[k]? = some q → sm[k+1]? = some q' →
      (p ≠ none → q' = q + 1) ∧ (p = none → q' = q) := by
    intro k p q q' hp hq hq'
    obtain ⟨row', hr', hrp'⟩ := rowAt (k+1) p hp
    have hk : k < b.rows.length := by
      have := (List.getElem?_eq_some_iff.mp hr').1; omega
    have hr : b.rows[k]? = some b.rows[k] := List.getElem?_eq_getElem hk
    have hv := rows_view hb hr
    have hv' := rows_view hb hr'
    rw [hrp'] at hv'
    constructor
    · intro hpn
      rcases hm.step k q q' hq hq' with he | he
      · exfalso
        subst he
        obtain ⟨rid, e1, e2⟩ := hm.same k _ row' q' hr hr' hq hq'
        rw [e2] at hv'
        cases p with
        | none => exact hpn rfl
        | some kk => exact shape_head_adj h b.view prev seen k rid kk _ hsh hp1 hv e1 hv'
      · exact he
    · intro hpn
      subst hpn
      cases hrun : row'.run with
      | none =>
        rw [hrun] at hv'
        exact absurd rfl (hi.nopos _ (List.mem_of_getElem? hv') rfl)
      | some rid =>
        rw [hrun] at hv'
        have e1 := shape_tail_adj h b.view prev seen k rid _ hsh hv hv'
        exact (SM.run_src hs hm hq hq' hr hr' e1 hrun).symm
  -- the first row has a non-nil position
  cases hsm : sm with
  | nil => rw [hsm] at hq0; simp at hq0
  | cons m0' st =>
    rw [hsm] at hq0
    simp only [List.getElem?_cons_zero, Option.some.injEq] at hq0
    subst hq0
    cases hpos : b.pos with
    | nil =>
      have := hm.len
      rw [hrl, hpos, hsm] at this
      simp at this
    | cons p0 pt =>
      have hlen : pt.length = st.length := by
        have := hm.len
        rw [hrl, hpos, hsm] at this
        simp only [List.length_cons] at this
        omega
      have hp0 : p0 ≠ none := by
        intro hn
        subst hn
        obtain ⟨row, hr, hrp⟩ := rowAt 0 none (by rw [hpos]; rfl)
        have hv := rows_view hb hr
        rw [hrp] at hv
        cases hrun : row.run with
        | none =>
          rw [hrun] at hv
          exact hi.nopos _ (List.mem_of_getElem? hv) rfl rfl
        | some rid =>
          rw [hrun] at hv
          cases hbv : b.view with
          | nil => rw [hbv] at hv; simp at hv
          | cons x t =>
            rw [hbv] at hv
            simp only [List.getElem?_cons_zero, Option.some.injEq] at hv
            subst hv
            have h1 := hi.headless rid t hbv
            have h2 := hwhole rid (by rw [hbv, cnt_cons_some]; simp)
            omega
      obtain ⟨i1, i2, i3⟩ := filt_src pt st m0' hlen (fun k p q q' a b' c =>
        hadj k p q q' (by rw [hpos, List.getElem?_cons_succ]; exact a) (by rw [hsm]; exact b')
          (by rw [hsm, List.getElem?_cons_succ]; exact c))
      have hf : List.filter (· != none) (p0 :: pt) = p0 :: List.filter (· != none) pt := by
        rw [List.filter_cons_of_pos]; simpa using hp0
      rw [hf]
      refine ⟨?_, ?_, ?_⟩
      · intro ix p hix
        cases ix with
        | zero =>
          simp only [List.getElem?_cons_zero, Option.some.injEq] at hix
          subst hix
          exact hkey 0 p0 m0' (by rw [hpos]; rfl) hp0 (by rw [hsm]; rfl)
        | succ ix =>
          rw [List.getElem?_cons_succ] at hix
          obtain ⟨k, a, a', c⟩ := i1 ix p hix
          exact hkey (k+1) p (m0' + (ix + 1)) (by rw [hpos, List.getElem?_cons_succ]; exact a) a'
            (by rw [hsm, List.getElem?_cons_succ, c]; congr 1; omega)
      · intro k q hk
        simp only [List.length_cons]
        cases k with
        | zero =>
          simp only [List.getElem?_cons_zero, Option.some.injEq] at hk
          omega
        | succ k =>
          rw [List.getElem?_cons_succ] at hk
          have := i2 k q hk
          generalize (List.filter (· != none) pt).length = c at this ⊢
          omega
      · intro q hq
        have := i3 q hq
        simp only [List.length_cons]
        generalize (List.filter (· != none) pt).length = c at this ⊢
        omega

end Conduit.Funnel
