import ConduitModel.Proofs.MonGDefs

/-!
# The task recursion against a handler contract, WITH record splitting: any tree

`pipeG_all`: `pipeS_all` (Proofs/MonSPipe.lean) for an arbitrary handler chain `runAckNacker(X)` with
contract `C0 : MC G X`, and `pipeF_all` (Proofs/MonFPipe.lean) with record splitting: a batch in
flight (`FlightG`) is processed without the monitor ever firing; when the recursion returns `.ok`
the contract's invariant holds at the frontier after the batch (`OutG.inv`), when it fails the
contract's error invariant holds (`OutG.err`); in both cases the only new facts are by tasks of the
subtree about roots of the batch (`OutG.ext`). The fan-out case is a parameter (`FanG`). The
task-level and vote-level lemmas are taken as a bundle (`DepsG`).
-/
namespace Conduit.Funnel
open Conduit.Funnel.Mon

/-- the statement of `voteG` (Proofs/MonGVote.lean), with the loop invariant spelled out -/
def VoteStmtG (G : Ctx) : Prop :=
  ∀ {X : Acker} (C0 : MC G X) (b : Batch) (rs : List (Option Nat)), VB b rs → ∀ (sm : List Nat) (isAck : Bool) (task : Nat),
    (isAck = false → NackOK b) → ∀ (rest : Nat → Nat) (doom : Nat → Prop) (nx : Nat),
    (∀ rid, doom rid → 0 < rest rid) → NextOK rest b sm nx → RestLast rest b → NoSplitKey b →
    ∀ (fuel i : Nat) (s s' : PS) (r : Except Stop Unit),
      (C0.Inv (nxJ sm nx i) s ∧ WSeen G s ∧ Acc s.heap rest (b.view.drop i) ∧ SrcMap G s.heap b sm ∧
        HLinG G s.heap rest b i ∧ HTouchG (G.view s) C0.D s.heap rest b i ∧ CIG (G.view s) C0.T C0.D s.heap doom b i ∧
        (isAck = true → ∀ (k : Nat) (row : Row) (q : Nat) (src : Rec), i ≤ k → b.rows[k]? = some row →
          sm[k]? = some q → G.all[q]? = some src →
          row.st.flag ≠ .nack ∧ Cover (G.view s) C0.D (root src) ∧
            (row.run = none → CleanT (G.view s) C0.T C0.D (root src)))) →
      exec (voteLoop fuel X b isAck task i) s = (r, s') → OutG C0 [] [] rest doom b sm i nx s s' r

/-- the task-level and vote-level lemmas the recursion rests on -/
structure DepsG (G : Ctx) : Prop where
  proc : ∀ {X : Acker} (C0 : MC G X) {s s' : PS} {r : Except Stop Batch} {b : Batch} {task : Nat} {pre sub : List Nat}
    {rest : Nat → Nat} {doom : Nat → Prop} {nx : Nat} {sm : List Nat},
    FlightG C0 s pre pre True sub rest doom nx b sm 0 → b.tainted = false → FlagsAF b →
    task ∈ C0.Below → task ∈ tasksS G.tree →
    exec (procDo task b) s = (r, s') → RP G s' → FT G s' →
    Base G s' ∧ WSeen G s' ∧ QStep G task false (RootsOf G sm 0) s s' ∧ C0.Inv (nxJ sm nx 0) s' ∧
    ∀ b1, r = .ok b1 →
      ∃ sm1, FlightG C0 s' pre pre True sub rest doom nx b1 sm1 0 ∧ StepRelG G s b sm s' b1 sm1 ∧
        (b1.tainted = false → FlagsAF b1)
  dest : ∀ {X : Acker} (C0 : MC G X) {s s' : PS} {r : Except Stop Batch} {b : Batch} {d : Nat} {pre sub : List Nat}
    {rest : Nat → Nat} {doom : Nat → Prop} {nx : Nat} {sm : List Nat},
    FlightG C0 s pre pre True (d :: sub) rest doom nx b sm 0 → d ∉ sub → b.tainted = false → FlagsAF b →
    d ∈ C0.Below → d ∈ tasksS G.tree → d ∈ dests G.tree →
    exec (destDo d b none) s = (r, s') →
    Base G s' ∧ WSeen G s' ∧ QStep G d true (RootsOf G sm 0) s s' ∧ C0.Inv (nxJ sm nx 0) s' ∧
    ∀ b1, r = .ok b1 →
      FlightG C0 s' pre (pre ++ [d]) False sub rest doom nx b1 sm 0 ∧ StepRelG G s b sm s' b1 sm ∧
        (b1.tainted = false → FlagsAF b1)
  vote : VoteStmtG G

/-- the position of `node` relative to the contract `C0`: `pre` = destinations passed -/
structure PathG {G : Ctx} {X : Acker} (C0 : MC G X) (pre : List Nat) (node : TaskNode) : Prop where
  coverD : ∀ x ∈ C0.D, x ∈ pre ∨ x ∈ destsS node
  nodup : (tasksS node).Nodup
  inT : ∀ x ∈ tasksS node, x ∈ tasksS G.tree
  inD : ∀ x ∈ destsS node, x ∈ dests G.tree
  below : ∀ x ∈ tasksS node, x ∈ C0.Below

/-- `doTaskAttempt` on a batch arriving at `node` -/
def PipeG (G : Ctx) (Good : TaskNode → Prop) (P : ∀ X, MC G X → Prop) (fuel : Nat) : Prop :=
  ∀ (X : Acker) (C0 : MC G X) (node : TaskNode) (pre : List Nat) (nx : Nat) (b : Batch) (sm : List Nat) (rest : Nat → Nat)
    (doom : Nat → Prop) (retry : Option RetryAttempt) (skipDo : Bool) (s s' : PS) (r : Except Stop Unit),
    Good node → P X C0 → PathG C0 pre node → (skipDo = true → node.kind = .source) →
    FlightG C0 s pre pre True (destsS node) rest doom nx b sm 0 → b.tainted = false → FlagsAF b →
    exec (doTaskAttempt fuel node b (.run X) retry skipDo) s = (r, s') → RP G s' → FT G s' →
    OutG C0 (tasksS node) (destsS node) rest doom b sm 0 nx s s' r

/-- the tainted loop of `node` from row `i` -/
def TaintG (G : Ctx) (Good : TaskNode → Prop) (P : ∀ X, MC G X → Prop) (fuel : Nat) : Prop :=
  ∀ (X : Acker) (C0 : MC G X) (node : TaskNode) (pre : List Nat) (nx : Nat) (b : Batch) (sm : List Nat) (rest : Nat → Nat)
    (doom : Nat → Prop) (retry : Option RetryAttempt) (i : Nat) (s s' : PS) (r : Except Stop Unit),
    Good node → P X C0 → PathG C0 pre node →
    FlightG C0 s pre (pre ++ own node) (node.kind ≠ .dest) (destsL node.next) rest doom nx b sm i →
    exec (taintedLoop fuel node b (.run X) retry i) s = (r, s') → RP G s' → FT G s' →
    OutG C0 (tasksS node) (destsS node) rest doom b sm i nx s s' r

/-- `doNextTask` of `node` (which has a next task) on a group of kept / filtered records -/
def NextG (G : Ctx) (Good : TaskNode → Prop) (P : ∀ X, MC G X → Prop) (fuel : Nat) : Prop :=
  ∀ (X : Acker) (C0 : MC G X) (node : TaskNode) (pre : List Nat) (nx : Nat) (sb : Batch) (sm : List Nat) (rest : Nat → Nat)
    (doom : Nat → Prop) (s s' : PS) (r : Except Stop Unit),
    Good node → P X C0 → PathG C0 pre node → node.next ≠ [] →
    FlightG C0 s pre (pre ++ own node) (node.kind ≠ .dest) (destsL node.next) rest doom nx sb sm 0 →
    sb.tainted = false → FlagsAF sb →
    exec (doNextTask fuel node sb (.run X)) s = (r, s') → RP G s' → FT G s' →
    OutG C0 (tasksL node.next) (destsL node.next) rest doom sb sm 0 nx s s' r

/-- `doNextTask` at a fan-out -/
def FanG (G : Ctx) (Good : TaskNode → Prop) (P : ∀ X, MC G X → Prop) (fuel : Nat) : Prop :=
  ∀ (X : Acker) (C0 : MC G X) (node : TaskNode) (pre : List Nat) (nx : Nat) (sb : Batch) (sm : List Nat) (rest : Nat → Nat)
    (doom : Nat → Prop) (s s' : PS) (r : Except Stop Unit),
    Good node → P X C0 → PathG C0 pre node → 2 ≤ node.next.length →
    FlightG C0 s pre (pre ++ own node) (node.kind ≠ .dest) (destsL node.next) rest doom nx sb sm 0 →
    sb.tainted = false → FlagsAF sb →
    exec (doNextTask fuel node sb (.run X)) s = (r, s') → RP G s' → FT G s' →
    OutG C0 (tasksL node.next) (destsL node.next) rest doom sb sm 0 nx s s' r

/-! ## small facts -/

theorem OutG.fail {G : Ctx} {X : Acker} {C0 : MC G X} {Ts Ds : List Nat} {rest : Nat → Nat} {doom : Nat → Prop} {b : Batch}
    {sm : List Nat} {i nx : Nat} {s : PS} {e : Stop} (hE : C0.Err s) (hw : WSeen G s) :
    OutG C0 Ts Ds rest doom b sm i nx s s (.error e) :=
  ⟨ExtT.refl _ _ _ _, hw, fun _ => hE, (fun hr => nomatch hr), (fun hr => nomatch hr), (fun hr => nomatch hr),
    (fun hr => nomatch hr), (fun hr => nomatch hr), (fun hr => nomatch hr), (fun hr => nomatch hr), (fun hr => nomatch hr)⟩

/-- a failure after facts about the batch were added -/
theorem OutG.fail_ext {G : Ctx} {X : Acker} {C0 : MC G X} {Ts Ds : List Nat} {rest : Nat → Nat} {doom : Nat → Prop} {b : Batch}
    {sm : List Nat} {i nx : Nat} {s s' : PS} {e : Stop} (he : ExtT Ts Ds (RootsOf G sm i) (G.view s) (G.view s'))
    (hE : C0.Err s') (hw : WSeen G s') : OutG C0 Ts Ds rest doom b sm i nx s s' (.error e) :=
  ⟨he, hw, fun _ => hE, (fun hr => nomatch hr), (fun hr => nomatch hr), (fun hr => nomatch hr),
    (fun hr => nomatch hr), (fun hr => nomatch hr), (fun hr => nomatch hr), (fun hr => nomatch hr), (fun hr => nomatch hr)⟩

theorem OutG.mono_frame {G : Ctx} {X : Acker} {C0 : MC G X} {Ts Ds Ts2 Ds2 : List Nat} {rest : Nat → Nat} {doom : Nat → Prop}
    {b : Batch} {sm : List Nat} {i nx : Nat} {s s' : PS} {r : Except Stop Unit}
    (h : OutG C0 Ts2 Ds2 rest doom b sm i nx s s' r) (h3 : ∀ x ∈ Ts2, x ∈ Ts) (h4 : ∀ x ∈ Ds2, x ∈ Ds) :
    OutG C0 Ts Ds rest doom b sm i nx s s' r :=
  ⟨h.ext.mono h3 h4 (fun _ hx => hx), h.wseen, h.err, h.inv, h.wtag, h.hsize, h.hframe, h.horig, h.lpost, h.htouch, h.ci⟩

theorem nxJ_ge {sm : List Nat} {nx i : Nat} (h : sm.length ≤ i) : nxJ sm nx i = nx := by
  unfold nxJ; rw [List.getElem?_eq_none_iff.mpr h]; rfl

theorem nxJ_lt {sm : List Nat} {nx i : Nat} (h : i < sm.length) : nxJ sm nx i = sm[i] := by
  unfold nxJ; rw [List.getElem?_eq_getElem h]; rfl

theorem nxJ_slice {sm : List Nat} {nx nx' i j : Nat} (hij : i < j) (hj : j ≤ sm.length) :
    nxJ ((sm.drop i).take (j - i)) nx' 0 = nxJ sm nx i := by
  unfold nxJ
  rw [getElem?_slice, if_pos (by omega), Nat.add_zero, List.getElem?_eq_getElem (by omega : i < sm.length)]
  rfl

/-- nothing to do: the batch has no row `≥ i` -/
theorem OutG.nil {G : Ctx} {X : Acker} {C0 : MC G X} {Ts Ds : List Nat} {rest : Nat → Nat} {doom : Nat → Prop} {b : Batch}
    {sm : List Nat} {i nx : Nat} {s : PS}
    (hI : C0.Inv (nxJ sm nx i) s) (hw : WSeen G s) (hlen : sm.length ≤ i)
    (hv : b.view.length ≤ i) : OutG C0 Ts Ds rest doom b sm i nx s s (.ok ()) := by
  have hd : b.view.drop i = [] := List.drop_of_length_le hv
  rw [nxJ_ge hlen] at hI
  refine ⟨ExtT.refl _ _ _ _, hw, fun hr => absurd rfl hr, fun _ => hI, fun _ e he => Or.inl he,
    fun _ => Nat.le_refl _, fun _ _ _ _ => rfl, fun _ _ _ => ⟨rfl, rfl⟩, ?_, ?_, ?_⟩
  · intro _ rid hc; rw [hd] at hc; simp [cnt] at hc
  · intro _ rid hc; rw [hd] at hc; simp [cnt] at hc
  · intro _ rid hc; rw [hd] at hc; simp [cnt] at hc

theorem Cover.extT {v v' : MV} {D Ts Ds : List Nat} {R : Nat → Prop} {ρ : Nat} (h : Cover v D ρ) (he : ExtT Ts Ds R v v') :
    Cover v' D ρ := fun d hd => (h d hd).imp (fun hw => hw.extT he) (fun hf => he.filt_mono _ hf)

/-! ## transfer through a task step -/

theorem OutG.trans_pre {G : Ctx} {X : Acker} {C0 : MC G X} {Ts Ds : List Nat} {rest : Nat → Nat} {doom : Nat → Prop}
    {b b1 : Batch} {sm sm1 : List Nat} {nx : Nat} {s s1 s' : PS} {r : Except Stop Unit}
    (hext : ExtT Ts Ds (RootsOf G sm 0) (G.view s) (G.view s1)) (hst : StepRelG G s b sm s1 b1 sm1)
    (ho : OutG C0 Ts Ds rest doom b1 sm1 0 nx s1 s' r) : OutG C0 Ts Ds rest doom b sm 0 nx s s' r := by
  refine ⟨hext.trans (ho.ext.mono (fun _ hx => hx) (fun _ hx => hx) (fun x hx => hst.roots x hx)), ho.wseen, ho.err, ho.inv,
    ?_, ?_, ?_, ?_, ?_, ?_, ?_⟩
  · intro hr e he
    rcases ho.wtag hr e he with h1 | ⟨k, row', _, hk, ht⟩ | h3
    · rcases hst.wtag e h1 with h4 | ⟨row, hrow, ht⟩
      · exact Or.inl h4
      · obtain ⟨k, hk⟩ := List.getElem?_of_mem hrow
        exact Or.inr (Or.inl ⟨k, row, Nat.zero_le _, hk, ht⟩)
    · rcases hst.tagsub row' (List.mem_of_getElem? hk) with ⟨row, hrow, ht'⟩ | hn
      · obtain ⟨k2, hk2⟩ := List.getElem?_of_mem hrow
        exact Or.inr (Or.inl ⟨k2, row, Nat.zero_le _, hk2, ht'.trans ht⟩)
      · exact Or.inr (Or.inr (by rw [← ht]; exact hn))
    · exact Or.inr (Or.inr (fun hm => h3 (hst.seen _ hm)))
  · intro hr
    exact Nat.le_trans hst.hsize (ho.hsize hr)
  · intro hr rid hlt hc
    simp only [List.drop_zero] at hc
    obtain ⟨e1, e2⟩ := hst.hframe rid hlt hc
    rw [ho.hframe hr rid (Nat.lt_of_lt_of_le hlt hst.hsize) (by simpa using e2), e1]
  · intro hr rid hlt
    obtain ⟨a1, a2⟩ := ho.horig hr rid (Nat.lt_of_lt_of_le hlt hst.hsize)
    obtain ⟨c1, c2⟩ := hst.horig rid hlt
    exact ⟨a1.trans c1, a2.trans c2⟩
  · intro hr rid hc hrest
    simp only [List.drop_zero] at hc
    exact ho.lpost hr rid (by simp only [List.drop_zero]; exact Nat.lt_of_lt_of_le hc (hst.mono rid)) hrest
  · intro hr rid hc hrest
    simp only [List.drop_zero] at hc
    exact ho.htouch hr rid (by simp only [List.drop_zero]; exact Nat.lt_of_lt_of_le hc (hst.mono rid)) hrest
  · intro hr rid hc hrest
    simp only [List.drop_zero] at hc
    exact ho.ci hr rid (by simp only [List.drop_zero]; exact Nat.lt_of_lt_of_le hc (hst.mono rid)) hrest

/-! ## a group of rows as a batch of its own -/

/-- the lineage of one run -/
def LinOf (G : Ctx) (h : Heap) (rid : Nat) : Prop :=
  ∃ src ∈ G.all, keyR src = keyOf (h[rid]!).origPos ∧ root (h[rid]!).origRec = root src

/-- the root of a run is the root of the source of its rows -/
theorem run_rootG {G : Ctx} (hs : Src G) {h : Heap} {b : Batch} {sm : List Nat} (hm : SrcMap G h b sm)
    {k rid q : Nat} {row : Row} {src : Rec} (hl : LinOf G h rid) (hr : b.rows[k]? = some row) (hrun : row.run = some rid)
    (hq : sm[k]? = some q) (hsrc : G.all[q]? = some src) : root (h[rid]!).origRec = root src := by
  obtain ⟨src', a1, a2, _⟩ := hm.key k row q hr hq
  rw [hsrc] at a1; cases a1
  obtain ⟨srcH, hmem, k1, k2⟩ := hl
  obtain ⟨qH, hqH⟩ := List.getElem?_of_mem hmem
  have : rowKey h row = keyOf (h[rid]!).origPos := by unfold rowKey; rw [hrun]
  rw [this] at a2
  have := hs.idx_of_key hqH hsrc (k1.trans a2)
  subst this
  rw [hsrc] at hqH; cases hqH
  exact k2

/-- a row whose source has the root of a run with a piece in the batch belongs to that run -/
theorem row_of_rootG {G : Ctx} (hs : Src G) {h : Heap} {b : Batch} {sm : List Nat} (hm : SrcMap G h b sm)
    {rid k0 k q : Nat} {row0 : Row} {src : Rec} (hl : LinOf G h rid) (hr0 : b.rows[k0]? = some row0)
    (hrun0 : row0.run = some rid) (hq : sm[k]? = some q) (hsrc : G.all[q]? = some src)
    (hroot : root src = root (h[rid]!).origRec) : ∃ row, b.rows[k]? = some row ∧ row.run = some rid := by
  obtain ⟨q0, src0, a1, a2, _, _⟩ := SM.srcOf hm hr0
  have e0 := run_rootG hs hm hl hr0 hrun0 a1 a2
  have hqq : q = q0 := hs.idx_of_root hsrc a2 (hroot.trans e0)
  subst hqq
  have hkr : k < b.rows.length := by rw [← hm.len]; exact (List.getElem?_eq_some_iff.mp hq).1
  have hrk : b.rows[k]? = some b.rows[k] := List.getElem?_eq_getElem hkr
  refine ⟨_, hrk, ?_⟩
  rcases Nat.lt_trichotomy k0 k with hlt' | heq | hgt
  · obtain ⟨rid', c1, c2⟩ := SM.same_run' hm hlt' a1 hq hr0 hrk
    rw [hrun0] at c1; cases c1; exact c2
  · subst heq; rw [hr0] at hrk; cases hrk; exact hrun0
  · obtain ⟨rid', c1, c2⟩ := SM.same_run' hm hgt hq a1 hrk hr0
    rw [hrun0] at c2; cases c2; exact c1

/-- a run all of whose rows are below `j` has a root no row `≥ j` shares -/
theorem root_notinG {G : Ctx} (hs : Src G) {h : Heap} {b : Batch} {sm : List Nat} {rs : List (Option Nat)} (hb : VB b rs)
    (hm : SrcMap G h b sm) {rid i j : Nat} (hl : LinOf G h rid) (hc : 0 < cnt rid (b.view.drop i))
    (hc0 : cnt rid (b.view.drop j) = 0) : ¬ RootsOf G sm j (root (h[rid]!).origRec) := by
  rintro ⟨k, q, src, hk, hq, hsrc, hroot⟩
  obtain ⟨k0, row0, hk0, hr0, hrun0⟩ := (cnt_drop_pos hb).mp hc
  obtain ⟨row, hrow, hrun⟩ := row_of_rootG hs hm hl hr0 hrun0 hq hsrc hroot
  have : 0 < cnt rid (b.view.drop j) := (cnt_drop_pos hb).mpr ⟨k, row, hk, hrow, hrun⟩
  omega

/-- "handle the group `[i, j)`, then the rows from `j` on" -/
theorem OutG.seq {G : Ctx} (hs : Src G) {X : Acker} {C0 : MC G X} {Ts Ds : List Nat} {rest : Nat → Nat} {doom : Nat → Prop}
    {b sb : Batch} {sm : List Nat} {nx i j : Nat}
    {s s1 s' : PS} {r : Except Stop Unit} {rs : List (Option Nat)} (hb : VB b rs) (hij : i < j) (hj : j ≤ sm.length)
    (hview : sb.view = (b.view.drop i).take (j - i)) (hrows : sb.rows = (b.rows.drop i).take (j - i))
    (hm : SrcMap G s.heap b sm) (hl : HLinG G s.heap rest b i) (hids : ∀ rid, 0 < cnt rid b.view → rid < s.heap.size)
    (hseen : ∀ x ∈ Seen G s, x ∈ Seen G s1)
    (h1 : OutG C0 Ts Ds (restJ rest b j) (doomJ doom b j) sb ((sm.drop i).take (j - i)) 0 (nxJ sm nx j) s s1 (.ok ()))
    (h2 : OutG C0 Ts Ds rest doom b sm j nx s1 s' r) : OutG C0 Ts Ds rest doom b sm i nx s s' r := by
  have hsplit : b.view.drop i = sb.view ++ b.view.drop j := by
    rw [hview]; exact drop_split b.view (by omega)
  have hcnt : ∀ rid, cnt rid (b.view.drop i) = cnt rid sb.view + cnt rid (b.view.drop j) := by
    intro rid; rw [hsplit, cnt_append]
  have hlen' : ((sm.drop i).take (j - i)).length = j - i := by simp; omega
  have hroots1 : ∀ ρ, RootsOf G ((sm.drop i).take (j - i)) 0 ρ → RootsOf G sm i ρ := by
    rintro ρ ⟨k, q, src, _, hq, hsrc, hroot⟩
    rw [getElem?_slice] at hq
    split at hq
    · exact ⟨i + k, q, src, by omega, hq, hsrc, hroot⟩
    · cases hq
  have hidlt : ∀ rid, 0 < cnt rid (b.view.drop i) → rid < s.heap.size := by
    intro rid hc
    apply hids
    have := cnt_drop_le rid b.view i
    omega
  have hext2 : ExtT Ts Ds (RootsOf G sm j) (G.view s1) (G.view s') := h2.ext
  refine ⟨(h1.ext.mono (fun _ hx => hx) (fun _ hx => hx) hroots1).trans
      (h2.ext.mono (fun _ hx => hx) (fun _ hx => hx) (fun x hx => hx.mono (by omega))), h2.wseen, h2.err, h2.inv,
    ?_, ?_, ?_, ?_, ?_, ?_, ?_⟩
  · intro hr e he
    rcases h2.wtag hr e he with g1 | ⟨k, row, hk, hrow, ht⟩ | g3
    · rcases h1.wtag rfl e g1 with g4 | ⟨k, row, _, hrow, ht⟩ | g6
      · exact Or.inl g4
      · rw [hrows, getElem?_slice] at hrow
        split at hrow
        · exact Or.inr (Or.inl ⟨i + k, row, by omega, hrow, ht⟩)
        · cases hrow
      · exact Or.inr (Or.inr g6)
    · exact Or.inr (Or.inl ⟨k, row, by omega, hrow, ht⟩)
    · exact Or.inr (Or.inr (fun hm' => g3 (hseen _ hm')))
  · intro hr
    exact Nat.le_trans (h1.hsize rfl) (h2.hsize hr)
  · intro hr rid hlt hc
    rw [hcnt] at hc
    rw [h2.hframe hr rid (Nat.lt_of_lt_of_le hlt (h1.hsize rfl)) (by omega),
      h1.hframe rfl rid hlt (by simp only [List.drop_zero]; omega)]
  · intro hr rid hlt
    obtain ⟨a1, a2⟩ := h2.horig hr rid (Nat.lt_of_lt_of_le hlt (h1.hsize rfl))
    obtain ⟨c1, c2⟩ := h1.horig rfl rid hlt
    exact ⟨a1.trans c1, a2.trans c2⟩
  · intro hr rid hc hrest
    by_cases hcj : 0 < cnt rid (b.view.drop j)
    · exact h2.lpost hr rid hcj hrest
    · have hc0 : cnt rid (b.view.drop j) = 0 := by omega
      have hcs : 0 < cnt rid sb.view := by rw [hcnt] at hc; omega
      have := h1.lpost rfl rid (by simp only [List.drop_zero]; exact hcs) (by unfold restJ; omega)
      rw [h2.hframe hr rid (Nat.lt_of_lt_of_le (hidlt rid hc) (h1.hsize rfl)) hc0]
      unfold restJ at this
      rw [hc0, Nat.add_zero] at this
      exact this
  · intro hr rid hc hrest
    by_cases hcj : 0 < cnt rid (b.view.drop j)
    · exact h2.htouch hr rid hcj hrest
    · have hc0 : cnt rid (b.view.drop j) = 0 := by omega
      have hcs : 0 < cnt rid sb.view := by rw [hcnt] at hc; omega
      have hlt := hidlt rid hc
      rw [h2.hframe hr rid (Nat.lt_of_lt_of_le hlt (h1.hsize rfl)) hc0]
      intro hna
      exact (h1.htouch rfl rid (by simp only [List.drop_zero]; exact hcs) (by unfold restJ; omega) hna).extT hext2
  · intro hr rid hc hrest
    by_cases hcj : 0 < cnt rid (b.view.drop j)
    · exact h2.ci hr rid hcj hrest
    · have hc0 : cnt rid (b.view.drop j) = 0 := by omega
      have hcs : 0 < cnt rid sb.view := by rw [hcnt] at hc; omega
      have hlt := hidlt rid hc
      rw [h2.hframe hr rid (Nat.lt_of_lt_of_le hlt (h1.hsize rfl)) hc0]
      intro hncl
      have horig := (h1.horig rfl rid hlt).2
      have hnot := root_notinG hs hb hm (hl rid (Or.inl hc)) hc hc0
      have hncl1 : ¬ CleanT (G.view s1) C0.T C0.D (root (s1.heap[rid]!).origRec) := by
        intro hcl
        apply hncl
        rw [horig] at hcl ⊢
        exact hcl.ext hext2 (Or.inl hnot)
      rcases h1.ci rfl rid (by simp only [List.drop_zero]; exact hcs) (by unfold restJ; omega) hncl1 with g | g | ⟨k, row, hk, hrow, hrun, _⟩
      · exact Or.inl g
      · exact Or.inr g
      · have : 0 < cnt rid (b.view.drop j) := (cnt_drop_pos hb).mpr ⟨k, row, hk, hrow, hrun⟩
        omega

/-- the group `[i, j)` of a batch in flight is a batch in flight -/
theorem FlightG.sub {G : Ctx} (hs : Src G) {X : Acker} {C0 : MC G X} {s : PS} {pre pre' : List Nat} {nd : Prop} {sub : List Nat}
    {rest : Nat → Nat} {doom : Nat → Prop} {nx : Nat} {b sb : Batch} {sm : List Nat} {i j : Nat}
    (hF : FlightG C0 s pre pre' nd sub rest doom nx b sm i) (hsub : b.sub i j = .ok sb) (hij : i < j) :
    FlightG C0 s pre pre' nd sub (restJ rest b j) (doomJ doom b j) (nxJ sm nx j) sb ((sm.drop i).take (j - i)) 0 := by
  obtain ⟨rs, hvb⟩ := hF.tinv.vb
  obtain ⟨hsv, hsi⟩ := sub_SInv hF.tinv hsub
  obtain ⟨hrows, hvbs⟩ := rows_sub hvb hsub
  obtain ⟨_, hjr, _, _, _, _, _, _, _, _⟩ := sub_ok_fields hsub
  have hm := hF.srcmap
  have hlen : sm.length = b.recs.length := by rw [hm.len, rows_length]
  have hjl : j ≤ sm.length := by omega
  have hrl : b.rows.length = sm.length := hm.len.symm
  have hnx0 : nxJ ((sm.drop i).take (j - i)) (nxJ sm nx j) 0 = nxJ sm nx i := nxJ_slice hij hjl
  have hsm' : ∀ k : Nat, ((sm.drop i).take (j - i))[k]? = if k < j - i then sm[i + k]? else none := fun k => getElem?_slice sm i j k
  have hrw' : ∀ k : Nat, sb.rows[k]? = if k < j - i then b.rows[i + k]? else none := by
    intro k; rw [hrows]; exact getElem?_slice b.rows i j k
  have hrowk : ∀ (k : Nat) (row : Row), sb.rows[k]? = some row → b.rows[i + k]? = some row ∧ i + k < j := by
    intro k row h
    rw [hrw'] at h
    split at h
    · exact ⟨h, by omega⟩
    · cases h
  have hsmk : ∀ (k q : Nat), ((sm.drop i).take (j - i))[k]? = some q → sm[i + k]? = some q ∧ i + k < j := by
    intro k q h
    rw [hsm'] at h
    split at h
    · exact ⟨h, by omega⟩
    · cases h
  have hlast_r : sb.rows.getLast? = b.rows[j - 1]? := by rw [hrows]; exact getLast?_slice b.rows hij (by omega)
  have hlast_s : ((sm.drop i).take (j - i)).getLast? = sm[j - 1]? := getLast?_slice sm hij hjl
  have hcntS : ∀ rid, cnt rid (b.view.drop i) = cnt rid sb.view + cnt rid (b.view.drop j) := by
    intro rid; rw [drop_split b.view (by omega : i ≤ j), ← hsv, cnt_append]
  -- a run alive for the group is alive for the batch
  have hlive : ∀ rid, LiveRun (restJ rest b j) sb 0 rid → LiveRun rest b i rid := by
    intro rid h
    unfold LiveRun at h ⊢
    unfold restJ at h
    simp only [List.drop_zero] at h
    rw [hcntS]
    omega
  -- a row `≥ j` does not belong to a run whose source is strictly below `sm[j]`
  have hcnt0 : ∀ (rid q q2 : Nat) (row : Row), b.rows[j - 1]? = some row → row.run = some rid → sm[j - 1]? = some q →
      sm[j]? = some q2 → q2 = q + 1 → cnt rid (b.view.drop j) = 0 := by
    intro rid q q2 row hrow hrun hq hq2 he
    apply Classical.byContradiction
    intro hne
    obtain ⟨k, rowk, hk, hrk, hrunk⟩ := (cnt_drop_pos hvb).mp (by omega : 0 < cnt rid (b.view.drop j))
    obtain ⟨qk, _, a1, _, _, _⟩ := SM.srcOf hm hrk
    have e1 := SM.run_src hs hm hq a1 hrow hrk hrun hrunk
    have := (SM.le' hm hk hq2 a1).1
    omega
  refine ⟨by rw [hnx0]; exact hF.inv, hF.wseen, hsi.tinv, ?_, ?_, ?_, ?_, fun rid h => hF.hlin rid (hlive rid h),
    fun rid h => hF.htouch rid (hlive rid h), ?_, ?_, ?_, ?_, ?_, by rw [hnx0]; exact hF.below,
    fun rid h => hF.nackt rid (hlive rid h)⟩
  · -- srcmap
    refine ⟨?_, ?_, ?_, ?_⟩
    · rw [hrows]; simp; omega
    · intro k q q' h1 h2
      obtain ⟨a1, _⟩ := hsmk k q h1
      obtain ⟨a2, _⟩ := hsmk (k + 1) q' h2
      exact hm.step (i + k) q q' a1 (by rw [Nat.add_assoc]; exact a2)
    · intro k row q hr hq
      exact hm.key (i + k) row q (hrowk k row hr).1 (hsmk k q hq).1
    · intro k row row' q hr hr' hq hq'
      exact hm.same (i + k) row row' q (hrowk k row hr).1 (by rw [Nat.add_assoc]; exact (hrowk (k + 1) row' hr').1)
        (hsmk k q hq).1 (by rw [Nat.add_assoc]; exact (hsmk (k + 1) q hq').1)
  · -- nextok
    intro row q hlr hls
    rw [hlast_r] at hlr
    rw [hlast_s] at hls
    by_cases hjlt : j < sm.length
    · have hq2 : sm[j]? = some sm[j] := List.getElem?_eq_getElem hjlt
      have hnx : nxJ sm nx j = sm[j] := by unfold nxJ; rw [hq2]; rfl
      have hstep := hm.step (j - 1) q sm[j] hls (by rw [show j - 1 + 1 = j by omega]; exact hq2)
      rcases hstep with he | he
      · left
        refine ⟨by rw [hnx, he], ?_⟩
        have hrj : b.rows[j]? = some b.rows[j] := List.getElem?_eq_getElem (by omega)
        obtain ⟨rid, a1, a2⟩ := hm.same (j - 1) row _ q hlr (by rw [show j - 1 + 1 = j by omega]; exact hrj) hls
          (by rw [show j - 1 + 1 = j by omega, hq2, he])
        refine ⟨rid, a1, ?_⟩
        have : 0 < cnt rid (b.view.drop j) := (cnt_drop_pos hvb).mpr ⟨j, _, Nat.le_refl _, hrj, a2⟩
        unfold restJ; omega
      · right
        refine ⟨by rw [hnx, he], ?_⟩
        intro rid hrun
        have hc0 := hcnt0 rid q sm[j] row hlr hrun hls hq2 he
        unfold restJ
        rw [hc0, Nat.add_zero]
        apply Classical.byContradiction
        intro hne
        have hcb : 0 < cnt rid b.view := (cnt_pos hvb).mpr ⟨j - 1, row, hlr, hrun⟩
        obtain ⟨rowl, hl1, hl2⟩ := hF.restlast rid (by omega) hcb
        rw [List.getLast?_eq_getElem?] at hl1
        have : 0 < cnt rid (b.view.drop j) := (cnt_drop_pos hvb).mpr ⟨b.rows.length - 1, rowl, by omega, hl1, hl2⟩
        omega
    · have hje : j = sm.length := by omega
      have hnx : nxJ sm nx j = nx := by unfold nxJ; rw [List.getElem?_eq_none_iff.mpr (by omega)]; rfl
      have hd : b.view.drop j = [] := List.drop_of_length_le (by rw [hvb.view_len]; omega)
      have hlr' : b.rows.getLast? = some row := by rw [List.getLast?_eq_getElem?, hrl, ← hje]; exact hlr
      have hls' : sm.getLast? = some q := by rw [List.getLast?_eq_getElem?, ← hje]; exact hls
      rw [hnx]
      rcases hF.nextok row q hlr' hls' with ⟨g1, rid, g2, g3⟩ | ⟨g1, g2⟩
      · exact Or.inl ⟨g1, rid, g2, by unfold restJ; omega⟩
      · refine Or.inr ⟨g1, fun rid hrun => ?_⟩
        unfold restJ; rw [hd, g2 rid hrun]; rfl
  · -- restlast
    intro rid hrest hc
    rw [hlast_r]
    have hrj1 : b.rows[j - 1]? = some b.rows[j - 1] := List.getElem?_eq_getElem (by omega)
    refine ⟨_, hrj1, ?_⟩
    obtain ⟨k0, row0, hr0, hrun0⟩ := (cnt_pos hvbs).mp hc
    obtain ⟨hb0, hk0⟩ := hrowk k0 row0 hr0
    obtain ⟨q0, _, a1, _, _, _⟩ := SM.srcOf hm hb0
    -- a later row of the same run
    have hlater : ∃ (k : Nat) (rowk : Row), j - 1 ≤ k ∧ b.rows[k]? = some rowk ∧ rowk.run = some rid := by
      by_cases hcj : 0 < cnt rid (b.view.drop j)
      · obtain ⟨k, rowk, hk, hrk, hrunk⟩ := (cnt_drop_pos hvb).mp hcj
        exact ⟨k, rowk, by omega, hrk, hrunk⟩
      · have hr' : 0 < rest rid := by unfold restJ at hrest; omega
        have hcb : 0 < cnt rid b.view := (cnt_pos hvb).mpr ⟨i + k0, row0, hb0, hrun0⟩
        obtain ⟨rowl, hl1, hl2⟩ := hF.restlast rid hr' hcb
        rw [List.getLast?_eq_getElem?] at hl1
        exact ⟨b.rows.length - 1, rowl, by omega, hl1, hl2⟩
    obtain ⟨k, rowk, hk, hrk, hrunk⟩ := hlater
    obtain ⟨qk, _, c1, _, _, _⟩ := SM.srcOf hm hrk
    have e1 := SM.run_src hs hm a1 c1 hb0 hrk hrun0 hrunk
    subst e1
    obtain ⟨qj, _, d1, _, _, _⟩ := SM.srcOf hm hrj1
    have := (SM.le' hm (by omega : i + k0 ≤ j - 1) a1 d1).1
    have := (SM.le' hm hk d1 c1).1
    have hqj : qj = q0 := by omega
    subst hqj
    by_cases hk0' : i + k0 = j - 1
    · rw [hk0', hrj1] at hb0; cases hb0; exact hrun0
    · obtain ⟨rid', f1, f2⟩ := SM.same_run' hm (by omega : i + k0 < j - 1) a1 d1 hb0 hrj1
      rw [hrun0] at f1; cases f1; exact f2
  · -- hdoom
    rintro rid (hd | ⟨k, row, hk, hr, hrun, _⟩)
    · have := hF.hdoom rid hd; unfold restJ; omega
    · have : 0 < cnt rid (b.view.drop j) := (cnt_drop_pos hvb).mpr ⟨k, row, hk, hr, hrun⟩
      unfold restJ; omega
  · -- ci
    intro rid hc hncl
    simp only [List.drop_zero] at hc
    have hcb : 0 < cnt rid (b.view.drop i) := by rw [hcntS]; omega
    rcases hF.ci rid hcb hncl with g | g | ⟨k, row, hk, hr, hrun, hfl⟩
    · exact Or.inl g
    · exact Or.inr (Or.inl (Or.inl g))
    · by_cases hkj : k < j
      · refine Or.inr (Or.inr ⟨k - i, row, Nat.zero_le _, ?_, hrun, hfl⟩)
        rw [hrw', if_pos (by omega), show i + (k - i) = k by omega]; exact hr
      · exact Or.inr (Or.inl (Or.inr ⟨k, row, by omega, hr, hrun, hfl⟩))
  · -- splitlin
    intro e he src hsrc hk
    exact hF.splitlin (e.1, e.2) (lookup_mem (sub_split hsub e he)) src hsrc hk
  · -- nosplit
    intro k row hr hrun
    exact lookup_none_of_sub hsub (hF.nosplit (i + k) row (hrowk k row hr).1 hrun)
  · -- facts
    refine ⟨?_, ?_, ?_, ?_⟩
    · intro k row q src _ hr hq hsrc hf
      exact hF.facts.ack (i + k) row q src (by omega) (hrowk k row hr).1 (hsmk k q hq).1 hsrc hf
    · intro k row q src _ hr hq hsrc hf
      exact hF.facts.fil (i + k) row q src (by omega) (hrowk k row hr).1 (hsmk k q hq).1 hsrc hf
    · intro k row q src _ hr hq hsrc hf
      exact hF.facts.retry (i + k) row q src (by omega) (hrowk k row hr).1 (hsmk k q hq).1 hsrc hf
    · intro k row q src _ hr hq hsrc hf
      exact hF.facts.clean (i + k) row q src (by omega) (hrowk k row hr).1 (hsmk k q hq).1 hsrc hf
  · -- tags
    refine ⟨?_, ?_, ?_⟩
    · have hsl : sb.rows.Sublist b.rows := by
        rw [hrows]; exact (List.take_sublist _ _).trans (List.drop_sublist _ _)
      exact (hsl.map _).nodup hF.tags.nodup
    · intro k row _ hr
      exact hF.tags.seen (i + k) row (by omega) (hrowk k row hr).1
    · intro k row _ hr hf
      exact hF.tags.unw (i + k) row (by omega) (hrowk k row hr).1 hf

/-- once the group `[i, j)` has been handled, the batch is in flight from row `j` on -/
theorem FlightG.after {G : Ctx} (hs : Src G) {X : Acker} {C0 : MC G X} {Ts Ds : List Nat} {s s1 : PS} {pre pre' : List Nat}
    {nd : Prop} {sub : List Nat} {rest : Nat → Nat} {doom : Nat → Prop} {nx : Nat} {b sb : Batch} {sm : List Nat} {i j : Nat}
    (hF : FlightG C0 s pre pre' nd sub rest doom nx b sm i) (hsub : b.sub i j = .ok sb) (hij : i < j)
    (hseen : ∀ x ∈ Seen G s, x ∈ Seen G s1)
    (ho : OutG C0 Ts Ds (restJ rest b j) (doomJ doom b j) sb ((sm.drop i).take (j - i)) 0 (nxJ sm nx j) s s1 (.ok ())) :
    FlightG C0 s1 pre pre' nd sub rest doom nx b sm j := by
  obtain ⟨rs, hvb⟩ := hF.tinv.vb
  obtain ⟨hsv, hsi⟩ := sub_SInv hF.tinv hsub
  obtain ⟨hrows, hvbs⟩ := rows_sub hvb hsub
  obtain ⟨_, hjr, _, _, _, _, _, _, _, _⟩ := sub_ok_fields hsub
  have hm := hF.srcmap
  have ht := hF.tinv
  have hlen : sm.length = b.recs.length := by rw [hm.len, rows_length]
  have hjl : j ≤ sm.length := by omega
  have hrl : b.rows.length = sm.length := hm.len.symm
  have hlen' : ((sm.drop i).take (j - i)).length = j - i := by simp; omega
  have hsplit : b.view.drop i = sb.view ++ b.view.drop j := by rw [hsv]; exact drop_split b.view (by omega)
  have hcnt : ∀ rid, cnt rid (b.view.drop i) = cnt rid sb.view + cnt rid (b.view.drop j) := by
    intro rid; rw [hsplit, cnt_append]
  have hids : ∀ r : Nat, 0 < cnt r b.view → r < s.heap.size := by
    intro r hr
    apply Classical.byContradiction
    intro hge
    have := cnt_zero_of_ge ht.wf (by omega : s.heap.size ≤ r)
    omega
  have hidd : ∀ (r k : Nat), 0 < cnt r (b.view.drop k) → r < s.heap.size := by
    intro r k hr; apply hids; have := cnt_drop_le r b.view k; omega
  have hsz := ho.hsize rfl
  have hext := ho.ext
  have hrw' : ∀ k : Nat, sb.rows[k]? = if k < j - i then b.rows[i + k]? else none := by
    intro k; rw [hrows]; exact getElem?_slice b.rows i j k
  have hsm' : ∀ k : Nat, ((sm.drop i).take (j - i))[k]? = if k < j - i then sm[i + k]? else none := fun k => getElem?_slice sm i j k
  -- a piece of the group, as a row of the batch
  have hsbrow : ∀ rid, 0 < cnt rid sb.view → ∃ (k : Nat) (row : Row), i ≤ k ∧ k < j ∧ b.rows[k]? = some row ∧ row.run = some rid := by
    intro rid hc
    obtain ⟨k0, row0, hr0, hrun0⟩ := (cnt_pos hvbs).mp hc
    rw [hrw'] at hr0
    split at hr0
    · exact ⟨i + k0, row0, by omega, by omega, hr0, hrun0⟩
    · cases hr0
  have hsbcnt : ∀ (rid k : Nat) (row : Row), i ≤ k → k < j → b.rows[k]? = some row → row.run = some rid → 0 < cnt rid sb.view := by
    intro rid k row h1 h2 hr hrun
    refine (cnt_pos hvbs).mpr ⟨k - i, row, ?_, hrun⟩
    rw [hrw', if_pos (by omega), show i + (k - i) = k by omega]; exact hr
  -- the frontier
  have hqj1 : sm[j - 1]? = some sm[j - 1] := List.getElem?_eq_getElem (by omega)
  have hnx_ge : sm[j - 1] ≤ nxJ sm nx j := by
    unfold nxJ
    by_cases hjlt : j < sm.length
    · rw [List.getElem?_eq_getElem hjlt]
      exact (SM.le' hm (by omega : j - 1 ≤ j) hqj1 (List.getElem?_eq_getElem hjlt)).1
    · rw [List.getElem?_eq_none_iff.mpr (by omega)]
      have hje : j = sm.length := by omega
      have hlr : b.rows.getLast? = some b.rows[j - 1] := by
        rw [List.getLast?_eq_getElem?, show b.rows.length - 1 = j - 1 by omega]; exact List.getElem?_eq_getElem (by omega)
      have hls : sm.getLast? = some sm[j - 1] := by
        rw [List.getLast?_eq_getElem?, show sm.length - 1 = j - 1 by omega]; exact hqj1
      rcases hF.nextok _ _ hlr hls with ⟨g1, _⟩ | ⟨g1, _⟩ <;> simp only [Option.getD_none] <;> omega
  have hfront_le : nxJ sm nx i ≤ nxJ sm nx j := by
    have hqi : sm[i]? = some sm[i] := List.getElem?_eq_getElem (by omega)
    rw [nxJ_lt (by omega : i < sm.length)]
    have := (SM.le' hm (by omega : i ≤ j - 1) hqi hqj1).1
    omega
  -- roots of the group
  have hgroup : ∀ ρ, RootsOf G ((sm.drop i).take (j - i)) 0 ρ → ∃ (k q : Nat) (src : Rec), i ≤ k ∧ k < j ∧ sm[k]? = some q ∧
      G.all[q]? = some src ∧ root src = ρ := by
    rintro ρ ⟨k, q, src, _, hq, hsrc, hroot⟩
    rw [hsm'] at hq
    split at hq
    · exact ⟨i + k, q, src, by omega, by omega, hq, hsrc, hroot⟩
    · cases hq
  -- a run alive at `j` is alive at `i`, and allocated
  have hlive : ∀ rid, LiveRun rest b j rid → LiveRun rest b i rid := by
    intro rid h
    unfold LiveRun at h ⊢
    rw [hcnt]; omega
  have hlalloc : ∀ rid, LiveRun rest b i rid → rid < s.heap.size := by
    intro rid h
    rcases h with h | h
    · exact hidd rid i h
    · apply Classical.byContradiction
      intro hge
      have := ht.restok rid (by omega)
      omega
  refine ⟨ho.inv rfl, ho.wseen, ?_, ?_, hF.nextok, hF.restlast, hF.hdoom, ?_, ?_, ?_, hF.splitlin,
    hF.nosplit, ?_, ?_, ?_, ?_⟩
  · -- tinv
    refine ⟨ht.wf.mono_heap hsz, ht.ne, ht.runs, ht.nopos, ?_, fun r hr => ht.restok r (Nat.le_trans hsz hr), ?_, ?_⟩
    · intro rid hc
      obtain ⟨g1, g2⟩ := ht.acc rid (by rw [hcnt]; omega)
      refine ⟨Nat.lt_of_lt_of_le g1 hsz, ?_⟩
      by_cases hcs : 0 < cnt rid sb.view
      · obtain ⟨l1, _⟩ := ho.lpost rfl rid (by simpa using hcs) (by unfold restJ; omega)
        unfold restJ at l1
        exact ⟨l1.rel, by have := l1.acc; omega, l1.nerr⟩
      · rw [ho.hframe rfl rid g1 (by simp only [List.drop_zero]; omega)]
        refine ⟨g2.rel, ?_, g2.nerr⟩
        have := g2.acc
        rw [hcnt] at this
        omega
    · obtain ⟨prev, seen, hsh, hp1, hp2⟩ := ht.shape
      exact ⟨prev, seen, shape_heap _ _ _ _ _ hsh (fun r hr => (ho.horig rfl r (hids r hr)).1), hp1,
        fun r hr => Nat.lt_of_lt_of_le (hp2 r hr) hsz⟩
    · intro r t hst
      obtain ⟨prev, seen, hsh, _, _⟩ := ht.shape
      have hdec : b.view = b.view.take i ++ (sb.view ++ (some r, none) :: t) := by
        conv => lhs; rw [← List.take_append_drop i b.view, hsplit, hst]
      rw [hdec, shape_append] at hsh
      have hsbne : sb.view ≠ [] := by
        intro he
        have : sb.view.length = j - i := by
          rw [hsv, List.length_take, List.length_drop, hvb.view_len]; omega
        rw [he] at this; simp at this; omega
      have hc := shape_tail_prev _ _ _ _ _ _ hsh.2 hsbne
      have hr' : 0 < restJ rest b j r := by
        unfold restJ; rw [hst, cnt_cons_some, if_pos rfl]; omega
      exact (ho.lpost rfl r (by simpa using hc) hr').2
  · -- srcmap
    apply SM.heap hm
    intro row hrow rid hrun
    obtain ⟨k, hk⟩ := List.getElem?_of_mem hrow
    exact (ho.horig rfl rid (hids rid ((cnt_pos hvb).mpr ⟨k, row, hk, hrun⟩))).1
  · -- hlin
    intro rid hlv
    have hlv' := hlive rid hlv
    obtain ⟨a1, a2⟩ := ho.horig rfl rid (hlalloc rid hlv')
    obtain ⟨src, g1, g2, g3⟩ := hF.hlin rid hlv'
    exact ⟨src, g1, by rw [a1]; exact g2, by rw [a2]; exact g3⟩
  · -- htouch
    intro rid hlv hterm hna
    have hlv' := hlive rid hlv
    have hlt := hlalloc rid hlv'
    by_cases hcs : 0 < cnt rid sb.view
    · have hrJ : 0 < restJ rest b j rid := by
        unfold restJ; unfold LiveRun at hlv; omega
      exact ho.htouch rfl rid (by simpa using hcs) hrJ hna
    · have hfr := ho.hframe rfl rid hlt (by simp only [List.drop_zero]; omega)
      rw [hfr] at hterm hna ⊢
      exact (hF.htouch rid hlv' hterm hna).extT hext
  · -- ci
    intro rid hc hncl
    have hlt := hidd rid j hc
    by_cases hcs : 0 < cnt rid sb.view
    · rcases ho.ci rfl rid (by simpa using hcs) (by unfold restJ; omega) hncl with g | g | g
      · exact Or.inl g
      · exact Or.inr (Or.inl g)
      · exact Or.inr (Or.inr g)
    · have hfr := ho.hframe rfl rid hlt (by simp only [List.drop_zero]; omega)
      rw [hfr] at hncl ⊢
      have hncl0 : ¬ CleanT (G.view s) C0.T C0.D (root (s.heap[rid]!).origRec) := by
        intro hcl
        apply hncl
        apply hcl.ext hext
        left
        intro hro
        obtain ⟨k, q, src, hk1, hk2, hq, hsrc, hroot⟩ := hgroup _ hro
        obtain ⟨k0, row0, _, hr0, hrun0⟩ := (cnt_drop_pos hvb).mp hc
        obtain ⟨row, hrow, hrun⟩ := row_of_rootG hs hm (hF.hlin rid (hlive rid (Or.inl hc))) hr0 hrun0 hq hsrc hroot
        have := hsbcnt rid k row hk1 hk2 hrow hrun
        omega
      rcases hF.ci rid (by rw [hcnt]; omega) hncl0 with g | g | ⟨k, row, hk, hr, hrun, hfl⟩
      · exact Or.inl g
      · exact Or.inr (Or.inl g)
      · refine Or.inr (Or.inr ⟨k, row, ?_, hr, hrun, hfl⟩)
        apply Classical.byContradiction
        intro hkj
        have := hsbcnt rid k row hk (by omega) hr hrun
        omega
  · -- facts
    refine ⟨?_, ?_, ?_, ?_⟩
    · intro k row q src hk hr hq hsrc hf d hd
      exact (hF.facts.ack k row q src (by omega) hr hq hsrc hf d hd).extT hext
    · intro k row q src hk hr hq hsrc hf
      exact hext.filt_mono _ (hF.facts.fil k row q src (by omega) hr hq hsrc hf)
    · intro k row q src hk hr hq hsrc hf
      obtain ⟨g1, g2⟩ := hF.facts.retry k row q src (by omega) hr hq hsrc hf
      exact ⟨fun d hd => (g1 d hd).extT hext, g2⟩
    · intro k row q src hk hr hq hsrc hrun hf
      apply (hF.facts.clean k row q src (by omega) hr hq hsrc hrun hf).ext hext
      left
      intro hro
      obtain ⟨k', q', src', hk1, hk2, hq', hsrc', hroot⟩ := hgroup _ hro
      have hqq : q' = q := hs.idx_of_root hsrc' hsrc hroot
      subst hqq
      have hrk' : b.rows[k']? = some b.rows[k'] := List.getElem?_eq_getElem (by omega)
      have := SM.norun_unique hm hq hq' hr hrk' hrun
      omega
  · -- tags
    refine ⟨hF.tags.nodup, ?_, ?_⟩
    · intro k row hk hr
      exact hseen _ (hF.tags.seen k row (by omega) hr)
    · intro k row hk hr hf e he hsub'
      rcases ho.wtag rfl e he with g | ⟨k', row', _, hr', ht'⟩ | g
      · exact hF.tags.unw k row (by omega) hr hf e g hsub'
      · intro heq
        rw [hrw'] at hr'
        split at hr'
        · -- two different rows of the batch with the same tag
          exact nodup_map_ne hF.tags.nodup hr' hr (by omega) (by rw [ht', heq])
        · cases hr'
      · intro heq
        apply g
        rw [heq]
        exact hF.tags.seen k row (by omega) hr
  · -- below
    intro e he hsub'
    rcases hext.wr_new e he with g | ⟨_, g⟩
    · exact (hF.below e g hsub').mono (by omega)
    · obtain ⟨k, q, src, hk1, hk2, hq, hsrc, hroot⟩ := hgroup _ g
      refine ⟨q, src, ?_, hsrc, hroot⟩
      have := (SM.le' hm (by omega : k ≤ j - 1) hq hqj1).2
      have := (SM.le' hm (by omega : k ≤ j - 1) hq hqj1).1
      omega
  · -- nackt
    intro rid hlv hna
    have hlv' := hlive rid hlv
    have hlt := hlalloc rid hlv'
    by_cases hcs : 0 < cnt rid sb.view
    · have hrJ : 0 < restJ rest b j rid := by
        unfold restJ; unfold LiveRun at hlv; omega
      exact (ho.lpost rfl rid (by simpa using hcs) hrJ).2
    · have hfr := ho.hframe rfl rid hlt (by simp only [List.drop_zero]; omega)
      rw [hfr] at hna ⊢
      exact hF.nackt rid hlv' hna

/-! ## the ack / nack of a group through the handler chain -/

theorem ackCallG {G : Ctx} (D : DepsG G) {X : Acker} {C0 : MC G X} {fuel : Nat} {sb : Batch} {s s' : PS} {r : Except Stop Unit}
    {pre pre' : List Nat} {nd : Prop} {sub : List Nat} {rest : Nat → Nat} {doom : Nat → Prop} {nx : Nat} {sm : List Nat}
    {isAck : Bool} {task : Nat}
    (hF : FlightG C0 s pre pre' nd sub rest doom nx sb sm 0) (hn : isAck = false → NackOK sb)
    (hj : isAck = true → ∀ (k : Nat) (row : Row) (q : Nat) (src : Rec), sb.rows[k]? = some row → sm[k]? = some q →
      G.all[q]? = some src →
      row.st.flag ≠ .nack ∧ Cover (G.view s) C0.D (root src) ∧ (row.run = none → CleanT (G.view s) C0.T C0.D (root src)))
    (h : exec (ackerCall fuel (.run X) sb isAck task) s = (r, s')) : OutG C0 [] [] rest doom sb sm 0 nx s s' r := by
  cases fuel with
  | zero => rw [ackerCall] at h; cases h; exact OutG.fail (C0.w_err (C0.inv_w hF.inv)) hF.wseen
  | succ f =>
    rw [ackerCall_run] at h
    obtain ⟨rs, hvb⟩ := hF.tinv.vb
    exact D.vote C0 sb rs hvb sm isAck task hn rest doom nx hF.hdoom hF.nextok hF.restlast hF.nosplit f 0 s s' r
      ⟨hF.inv, hF.wseen, hF.tinv.acc, hF.srcmap, hF.hlin, hF.htouch, hF.ci,
        fun ha k row q src _ hr hq hsrc => hj ha k row q src hr hq hsrc⟩ h

theorem FactsG.imp_nd {G : Ctx} {v : MV} {T D : List Nat} {pre pre' : List Nat} {nd nd' : Prop} {b : Batch} {sm : List Nat} {i : Nat}
    (h : FactsG G v T D pre pre' nd b sm i) (hi : nd → nd') : FactsG G v T D pre pre' nd' b sm i :=
  ⟨h.ack, h.fil, fun k row q src hk hr hq hsrc hf => ⟨(h.retry k row q src hk hr hq hsrc hf).1,
    hi (h.retry k row q src hk hr hq hsrc hf).2⟩, h.clean⟩

/-- the facts of a group of kept / filtered records, as arrival facts for the next node -/
theorem FactsG.arrive {G : Ctx} {v : MV} {T D : List Nat} {pre pre' : List Nat} {nd : Prop} {b : Batch} {sm : List Nat}
    {rs : List (Option Nat)} (hb : VB b rs) (h : FactsG G v T D pre pre' nd b sm 0) (haf : FlagsAF b) :
    FactsG G v T D pre' pre' True b sm 0 :=
  ⟨h.ack, h.fil, (fun k row _ _ _ hr _ _ hf => by
    rcases flagsAF_row hb haf hr with h1 | h1 <;> rw [h1] at hf <;> cases hf), h.clean⟩

/-- the same batch in flight, seen from another node -/
theorem FlightG.remap {G : Ctx} {X : Acker} {C0 : MC G X} {s : PS} {pre pre' : List Nat} {nd : Prop} {sub : List Nat}
    {rest : Nat → Nat} {doom : Nat → Prop} {nx : Nat} {b : Batch} {sm : List Nat} {i : Nat} {p2 p2' : List Nat} {nd2 : Prop}
    {sub2 : List Nat}
    (hF : FlightG C0 s pre pre' nd sub rest doom nx b sm i) (hf : FactsG G (G.view s) C0.T C0.D p2 p2' nd2 b sm i)
    (ht : TagsF G s sub2 b i) (hb : WBelowG G (nxJ sm nx i) (G.mu s) sub2) :
    FlightG C0 s p2 p2' nd2 sub2 rest doom nx b sm i :=
  ⟨hF.inv, hF.wseen, hF.tinv, hF.srcmap, hF.nextok, hF.restlast, hF.hdoom, hF.hlin, hF.htouch, hF.ci,
    hF.splitlin, hF.nosplit, hf, ht, hb, hF.nackt⟩

/-- a group of kept / filtered records: ack it, or hand it to the next task -/
theorem grp_stepG {G : Ctx} (D : DepsG G) {Good : TaskNode → Prop} {P : ∀ X, MC G X → Prop} (fuel : Nat)
    (hN : NextG G Good P fuel) {X : Acker} {C0 : MC G X} {node : TaskNode} {pre : List Nat} {nx : Nat}
    {sb : Batch} {sm : List Nat} {rest : Nat → Nat} {doom : Nat → Prop} {s s' : PS} {r : Except Stop Unit}
    (hg : Good node) (hpc : P X C0) (hpath : PathG C0 pre node)
    (hF : FlightG C0 s pre (pre ++ own node) (node.kind ≠ .dest) (destsL node.next) rest doom nx sb sm 0)
    (hcl : sb.tainted = false) (haf : FlagsAF sb)
    (h : exec (if (node.next.isEmpty || !sb.hasActive) = true then ackerCall fuel (.run X) sb true 0
              else doNextTask fuel node sb (.run X)) s = (r, s')) (hrp : RP G s') (hft : FT G s') :
    OutG C0 (tasksL node.next) (destsL node.next) rest doom sb sm 0 nx s s' r := by
  by_cases hc : (node.next.isEmpty || !sb.hasActive) = true
  · simp only [hc, if_true] at h
    obtain ⟨rs, hvb⟩ := hF.tinv.vb
    refine (ackCallG (isAck := true) D hF (fun hh => Bool.noConfusion hh) (fun _ k row q src hr hq hsrc => ?_) h).mono_frame
      (fun _ hx => nomatch hx) (fun _ hx => nomatch hx)
    have hfl := flagsAF_row hvb haf hr
    have hnn : row.st.flag ≠ .nack := by
      rcases hfl with h1 | h1 <;> rw [h1] <;> exact fun hh => Flag.noConfusion hh
    refine ⟨hnn, ?_, fun hrun => hF.facts.clean k row q src (Nat.zero_le _) hr hq hsrc hrun hnn⟩
    rw [Bool.or_eq_true] at hc
    rcases hc with hc | hc
    · have hn : node.next = [] := by simpa using hc
      rcases hfl with h1 | h1
      · intro d hd
        refine Or.inl (hF.facts.ack k row q src (Nat.zero_le _) hr hq hsrc h1 d ?_)
        rcases hpath.coverD d hd with h2 | h2
        · exact List.mem_append_left _ h2
        · rw [destsS_own, hn] at h2
          simp only [destsL_nil, List.append_nil] at h2
          exact List.mem_append_right _ h2
      · exact fun _ _ => Or.inr (hF.facts.fil k row q src (Nat.zero_le _) hr hq hsrc h1)
    · have := all_filter_of_not_hasActive' hF.tinv.wf (by simpa using hc) k row.st (rows_fields hvb hr).2.1
      exact fun _ _ => Or.inr (hF.facts.fil k row q src (Nat.zero_le _) hr hq hsrc this)
  · simp only [hc] at h
    have hne : node.next ≠ [] := by
      intro he; apply hc; rw [he]; rfl
    exact hN X C0 node pre nx sb sm rest doom s s' r hg hpc hpath hne hF hcl haf h hrp hft

/-! ## one more unit of fuel -/

theorem next_stepG {G : Ctx} {Good : TaskNode → Prop} {P : ∀ X, MC G X → Prop}
    (hchild : ∀ node, Good node → node.next.length = 1 → ∀ n ∈ node.next, Good n)
    (fuel : Nat) (hP : PipeG G Good P fuel) (hfan : FanG G Good P (fuel+1)) : NextG G Good P (fuel+1) := by
  intro X C0 node pre nx sb sm rest doom s s' r hg hpc hpath hne hF hcl haf h hrp hft
  cases hnx : node.next with
  | nil => exact absurd hnx hne
  | cons n rest' =>
    cases rest' with
    | cons n2 rest2 =>
      rw [← hnx]
      exact hfan X C0 node pre nx sb sm rest doom s s' r hg hpc hpath (by rw [hnx]; simp) hF hcl haf h hrp hft
    | nil =>
      rw [doNextTask] at h
      simp only [hnx] at h
      have hts : tasksS node = node.id :: tasksS n := by rw [tasksS_own, hnx, tasksL_single]
      have hds : destsS node = own node ++ destsS n := by rw [destsS_own, hnx, destsL_single]
      have hpath' : PathG C0 (pre ++ own node) n := by
        refine ⟨?_, ?_, ?_, ?_, ?_⟩
        · intro d hd
          rcases hpath.coverD d hd with h1 | h1
          · exact Or.inl (List.mem_append_left _ h1)
          · rw [hds, List.mem_append] at h1
            rcases h1 with h1 | h1
            · exact Or.inl (List.mem_append_right _ h1)
            · exact Or.inr h1
        · have := hpath.nodup
          rw [hts] at this
          exact (List.nodup_cons.mp this).2
        · intro x hx; exact hpath.inT x (by rw [hts]; exact List.mem_cons_of_mem _ hx)
        · intro x hx; exact hpath.inD x (by rw [hds]; exact List.mem_append_right _ hx)
        · intro x hx; exact hpath.below x (by rw [hts]; exact List.mem_cons_of_mem _ hx)
      obtain ⟨rs, hvb⟩ := hF.tinv.vb
      have hsubeq : destsL node.next = destsS n := by rw [hnx, destsL_single]
      have hF' : FlightG C0 s (pre ++ own node) (pre ++ own node) True (destsS n) rest doom nx sb sm 0 :=
        hF.remap (hF.facts.arrive hvb haf) (by rw [← hsubeq]; exact hF.tags) (by rw [← hsubeq]; exact hF.below)
      rw [tasksL_single, destsL_single]
      exact hP X C0 n (pre ++ own node) nx sb sm rest doom none false s s' r
        (hchild node hg (by rw [hnx]; rfl) n (by rw [hnx]; simp)) hpc hpath'
        (fun hh => Bool.noConfusion hh) hF' hcl haf h hrp hft

theorem StepRelG.refl (G : Ctx) (s : PS) (b : Batch) (sm : List Nat) : StepRelG G s b sm s b sm :=
  ⟨fun _ h => h, Iff.rfl, rfl, fun row' hr => Or.inl ⟨row', hr, rfl⟩, fun _ he => Or.inl he,
    fun _ h => h, Nat.le_refl _, fun _ _ hc => ⟨rfl, hc⟩, fun _ _ => ⟨rfl, rfl⟩, fun _ => Nat.le_refl _⟩

theorem dta_stepG {G : Ctx} (D : DepsG G) {Good : TaskNode → Prop} {P : ∀ X, MC G X → Prop} (fuel : Nat)
    (hN : NextG G Good P fuel) (hT : TaintG G Good P fuel) : PipeG G Good P (fuel+1) := by
  intro X C0 node pre nx b sm rest doom retry skipDo s s' r hg hpc hpath hskip hF hcl haf h hrp hft
  rw [doTaskAttempt] at h
  have hts := tasksS_own node
  have hds := destsS_own node
  have hidn : node.id ∉ tasksL node.next := by
    have := hpath.nodup; rw [hts] at this; exact (List.nodup_cons.mp this).1
  have hsubT : ∀ x ∈ tasksL node.next, x ∈ tasksS node := fun x hx => by rw [hts]; exact List.mem_cons_of_mem _ hx
  have hsubD : ∀ x ∈ destsL node.next, x ∈ destsS node := fun x hx => by rw [hds]; exact List.mem_append_right _ hx
  have hownD : ∀ x ∈ own node, x ∈ destsS node := fun x hx => by rw [hds]; exact List.mem_append_left _ hx
  have hidT : ∀ x ∈ [node.id], x ∈ tasksS node := fun x hx => by
    rw [hts]; simp only [List.mem_singleton] at hx; rw [hx]; exact List.mem_cons_self
  have hidIn : node.id ∈ tasksS node := hidT _ (List.mem_singleton.mpr rfl)
  -- what happens once the task of the node has run
  have hK : ∀ (b1 : Batch) (sm1 : List Nat) (s1 : PS),
      FlightG C0 s1 pre (pre ++ own node) (node.kind ≠ .dest) (destsL node.next) rest doom nx b1 sm1 0 →
      (b1.tainted = false → FlagsAF b1) →
      exec (if (!b1.tainted) = true then
              if (node.next.isEmpty || !b1.hasActive) = true then ackerCall fuel (.run X) b1 true 0
              else doNextTask fuel node b1 (.run X)
            else taintedLoop fuel node b1 (.run X) retry 0) s1 = (r, s') →
      OutG C0 (tasksS node) (destsS node) rest doom b1 sm1 0 nx s1 s' r := by
    intro b1 sm1 s1 hF1 haf1 h
    by_cases ht : (!b1.tainted) = true
    · simp only [ht, if_true] at h
      have hcl1 : b1.tainted = false := by simpa using ht
      exact (grp_stepG D fuel hN hg hpc hpath hF1 hcl1 (haf1 hcl1) h hrp hft).mono_frame hsubT hsubD
    · simp only [ht] at h
      exact hT X C0 node pre nx b1 sm1 rest doom retry 0 s1 s' r hg hpc hpath hF1 h hrp hft
  cases skipDo with
  | true =>
    simp only [if_true] at h
    rw [exec_bind, exec_pure] at h
    have hk := hskip rfl
    have hown : own node = [] := by unfold own; rw [hk]; rfl
    have hnd : node.kind ≠ .dest := by rw [hk]; exact fun hh => TaskKind.noConfusion hh
    have hsubeq : destsS node = destsL node.next := by rw [hds, hown, List.nil_append]
    refine hK b sm s ?_ (fun _ => haf) h
    refine hF.remap ?_ (by rw [← hsubeq]; exact hF.tags) (by rw [← hsubeq]; exact hF.below)
    rw [hown, List.append_nil]; exact hF.facts.imp_nd (fun _ => hnd)
  | false =>
    simp only [Bool.false_eq_true, if_false] at h
    rw [exec_bind, exec_tryCatch] at h
    rcases ht : exec (taskDo node b) s with ⟨r1, s1⟩
    rw [ht] at h
    -- the continuation only appends to the log
    have hmono : s1.log.toList <+: s'.log.toList := by
      cases r1 with
      | error e => cases e <;> simp only [exec_throw] at h <;> cases h <;> exact List.prefix_refl _
      | ok b1 =>
        dsimp only at h
        by_cases ht1 : (!b1.tainted) = true
        · simp only [ht1, if_true] at h
          by_cases hc : (node.next.isEmpty || !b1.hasActive) = true
          · simp only [hc, if_true] at h; exact log_mono_acker h
          · simp only [hc] at h; exact log_mono_next h
        · simp only [ht1] at h; exact log_mono_taint h
    have hrp1 : RP G s1 := hrp.prefix hmono
    have hft1 : FT G s1 := hft.prefix hmono
    -- the task itself
    have hD : WSeen G s1 ∧ C0.Inv (nxJ sm nx 0) s1 ∧ ExtT [node.id] (own node) (RootsOf G sm 0) (G.view s) (G.view s1) ∧
        ∀ b1, r1 = .ok b1 → ∃ sm1,
        FlightG C0 s1 pre (pre ++ own node) (node.kind ≠ .dest) (destsL node.next) rest doom nx b1 sm1 0 ∧
        StepRelG G s b sm s1 b1 sm1 ∧ (b1.tainted = false → FlagsAF b1) := by
      unfold taskDo at ht
      cases hk : node.kind with
      | proc =>
        rw [hk] at ht
        have hown : own node = [] := by unfold own; rw [hk]; rfl
        have hsubeq : destsS node = destsL node.next := by rw [hds, hown, List.nil_append]
        obtain ⟨_, g1, g2, g3, g4⟩ := D.proc C0 hF hcl haf (hpath.below _ hidIn) (hpath.inT _ hidIn) ht hrp1 hft1
        refine ⟨g1, g3, by rw [hown]; exact g2.ext, fun b1 hb1 => ?_⟩
        obtain ⟨sm1, a1, a2, a3⟩ := g4 b1 hb1
        refine ⟨sm1, ?_, a2, a3⟩
        refine a1.remap ?_ (by rw [← hsubeq]; exact a1.tags) (by rw [← hsubeq]; exact a1.below)
        rw [hown, List.append_nil]; exact a1.facts.imp_nd (fun _ hh => TaskKind.noConfusion hh)
      | dest =>
        rw [hk] at ht
        have hown : own node = [node.id] := by unfold own; rw [hk]; rfl
        have hsubeq : destsS node = node.id :: destsL node.next := by rw [hds, hown]; rfl
        have hni : node.id ∉ destsL node.next := fun hm => hidn (destsL_sub_tasksL _ _ hm)
        have hF0 : FlightG C0 s pre pre True (node.id :: destsL node.next) rest doom nx b sm 0 := by
          rw [← hsubeq]; exact hF
        obtain ⟨_, g1, g2, g3, g4⟩ := D.dest C0 hF0 hni hcl haf (hpath.below _ hidIn) (hpath.inT _ hidIn)
          (hpath.inD _ (by rw [hsubeq]; exact List.mem_cons_self)) ht
        refine ⟨g1, g3, by rw [hown]; exact g2.ext, fun b1 hb1 => ?_⟩
        obtain ⟨a1, a2, a3⟩ := g4 b1 hb1
        refine ⟨sm, ?_, a2, a3⟩
        rw [hown]
        exact a1.remap (a1.facts.imp_nd (fun hh => hh.elim)) a1.tags a1.below
      | source =>
        rw [hk] at ht
        cases ht
        have hown : own node = [] := by unfold own; rw [hk]; rfl
        have hsubeq : destsS node = destsL node.next := by rw [hds, hown, List.nil_append]
        refine ⟨hF.wseen, hF.inv, ExtT.refl _ _ _ _, fun b1 hb1 => ?_⟩
        cases hb1
        refine ⟨sm, ?_, StepRelG.refl G _ _ _, fun _ => haf⟩
        refine hF.remap ?_ (by rw [← hsubeq]; exact hF.tags) (by rw [← hsubeq]; exact hF.below)
        rw [hown, List.append_nil]; exact hF.facts.imp_nd (fun _ hh => TaskKind.noConfusion hh)
    obtain ⟨hw1, hI1, hext, hD4⟩ := hD
    have hext' : ExtT (tasksS node) (destsS node) (RootsOf G sm 0) (G.view s) (G.view s1) :=
      hext.mono hidT hownD (fun _ hx => hx)
    cases r1 with
    | error e =>
      dsimp only at h
      cases e <;> simp only [exec_throw] at h <;> cases h <;>
        exact OutG.fail_ext hext' (C0.w_err (C0.inv_w hI1)) hw1
    | ok b1 =>
      dsimp only at h
      obtain ⟨sm1, a1, a2, a3⟩ := hD4 b1 rfl
      exact (hK b1 sm1 s1 a1 a3 h).trans_pre hext' a2

/-! ## the tainted loop -/

/-- the outcome only depends on the pieces and the tags of the batch -/
theorem OutG.congr_batch {G : Ctx} {X : Acker} {C0 : MC G X} {Ts Ds : List Nat} {rest : Nat → Nat} {doom : Nat → Prop}
    {b b2 : Batch} {sm : List Nat} {i nx : Nat}
    {s s' : PS} {r : Except Stop Unit} (hview : b2.view = b.view)
    (hrows : ∀ (k : Nat) (row2 : Row), b2.rows[k]? = some row2 → ∃ row, b.rows[k]? = some row ∧ row.r.tag = row2.r.tag)
    (ho : OutG C0 Ts Ds rest doom b2 sm i nx s s' r) : OutG C0 Ts Ds rest doom b sm i nx s s' r := by
  refine ⟨ho.ext, ho.wseen, ho.err, ho.inv, ?_, ho.hsize, ?_, ho.horig, ?_, ?_, ?_⟩
  · intro hr e he
    rcases ho.wtag hr e he with g | ⟨k, row2, hk, hrow, ht⟩ | g
    · exact Or.inl g
    · obtain ⟨row, g1, g2⟩ := hrows k row2 hrow
      exact Or.inr (Or.inl ⟨k, row, hk, g1, g2.trans ht⟩)
    · exact Or.inr (Or.inr g)
  · rw [← hview]; exact ho.hframe
  · rw [← hview]; exact ho.lpost
  · rw [← hview]; exact ho.htouch
  · rw [← hview]; exact ho.ci

/-- a group flagged retry, re-flagged ack for another attempt of the same task -/
theorem FlightG.reflag {G : Ctx} {X : Acker} {C0 : MC G X} {s : PS} {pre pre2 : List Nat} {nd : Prop} {sub : List Nat}
    {rest : Nat → Nat} {doom : Nat → Prop} {nx : Nat} {sb sb2 : Batch} {sm : List Nat}
    (hF : FlightG C0 s pre pre2 nd sub rest doom nx sb sm 0)
    (hrecs : sb2.recs = sb.recs) (hpos : sb2.pos = sb.pos) (hruns : sb2.runs = sb.runs) (hsplit : sb2.split = sb.split)
    (hsinv : SInv s.heap rest sb2)
    (hret : ∀ (q : Nat) (st : Status), sb.st[q]? = some st → st.flag = .retry)
    (hack : ∀ (q : Nat) (st : Status), sb2.st[q]? = some st → st.flag = .ack) :
    FlightG C0 s pre pre True sub rest doom nx sb2 sm 0 := by
  obtain ⟨rs, hvb⟩ := hF.tinv.vb
  obtain ⟨rs2, hvb2'⟩ := hsinv.vb
  have hrs : rs2 = rs := by
    have := hvb2'.runs; rw [hruns, hvb.runs] at this; exact (Option.some.inj this).symm
  subst hrs
  have hvb2 := hvb2'
  have hview : sb2.view = sb.view := by unfold Batch.view; rw [hruns, hpos]
  have hrl : sb2.rows.length = sb.rows.length := by rw [rows_length, rows_length, hrecs]
  have hc := fun (k : Nat) (row2 : Row) (h : sb2.rows[k]? = some row2) => rows_congr hvb hvb2 hrecs hpos h
  have hlast : ∀ row2, sb2.rows.getLast? = some row2 → ∃ row, sb.rows.getLast? = some row ∧ row.run = row2.run := by
    intro row2 h
    rw [List.getLast?_eq_getElem?] at h
    obtain ⟨row, g1, _, _, g4, _, _⟩ := hc _ row2 h
    exact ⟨row, by rw [List.getLast?_eq_getElem?, ← hrl]; exact g1, g4⟩
  have hlive : ∀ rid, LiveRun rest sb2 0 rid → LiveRun rest sb 0 rid := by
    intro rid h; unfold LiveRun at h ⊢; rw [hview] at h; exact h
  refine ⟨hF.inv, hF.wseen, hsinv.tinv, ?_, ?_, ?_, hF.hdoom, fun rid h => hF.hlin rid (hlive rid h),
    fun rid h => hF.htouch rid (hlive rid h), ?_, ?_, ?_, ?_, ?_, hF.below,
    fun rid h => hF.nackt rid (hlive rid h)⟩
  · -- srcmap
    refine ⟨by rw [hrl]; exact hF.srcmap.len, hF.srcmap.step, ?_, ?_⟩
    · intro k row2 q hr hq
      obtain ⟨row, g1, g2, g3, g4, _, _⟩ := hc k row2 hr
      obtain ⟨src, a1, a2, a3⟩ := hF.srcmap.key k row q g1 hq
      refine ⟨src, a1, ?_, by rw [← g2]; exact a3⟩
      rw [← a2]; unfold rowKey; rw [g3, g4]
    · intro k row2 row2' q hr hr' hq hq'
      obtain ⟨row, g1, _, _, g4, _, _⟩ := hc k row2 hr
      obtain ⟨row', g1', _, _, g4', _, _⟩ := hc (k + 1) row2' hr'
      obtain ⟨rid, a1, a2⟩ := hF.srcmap.same k row row' q g1 g1' hq hq'
      exact ⟨rid, by rw [← g4]; exact a1, by rw [← g4']; exact a2⟩
  · -- nextok
    intro row2 q hl hq
    obtain ⟨row, g1, g2⟩ := hlast row2 hl
    rcases hF.nextok row q g1 hq with ⟨a1, rid, a2, a3⟩ | ⟨a1, a2⟩
    · exact Or.inl ⟨a1, rid, by rw [← g2]; exact a2, a3⟩
    · exact Or.inr ⟨a1, fun rid hrun => a2 rid (by rw [g2]; exact hrun)⟩
  · -- restlast
    intro rid hr hcn
    rw [hview] at hcn
    obtain ⟨row, g1, g2⟩ := hF.restlast rid hr hcn
    rw [List.getLast?_eq_getElem?] at g1
    obtain ⟨row2, b1, _, _, b4⟩ := rows_congr' hvb hvb2 hrecs hpos g1
    exact ⟨row2, by rw [List.getLast?_eq_getElem?, hrl]; exact b1, by rw [← b4]; exact g2⟩
  · -- ci
    intro rid hcn hncl
    rw [hview] at hcn
    rcases hF.ci rid hcn hncl with g | g | ⟨k, row, _, hr, _, hfl⟩
    · exact Or.inl g
    · exact Or.inr (Or.inl g)
    · have := hret k row.st (rows_fields hvb hr).2.1
      rw [hfl] at this; cases this
  · intro e he; rw [hsplit] at he; exact hF.splitlin e he
  · intro k row2 hr hrun
    obtain ⟨row, g1, _, g3, g4, _, _⟩ := hc k row2 hr
    rw [hsplit, ← g3]
    exact hF.nosplit k row g1 (by rw [g4]; exact hrun)
  · -- facts
    refine ⟨?_, ?_, ?_, ?_⟩
    · intro k row2 q src _ hr hq hsrc _
      obtain ⟨row, g1, _, _, _, _, g6⟩ := hc k row2 hr
      exact (hF.facts.retry k row q src (Nat.zero_le _) g1 hq hsrc (hret k row.st g6)).1
    · intro k row2 q src _ hr hq hsrc hf
      obtain ⟨_, _, _, _, _, g5, _⟩ := hc k row2 hr
      have := hack k row2.st g5
      rw [hf] at this; cases this
    · intro k row2 q src _ hr hq hsrc hf
      obtain ⟨_, _, _, _, _, g5, _⟩ := hc k row2 hr
      have := hack k row2.st g5
      rw [hf] at this; cases this
    · intro k row2 q src _ hr hq hsrc hrun _
      obtain ⟨row, g1, _, _, g4, _, g6⟩ := hc k row2 hr
      exact hF.facts.clean k row q src (Nat.zero_le _) g1 hq hsrc (by rw [g4]; exact hrun)
        (by rw [hret k row.st g6]; exact fun hh => Flag.noConfusion hh)
  · -- tags
    have htags : sb2.rows.map (·.r.tag) = sb.rows.map (·.r.tag) := by
      apply List.ext_getElem?
      intro k
      simp only [List.getElem?_map]
      cases h2 : sb2.rows[k]? with
      | none =>
        have : sb.rows[k]? = none := by
          rw [List.getElem?_eq_none_iff] at h2 ⊢; omega
        rw [this]
      | some row2 =>
        obtain ⟨row, g1, g2, _⟩ := hc k row2 h2
        rw [g1]; simp [g2]
    refine ⟨by rw [htags]; exact hF.tags.nodup, ?_, ?_⟩
    · intro k row2 _ hr
      obtain ⟨row, g1, g2, _⟩ := hc k row2 hr
      rw [← g2]; exact hF.tags.seen k row (Nat.zero_le _) g1
    · intro k row2 _ hr _
      obtain ⟨row, g1, g2, _, _, _, g6⟩ := hc k row2 hr
      rw [← g2]; exact hF.tags.unw k row (Nat.zero_le _) g1 (Or.inr (hret k row.st g6))

/-- "handle the group `[i, j)` by `Y`, then go on with the loop at `j`" -/
theorem taint_seqG {G : Ctx} (hs : Src G) {Good : TaskNode → Prop} {P : ∀ X, MC G X → Prop} (fuel : Nat)
    (hT : TaintG G Good P fuel) {X : Acker} {C0 : MC G X} {node : TaskNode} {pre : List Nat} {nx : Nat}
    {b sb : Batch} {sm : List Nat} {rest : Nat → Nat} {doom : Nat → Prop} {retry : Option RetryAttempt} {i j : Nat}
    {Y : M Unit} {s s' : PS} {r : Except Stop Unit}
    (hg : Good node) (hpc : P X C0) (hpath : PathG C0 pre node)
    (hF : FlightG C0 s pre (pre ++ own node) (node.kind ≠ .dest) (destsL node.next) rest doom nx b sm i)
    (hsub : b.sub i j = .ok sb) (hij : i < j)
    (hX : ∀ r1 s1, exec Y s = (r1, s1) → RP G s1 → FT G s1 →
      OutG C0 (tasksS node) (destsS node) (restJ rest b j) (doomJ doom b j) sb ((sm.drop i).take (j - i)) 0 (nxJ sm nx j) s s1 r1)
    (hXm : ∀ r1 s1, exec Y s = (r1, s1) → s.log.toList <+: s1.log.toList)
    (h : exec (Y >>= fun _ => taintedLoop fuel node b (.run X) retry j) s = (r, s')) (hrp : RP G s') (hft : FT G s') :
    OutG C0 (tasksS node) (destsS node) rest doom b sm i nx s s' r := by
  rw [exec_bind] at h
  rcases hx : exec Y s with ⟨r1, s1⟩
  rw [hx] at h
  have hroots1 : ∀ ρ, RootsOf G ((sm.drop i).take (j - i)) 0 ρ → RootsOf G sm i ρ := by
    rintro ρ ⟨k, q, src, _, hq, hsrc, hroot⟩
    rw [getElem?_slice] at hq
    split at hq
    · exact ⟨i + k, q, src, by omega, hq, hsrc, hroot⟩
    · cases hq
  cases r1 with
  | error e =>
    dsimp only at h
    cases h
    have o1 := hX _ _ hx hrp hft
    exact OutG.fail_ext (o1.ext.mono (fun _ hx => hx) (fun _ hx => hx) hroots1) (o1.err (fun hh => nomatch hh)) o1.wseen
  | ok u =>
    dsimp only at h
    have hmono := log_mono_taint h
    have hrp1 : RP G s1 := hrp.prefix hmono
    have hft1 : FT G s1 := hft.prefix hmono
    have o1 := hX _ _ hx hrp1 hft1
    have hseen : ∀ x ∈ Seen G s, x ∈ Seen G s1 := Seen.mono (hXm _ _ hx)
    have hF1 := hF.after hs hsub hij hseen o1
    have o2 := hT X C0 node pre nx b sm rest doom retry j s1 s' r hg hpc hpath hF1 h hrp hft
    obtain ⟨rs, hvb⟩ := hF.tinv.vb
    obtain ⟨hsv, _⟩ := sub_SInv hF.tinv hsub
    obtain ⟨hrows, _⟩ := rows_sub hvb hsub
    obtain ⟨_, hjr, _, _, _, _, _, _, _, _⟩ := sub_ok_fields hsub
    have hlen : sm.length = b.recs.length := by rw [hF.srcmap.len, rows_length]
    have hids : ∀ rid : Nat, 0 < cnt rid b.view → rid < s.heap.size := by
      intro rid hr
      apply Classical.byContradiction
      intro hge
      have := cnt_zero_of_ge hF.tinv.wf (by omega : s.heap.size ≤ rid)
      omega
    exact OutG.seq hs hvb hij (by omega) hsv hrows hF.srcmap hF.hlin hids hseen o1 o2

theorem taint_stepG {G : Ctx} (hs : Src G) (D : DepsG G) {Good : TaskNode → Prop} {P : ∀ X, MC G X → Prop} (fuel : Nat)
    (hP : PipeG G Good P fuel) (hN : NextG G Good P fuel) (hT : TaintG G Good P fuel) : TaintG G Good P (fuel+1) := by
  intro X C0 node pre nx b sm rest doom retry i s s' r hg hpc hpath hF h hrp hft
  rw [taintedLoop] at h
  obtain ⟨rs, hvb⟩ := hF.tinv.vb
  have hlen : sm.length = b.st.length := by rw [hF.srcmap.len, rows_length, hvb.slen]
  have hts := tasksS_own node
  have hds := destsS_own node
  have hsubT : ∀ x ∈ tasksL node.next, x ∈ tasksS node := fun x hx => by rw [hts]; exact List.mem_cons_of_mem _ hx
  have hsubD : ∀ x ∈ destsL node.next, x ∈ destsS node := fun x hx => by rw [hds]; exact List.mem_append_right _ hx
  have hErr : C0.Err s := C0.w_err (C0.inv_w hF.inv)
  have hW := hF.wseen
  by_cases hi : i ≥ b.st.length
  · simp only [hi, if_true, exec_pure] at h
    cases h
    exact OutG.nil hF.inv hF.wseen (by omega) (by rw [hvb.view_len, ← hvb.slen]; omega)
  · simp only [hi, if_false] at h
    have hlt : i < b.st.length := by omega
    have hg1 := groupEnd_gt b.st i hlt
    have hg2 := groupEnd_le b.st i (by omega)
    rw [exec_bind] at h
    rcases hsub : b.sub i (groupEnd b.st i) with e | sb
    · rw [hsub, exec_liftR_err] at h
      cases h
      exact OutG.fail hErr hW
    · rw [hsub, exec_liftR_ok] at h
      dsimp only at h
      obtain ⟨hsv, hsi⟩ := sub_SInv hF.tinv hsub
      obtain ⟨_, _, _, _, hsr, hss, hsp, _⟩ := sub_ok_fields hsub
      have hcl := sub_tainted hsub
      have hFs := hF.sub hs hsub hg1
      obtain ⟨rss, hvbs⟩ := hFs.tinv.vb
      rw [exec_bind] at h
      rcases h0 : idx sb.st 0 "subBatch.recordStatuses[0]" with e | s0
      · rw [h0, exec_liftR_err] at h
        cases h
        exact OutG.fail hErr hW
      · rw [h0, exec_liftR_ok] at h
        dsimp only at h
        have hspan : i + sb.pos.length = groupEnd b.st i := by
          rw [hsp]; simp [hvb.plen, ← hvb.slen]; omega
        rw [hspan] at h
        have h00 : sb.st[0]? = some s0 := idx_eq_ok_iff.mp h0
        have hbi : b.st[i]? = some s0 := by
          rw [hss] at h00
          simpa [List.getElem?_take, hg1] using h00
        have hgrp := group_flags b.st i s0 hbi
        have hsbst : ∀ (q : Nat) (st : Status), sb.st[q]? = some st → b.st[i + q]? = some st ∧ i + q < groupEnd b.st i := by
          intro q st hq
          rw [hss, List.getElem?_drop, List.getElem?_take] at hq
          split at hq
          · exact ⟨hq, by assumption⟩
          · cases hq
        have hseq : ∀ (Y : M Unit), (∀ r1 s1, exec Y s = (r1, s1) → RP G s1 → FT G s1 →
              OutG C0 (tasksS node) (destsS node) (restJ rest b (groupEnd b.st i)) (doomJ doom b (groupEnd b.st i)) sb
                ((sm.drop i).take (groupEnd b.st i - i)) 0 (nxJ sm nx (groupEnd b.st i)) s s1 r1) →
            (∀ r1 s1, exec Y s = (r1, s1) → s.log.toList <+: s1.log.toList) →
            exec (Y >>= fun _ => taintedLoop fuel node b (.run X) retry (groupEnd b.st i)) s = (r, s') →
            OutG C0 (tasksS node) (destsS node) rest doom b sm i nx s s' r :=
          fun Y hX hXm hx => taint_seqG hs fuel hT hg hpc hpath hF hsub hg1 hX hXm hx hrp hft
        -- a group of kept / filtered records
        have hack : (s0.flag = .ack ∨ s0.flag = .filter) →
            exec (if (node.next.isEmpty || !sb.hasActive) = true then do
                    let __r ← ackerCall fuel (.run X) sb true 0
                    taintedLoop fuel node b (.run X) retry (groupEnd b.st i)
                  else do
                    let __r ← doNextTask fuel node sb (.run X)
                    taintedLoop fuel node b (.run X) retry (groupEnd b.st i)) s = (r, s') →
            OutG C0 (tasksS node) (destsS node) rest doom b sm i nx s s' r := by
          intro hfl0 h
          have haf : FlagsAF sb := by
            intro q st hq
            obtain ⟨h1, h2⟩ := hsbst q st hq
            have := hgrp (i + q) st (by omega) h2 h1
            rcases hfl0 with hh | hh <;> rw [hh] at this <;> simpa [sameGroup] using this
          have hX : ∀ r1 s1, exec (if (node.next.isEmpty || !sb.hasActive) = true then ackerCall fuel (.run X) sb true 0
              else doNextTask fuel node sb (.run X)) s = (r1, s1) → RP G s1 → FT G s1 →
              OutG C0 (tasksS node) (destsS node) (restJ rest b (groupEnd b.st i)) (doomJ doom b (groupEnd b.st i)) sb
                ((sm.drop i).take (groupEnd b.st i - i)) 0 (nxJ sm nx (groupEnd b.st i)) s s1 r1 :=
            fun r1 s1 hx hrp1 hft1 => (grp_stepG D fuel hN hg hpc hpath hFs hcl haf hx hrp1 hft1).mono_frame hsubT hsubD
          by_cases hc : (node.next.isEmpty || !sb.hasActive) = true
          · simp only [hc, if_true] at h hX
            exact hseq _ hX (fun _ _ hx => log_mono_acker hx) h
          · simp only [hc] at h hX
            exact hseq _ hX (fun _ _ hx => log_mono_next hx) h
        cases hfl : s0.flag with
        | ack => rw [hfl] at h; exact hack (Or.inl hfl) h
        | filter => rw [hfl] at h; exact hack (Or.inr hfl) h
        | nack =>
          rw [hfl] at h
          dsimp only at h
          refine hseq _ ?_ (fun _ _ hx => log_mono_acker hx) h
          intro r1 s1 hx _ _
          have hnk : NackOK sb := by
            intro x hx
            have hall := group_all_nack b.st i s0 hbi hfl
            rw [hss] at hx
            exact hsi.ne x (by rw [hss]; exact hx) (hall x hx)
          exact (ackCallG (isAck := false) D hFs (fun _ => hnk) (fun hh => Bool.noConfusion hh) hx).mono_frame
            (fun _ hx => nomatch hx) (fun _ hx => nomatch hx)
        | retry =>
          rw [hfl] at h
          dsimp only at h
          -- every status of the group is `retry`
          have hallr : ∀ (q : Nat) (st : Status), sb.st[q]? = some st → st.flag = .retry := by
            intro q st hq
            obtain ⟨h1, h2⟩ := hsbst q st hq
            have := hgrp (i + q) st (by omega) h2 h1
            rw [hfl] at this
            simpa [sameGroup] using this
          have hnd : node.kind ≠ .dest := by
            have hl0 : 0 < sb.rows.length := by
              rw [rows_length, ← hvbs.slen]; exact (List.getElem?_eq_some_iff.mp h00).1
            obtain ⟨row0, hr0⟩ : ∃ row0, sb.rows[0]? = some row0 := ⟨_, List.getElem?_eq_getElem hl0⟩
            obtain ⟨q, src, a1, a2, _, _⟩ := SM.srcOf hFs.srcmap hr0
            have hst0 := (rows_fields hvbs hr0).2.1
            rw [h00] at hst0
            have hfl' : row0.st.flag = .retry := by rw [← Option.some.inj hst0]; exact hfl
            exact (hFs.facts.retry 0 row0 q src (Nat.le_refl _) hr0 a1 a2 hfl').2
          have hown : own node = [] := by
            unfold own
            cases hk : node.kind with
            | dest => exact absurd hk hnd
            | proc => rfl
            | source => rfl
          have hsubeq : destsS node = destsL node.next := by rw [destsS_own, hown, List.nil_append]
          have hD : ∀ (sb' : Batch) (nxr : RetryAttempt), sb.setFlagRange .ack 0 sb.recs.length = .ok sb' →
              exec (do
                doTaskAttempt fuel node { sb' with tainted := false } (.run X) (some nxr) false
                taintedLoop fuel node b (.run X) retry (groupEnd b.st i)) s = (r, s') →
              OutG C0 (tasksS node) (destsS node) rest doom b sm i nx s s' r := by
            intro sb' nxr hsf h
            obtain ⟨hfr, _⟩ := setFlagRange_fr (by decide) hsf
            have hwf' := C08_aligned_setFlagRange hsi.wf (by decide) hsf
            have hstep := SRel.of_fr hfr hwf' _ hsi
            have hview' : ({ sb' with tainted := false } : Batch).view = sb.view := by
              unfold Batch.view; rw [show ({ sb' with tainted := false } : Batch).runs = sb'.runs from rfl,
                show ({ sb' with tainted := false } : Batch).pos = sb'.pos from rfl, hfr.runs, hfr.pos]
            have hbi' : SInv s.heap (restJ rest b (groupEnd b.st i)) { sb' with tainted := false } :=
              ⟨⟨⟨hwf'.1.st_len, hwf'.1.pos_len, hwf'.1.runs_ok, hwf'.1.split_keys⟩, hwf'.2⟩, hstep.inv.ne, hstep.inv.runs,
                by rw [hview']; exact hsi.nopos, by rw [hview']; exact hsi.acc, hsi.restok,
                by rw [hview']; exact hsi.shape, by rw [hview']; exact hsi.headless⟩
            -- the exact result of the flagging
            obtain ⟨hij', hj'⟩ := setFlagRange_inrange hsi.wf hsf
            have hsf2 := hsf
            rw [setFlagRange_ok hsi.wf .ack hij' hj'] at hsf2
            have hsb' : sb' = { sb with st := sb.flagged .ack 0 sb.recs.length } := by
              injection hsf2 with hsf2; exact hsf2.symm
            have hrecs : sb'.recs = sb.recs := by rw [hsb']
            have hst' : sb'.st = sb.flagged .ack 0 sb.recs.length := by rw [hsb']
            have hcf : countFilter sb.st = 0 := by
              unfold countFilter
              rw [List.length_eq_zero_iff, List.filter_eq_nil_iff]
              intro x hx
              obtain ⟨q, hq, rfl⟩ := List.getElem_of_mem hx
              have := hallr q _ (List.getElem?_eq_getElem hq)
              simp [this]
            have hact := actList_of_countFilter_zero hcf
            have hnew : ∀ (q : Nat) (st' : Status), sb'.st[q]? = some st' → st'.flag = .ack := by
              intro q st' hq
              rw [hst'] at hq
              have hql : q < sb.st.length := by
                have := (List.getElem?_eq_some_iff.mp hq).1
                have h3 : (sb.flagged .ack 0 sb.recs.length).length = sb.recs.length := by
                  rw [← hst', hwf'.1.st_len, hrecs]
                have h4 := hsi.wf.1.st_len
                omega
              have hk : ∃ k : Nat, 0 ≤ k ∧ k < sb.recs.length ∧ (actList sb.st)[k]? = some q :=
                ⟨q, Nat.zero_le _, by rw [← hsi.wf.1.st_len]; exact hql, by rw [hact]; simp [hql]⟩
              rw [(getElem?_flagged sb .ack 0 sb.recs.length q).1 hk] at hq
              cases hs0 : sb.st[q]? with
              | none => rw [hs0] at hq; cases hq
              | some st =>
                rw [hs0] at hq
                have := Option.some.inj hq
                rw [← this]; rfl
            have hFr : FlightG C0 s pre pre True (destsL node.next) (restJ rest b (groupEnd b.st i)) (doomJ doom b (groupEnd b.st i))
                (nxJ sm nx (groupEnd b.st i)) { sb' with tainted := false } ((sm.drop i).take (groupEnd b.st i - i)) 0 :=
              hFs.reflag hrecs hfr.pos hfr.runs hfr.split hbi' hallr hnew
            have hFr' : FlightG C0 s pre pre True (destsS node) (restJ rest b (groupEnd b.st i)) (doomJ doom b (groupEnd b.st i))
                (nxJ sm nx (groupEnd b.st i)) { sb' with tainted := false } ((sm.drop i).take (groupEnd b.st i - i)) 0 := by
              rw [hsubeq]; exact hFr
            have haf'' : FlagsAF { sb' with tainted := false } := fun q st' hq => Or.inl (hnew q st' hq)
            obtain ⟨rs2, hvb2⟩ := hbi'.vb
            have hrs2 : rs2 = rss := by
              have := hvb2.runs
              rw [show ({ sb' with tainted := false } : Batch).runs = sb'.runs from rfl, hfr.runs, hvbs.runs] at this
              exact (Option.some.inj this).symm
            subst hrs2
            refine hseq _ ?_ (fun _ _ hx => log_mono_dta hx) h
            intro r1 s1 hx hrp1 hft1
            have := hP X C0 node pre _ { sb' with tainted := false } _ _ _ (some nxr) false s s1 r1 hg hpc hpath
              (fun hh => Bool.noConfusion hh) hFr' rfl haf'' hx hrp1 hft1
            refine this.congr_batch hview' ?_
            intro k row2 hr
            obtain ⟨row, g1, g2, _⟩ := rows_congr hvbs hvb2 hrecs hfr.pos hr
            exact ⟨row, g1, by rw [g2]⟩
          rw [exec_bind] at h
          rcases hsf : sb.setFlagRange Flag.ack 0 sb.recs.length with e | sb'
          · rw [hsf, exec_liftR_err] at h
            cases h
            exact OutG.fail hErr hW
          · rw [hsf, exec_liftR_ok] at h
            dsimp only at h
            cases retry with
            | none =>
              dsimp only at h
              by_cases c1 : 1 > maxRetryAttempts
              · simp only [c1, if_true, exec_throw_bind] at h
                cases h
                exact OutG.fail hErr hW
              · simp only [c1, if_false] at h
                exact hD sb' _ hsf h
            | some rt =>
              dsimp only at h
              by_cases c0 : (if sb'.recs.length ≥ rt.size then rt.stall + 1 else 0) ≥ maxRetryStall
              · simp only [c0, if_true, exec_throw_bind] at h
                cases h
                exact OutG.fail hErr hW
              · by_cases c1 : rt.count + 1 > maxRetryAttempts
                · simp only [c0, c1, if_true, if_false, exec_throw_bind] at h
                  cases h
                  exact OutG.fail hErr hW
                · simp only [c0, c1, if_false] at h
                  exact hD sb' _ hsf h

/-- the recursion, given the fan-out case -/
theorem pipeG_all {G : Ctx} (hs : Src G) (D : DepsG G) (Good : TaskNode → Prop) (P : ∀ X, MC G X → Prop)
    (hchild : ∀ node, Good node → node.next.length = 1 → ∀ n ∈ node.next, Good n)
    (hfan : ∀ fuel, (∀ f, f ≤ fuel → PipeG G Good P f) → FanG G Good P (fuel+1)) :
    ∀ fuel f : Nat, f ≤ fuel → PipeG G Good P f ∧ TaintG G Good P f ∧ NextG G Good P f := by
  intro fuel
  induction fuel with
  | zero =>
    intro f hf
    have : f = 0 := by omega
    subst this
    refine ⟨?_, ?_, ?_⟩
    · intro X C0 node pre nx b sm rest doom retry skipDo s s' r _ _ _ _ hF _ _ h _ _
      rw [doTaskAttempt] at h; cases h; exact OutG.fail (C0.w_err (C0.inv_w hF.inv)) hF.wseen
    · intro X C0 node pre nx b sm rest doom retry i s s' r _ _ _ hF h _ _
      rw [taintedLoop] at h; cases h; exact OutG.fail (C0.w_err (C0.inv_w hF.inv)) hF.wseen
    · intro X C0 node pre nx sb sm rest doom s s' r _ _ _ _ hF _ _ h _ _
      rw [doNextTask] at h; cases h; exact OutG.fail (C0.w_err (C0.inv_w hF.inv)) hF.wseen
  | succ n ih =>
    intro f hf
    by_cases hle : f ≤ n
    · exact ih f hle
    · have : f = n + 1 := by omega
      subst this
      obtain ⟨p, t, nx⟩ := ih n (Nat.le_refl _)
      exact ⟨dta_stepG D n nx t, taint_stepG hs D n p nx t,
        next_stepG hchild n p (hfan n (fun f hf => (ih f hf).1))⟩

end Conduit.Funnel
