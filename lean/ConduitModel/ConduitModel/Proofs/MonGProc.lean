import ConduitModel.Proofs.MonGDefs

/-!
# `ProcessorTask.Do` against an abstract handler contract, records may be split
-/
namespace Conduit.Funnel
open Conduit.Funnel.Mon

/-! Helper lemmas live in the namespace `GProc`; the list / `KidF` / `PMap` lemmas of `SProc`
(Proofs/MonSProc.lean) are reused. -/
namespace GProc
open SProc

/-- `SProc.sm_run_src` with the lineage of the one run only -/
theorem sm_run_src' {G : Ctx} {h : Heap} {b : Batch} {sm : List Nat} (hm : SrcMap G h b sm) (hs : Src G)
    {k q rid : Nat} {row : Row} {src : Rec}
    (hl : ∃ src ∈ G.all, keyR src = keyOf (h[rid]!).origPos ∧ Mon.root (h[rid]!).origRec = Mon.root src)
    (h1 : sm[k]? = some q) (h3 : b.rows[k]? = some row) (hr : row.run = some rid)
    (hsrc : G.all[q]? = some src) : Mon.root (h[rid]!).origRec = Mon.root src := by
  obtain ⟨src', hmem, hk, hroot⟩ := hl
  obtain ⟨q', hq'⟩ := List.getElem?_of_mem hmem
  obtain ⟨src2, g1, g2, _⟩ := hm.key k row q h3 h1
  rw [hsrc] at g1; cases g1
  rw [rowKey_run hr] at g2
  have := hs.idx_of_key hq' hsrc (by rw [hk, g2])
  subst this
  rw [hsrc] at hq'; cases hq'
  exact hroot

/-- the roots of the active records are roots of sources of the batch -/
theorem active_root {G : Ctx} {h : Heap} {b : Batch} {rs : List (Option Nat)} {sm : List Nat} (hwf : b.WF h) (hvb : VB b rs)
    (hm : SrcMap G h b sm) {a : Nat} {r : Rec} (ha : b.active[a]? = some r) : RootsOf G sm 0 (Mon.root r) := by
  obtain ⟨p, row, _, g2, g3, _⟩ := active_row hwf hvb ha
  obtain ⟨q, src, f1, f2, _, f4⟩ := sm_src hm g2
  exact ⟨p, q, src, Nat.zero_le _, f1, f2, by rw [← f4, g3]⟩

/-- `PStepT.ext` for an arbitrary set of roots containing the roots of the records of the call -/
theorem pstepT_ext {v v' : MV} {task : Nat} {recs : List Rec} {out : List PR} {R : Nat → Prop}
    (hp : PStepT v v' task recs out) (key : ∀ (k : Nat) (r : Rec), recs[k]? = some r → R (Mon.root r)) :
    ExtT [task] [] R v v' := by
  refine ⟨?_, ?_, ?_, ?_, ?_, ?_⟩ <;> intro x hx
  · rw [hp.fil]; exact List.mem_append_left _ hx
  · rw [hp.fil] at hx
    rcases List.mem_append.mp hx with h1 | h1
    · exact Or.inl h1
    · obtain ⟨k, r, o, h1, _, h3⟩ := mem_filteredBy h1
      rw [h3]; exact Or.inr (key k r h1)
  · rw [hp.err]; exact List.mem_append_left _ hx
  · rcases hp.mem_E hx with h1 | ⟨h1, h2⟩
    · exact Or.inl h1
    · obtain ⟨k, r, e, h3, _, h5⟩ := mem_erroredBy h2
      refine Or.inr ⟨by rw [h1]; exact List.mem_cons.mpr (Or.inl rfl), ?_⟩
      rw [h5]; exact key k r h3
  · rw [hp.wr]; exact hx
  · rw [hp.wr] at hx; exact Or.inl hx

/-- a root of the batch is not the root of a source below the first row's source -/
theorem roots_not_below {G : Ctx} (hs : Src G) {h : Heap} {b : Batch} {sm : List Nat} (hm : SrcMap G h b sm) {nx : Nat}
    {x : Nat} (hx : RootsOf G sm 0 x) {j : Nat} {src : Rec} (hj : j < nxJ sm nx 0) (hsrc : G.all[j]? = some src)
    (hroot : Mon.root src = x) : False := by
  obtain ⟨k, q, src0, _, h1, h2, h3⟩ := hx
  have hjq : j = q := hs.idx_of_root hsrc h2 (by rw [hroot, h3])
  have hk : k < sm.length := lt_of_get h1
  have h0 : sm[0]? = some sm[0] := List.getElem?_eq_getElem (by omega)
  have hle := sm_mono hm (Nat.zero_le k) h0 h1
  unfold nxJ at hj
  rw [h0] at hj
  simp only [Option.getD_some] at hj
  omega

/-- everything that is known when `procDo` has returned `b1` (`kids` = the kids of the rows of `b`) -/
structure PCG {G : Ctx} {X : Acker} (C0 : MC G X) (s s' : PS) (task : Nat) (pre sub : List Nat) (rest : Nat → Nat)
    (doom : Nat → Prop) (nx : Nat)
    (b : Batch) (sm : List Nat) (out : List PR) (b1 : Batch) (kids : List (List Row)) (rs rs1 : List (Option Nat)) : Prop where
  src : Src G
  fl : FlightG C0 s pre pre True sub rest doom nx b sm 0
  haf : FlagsAF b
  vb : VB b rs
  vb1 : VB b1 rs1
  pstep : PStepT (G.view s) (G.view s') task b.active out
  wr : (G.mu s').written = (G.mu s).written
  ok : pcallOK b.active out = true
  fresh : pcallFresh (Seen G s) b.active out = true
  seen : Seen G s' = Seen G s ++ outTags b.active out
  inv1 : C0.Inv (nxJ sm nx 0) s'
  pm : PMap s.heap s'.heap b b1 out kids
  ss : SStep s.heap b s'.heap b1 rest
  hold : ∀ rid : Nat, rid < s.heap.size →
    ∃ t : Nat, (s.heap[rid]!).total ≤ t ∧ s'.heap[rid]! = { (s.heap[rid]!) with total := t }
  split : ∀ e ∈ b1.split, e ∈ b.split ∨ ∃ row ∈ b.rows, row.run = none ∧ e = (keyOf row.pos, row.r)
  nosplit1 : NoSplitKey b1
  newrun : FreshRuns s.heap s'.heap b1
  taint : TaintC b → TaintC b1

namespace PCG
variable {G : Ctx} {X : Acker} {C0 : MC G X} {s s' : PS} {task : Nat} {pre sub : List Nat} {rest : Nat → Nat}
  {doom : Nat → Prop} {nx : Nat}
  {b : Batch} {sm : List Nat} {out : List PR} {b1 : Batch} {kids : List (List Row)} {rs rs1 : List (Option Nat)}

theorem wf (C : PCG C0 s s' task pre sub rest doom nx b sm out b1 kids rs rs1) : b.WF s.heap := C.fl.tinv.wf

theorem wf1 (C : PCG C0 s s' task pre sub rest doom nx b sm out b1 kids rs rs1) : b1.WF s'.heap := C.ss.inv.wf

theorem smlen (C : PCG C0 s s' task pre sub rest doom nx b sm out b1 kids rs rs1) : sm.length = b.rows.length :=
  C.fl.srcmap.len

/-- an existing run only has its total raised -/
theorem old_run (C : PCG C0 s s' task pre sub rest doom nx b sm out b1 kids rs rs1) {rid : Nat} (hlt : rid < s.heap.size) :
    (s'.heap[rid]!).origPos = (s.heap[rid]!).origPos ∧ (s'.heap[rid]!).origRec = (s.heap[rid]!).origRec ∧
    (s'.heap[rid]!).terminal = (s.heap[rid]!).terminal ∧ (s'.heap[rid]!).nacked = (s.heap[rid]!).nacked := by
  obtain ⟨t, _, ht⟩ := C.hold rid hlt
  rw [ht]
  exact ⟨rfl, rfl, rfl, rfl⟩

theorem dec (C : PCG C0 s s' task pre sub rest doom nx b sm out b1 kids rs rs1) {k : Nat} {row' : Row}
    (hk : b1.rows[k]? = some row') :
    ∃ (p j : Nat) (row : Row) (ks : List Row) (q : Nat), b.rows[p]? = some row ∧ kids[p]? = some ks ∧ ks[j]? = some row' ∧
      k = off (kids.map List.length) p + j ∧ sm[p]? = some q ∧ (smOf kids sm)[k]? = some q ∧
      KidF s.heap s'.heap b out b1.split p row ks :=
  C.pm.decode C.smlen hk

theorem row1 (C : PCG C0 s s' task pre sub rest doom nx b sm out b1 kids rs rs1) {k q : Nat}
    (hq : (smOf kids sm)[k]? = some q) : ∃ row', b1.rows[k]? = some row' := by
  have := lt_of_get hq
  rw [smOf_length, ← C.pm.flat] at this
  exact ⟨_, List.getElem?_eq_getElem this⟩

/-- the key the ledger forwards for a kid is the parent's -/
theorem kid_key (C : PCG C0 s s' task pre sub rest doom nx b sm out b1 kids rs rs1) {p : Nat} {row row' : Row} {ks : List Row}
    (hp : b.rows[p]? = some row) (hk : KidF s.heap s'.heap b out b1.split p row ks) (hm : row' ∈ ks) :
    rowKey s'.heap row' = rowKey s.heap row := by
  rcases hk.run row' hm with h1 | ⟨rid, h1, h2, _, _, _, h6, _⟩
  · cases hr : row.run with
    | none =>
      rw [hr] at h1
      rw [rowKey_none h1, rowKey_none hr, hk.pos row' hm h1]
    | some rid =>
      rw [hr] at h1
      rw [rowKey_run h1, rowKey_run hr, (C.old_run (row_run_lt C.wf C.vb hp hr)).1]
  · rw [rowKey_run h1, rowKey_none h2, h6]

/-- the new source map -/
theorem srcmap1 (C : PCG C0 s s' task pre sub rest doom nx b sm out b1 kids rs rs1) :
    SrcMap G s'.heap b1 (smOf kids sm) := by
  have hm := C.fl.srcmap
  refine ⟨by rw [smOf_length, C.pm.flat], ?_, ?_, ?_⟩
  · intro k q q' h1 h2
    obtain ⟨row', hk⟩ := C.row1 h1
    obtain ⟨row'', hk1⟩ := C.row1 h2
    obtain ⟨p, j, row, ks, q0, a1, a2, a3, a4, a5, a6, a7⟩ := C.dec hk
    obtain ⟨p', j', rowp, ks', q1, c1, c2, c3, c4, c5, c6, c7⟩ := C.dec hk1
    rw [h1] at a6; cases a6
    rw [h2] at c6; cases c6
    rcases C.pm.adj a2 c2 (lt_of_get a3) (lt_of_get c3) (by omega) with ⟨e1, _⟩ | ⟨e1, _, _⟩
    · subst e1; rw [a5] at c5; cases c5; exact Or.inl rfl
    · subst e1; exact hm.step p q q' a5 c5
  · intro k row' q hk hq
    obtain ⟨p, j, row, ks, q0, a1, a2, a3, a4, a5, a6, a7⟩ := C.dec hk
    rw [hq] at a6; cases a6
    obtain ⟨src, g1, g2, g3⟩ := hm.key p row q a1 a5
    have hmem := List.mem_of_getElem? a3
    exact ⟨src, g1, by rw [C.kid_key a1 a7 hmem]; exact g2,
      by rw [a7.root C.wf C.vb a1 C.ok hmem]; exact g3⟩
  · intro k row' row'' q hk hk1 hq hq1
    obtain ⟨p, j, row, ks, q0, a1, a2, a3, a4, a5, a6, a7⟩ := C.dec hk
    obtain ⟨p', j', rowp, ks', q1, c1, c2, c3, c4, c5, c6, c7⟩ := C.dec hk1
    rw [hq] at a6; cases a6
    rw [hq1] at c6; cases c6
    rcases C.pm.adj a2 c2 (lt_of_get a3) (lt_of_get c3) (by omega) with ⟨e1, e2⟩ | ⟨e1, _, _⟩
    · subst e1
      rw [a2] at c2; cases c2
      have hl := lt_of_get c3
      obtain ⟨rid, hr⟩ := a7.runs_same (by omega)
      exact ⟨rid, hr _ (List.mem_of_getElem? a3), hr _ (List.mem_of_getElem? c3)⟩
    · subst e1
      obtain ⟨rid, r1, r2⟩ := hm.same p row rowp q a1 c1 a5 c5
      exact ⟨rid, a7.keep (List.mem_of_getElem? a3) r1, c7.keep (List.mem_of_getElem? c3) r2⟩

/-- the last row of the new batch is a kid of the last row of the old one -/
theorem last_kid (C : PCG C0 s s' task pre sub rest doom nx b sm out b1 kids rs rs1) {row' : Row}
    (h : b1.rows.getLast? = some row') :
    ∃ (p : Nat) (row : Row) (ks : List Row) (q : Nat), b.rows.getLast? = some row ∧ b.rows[p]? = some row ∧ row' ∈ ks ∧
      sm.getLast? = some q ∧ (smOf kids sm).getLast? = some q ∧ KidF s.heap s'.heap b out b1.split p row ks := by
  rw [List.getLast?_eq_getElem?] at h
  obtain ⟨p, j, row, ks, q, a1, a2, a3, a4, a5, a6, a7⟩ := C.dec h
  have hp := C.pm.last a2 (lt_of_get a3) a4
  refine ⟨p, row, ks, q, ?_, a1, List.mem_of_getElem? a3, ?_, ?_, a7⟩
  · rw [List.getLast?_eq_getElem?, ← hp]; exact a1
  · rw [List.getLast?_eq_getElem?, C.smlen, ← hp]; exact a5
  · rw [List.getLast?_eq_getElem?, smOf_length, ← C.pm.flat]; exact a6

theorem nextok1 (C : PCG C0 s s' task pre sub rest doom nx b sm out b1 kids rs rs1) : NextOK rest b1 (smOf kids sm) nx := by
  intro row' q hl hq
  obtain ⟨p, row, ks, q', g1, g2, g3, g4, g5, g6⟩ := C.last_kid hl
  rw [hq] at g5; cases g5
  rcases C.fl.nextok row q g1 g4 with ⟨e1, rid, e2, e3⟩ | ⟨e1, e2⟩
  · exact Or.inl ⟨e1, rid, g6.keep g3 e2, e3⟩
  · refine Or.inr ⟨e1, ?_⟩
    intro rid hr
    by_cases hlt : rid < s.heap.size
    · exact e2 rid (g6.old g3 hr hlt)
    · exact C.fl.tinv.restok rid (by omega)

theorem restlast1 (C : PCG C0 s s' task pre sub rest doom nx b sm out b1 kids rs rs1) : RestLast rest b1 := by
  intro rid hrest hcnt
  have hlt : rid < s.heap.size := by
    apply Classical.byContradiction
    intro hge
    have := C.fl.tinv.restok rid (by omega)
    omega
  obtain ⟨k, row', hk, hr⟩ := row_of_cnt_pos C.vb1 hcnt
  obtain ⟨p, j, row, ks, q, a1, a2, a3, a4, a5, a6, a7⟩ := C.dec hk
  have hrow := a7.old (List.mem_of_getElem? a3) hr hlt
  obtain ⟨rowL, hL, hLr⟩ := C.fl.restlast rid hrest (cnt_pos_of_row C.vb a1 hrow)
  have hne : b1.rows.length - 1 < b1.rows.length := by have := lt_of_get hk; omega
  have hl1 : b1.rows.getLast? = some b1.rows[b1.rows.length - 1] := by
    rw [List.getLast?_eq_getElem?]; exact List.getElem?_eq_getElem hne
  obtain ⟨pL, rowL', ksL, qL, g1, g2, g3, g4, g5, g6⟩ := C.last_kid hl1
  rw [hL] at g1; cases g1
  exact ⟨_, hl1, g6.keep g3 hLr⟩

theorem splitlin1 (C : PCG C0 s s' task pre sub rest doom nx b sm out b1 kids rs rs1) : SplitLin G b1 := by
  intro e he src hsrc hkey
  rcases C.split e he with h1 | ⟨row, hrow, hrun, rfl⟩
  · exact C.fl.splitlin e h1 src hsrc hkey
  · obtain ⟨p, hp⟩ := List.getElem?_of_mem hrow
    obtain ⟨q, src', g1, g2, g3, g4⟩ := sm_src C.fl.srcmap hp
    rw [rowKey_none hrun] at g3
    obtain ⟨i, hi⟩ := List.getElem?_of_mem hsrc
    have : i = q := C.src.idx_of_key hi g2 (by rw [hkey]; exact g3)
    subst this
    rw [hi] at g2; cases g2
    exact g4

/-- a live run of the new batch that existed before the call was live -/
theorem live_old (C : PCG C0 s s' task pre sub rest doom nx b sm out b1 kids rs rs1) {rid : Nat} (hlt : rid < s.heap.size)
    (hl : LiveRun rest b1 0 rid) : LiveRun rest b 0 rid := by
  unfold LiveRun at hl ⊢
  rw [List.drop_zero] at hl ⊢
  rcases hl with h | h
  · left
    obtain ⟨k, row', hk, hr⟩ := row_of_cnt_pos C.vb1 h
    obtain ⟨p, j, row, ks, q, a1, a2, a3, a4, a5, a6, a7⟩ := C.dec hk
    exact cnt_pos_of_row C.vb a1 (a7.old (List.mem_of_getElem? a3) hr hlt)
  · exact Or.inr h

/-- a live run allocated by the call has a piece in the new batch -/
theorem live_new (C : PCG C0 s s' task pre sub rest doom nx b sm out b1 kids rs rs1) {rid : Nat} (hge : s.heap.size ≤ rid)
    (hl : LiveRun rest b1 0 rid) : 0 < cnt rid b1.view := by
  unfold LiveRun at hl
  rw [List.drop_zero] at hl
  rcases hl with h | h
  · exact h
  · have := C.fl.tinv.restok rid hge
    omega

theorem hlin1 (C : PCG C0 s s' task pre sub rest doom nx b sm out b1 kids rs rs1) : HLinG G s'.heap rest b1 0 := by
  intro rid hl
  by_cases hold : rid < s.heap.size
  · obtain ⟨src, h1, h2, h3⟩ := C.fl.hlin rid (C.live_old hold hl)
    obtain ⟨e1, e2, _⟩ := C.old_run hold
    exact ⟨src, h1, by rw [e1]; exact h2, by rw [e2]; exact h3⟩
  · obtain ⟨k, row', hk, hr⟩ := row_of_cnt_pos C.vb1 (C.live_new (by omega) hl)
    obtain ⟨p, j, row, ks, q, a1, a2, a3, a4, a5, a6, a7⟩ := C.dec hk
    obtain ⟨hrun, _, _, _, hop, hor, _⟩ := a7.new C.wf C.vb a1 (List.mem_of_getElem? a3) hr (by omega)
    obtain ⟨q', src, g1, g2, g3, g4⟩ := sm_src C.fl.srcmap a1
    rw [rowKey_none hrun] at g3
    have hmem : src ∈ G.all := List.mem_of_getElem? g2
    refine ⟨src, hmem, by rw [hop]; exact g3.symm, ?_⟩
    rcases hor with h1 | ⟨e, he, h1, h2⟩
    · rw [h1]; exact g4
    · rw [h2]; exact C.splitlin1 e he src hmem (by rw [h1]; exact g3.symm)

theorem cover_mono (C : PCG C0 s s' task pre sub rest doom nx b sm out b1 kids rs rs1) {D : List Nat} {ρ : Nat}
    (h : Cover (G.view s) D ρ) : Cover (G.view s') D ρ := by
  intro d hd
  rcases h d hd with h1 | h1
  · exact Or.inl (C.pstep.written h1)
  · exact Or.inr (by rw [C.pstep.fil]; exact List.mem_append_left _ h1)

theorem htouch1 (C : PCG C0 s s' task pre sub rest doom nx b sm out b1 kids rs rs1) :
    HTouchG (G.view s') C0.D s'.heap rest b1 0 := by
  intro rid hl hterm hnack
  by_cases hold : rid < s.heap.size
  · obtain ⟨_, e2, e3, e4⟩ := C.old_run hold
    rw [e3] at hterm
    rw [e4] at hnack
    rw [e2]
    exact C.cover_mono (C.fl.htouch rid (C.live_old hold hl) hterm hnack)
  · obtain ⟨k, row', hk, hr⟩ := row_of_cnt_pos C.vb1 (C.live_new (by omega) hl)
    obtain ⟨p, j, row, ks, q, a1, a2, a3, a4, a5, a6, a7⟩ := C.dec hk
    obtain ⟨_, _, _, _, _, _, _, ht⟩ := a7.new C.wf C.vb a1 (List.mem_of_getElem? a3) hr (by omega)
    omega

/-- a live run of the new batch with a nack vote has a vote -/
theorem nackt1 (C : PCG C0 s s' task pre sub rest doom nx b sm out b1 kids rs rs1) :
    NackT s'.heap rest b1 0 := by
  intro rid hl hnack
  by_cases hold : rid < s.heap.size
  · obtain ⟨_, _, e3, e4⟩ := C.old_run hold
    rw [e4] at hnack
    rw [e3]
    exact C.fl.nackt rid (C.live_old hold hl) hnack
  · obtain ⟨k, row', hk, hr⟩ := row_of_cnt_pos C.vb1 (C.live_new (by omega) hl)
    obtain ⟨p, j, row, ks, q, a1, a2, a3, a4, a5, a6, a7⟩ := C.dec hk
    obtain ⟨_, _, _, _, _, _, hn, _⟩ := a7.new C.wf C.vb a1 (List.mem_of_getElem? a3) hr (by omega)
    rw [hn] at hnack
    cases hnack

theorem row_af (C : PCG C0 s s' task pre sub rest doom nx b sm out b1 kids rs rs1) {p : Nat} {row : Row}
    (hp : b.rows[p]? = some row) : row.st.flag = .ack ∨ row.st.flag = .filter :=
  C.haf p row.st (rows_fields C.vb hp).2.1

/-- a root errored by the call is the root of the source of an active row answered by `.error` -/
theorem err_row (C : PCG C0 s s' task pre sub rest doom nx b sm out b1 kids rs rs1) {ρ : Nat}
    (h : ρ ∈ erroredBy b.active out) :
    ∃ (a pe : Nat) (e : Option Err) (rowe : Row) (qe : Nat) (srce : Rec), (actList b.st)[a]? = some pe ∧
      out[a]? = some (.error e) ∧ b.rows[pe]? = some rowe ∧ sm[pe]? = some qe ∧ G.all[qe]? = some srce ∧
      Mon.root srce = ρ := by
  obtain ⟨a, r, e, h1, h2, h3⟩ := mem_erroredBy h
  obtain ⟨pe, rowe, g1, g2, g3, _⟩ := active_row C.wf C.vb h1
  obtain ⟨qe, srce, f1, f2, _, f4⟩ := sm_src C.fl.srcmap g2
  exact ⟨a, pe, e, rowe, qe, srce, g1, h2, g2, f1, f2, by rw [h3, ← g3, f4]⟩

/-- `CleanT` survives the call for a root the call did not error -/
theorem clean_keep (C : PCG C0 s s' task pre sub rest doom nx b sm out b1 kids rs rs1) {T D : List Nat} {ρ : Nat}
    (hc : CleanT (G.view s) T D ρ) (hne : ρ ∉ erroredBy b.active out) : CleanT (G.view s') T D ρ :=
  C.pstep.clean hc (fun _ ht => Or.inl ht) hne

theorem ci1 (C : PCG C0 s s' task pre sub rest doom nx b sm out b1 kids rs rs1) :
    CIG (G.view s') C0.T C0.D s'.heap doom b1 0 := by
  intro rid hcnt hnc
  have hlive : LiveRun rest b1 0 rid := Or.inl hcnt
  rw [List.drop_zero] at hcnt
  obtain ⟨k, row', hk, hr⟩ := row_of_cnt_pos C.vb1 hcnt
  obtain ⟨p, j, row, ks, q, a1, a2, a3, a4, a5, a6, a7⟩ := C.dec hk
  have hmem := List.mem_of_getElem? a3
  obtain ⟨src, g1, _, _⟩ := C.srcmap1.key k row' q hk a6
  have hρ : Mon.root (s'.heap[rid]!).origRec = Mon.root src :=
    sm_run_src' C.srcmap1 C.src (C.hlin1 rid hlive) a6 hk hr g1
  rw [hρ] at hnc
  by_cases herr : Mon.root src ∈ erroredBy b.active out
  · obtain ⟨a, pe, e, rowe, qe, srce, e1, e2, e3, e4, e5, e6⟩ := C.err_row herr
    have : qe = q := C.src.idx_of_root e5 g1 e6
    subst this
    by_cases hpe : pe = p
    · subst hpe
      exact Or.inr (Or.inr ⟨k, row', Nat.zero_le _, hk, hr, (a7.err a e e1 e2 row' hmem).1⟩)
    · obtain ⟨rid0, r1, r2⟩ := sm_same_run C.fl.srcmap hpe e4 a5 e3 a1
      have := a7.keep hmem r2
      rw [hr] at this; cases this
      obtain ⟨kse, f1, f2⟩ := C.pm.kid pe rowe e3
      have hne : 0 < kse.length := by
        cases kse with
        | nil => exact absurd rfl f2.ne
        | cons _ _ => simp
      have hk0 : kse[0]? = some kse[0] := List.getElem?_eq_getElem hne
      obtain ⟨n1, n2⟩ := f2.err a e e1 e2 _ (List.mem_of_getElem? hk0)
      exact Or.inr (Or.inr ⟨_, _, Nat.zero_le _, C.pm.encode f1 hk0, by rw [n2]; exact r1, n1⟩)
  · have hnc0 : ¬ CleanT (G.view s) C0.T C0.D (Mon.root src) := fun hc => hnc (C.clean_keep hc herr)
    by_cases hlt : rid < s.heap.size
    · have hrow := a7.old hmem hr hlt
      obtain ⟨_, e2, _, e4⟩ := C.old_run hlt
      rw [← hρ, e2] at hnc0
      rcases C.fl.ci rid (by rw [List.drop_zero]; exact cnt_pos_of_row C.vb a1 hrow) hnc0 with h1 | h1 | ⟨k2, row2, _, h2, _, h4⟩
      · exact Or.inl (by rw [e4]; exact h1)
      · exact Or.inr (Or.inl h1)
      · rcases C.row_af h2 with h5 | h5 <;> rw [h4] at h5 <;> cases h5
    · obtain ⟨hrn, _⟩ := a7.new C.wf C.vb a1 hmem hr (by omega)
      have hfl : row.st.flag ≠ .nack := by
        intro h4
        rcases C.row_af a1 with h5 | h5 <;> rw [h4] at h5 <;> cases h5
      exact absurd (C.fl.facts.clean p row q src (Nat.zero_le _) a1 a5 g1 hrn hfl) hnc0

theorem reach_mono (C : PCG C0 s s' task pre sub rest doom nx b sm out b1 kids rs rs1) {ρ : Nat}
    (h : Reach (G.view s).μ pre ρ) : Reach (G.view s').μ pre ρ := by
  intro d hd
  exact C.pstep.written (h d hd)

/-- a kid that is not filtered has a parent flagged `ack` -/
theorem parent_ack (C : PCG C0 s s' task pre sub rest doom nx b sm out b1 kids rs rs1) {p : Nat} {row row' : Row}
    {ks : List Row}
    (hp : b.rows[p]? = some row) (hk : KidF s.heap s'.heap b out b1.split p row ks) (hm : row' ∈ ks)
    (hf : row'.st.flag ≠ .filter) : row.st.flag = .ack :=
  (C.row_af hp).resolve_right (hk.flag1 row' hm hf)

theorem facts1 (C : PCG C0 s s' task pre sub rest doom nx b sm out b1 kids rs rs1) :
    FactsG G (G.view s') C0.T C0.D pre pre True b1 (smOf kids sm) 0 := by
  refine ⟨?_, ?_, ?_, ?_⟩
  · intro k row' q src _ hk hq hsrc hflag
    obtain ⟨p, j, row, ks, q0, a1, a2, a3, a4, a5, a6, a7⟩ := C.dec hk
    rw [hq] at a6; cases a6
    have hack := C.parent_ack a1 a7 (List.mem_of_getElem? a3) (by rw [hflag]; intro hh; cases hh)
    exact C.reach_mono (C.fl.facts.ack p row q src (Nat.zero_le _) a1 a5 hsrc hack)
  · intro k row' q src _ hk hq hsrc hflag
    obtain ⟨p, j, row, ks, q0, a1, a2, a3, a4, a5, a6, a7⟩ := C.dec hk
    rw [hq] at a6; cases a6
    rw [C.pstep.fil]
    rcases a7.flag2 row' (List.mem_of_getElem? a3) hflag with h1 | ⟨a, o, ha, ho, hoo⟩
    · exact List.mem_append_left _ (C.fl.facts.fil p row q src (Nat.zero_le _) a1 a5 hsrc h1)
    · obtain ⟨src', g1, _, g3⟩ := C.fl.srcmap.key p row q a1 a5
      rw [hsrc] at g1; cases g1
      rw [← g3]
      exact List.mem_append_right _ (filteredBy_mem (act_row C.wf C.vb ha a1).1 ho hoo)
  · intro k row' q src _ hk hq hsrc hflag
    obtain ⟨p, j, row, ks, q0, a1, a2, a3, a4, a5, a6, a7⟩ := C.dec hk
    rw [hq] at a6; cases a6
    have hack := C.parent_ack a1 a7 (List.mem_of_getElem? a3) (by rw [hflag]; intro hh; cases hh)
    exact ⟨C.reach_mono (C.fl.facts.ack p row q src (Nat.zero_le _) a1 a5 hsrc hack), trivial⟩
  · intro k row' q src _ hk hq hsrc hrun hflag
    obtain ⟨p, j, row, ks, q0, a1, a2, a3, a4, a5, a6, a7⟩ := C.dec hk
    rw [hq] at a6; cases a6
    have hmem := List.mem_of_getElem? a3
    obtain ⟨hrn, _⟩ := a7.none hmem hrun
    have hfl : row.st.flag ≠ .nack := by
      intro h4
      rcases C.row_af a1 with h5 | h5 <;> rw [h4] at h5 <;> cases h5
    refine C.clean_keep (C.fl.facts.clean p row q src (Nat.zero_le _) a1 a5 hsrc hrn hfl) ?_
    intro herr
    obtain ⟨a, pe, e, rowe, qe, srce, e1, e2, e3, e4, e5, e6⟩ := C.err_row herr
    have : qe = q := C.src.idx_of_root e5 hsrc e6
    subst this
    have := sm_own_src C.fl.srcmap hrn a5 e4 a1
    subst this
    exact hflag (a7.err a e e1 e2 row' hmem).1

theorem tags1 (C : PCG C0 s s' task pre sub rest doom nx b sm out b1 kids rs rs1) : TagsF G s' sub b1 0 := by
  obtain ⟨_, hnd, hnew⟩ := fresh_unpack C.fresh
  refine ⟨?_, ?_, ?_⟩
  · apply List.pairwise_iff_getElem.mpr
    intro i j hi hj hij
    rw [List.length_map] at hi hj
    rw [List.getElem_map, List.getElem_map]
    obtain ⟨p, j1, row, ks, q, a1, a2, a3, a4, a5, a6, a7⟩ := C.dec (List.getElem?_eq_getElem hi)
    obtain ⟨p', j2, rowp, ks', q', c1, c2, c3, c4, c5, c6, c7⟩ := C.dec (List.getElem?_eq_getElem hj)
    generalize b1.rows[i] = x at a3 ⊢
    generalize b1.rows[j] = y at c3 ⊢
    by_cases hpp : p = p'
    · subst hpp
      rw [a2] at c2; cases c2
      have hne : j1 ≠ j2 := by omega
      have hn := a7.tags_nodup C.wf C.vb a1 C.fresh
      exact nodup_get_ne hn (by rw [List.getElem?_map, a3]; rfl) (by rw [List.getElem?_map, c3]; rfl) hne
    · have hold : row.r.tag ≠ rowp.r.tag :=
        nodup_get_ne C.fl.tags.nodup (by rw [List.getElem?_map, a1]; rfl) (by rw [List.getElem?_map, c1]; rfl) hpp
      have hs1 := C.fl.tags.seen p row (Nat.zero_le _) a1
      have hs2 := C.fl.tags.seen p' rowp (Nat.zero_le _) c1
      rcases a7.tag C.wf C.vb a1 (List.mem_of_getElem? a3) with t1 | ⟨a, x1, t1, t2, t3, _⟩ <;>
      rcases c7.tag C.wf C.vb c1 (List.mem_of_getElem? c3) with u1 | ⟨a', x2, u1, u2, u3, _⟩
      · rw [t1, u1]; exact hold
      · rw [t1]; intro he
        exact hnew _ (mem_newTags u2 u3) (by rw [← he]; exact hs1)
      · rw [u1]; intro he
        exact hnew _ (mem_newTags t2 t3) (by rw [he]; exact hs2)
      · intro he
        have hne : a ≠ a' := by
          intro h; subst h
          rw [t1] at u1; cases u1; exact hpp rfl
        rw [newTags_eq] at hnd
        exact flatMap_disj hnd t2 u2 hne t3 (by rw [he]; exact u3)
  · intro k row' _ hk
    obtain ⟨p, j, row, ks, q, a1, a2, a3, a4, a5, a6, a7⟩ := C.dec hk
    rw [C.seen]
    rcases a7.tag C.wf C.vb a1 (List.mem_of_getElem? a3) with t1 | ⟨a, x1, _, _, _, t4⟩
    · rw [t1]; exact List.mem_append_left _ (C.fl.tags.seen p row (Nat.zero_le _) a1)
    · exact List.mem_append_right _ t4
  · intro k row' _ hk hflag
    obtain ⟨p, j, row, ks, q, a1, a2, a3, a4, a5, a6, a7⟩ := C.dec hk
    have hmem := List.mem_of_getElem? a3
    intro e he hsub
    rw [C.wr] at he
    rcases a7.tag C.wf C.vb a1 hmem with t1 | ⟨a, x1, _, t2, t3, _⟩
    · rw [t1]
      have hack := C.parent_ack a1 a7 hmem (by rcases hflag with h | h <;> rw [h] <;> intro hh <;> cases hh)
      exact C.fl.tags.unw p row (Nat.zero_le _) a1 (Or.inl hack) e he hsub
    · intro heq
      exact hnew _ (mem_newTags t2 t3) (by rw [← heq]; exact C.fl.wseen e he)

theorem flagsAF1 (C : PCG C0 s s' task pre sub rest doom nx b sm out b1 kids rs rs1) (ht : b1.tainted = false) :
    FlagsAF b1 := by
  have hb : TaintC b := by
    intro st hst hf
    obtain ⟨q, hq⟩ := List.getElem?_of_mem hst
    rcases C.haf q st hq with h | h <;> rcases hf with h' | h' <;> rw [h] at h' <;> cases h'
  have h1 := C.taint hb
  intro q st hst
  have := h1 st (List.mem_of_getElem? hst)
  rw [ht] at this
  cases hf : st.flag with
  | ack => exact Or.inl rfl
  | filter => exact Or.inr rfl
  | nack => exact absurd (this (Or.inl hf)) (by simp)
  | retry => exact absurd (this (Or.inr hf)) (by simp)

/-- the first kid of row 0 has the source of row 0 -/
theorem first1 (C : PCG C0 s s' task pre sub rest doom nx b sm out b1 kids rs rs1) : (smOf kids sm)[0]? = sm[0]? := by
  cases hq : (smOf kids sm)[0]? with
  | some q =>
    obtain ⟨row', hk⟩ := C.row1 hq
    obtain ⟨p, j, row, ks, q0, a1, a2, a3, a4, a5, a6, a7⟩ := C.dec hk
    rw [hq] at a6; cases a6
    obtain ⟨hp0, _⟩ := C.pm.first a4 (lt_of_get a2)
    subst hp0
    exact a5.symm
  | none =>
    have h0 : (smOf kids sm).length = 0 := by
      have := List.getElem?_eq_none_iff.mp hq
      omega
    rw [smOf_length, List.length_flatten, sum_eq_zero_iff C.pm.lens_pos, List.length_map, C.pm.len, ← C.smlen] at h0
    exact (List.getElem?_eq_none_iff.mpr (by omega)).symm

theorem nxJ1 (C : PCG C0 s s' task pre sub rest doom nx b sm out b1 kids rs rs1) :
    nxJ (smOf kids sm) nx 0 = nxJ sm nx 0 := by
  unfold nxJ; rw [C.first1]

theorem steprel (C : PCG C0 s s' task pre sub rest doom nx b sm out b1 kids rs rs1) :
    StepRelG G s b sm s' b1 (smOf kids sm) := by
  refine ⟨?_, ?_, C.first1, ?_, ?_, ?_, C.ss.hsize, C.ss.hframe, ?_, C.ss.mono⟩
  · rintro ρ ⟨k, q, src, _, h1, h2, h3⟩
    obtain ⟨row', hk⟩ := C.row1 h1
    obtain ⟨p, j, row, ks, q0, a1, a2, a3, a4, a5, a6, a7⟩ := C.dec hk
    rw [h1] at a6; cases a6
    exact ⟨p, q, src, Nat.zero_le _, a5, h2, h3⟩
  · rw [smOf_length, List.length_flatten, sum_eq_zero_iff C.pm.lens_pos, List.length_map, C.pm.len, C.smlen]
  · intro row' hm
    obtain ⟨k, hk⟩ := List.getElem?_of_mem hm
    obtain ⟨p, j, row, ks, q, a1, a2, a3, a4, a5, a6, a7⟩ := C.dec hk
    rcases a7.tag C.wf C.vb a1 (List.mem_of_getElem? a3) with t1 | ⟨a, x1, _, t2, t3, _⟩
    · exact Or.inl ⟨row, List.mem_of_getElem? a1, t1.symm⟩
    · exact Or.inr ((fresh_unpack C.fresh).2.2 _ (mem_newTags t2 t3))
  · intro e he
    rw [C.wr] at he; exact Or.inl he
  · intro x hx
    rw [C.seen]; exact List.mem_append_left _ hx
  · intro rid hlt
    obtain ⟨e1, e2, _⟩ := C.old_run hlt
    exact ⟨e1, e2⟩

theorem flight1 (C : PCG C0 s s' task pre sub rest doom nx b sm out b1 kids rs rs1) :
    FlightG C0 s' pre pre True sub rest doom nx b1 (smOf kids sm) 0 where
  inv := by rw [C.nxJ1]; exact C.inv1
  wseen := by
    intro e he
    rw [C.wr] at he
    rw [C.seen]; exact List.mem_append_left _ (C.fl.wseen e he)
  tinv := C.ss.inv.tinv
  srcmap := C.srcmap1
  nextok := C.nextok1
  restlast := C.restlast1
  hdoom := C.fl.hdoom
  hlin := C.hlin1
  htouch := C.htouch1
  nackt := C.nackt1
  ci := C.ci1
  splitlin := C.splitlin1
  nosplit := C.nosplit1
  facts := C.facts1
  tags := C.tags1
  below := by
    intro e he hsub
    rw [C.wr] at he
    rw [C.nxJ1]; exact C.fl.below e he hsub

end PCG

end GProc

/-- `procDo_monS` (Proofs/MonSProc.lean) for a batch in flight under an arbitrary handler chain
`runAckNacker(X)`, `C0 : MC G X`. Whatever the result: the base invariant holds, every written tag
has been seen, the step is a `QStep` of `task` about roots of the batch, and the contract's
invariant is kept. When a batch is returned it is in flight again (source map `sm1`). -/
theorem procDo_monG (hE : ProcEffStmt) {G : Ctx} (hs : Src G) {X : Acker} (C0 : MC G X) {s s' : PS}
    {r : Except Stop Batch} {b : Batch} {task : Nat}
    {pre sub : List Nat} {rest : Nat → Nat} {doom : Nat → Prop} {nx : Nat} {sm : List Nat}
    (hF : FlightG C0 s pre pre True sub rest doom nx b sm 0)
    (hcl : b.tainted = false) (haf : FlagsAF b)
    (hbelow : task ∈ C0.Below) (hinT : task ∈ tasksS G.tree)
    (h : exec (procDo task b) s = (r, s')) (hrp : RP G s') (hft : FT G s') :
    Base G s' ∧ WSeen G s' ∧ QStep G task false (RootsOf G sm 0) s s' ∧ C0.Inv (nxJ sm nx 0) s' ∧
    ∀ b1, r = .ok b1 →
      ∃ sm1, FlightG C0 s' pre pre True sub rest doom nx b1 sm1 0 ∧ StepRelG G s b sm s' b1 sm1 ∧
        (b1.tainted = false → FlagsAF b1) := by
  have _ := hcl
  have hB : Base G s := C0.base hF.inv
  have hsinv : SInv s.heap rest b := SProc.tinv_sinv hF.tinv
  obtain ⟨_, hss⟩ := procDo_sspec task b s s' r rest hsinv h
  obtain ⟨hp, h1, h2⟩ := procDo_shape task b s
  rw [h1] at h
  obtain ⟨hr, hs'⟩ := Prod.mk.inj h
  have hlog : s'.log = s.log.push (.pcall task b.active) := by rw [← hs']
  have hscr : s'.scripts = popScripts s.scripts task := by rw [← hs']
  have hmas : s'.mas = s.mas := by rw [← hs']
  have hwin : s'.win = s.win := by rw [← hs']
  have hthr : s'.thr = s.thr := by rw [← hs']
  have hsize : s'.size = s.size := by rw [← hs']
  have hdlq : s'.dlqTask = s.dlqTask := by rw [← hs']
  have hheap : s'.heap = hp := by rw [← hs']
  have hmu : G.mu s' = pcallT G.scripts (G.mu s) task b.active := mu_push G s s' _ hlog
  rw [pcallT_eq] at hmu
  have hEr : G.errT s' = G.errT s ++
      (erroredBy b.active (procOut (replyOfCall G.scripts task (callNoL (G.mu s).calls task)))).map
        (fun x => (task, x)) := errT_push G s s' _ hlog
  have hok := hrp.pcall task b.active hlog
  have hfr := hft.pcall task b.active hlog
  have hseen := Seen.push_pcall (G := G) task b.active hlog
  rw [hB.sc.nextReply] at hr h2
  generalize procOut (replyOfCall G.scripts task (callNoL (G.mu s).calls task)) = out at hmu hEr hok hfr hseen hr h2
  have hfil : (G.mu s').filtered = (G.mu s).filtered ++ filteredBy b.active out := by rw [hmu]
  have hwr : (G.mu s').written = (G.mu s).written := by rw [hmu]
  have hany : (G.mu s').dlqAny = (G.mu s).dlqAny := by rw [hmu]
  have hdok : (G.mu s').dlqOk = (G.mu s).dlqOk := by rw [hmu]
  have hstep : PStepT (G.view s) (G.view s') task b.active out := ⟨hfil, hEr, hwr⟩
  obtain ⟨rs, hvb⟩ := hsinv.vb
  -- the unconditional part
  have hBase' : Base G s' := by
    refine ⟨by rw [hmu]; exact hB.safe, hB.sc.event (.pcall task b.active) task rfl hlog hscr, ?_, ?_, ?_,
      fun hg => by rw [hscr]; exact (hB.ns hg).pop task⟩
    · intro e he
      rw [hwr] at he
      exact hB.wr e he
    · intro x hx
      rcases hstep.mem_E hx with h3 | ⟨h3, _⟩
      · exact hB.errIn x h3
      · rw [h3]; exact hinT
    · intro e he
      rw [hwr] at he
      exact hB.wrIn e he
  have hQ : QStep G task false (RootsOf G sm 0) s s' :=
    ⟨⟨.pcall task b.active, hlog, rfl, rfl, fun tk i hh => by cases hh⟩, hscr, hmas, hwin, hthr, hsize, hdlq,
      GProc.pstepT_ext hstep (fun k r hk => GProc.active_root hsinv.wf hvb hF.srcmap hk), hany, hdok⟩
  have hinv' : C0.Inv (nxJ sm nx 0) s' :=
    C0.quiet hF.inv hQ hbelow
      (fun x hx j src hj hsrc hroot => (GProc.roots_not_below hs hF.srcmap hx hj hsrc hroot).elim) hBase'
  have hws' : WSeen G s' := by
    intro e he
    rw [hwr] at he
    rw [hseen]; exact List.mem_append_left _ (hF.wseen e he)
  refine ⟨hBase', hws', hQ, hinv', ?_⟩
  intro b1 hb1
  have hss1 := hss b1 hb1
  cases hP : procDoP s.heap b out with
  | error e => rw [hP, hb1] at hr; cases hr
  | ok x =>
    obtain ⟨h', b''⟩ := x
    rw [hP, hb1] at hr
    have hbb : b'' = b1 := Except.ok.inj hr
    subst hbb
    have hh' : hp = h' := h2 h' b'' hP
    rw [hh'] at hheap
    rw [← hheap] at hP
    obtain ⟨hpe, _, _⟩ := hE hsinv.wf hsinv.runs hP
    obtain ⟨rs1, hvb1⟩ := hss1.inv.vb
    obtain ⟨kids, hpm⟩ := SProc.pmap_of_eff hsinv.wf hvb hpe
    have hnr := SProc.procDoP_nrel hP rest hsinv
    have C : GProc.PCG C0 s s' task pre sub rest doom nx b sm out b'' kids rs rs1 :=
      { src := hs, fl := hF, haf := haf, vb := hvb, vb1 := hvb1, pstep := hstep, wr := hwr, ok := hok, fresh := hfr,
        seen := hseen, inv1 := hinv', pm := hpm, ss := hss1, hold := hpe.hold,
        split := hpe.split,
        nosplit1 := SProc.noSplitKey_of_nsk hvb1 (hnr.2.2 (SProc.nsk_of_flight hs hvb hF.srcmap hF.nosplit)),
        newrun := hnr.2.1, taint := hpe.taint }
    exact ⟨SProc.smOf kids sm, C.flight1, C.steprel, C.flagsAF1⟩

end Conduit.Funnel
