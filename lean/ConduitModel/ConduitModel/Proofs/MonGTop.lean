import ConduitModel.Proofs.MonGFan
import ConduitModel.Proofs.MonGVote
import ConduitModel.Proofs.MonGProc
import ConduitModel.Proofs.MonGDest

/-!
# From the task recursion to the whole run: trees with (non-nested) fan-out AND record splitting
-/
namespace Conduit.Funnel
open Conduit.Funnel.Mon

/-- the task-level and vote-level lemmas (`procDo_monG`, `destDo_monG`, `voteG`) as a bundle -/
theorem depsG (G : Ctx) (hs : Src G) : DepsG G where
  proc := fun C0 => fun hF hcl haf hb ht h hrp hft => procDo_monG procEffStmt hs C0 hF hcl haf hb ht h hrp hft
  dest := fun C0 => fun hF hd hcl haf hb ht hdd h => destDo_monG hs C0 hF hd hcl haf hb ht hdd h
  vote := fun C0 b rs hb sm isAck task hn rest doom nx hdoom hnx hrl hnk fuel i s s' r hv h =>
    voteG hs C0 b rs hb sm isAck task hn rest doom nx hdoom hnx hrl hnk fuel i s s' r
      ⟨hv.1, hv.2.1, hv.2.2.1, hv.2.2.2.1, hv.2.2.2.2.1, hv.2.2.2.2.2.1, hv.2.2.2.2.2.2.1, hv.2.2.2.2.2.2.2⟩ h

/-- the task recursion under the root handler chain, for trees without nested fan-out -/
theorem pipeG_fan1 {G : Ctx} (hs : Src G) (fuel : Nat) : PipeG G (GoodG G) (IsWorkerG G hs) fuel :=
  (pipeG_all hs (depsG G hs) (GoodG G) (IsWorkerG G hs) (fun _ hg hl => hg.child hl)
    (fun fuel _ => fanG_worker hs (depsG G hs) fuel) fuel fuel (Nat.le_refl _)).1

/-- one pass on the batch `recs` = the records `n0 …` read -/
theorem runPass_monG {G : Ctx} (hs : Src G) (ht : TreeOKF G) (fuel : Nat) (recs : List Rec) (n0 : Nat)
    {s s' : PS} {r : Except Stop Unit} (hI : WInv G n0 s) (hq : RestedT G s) (hw : WSeen G s) (_hheap : s.heap.size = 0)
    (hrecs : ∀ (q : Nat) (x : Rec), recs[q]? = some x → G.all[n0 + q]? = some x)
    (h : exec (runPass fuel G.tree recs) s = (r, s')) (hrp : RP G s') (hft : FT G s') :
    OutG (workerMC0 G hs) (tasksS G.tree) (dests G.tree) (fun _ => 0) (fun _ => False) (Batch.new recs)
      (List.range' n0 recs.length) 0 (n0 + recs.length) s s' r := by
  unfold runPass at h
  have hf := hI.front
  have hpend : ∀ (q : Nat) (src : Rec), G.all[n0 + q]? = some src → ¬ NonPend G n0 (root src) := by
    intro q src hsrc hn
    have := hn.lt hs hsrc (by omega)
    omega
  have hclean : ∀ (q : Nat) (src : Rec), G.all[n0 + q]? = some src →
      CleanT (G.view s) (tasksS G.tree) (dests G.tree) (root src) := by
    intro q src hsrc
    refine ⟨fun t _ hx => ?_, fun e he _ hr => ?_⟩
    · have := hq.err _ hx
      rw [hf] at this
      exact hpend q src hsrc this
    · have := hq.wr e he
      rw [hf, hr] at this
      exact absurd this (hpend q src hsrc)
  have hpos : ∀ x ∈ recs, x.pos ≠ none := by
    intro x hx hn
    obtain ⟨q, hq'⟩ := List.getElem?_of_mem hx
    have := hs.key_ne_zero (List.mem_of_getElem? (hrecs q x hq'))
    apply this
    show keyOf x.pos = 0
    rw [hn]; rfl
  have hsi := new_SInv s.heap recs hpos
  obtain ⟨rs, hvb⟩ := hsi.vb
  have hcnt0 : ∀ rid : Nat, cnt rid (Batch.new recs).view = 0 := by
    intro rid
    rw [new_view]
    unfold cnt
    rw [List.countP_eq_zero]
    intro x hx
    rw [List.mem_map] at hx
    obtain ⟨_, _, rfl⟩ := hx
    simp
  have hsm : ∀ (k q : Nat), (List.range' n0 recs.length)[k]? = some q → q = n0 + k ∧ k < recs.length := by
    intro k q hk
    rw [range'_get] at hk
    split at hk
    · exact ⟨(Option.some.inj hk).symm, by assumption⟩
    · cases hk
  have hnxJ : nxJ (List.range' n0 recs.length) (n0 + recs.length) 0 = n0 := by
    unfold nxJ
    rw [range'_get]
    split
    · rfl
    · simp only [Option.getD_none]; omega
  have hnolive : ∀ rid : Nat, ¬ LiveRun (fun _ => 0) (Batch.new recs) 0 rid := by
    intro rid hl
    rcases hl with g | g
    · rw [List.drop_zero, hcnt0] at g; exact Nat.lt_irrefl 0 g
    · exact Nat.lt_irrefl 0 g
  refine pipeG_fan1 hs fuel .worker (workerMC0 G hs) G.tree [] (n0 + recs.length) (Batch.new recs) (List.range' n0 recs.length)
    (fun _ => 0) (fun _ => False) none true s s' r ⟨ht.fan1, ht.nodup, fun x hx _ => hx⟩ rfl
    ⟨fun d hd => Or.inr hd, ht.nodup, fun x hx => hx, fun x hx => hx, fun x hx => hx⟩ (fun _ => ht.src) ?_ rfl ?_ h hrp hft
  · refine ⟨by rw [hnxJ]; exact hI, hw, hsi.tinv, ?_, ?_, ?_, (fun _ hd => hd.elim), ?_, ?_, ?_, ?_, ?_, ?_, ?_, ?_, ?_⟩
    · -- srcmap
      refine ⟨by rw [new_rows_length]; simp, ?_, ?_, ?_⟩
      · intro k q q' h1 h2
        obtain ⟨e1, _⟩ := hsm k q h1
        obtain ⟨e2, _⟩ := hsm (k + 1) q' h2
        right; omega
      · intro k row q hr hq'
        obtain ⟨x, hx, rfl⟩ := new_rows recs hr
        obtain ⟨e1, _⟩ := hsm k q hq'
        subst e1
        exact ⟨x, hrecs k x hx, rfl, rfl⟩
      · intro k row row' q _ _ h1 h2
        obtain ⟨e1, _⟩ := hsm k q h1
        obtain ⟨e2, _⟩ := hsm (k + 1) q h2
        omega
    · -- nextok
      intro row q hl hlq
      rw [List.getLast?_eq_getElem?] at hl hlq
      obtain ⟨x, _, rfl⟩ := new_rows recs hl
      obtain ⟨e1, e2⟩ := hsm _ q hlq
      right
      refine ⟨?_, fun rid hh => nomatch hh⟩
      simp only [List.length_range'] at e1 e2
      omega
    · intro rid hr; exact absurd hr (Nat.lt_irrefl 0)
    · intro rid hl; exact absurd hl (hnolive rid)
    · intro rid hl; exact absurd hl (hnolive rid)
    · intro rid hc; rw [List.drop_zero, hcnt0] at hc; exact absurd hc (Nat.lt_irrefl 0)
    · intro e he; cases he
    · intro k row _ _; rfl
    · -- facts
      refine ⟨?_, ?_, ?_, ?_⟩
      · intro k row q src _ _ _ _ _ d hd; cases hd
      · intro k row q src _ hr _ _ hfl
        obtain ⟨x, _, rfl⟩ := new_rows recs hr
        cases hfl
      · intro k row q src _ hr _ _ hfl
        obtain ⟨x, _, rfl⟩ := new_rows recs hr
        cases hfl
      · intro k row q src _ hr hq' hsrc _ _
        obtain ⟨e1, _⟩ := hsm k q hq'
        subst e1
        exact hclean k src hsrc
    · -- tags
      refine ⟨?_, ?_, ?_⟩
      · rw [List.nodup_iff_pairwise_ne, List.pairwise_iff_getElem]
        intro a c ha hc hac heq
        simp only [List.getElem_map] at heq
        simp only [List.length_map] at ha hc
        obtain ⟨x, hx, e1⟩ := new_rows recs (List.getElem?_eq_getElem ha)
        obtain ⟨y, hy, e2⟩ := new_rows recs (List.getElem?_eq_getElem hc)
        rw [e1, e2] at heq
        have := hs.idx_of_root (hrecs a x hx) (hrecs c y hy) (tag_inj_of_root heq)
        omega
      · intro k row _ hr
        obtain ⟨x, hx, rfl⟩ := new_rows recs hr
        unfold Seen
        apply seenRun_sub
        exact List.mem_map.mpr ⟨x, List.mem_of_getElem? (hrecs k x hx), rfl⟩
      · intro k row _ hr _ e he _ heq
        obtain ⟨x, hx, rfl⟩ := new_rows recs hr
        have h1 := hI.base.wr e he
        have h2 := hq.wr e he
        rw [hf] at h2
        apply hpend k x (hrecs k x hx)
        have : root x = e.2.1 := by rw [h1, heq]; rfl
        rw [this]; exact h2
    · -- below
      rw [hnxJ]
      intro e he _
      have := hq.wr e he
      rw [hf] at this
      exact this.mono (by omega)
    · intro rid hl; exact absurd hl (hnolive rid)
  · intro q st hst
    simp only [Batch.new, List.getElem?_map] at hst
    cases hx : recs[q]? with
    | none => rw [hx] at hst; cases hst
    | some x => rw [hx] at hst; cases hst; exact Or.inl rfl

/-- the passes of a run, from a state between two passes -/
theorem runBatches_monG {G : Ctx} (hs : Src G) (ht : TreeOKF G) (fuel : Nat) :
    ∀ (rest done : List (List Rec)) (s s' : PS) (r : Except Stop Unit),
      G.batches = done ++ rest → WInv G done.flatten.length s → RestedT G s → WSeen G s →
      exec (runBatches fuel G.tree rest) s = (r, s') → RP G s' → FT G s' → (G.mu s').tv = [] := by
  intro rest
  induction rest with
  | nil =>
    intro done s s' r _ hI _ _ h _ _
    rw [exec_runBatches_nil] at h
    cases h
    exact hI.base.safe
  | cons b bs ih =>
    intro done s s' r hb hI hq hw h hrp hft
    rw [exec_runBatches_cons] at h
    rcases hx : exec (runPass fuel G.tree b) (resetPass s) with ⟨r1, s1⟩
    rw [hx] at h
    have hI0 : WInv G done.flatten.length (resetPass s) := hI.same rfl rfl
    have hq0 : RestedT G (resetPass s) := hq.same rfl
    have hw0 : WSeen G (resetPass s) := by
      intro e he
      have hm : G.mu (resetPass s) = G.mu s := mu_same G s _ rfl
      rw [hm] at he
      have hsn : Seen G (resetPass s) = Seen G s := Seen.same rfl
      rw [hsn]
      exact hw e he
    have hrecs : ∀ (q : Nat) (x : Rec), b[q]? = some x → G.all[done.flatten.length + q]? = some x := by
      intro q x hqx
      have hql := (List.getElem?_eq_some_iff.mp hqx).1
      unfold Ctx.all
      rw [hb, List.flatten_append, List.flatten_cons, List.getElem?_append_right (by omega),
        Nat.add_sub_cancel_left, List.getElem?_append_left hql]
      exact hqx
    cases r1 with
    | error e =>
      dsimp only at h
      cases h
      exact (runPass_monG hs ht fuel b _ hI0 hq0 hw0 rfl hrecs hx hrp hft).err (fun hh => nomatch hh)
    | ok u =>
      cases u
      dsimp only at h
      have hmono : s1.log.toList <+: s'.log.toList := by
        have := runBatches_log_mono fuel G.tree bs s1
        rw [h] at this
        exact this
      have o1 := runPass_monG hs ht fuel b _ hI0 hq0 hw0 rfl hrecs hx (hrp.prefix hmono) (hft.prefix hmono)
      have hI1 : WInv G (done.flatten.length + b.length) s1 := o1.inv rfl
      have hq1 : RestedT G s1 := by
        have hin : ∀ ρ, RootsOf G (List.range' done.flatten.length b.length) 0 ρ → NonPend G (nAcked s1) ρ := by
          rintro ρ ⟨k, q, src, _, hq', hsrc, hroot⟩
          rw [range'_get] at hq'
          split at hq'
          · refine ⟨q, src, ?_, hsrc, hroot⟩
            have := Option.some.inj hq'
            rw [hI1.front]
            omega
          · cases hq'
        have hle : nAcked (resetPass s) ≤ nAcked s1 := by rw [hI0.front, hI1.front]; omega
        refine ⟨?_, ?_⟩
        · intro x hx'
          rcases o1.ext.err_new x hx' with h1 | ⟨_, h1⟩
          · exact (hq0.err x h1).mono hle
          · exact hin _ h1
        · intro e he
          rcases o1.ext.wr_new e he with h1 | ⟨_, h1⟩
          · exact (hq0.wr e h1).mono hle
          · exact hin _ h1
      refine ih (done ++ [b]) s1 s' r (by rw [hb]; simp) ?_ hq1 o1.wseen h hrp hft
      have : (done ++ [b]).flatten.length = done.flatten.length + b.length := by simp
      rw [this]; exact hI1

end Conduit.Funnel
