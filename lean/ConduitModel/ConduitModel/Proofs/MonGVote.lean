import ConduitModel.Proofs.MonGDefs

/-!
# `runAckNacker(X).vote` against an abstract handler contract, with split runs

`voteS` (Proofs/MonSVote.lean) for an arbitrary bare handler `X` (the Worker, or a fan-out tally)
with contract `C0 : MC G X`: records without run are handed to `X` at once (they must be
justified for the contract's tasks / destinations), a run is released when its last piece is voted.
-/
namespace Conduit.Funnel
open Conduit.Funnel.Mon

/-- the loop invariant of the vote loop at row `i` -/
structure VInvG {G : Ctx} {X : Acker} (C0 : MC G X) (b : Batch) (sm : List Nat) (rest : Nat → Nat) (doom : Nat → Prop)
    (isAck : Bool) (nx i : Nat) (s : PS) : Prop where
  inv : C0.Inv (nxJ sm nx i) s
  wseen : WSeen G s
  acc : Acc s.heap rest (b.view.drop i)
  srcmap : SrcMap G s.heap b sm
  hlin : HLinG G s.heap rest b i
  htouch : HTouchG (G.view s) C0.D s.heap rest b i
  ci : CIG (G.view s) C0.T C0.D s.heap doom b i
  /-- an ack vote: no row is flagged nack, every row is covered as far as the destinations of the
  chain go, and a record without run is clean for the tasks / destinations of the chain -/
  just : isAck = true → ∀ (k : Nat) (row : Row) (q : Nat) (src : Rec), i ≤ k → b.rows[k]? = some row →
    sm[k]? = some q → G.all[q]? = some src →
    row.st.flag ≠ .nack ∧ Cover (G.view s) C0.D (root src) ∧ (row.run = none → CleanT (G.view s) C0.T C0.D (root src))

/-! ## any handler chain leaves the run ledger alone on a batch without runs -/

/-- no row of the batch belongs to a split run -/
def NoRunG (b : Batch) : Prop := ∀ rs, b.runs = some rs → ∀ x ∈ rs, x = none

theorem NoRunG.of_BOK {b : Batch} (h : BOK b) : NoRunG b := by
  intro rs hrs x hx
  rw [h.runs rs hrs] at hx
  exact (List.mem_replicate.mp hx).2

theorem NoRunG.of_none {b : Batch} (h : b.runs = none) : NoRunG b := by
  intro rs hrs; rw [h] at hrs; cases hrs

theorem NoRunG.sub {b sb : Batch} {i j : Nat} (h : NoRunG b) (hs : b.sub i j = .ok sb) : NoRunG sb := by
  obtain ⟨_, _, _, _, _, _, _, f4, _, _⟩ := sub_ok_fields hs
  intro rs hrs x hx
  rw [f4] at hrs
  cases hr : b.runs with
  | none => rw [hr] at hrs; cases hrs
  | some rs0 =>
    rw [hr] at hrs
    simp only [Option.map_some, Option.some.injEq] at hrs
    rw [← hrs] at hx
    exact h rs0 hr x ((List.take_sublist j rs0).subset ((List.drop_sublist i _).subset hx))

theorem NoRunG.runAt {b : Batch} (h : NoRunG b) {k : Nat} {run : Option Nat} (hr : runAt b k = .ok run) : run = none := by
  unfold Conduit.Funnel.runAt at hr
  cases hb : b.runs with
  | none => rw [hb] at hr; cases hr; rfl
  | some rs =>
    rw [hb] at hr
    dsimp only at hr
    exact h rs hb _ (idx_mem hr)

theorem workerAck_heapG (b : Batch) (s : PS) : (exec (workerAck b) s).2.heap = s.heap := by
  have h1 : exec (workerAck b) s = workerAckP s b := workerAck_eq b s
  rw [h1]
  unfold workerAckP
  split
  · rfl
  · dsimp only
    split <;> rfl

theorem workerNack_heapG (b : Batch) (task : Nat) (s : PS) : (exec (workerNack b task) s).2.heap = s.heap := by
  have h1 : exec (workerNack b task) s = workerNackP s b task := workerNack_eq b task s
  rw [h1]
  rcases workerNackP_spec s b task with ⟨r', h', _⟩ | ⟨r', h', _⟩ | ⟨n, r', h', _⟩ <;> rw [h'] <;> rfl

theorem voteBody_heapG (h0 : Heap) (id : Nat) (ob : Batch) (isAck : Bool) (task i : Nat) (m : MA) :
    Spec (fun s => s.heap = h0) (voteBody id ob isAck task i m) (fun _ => True) := by
  unfold voteBody
  dsimp only
  repeat (first
    | (exact Spec.modify _ (fun t ht => ht) trivial)
    | spec_step)

/-- the ack/nack handler chains leave the run ledger alone on batches without runs -/
theorem heapFrameG (h0 : Heap) : ∀ fuel : Nat,
    (∀ (a : Acker) (b : Batch) (isAck : Bool) (t : Nat), NoRunG b →
      Spec (fun s => s.heap = h0) (ackerCall fuel a b isAck t) (fun _ => True)) ∧
    (∀ (id : Nat) (parent : Acker), Spec (fun s => s.heap = h0) (releaseLoop fuel id parent) (fun _ => True)) ∧
    (∀ (parent : Acker) (b : Batch) (isAck : Bool) (t i : Nat), NoRunG b →
      Spec (fun s => s.heap = h0) (voteLoop fuel parent b isAck t i) (fun _ => True)) := by
  intro fuel
  induction fuel with
  | zero =>
    refine ⟨?_, ?_, ?_⟩
    · intro acker b a t _; rw [ackerCall]; exact Spec.throw _
    · intro id parent; rw [releaseLoop]; exact Spec.throw _
    · intro parent batch a t i _; rw [voteLoop]; exact Spec.throw _
  | succ fuel ih =>
    obtain ⟨ihA, ihR, ihV⟩ := ih
    have hmod : ∀ f : PS → PS, (∀ s, (f s).heap = s.heap) →
        Spec (fun s => s.heap = h0) (modify f : M PUnit) (fun _ => True) :=
      fun f hf => Spec.modify f (fun t ht => by rw [hf]; exact ht) trivial
    refine ⟨?_, ?_, ?_⟩
    · intro acker b a t hb
      cases acker with
      | worker =>
        rw [ackerCall]
        cases a
        · simp only [Bool.false_eq_true, if_false]
          intro s hs; exact ⟨(workerNack_heapG b t s).trans hs, fun _ _ => trivial⟩
        · simp only [if_true]
          intro s hs; exact ⟨(workerAck_heapG b s).trans hs, fun _ _ => trivial⟩
      | run parent => rw [ackerCall_run]; exact ihV parent b a t 0 hb
      | multi id parent =>
        rw [ackerCall_multi]
        apply Spec.get_bind; intro s0 _
        apply Spec.bind (Spec.forIn _ (voteBody_heapG h0 _ _ _ _) _ _)
        intro m _
        apply Spec.bind (P := fun _ => True)
        · exact hmod _ (fun s => rfl)
        · intro _ _; exact ihR id parent
    · intro id parent
      rw [releaseLoop]
      apply Spec.get_bind; intro s0 _
      dsimp only
      repeat (first
        | with_reducible exact ihA _ _ _ _ (NoRunG.of_none rfl)
        | with_reducible exact ihR _ _
        | (with_reducible exact hmod _ (fun s => rfl))
        | spec_step)
    · intro parent b a t i hb
      by_cases hi : i < b.recs.length
      · rw [voteLoop_unfold fuel parent b a t i hi]
        apply Spec.bind (Spec.liftR _ (fun _ h => hb.runAt h) (P := fun run => run = none))
        intro run hrun
        subst hrun
        apply Spec.bind (Spec.forIn _ (extentBody_spec _ _) _ _)
        intro j _
        dsimp only
        apply Spec.bind (Spec.liftR _ (fun _ h => h) (P := fun sb => b.sub i j = .ok sb))
        intro sb hsb
        apply Spec.bind (ihA parent sb a t (hb.sub hsb))
        intro _ _
        exact ihV parent b a t j hb
      · rw [voteLoop]; simp only [hi, if_false]; exact Spec.pure _ trivial

theorem ackerCall_heapG {fuel : Nat} {a : Acker} {b : Batch} {isAck : Bool} {t : Nat} {s s' : PS} {r : Except Stop Unit}
    (hb : NoRunG b) (h : exec (ackerCall fuel a b isAck t) s = (r, s')) : s'.heap = s.heap := by
  have := ((heapFrameG s.heap fuel).1 a b isAck t hb s rfl).1
  rw [h] at this
  exact this

/-! ## an `Ack` does not look at the task id -/

theorem voteBody_ackG (id : Nat) (ob : Batch) (t : Nat) : voteBody id ob true t = voteBody id ob true 0 := by
  funext i m
  unfold voteBody
  simp only [if_true]

theorem ackTaskG : ∀ fuel : Nat,
    (∀ (a : Acker) (b : Batch) (t : Nat), ackerCall fuel a b true t = ackerCall fuel a b true 0) ∧
    (∀ (p : Acker) (b : Batch) (t i : Nat), voteLoop fuel p b true t i = voteLoop fuel p b true 0 i) := by
  intro fuel
  induction fuel with
  | zero =>
    refine ⟨?_, ?_⟩
    · intro a b t; rw [ackerCall, ackerCall]
    · intro p b t i; rw [voteLoop, voteLoop]
  | succ fuel ih =>
    obtain ⟨ihA, ihV⟩ := ih
    refine ⟨?_, ?_⟩
    · intro a b t
      cases a with
      | worker => rw [ackerCall, ackerCall]; simp only [if_true]
      | run parent => rw [ackerCall_run, ackerCall_run]; exact ihV parent b t 0
      | multi id parent => rw [ackerCall_multi, ackerCall_multi, voteBody_ackG id b.original t]
    · intro p b t i
      by_cases hi : i < b.recs.length
      · rw [voteLoop_unfold fuel p b true t i hi, voteLoop_unfold fuel p b true 0 i hi]
        have e1 : ∀ sb, ackerCall fuel p sb true t = ackerCall fuel p sb true 0 := fun sb => ihA p sb t
        have e2 : ∀ j, voteLoop fuel p b true t j = voteLoop fuel p b true 0 j := fun j => ihV p b t j
        simp only [e1, e2, Bool.not_true, Bool.false_eq_true, false_and, if_false]
      · rw [voteLoop, voteLoop]; simp only [hi, if_false]

theorem ackerCall_ackG (fuel : Nat) (a : Acker) (b : Batch) (t : Nat) :
    ackerCall fuel a b true t = ackerCall fuel a b true 0 := (ackTaskG fuel).1 a b t

/-! ## views with the same attributed facts -/

theorem CleanT.iffG {v v' : MV} {T D : List Nat} {R : Nat → Prop} {ρ : Nat} (he : ExtT [] [] R v v') :
    CleanT v' T D ρ ↔ CleanT v T D ρ := by
  constructor
  · intro h
    exact ⟨fun t ht hx => h.1 t ht (he.err_mono _ hx), fun e hm hd hr => h.2 e (he.wr_mono e hm) hd hr⟩
  · intro h
    exact h.ext he (Or.inr ⟨fun t ht => absurd ht List.not_mem_nil, fun d hd => absurd hd List.not_mem_nil⟩)

theorem Cover.extG {v v' : MV} {Ts Ds : List Nat} {R : Nat → Prop} {Dl : List Nat} {ρ : Nat} (h : Cover v Dl ρ)
    (he : ExtT Ts Ds R v v') : Cover v' Dl ρ :=
  fun d hd => (h d hd).imp (fun hw => hw.extT he) (fun hf => he.filt_mono ρ hf)

theorem WSeen.extG {G : Ctx} {s s' : PS} {R : Nat → Prop} (hw : WSeen G s) (he : ExtT [] [] R (G.view s) (G.view s'))
    (hs : ∀ x ∈ Seen G s, x ∈ Seen G s') : WSeen G s' := by
  intro e hm
  rcases he.wr_new e hm with h | ⟨h, _⟩
  · exact hs _ (hw e h)
  · exact absurd h List.not_mem_nil

/-- a clean record that every destination saw (or that was filtered) is justified -/
theorem just_of_clean_coverG {v : MV} {T D : List Nat} {ρ : Nat} (hc : CleanT v T D ρ) (ht : Cover v D ρ) :
    ActiveT v T D ρ ∨ FilteredT v T D ρ := by
  by_cases hf : ρ ∈ v.μ.filtered
  · exact Or.inr ⟨hc, hf⟩
  · exact Or.inl ⟨hc, fun d hd => (ht d hd).resolve_right hf⟩

theorem nxJ_eqG {sm : List Nat} {nx j v : Nat} (h1 : ∀ q, sm[j]? = some q → q = v) (h2 : sm.length ≤ j → nx = v) :
    nxJ sm nx j = v := by
  unfold nxJ
  cases h : sm[j]? with
  | none => exact h2 (List.getElem?_eq_none_iff.mp h)
  | some q => exact h1 q h

theorem nxJ_someG {sm : List Nat} {nx j q : Nat} (h : sm[j]? = some q) : nxJ sm nx j = q := by
  unfold nxJ; rw [h]; rfl

/-! ## a call of the handler -/

/-- outcome of a call of the handler `X` on a batch of `len` records at frontier `p` -/
structure HCallG {G : Ctx} {X : Acker} (C0 : MC G X) (p len : Nat) (s s' : PS) (r : Except Stop Unit) : Prop where
  ok : r = .ok () → C0.Inv (p + len) s'
  err : r ≠ .ok () → C0.Err s'
  view : ExtT [] [] (fun _ => False) (G.view s) (G.view s')
  seen : ∀ x ∈ Seen G s, x ∈ Seen G s'
  heap : s'.heap = s.heap

theorem handlerCallG {G : Ctx} {X : Acker} (C0 : MC G X) {fuel : Nat} {sb : Batch} {isAck : Bool} {task p : Nat}
    {s s' : PS} {r : Except Stop Unit} (hI : C0.Inv p s) (hb : BOK sb) (hsp : sb.split = [])
    (hn : isAck = false → NackOK sb) (hal : Align G p sb) (hpos : 0 < sb.pos.length)
    (hj : isAck = true → ∀ (q : Nat) (src : Rec), q < sb.pos.length → G.all[p + q]? = some src →
      ActiveT (G.view s) C0.T C0.D (root src) ∨ FilteredT (G.view s) C0.T C0.D (root src))
    (hc : exec (ackerCall fuel X sb isAck task) s = (r, s')) : HCallG C0 p sb.pos.length s s' r := by
  have hheap := ackerCall_heapG (NoRunG.of_BOK hb) hc
  have hseen := Seen.mono (G := G) (log_mono_acker hc)
  cases isAck with
  | true =>
    rw [ackerCall_ackG] at hc
    have co := C0.ack fuel sb p s s' r hI hb hsp hal (hj rfl) hc
    exact ⟨co.ok, co.err, co.view, hseen, hheap⟩
  | false =>
    have co := (C0.nack fuel sb task p s s' r (C0.inv_w hI) hb hsp (hn rfl) hal hpos hc).1
    exact ⟨co.ok, co.err, co.view, hseen, hheap⟩

theorem sameBut_setRunG (top rid : Nat) (x : SplitRun) (s : PS) : SameBut top s (setRun rid x s) :=
  ⟨rfl, rfl, rfl, rfl, rfl, rfl, Nat.le_refl _, fun _ _ => rfl⟩

theorem seen_setRunG (G : Ctx) (rid : Nat) (x : SplitRun) (s : PS) : Seen G (setRun rid x s) = Seen G s := Seen.same rfl

theorem view_setRunG (G : Ctx) (rid : Nat) (x : SplitRun) (s : PS) : G.view (setRun rid x s) = G.view s := view_same G s _ rfl

/-! ## one group of the vote loop -/

theorem LiveRun.of_leG {rest : Nat → Nat} {b : Batch} {i j rid : Nat} (hij : i ≤ j) (h : LiveRun rest b j rid) :
    LiveRun rest b i rid := by
  rcases h with h | h
  · left
    rw [drop_split b.view (i := i) (j := j) hij, cnt_append]
    omega
  · exact Or.inr h

/-- what one group step `s → s1` of the vote loop guarantees -/
structure StpG {G : Ctx} {X : Acker} (C0 : MC G X) (rest : Nat → Nat) (doom : Nat → Prop) (sm : List Nat) (j nx : Nat)
    (run : Option Nat) (s s1 : PS) : Prop where
  inv : C0.Inv (nxJ sm nx j) s1
  view : ExtT [] [] (fun _ => False) (G.view s) (G.view s1)
  seen : ∀ x ∈ Seen G s, x ∈ Seen G s1
  hsz : s1.heap.size = s.heap.size
  hfr : ∀ rid : Nat, run ≠ some rid → s1.heap[rid]! = s.heap[rid]!
  horig : ∀ rid : Nat, (s1.heap[rid]!).origPos = (s.heap[rid]!).origPos ∧ (s1.heap[rid]!).origRec = (s.heap[rid]!).origRec
  nk : ∀ rid : Nat, (s.heap[rid]!).nacked = true → (s1.heap[rid]!).nacked = true
  lp : ∀ rid : Nat, run = some rid → 0 < rest rid → RunOK (s1.heap[rid]!) (rest rid) ∧ 0 < (s1.heap[rid]!).terminal ∧
    (¬ CleanT (G.view s) C0.T C0.D (root (s.heap[rid]!).origRec) → (s1.heap[rid]!).nacked = true ∨ doom rid)
  tch : ∀ rid : Nat, run = some rid → (s1.heap[rid]!).nacked = false →
    Cover (G.view s) C0.D (root (s.heap[rid]!).origRec)

/-- the invariant at the end of the group -/
theorem VInvG.nextG {G : Ctx} {X : Acker} {C0 : MC G X} {b : Batch} {rs : List (Option Nat)} (hb : VB b rs) {sm : List Nat}
    {rest : Nat → Nat} {doom : Nat → Prop} {isAck : Bool} {i j nx : Nat} {run : Option Nat} {s s1 : PS}
    (hv : VInvG C0 b sm rest doom isAck nx i s) (hg : Grp b rs i j run) (st : StpG C0 rest doom sm j nx run s s1) :
    VInvG C0 b sm rest doom isAck nx j s1 := by
  have hlive : ∀ rid, LiveRun rest b j rid → LiveRun rest b i rid := fun rid h => h.of_leG (Nat.le_of_lt hg.lt)
  refine ⟨st.inv, hv.wseen.extG st.view st.seen, ?_, hv.srcmap.heap_congr (fun rid => (st.horig rid).1), ?_, ?_, ?_, ?_⟩
  · intro r hr
    have hne : run ≠ some r := fun e => by have := hg.tail r e; omega
    rw [st.hfr r hne, st.hsz]
    have := hv.acc r (by rw [hg.cnt_other hb hne]; exact hr)
    rw [hg.cnt_other hb hne] at this
    exact this
  · intro rid hl
    obtain ⟨src, hm, a1, a2⟩ := hv.hlin rid (hlive rid hl)
    exact ⟨src, hm, by rw [(st.horig rid).1]; exact a1, by rw [(st.horig rid).2]; exact a2⟩
  · intro rid hl hterm hnk
    by_cases he : run = some rid
    · rw [(st.horig rid).2]
      exact (st.tch rid he hnk).extG st.view
    · rw [st.hfr rid he] at hterm hnk ⊢
      exact (hv.htouch rid (hlive rid hl) hterm hnk).extG st.view
  · intro rid hc hncl
    have hne : run ≠ some rid := fun e => by have := hg.tail rid e; omega
    rcases hv.ci rid (by rw [hg.cnt_other hb hne]; exact hc)
      (fun hcl => hncl (by rw [(st.horig rid).2]; exact (CleanT.iffG st.view).mpr hcl)) with h1 | h1 | ⟨k, row, hik, hrow, hrun, hfl⟩
    · exact Or.inl (st.nk rid h1)
    · exact Or.inr (Or.inl h1)
    · refine Or.inr (Or.inr ⟨k, row, ?_, hrow, hrun, hfl⟩)
      apply Classical.byContradiction
      intro hlt
      have h1 := hg.all k hik (by omega)
      have h2 := (rows_fields hb hrow).2.2.2
      rw [h1, hrun] at h2
      exact hne (Option.some.inj h2)
  · intro ha k row q src hjk hrow hq hsrc
    obtain ⟨a, c, d⟩ := hv.just ha k row q src (by have := hg.lt; omega) hrow hq hsrc
    exact ⟨a, c.extG st.view, fun h => (CleanT.iffG st.view).mpr (d h)⟩

/-- a failure: nothing is promised but the frame, the seen tags and the contract's error invariant -/
theorem OutG.failG {G : Ctx} {X : Acker} {C0 : MC G X} {rest : Nat → Nat} {doom : Nat → Prop} {b : Batch} {sm : List Nat}
    {i nx : Nat} {s s' : PS} {e : Stop} (hx : ExtT [] [] (fun _ => False) (G.view s) (G.view s')) (hw : WSeen G s')
    (he : C0.Err s') : OutG C0 [] [] rest doom b sm i nx s s' (.error e) :=
  ⟨hx.mono (fun _ h => h) (fun _ h => h) (fun _ h => h.elim), hw, fun _ => he, (fun h => nomatch h), (fun h => nomatch h),
    (fun h => nomatch h), (fun h => nomatch h), (fun h => nomatch h), (fun h => nomatch h), (fun h => nomatch h),
    (fun h => nomatch h)⟩

/-- a group step followed by the loop from `j` -/
theorem OutG.composeG {G : Ctx} {X : Acker} {C0 : MC G X} {b : Batch} {rs : List (Option Nat)} (hb : VB b rs) {sm : List Nat}
    {rest : Nat → Nat} {doom : Nat → Prop} {isAck : Bool} {i j nx : Nat} {run : Option Nat} {s s1 s' : PS}
    {r : Except Stop Unit} (hv : VInvG C0 b sm rest doom isAck nx i s) (hg : Grp b rs i j run)
    (st : StpG C0 rest doom sm j nx run s s1) (ih : OutG C0 [] [] rest doom b sm j nx s1 s' r) :
    OutG C0 [] [] rest doom b sm i nx s s' r := by
  have hij := hg.lt
  have hjl := hg.le
  have hext : ExtT [] [] (RootsOf G sm i) (G.view s) (G.view s') :=
    (st.view.mono (fun _ h => h) (fun _ h => h) (fun _ h => h.elim)).trans
      (ih.ext.mono (fun _ h => h) (fun _ h => h) (fun x ⟨k, q, src, h1, h2, h3, h4⟩ => ⟨k, q, src, by omega, h2, h3, h4⟩))
  refine ⟨hext, ih.wseen, ih.err, ih.inv, ?_, ?_, ?_, ?_, ?_, ?_, ?_⟩
  · intro _ e he
    rcases hext.wr_new e he with h | ⟨h, _⟩
    · exact Or.inl h
    · exact absurd h List.not_mem_nil
  · intro hr
    rw [← st.hsz]; exact ih.hsize hr
  · intro hr rid hrid hc
    have hne : run ≠ some rid := by intro e; have := hg.cnt_self hb e; omega
    have hcj : cnt rid (b.view.drop j) = 0 := by rw [← hg.cnt_other hb hne]; exact hc
    rw [ih.hframe hr rid (by rw [st.hsz]; exact hrid) hcj]
    exact st.hfr rid hne
  · intro hr rid hrid
    have a := ih.horig hr rid (by rw [st.hsz]; exact hrid)
    have c := st.horig rid
    exact ⟨a.1.trans c.1, a.2.trans c.2⟩
  · intro hr rid hc hrest
    by_cases hcj : 0 < cnt rid (b.view.drop j)
    · exact ih.lpost hr rid hcj hrest
    · have he : run = some rid := Classical.byContradiction fun hne => by rw [hg.cnt_other hb hne] at hc; omega
      have hrid : rid < s.heap.size := (hv.acc rid hc).1
      rw [ih.hframe hr rid (by rw [st.hsz]; exact hrid) (by omega)]
      obtain ⟨a, c, _⟩ := st.lp rid he hrest
      exact ⟨a, c⟩
  · intro hr rid hc hrest hnk
    by_cases hcj : 0 < cnt rid (b.view.drop j)
    · exact ih.htouch hr rid hcj hrest hnk
    · have he : run = some rid := Classical.byContradiction fun hne => by rw [hg.cnt_other hb hne] at hc; omega
      have hrid : rid < s.heap.size := (hv.acc rid hc).1
      have e := ih.hframe hr rid (by rw [st.hsz]; exact hrid) (by omega)
      rw [e] at hnk ⊢
      rw [(st.horig rid).2]
      exact (st.tch rid he hnk).extG hext
  · intro hr rid hc hrest hncl
    by_cases hcj : 0 < cnt rid (b.view.drop j)
    · exact ih.ci hr rid hcj hrest hncl
    · have he : run = some rid := Classical.byContradiction fun hne => by rw [hg.cnt_other hb hne] at hc; omega
      have hrid : rid < s.heap.size := (hv.acc rid hc).1
      have e := ih.hframe hr rid (by rw [st.hsz]; exact hrid) (by omega)
      rw [e] at hncl ⊢
      exact (st.lp rid he hrest).2.2 (fun hcl => hncl (by
        rw [(st.horig rid).2]; exact (CleanT.iffG hext).mpr hcl))

/-! ## the group steps -/

/-- a group of records without run: the sub-batch goes to the handler -/
theorem none_stepG {G : Ctx} (_hs : Src G) {X : Acker} {C0 : MC G X} {b : Batch} {rs : List (Option Nat)} (hb : VB b rs)
    {sm : List Nat} {isAck : Bool} {task : Nat} (hn : isAck = false → NackOK b) {rest : Nat → Nat} {doom : Nat → Prop}
    {nx : Nat} (hnx : NextOK rest b sm nx) (hnk : NoSplitKey b) {i j : Nat} {s : PS}
    (hv : VInvG C0 b sm rest doom isAck nx i s) (hg : Grp b rs i j none) {sb : Batch} (hsub : b.sub i j = .ok sb)
    {fuel : Nat} {r1 : Except Stop Unit} {s1 : PS} (hc : exec (ackerCall fuel X sb isAck task) s = (r1, s1)) :
    ExtT [] [] (fun _ => False) (G.view s) (G.view s1) ∧ WSeen G s1 ∧ (r1 ≠ .ok () → C0.Err s1) ∧
      (r1 = .ok () → StpG C0 rest doom sm j nx none s s1) := by
  have hij := hg.lt
  have hjl := hg.le
  have hm := hv.srcmap
  obtain ⟨_, _, _, _, f1, f2, f3, f4, _, _⟩ := sub_ok_fields hsub
  obtain ⟨hsr, hvb⟩ := rows_sub hb hsub
  have hsbl : sb.recs.length = j - i := by rw [f1]; simp; omega
  have hspl : sb.pos.length = j - i := by rw [f3]; simp [hb.plen]; omega
  -- the rows of the group have no run
  have hrows : ∀ k : Nat, i ≤ k → k < j → ∃ row, b.rows[k]? = some row ∧ row.run = none := by
    intro k h1 h2
    obtain ⟨row, hrow⟩ := rows_some b (k := k) (by omega)
    have := (rows_fields hb hrow).2.2.2
    rw [hg.all k h1 h2] at this
    exact ⟨row, hrow, (Option.some.inj this).symm⟩
  obtain ⟨qi, hqi⟩ := hm.get (k := i) (by omega)
  have hinv : C0.Inv qi s := by have := hv.inv; rw [nxJ_someG hqi] at this; exact this
  have hcons := hm.consec hrows hqi
  -- a row of the sub-batch
  have hsbrow : ∀ (q : Nat) (row : Row), sb.rows[q]? = some row →
      b.rows[i + q]? = some row ∧ i + q < j ∧ row.run = none ∧ sm[i + q]? = some (qi + q) := by
    intro q row hrow
    obtain ⟨a1, a2⟩ := sub_row hb hsub hrow
    obtain ⟨row', c1, c2⟩ := hrows (i + q) (by omega) a2
    rw [a1] at c1; cases c1
    exact ⟨a1, a2, c2, hcons q a2⟩
  have hsplit : sb.split = [] := by
    apply sub_split_nil hsub
    intro p hp
    rw [List.drop_take] at hp
    obtain ⟨k, h1, h2, h3⟩ := mem_slice hp
    obtain ⟨row, a1, a2⟩ := hrows k h1 h2
    have := (rows_fields hb a1).2.2.1
    rw [h3] at this; cases this
    exact hnk k row a1 a2
  have hbok : BOK sb := by
    refine ⟨Or.inl hsplit, ?_, by rw [f2]; simp [hb.slen]; omega, by rw [hspl, hsbl]⟩
    intro rs' hrs'
    rw [hvb.runs] at hrs'
    cases hrs'
    rw [List.eq_replicate_iff]
    refine ⟨hvb.rlen, ?_⟩
    intro x hx
    obtain ⟨q, hq, rfl⟩ := List.getElem_of_mem hx
    obtain ⟨row, hrow⟩ := rows_some sb (k := q) (by rw [← hvb.rlen]; exact hq)
    have := (rows_fields hvb hrow).2.2.2
    rw [List.getElem?_eq_getElem hq] at this
    rw [Option.some.inj this]
    exact (hsbrow q row hrow).2.2.1
  have hsn : isAck = false → NackOK sb := by
    intro hi' x hx
    rw [f2] at hx
    exact hn hi' x ((List.take_sublist j b.st).subset ((List.drop_sublist i _).subset hx))
  have hal : Align G qi sb := by
    constructor
    · intro q p hq
      obtain ⟨row, hrow⟩ := rows_some sb (k := q) (by rw [← hbok.pos_len]; exact (List.getElem?_eq_some_iff.mp hq).1)
      have := (rows_fields hvb hrow).2.2.1
      rw [hq] at this; cases this
      obtain ⟨a1, a2, a3, a4⟩ := hsbrow q row hrow
      obtain ⟨src, c1, c2, _⟩ := hm.key (i + q) row (qi + q) a1 a4
      refine ⟨src, c1, ?_⟩
      rw [← c2]; unfold rowKey; rw [a3]
    · intro q r src hq hsrc
      obtain ⟨row, hrow⟩ := rows_some sb (k := q) (List.getElem?_eq_some_iff.mp hq).1
      have := (rows_fields hvb hrow).1
      rw [hq] at this; cases this
      obtain ⟨a1, a2, a3, a4⟩ := hsbrow q row hrow
      obtain ⟨src', c1, _, c3⟩ := hm.key (i + q) row (qi + q) a1 a4
      rw [hsrc] at c1; cases c1
      exact c3
  -- the frontier afterwards
  obtain ⟨rowl, hrowl, hrunl⟩ := hrows (j - 1) (by omega) (by omega)
  have hql : sm[j - 1]? = some (qi + (j - 1 - i)) := by
    have := hcons (j - 1 - i) (by omega)
    rw [show i + (j - 1 - i) = j - 1 by omega] at this
    exact this
  obtain ⟨hn1, hn2⟩ := front_next hm hb hnx (by omega) hrowl hql (fun rid hrid => by rw [hrunl] at hrid; cases hrid)
  have hfr : nxJ sm nx j = qi + sb.pos.length :=
    nxJ_eqG (fun q hq => by rw [hn1 q hq, hspl]; omega) (fun hle => by rw [hn2 hle, hspl]; omega)
  -- the handler call
  have hcall := handlerCallG C0 hinv hbok hsplit hsn hal (by omega) (by
    intro ha q src hq hsrc
    obtain ⟨row, hrow⟩ := rows_some sb (k := q) (by rw [← hbok.pos_len]; exact hq)
    obtain ⟨a1, a2, a3, a4⟩ := hsbrow q row hrow
    obtain ⟨_, c2, c3⟩ := hv.just ha (i + q) row (qi + q) src (by omega) a1 a4 hsrc
    exact just_of_clean_coverG (c3 a3) c2) hc
  have hheap := hcall.heap
  refine ⟨hcall.view, hv.wseen.extG hcall.view hcall.seen, hcall.err, fun hr => ?_⟩
  refine ⟨by rw [hfr]; exact hcall.ok hr, hcall.view, hcall.seen, by rw [hheap], fun _ _ => by rw [hheap],
    fun _ => by rw [hheap]; exact ⟨rfl, rfl⟩, fun _ h => by rw [hheap]; exact h, (fun _ h => nomatch h), (fun _ h => nomatch h)⟩

/-- what is known about a group of run `rid` -/
theorem run_factsG {G : Ctx} (hs : Src G) {X : Acker} {C0 : MC G X} {b : Batch} {rs : List (Option Nat)} (hb : VB b rs)
    {sm : List Nat} {rest : Nat → Nat} {doom : Nat → Prop} {isAck : Bool} {nx i j rid : Nat} {s : PS}
    (hv : VInvG C0 b sm rest doom isAck nx i s) (hg : Grp b rs i j (some rid)) :
    ∃ (qi : Nat) (src : Rec), sm[i]? = some qi ∧ G.all[qi]? = some src ∧ C0.Inv qi s ∧ rid < s.heap.size ∧
      keyOf (s.heap[rid]!).origPos = keyR src ∧ root (s.heap[rid]!).origRec = root src ∧
      (isAck = true → Cover (G.view s) C0.D (root src)) ∧
      (∀ k : Nat, i ≤ k → k < j → ∃ row, b.rows[k]? = some row ∧ row.run = some rid ∧ sm[k]? = some qi) := by
  have hij := hg.lt
  have hjl := hg.le
  have hm := hv.srcmap
  have hrows : ∀ k : Nat, i ≤ k → k < j → ∃ row, b.rows[k]? = some row ∧ row.run = some rid := by
    intro k h1 h2
    obtain ⟨row, hrow⟩ := rows_some b (k := k) (by omega)
    have := (rows_fields hb hrow).2.2.2
    rw [hg.all k h1 h2] at this
    exact ⟨row, hrow, (Option.some.inj this).symm⟩
  obtain ⟨qi, hqi⟩ := hm.get (k := i) (by omega)
  obtain ⟨rowi, hrowi, hruni⟩ := hrows i (Nat.le_refl _) hij
  obtain ⟨src, hsrc, hkey, _⟩ := hm.key i rowi qi hrowi hqi
  have hkey' : keyOf (s.heap[rid]!).origPos = keyR src := by
    rw [← hkey]; unfold rowKey; rw [hruni]
  have hcpos : 0 < cnt rid (b.view.drop i) := by rw [hg.cnt_self hb rfl]; omega
  have hrid : rid < s.heap.size := (hv.acc rid hcpos).1
  have hroot : root (s.heap[rid]!).origRec = root src := by
    obtain ⟨src', hmem, a1, a2⟩ := hv.hlin rid (Or.inl hcpos)
    obtain ⟨q', hq'⟩ := List.getElem?_of_mem hmem
    have := hs.idx_of_key hq' hsrc (a1.trans hkey')
    subst this
    rw [hsrc] at hq'
    cases hq'
    exact a2
  refine ⟨qi, src, hqi, hsrc, by have := hv.inv; rw [nxJ_someG hqi] at this; exact this, hrid, hkey', hroot, ?_, ?_⟩
  · intro ha
    exact (hv.just ha i rowi qi src (Nat.le_refl _) hrowi hqi hsrc).2.1
  · intro k h1 h2
    obtain ⟨row, hrow, hrun⟩ := hrows k h1 h2
    obtain ⟨q, hq⟩ := hm.get (k := k) (by omega)
    have := hm.src_of_run hs hrowi hrow hruni hrun hqi hq
    subst this
    exact ⟨row, hrow, hrun, hq⟩

/-- a row flagged nack contradicts an ack vote -/
theorem no_nack_rowG {G : Ctx} {X : Acker} {C0 : MC G X} {b : Batch} {sm : List Nat} {rest : Nat → Nat} {doom : Nat → Prop}
    {nx i : Nat} {s : PS} (hv : VInvG C0 b sm rest doom true nx i s) {k : Nat} {row : Row} (hik : i ≤ k)
    (hrow : b.rows[k]? = some row) (hfl : row.st.flag = .nack) : False := by
  obtain ⟨q, hq⟩ := hv.srcmap.get (rows_lt hrow)
  obtain ⟨src, hsrc, _⟩ := hv.srcmap.key k row q hrow hq
  exact (hv.just rfl k row q src hik hrow hq hsrc).1 hfl

/-- a group of run `rid` with pieces outside the batch: the ledger entry is advanced, nothing is released -/
theorem hold_stepG {G : Ctx} (hs : Src G) {X : Acker} {C0 : MC G X} {b : Batch} {rs : List (Option Nat)} (hb : VB b rs)
    {sm : List Nat} {isAck : Bool} {task : Nat} {rest : Nat → Nat} {doom : Nat → Prop} {nx : Nat}
    (hnx : NextOK rest b sm nx) (hrl : RestLast rest b) {i j rid : Nat} {s : PS}
    (hv : VInvG C0 b sm rest doom isAck nx i s) (hg : Grp b rs i j (some rid)) (hrest : 0 < rest rid) {e : Option Err}
    (hok : RunOK (voted (s.heap[rid]!) (j - i) isAck task e) (rest rid)) :
    StpG C0 rest doom sm j nx (some rid) s (setRun rid (voted (s.heap[rid]!) (j - i) isAck task e) s) := by
  have hij := hg.lt
  have hjl := hg.le
  have hm := hv.srcmap
  obtain ⟨qi, src, hqi, hsrc, hinv, hrid, hkey, hroot, htch, hrows⟩ := run_factsG hs hb hv hg
  obtain ⟨vf1, vf2, vf3, vf4⟩ := voted_fields (s.heap[rid]!) (j - i) isAck task e
  have vn := voted_nacked (s.heap[rid]!) (j - i) isAck task e
  obtain ⟨t1, t2, t3, t4, t5⟩ := set_facts s.heap rid (voted (s.heap[rid]!) (j - i) isAck task e) hrid vf3
    (voted_origRec _ _ _ _ _) (fun h => by rw [vn, h]; rfl)
  have hcpos : 0 < cnt rid (b.view.drop i) := by rw [hg.cnt_self hb rfl]; omega
  have hend : b.recs.length ≤ j :=
    hold_end hb hrl (Nat.lt_of_lt_of_le hcpos (cnt_drop_le _ _ _)) hrest (hg.tail rid rfl)
  obtain ⟨rowl, hrowl, hrunl, hql⟩ := hrows (j - 1) (by omega) (by omega)
  have hfr : nxJ sm nx j = qi :=
    nxJ_eqG (fun q hq => by have := hm.lt hq; omega)
      (fun _ => front_hold hm hnx hend hrowl hql hrunl hrest)
  refine ⟨by rw [hfr]; exact C0.frame hinv (sameBut_setRunG _ _ _ _),
    by rw [view_same G s _ rfl]; exact ExtT.refl _ _ _ _, fun x hx => by rw [seen_setRunG]; exact hx,
    t1, t2, t3, t4, ?_, ?_⟩
  · intro rid' he hr'
    cases he
    show RunOK ((s.heap.set! rid _)[rid]!) _ ∧ 0 < ((s.heap.set! rid _)[rid]!).terminal ∧
      (_ → ((s.heap.set! rid _)[rid]!).nacked = true ∨ _)
    rw [t5]
    refine ⟨hok, by rw [vf1]; omega, fun hncl => ?_⟩
    rcases hv.ci rid hcpos hncl with h | h | ⟨k, row, hik, hrow, hrun, hfl⟩
    · left; rw [vn, h]; rfl
    · exact Or.inr h
    · cases isAck with
      | true => exact (no_nack_rowG hv hik hrow hfl).elim
      | false => left; rw [vn]; simp
  · intro rid' he hnk
    cases he
    have hnk' : ((s.heap.set! rid (voted (s.heap[rid]!) (j - i) isAck task e))[rid]!).nacked = false := hnk
    rw [t5, vn] at hnk'
    have ha : isAck = true := by cases isAck <;> simp at hnk' ⊢
    rw [hroot]; exact htch ha

/-- the last group of a run all of whose pieces are in the batch: the original goes to the handler -/
theorem rel_stepG {G : Ctx} (hs : Src G) {X : Acker} {C0 : MC G X} {b : Batch} {rs : List (Option Nat)} (hb : VB b rs)
    {sm : List Nat} {isAck : Bool} {task : Nat} {rest : Nat → Nat} {doom : Nat → Prop} {nx : Nat}
    (hdoom : ∀ rid, doom rid → 0 < rest rid) (hnx : NextOK rest b sm nx) {i j rid : Nat} {s : PS}
    (hv : VInvG C0 b sm rest doom isAck nx i s) (hg : Grp b rs i j (some rid)) (hrest : rest rid = 0)
    (hmax : rs[j]? ≠ some (some rid)) {e : Option Err} {x : SplitRun}
    (hx : x = { voted (s.heap[rid]!) (j - i) isAck task e with released := true })
    (hnerr : x.nacked = true → x.nackErr.isSome = true) {bb : Batch} {ia : Bool} {tk : Nat}
    (hbb : (ia = true ∧ bb = runAckBatch x ∧ x.nacked = false) ∨ (ia = false ∧ bb = runNackBatch x ∧ x.nacked = true))
    {fuel : Nat} {r1 : Except Stop Unit} {s1 : PS}
    (hc : exec (ackerCall fuel X bb ia tk) (setRun rid x s) = (r1, s1)) :
    ExtT [] [] (fun _ => False) (G.view s) (G.view s1) ∧ WSeen G s1 ∧ (r1 ≠ .ok () → C0.Err s1) ∧
      (r1 = .ok () → StpG C0 rest doom sm j nx (some rid) s s1) := by
  have hij := hg.lt
  have hjl := hg.le
  have hm := hv.srcmap
  obtain ⟨qi, src, hqi, hsrc, hinv, hrid, hkey, hroot, htch, hrows⟩ := run_factsG hs hb hv hg
  obtain ⟨vf1, vf2, vf3, vf4⟩ := voted_fields (s.heap[rid]!) (j - i) isAck task e
  have vn := voted_nacked (s.heap[rid]!) (j - i) isAck task e
  have hxo : x.origPos = (s.heap[rid]!).origPos := by rw [hx]; exact vf3
  have hxr : x.origRec = (s.heap[rid]!).origRec := by rw [hx]; exact voted_origRec _ _ _ _ _
  have hxn : x.nacked = ((s.heap[rid]!).nacked || !isAck) := by rw [hx]; exact vn
  obtain ⟨t1, t2, t3, t4, t5⟩ := set_facts s.heap rid x hrid hxo hxr (fun h => by rw [hxn, h]; rfl)
  have hcpos : 0 < cnt rid (b.view.drop i) := by rw [hg.cnt_self hb rfl]; omega
  obtain ⟨rowl, hrowl, hrunl, hql⟩ := hrows (j - 1) (by omega) (by omega)
  obtain ⟨hn1, hn2⟩ := front_next hm hb hnx (by omega) hrowl hql (fun rid' hrid' => by
    rw [hrunl] at hrid'; cases hrid'; exact ⟨hrest, hmax⟩)
  -- the state after the ledger update
  have hI0 : C0.Inv qi (setRun rid x s) := C0.frame hinv (sameBut_setRunG _ _ _ _)
  have hv0 : G.view (setRun rid x s) = G.view s := view_setRunG G rid x s
  have hrecs : bb.recs = [x.origRec] := by rcases hbb with ⟨_, h, _⟩ | ⟨_, h, _⟩ <;> rw [h] <;> rfl
  have hpos : bb.pos = [x.origPos] := by rcases hbb with ⟨_, h, _⟩ | ⟨_, h, _⟩ <;> rw [h] <;> rfl
  have hbok : BOK bb := by
    rcases hbb with ⟨_, h, _⟩ | ⟨_, h, _⟩ <;> rw [h] <;> exact ⟨Or.inl rfl, (fun _ h => nomatch h), rfl, rfl⟩
  have hbsp : bb.split = [] := by rcases hbb with ⟨_, h, _⟩ | ⟨_, h, _⟩ <;> rw [h] <;> rfl
  have hsn : ia = false → NackOK bb := by
    intro hia
    rcases hbb with ⟨h, _, _⟩ | ⟨_, h, h3⟩
    · rw [h] at hia; cases hia
    · rw [h]
      intro st hst
      simp only [runNackBatch, List.mem_singleton] at hst
      subst hst
      exact hnerr h3
  have hal : Align G qi bb := by
    constructor
    · intro q p hq
      rw [hpos] at hq
      cases q with
      | zero =>
        simp only [List.getElem?_cons_zero, Option.some.injEq] at hq
        subst hq
        exact ⟨src, hsrc, by rw [hxo]; exact hkey⟩
      | succ q => simp at hq
    · intro q r src' hq hsrc'
      rw [hrecs] at hq
      cases q with
      | zero =>
        simp only [List.getElem?_cons_zero, Option.some.injEq] at hq
        subst hq
        rw [Nat.add_zero, hsrc] at hsrc'; cases hsrc'
        rw [hxr]; exact hroot
      | succ q => simp at hq
  have hpl : bb.pos.length = 1 := by rw [hpos]; rfl
  have hfr : nxJ sm nx j = qi + bb.pos.length :=
    nxJ_eqG (fun q hq => by rw [hn1 q hq, hpl]) (fun hle => by rw [hn2 hle, hpl])
  have hcall := handlerCallG C0 hI0 hbok hbsp hsn hal (by omega) (by
    intro hia q src' hq hsrc'
    have hq0 : q = 0 := by omega
    subst hq0
    rw [Nat.add_zero, hsrc] at hsrc'; cases hsrc'
    rcases hbb with ⟨_, _, hxk⟩ | ⟨hia', _, _⟩
    · have ha : isAck = true := by
        rw [hxn] at hxk; cases isAck <;> simp at hxk ⊢
      have hnk0 : (s.heap[rid]!).nacked = false := by
        rw [hxn] at hxk; cases h : (s.heap[rid]!).nacked <;> simp [h] at hxk ⊢
      subst ha
      have hclean : CleanT (G.view s) C0.T C0.D (root src) := by
        apply Classical.byContradiction
        intro hncl
        rcases hv.ci rid hcpos (by rw [hroot]; exact hncl) with h | h | ⟨k, row, hik, hrow, hrun, hfl⟩
        · rw [hnk0] at h; cases h
        · have := hdoom rid h; omega
        · exact no_nack_rowG hv hik hrow hfl
      rw [hv0]
      exact just_of_clean_coverG hclean (htch rfl)
    · rw [hia'] at hia; cases hia) hc
  have hheap : s1.heap = (setRun rid x s).heap := hcall.heap
  have hview : ExtT [] [] (fun _ => False) (G.view s) (G.view s1) := by
    have := hcall.view; rw [hv0] at this; exact this
  have hseen : ∀ y ∈ Seen G s, y ∈ Seen G s1 := fun y hy => hcall.seen y (by rw [seen_setRunG]; exact hy)
  refine ⟨hview, hv.wseen.extG hview hseen, hcall.err, fun hr => ?_⟩
  refine ⟨by rw [hfr]; exact hcall.ok hr, hview, hseen, by rw [hheap]; exact t1, fun rid' h => by rw [hheap]; exact t2 rid' h,
    fun rid' => by rw [hheap]; exact t3 rid', fun rid' h => by rw [hheap]; exact t4 rid' h, ?_, ?_⟩
  · intro rid' he hr'
    cases he; omega
  · intro rid' he hnk
    cases he
    rw [hheap] at hnk
    have hnk' : ((s.heap.set! rid x)[rid]!).nacked = false := hnk
    rw [t5, hxn] at hnk'
    have ha : isAck = true := by cases isAck <;> simp at hnk' ⊢
    rw [hroot]; exact htch ha

/-! ## the vote loop -/

theorem voteG {G : Ctx} (hs : Src G) {X : Acker} (C0 : MC G X) (b : Batch) (rs : List (Option Nat)) (hb : VB b rs)
    (sm : List Nat) (isAck : Bool) (task : Nat) (hn : isAck = false → NackOK b) (rest : Nat → Nat) (doom : Nat → Prop)
    (nx : Nat) (hdoom : ∀ rid, doom rid → 0 < rest rid) (hnx : NextOK rest b sm nx) (hrl : RestLast rest b)
    (hnk : NoSplitKey b) :
    ∀ (fuel i : Nat) (s s' : PS) (r : Except Stop Unit), VInvG C0 b sm rest doom isAck nx i s →
      exec (voteLoop fuel X b isAck task i) s = (r, s') → OutG C0 [] [] rest doom b sm i nx s s' r := by
  intro fuel
  induction fuel with
  | zero =>
    intro i s s' r hv h; rw [voteLoop] at h; cases h
    exact OutG.failG (ExtT.refl _ _ _ _) hv.wseen (C0.w_err (C0.inv_w hv.inv))
  | succ fuel ih =>
    intro i s s' r hv h
    have hstay : ∀ e : Stop, OutG C0 [] [] rest doom b sm i nx s s (.error e) :=
      fun e => OutG.failG (ExtT.refl _ _ _ _) hv.wseen (C0.w_err (C0.inv_w hv.inv))
    by_cases hi : i < b.recs.length
    · rw [voteLoop_unfold fuel X b isAck task i hi, exec_bind] at h
      have hilt : i < rs.length := by rw [hb.rlen]; exact hi
      have hra : runAt b i = .ok rs[i] := by unfold runAt; rw [hb.runs]; exact idx_ok _ hilt
      rw [hra, exec_liftR_ok] at h
      dsimp only at h
      rw [exec_bind] at h
      obtain ⟨j, hj1, hj2, hj3, hj4, hj5⟩ := extent_go_max b rs[i] s rs hb.runs (b.recs.length - (i + 1)) (i + 1)
        (by rw [hb.rlen]; omega)
      rw [hj1] at h
      dsimp only at h
      have hjl : j ≤ b.recs.length := by omega
      have hall : ∀ k : Nat, i ≤ k → k < j → rs[k]? = some rs[i] := by
        intro k h1 h2
        by_cases hki : k = i
        · subst hki; exact List.getElem?_eq_getElem hilt
        · exact hj4 k (by omega) h2
      have hmax : rs[j]? ≠ some rs[i] := by
        by_cases hjj : j < b.recs.length
        · exact hj5 (by omega)
        · rw [List.getElem?_eq_none_iff.mpr (by rw [hb.rlen]; omega)]
          exact fun h => nomatch h
      cases hrun : rs[i] with
      | none =>
        rw [hrun] at h hall
        dsimp only at h
        have hg : Grp b rs i j none := ⟨by omega, hjl, hall, fun _ h => nomatch h⟩
        rw [exec_bind] at h
        rcases hsub : b.sub i j with e | sb
        · rw [hsub, exec_liftR_err] at h; cases h; exact hstay _
        · rw [hsub, exec_liftR_ok] at h
          dsimp only at h
          rw [exec_bind] at h
          rcases hc : exec (ackerCall fuel X sb isAck task) s with ⟨r1, s1⟩
          rw [hc] at h
          obtain ⟨p1, p2, p3, p4⟩ := none_stepG hs hb hn hnx hnk hv hg hsub hc
          cases r1 with
          | error e => dsimp only at h; cases h; exact OutG.failG p1 p2 (p3 (fun h => nomatch h))
          | ok u =>
            dsimp only at h
            have st := p4 rfl
            exact OutG.composeG hb hv hg st (ih j s1 s' r (hv.nextG hb hg st) h)
      | some rid =>
        rw [hrun] at h hall hmax
        dsimp only at h
        rw [run_block_eq fuel X b isAck task i j rid s] at h
        dsimp only at h
        have hg : Grp b rs i j (some rid) := ⟨by omega, hjl, hall, fun rid' he => by
          cases he; exact tail_zero hs hv.srcmap hb (by omega) hall hmax⟩
        have hcs := hg.cnt_self hb rfl
        obtain ⟨hrid, hok⟩ := hv.acc rid (by rw [hcs]; omega)
        rw [hcs] at hok
        have he : isAck = false → (firstRunError ((b.st.take j).drop i)).isSome = true := by
          intro hi'
          apply firstRunError_isSome
          · intro he
            have : ((b.st.take j).drop i).length = j - i := by simp [hb.slen]; omega
            rw [he] at this; simp at this; omega
          · intro x hx
            exact hn hi' x ((List.take_sublist j b.st).subset ((List.drop_sublist i _).subset hx))
        generalize he' : firstRunError ((b.st.take j).drop i) = e at h he
        by_cases hm0 : 0 < rest rid
        · -- the run stays open
          obtain ⟨w1, w2⟩ := runVote_hold (s.heap[rid]!) (j - i) (rest rid) isAck task e hok hm0 he
          rw [w1] at h
          dsimp only at h
          have st := hold_stepG (nx := nx) hs hb hnx hrl hv hg hm0 w2
          exact OutG.composeG hb hv hg st (ih j _ s' r (hv.nextG hb hg st) h)
        · -- the run completes: the original goes to the handler
          have hm0' : rest rid = 0 := by omega
          rw [hm0'] at hok
          have w1 := runVote_done (s.heap[rid]!) (j - i) isAck task e hok
          rw [w1] at h
          have hnerr := voted_nerr (s.heap[rid]!) (j - i) isAck task e hok.nerr he
          generalize hx : ({ voted (s.heap[rid]!) (j - i) isAck task e with released := true } : SplitRun) = x at h
          have hxn : x.nacked = (voted (s.heap[rid]!) (j - i) isAck task e).nacked := by rw [← hx]
          have hxe : x.nackErr = (voted (s.heap[rid]!) (j - i) isAck task e).nackErr := by rw [← hx]
          have key : ∀ (bb : Batch) (ia : Bool) (tk : Nat),
              ((ia = true ∧ bb = runAckBatch x ∧ x.nacked = false) ∨ (ia = false ∧ bb = runNackBatch x ∧ x.nacked = true)) →
              exec (do ackerCall fuel X bb ia tk
                       voteLoop fuel X b isAck task j) (setRun rid x s) = (r, s') →
              OutG C0 [] [] rest doom b sm i nx s s' r := by
            intro bb ia tk hbb h
            rw [exec_bind] at h
            rcases hc : exec (ackerCall fuel X bb ia tk) (setRun rid x s) with ⟨r1, s1⟩
            rw [hc] at h
            obtain ⟨p1, p2, p3, p4⟩ := rel_stepG (task := task) (e := e) hs hb hdoom hnx hv hg hm0' hmax hx.symm
              (fun hk => by rw [hxe]; exact hnerr (by rw [← hxn]; exact hk)) hbb hc
            cases r1 with
            | error e => dsimp only at h; cases h; exact OutG.failG p1 p2 (p3 (fun h => nomatch h))
            | ok u =>
              dsimp only at h
              have st := p4 rfl
              exact OutG.composeG hb hv hg st (ih j s1 s' r (hv.nextG hb hg st) h)
          cases hnk : (voted (s.heap[rid]!) (j - i) isAck task e).nacked with
          | true =>
            rw [hnk] at h
            simp only [if_true] at h
            exact key (runNackBatch x) false x.nackTask (Or.inr ⟨rfl, rfl, by rw [hxn]; exact hnk⟩) h
          | false =>
            rw [hnk] at h
            simp only [Bool.false_eq_true, if_false] at h
            exact key (runAckBatch x) true 0 (Or.inl ⟨rfl, rfl, by rw [hxn]; exact hnk⟩) h
    · rw [voteLoop_end fuel X b isAck task i hi] at h
      cases h
      have hlen : sm.length = b.recs.length := by rw [hv.srcmap.len, rows_length]
      have hnil : b.view.drop i = [] := List.drop_of_length_le (by rw [hb.view_len]; omega)
      have hfr : nxJ sm nx i = nx := nxJ_eqG (fun q hq => by have := hv.srcmap.lt hq; omega) (fun _ => rfl)
      refine ⟨ExtT.refl _ _ _ _, hv.wseen, fun h => absurd rfl h, fun _ => by rw [← hfr]; exact hv.inv,
        fun _ e he => Or.inl he, fun _ => Nat.le_refl _, fun _ _ _ _ => rfl, fun _ _ _ => ⟨rfl, rfl⟩, ?_, ?_, ?_⟩
      · intro _ rid hc; rw [hnil, cnt_nil] at hc; omega
      · intro _ rid hc; rw [hnil, cnt_nil] at hc; omega
      · intro _ rid hc; rw [hnil, cnt_nil] at hc; omega

end Conduit.Funnel
