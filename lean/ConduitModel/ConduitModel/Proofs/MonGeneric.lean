import ConduitModel.Proofs.PassWorker
import ConduitModel.Proofs.WorkerAcker
import ConduitModel.Spec.FunnelRun

/-!
# The only emitters: a generic invariant-preservation theorem for the engine

`engine_keeps`: a state predicate `I` that
* does not look at the split-run heap, the fan-out tallies and the remaining fan-out orders, and
* is preserved by the four operations that touch the event log, the scripts or the DLQ window —
  `procDo`, `destDo … none`, `workerAck`, `workerNack` —
is preserved by the whole task recursion (`doTaskAttempt`, `taintedLoop`, `doNextTask`, `branches`)
and by every ack/nack handler chain (`ackerCall`, `releaseLoop`, `voteLoop`), for every fuel, tree,
batch and outcome. Used for: the log only grows (`log_mono`), scripts stay consistent with the log.
-/
namespace Conduit.Funnel

/-- `t` differs from `s` at most in heap, tallies and remaining fan-out orders -/
structure SameObs (s t : PS) : Prop where
  log : t.log = s.log
  scripts : t.scripts = s.scripts
  win : t.win = s.win
  thr : t.thr = s.thr
  size : t.size = s.size
  dlqTask : t.dlqTask = s.dlqTask

/-- what `engine_keeps` asks of an invariant -/
structure Prims (I : PS → Prop) : Prop where
  frame : ∀ s t : PS, SameObs s t → I s → I t
  proc : ∀ (task : Nat) (b : Batch), Spec I (procDo task b) (fun _ => True)
  dest : ∀ (task : Nat) (b : Batch), Spec I (destDo task b none) (fun _ => True)
  ack : ∀ b : Batch, Spec I (workerAck b) (fun _ => True)
  nack : ∀ (b : Batch) (task : Nat), Spec I (workerNack b task) (fun _ => True)

namespace Spec
variable {I : PS → Prop}

theorem forIn {α β} (body : α → β → M (ForInStep β))
    (hb : ∀ a b, Spec I (body a b) (fun _ => True)) :
    ∀ (l : List α) (init : β), Spec I (forIn l init body) (fun _ => True) := by
  intro l
  induction l with
  | nil => intro init; exact Spec.pure _ trivial
  | cons a l ih =>
    intro init
    rw [List.forIn_cons]
    apply Spec.bind (hb a init)
    intro r _
    cases r with
    | done b => exact Spec.pure _ trivial
    | yield b => exact ih b

theorem top {α} {x : M α} {P : α → Prop} (h : Spec I x P) : Spec I x (fun _ => True) := h.weaken (fun _ _ => trivial)

end Spec

section
variable {I : PS → Prop} (hI : Prims I)
include hI

theorem keeps_modify (f : PS → PS) (hf : ∀ s, SameObs s (f s)) : Spec I (modify f : M PUnit) (fun _ => True) :=
  Spec.modify f (fun t ht => hI.frame t (f t) (hf t) ht) trivial

theorem keeps_set (s0 s1 : PS) (h0 : I s0) (h : SameObs s0 s1) : Spec I (set s1 : M PUnit) (fun _ => True) :=
  Spec.set s1 (hI.frame s0 s1 h h0) trivial

end

macro "spec_step" : tactic => `(tactic| with_reducible first
  | exact Spec.pure _ trivial
  | exact Spec.throw _
  | exact Spec.liftR _ (fun _ _ => trivial)
  | (apply Spec.get_bind; intro _ _)
  | apply Spec.bind (P := fun _ => True)
  | intro _
  | dsimp only
  | split)

theorem voteBody_spec {I : PS → Prop} (hI : Prims I) (id : Nat) (ob : Batch) (isAck : Bool) (task i : Nat) (m : MA) :
    Spec I (voteBody id ob isAck task i m) (fun _ => True) := by
  unfold voteBody
  dsimp only
  repeat (first
    | (with_reducible exact keeps_modify hI _ (fun s => ⟨rfl, rfl, rfl, rfl, rfl, rfl⟩))
    | spec_step)

theorem extentBody_spec {I : PS → Prop} (batch : Batch) (run : Option Nat) (k j : Nat) :
    Spec I (extentBody batch run k j) (fun _ => True) := by
  unfold extentBody
  repeat spec_step

/-- the ack/nack handler chains preserve `I` -/
theorem ackers_keep_inv {I : PS → Prop} (hI : Prims I) : ∀ fuel : Nat,
    (∀ (acker : Acker) (b : Batch) (a : Bool) (t : Nat), Spec I (ackerCall fuel acker b a t) (fun _ => True)) ∧
    (∀ (id : Nat) (parent : Acker), Spec I (releaseLoop fuel id parent) (fun _ => True)) ∧
    (∀ (parent : Acker) (batch : Batch) (a : Bool) (t i : Nat), Spec I (voteLoop fuel parent batch a t i) (fun _ => True)) := by
  intro fuel
  induction fuel with
  | zero =>
    refine ⟨?_, ?_, ?_⟩
    · intro acker b a t; rw [ackerCall]; exact Spec.throw _
    · intro id parent; rw [releaseLoop]; exact Spec.throw _
    · intro parent batch a t i; rw [voteLoop]; exact Spec.throw _
  | succ fuel ih =>
    obtain ⟨ihA, ihR, ihV⟩ := ih
    have hmod : ∀ f : PS → PS, (∀ s, SameObs s (f s)) → Spec I (modify f : M PUnit) (fun _ => True) :=
      fun f hf => keeps_modify hI f hf
    refine ⟨?_, ?_, ?_⟩
    · intro acker b a t
      cases acker with
      | worker =>
        rw [ackerCall]
        cases a
        · exact hI.nack b t
        · exact hI.ack b
      | run parent => rw [ackerCall_run]; exact ihV parent b a t 0
      | multi id parent =>
        rw [ackerCall_multi]
        apply Spec.get_bind; intro s0 _
        apply Spec.bind (Spec.forIn _ (voteBody_spec hI _ _ _ _) _ _)
        intro m _
        apply Spec.bind (P := fun _ => True)
        · exact hmod _ (fun s => ⟨rfl, rfl, rfl, rfl, rfl, rfl⟩)
        · intro _ _; exact ihR id parent
    · intro id parent
      rw [releaseLoop]
      apply Spec.get_bind; intro s0 _
      dsimp only
      repeat (first
        | with_reducible exact ihA _ _ _ _
        | with_reducible exact ihR _ _
        | (with_reducible exact hmod _ (fun s => ⟨rfl, rfl, rfl, rfl, rfl, rfl⟩))
        | spec_step)
    · intro parent batch a t i
      by_cases hi : i < batch.recs.length
      · rw [voteLoop_unfold fuel parent batch a t i hi]
        apply Spec.bind (Spec.liftR _ (fun _ _ => trivial) (P := fun _ => True))
        intro run _
        apply Spec.bind (Spec.forIn _ (extentBody_spec _ _) _ _)
        intro j _
        repeat (first
          | with_reducible exact ihA _ _ _ _
          | with_reducible exact ihV _ _ _ _ _
          | (with_reducible exact hmod _ (fun s => ⟨rfl, rfl, rfl, rfl, rfl, rfl⟩))
          | spec_step)
      · rw [voteLoop]; simp only [hi, if_false]; exact Spec.pure _ trivial


theorem taskDo_keeps {I : PS → Prop} (hI : Prims I) (node : TaskNode) (b : Batch) :
    Spec I (taskDo node b) (fun _ => True) := by
  unfold taskDo
  split
  · exact hI.proc _ _
  · exact hI.dest _ _
  · exact Spec.pure _ trivial

/-- the task recursion preserves `I` -/
theorem pipeline_keeps_inv {I : PS → Prop} (hI : Prims I) : ∀ fuel : Nat,
    (∀ (node : TaskNode) (b : Batch) (a : Acker) (retry : Option RetryAttempt) (skipDo : Bool),
      Spec I (doTaskAttempt fuel node b a retry skipDo) (fun _ => True)) ∧
    (∀ (node : TaskNode) (b : Batch) (a : Acker) (retry : Option RetryAttempt) (i : Nat),
      Spec I (taintedLoop fuel node b a retry i) (fun _ => True)) ∧
    (∀ (node : TaskNode) (b : Batch) (a : Acker), Spec I (doNextTask fuel node b a) (fun _ => True)) ∧
    (∀ (nexts : List TaskNode) (order : List Nat) (b : Batch) (a : Acker) (errs : Option Err) (pan : Option String),
      Spec I (branches fuel nexts order b a errs pan) (fun _ => True)) := by
  intro fuel
  induction fuel with
  | zero =>
    refine ⟨?_, ?_, ?_, ?_⟩
    · intro node b a retry skipDo; rw [doTaskAttempt]; exact Spec.throw _
    · intro node b a retry i; rw [taintedLoop]; exact Spec.throw _
    · intro node b a; rw [doNextTask]; exact Spec.throw _
    · intro nexts order b a errs pan; rw [branches]; exact Spec.throw _
  | succ fuel ih =>
    obtain ⟨ihD, ihT, ihN, ihB⟩ := ih
    have ihA := (ackers_keep_inv hI fuel).1
    refine ⟨?_, ?_, ?_, ?_⟩
    · intro node b a retry skipDo
      rw [doTaskAttempt]
      have hrest : ∀ b1 : Batch, Spec I (if (!b1.tainted) = true then
              if (node.next.isEmpty || !b1.hasActive) = true then ackerCall fuel a b1 true 0 else doNextTask fuel node b1 a
            else taintedLoop fuel node b1 a retry 0) (fun _ => True) := by
        intro b1
        repeat (first
          | with_reducible exact ihA _ _ _ _
          | with_reducible exact ihN _ _ _
          | with_reducible exact ihT _ _ _ _ _
          | spec_step)
      split
      · apply Spec.bind (P := fun _ => True) (Spec.pure _ trivial)
        intro b1 _; exact hrest b1
      · apply Spec.bind (P := fun _ => True)
        · apply Spec.tryCatch (taskDo_keeps hI node b)
          intro e
          split <;> exact Spec.throw _
        · intro b1 _; exact hrest b1
    · intro node b a retry i
      rw [taintedLoop]
      repeat (first
        | with_reducible exact ihA _ _ _ _
        | with_reducible exact ihN _ _ _
        | with_reducible exact ihT _ _ _ _ _
        | with_reducible exact ihD _ _ _ _ _
        | spec_step)
    · intro node b a
      rw [doNextTask]
      split
      · exact Spec.pure _ trivial
      · exact ihD _ _ _ _ _
      · apply Spec.get_bind; intro s0 h0
        repeat (first
          | with_reducible exact ihB _ _ _ _ _ _
          | (with_reducible exact keeps_set hI s0 _ h0 ⟨rfl, rfl, rfl, rfl, rfl, rfl⟩)
          | spec_step)
    · intro nexts order b a errs pan
      cases order with
      | nil =>
        unfold branches
        repeat spec_step
      | cons k rest =>
        rw [branches]
        split
        · exact ihB _ _ _ _ _ _
        · apply Spec.get_bind; intro s0 h0
          dsimp only
          apply Spec.bind (P := fun _ => True)
          · exact keeps_set hI s0 _ h0 ⟨rfl, rfl, rfl, rfl, rfl, rfl⟩
          · intro _ _
            apply Spec.bind (P := fun _ => True)
            · apply Spec.tryCatch
              · apply Spec.bind (P := fun _ => True) (ihD _ _ _ _ _)
                intro _ _; exact Spec.pure _ trivial
              · intro e; exact Spec.pure _ trivial
            · intro res _
              repeat (first
                | with_reducible exact ihB _ _ _ _ _ _
                | spec_step)

/-- one pass preserves `I` -/
theorem runPass_keeps {I : PS → Prop} (hI : Prims I) (fuel : Nat) (tree : TaskNode) (recs : List Rec) :
    Spec I (runPass fuel tree recs) (fun _ => True) :=
  (pipeline_keeps_inv hI fuel).1 _ _ _ _ _


/-- the whole run preserves `I` -/
theorem runBatches_keeps {I : PS → Prop} (hI : Prims I) (fuel : Nat) (tree : TaskNode) :
    ∀ batches : List (List Rec), Spec I (runBatches fuel tree batches) (fun _ => True) := by
  intro batches
  induction batches with
  | nil => exact Spec.pure _ trivial
  | cons b bs ih =>
    unfold runBatches
    apply Spec.bind (P := fun _ => True)
    · exact keeps_modify hI _ (fun s => ⟨rfl, rfl, rfl, rfl, rfl, rfl⟩)
    intro _ _
    apply Spec.bind (P := fun _ => True) (runPass_keeps hI fuel tree b)
    intro _ _
    exact ih

/-! ## the log only grows -/

theorem prims_logPrefix (L : List Ev) : Prims (fun t => L <+: t.log.toList) where
  frame := fun s t h hs => by rw [h.log]; exact hs
  proc := fun task b t ht => by
    refine ⟨?_, fun _ _ => trivial⟩
    obtain ⟨hp, h1, _⟩ := procDo_eq_model task b t
    have h1' : exec (procDo task b) t = _ := h1
    rw [h1']
    dsimp only
    rw [popReplyP_log]
    show L <+: (t.log.push _).toList
    rw [Array.toList_push]
    exact List.IsPrefix.trans ht (List.prefix_append _ _)
  dest := fun task b t ht => by
    refine ⟨?_, fun _ _ => trivial⟩
    have h1 : exec (destDo task b none) t = _ := destDo_eq_model task b none t
    rw [h1]
    dsimp only
    rw [popReplyP_log]
    show L <+: (t.log.push _).toList
    rw [Array.toList_push]
    exact List.IsPrefix.trans ht (List.prefix_append _ _)
  ack := fun b t ht => by
    refine ⟨?_, fun _ _ => trivial⟩
    have h1 : exec (workerAck b) t = workerAckP t b := workerAck_eq b t
    rw [h1]
    unfold workerAckP
    split
    · exact ht
    · dsimp only
      split <;>
      · show L <+: (t.log.push _).toList
        rw [Array.toList_push]
        exact List.IsPrefix.trans ht (List.prefix_append _ _)
  nack := fun b task t ht => by
    refine ⟨?_, fun _ _ => trivial⟩
    have h1 : exec (workerNack b task) t = workerNackP t b task := workerNack_eq b task t
    rw [h1]
    have hpush : ∀ (l : Array Ev) (e : Ev), L <+: l.toList → L <+: (l.push e).toList := by
      intro l e h
      rw [Array.toList_push]
      exact List.IsPrefix.trans h (List.prefix_append _ _)
    rcases workerNackP_spec t b task with ⟨r, h', _⟩ | ⟨r, h', _⟩ | ⟨n, r, h', _⟩ <;> rw [h']
    · exact ht
    · exact hpush _ _ ht
    · exact hpush _ _ (hpush _ _ ht)

/-- every engine computation only appends to the event log -/
theorem runBatches_log_mono (fuel : Nat) (tree : TaskNode) (batches : List (List Rec)) (s : PS) :
    s.log.toList <+: (exec (runBatches fuel tree batches) s).2.log.toList :=
  (runBatches_keeps (prims_logPrefix s.log.toList) fuel tree batches s (List.prefix_refl _)).1

end Conduit.Funnel
