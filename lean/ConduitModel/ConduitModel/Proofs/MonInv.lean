import ConduitModel.Proofs.MonAck
import ConduitModel.Proofs.PassTask

/-!
# The invariants of the soundness proof

* `GInv G s` — the state invariant: the monitor is silent so far, the scripts are consistent with the
  log, exactly the first `nAcked s` records read have been acknowledged, every root the DLQ has seen
  belongs to an acknowledged record, every `written` entry carries the root of its tag;
* `WBelow G s sub` — nothing pending has been written yet to the destinations `sub` (those still ahead);
* `Align G n0 b` — the records of batch `b` are the records `n0, n0+1, …` read: positions match and
  the roots are the source roots (lineage).
-/
namespace Conduit.Funnel
open Conduit.Funnel.Mon

structure GInv (G : Ctx) (s : PS) : Prop where
  safe : (G.mu s).tv = []
  sc : SC G s
  acked : ackedKeys s.log = (G.all.take (nAcked s)).map keyR
  dlqAny : ∀ x ∈ (G.mu s).dlqAny, NonPend G (nAcked s) x
  dlqOk : ∀ x ∈ (G.mu s).dlqOk, NonPend G (nAcked s) x
  wr : ∀ e ∈ (G.mu s).written, e.2.1 = e.2.2.1 % 1000

theorem GInv.nAcked_le {G : Ctx} {s : PS} (h : GInv G s) : nAcked s ≤ G.all.length := by
  have := congrArg List.length h.acked
  simp only [List.length_map, List.length_take] at this
  unfold nAcked at *
  omega

def WBelow (G : Ctx) (s : PS) (sub : List Nat) : Prop :=
  ∀ e ∈ (G.mu s).written, e.1 ∈ sub → NonPend G (nAcked s) e.2.1

structure Align (G : Ctx) (n0 : Nat) (b : Batch) : Prop where
  pos : ∀ (q : Nat) (p : PosV), b.pos[q]? = some p → ∃ src, G.all[n0 + q]? = some src ∧ keyOf p = keyR src
  lin : ∀ (q : Nat) (r src : Rec), b.recs[q]? = some r → G.all[n0 + q]? = some src → root r = root src

theorem Align.le {G : Ctx} {n0 : Nat} {b : Batch} (h : Align G n0 b) : n0 + b.pos.length ≤ G.all.length ∨ b.pos.length = 0 := by
  by_cases h0 : b.pos.length = 0
  · exact Or.inr h0
  · left
    have hlt : b.pos.length - 1 < b.pos.length := by omega
    obtain ⟨src, hsrc, _⟩ := h.pos (b.pos.length - 1) _ (List.getElem?_eq_getElem hlt)
    have := (List.getElem?_eq_some_iff.mp hsrc).1
    omega

theorem Align.keys {G : Ctx} {n0 : Nat} {b : Batch} (h : Align G n0 b) :
    keys b.pos = ((G.all.drop n0).take b.pos.length).map keyR := by
  apply List.ext_getElem?
  intro q
  simp only [List.getElem?_map, List.getElem?_take, List.getElem?_drop]
  by_cases hq : q < b.pos.length
  · obtain ⟨src, hsrc, hk⟩ := h.pos q _ (List.getElem?_eq_getElem hq)
    simp only [hq, if_true, hsrc, List.getElem?_eq_getElem hq, Option.map_some, hk]
  · simp only [hq, if_false, List.getElem?_eq_none_iff.mpr (Nat.le_of_not_lt hq), Option.map_none]

theorem take_add_map {α β} (f : α → β) (l : List α) (a c : Nat) :
    (l.take a).map f ++ ((l.drop a).take c).map f = (l.take (a + c)).map f := by
  rw [← List.map_append, List.take_add]

theorem Align.src {G : Ctx} {n0 : Nat} {b : Batch} (h : Align G n0 b) {q : Nat} (hq : q < b.pos.length) :
    ∃ src, G.all[n0 + q]? = some src := by
  obtain ⟨src, hsrc, _⟩ := h.pos q _ (List.getElem?_eq_getElem hq)
  exact ⟨src, hsrc⟩

/-- a sub-batch `[i, j)` is aligned at `n0 + i` -/
theorem Align.sub {G : Ctx} {n0 : Nat} {b sb : Batch} (h : Align G n0 b) {i j : Nat}
    (hp : sb.pos = (b.pos.take j).drop i) (hr : sb.recs = (b.recs.take j).drop i) : Align G (n0 + i) sb := by
  constructor
  · intro q p hq
    rw [hp, List.getElem?_drop, List.getElem?_take] at hq
    split at hq
    · have := h.pos (i + q) p hq
      rw [Nat.add_assoc]; exact this
    · cases hq
  · intro q r src hq hsrc
    rw [hr, List.getElem?_drop, List.getElem?_take] at hq
    split at hq
    · rw [Nat.add_assoc] at hsrc
      exact h.lin (i + q) r src hq hsrc
    · cases hq

end Conduit.Funnel
