import ConduitModel.Proofs.MonDeps
import ConduitModel.Proofs.PassPipe

/-!
# The task recursion against the monitor: linear pipelines without record splitting

`pipeM_all`: for a pipeline without fan-out (`Linear`) whose scripts never split a record, a batch
in flight that satisfies the arrival facts is processed without the monitor ever firing, and when
the recursion returns `.ok` exactly the batch has been acknowledged.
-/
namespace Conduit.Funnel
open Conduit.Funnel.Mon

/-! ## outcome of a computation responsible for the records `n0 … n0+len-1` -/

structure Out (G : Ctx) (n0 len : Nat) (s s' : PS) (r : Except Stop Unit) : Prop where
  safe : (G.mu s').tv = []
  ok : r = .ok () → GInv G s' ∧ nAcked s' = n0 + len ∧ Ext (InR G n0 len) (G.mu s) (G.mu s')

theorem Out.fail {G : Ctx} {n0 len : Nat} {s : PS} {e : Stop} (h : (G.mu s).tv = []) : Out G n0 len s s (.error e) :=
  ⟨h, fun hr => nomatch hr⟩

/-! ## the log only grows (for `RP.prefix`) -/

theorem log_mono_of_spec {α} {x : M α} {s s' : PS} {r : Except Stop α}
    (hx : Spec (fun t => s.log.toList <+: t.log.toList) x (fun _ => True)) (h : exec x s = (r, s')) :
    s.log.toList <+: s'.log.toList := by
  have := (hx s (List.prefix_refl _)).1
  rw [h] at this
  exact this

theorem log_mono_dta {fuel : Nat} {node : TaskNode} {b : Batch} {a : Acker} {retry : Option RetryAttempt} {skipDo : Bool}
    {s s' : PS} {r : Except Stop Unit} (h : exec (doTaskAttempt fuel node b a retry skipDo) s = (r, s')) :
    s.log.toList <+: s'.log.toList :=
  log_mono_of_spec ((pipeline_keeps_inv (prims_logPrefix _) fuel).1 _ _ _ _ _) h

theorem log_mono_taint {fuel : Nat} {node : TaskNode} {b : Batch} {a : Acker} {retry : Option RetryAttempt} {i : Nat}
    {s s' : PS} {r : Except Stop Unit} (h : exec (taintedLoop fuel node b a retry i) s = (r, s')) :
    s.log.toList <+: s'.log.toList :=
  log_mono_of_spec ((pipeline_keeps_inv (prims_logPrefix _) fuel).2.1 _ _ _ _ _) h

theorem log_mono_next {fuel : Nat} {node : TaskNode} {b : Batch} {a : Acker}
    {s s' : PS} {r : Except Stop Unit} (h : exec (doNextTask fuel node b a) s = (r, s')) :
    s.log.toList <+: s'.log.toList :=
  log_mono_of_spec ((pipeline_keeps_inv (prims_logPrefix _) fuel).2.2.1 _ _ _) h

theorem log_mono_acker {fuel : Nat} {a : Acker} {b : Batch} {isAck : Bool} {t : Nat}
    {s s' : PS} {r : Except Stop Unit} (h : exec (ackerCall fuel a b isAck t) s = (r, s')) :
    s.log.toList <+: s'.log.toList :=
  log_mono_of_spec ((ackers_keep_inv (prims_logPrefix _) fuel).1 _ _ _ _) h

/-! ## justification from the per-record facts -/

theorem viaDests_of_active {tree : TaskNode} {μ : TSt} {P : List Nat} {ρ : Nat} (h : Active μ P ρ)
    (hd : ∀ d ∈ dests tree, d ∈ P) : viaDestsT tree μ ρ = true := by
  unfold viaDestsT
  rw [List.all_eq_true]
  intro d hdm
  simp only [Bool.and_eq_true, Bool.or_eq_true, List.all_eq_true, Bool.not_eq_true']
  constructor
  · intro e he
    rw [List.mem_filter] at he
    have : e.2.1 = ρ := by have := he.2; simp at this; exact this.2
    exact h.1.2 e he.1 this
  · left
    obtain ⟨e, hm, h1, h2⟩ := h.2 d (hd d hdm)
    rw [List.isEmpty_eq_false_iff_exists_mem]
    exact ⟨e, List.mem_filter.mpr ⟨hm, by simp [h1, h2]⟩⟩

theorem viaDests_of_filtered {tree : TaskNode} {μ : TSt} {ρ : Nat} (h : Filtered μ ρ) : viaDestsT tree μ ρ = true := by
  unfold viaDestsT
  rw [List.all_eq_true]
  intro d _
  simp only [Bool.and_eq_true, Bool.or_eq_true, List.all_eq_true, Bool.not_eq_true']
  constructor
  · intro e he
    rw [List.mem_filter] at he
    have : e.2.1 = ρ := by have := he.2; simp at this; exact this.2
    exact h.1.2 e he.1 this
  · right
    simpa using h.2

/-- a batch without active records has only filtered records -/
theorem all_filter_of_not_hasActive {b : Batch} (hb : BInv b) (h : b.hasActive = false) :
    ∀ (q : Nat) (st : Status), b.st[q]? = some st → st.flag = .filter := by
  unfold Batch.hasActive at h
  have hfc := hb.wf.2
  have hlen := hb.wf.1.st_len
  have hge : b.st.length ≤ countFilter b.st := by
    have : ¬ b.filterCount < b.recs.length := by simpa using h
    omega
  have hle : countFilter b.st ≤ b.st.length := List.length_filter_le _ _
  have heq : (b.st.filter (·.flag = .filter)).length = b.st.length := by unfold countFilter at hge hle; omega
  have := List.length_filter_eq_length_iff.mp heq
  intro q st hq
  have := this st (List.mem_of_getElem? hq)
  simpa using this


/-! ## transfer lemmas -/

theorem Align.congr {G : Ctx} {n0 : Nat} {b b' : Batch} (h : Align G n0 b) (hp : b'.pos = b.pos) (hr : b'.recs = b.recs) :
    Align G n0 b' := ⟨by rw [hp]; exact h.pos, by rw [hr]; exact h.lin⟩

/-- the root of a record of an aligned batch is in range -/
theorem Align.inR {G : Ctx} {n0 : Nat} {b : Batch} (_h : Align G n0 b) {q : Nat} {src : Rec} (hq : q < b.pos.length)
    (hsrc : G.all[n0 + q]? = some src) : InR G n0 b.pos.length (root src) := ⟨q, src, hq, hsrc, rfl⟩

theorem WBelow.out {G : Ctx} {s s' : PS} {sub : List Nat} {n0 len : Nat} (h : WBelow G s sub)
    (he : Ext (InR G n0 len) (G.mu s) (G.mu s')) (hn : nAcked s ≤ n0 + len) (hn' : nAcked s' = n0 + len) : WBelow G s' sub := by
  intro e he' hsub
  rw [hn']
  rcases he.wr_new e he' with h1 | h1
  · exact (h e h1 hsub).mono hn
  · exact h1.nonPend

/-- a record of the batch is pending: it was never written to the DLQ -/
theorem not_dlqAny_of_inR {G : Ctx} (hs : Src G) {s : PS} (hI : GInv G s) {n0 len : Nat} (hf : nAcked s = n0) {ρ : Nat}
    (h : InR G n0 len ρ) : ρ ∉ (G.mu s).dlqAny := by
  intro hm
  have := hI.dlqAny ρ hm
  rw [hf] at this
  exact h.not_nonPend hs this

/-! ## the ack of a group of kept / filtered records -/

/-- `runAckNacker(Worker).Ack` on a sub-batch at the read frontier whose records are all justified -/
theorem ackCall_mon {G : Ctx} (hs : Src G) {fuel : Nat} {sb : Batch} {s s' : PS} {r : Except Stop Unit} {m : Nat}
    (hI : GInv G s) (hb : BInv sb) (hal : Align G m sb) (hf : nAcked s = m)
    (hj : ∀ (q : Nat) (src : Rec), q < sb.pos.length → G.all[m + q]? = some src → AckJust G.tree (G.mu s) (root src))
    (h : exec (ackerCall fuel (.run .worker) sb true 0) s = (r, s')) : Out G m sb.pos.length s s' r := by
  rcases runWorker_exec fuel sb true 0 s s' r hb.bok h with ⟨e, rfl, rfl⟩ | ⟨h0, rfl, rfl⟩ | ⟨_, sb2, e1, e2, e3, hb2, _, hx⟩
  · exact Out.fail hI.safe
  · have hp : sb.pos.length = 0 := by rw [hb.wf.1.pos_len]; exact h0
    refine ⟨hI.safe, fun _ => ⟨hI, by rw [hp]; exact hf, Ext.refl _ _⟩⟩
  · simp only [if_true] at hx
    have hal2 : Align G m sb2 := hal.congr e3 e1
    obtain ⟨h1, h2⟩ := workerAck_mon hI hb2 hal2 hf (by rw [e3]; exact hj) hx
    refine ⟨h1, fun hr => ?_⟩
    obtain ⟨g1, g2, g3⟩ := h2 hr
    rw [e3] at g2
    exact ⟨g1, g2, g3.mono (fun _ hf => hf.elim)⟩

/-- the records of a group of `ack` / `filter` statuses are justified at a leaf, and at any node
when all of them are filtered -/
theorem just_of_facts {G : Ctx} (hs : Src G) {s : PS} (hI : GInv G s) {pre pre' : List Nat} {nd : Prop} {n0 : Nat} {b : Batch}
    {i j : Nat} (hb : BInv b) (hal : Align G n0 b) (hf : nAcked s = n0 + i)
    (hfacts : Facts G (G.mu s) pre pre' nd n0 b i)
    (hflags : ∀ (q : Nat) (st : Status), i ≤ q → q < j → b.st[q]? = some st → st.flag = .ack ∨ st.flag = .filter)
    (hleaf : (∀ d ∈ dests G.tree, d ∈ pre') ∨
      (∀ (q : Nat) (st : Status), i ≤ q → q < j → b.st[q]? = some st → st.flag = .filter))
    (hj : j ≤ b.st.length) :
    ∀ (q : Nat) (src : Rec), q < j - i → G.all[n0 + i + q]? = some src → AckJust G.tree (G.mu s) (root src) := by
  intro q src hq hsrc
  have hlt : i + q < b.st.length := by omega
  have hst := List.getElem?_eq_getElem hlt
  have hsrc' : G.all[n0 + (i + q)]? = some src := by rw [← Nat.add_assoc]; exact hsrc
  have hin : InR G (n0 + i) (j - i) (root src) := ⟨q, src, hq, hsrc, rfl⟩
  have hany := not_dlqAny_of_inR hs hI hf hin
  right
  rcases hleaf with hl | hl
  · rcases hflags (i + q) _ (by omega) (by omega) hst with hfl | hfl
    · have ha := hfacts.ack (i + q) _ src (by omega) hst hsrc' hfl
      exact ⟨ha.1, hany, viaDests_of_active ha hl⟩
    · have ha := hfacts.fil (i + q) _ src (by omega) hst hsrc' hfl
      exact ⟨ha.1, hany, viaDests_of_filtered ha⟩
  · have hfl := hl (i + q) _ (by omega) (by omega) hst
    have ha := hfacts.fil (i + q) _ src (by omega) hst hsrc' hfl
    exact ⟨ha.1, hany, viaDests_of_filtered ha⟩


/-! ## the specifications -/

/-- the node's own destination id, if it is a destination -/
def own (node : TaskNode) : List Nat := if node.kind == .dest then [node.id] else []

theorem destsS_own (node : TaskNode) : destsS node = own node ++ destsL node.next := destsS_eq node

structure PathOK (G : Ctx) (pre : List Nat) (node : TaskNode) : Prop where
  cover : ∀ d ∈ dests G.tree, d ∈ pre ∨ d ∈ destsS node
  nodup : (destsS node).Nodup

/-- `doTaskAttempt` on a batch arriving at `node` -/
def PipeM (G : Ctx) (fuel : Nat) : Prop :=
  ∀ (node : TaskNode) (pre : List Nat) (n0 : Nat) (b : Batch) (retry : Option RetryAttempt) (skipDo : Bool)
    (s s' : PS) (r : Except Stop Unit),
    Linear node → PathOK G pre node → (skipDo = true → node.kind = .source) →
    GInv G s → BInv b → b.tainted = false → Align G n0 b → nAcked s = n0 → FlagsAF b →
    Facts G (G.mu s) pre pre True n0 b 0 → WBelow G s (destsS node) →
    exec (doTaskAttempt fuel node b (.run .worker) retry skipDo) s = (r, s') → RP G s' →
    Out G n0 b.pos.length s s' r

/-- the tainted loop of `node` from index `i` -/
def TaintM (G : Ctx) (fuel : Nat) : Prop :=
  ∀ (node : TaskNode) (pre : List Nat) (n0 : Nat) (b : Batch) (retry : Option RetryAttempt) (i : Nat)
    (s s' : PS) (r : Except Stop Unit),
    Linear node → PathOK G pre node →
    GInv G s → BInv b → Align G n0 b → nAcked s = n0 + i →
    Facts G (G.mu s) pre (pre ++ own node) (node.kind ≠ .dest) n0 b i → WBelow G s (destsL node.next) →
    exec (taintedLoop fuel node b (.run .worker) retry i) s = (r, s') → RP G s' →
    Out G (n0 + i) (b.pos.length - i) s s' r

/-- `doNextTask` of `node` (which has a next task) on a group of kept / filtered records -/
def NextM (G : Ctx) (fuel : Nat) : Prop :=
  ∀ (node : TaskNode) (pre : List Nat) (n0 : Nat) (sb : Batch) (s s' : PS) (r : Except Stop Unit),
    Linear node → PathOK G pre node → node.next ≠ [] →
    GInv G s → BInv sb → sb.tainted = false → Align G n0 sb → nAcked s = n0 → FlagsAF sb →
    Facts G (G.mu s) pre (pre ++ own node) (node.kind ≠ .dest) n0 sb 0 → WBelow G s (destsL node.next) →
    exec (doNextTask fuel node sb (.run .worker)) s = (r, s') → RP G s' →
    Out G n0 sb.pos.length s s' r

theorem Facts.imp_nd {G : Ctx} {μ : TSt} {pre pre' : List Nat} {nd nd' : Prop} {n0 : Nat} {b : Batch} {i : Nat}
    (h : Facts G μ pre pre' nd n0 b i) (hi : nd → nd') : Facts G μ pre pre' nd' n0 b i :=
  ⟨h.ack, h.fil, fun q st src hq hst hsrc hf => ⟨(h.retry q st src hq hst hsrc hf).1, hi (h.retry q st src hq hst hsrc hf).2⟩⟩

/-- the facts of a group of kept / filtered records, as arrival facts for the next node -/
theorem Facts.arrive {G : Ctx} {μ : TSt} {pre pre' : List Nat} {nd : Prop} {n0 : Nat} {b : Batch}
    (h : Facts G μ pre pre' nd n0 b 0) (haf : FlagsAF b) : Facts G μ pre' pre' True n0 b 0 :=
  ⟨h.ack, h.fil, fun q st _ _ hst _ hf => by rcases haf q st hst with h1 | h1 <;> rw [h1] at hf <;> cases hf⟩

/-- the facts of a sub-batch `[i, j)` -/
theorem Facts.sub {G : Ctx} {μ : TSt} {pre pre' : List Nat} {nd : Prop} {n0 : Nat} {b sb : Batch} {i j : Nat}
    (h : Facts G μ pre pre' nd n0 b i) (hst : sb.st = (b.st.take j).drop i) : Facts G μ pre pre' nd (n0 + i) sb 0 := by
  have key : ∀ (q : Nat) (st : Status), sb.st[q]? = some st → b.st[i + q]? = some st := by
    intro q st hq
    rw [hst, List.getElem?_drop, List.getElem?_take] at hq
    split at hq
    · exact hq
    · cases hq
  refine ⟨?_, ?_, ?_⟩
  · intro q st src _ hq hsrc hf
    exact h.ack (i + q) st src (by omega) (key q st hq) (by rw [← Nat.add_assoc]; exact hsrc) hf
  · intro q st src _ hq hsrc hf
    exact h.fil (i + q) st src (by omega) (key q st hq) (by rw [← Nat.add_assoc]; exact hsrc) hf
  · intro q st src _ hq hsrc hf
    exact h.retry (i + q) st src (by omega) (key q st hq) (by rw [← Nat.add_assoc]; exact hsrc) hf

/-! ## a group of kept / filtered records: ack it, or hand it to the next task -/

theorem grp_step {G : Ctx} (hs : Src G) (fuel : Nat) (hN : NextM G fuel) {node : TaskNode} {pre : List Nat} {m : Nat}
    {sb : Batch} {s s' : PS} {r : Except Stop Unit}
    (hlin : Linear node) (hpath : PathOK G pre node)
    (hI : GInv G s) (hb : BInv sb) (hcl : sb.tainted = false) (hal : Align G m sb) (hf : nAcked s = m) (haf : FlagsAF sb)
    (hfacts : Facts G (G.mu s) pre (pre ++ own node) (node.kind ≠ .dest) m sb 0) (hbelow : WBelow G s (destsL node.next))
    (h : exec (if (node.next.isEmpty || !sb.hasActive) = true then ackerCall fuel (.run .worker) sb true 0
              else doNextTask fuel node sb (.run .worker)) s = (r, s')) (hrp : RP G s') :
    Out G m sb.pos.length s s' r := by
  by_cases hc : (node.next.isEmpty || !sb.hasActive) = true
  · simp only [hc, if_true] at h
    apply ackCall_mon hs hI hb hal hf _ h
    have hlen : sb.pos.length = sb.st.length := by rw [hb.wf.1.pos_len, hb.wf.1.st_len]
    have hleaf : (∀ d ∈ dests G.tree, d ∈ pre ++ own node) ∨
        (∀ (q : Nat) (st : Status), 0 ≤ q → q < sb.st.length → sb.st[q]? = some st → st.flag = .filter) := by
      rw [Bool.or_eq_true] at hc
      rcases hc with hc | hc
      · left
        intro d hd
        have hn : node.next = [] := by simpa using hc
        rcases hpath.cover d hd with h1 | h1
        · exact List.mem_append_left _ h1
        · rw [destsS_own, hn] at h1
          simp only [destsL_nil, List.append_nil] at h1
          exact List.mem_append_right _ h1
      · right
        intro q st _ _ hq
        exact all_filter_of_not_hasActive hb (by simpa using hc) q st hq
    have := just_of_facts hs hI (i := 0) (j := sb.st.length) hb hal (by simpa using hf) hfacts
      (fun q st _ _ hq => haf q st hq) hleaf (Nat.le_refl _)
    intro q src hq hsrc
    exact this q src (by omega) (by simpa using hsrc)
  · simp only [hc] at h
    have hne : node.next ≠ [] := by
      intro he; apply hc; rw [he]; rfl
    exact hN node pre m sb s s' r hlin hpath hne hI hb hcl hal hf haf hfacts hbelow h hrp


/-! ## one more unit of fuel -/

theorem destsL_single (n : TaskNode) : destsL [n] = destsS n := by rw [destsL_cons, destsL_nil, List.append_nil]

theorem next_stepM {G : Ctx} (fuel : Nat) (hP : PipeM G fuel) : NextM G (fuel+1) := by
  intro node pre n0 sb s s' r hlin hpath hne hI hb hcl hal hf haf hfacts hbelow h hrp
  cases hnx : node.next with
  | nil => exact absurd hnx hne
  | cons n rest =>
    cases rest with
    | cons n2 rest2 =>
      have := hlin.len
      rw [hnx] at this
      simp at this
    | nil =>
      rw [doNextTask] at h
      simp only [hnx] at h
      have hds : destsS node = own node ++ destsS n := by rw [destsS_own, hnx, destsL_single]
      have hpath' : PathOK G (pre ++ own node) n := by
        refine ⟨?_, ?_⟩
        · intro d hd
          rcases hpath.cover d hd with h1 | h1
          · exact Or.inl (List.mem_append_left _ h1)
          · rw [hds, List.mem_append] at h1
            rcases h1 with h1 | h1
            · exact Or.inl (List.mem_append_right _ h1)
            · exact Or.inr h1
        · have := hpath.nodup
          rw [hds] at this
          exact (List.nodup_append.mp this).2.1
      have hbelow' : WBelow G s (destsS n) := by rw [hnx, destsL_single] at hbelow; exact hbelow
      exact hP n (pre ++ own node) n0 sb none false s s' r (hlin.child n (by rw [hnx]; simp)) hpath'
        (fun hh => nomatch hh) hI hb hcl hal hf haf (hfacts.arrive haf) hbelow' h hrp

theorem Out.trans_pre {G : Ctx} {n0 len : Nat} {s s1 s' : PS} {r : Except Stop Unit}
    (he : Ext (InR G n0 len) (G.mu s) (G.mu s1)) (h : Out G n0 len s1 s' r) : Out G n0 len s s' r :=
  ⟨h.safe, fun hr => ⟨(h.ok hr).1, (h.ok hr).2.1, he.trans (h.ok hr).2.2⟩⟩

theorem dta_stepM {G : Ctx} (hs : Src G) (D : Deps G) (fuel : Nat) (hN : NextM G fuel) (hT : TaintM G fuel) :
    PipeM G (fuel+1) := by
  intro node pre n0 b retry skipDo s s' r hlin hpath hskip hI hb hcl hal hf haf hfacts hbelow h hrp
  rw [doTaskAttempt] at h
  -- what happens once the task of the node has run
  have hF : ∀ (b1 : Batch) (s1 : PS), GInv G s1 → nAcked s1 = n0 → BInv b1 → b1.pos = b.pos → Align G n0 b1 →
      Facts G (G.mu s1) pre (pre ++ own node) (node.kind ≠ .dest) n0 b1 0 → (b1.tainted = false → FlagsAF b1) →
      WBelow G s1 (destsL node.next) →
      exec (if (!b1.tainted) = true then
              if (node.next.isEmpty || !b1.hasActive) = true then ackerCall fuel (.run .worker) b1 true 0
              else doNextTask fuel node b1 (.run .worker)
            else taintedLoop fuel node b1 (.run .worker) retry 0) s1 = (r, s') → Out G n0 b.pos.length s1 s' r := by
    intro b1 s1 hI1 hf1 hb1 hpos hal1 hfacts1 haf1 hbelow1 h
    rw [← hpos]
    by_cases ht : (!b1.tainted) = true
    · simp only [ht, if_true] at h
      have hcl1 : b1.tainted = false := by simpa using ht
      exact grp_step hs fuel hN hlin hpath hI1 hb1 hcl1 hal1 hf1 (haf1 hcl1) hfacts1 hbelow1 h hrp
    · simp only [ht] at h
      have := hT node pre n0 b1 retry 0 s1 s' r hlin hpath hI1 hb1 hal1 (by simpa using hf1) hfacts1 hbelow1 h hrp
      simpa using this
  have hds := destsS_own node
  cases skipDo with
  | true =>
    simp only [if_true] at h
    rw [exec_bind, exec_pure] at h
    have hk := hskip rfl
    have hown : own node = [] := by unfold own; rw [hk]; rfl
    have hnd : node.kind ≠ .dest := by rw [hk]; exact fun hh => nomatch hh
    refine hF b s hI hf hb rfl hal ?_ (fun _ => haf) ?_ h
    · rw [hown, List.append_nil]; exact hfacts.imp_nd (fun _ => hnd)
    · rw [hds, hown, List.nil_append] at hbelow; exact hbelow
  | false =>
    simp only [Bool.false_eq_true, if_false] at h
    rw [exec_bind, exec_tryCatch] at h
    rcases ht : exec (taskDo node b) s with ⟨r1, s1⟩
    rw [ht] at h
    -- the continuation only appends to the log
    have hmono : s1.log.toList <+: s'.log.toList := by
      cases r1 with
      | error e => cases e <;> simp only [exec_throw] at h <;> cases h <;> exact List.prefix_refl _
      | ok b1 =>
        dsimp only at h
        by_cases ht1 : (!b1.tainted) = true
        · simp only [ht1, if_true] at h
          by_cases hc : (node.next.isEmpty || !b1.hasActive) = true
          · simp only [hc, if_true] at h; exact log_mono_acker h
          · simp only [hc] at h; exact log_mono_next h
        · simp only [ht1] at h; exact log_mono_taint h
    have hrp1 : RP G s1 := hrp.prefix hmono
    -- the task itself
    have hD : (G.mu s1).tv = [] ∧ ∀ b1, r1 = .ok b1 →
        GInv G s1 ∧ nAcked s1 = n0 ∧ BInv b1 ∧ b1.pos = b.pos ∧ Align G n0 b1 ∧
        Ext (InR G n0 b.pos.length) (G.mu s) (G.mu s1) ∧
        Facts G (G.mu s1) pre (pre ++ own node) (node.kind ≠ .dest) n0 b1 0 ∧
        (b1.tainted = false → FlagsAF b1) ∧ WBelow G s1 (destsL node.next) := by
      unfold taskDo at ht
      cases hk : node.kind with
      | proc =>
        rw [hk] at ht
        have hown : own node = [] := by unfold own; rw [hk]; rfl
        obtain ⟨g1, g2⟩ := D.proc hI hb hcl hal hf haf hfacts ht hrp1
        refine ⟨g1, fun b1 hb1 => ?_⟩
        obtain ⟨a1, a2, a3, a4, a5, a6, a7, a8, a9⟩ := g2 b1 hb1
        refine ⟨a1, a2, a3, a4, a5, a6, ?_, a8, ?_⟩
        · rw [hown, List.append_nil]; exact a7.imp_nd (fun _ hh => nomatch hh)
        · apply a9
          rw [hds, hown, List.nil_append] at hbelow; exact hbelow
      | dest =>
        rw [hk] at ht
        have hown : own node = [node.id] := by unfold own; rw [hk]; rfl
        have hb0 : WBelow G s [node.id] := by
          intro e he hm
          apply hbelow e he
          rw [hds, hown]
          simp only [List.mem_singleton] at hm
          rw [hm]; simp
        obtain ⟨g1, g2⟩ := D.dest hI hb hcl hal hf haf hfacts hb0 ht
        refine ⟨g1, fun b1 hb1 => ?_⟩
        obtain ⟨a1, a2, a3, a4, a5, a6, a7, a8, a9⟩ := g2 b1 hb1
        refine ⟨a1, a2, a3, a4, a5, a6, ?_, a8, ?_⟩
        · rw [hown]; exact a7.imp_nd (fun hh => hh.elim)
        · have hnd := hpath.nodup
          rw [hds, hown] at hnd
          have hni : node.id ∉ destsL node.next := by
            have := (List.nodup_cons.mp (by simpa using hnd)).1
            exact this
          apply a9 _ hni
          intro e he hm
          apply hbelow e he
          rw [hds]; exact List.mem_append_right _ hm
      | source =>
        rw [hk] at ht
        cases ht
        have hown : own node = [] := by unfold own; rw [hk]; rfl
        refine ⟨hI.safe, fun b1 hb1 => ?_⟩
        cases hb1
        refine ⟨hI, hf, hb, rfl, hal, Ext.refl _ _, ?_, fun _ => haf, ?_⟩
        · rw [hown, List.append_nil]; exact hfacts.imp_nd (fun _ hh => nomatch hh)
        · rw [hds, hown, List.nil_append] at hbelow; exact hbelow
    cases r1 with
    | error e =>
      dsimp only at h
      cases e <;> simp only [exec_throw] at h <;> cases h <;> exact ⟨hD.1, fun hr => nomatch hr⟩
    | ok b1 =>
      dsimp only at h
      obtain ⟨a1, a2, a3, a4, a5, a6, a7, a8, a9⟩ := hD.2 b1 rfl
      exact (hF b1 s1 a1 a2 a3 a4 a5 a7 a8 a9 h).trans_pre a6


/-! ## the tainted loop -/

/-- every status of the group starting at `i` is in the same group as the first one -/
theorem group_flags (st : List Status) (i : Nat) (s0 : Status) (h0 : st[i]? = some s0) :
    ∀ (q : Nat) (x : Status), i ≤ q → q < groupEnd st i → st[q]? = some x → sameGroup s0.flag x.flag = true := by
  intro q x hq1 hq2 hx
  rw [groupEnd_eq, h0] at hq2
  have hq3 : q < i + ((st.drop i).takeWhile fun s => sameGroup s0.flag s.flag).length := hq2
  generalize hL : ((st.drop i).takeWhile fun s => sameGroup s0.flag s.flag).length = L at hq3
  have hmem : x ∈ (st.drop i).takeWhile fun s => sameGroup s0.flag s.flag := by
    have h1 : ((st.drop i).takeWhile fun s => sameGroup s0.flag s.flag)[q - i]? = some x := by
      have hpre := List.takeWhile_prefix (fun s => sameGroup s0.flag s.flag) (l := st.drop i)
      obtain ⟨t, ht⟩ := hpre
      have h2 : (st.drop i)[q - i]? = some x := by rw [List.getElem?_drop]; rw [show i + (q - i) = q by omega]; exact hx
      rw [← ht, List.getElem?_append_left (by rw [hL]; omega)] at h2
      exact h2
    exact List.mem_of_getElem? h1
  exact mem_takeWhile_imp _ _ x hmem

/-- "run the group `[i, j)`, then go on with the loop at `j`" -/
theorem taint_seq {G : Ctx} (hs : Src G) (fuel : Nat) (hT : TaintM G fuel) {node : TaskNode} {pre : List Nat} {n0 : Nat}
    {b : Batch} {retry : Option RetryAttempt} {i j : Nat} {X : M Unit} {s s' : PS} {r : Except Stop Unit}
    (hlin : Linear node) (hpath : PathOK G pre node) (hb : BInv b) (hal : Align G n0 b) (hf : nAcked s = n0 + i)
    (hfacts : Facts G (G.mu s) pre (pre ++ own node) (node.kind ≠ .dest) n0 b i) (hbelow : WBelow G s (destsL node.next))
    (hij : i ≤ j) (hj : j ≤ b.pos.length)
    (hX : ∀ r1 s1, exec X s = (r1, s1) → RP G s1 → Out G (n0 + i) (j - i) s s1 r1)
    (h : exec (X >>= fun _ => taintedLoop fuel node b (.run .worker) retry j) s = (r, s')) (hrp : RP G s') :
    Out G (n0 + i) (b.pos.length - i) s s' r := by
  rw [exec_bind] at h
  rcases hx : exec X s with ⟨r1, s1⟩
  rw [hx] at h
  cases r1 with
  | error e =>
    dsimp only at h
    cases h
    exact ⟨(hX _ _ hx hrp).safe, fun hr => nomatch hr⟩
  | ok u =>
    dsimp only at h
    have hrp1 : RP G s1 := hrp.prefix (log_mono_taint h)
    have o1 := hX _ _ hx hrp1
    obtain ⟨g1, g2, g3⟩ := o1.ok rfl
    have hn1 : nAcked s1 = n0 + j := by rw [g2]; omega
    have hpl : b.pos.length = b.st.length := by rw [hb.wf.1.pos_len, hb.wf.1.st_len]
    have hfacts1 : Facts G (G.mu s1) pre (pre ++ own node) (node.kind ≠ .dest) n0 b j := by
      apply (hfacts.mono_idx hij).ext g3
      intro q src hq _ hsrc hin
      exact hin.disjoint hs (⟨0, src, Nat.lt_succ_self 0, by simpa using hsrc, rfl⟩ : InR G (n0 + q) 1 (root src))
        (Or.inl (by omega))
    have hbelow1 : WBelow G s1 (destsL node.next) := hbelow.out g3 (by rw [hf]; omega) g2
    have o2 := hT node pre n0 b retry j s1 s' r hlin hpath g1 hb hal hn1 hfacts1 hbelow1 h hrp
    refine ⟨o2.safe, fun hr => ?_⟩
    obtain ⟨k1, k2, k3⟩ := o2.ok hr
    refine ⟨k1, by rw [k2]; omega, ?_⟩
    refine (g3.mono (fun x hx => hx.mono (by omega))).trans (k3.mono (fun x hx => ?_))
    have : InR G (n0 + i + (j - i)) (b.pos.length - j) x := by
      rw [show n0 + i + (j - i) = n0 + j by omega]; exact hx
    have := this.shift
    rw [show j - i + (b.pos.length - j) = b.pos.length - i by omega] at this
    exact this


theorem sub_tainted {b sb : Batch} {i j : Nat} (h : b.sub i j = .ok sb) : sb.tainted = false := by
  unfold Batch.sub at h
  by_cases hc : (i > j ∨ j > b.recs.length ∨ j > b.st.length ∨ j > b.pos.length)
  · simp only [hc, if_true] at h; cases h
  · simp only [hc, if_false] at h
    rcases hr : b.runs with _ | rs
    · rw [hr] at h
      simp only [bind, Except.bind, pure, Except.pure] at h
      cases h; rfl
    · rw [hr] at h
      by_cases hg : j > rs.length
      · simp only [hg, if_true, bind, Except.bind] at h; cases h
      · simp only [hg, if_false, bind, Except.bind, pure, Except.pure] at h
        cases h; rfl

theorem taint_stepM {G : Ctx} (hs : Src G) (D : Deps G) (fuel : Nat) (hP : PipeM G fuel) (hN : NextM G fuel)
    (hT : TaintM G fuel) : TaintM G (fuel+1) := by
  intro node pre n0 b retry i s s' r hlin hpath hI hb hal hf hfacts hbelow h hrp
  rw [taintedLoop] at h
  have hpl : b.pos.length = b.st.length := by rw [hb.wf.1.pos_len, hb.wf.1.st_len]
  by_cases hi : i ≥ b.st.length
  · simp only [hi, if_true, exec_pure] at h
    cases h
    have h0 : b.pos.length - i = 0 := by omega
    rw [h0]
    exact ⟨hI.safe, fun _ => ⟨hI, by simpa using hf, Ext.refl _ _⟩⟩
  · simp only [hi, if_false] at h
    have hlt : i < b.st.length := by omega
    have hg1 := groupEnd_gt b.st i hlt
    have hg2 := groupEnd_le b.st i (by omega)
    rw [exec_bind] at h
    rcases hsub : b.sub i (groupEnd b.st i) with e | sb
    · rw [hsub, exec_liftR_err] at h
      cases h
      exact Out.fail hI.safe
    · rw [hsub, exec_liftR_ok] at h
      dsimp only at h
      obtain ⟨hsb, hsp, hss⟩ := sub_BInv hb hsub
      obtain ⟨_, _, _, _, hsr, _⟩ := sub_ok_fields hsub
      have hcl := sub_tainted hsub
      rw [exec_bind] at h
      rcases h0 : idx sb.st 0 "subBatch.recordStatuses[0]" with e | s0
      · rw [h0, exec_liftR_err] at h
        cases h
        exact Out.fail hI.safe
      · rw [h0, exec_liftR_ok] at h
        dsimp only at h
        have hspan : i + sb.pos.length = groupEnd b.st i := by
          rw [hsp]; simp; omega
        rw [hspan] at h
        have hlen : sb.pos.length = groupEnd b.st i - i := by omega
        have h00 : sb.st[0]? = some s0 := idx_eq_ok_iff.mp h0
        have hbi : b.st[i]? = some s0 := by
          rw [hss] at h00
          simpa [List.getElem?_take, hg1] using h00
        have hgrp := group_flags b.st i s0 hbi
        -- the group as a batch of its own
        have hal' : Align G (n0 + i) sb := hal.sub hsp hsr
        have hfacts' : Facts G (G.mu s) pre (pre ++ own node) (node.kind ≠ .dest) (n0 + i) sb 0 := hfacts.sub hss
        have hsbst : ∀ (q : Nat) (st : Status), sb.st[q]? = some st → b.st[i + q]? = some st ∧ i + q < groupEnd b.st i := by
          intro q st hq
          rw [hss, List.getElem?_drop, List.getElem?_take] at hq
          split at hq
          · exact ⟨hq, by assumption⟩
          · cases hq
        have hseq : ∀ (X : M Unit), (∀ r1 s1, exec X s = (r1, s1) → RP G s1 → Out G (n0 + i) (groupEnd b.st i - i) s s1 r1) →
            exec (X >>= fun _ => taintedLoop fuel node b (.run .worker) retry (groupEnd b.st i)) s = (r, s') →
            Out G (n0 + i) (b.pos.length - i) s s' r :=
          fun X hX hx => taint_seq hs fuel hT hlin hpath hb hal hf hfacts hbelow (by omega) (by omega) hX hx hrp
        -- a group of kept / filtered records
        have hack : (s0.flag = .ack ∨ s0.flag = .filter) →
            exec (if (node.next.isEmpty || !sb.hasActive) = true then do
                    let __r ← ackerCall fuel (.run .worker) sb true 0
                    taintedLoop fuel node b (.run .worker) retry (groupEnd b.st i)
                  else do
                    let __r ← doNextTask fuel node sb (.run .worker)
                    taintedLoop fuel node b (.run .worker) retry (groupEnd b.st i)) s = (r, s') →
            Out G (n0 + i) (b.pos.length - i) s s' r := by
          intro hfl0 h
          have haf : FlagsAF sb := by
            intro q st hq
            obtain ⟨h1, h2⟩ := hsbst q st hq
            have := hgrp (i + q) st (by omega) h2 h1
            rcases hfl0 with hh | hh <;> rw [hh] at this <;> simpa [sameGroup] using this
          have hX : ∀ r1 s1, exec (if (node.next.isEmpty || !sb.hasActive) = true then ackerCall fuel (.run .worker) sb true 0
              else doNextTask fuel node sb (.run .worker)) s = (r1, s1) → RP G s1 →
              Out G (n0 + i) (groupEnd b.st i - i) s s1 r1 := by
            intro r1 s1 hx hrp1
            rw [← hlen]
            exact grp_step hs fuel hN hlin hpath hI hsb hcl hal' hf haf hfacts' hbelow hx hrp1
          by_cases hc : (node.next.isEmpty || !sb.hasActive) = true
          · simp only [hc, if_true] at h hX
            exact hseq _ hX h
          · simp only [hc] at h hX
            exact hseq _ hX h
        cases hfl : s0.flag with
        | ack => rw [hfl] at h; exact hack (Or.inl hfl) h
        | filter => rw [hfl] at h; exact hack (Or.inr hfl) h
        | nack =>
          rw [hfl] at h
          dsimp only at h
          refine hseq _ ?_ h
          intro r1 s1 hx _
          have hnk : NackOK sb := by
            intro x hx
            have hall := group_all_nack b.st i s0 hbi hfl
            rw [hss] at hx
            exact hsb.ne x (by rw [hss]; exact hx) (hall x hx)
          rw [← hlen]
          rcases runWorker_exec fuel sb false node.id s s1 r1 hsb.bok hx with ⟨e, rfl, rfl⟩ | ⟨h0', rfl, rfl⟩ | ⟨_, sb2, e1, e2, e3, hb2, hsp2, hx2⟩
          · exact Out.fail hI.safe
          · have hp : sb.pos.length = 0 := by rw [hsb.wf.1.pos_len]; exact h0'
            exact ⟨hI.safe, fun _ => ⟨hI, by rw [hp]; exact hf, Ext.refl _ _⟩⟩
          · simp only [Bool.false_eq_true, if_false] at hx2
            have hnk2 : NackOK sb2 := by unfold NackOK; rw [e2]; exact hnk
            obtain ⟨g1, g2⟩ := D.nack hI hb2 (hsp2 hsb.split) hnk2 (hal'.congr e3 e1) hf hx2
            rw [e3] at g2
            exact ⟨g1, g2⟩
        | retry =>
          rw [hfl] at h
          dsimp only at h
          -- every status of the group is `retry`
          have hallr : ∀ (q : Nat) (st : Status), sb.st[q]? = some st → st.flag = .retry := by
            intro q st hq
            obtain ⟨h1, h2⟩ := hsbst q st hq
            have := hgrp (i + q) st (by omega) h2 h1
            rw [hfl] at this
            simpa [sameGroup] using this
          have hD : ∀ (sb' : Batch) (nx : RetryAttempt), sb.setFlagRange .ack 0 sb.recs.length = .ok sb' →
              exec (do
                doTaskAttempt fuel node { sb' with tainted := false } (.run .worker) (some nx) false
                taintedLoop fuel node b (.run .worker) retry (groupEnd b.st i)) s = (r, s') →
              Out G (n0 + i) (b.pos.length - i) s s' r := by
            intro sb' nx hsf h
            obtain ⟨hfr, _⟩ := setFlagRange_fr (by decide) hsf
            have hwf' := C08_aligned_setFlagRange hsb.wf (by decide) hsf
            have hbi : BInv { sb' with tainted := false } :=
              ⟨⟨⟨hwf'.1.st_len, hwf'.1.pos_len, hwf'.1.runs_ok, hwf'.1.split_keys⟩, hwf'.2⟩,
                hfr.split.trans hsb.split, fun rs hrs => hsb.runs rs (hfr.runs ▸ hrs), hfr.ne hsb.ne⟩
            -- the exact result of the flagging
            obtain ⟨hij, hj⟩ := setFlagRange_inrange hsb.wf hsf
            have hsf2 := hsf
            rw [setFlagRange_ok hsb.wf .ack hij hj] at hsf2
            have hsb' : sb' = { sb with st := sb.flagged .ack 0 sb.recs.length } := by
              injection hsf2 with hsf2; exact hsf2.symm
            have hrecs : sb'.recs = sb.recs := by rw [hsb']
            have hst' : sb'.st = sb.flagged .ack 0 sb.recs.length := by rw [hsb']
            have hcf : countFilter sb.st = 0 := by
              unfold countFilter
              rw [List.length_eq_zero_iff, List.filter_eq_nil_iff]
              intro x hx
              obtain ⟨q, hq, rfl⟩ := List.getElem_of_mem hx
              have := hallr q _ (List.getElem?_eq_getElem hq)
              simp [this]
            have hact := actList_of_countFilter_zero hcf
            have hnew : ∀ (q : Nat) (st' : Status), sb'.st[q]? = some st' →
                ∃ st, sb.st[q]? = some st ∧ st' = setFlagP .ack st := by
              intro q st' hq
              rw [hst'] at hq
              have hql : q < sb.st.length := by
                have := (List.getElem?_eq_some_iff.mp hq).1
                have h3 : (sb.flagged .ack 0 sb.recs.length).length = sb.recs.length := by
                  rw [← hst', hwf'.1.st_len, hrecs]
                have h4 := hsb.wf.1.st_len
                omega
              have hk : ∃ k : Nat, 0 ≤ k ∧ k < sb.recs.length ∧ (actList sb.st)[k]? = some q :=
                ⟨q, Nat.zero_le _, by rw [← hsb.wf.1.st_len]; exact hql, by rw [hact]; simp [hql]⟩
              rw [(getElem?_flagged sb .ack 0 sb.recs.length q).1 hk] at hq
              cases hs0 : sb.st[q]? with
              | none => rw [hs0] at hq; cases hq
              | some st => rw [hs0] at hq; exact ⟨st, rfl, by simpa using hq.symm⟩
            have hal'' : Align G (n0 + i) { sb' with tainted := false } :=
              hal'.congr hfr.pos hrecs
            have haf'' : FlagsAF { sb' with tainted := false } := by
              intro q st' hq
              obtain ⟨st, _, rfl⟩ := hnew q st' hq
              exact Or.inl rfl
            have hnd : node.kind ≠ .dest := by
              have hq0 : sb.st[0]? = some s0 := h00
              have hp0 : 0 < sb.pos.length := by omega
              obtain ⟨src, hsrc⟩ := hal'.src hp0
              exact (hfacts'.retry 0 s0 src (Nat.le_refl _) hq0 hsrc hfl).2
            have hfacts'' : Facts G (G.mu s) pre pre True (n0 + i) { sb' with tainted := false } 0 := by
              refine ⟨?_, ?_, ?_⟩
              · intro q st' src _ hq hsrc _
                obtain ⟨st, hst0, _⟩ := hnew q st' hq
                exact (hfacts'.retry q st src (Nat.zero_le _) hst0 hsrc (hallr q st hst0)).1
              · intro q st' src _ hq _ hf'
                obtain ⟨st, _, rfl⟩ := hnew q st' hq
                cases hf'
              · intro q st' src _ hq _ hf'
                obtain ⟨st, _, rfl⟩ := hnew q st' hq
                cases hf'
            have hbelow'' : WBelow G s (destsS node) := by
              have hown : own node = [] := by
                unfold own
                cases hk : node.kind with
                | dest => exact absurd hk hnd
                | proc => rfl
                | source => rfl
              rw [destsS_own, hown, List.nil_append]; exact hbelow
            refine hseq _ ?_ h
            intro r1 s1 hx hrp1
            have := hP node pre (n0 + i) { sb' with tainted := false } (some nx) false s s1 r1 hlin hpath
              (fun hh => nomatch hh) hI hbi rfl hal'' hf haf'' hfacts'' hbelow'' hx hrp1
            have hpe : ({ sb' with tainted := false } : Batch).pos.length = groupEnd b.st i - i := by
              show sb'.pos.length = _
              rw [hfr.pos]; exact hlen
            rw [hpe] at this
            exact this
          rw [exec_bind] at h
          rcases hsf : sb.setFlagRange Flag.ack 0 sb.recs.length with e | sb'
          · rw [hsf, exec_liftR_err] at h
            cases h
            exact Out.fail hI.safe
          · rw [hsf, exec_liftR_ok] at h
            dsimp only at h
            cases retry with
            | none =>
              dsimp only at h
              by_cases c1 : 1 > maxRetryAttempts
              · simp only [c1, if_true, exec_throw_bind] at h
                cases h
                exact Out.fail hI.safe
              · simp only [c1, if_false] at h
                exact hD sb' _ hsf h
            | some rt =>
              dsimp only at h
              by_cases c0 : (if sb'.recs.length ≥ rt.size then rt.stall + 1 else 0) ≥ maxRetryStall
              · simp only [c0, if_true, exec_throw_bind] at h
                cases h
                exact Out.fail hI.safe
              · by_cases c1 : rt.count + 1 > maxRetryAttempts
                · simp only [c0, c1, if_true, if_false, exec_throw_bind] at h
                  cases h
                  exact Out.fail hI.safe
                · simp only [c0, c1, if_false] at h
                  exact hD sb' _ hsf h

end Conduit.Funnel
