import ConduitModel.Proofs.MonTaskDefs

/-!
# `ProcessorTask.Do` against the monitor (no record splitting)
-/
namespace Conduit.Funnel
open Conduit.Funnel.Mon

/-! ## the `.pcall` step of the monitor -/

theorem pcallT_eq (scr : List (Nat × List Reply)) (μ : TSt) (t : Nat) (recs : List Rec) :
    pcallT scr μ t recs =
      { μ with
        calls := bumpL μ.calls t
        filtered := μ.filtered ++ filteredBy recs (procOut (replyOfCall scr t (callNoL μ.calls t)))
        errored := μ.errored ++ erroredBy recs (procOut (replyOfCall scr t (callNoL μ.calls t))) } := by
  unfold pcallT
  dsimp only
  generalize replyOfCall scr t (callNoL μ.calls t) = rp
  cases rp with
  | none => simp [procOut, filteredBy, erroredBy]
  | some rp =>
    cases rp with
    | proc out => rfl
    | dest _ _ => simp [procOut, filteredBy, erroredBy]

theorem noMulti_replyOfCall {scr : List (Nat × List Reply)} (hns : NS scr) (t c : Nat) :
    NoMulti (procOut (replyOfCall scr t c)) := by
  unfold replyOfCall
  cases hf : scr.find? (·.1 == t) with
  | none => intro pr hm; cases hm
  | some kv =>
    simp only [Option.map_some, Option.bind_some]
    cases hc : kv.2[c]? with
    | none => intro pr hm; cases hm
    | some rp =>
      have h1 := hns kv (List.mem_of_find?_eq_some hf) rp (List.mem_of_getElem? hc)
      cases rp with
      | proc out => exact h1
      | dest _ _ => intro pr hm; cases hm

theorem mem_erroredBy {recs : List Rec} {out : List PR} {x : Nat} (h : x ∈ erroredBy recs out) :
    ∃ (k : Nat) (r : Rec) (e : Option Err), recs[k]? = some r ∧ out[k]? = some (.error e) ∧ x = root r := by
  unfold erroredBy at h
  obtain ⟨⟨r, o⟩, hm, hx⟩ := List.mem_filterMap.mp h
  obtain ⟨k, hk⟩ := List.mem_iff_getElem?.mp hm
  obtain ⟨h1, h2⟩ := List.getElem?_zip_eq_some.mp hk
  cases o <;> simp only [] at hx <;> first | cases hx | skip
  rename_i e
  exact ⟨k, r, e, h1, h2, rfl⟩

theorem mem_filteredBy {recs : List Rec} {out : List PR} {x : Nat} (h : x ∈ filteredBy recs out) :
    ∃ (k : Nat) (r : Rec) (o : PR), recs[k]? = some r ∧ out[k]? = some o ∧ x = root r := by
  unfold filteredBy at h
  obtain ⟨⟨r, o⟩, hm, hx⟩ := List.mem_filterMap.mp h
  obtain ⟨k, hk⟩ := List.mem_iff_getElem?.mp hm
  obtain ⟨h1, h2⟩ := List.getElem?_zip_eq_some.mp hk
  refine ⟨k, r, o, h1, h2, ?_⟩
  cases o with
  | filter => cases hx; rfl
  | multi m =>
    cases m with
    | nil => cases hx; rfl
    | cons a m => cases hx
  | _ => cases hx

theorem filteredBy_mem {recs : List Rec} {out : List PR} {k : Nat} {r : Rec} {o : PR} (h1 : recs[k]? = some r)
    (h2 : out[k]? = some o) (ho : o = .filter ∨ o = .multi []) : root r ∈ filteredBy recs out := by
  unfold filteredBy
  refine List.mem_filterMap.mpr ⟨(r, o), List.mem_iff_getElem?.mpr ⟨k, List.getElem?_zip_eq_some.mpr ⟨h1, h2⟩⟩, ?_⟩
  rcases ho with rfl | rfl <;> rfl

theorem pcallOK_get {recs : List Rec} {out : List PR} (h : pcallOK recs out = true) {k : Nat} {r : Rec} {o : PR}
    (h1 : recs[k]? = some r) (h2 : out[k]? = some o) :
    (∀ r', o = .single r' → root r' = root r) ∧ (∀ m, o = .multi m → ∀ r' ∈ m, root r' = root r) := by
  unfold pcallOK at h
  rw [List.all_eq_true] at h
  have := h (r, o) (List.mem_iff_getElem?.mpr ⟨k, List.getElem?_zip_eq_some.mpr ⟨h1, h2⟩⟩)
  constructor
  · intro r' ho; subst ho
    simpa using this
  · intro m ho r' hr'; subst ho
    simp only [List.all_eq_true] at this
    simpa using this r' hr'

theorem padOut_lt {n : Nat} {out : List PR} {k : Nat} (hk : k < out.length) : (padOut n out)[k]? = out[k]? := by
  unfold padOut
  by_cases h : n > out.length
  · simp only [h, if_true]; rw [List.getElem?_append_left hk]
  · simp only [h, if_false]

theorem padOut_ge {n : Nat} {out : List PR} {k : Nat} {o : PR} (hk : out.length ≤ k) (h : (padOut n out)[k]? = some o) :
    o = .nil := by
  unfold padOut at h
  by_cases hn : n > out.length
  · simp only [hn, if_true] at h
    rw [List.getElem?_append_right hk] at h
    have := List.mem_of_getElem? h
    exact (List.mem_replicate.mp this).2
  · simp only [hn, if_false] at h
    have := (List.getElem?_eq_some_iff.mp h).1
    omega

/-- a padded entry other than `nil` is an entry of the reply -/
theorem padOut_out {n : Nat} {out : List PR} {k : Nat} {o : PR} (h : (padOut n out)[k]? = some o) (ho : o ≠ .nil) :
    out[k]? = some o := by
  by_cases hk : k < out.length
  · rw [← padOut_lt hk]; exact h
  · exact absurd (padOut_ge (by omega) h) ho

/-! ## what a successful `procDoP` does to one physical index -/

theorem proc_cases {h h' : Heap} {b b1 : Batch} {out : List PR} (hwf : b.WF h) (hsplit : b.split = [])
    (hn : NoMulti out) (hr : procDoP h b out = .ok (h', b1)) {q : Nat} {st : Status} {r : Rec}
    (hst : b.st[q]? = some st) (hrec : b.recs[q]? = some r) :
    (st.flag = .filter ∧ b1.recs[q]? = some r ∧ b1.st[q]? = some st) ∨
    (st.flag ≠ .filter ∧ ∃ (k : Nat) (o : PR), (actList b.st)[k]? = some q ∧ (padOut b.nAct out)[k]? = some o ∧
      b.active[k]? = some r ∧ b1.recs[q]? = some (prEffect o r st).1 ∧ b1.st[q]? = some (prEffect o r st).2) := by
  obtain ⟨h0, hle, _, _, _, hact, hoth, _⟩ := procDoP_effect hwf hsplit hn hr
  obtain ⟨hq, hsq⟩ := List.getElem?_eq_some_iff.mp hst
  by_cases hm : q ∈ actList b.st
  · right
    obtain ⟨_, hnf⟩ := mem_actList.mp hm
    have hfl : st.flag ≠ .filter := by rw [← hsq]; exact (notFilt_iff hq).mp hnf
    obtain ⟨k, hk⟩ := List.mem_iff_getElem?.mp hm
    have hkl : k < (actList b.st).length := (List.getElem?_eq_some_iff.mp hk).1
    have hpl : (padOut b.nAct out).length = b.nAct := length_padOut hle
    have hkp : k < (padOut b.nAct out).length := by rw [hpl]; exact hkl
    refine ⟨hfl, k, (padOut b.nAct out)[k], hk, List.getElem?_eq_getElem hkp, ?_,
      hact k q r st _ hk hrec hst (List.getElem?_eq_getElem hkp)⟩
    rw [active_getElem? hwf hk]; exact hrec
  · left
    have hnf : ¬ notFilt b.st q = true := fun hh => hm (mem_actList.mpr ⟨hq, hh⟩)
    have hfl : st.flag = .filter := by
      rw [← hsq]
      by_cases hh : b.st[q].flag = .filter
      · exact hh
      · exact absurd ((notFilt_iff hq).mpr hh) hnf
    obtain ⟨e1, e2⟩ := hoth q hm
    exact ⟨hfl, by rw [e1]; exact hrec, by rw [e2]; exact hst⟩

/-- the `k`-th active record sits at a physical index -/
theorem active_phys {h : Heap} {b : Batch} (hwf : b.WF h) {k : Nat} {r : Rec} (hk : b.active[k]? = some r) :
    ∃ p : Nat, (actList b.st)[k]? = some p ∧ b.recs[p]? = some r := by
  have hactl : b.active.length = b.nAct := active_length hwf.1.st_len hwf.2
  have hkl : k < (actList b.st).length := by
    have := (List.getElem?_eq_some_iff.mp hk).1
    rw [hactl] at this; exact this
  have hkp := List.getElem?_eq_getElem hkl
  refine ⟨_, hkp, ?_⟩
  rw [← active_getElem? hwf hkp]; exact hk

theorem align_root {G : Ctx} {n0 : Nat} {b : Batch} {h : Heap} (hwf : b.WF h) (hal : Align G n0 b) {p : Nat} {r : Rec}
    (hr : b.recs[p]? = some r) : ∃ src, G.all[n0 + p]? = some src ∧ root r = root src ∧ p < b.pos.length := by
  have hp : p < b.recs.length := (List.getElem?_eq_some_iff.mp hr).1
  have hpp : p < b.pos.length := by rw [hwf.1.pos_len]; exact hp
  obtain ⟨src, hsrc⟩ := hal.src hpp
  exact ⟨src, hsrc, hal.lin p r src hr hsrc, hpp⟩

/-- a record whose new status is not `nack` was not errored by this call -/
theorem not_errored {G : Ctx} (hs : Src G) {h h' : Heap} {b b1 : Batch} {out : List PR} {n0 : Nat} (hwf : b.WF h)
    (hsplit : b.split = []) (hn : NoMulti out) (hr : procDoP h b out = .ok (h', b1)) (hal : Align G n0 b)
    {q : Nat} {st' : Status} {src : Rec} (hst' : b1.st[q]? = some st') (hsrc : G.all[n0 + q]? = some src)
    (hfl : st'.flag ≠ .nack) : root src ∉ erroredBy b.active out := by
  intro hm
  obtain ⟨k, r, e, h1, h2, h3⟩ := mem_erroredBy hm
  obtain ⟨h0, hle, _, _, _, hact, _, _⟩ := procDoP_effect hwf hsplit hn hr
  obtain ⟨p, hkp, hrp⟩ := active_phys hwf h1
  obtain ⟨srcp, hsp, hroot, _⟩ := align_root hwf hal hrp
  have : n0 + q = n0 + p := hs.idx_of_root hsrc hsp (by rw [h3, hroot])
  have hqp : q = p := by omega
  subst hqp
  have hpst : q < b.st.length := (mem_actList.mp (List.mem_of_getElem? hkp)).1
  have hko : k < out.length := (List.getElem?_eq_some_iff.mp h2).1
  obtain ⟨_, e2⟩ := hact k q r b.st[q] (.error e) hkp hrp (List.getElem?_eq_getElem hpst) (by rw [padOut_lt hko]; exact h2)
  rw [hst'] at e2
  cases e2
  exact hfl rfl

/-! ## the monitor step as a relation -/

/-- `μ'` is `μ` after a processor call on `recs` answered by `out` (call counters aside) -/
structure PStep (μ μ' : TSt) (recs : List Rec) (out : List PR) : Prop where
  fil : μ'.filtered = μ.filtered ++ filteredBy recs out
  err : μ'.errored = μ.errored ++ erroredBy recs out
  wr : μ'.written = μ.written
  any : μ'.dlqAny = μ.dlqAny
  ok : μ'.dlqOk = μ.dlqOk

theorem PStep.clean {μ μ' : TSt} {recs : List Rec} {out : List PR} {ρ : Nat} (hp : PStep μ μ' recs out)
    (hc : Clean μ ρ) (hne : ρ ∉ erroredBy recs out) : Clean μ' ρ := by
  refine ⟨fun hx => ?_, fun e hm hroot => ?_⟩
  · rw [hp.err] at hx
    rcases List.mem_append.mp hx with h1 | h1
    · exact hc.1 h1
    · exact hne h1
  · rw [hp.wr] at hm
    exact hc.2 e hm hroot

theorem PStep.active {μ μ' : TSt} {recs : List Rec} {out : List PR} {pre : List Nat} {ρ : Nat} (hp : PStep μ μ' recs out)
    (ha : Active μ pre ρ) (hne : ρ ∉ erroredBy recs out) : Active μ' pre ρ := by
  refine ⟨hp.clean ha.1 hne, fun d hd => ?_⟩
  obtain ⟨e, hm, h1, h2⟩ := ha.2 d hd
  exact ⟨e, by rw [hp.wr]; exact hm, h1, h2⟩

theorem PStep.filtered {μ μ' : TSt} {recs : List Rec} {out : List PR} {ρ : Nat} (hp : PStep μ μ' recs out)
    (hf : Filtered μ ρ) (hne : ρ ∉ erroredBy recs out) : Filtered μ' ρ :=
  ⟨hp.clean hf.1 hne, by rw [hp.fil]; exact List.mem_append_left _ hf.2⟩

theorem PStep.ext {G : Ctx} {n0 : Nat} {b : Batch} {h : Heap} (hwf : b.WF h) (hal : Align G n0 b) {μ μ' : TSt}
    {out : List PR} (hp : PStep μ μ' b.active out) : Ext (InR G n0 b.pos.length) μ μ' := by
  have key : ∀ (k : Nat) (r : Rec), b.active[k]? = some r → InR G n0 b.pos.length (root r) := by
    intro k r hk
    obtain ⟨p, _, hrp⟩ := active_phys hwf hk
    obtain ⟨src, hsp, hroot, hlt⟩ := align_root hwf hal hrp
    exact ⟨p, src, hlt, hsp, hroot.symm⟩
  refine ⟨?_, ?_, ?_, ?_, ?_, ?_, ?_, ?_, ?_, ?_⟩ <;> intro x hx
  · rw [hp.fil]; exact List.mem_append_left _ hx
  · rw [hp.fil] at hx
    rcases List.mem_append.mp hx with h1 | h1
    · exact Or.inl h1
    · obtain ⟨k, r, o, h1, _, h3⟩ := mem_filteredBy h1
      rw [h3]; exact Or.inr (key k r h1)
  · rw [hp.err]; exact List.mem_append_left _ hx
  · rw [hp.err] at hx
    rcases List.mem_append.mp hx with h1 | h1
    · exact Or.inl h1
    · obtain ⟨k, r, e, h1, _, h3⟩ := mem_erroredBy h1
      rw [h3]; exact Or.inr (key k r h1)
  · rw [hp.wr]; exact hx
  · rw [hp.wr] at hx; exact Or.inl hx
  · rw [hp.any]; exact hx
  · rw [hp.any] at hx; exact Or.inl hx
  · rw [hp.ok]; exact hx
  · rw [hp.ok] at hx; exact Or.inl hx

/-! ## the batch after the call -/

theorem proc_old {h h' : Heap} {b b1 : Batch} {out : List PR} (hwf : b.WF h) (hsplit : b.split = [])
    (hn : NoMulti out) (hr : procDoP h b out = .ok (h', b1)) {q : Nat} (hq : q < b1.st.length ∨ q < b1.recs.length) :
    ∃ (st : Status) (r : Rec), b.st[q]? = some st ∧ b.recs[q]? = some r := by
  obtain ⟨_, _, _, h1, h2, _, _, _⟩ := procDoP_effect hwf hsplit hn hr
  have h3 := hwf.1.st_len
  have hq1 : q < b.st.length := by omega
  have hq2 : q < b.recs.length := by omega
  exact ⟨_, _, List.getElem?_eq_getElem hq1, List.getElem?_eq_getElem hq2⟩

theorem proc_align {G : Ctx} {h h' : Heap} {b b1 : Batch} {out : List PR} {n0 : Nat} (hwf : b.WF h)
    (hsplit : b.split = []) (hn : NoMulti out) (hr : procDoP h b out = .ok (h', b1)) (hal : Align G n0 b)
    (hok : pcallOK b.active out = true) : Align G n0 b1 := by
  have hpos : b1.pos = b.pos := (procDoP_effect hwf hsplit hn hr).2.2.1
  constructor
  · intro q p hq
    rw [hpos] at hq
    exact hal.pos q p hq
  · intro q r1 src hr1 hsrc
    obtain ⟨st, r, hst, hrec⟩ := proc_old hwf hsplit hn hr (Or.inr (List.getElem?_eq_some_iff.mp hr1).1)
    have hlin := hal.lin q r src hrec hsrc
    rcases proc_cases hwf hsplit hn hr hst hrec with ⟨_, e1, _⟩ | ⟨_, k, o, hk, ho, hak, e1, _⟩
    · rw [hr1] at e1; cases e1; exact hlin
    · rw [hr1] at e1
      have e1 := Option.some.inj e1
      cases o with
      | single r' =>
        have := (pcallOK_get hok hak (padOut_out ho (by intro hh; cases hh))).1 r' rfl
        rw [e1]; exact this.trans hlin
      | filter => rw [e1]; exact hlin
      | error e => rw [e1]; exact hlin
      | nil => rw [e1]; exact hlin
      | multi m =>
        match m, ho, e1 with
        | [], _, e1 => rw [e1]; exact hlin
        | [x], ho, e1 =>
          have := (pcallOK_get hok hak (padOut_out ho (by intro hh; cases hh))).2 [x] rfl x (by simp)
          rw [e1]; exact this.trans hlin
        | _ :: _ :: _, _, e1 => rw [e1]; exact hlin

theorem proc_flagsAF {h h' : Heap} {b b1 : Batch} {out : List PR} (hwf : b.WF h)
    (hsplit : b.split = []) (hn : NoMulti out) (hr : procDoP h b out = .ok (h', b1)) (haf : FlagsAF b)
    (hclean : b.tainted = false) (ht : b1.tainted = false) : FlagsAF b1 := by
  have htn := (procDoP_effect hwf hsplit hn hr).2.2.2.2.2.2.2
  rw [ht, hclean, Bool.false_or] at htn
  have hnt : ∀ (k : Nat) (o : PR), (padOut b.nAct out)[k]? = some o → prTaints o = false := by
    intro k o ho
    have := List.any_eq_false.mp htn.symm o (List.mem_of_getElem? ho)
    simpa using this
  intro q st' hst'
  obtain ⟨st, r, hst, hrec⟩ := proc_old hwf hsplit hn hr (Or.inl (List.getElem?_eq_some_iff.mp hst').1)
  have hold := haf q st hst
  rcases proc_cases hwf hsplit hn hr hst hrec with ⟨_, _, e2⟩ | ⟨_, k, o, hk, ho, hak, _, e2⟩
  · rw [hst'] at e2; cases e2; exact hold
  · rw [hst'] at e2
    have e2 := Option.some.inj e2
    have hto := hnt k o ho
    cases o with
    | single r' => rw [e2]; exact hold
    | filter => rw [e2]; exact Or.inr rfl
    | error e => cases hto
    | nil => cases hto
    | multi m =>
      match m, e2 with
      | [], e2 => rw [e2]; exact Or.inr rfl
      | [x], e2 => rw [e2]; exact hold
      | _ :: _ :: _, e2 => rw [e2]; exact hold

theorem proc_facts {G : Ctx} (hs : Src G) {h h' : Heap} {b b1 : Batch} {out : List PR} {n0 : Nat} {pre : List Nat}
    {μ μ' : TSt} (hwf : b.WF h) (hsplit : b.split = []) (hn : NoMulti out) (hr : procDoP h b out = .ok (h', b1))
    (hal : Align G n0 b) (haf : FlagsAF b) (hfacts : Facts G μ pre pre True n0 b 0) (hp : PStep μ μ' b.active out) :
    Facts G μ' pre pre True n0 b1 0 := by
  -- a record whose new flag is neither `nack` nor `filter` was active and is still `Active`
  have hkeep : ∀ (q : Nat) (st' : Status) (src : Rec), b1.st[q]? = some st' → G.all[n0 + q]? = some src →
      st'.flag ≠ .nack → st'.flag ≠ .filter → Active μ' pre (root src) := by
    intro q st' src hst' hsrc hf1 hf2
    have hne := not_errored hs hwf hsplit hn hr hal hst' hsrc hf1
    obtain ⟨st, r, hst, hrec⟩ := proc_old hwf hsplit hn hr (Or.inl (List.getElem?_eq_some_iff.mp hst').1)
    rcases proc_cases hwf hsplit hn hr hst hrec with ⟨hfl, _, e2⟩ | ⟨hnf, _⟩
    · rw [hst'] at e2; cases e2; exact absurd hfl hf2
    · have hack : st.flag = .ack := (haf q st hst).resolve_right hnf
      exact hp.active (hfacts.ack q st src (Nat.zero_le _) hst hsrc hack) hne
  refine ⟨?_, ?_, ?_⟩
  · intro q st' src _ hst' hsrc hflag
    exact hkeep q st' src hst' hsrc (by rw [hflag]; intro hh; cases hh) (by rw [hflag]; intro hh; cases hh)
  · intro q st' src _ hst' hsrc hflag
    have hne := not_errored hs hwf hsplit hn hr hal hst' hsrc (by rw [hflag]; intro hh; cases hh)
    obtain ⟨st, r, hst, hrec⟩ := proc_old hwf hsplit hn hr (Or.inl (List.getElem?_eq_some_iff.mp hst').1)
    rcases proc_cases hwf hsplit hn hr hst hrec with ⟨hfl, _, e2⟩ | ⟨hnf, k, o, hk, ho, hak, _, e2⟩
    · exact hp.filtered (hfacts.fil q st src (Nat.zero_le _) hst hsrc hfl) hne
    · have hack : st.flag = .ack := (haf q st hst).resolve_right hnf
      have hact := hfacts.ack q st src (Nat.zero_le _) hst hsrc hack
      refine ⟨hp.clean hact.1 hne, ?_⟩
      rw [hst'] at e2
      have e2 := Option.some.inj e2
      have hold : st.flag ≠ .filter := hnf
      have hmem : ∀ o', o' = o → (o = .filter ∨ o = .multi []) → root src ∈ μ'.filtered := by
        intro o' _ hoo
        have hno : o ≠ .nil := by rcases hoo with h1 | h1 <;> rw [h1] <;> intro hh <;> cases hh
        rw [hp.fil, ← hal.lin q r src hrec hsrc]
        exact List.mem_append_right _ (filteredBy_mem hak (padOut_out ho hno) hoo)
      cases o with
      | single r' => rw [e2] at hflag; exact absurd hflag hold
      | filter => exact hmem _ rfl (Or.inl rfl)
      | error e => rw [e2] at hflag; cases hflag
      | nil => rw [e2] at hflag; cases hflag
      | multi m =>
        match m, e2, hmem with
        | [], _, hmem => exact hmem _ rfl (Or.inr rfl)
        | [x], e2, _ => rw [e2] at hflag; exact absurd hflag hold
        | _ :: _ :: _, e2, _ => rw [e2] at hflag; exact absurd hflag hold
  · intro q st' src _ hst' hsrc hflag
    exact ⟨hkeep q st' src hst' hsrc (by rw [hflag]; intro hh; cases hh) (by rw [hflag]; intro hh; cases hh), trivial⟩

/-- A processor task on a batch in flight: the `.pcall` event never makes the monitor fire; when the
task returns a batch, the state invariant still holds, the batch is still aligned with the records
read (root preservation `RP` gives the lineage of replaced records), the only new monitor facts
concern roots of the batch, and the per-record facts hold for the new flags: a kept or retried
record is still `Active`, a filtered record is `Filtered` (its root was recorded by the monitor), an
errored record is nacked. -/
theorem procDo_mon {G : Ctx} (hs : Src G) (hns : NS G.scripts) {s s' : PS} {r : Except Stop Batch} {b : Batch}
    {task n0 : Nat} {pre : List Nat}
    (hI : GInv G s) (hb : BInv b) (hclean : b.tainted = false) (hal : Align G n0 b) (hf : nAcked s = n0)
    (haf : FlagsAF b) (hfacts : Facts G (G.mu s) pre pre True n0 b 0)
    (h : exec (procDo task b) s = (r, s')) (hrp : RP G s') :
    (G.mu s').tv = [] ∧
    ∀ b1, r = .ok b1 →
      GInv G s' ∧ nAcked s' = n0 ∧ BInv b1 ∧ b1.pos = b.pos ∧ Align G n0 b1 ∧
      Ext (InR G n0 b.pos.length) (G.mu s) (G.mu s') ∧
      Facts G (G.mu s') pre pre True n0 b1 0 ∧
      (b1.tainted = false → FlagsAF b1) ∧
      (∀ sub, WBelow G s sub → WBelow G s' sub) := by
  obtain ⟨hp, h1, _⟩ := procDo_shape task b s
  rw [h1] at h
  obtain ⟨hr, hs'⟩ := Prod.mk.inj h
  have hlog : s'.log = s.log.push (.pcall task b.active) := by rw [← hs']
  have hscr : s'.scripts = popScripts s.scripts task := by rw [← hs']
  have hmu : G.mu s' = pcallT G.scripts (G.mu s) task b.active := mu_push G s s' _ hlog
  rw [pcallT_eq] at hmu
  have hok := hrp.pcall task b.active hlog
  rw [hI.sc.nextReply] at hr
  have hnm := noMulti_replyOfCall hns task (callNoL (G.mu s).calls task)
  generalize procOut (replyOfCall G.scripts task (callNoL (G.mu s).calls task)) = out at hmu hok hr hnm
  have hstep : PStep (G.mu s) (G.mu s') b.active out := by rw [hmu]; exact ⟨rfl, rfl, rfl, rfl, rfl⟩
  have hna : nAcked s' = nAcked s := by
    unfold nAcked
    rw [hlog, ackedKeys_push]
    simp [evKeys]
  have hwr : (G.mu s').written = (G.mu s).written := hstep.wr
  refine ⟨by rw [hmu]; exact hI.safe, ?_⟩
  intro b1 hb1
  have hwf : b.WF s.heap := WF_of_runs_none hb.wf hb.runs
  rcases procDoP_total hwf out with ⟨h', b'', g1, g2, _⟩ | ⟨e, g1⟩
  · rw [g1, hb1] at hr
    have hbb : b'' = b1 := Except.ok.inj hr
    subst hbb
    have hfr := procDoP_fr hnm hb.split g1
    refine ⟨?_, by rw [hna, hf], hb.of_fr hfr g2, hfr.pos, proc_align hwf hb.split hnm g1 hal hok,
      hstep.ext hwf hal, proc_facts hs hwf hb.split hnm g1 hal haf hfacts hstep,
      proc_flagsAF hwf hb.split hnm g1 haf hclean, ?_⟩
    · refine ⟨by rw [hmu]; exact hI.safe, hI.sc.event (.pcall task b.active) task rfl hlog hscr, ?_, ?_, ?_, ?_⟩
      · rw [hna, ← hI.acked, hlog, ackedKeys_push]
        simp [evKeys]
      · intro x hx
        rw [hstep.any] at hx
        rw [hna]; exact hI.dlqAny x hx
      · intro x hx
        rw [hstep.ok] at hx
        rw [hna]; exact hI.dlqOk x hx
      · intro e he
        rw [hwr] at he
        exact hI.wr e he
    · intro sub hw e he hsub
      rw [hwr] at he
      rw [hna]; exact hw e he hsub
  · rw [g1, hb1] at hr
    cases hr

end Conduit.Funnel
