import ConduitModel.Proofs.PassTask

/-!
# Exact effect of `ProcessorTask.Do` (pure core `procDoP`) on a batch without split records

For a well-formed batch without split keys and a reply without real splits (`NoMulti`), a
successful `procDoP` changes exactly the records / statuses of the ACTIVE records, each according
to the reply for its active index (`prEffect`); the reply is padded with `nil` (= retry) entries.
-/
namespace Conduit.Funnel

/-- what the reply `o` for an active record does to its record and status -/
def prEffect (o : PR) (r : Rec) (st : Status) : Rec × Status :=
  match o with
  | .single r' => (r', st)
  | .filter => (r, { st with flag := .filter })
  | .error e => (r, { flag := .nack, err := some (e.getD plainErr) })
  | .multi [] => (r, { st with flag := .filter })
  | .multi [r'] => (r', st)
  | .multi _ => (r, st)
  | .nil => (r, { st with flag := .retry })

/-- replies that taint the batch (`Nack` / `Retry`) -/
def prTaints : PR → Bool
  | .error _ => true
  | .nil => true
  | _ => false

/-! ## generic list facts -/

theorem filterMap_eq_map' {α β} (f : α → Option β) (g : α → β) (l : List α) (h : ∀ x ∈ l, f x = some (g x)) :
    l.filterMap f = l.map g := by
  induction l with
  | nil => rfl
  | cons a l ih =>
    rw [List.filterMap_cons, h a (by simp), List.map_cons, ih (fun x hx => h x (by simp [hx]))]

theorem group_get (pad : List PR) (i to t : Nat) (ht : i + t < to) : ((pad.take to).drop i)[t]? = pad[i+t]? := by
  rw [List.getElem?_drop, List.getElem?_take]
  simp [ht]

theorem any_group {pad : List PR} {i to : Nat} {tb : Bool} (hi : i < to) (hto : to ≤ pad.length)
    (h : ∀ (k : Nat) (o : PR), i ≤ k → k < to → pad[k]? = some o → prTaints o = tb) :
    ((pad.take to).drop i).any prTaints = tb := by
  have hmem : ∀ x ∈ (pad.take to).drop i, prTaints x = tb := by
    intro x hx
    obtain ⟨t, ht⟩ := List.mem_iff_getElem?.mp hx
    have htl := (List.getElem?_eq_some_iff.mp ht).1
    have hl : ((pad.take to).drop i).length = to - i := by simp; omega
    rw [group_get pad i to t (by omega)] at ht
    exact h (i + t) x (by omega) (by omega) ht
  cases tb with
  | false =>
    rw [List.any_eq_false]
    intro x hx
    rw [hmem x hx]; exact fun h => nomatch h
  | true =>
    rw [List.any_eq_true]
    have hil : i < pad.length := by omega
    refine ⟨pad[i], ?_, ?_⟩
    · refine List.mem_iff_getElem?.mpr ⟨0, ?_⟩
      rw [group_get pad i to 0 (by omega)]
      simp [hil]
    · exact h i pad[i] (Nat.le_refl _) hi (by simp [hil])

/-! ## the exact-effect loop invariant -/

/-- loop invariant of the end→start marking: everything at active indices `≥ to` carries its
effect, everything below `to` is as in the original batch `b`. -/
structure EInv (b : Batch) (pad : List PR) (h : Heap) (to : Nat) (c : Batch) : Prop where
  wf : c.WF h
  split : c.split = []
  pos : c.pos = b.pos
  stlen : c.st.length = b.st.length
  recslen : c.recs.length = b.recs.length
  leb : to ≤ b.nAct
  act : ∀ k : Nat, k < to → (actList c.st)[k]? = (actList b.st)[k]?
  lo : ∀ k p : Nat, k < to → (actList b.st)[k]? = some p → c.recs[p]? = b.recs[p]? ∧ c.st[p]? = b.st[p]?
  hi : ∀ (k p : Nat) (r : Rec) (st : Status) (o : PR), to ≤ k → (actList b.st)[k]? = some p →
    b.recs[p]? = some r → b.st[p]? = some st → pad[k]? = some o →
    c.recs[p]? = some (prEffect o r st).1 ∧ c.st[p]? = some (prEffect o r st).2
  oth : ∀ q : Nat, q ∉ actList b.st → c.recs[q]? = b.recs[q]? ∧ c.st[q]? = b.st[q]?
  taint : c.tainted = (b.tainted || (pad.drop to).any prTaints)

theorem EInv.le {b : Batch} {pad : List PR} {h : Heap} {to : Nat} {c : Batch} (hinv : EInv b pad h to c) :
    to ≤ c.nAct := by
  cases to with
  | zero => omega
  | succ k =>
    have h1 := hinv.act k (by omega)
    have hk : k < (actList b.st).length := hinv.leb
    rw [List.getElem?_eq_getElem hk] at h1
    exact (List.getElem?_eq_some_iff.mp h1).1

/-- exact effect of one mutator call on the active indices `i … to-1` of `c`: record / status of
active index `k` become `E k r st`, nothing else changes, the active-index map below `i` stays. -/
structure StepE (i to : Nat) (E : Nat → Rec → Status → Rec × Status) (tb : Bool) (c c' : Batch) : Prop where
  split : c'.split = c.split
  pos : c'.pos = c.pos
  stlen : c'.st.length = c.st.length
  recslen : c'.recs.length = c.recs.length
  act : ∀ k : Nat, k < i → (actList c'.st)[k]? = (actList c.st)[k]?
  tgt : ∀ (k q : Nat) (r : Rec) (st : Status), i ≤ k → k < to → (actList c.st)[k]? = some q →
    c.recs[q]? = some r → c.st[q]? = some st →
    c'.recs[q]? = some (E k r st).1 ∧ c'.st[q]? = some (E k r st).2
  oth : ∀ q : Nat, (¬ ∃ k : Nat, i ≤ k ∧ k < to ∧ (actList c.st)[k]? = some q) →
    c'.recs[q]? = c.recs[q]? ∧ c'.st[q]? = c.st[q]?
  taint : c'.tainted = (c.tainted || tb)

theorem EInv.step {b : Batch} {pad : List PR} {h : Heap} {to i : Nat} {c c' : Batch}
    {E : Nat → Rec → Status → Rec × Status} {tb : Bool}
    (hinv : EInv b pad h to c) (hs : StepE i to E tb c c') (hwf : c'.WF h) (hi : i < to) (hto : to ≤ pad.length)
    (hE : ∀ (k : Nat) (o : PR) (r : Rec) (st : Status), i ≤ k → k < to → pad[k]? = some o → E k r st = prEffect o r st)
    (htb : ∀ (k : Nat) (o : PR), i ≤ k → k < to → pad[k]? = some o → prTaints o = tb) :
    EInv b pad h i c' := by
  have hnt : ∀ k p : Nat, (k < i ∨ to ≤ k) → (actList b.st)[k]? = some p →
      ¬ ∃ k' : Nat, i ≤ k' ∧ k' < to ∧ (actList c.st)[k']? = some p := by
    rintro k p hk hp ⟨k', h1, h2, h3⟩
    rw [hinv.act k' h2] at h3
    have := actList_inj hp h3
    omega
  refine ⟨hwf, hs.split.trans hinv.split, hs.pos.trans hinv.pos, hs.stlen.trans hinv.stlen,
    hs.recslen.trans hinv.recslen, by have := hinv.leb; omega, ?_, ?_, ?_, ?_, ?_⟩
  · intro k hk
    exact (hs.act k hk).trans (hinv.act k (by omega))
  · intro k p hk hp
    obtain ⟨a1, a2⟩ := hs.oth p (hnt k p (Or.inl hk) hp)
    obtain ⟨b1, b2⟩ := hinv.lo k p (by omega) hp
    exact ⟨a1.trans b1, a2.trans b2⟩
  · intro k p r st o hk hp hr hst ho
    by_cases hkt : k < to
    · obtain ⟨b1, b2⟩ := hinv.lo k p hkt hp
      have := hs.tgt k p r st hk hkt ((hinv.act k hkt).trans hp) (b1.trans hr) (b2.trans hst)
      rw [hE k o r st hk hkt ho] at this
      exact this
    · obtain ⟨a1, a2⟩ := hs.oth p (hnt k p (Or.inr (by omega)) hp)
      obtain ⟨b1, b2⟩ := hinv.hi k p r st o (by omega) hp hr hst ho
      exact ⟨a1.trans b1, a2.trans b2⟩
  · intro q hq
    obtain ⟨a1, a2⟩ := hs.oth q (by
      rintro ⟨k', h1, h2, h3⟩
      rw [hinv.act k' h2] at h3
      exact hq (List.mem_of_getElem? h3))
    obtain ⟨b1, b2⟩ := hinv.oth q hq
    exact ⟨a1.trans b1, a2.trans b2⟩
  · rw [hs.taint, hinv.taint]
    have hd : pad.drop i = (pad.take to).drop i ++ pad.drop to := by
      conv => lhs; rw [← List.take_append_drop to pad]
      rw [List.drop_append_of_le_length (by simp; omega)]
    rw [hd, List.any_append, any_group hi hto htb]
    cases b.tainted <;> cases tb <;> cases (List.drop to pad).any prTaints <;> rfl

/-! ## the mutators as `StepE` -/

theorem setRecords_step {h : Heap} {c : Batch} (hwf : c.WF h) {i : Nat} {recs : List Rec}
    (hi : i + recs.length ≤ c.nAct) :
    ∃ c' : Batch, c.setRecords i recs = .ok c' ∧ c'.WF h ∧
      StepE i (i + recs.length) (fun k r st => (recs[k - i]?.getD r, st)) false c c' := by
  obtain ⟨out, e, hl, hin, hout⟩ := setRecords_effect hwf hi
  obtain ⟨c', e', wf', _, _, _, _, _, _, hbelow⟩ := setRecords_WF hwf hi
  rw [e] at e'
  have hc : c' = { c with recs := out } := (Except.ok.inj e').symm
  subst hc
  refine ⟨_, e, wf', rfl, rfl, rfl, hl, hbelow.act, ?_, ?_, by simp⟩
  · intro k q r st h1 h2 hq _ hst
    obtain ⟨p, hp1, hp2⟩ := hin (k - i) (by omega)
    rw [show i + (k - i) = k by omega, hq] at hp1
    obtain rfl : q = p := Option.some.inj hp1
    have hk : k - i < recs.length := by omega
    refine ⟨?_, hst⟩
    show out[q]? = _
    rw [hp2, List.getElem?_eq_getElem hk]
    rfl
  · intro q hq
    refine ⟨?_, rfl⟩
    show out[q]? = _
    apply hout
    rintro ⟨k, hk1, hk2⟩
    exact hq ⟨i + k, by omega, by omega, hk2⟩

theorem flagged_step {c c' : Batch} {f : Flag} {i j : Nat} {tb : Bool} (hst : c'.st = c.flagged f i j)
    (hrecs : c'.recs = c.recs) (hpos : c'.pos = c.pos) (hsplit : c'.split = c.split)
    (htaint : c'.tainted = (c.tainted || tb))
    (hact : ∀ k : Nat, k < i → (actList c'.st)[k]? = (actList c.st)[k]?) :
    StepE i j (fun _ r st => (r, setFlagP f st)) tb c c' := by
  refine ⟨hsplit, hpos, by rw [hst]; simp [Batch.flagged], by rw [hrecs], hact, ?_, ?_, htaint⟩
  · intro k q r st h1 h2 hq hr hs
    rw [hrecs, hst, (getElem?_flagged c f i j q).1 ⟨k, h1, h2, hq⟩, hs]
    exact ⟨hr, rfl⟩
  · intro q hq
    rw [hrecs, hst, (getElem?_flagged c f i j q).2 hq]
    exact ⟨rfl, rfl⟩

theorem nack_step {h : Heap} {c : Batch} (hwf : c.WF h) (hsplit : c.split = []) {i : Nat} {errs : List (Option Err)}
    (hi : i + errs.length ≤ c.nAct) :
    ∃ c' : Batch, c.nack i errs = .ok c' ∧ c'.WF h ∧
      StepE i (i + errs.length) (fun k r _ => (r, { flag := .nack, err := (errs[k - i]?).join })) true c c' := by
  obtain ⟨st', g1, g2, g3, _, _, _, g7⟩ := nack_ok hwf hi
  obtain ⟨c1, c2⟩ := countFilter_congr g2 g3
  have g7 := g7 hsplit
  refine ⟨_, g1, ⟨hwf.1.with_st g2 true c.filterCount, ?_⟩, rfl, rfl, g2, rfl, ?_, ?_, ?_, by simp⟩
  · show c.filterCount = countFilter st'
    rw [c1]; exact hwf.2
  · intro k _
    show (actList st')[k]? = _
    rw [c2]
  · intro k q r st h1 h2 hq hr _
    refine ⟨hr, ?_⟩
    show st'[q]? = _
    exact (g7 q).1 (k - i) (by omega) (by rw [show i + (k - i) = k by omega]; exact hq)
  · intro q hq
    refine ⟨rfl, ?_⟩
    show st'[q]? = _
    apply (g7 q).2
    rintro ⟨k, hk1, hk2⟩
    exact hq ⟨i + k, by omega, by omega, hk2⟩

/-! ## the `MultiRecord` group (no real splits) -/

theorem procMultiStep_eff {b : Batch} {pad : List PR} {h : Heap} {c : Batch} {i t : Nat} {records : List PR}
    (hinv : EInv b pad h (i + t + 1) c) (hto : i + t + 1 ≤ pad.length) {m : List Rec} (hm : m.length ≤ 1)
    (hrec : records[t]? = some (.multi m)) (hpad : pad[i+t]? = some (.multi m)) :
    ∃ c' : Batch, procMultiStep i records (h, c) t = .ok (h, c') ∧ EInv b pad h (i + t) c' := by
  have hlt : i + t < c.nAct := by have := hinv.le; omega
  unfold procMultiStep
  rw [hrec]
  simp only
  cases m with
  | nil =>
    simp only [List.length_nil]
    rw [filter1_ok hinv.wf hlt]
    refine ⟨_, rfl, hinv.step (E := fun _ r st => (r, setFlagP .filter st)) (tb := false)
      (flagged_step rfl rfl rfl rfl (by simp) (below_filtered (by omega) _).act) (by
        have := WF_filtered hinv.wf (i := i + t) (j := i + t + 1) hlt
        simpa using this) (by omega) hto ?_ ?_⟩
    · intro k o r st h1 h2 ho
      obtain rfl : k = i + t := by omega
      rw [hpad] at ho
      cases ho
      rfl
    · intro k o h1 h2 ho
      obtain rfl : k = i + t := by omega
      rw [hpad] at ho
      cases ho
      rfl
  | cons x m' =>
    have hm' : m' = [] := by
      cases m' with
      | nil => rfl
      | cons _ _ => simp at hm
    subst hm'
    simp only [List.length_cons, List.length_nil]
    obtain ⟨c', e, wf', hs⟩ := setRecords_step hinv.wf (i := i + t) (recs := [x]) (by simp only [List.length_cons, List.length_nil]; omega)
    rw [e]
    refine ⟨c', rfl, hinv.step hs wf' (by omega) hto ?_ ?_⟩
    · intro k o r st h1 h2 ho
      obtain rfl : k = i + t := by omega
      rw [hpad] at ho
      cases ho
      simp [prEffect]
    · intro k o h1 h2 ho
      obtain rfl : k = i + t := by omega
      rw [hpad] at ho
      cases ho
      rfl

theorem procMultiLoop_eff {b : Batch} {pad : List PR} {h : Heap} {i : Nat} {records : List PR} (hnm : NoMulti pad)
    (n : Nat) {c : Batch} (hinv : EInv b pad h (i + n) c) (hto : i + n ≤ pad.length)
    (hrec : ∀ t : Nat, t < n → ∃ m : List Rec, records[t]? = some (.multi m) ∧ pad[i+t]? = some (.multi m)) :
    ∃ c' : Batch, (List.range n).reverse.foldlM (procMultiStep i records) (h, c) = .ok (h, c') ∧ EInv b pad h i c' := by
  induction n generalizing c with
  | zero => exact ⟨c, rfl, hinv⟩
  | succ n ih =>
    obtain ⟨m, hr, hp⟩ := hrec n (by omega)
    have hm : m.length ≤ 1 := hnm _ (List.mem_of_getElem? hp) m rfl
    obtain ⟨c1, e1, inv1⟩ := procMultiStep_eff (t := n) hinv hto hm hr hp
    obtain ⟨c2, e2, inv2⟩ := ih inv1 (by omega) (fun t ht => hrec t (by omega))
    refine ⟨c2, ?_, inv2⟩
    rw [List.range_succ, List.reverse_append]
    simp only [List.reverse_cons, List.reverse_nil, List.nil_append, List.cons_append, List.foldlM_cons, e1,
      bind, Except.bind]
    exact e2

/-! ## one group -/

/-- payload of a `.single` reply -/
def recOf : PR → Rec
  | .single r => r
  | _ => default

/-- error of an `.error` reply, as `markBatchRecords` passes it to `Nack` -/
def errOf : PR → Option Err
  | .error e => some (e.getD plainErr)
  | _ => none

theorem procMarkP_eff {b : Batch} {pad : List PR} {h : Heap} {c : Batch} {i to : Nat}
    (hinv : EInv b pad h to c) (hi : i < to) (hto : to ≤ pad.length) (hnm : NoMulti pad)
    (hk : ∀ j : Nat, i ≤ j → j < to → (pad[j]?.getD .nil).kind = (pad[i]?.getD .nil).kind) :
    ∃ c' : Batch, procMarkP (h, c) i ((pad.take to).drop i) = .ok (h, c') ∧ EInv b pad h i c' := by
  have hle := hinv.le
  have hlen : ((pad.take to).drop i).length = to - i := by simp; omega
  have hrec : ∀ t : Nat, i + t < to → ((pad.take to).drop i)[t]? = pad[i+t]? := group_get pad i to
  generalize hR : (pad.take to).drop i = records at hlen hrec
  cases records with
  | nil => simp at hlen; omega
  | cons r rest =>
    have hl' : (r :: rest).length = to - i := hlen
    have hpi : pad[i]? = some r := by
      have := hrec 0 (by omega)
      simpa using this.symm
    have hkind : ∀ (k : Nat) (o : PR), i ≤ k → k < to → pad[k]? = some o → o.kind = r.kind := by
      intro k o h1 h2 ho
      have := hk k h1 h2
      rw [ho, hpi] at this
      exact this
    have hall : ∀ x ∈ r :: rest, x.kind = r.kind := by
      intro x hx
      obtain ⟨t, ht⟩ := List.mem_iff_getElem?.mp hx
      have htl : t < (r :: rest).length := (List.getElem?_eq_some_iff.mp ht).1
      rw [hrec t (by omega)] at ht
      exact hkind (i + t) x (by omega) (by omega) ht
    have hget : ∀ (k : Nat) (o : PR), i ≤ k → k < to → pad[k]? = some o → (r :: rest)[k - i]? = some o := by
      intro k o h1 h2 ho
      rw [hrec (k - i) (by omega), show i + (k - i) = k by omega, ho]
    unfold procMarkP
    cases r with
    | single r0 =>
      simp only
      generalize hrs : List.filterMap _ (PR.single r0 :: rest) = recs
      have hrs2 : recs = (PR.single r0 :: rest).map recOf := by
        rw [← hrs]
        exact filterMap_eq_map' _ _ _ (fun x hx => by
          have := hall x hx
          cases x <;> first | rfl | (simp [PR.kind] at this))
      have hrl : recs.length = to - i := by rw [hrs2, List.length_map]; exact hl'
      obtain ⟨c', e, wf', hs⟩ := setRecords_step hinv.wf (i := i) (recs := recs) (by omega)
      rw [e]
      rw [hrl, show i + (to - i) = to by omega] at hs
      refine ⟨c', rfl, hinv.step hs wf' hi hto ?_ ?_⟩
      · intro k o r st h1 h2 ho
        have hkk := hkind k o h1 h2 ho
        have hg : recs[k - i]? = some (recOf o) := by
          rw [hrs2, List.getElem?_map, hget k o h1 h2 ho]; rfl
        cases o <;> first | (simp [PR.kind] at hkk; done) | skip
        simp [hg, recOf, prEffect]
      · intro k o h1 h2 ho
        have hkk := hkind k o h1 h2 ho
        cases o <;> first | rfl | (simp [PR.kind] at hkk)
    | filter =>
      simp only
      rw [hl', filterRange_ok hinv.wf (by omega) (by omega), show i + (to - i) = to by omega]
      refine ⟨_, rfl, hinv.step (E := fun _ r st => (r, setFlagP .filter st)) (tb := false)
        (flagged_step rfl rfl rfl rfl (by simp) (below_filtered (by omega) _).act)
        (WF_filtered hinv.wf (by omega)) hi hto ?_ ?_⟩
      · intro k o r st h1 h2 ho
        have hkk := hkind k o h1 h2 ho
        cases o <;> first | rfl | (simp [PR.kind] at hkk)
      · intro k o h1 h2 ho
        have hkk := hkind k o h1 h2 ho
        cases o <;> first | rfl | (simp [PR.kind] at hkk)
    | error e0 =>
      simp only
      generalize hrs : List.filterMap _ (PR.error e0 :: rest) = errs
      have hrs2 : errs = (PR.error e0 :: rest).map errOf := by
        rw [← hrs]
        exact filterMap_eq_map' _ _ _ (fun x hx => by
          have := hall x hx
          cases x <;> first | rfl | (simp [PR.kind] at this))
      have hrl : errs.length = to - i := by rw [hrs2, List.length_map]; exact hl'
      obtain ⟨c', e, wf', hs⟩ := nack_step hinv.wf hinv.split (i := i) (errs := errs) (by omega)
      rw [e]
      rw [hrl, show i + (to - i) = to by omega] at hs
      refine ⟨c', rfl, hinv.step hs wf' hi hto ?_ ?_⟩
      · intro k o r st h1 h2 ho
        have hkk := hkind k o h1 h2 ho
        have hg : errs[k - i]? = some (errOf o) := by
          rw [hrs2, List.getElem?_map, hget k o h1 h2 ho]; rfl
        cases o <;> first | (simp [PR.kind] at hkk; done) | skip
        simp [hg, errOf, prEffect]
      · intro k o h1 h2 ho
        have hkk := hkind k o h1 h2 ho
        cases o <;> first | rfl | (simp [PR.kind] at hkk)
    | multi m0 =>
      simp only
      rw [hl']
      refine procMultiLoop_eff hnm (to - i) (by rw [show i + (to - i) = to by omega]; exact hinv) (by omega) ?_
      intro t ht
      have hp : pad[i + t]? = ((PR.multi m0 :: rest))[t]? := (hrec t (by omega)).symm
      have htl : t < (PR.multi m0 :: rest).length := by omega
      rw [List.getElem?_eq_getElem htl] at hp
      have hkk := hkind (i + t) _ (by omega) (by omega) hp
      generalize (PR.multi m0 :: rest)[t] = o at hp hkk
      cases o <;> first | (simp [PR.kind] at hkk; done) | skip
      rename_i m
      exact ⟨m, by rw [← hp, hrec t (by omega)], hp⟩
    | nil =>
      simp only
      rw [hl', retry_ok hinv.wf (by omega) (by omega), show i + (to - i) = to by omega]
      refine ⟨_, rfl, hinv.step (E := fun _ r st => (r, setFlagP .retry st)) (tb := true)
        (flagged_step rfl rfl rfl rfl (by simp) (below_flagged (by decide) _ _ _).act)
        (WF_flagged hinv.wf (by decide) _ _ _) hi hto ?_ ?_⟩
      · intro k o r st h1 h2 ho
        have hkk := hkind k o h1 h2 ho
        cases o <;> first | rfl | (simp [PR.kind] at hkk)
      · intro k o h1 h2 ho
        have hkk := hkind k o h1 h2 ho
        cases o <;> first | rfl | (simp [PR.kind] at hkk)

/-! ## the group loop -/

theorem procGroupLoop_eff {b : Batch} {pad : List PR} {h : Heap} (hnm : NoMulti pad) (n : Nat) {c : Batch} {to : Nat}
    (hinv : EInv b pad h to c) (hn : n ≤ to) (hto : to ≤ pad.length)
    (hsk : ∀ j : Nat, n ≤ j → j < to → (pad[j]?.getD .nil).kind = (pad[n-1]?.getD .nil).kind) :
    ∃ (c' : Batch) (to' : Nat),
      (List.range n).reverse.foldlM (procGroupStep pad) ((h, c), to) = .ok ((h, c'), to') ∧
      EInv b pad h to' c' ∧ (0 < n → to' = 0) := by
  induction n generalizing c to with
  | zero => exact ⟨c, to, rfl, hinv, fun h => by omega⟩
  | succ n ih =>
    rw [List.range_succ, List.reverse_append]
    simp only [List.reverse_cons, List.reverse_nil, List.nil_append, List.cons_append, List.foldlM_cons]
    unfold procGroupStep
    by_cases hb : (n == 0 || !(sameType (pad[n-1]?.getD .nil) (pad[n]?.getD .nil))) = true
    · simp only [hb, if_true]
      obtain ⟨c1, e1, inv1⟩ := procMarkP_eff (i := n) hinv (by omega) hto hnm (by
        intro j h1 h2
        by_cases hj : j = n
        · rw [hj]
        · exact hsk j (by omega) h2)
      simp only [e1, bind, Except.bind, pure, Except.pure]
      obtain ⟨c2, to2, e2, inv2, z2⟩ := ih inv1 (Nat.le_refl _) (by omega) (fun j h1 h2 => by omega)
      refine ⟨c2, to2, e2, inv2, fun _ => ?_⟩
      by_cases hn0 : n = 0
      · subst hn0
        simp only [List.range_zero, List.reverse_nil, List.foldlM_nil, pure, Except.pure] at e2
        cases e2; rfl
      · exact z2 (by omega)
    · simp only [hb, bind, Except.bind, pure, Except.pure]
      simp [sameType] at hb
      obtain ⟨hn0, hsame⟩ := hb
      obtain ⟨c2, to2, e2, inv2, z2⟩ := ih hinv (by omega) hto (fun j h1 h2 => by
        by_cases hj : j = n
        · rw [hj]; exact hsame.symm
        · rw [hsk j (by omega) h2]; exact hsame.symm)
      exact ⟨c2, to2, e2, inv2, fun _ => z2 (by omega)⟩

theorem procDoP_effect {h : Heap} {b : Batch} (hwf : b.WF h) (hsplit : b.split = []) {out : List PR}
    (hn : NoMulti out) {h' : Heap} {b' : Batch} (hr : procDoP h b out = .ok (h', b')) :
    out.length ≠ 0 ∧ out.length ≤ b.nAct ∧ b'.pos = b.pos ∧ b'.st.length = b.st.length ∧
    b'.recs.length = b.recs.length ∧
    (∀ (k p : Nat) (r : Rec) (st : Status) (o : PR), (actList b.st)[k]? = some p → b.recs[p]? = some r →
        b.st[p]? = some st → (padOut b.nAct out)[k]? = some o →
        b'.recs[p]? = some (prEffect o r st).1 ∧ b'.st[p]? = some (prEffect o r st).2) ∧
    (∀ q : Nat, q ∉ actList b.st → b'.recs[q]? = b.recs[q]? ∧ b'.st[q]? = b.st[q]?) ∧
    b'.tainted = (b.tainted || (padOut b.nAct out).any prTaints) := by
  have hact : b.active.length = b.nAct := active_length hwf.1.st_len hwf.2
  by_cases h0 : out.length = 0
  · have : out = [] := List.length_eq_zero_iff.mp h0
    subst this
    rw [procDoP_empty] at hr; cases hr
  by_cases h1 : out.length > b.active.length
  · rw [procDoP_too_many h b out h1] at hr; cases hr
  rw [procDoP_eq h b out h0 h1, hact] at hr
  obtain ⟨_, _, h2⟩ := bind_ok hr
  have hlen : (padOut b.nAct out).length = b.nAct := length_padOut (by omega)
  have hinv0 : EInv b (padOut b.nAct out) h (padOut b.nAct out).length b := by
    refine ⟨hwf, hsplit, rfl, rfl, rfl, by omega, fun _ _ => rfl, fun _ _ _ _ => ⟨rfl, rfl⟩, ?_,
      fun _ _ => ⟨rfl, rfl⟩, by simp⟩
    intro k p r st o hk hp
    have := (List.getElem?_eq_some_iff.mp hp).1
    have hna : b.nAct = (actList b.st).length := rfl
    omega
  obtain ⟨c', to', e1, inv1, z1⟩ := procGroupLoop_eff (hn.pad _) (padOut b.nAct out).length hinv0
    (Nat.le_refl _) (Nat.le_refl _) (fun j h1 h2 => by omega)
  rw [e1] at h2
  have h3 : (h, c') = (h', b') := Except.ok.inj h2
  obtain ⟨_, rfl⟩ := Prod.mk.inj h3
  rw [z1 (by omega)] at inv1
  refine ⟨h0, by omega, inv1.pos, inv1.stlen, inv1.recslen,
    fun k p r st o hp hr hst ho => inv1.hi k p r st o (Nat.zero_le _) hp hr hst ho, inv1.oth, ?_⟩
  simpa using inv1.taint

end Conduit.Funnel
