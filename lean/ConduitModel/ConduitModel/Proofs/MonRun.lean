import ConduitModel.Spec.FunnelRun
import ConduitModel.Props.PassC04
import ConduitModel.Proofs.MonC04
import ConduitModel.Driver.Funnel

/-!
# The whole run (`runBatches`): lifting the pass-level C04 theorem, and the driver's `runCase`

* `runBatches_acks` — the ack log of a run grows by a prefix of the keys of `batches.flatten`, and by
  all of them when the run returns `.ok`;
* `runCase_eq_runBatches` — `Driver/Funnel.lean` `runCase` prints exactly the outcome of
  `runBatches 1000000`.
-/
namespace Conduit.Funnel

theorem exec_runBatches_nil (fuel : Nat) (tree : TaskNode) (s : PS) :
    exec (runBatches fuel tree []) s = (.ok (), s) := rfl

/-- the state a pass starts from: fresh split-run heap and fan-out tallies -/
def resetPass (s : PS) : PS := { s with heap := #[], mas := #[] }

theorem exec_runBatches_cons (fuel : Nat) (tree : TaskNode) (b : List Rec) (bs : List (List Rec)) (s : PS) :
    exec (runBatches fuel tree (b :: bs)) s =
      match exec (runPass fuel tree b) (resetPass s) with
      | (.ok (), s1) => exec (runBatches fuel tree bs) s1
      | (.error e, s1) => (.error e, s1) := by
  show exec (modify (fun s => { s with heap := #[], mas := #[] }) >>= fun _ => runPass fuel tree b >>= fun _ => runBatches fuel tree bs) s = _
  rw [exec_bind, exec_modify]
  dsimp only
  rw [exec_bind]
  unfold resetPass
  generalize exec (runPass fuel tree b) _ = x
  rcases x with ⟨r, s1⟩
  cases r <;> rfl

abbrev keysOf (recs : List Rec) : List Nat := recs.map (fun r => keyOf r.pos)

/-- C04 for the whole run, from any state: the ack log grows by a prefix `ks` of the keys of all
the records read (`batches.flatten`), and by all of them when the run returns without error. -/
theorem runBatches_acks (fuel : Nat) (tree : TaskNode) : ∀ (batches : List (List Rec)) (s₀ : PS),
    (∀ r ∈ batches.flatten, r.pos ≠ none) →
    ∃ ks, ackedKeys (exec (runBatches fuel tree batches) s₀).2.log = ackedKeys s₀.log ++ ks ∧
      ks <+: keysOf batches.flatten ∧
      ((exec (runBatches fuel tree batches) s₀).1 = .ok () → ks = keysOf batches.flatten) := by
  intro batches
  induction batches with
  | nil =>
    intro s₀ _
    exact ⟨[], by simp [exec_runBatches_nil], List.nil_prefix, fun _ => rfl⟩
  | cons b bs ih =>
    intro s₀ hpos
    have hb : ∀ r ∈ b, r.pos ≠ none := fun r hr => hpos r (by simp [hr])
    have hbs : ∀ r ∈ bs.flatten, r.pos ≠ none := fun r hr => hpos r (by
      rw [List.flatten_cons, List.mem_append]; exact Or.inr hr)
    rw [exec_runBatches_cons]
    obtain ⟨k1, h1, p1⟩ := C04_v2_pass_acks_next fuel tree b (resetPass s₀) hb
    have hall := C04_v2_pass_ok_acks_all fuel tree b (resetPass s₀) hb
    have e1 : (runPass fuel tree b).run.run (resetPass s₀) = exec (runPass fuel tree b) (resetPass s₀) := rfl
    rw [e1] at h1 hall
    rcases hx : exec (runPass fuel tree b) (resetPass s₀) with ⟨r1, s1⟩
    rw [hx] at h1 hall
    have hlog0 : ackedKeys (resetPass s₀).log = ackedKeys s₀.log := rfl
    rw [hlog0] at h1 hall
    cases r1 with
    | error e =>
      refine ⟨k1, h1, ?_, fun h => nomatch h⟩
      rw [List.flatten_cons]
      exact List.IsPrefix.trans p1 (by unfold keysOf; rw [List.map_append]; exact List.prefix_append _ _)
    | ok u =>
      dsimp only
      obtain ⟨k2, h2, p2, o2⟩ := ih s1 hbs
      have hk1 : ackedKeys s1.log = ackedKeys s₀.log ++ keysOf b := hall rfl
      refine ⟨keysOf b ++ k2, ?_, ?_, ?_⟩
      · rw [h2, hk1, List.append_assoc]
      · rw [List.flatten_cons]
        unfold keysOf
        rw [List.map_append]
        exact (List.prefix_append_right_inj _).mpr p2
      · intro hok
        rw [o2 hok, List.flatten_cons]
        unfold keysOf
        rw [List.map_append]

end Conduit.Funnel

/-! ## the driver's `runCase` is `runBatches` -/
namespace Conduit.Driver
open Conduit.Funnel

/-- the line `runCase` prints for an outcome -/
def renderRun (out : Except Stop Unit × PS) : String :=
  match out.1 with
  | .ok () => " ; ".intercalate (out.2.log.toList.map showEv) ++ " => ok"
  | .error (.err e) => " ; ".intercalate (out.2.log.toList.map showEv) ++ " => " ++ showErr e
  | .error (.panic _) => " ; ".intercalate (out.2.log.toList.map showEv) ++ " => panic"

theorem runCase_go_eq (tree : TaskNode) : ∀ (bs : List (List Rec)) (ps : PS) (acc : String),
    runCase.go tree bs ps acc = renderRun (exec (runBatches 1000000 tree bs) ps) := by
  intro bs
  induction bs with
  | nil => intro ps acc; rfl
  | cons b bs ih =>
    intro ps acc
    rw [exec_runBatches_cons]
    unfold runCase.go
    have e1 : (runPass 1000000 tree b).run.run { ps with heap := #[], mas := #[] } = exec (runPass 1000000 tree b) (resetPass ps) := rfl
    rw [e1]
    rcases exec (runPass 1000000 tree b) (resetPass ps) with ⟨r1, s1⟩
    cases r1 with
    | ok u => exact ih s1 acc
    | error e => cases e <;> rfl

/-- `Driver/Funnel.lean` `runCase` (the `funnel` component of the check) prints the outcome of
`runBatches 1000000` from the case's initial state. -/
theorem runCase_eq_runBatches (c : FCase) (tree : TaskNode) :
    runCase c tree = renderRun (exec (runBatches 1000000 tree c.batches)
      { win := Conduit.Dlq.Win.new c.size c.thr, thr := c.thr, size := c.size, dlqTask := 99,
        scripts := c.scripts, orders := c.orders }) :=
  runCase_go_eq tree c.batches _ ""

end Conduit.Driver
