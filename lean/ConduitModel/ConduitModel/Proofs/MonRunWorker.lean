import ConduitModel.Proofs.PassWorker

/-!
# `runAckNacker(Worker)` on a batch without runs is one call of the Worker (equational form)
-/
namespace Conduit.Funnel

/-- `ackerCall (.run .worker)` on a batch without split runs: nothing happens (out of fuel, or an
empty batch), or it is exactly one `Worker.Ack` / `Worker.Nack` on a batch with the same records,
statuses and positions. -/
theorem runWorker_exec (fuel : Nat) (b : Batch) (isAck : Bool) (task : Nat) (s s' : PS) (r : Except Stop Unit)
    (hb : BOK b) (h : exec (ackerCall fuel (.run .worker) b isAck task) s = (r, s')) :
    (∃ e, r = .error e ∧ s' = s) ∨
    (b.recs.length = 0 ∧ r = .ok () ∧ s' = s) ∨
    (0 < b.recs.length ∧ ∃ sb : Batch, sb.recs = b.recs ∧ sb.st = b.st ∧ sb.pos = b.pos ∧ BOK sb ∧
      (b.split = [] → sb.split = []) ∧
      exec (if isAck = true then workerAck sb else workerNack sb task) s = (r, s')) := by
  cases fuel with
  | zero => rw [ackerCall] at h; cases h; exact Or.inl ⟨_, rfl, rfl⟩
  | succ fuel =>
    rw [ackerCall_run] at h
    cases fuel with
    | zero => rw [voteLoop] at h; cases h; exact Or.inl ⟨_, rfl, rfl⟩
    | succ f =>
      by_cases hlen : 0 < b.recs.length
      · have hruns : ∀ k : Nat, 0 ≤ k → k < b.recs.length → runAt b k = .ok none := by
          intro k _ hk
          unfold runAt
          cases hr : b.runs with
          | none => rfl
          | some rs =>
            rw [hb.runs rs hr]
            dsimp only
            rw [idx_ok _ (by simpa using hk)]
            simp
        rw [voteLoop_norun_sim f .worker b isAck task 0 s hlen hruns, exec_bind] at h
        rcases hs : b.sub 0 b.recs.length with e | sb
        · rw [hs, exec_liftR_err] at h
          cases h
          exact Or.inl ⟨_, rfl, rfl⟩
        · rw [hs, exec_liftR_ok] at h
          dsimp only at h
          obtain ⟨_, _, _, _, f1, f2, f3, f4, f5, f6⟩ := sub_ok_fields hs
          have e1 : sb.recs = b.recs := by rw [f1]; simp
          have e2 : sb.st = b.st := by rw [f2, List.drop_zero, ← hb.st_len, List.take_length]
          have e3 : sb.pos = b.pos := by rw [f3, List.drop_zero, ← hb.pos_len, List.take_length]
          have hsb : BOK sb := by
            refine ⟨?_, ?_, by rw [e1, e2]; exact hb.st_len, by rw [e1, e3]; exact hb.pos_len⟩
            · rcases hb.split with h | h
              · exact Or.inl (f5 h)
              · exact Or.inr (by rw [e3]; exact h)
            intro rs hrs
            rw [f4] at hrs
            cases hr : b.runs with
            | none => rw [hr] at hrs; cases hrs
            | some rs0 =>
              rw [hr] at hrs
              simp only [Option.map_some, Option.some.injEq] at hrs
              rw [← hrs, hb.runs rs0 hr, e1]
              simp
          rw [exec_bind] at h
          cases f with
          | zero =>
            rw [ackerCall] at h
            cases h
            exact Or.inl ⟨_, rfl, rfl⟩
          | succ g =>
            rcases hc : exec (ackerCall (g+1) .worker sb isAck task) s with ⟨r1, s1⟩
            rw [hc] at h
            rw [ackerCall] at hc
            refine Or.inr (Or.inr ⟨hlen, sb, e1, e2, e3, hsb, f5, ?_⟩)
            rw [hc]
            cases r1 with
            | error e =>
              dsimp only at h
              cases h
              rfl
            | ok u =>
              dsimp only at h
              rw [voteLoop_end g .worker b isAck task b.recs.length (by omega)] at h
              cases h
              rfl
      · rw [voteLoop_end f .worker b isAck task 0 hlen] at h
        cases h
        exact Or.inr (Or.inl ⟨by omega, rfl, rfl⟩)

end Conduit.Funnel
