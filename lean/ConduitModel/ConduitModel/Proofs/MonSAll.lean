import ConduitModel.Proofs.MonSTop
import ConduitModel.Proofs.MonSProc
import ConduitModel.Proofs.MonSProcEffect
import ConduitModel.Proofs.MonSVote

/-!
# Linear pipelines with record splitting: the lemmas put together
-/
namespace Conduit.Funnel
open Conduit.Funnel.Mon

theorem procEffStmt : ProcEffStmt := fun hwf hruns _ _ _ hr => procDoP_effS hwf hruns hr

/-- the task-level and vote-level lemmas (`procDo_monS`, `destDo_monS`, `voteS`) as a bundle -/
theorem depsS (G : Ctx) (hs : Src G) : DepsS G where
  proc := fun hF hcl haf h hrp hft => procDo_monS procEffStmt hs hF hcl haf h hrp hft
  dest := fun hF hd hcl haf h => destDo_monS hs hF hd hcl haf h
  vote := fun b rs hb sm isAck task hn rest doom nx hdoom hnx hrl hnk fuel i s s' r hv h =>
    voteS hs b rs hb sm isAck task hn rest doom nx hdoom hnx hrl hnk fuel i s s' r
      ⟨hv.1, hv.2.1, hv.2.2.1, hv.2.2.2.1, hv.2.2.2.2.1, hv.2.2.2.2.2.1, hv.2.2.2.2.2.2.1, hv.2.2.2.2.2.2.2.1,
        hv.2.2.2.2.2.2.2.2⟩ h

end Conduit.Funnel
