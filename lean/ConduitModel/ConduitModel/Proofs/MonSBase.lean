import ConduitModel.Proofs.MonSDefs

/-!
# Basic lemmas for the split-run monitor proof: rows, the tag discipline, sub-batches
-/
namespace Conduit.Funnel
open Conduit.Funnel.Mon

/-! ## rows -/

theorem rows_length (b : Batch) : b.rows.length = b.recs.length := by simp [Batch.rows]

theorem rows_get (b : Batch) {k : Nat} (hk : k < b.recs.length) :
    b.rows[k]? = some { r := b.recs[k]?.getD default, st := b.st[k]?.getD default, pos := (b.pos[k]?).getD none, run := b.runAt k } := by
  simp [Batch.rows, hk]

theorem runAt_of_runs {b : Batch} {rs : List (Option Nat)} (hr : b.runs = some rs) (k : Nat) : b.runAt k = (rs[k]?).join := by
  unfold Batch.runAt; rw [hr]

/-- the fields of a row of a batch whose four slices are parallel -/
theorem rows_fields {b : Batch} {rs : List (Option Nat)} (hb : VB b rs) {k : Nat} {row : Row} (h : b.rows[k]? = some row) :
    b.recs[k]? = some row.r ∧ b.st[k]? = some row.st ∧ b.pos[k]? = some row.pos ∧ rs[k]? = some row.run := by
  have hk : k < b.recs.length := by
    have := (List.getElem?_eq_some_iff.mp h).1
    rwa [rows_length] at this
  rw [rows_get b hk] at h
  have h := (Option.some.inj h).symm
  subst h
  have h1 : k < b.st.length := by rw [hb.slen]; exact hk
  have h2 : k < b.pos.length := by rw [hb.plen]; exact hk
  have h3 : k < rs.length := by rw [hb.rlen]; exact hk
  refine ⟨by simp [hk], by simp [h1], by simp [h2], ?_⟩
  rw [runAt_of_runs hb.runs]
  simp [h3]

theorem rows_of_fields {b : Batch} {rs : List (Option Nat)} (hb : VB b rs) {k : Nat} {r : Rec} {st : Status} {p : PosV}
    {ro : Option Nat} (h1 : b.recs[k]? = some r) (h2 : b.st[k]? = some st) (h3 : b.pos[k]? = some p) (h4 : rs[k]? = some ro) :
    b.rows[k]? = some { r := r, st := st, pos := p, run := ro } := by
  have hk : k < b.recs.length := (List.getElem?_eq_some_iff.mp h1).1
  rw [rows_get b hk, h1, h2, h3, runAt_of_runs hb.runs, h4]
  rfl

theorem rows_view {b : Batch} {rs : List (Option Nat)} (hb : VB b rs) {k : Nat} {row : Row} (h : b.rows[k]? = some row) :
    b.view[k]? = some (row.run, row.pos) := by
  obtain ⟨_, _, h3, h4⟩ := rows_fields hb h
  rw [hb.view]
  exact List.getElem?_zip_eq_some.mpr ⟨h4, h3⟩

theorem view_rows {b : Batch} {rs : List (Option Nat)} (hb : VB b rs) {k : Nat} {x : Piece} (h : b.view[k]? = some x) :
    ∃ row, b.rows[k]? = some row ∧ row.run = x.1 ∧ row.pos = x.2 := by
  have hk : k < b.recs.length := by
    have := (List.getElem?_eq_some_iff.mp h).1
    rwa [hb.view_len] at this
  obtain ⟨h4, h3⟩ := hb.view_get h
  have h1 : k < b.st.length := by rw [hb.slen]; exact hk
  exact ⟨_, rows_of_fields hb (List.getElem?_eq_getElem hk) (List.getElem?_eq_getElem h1) h3 h4, rfl, rfl⟩

/-- the rows of a sub-batch -/
theorem rows_sub {b sb : Batch} {rs : List (Option Nat)} (hb : VB b rs) {i j : Nat} (hs : b.sub i j = .ok sb) :
    sb.rows = (b.rows.drop i).take (j - i) ∧ VB sb ((rs.take j).drop i) := by
  obtain ⟨h1, h2, h3, h4, f1, f2, f3, f4, _, f6⟩ := sub_ok_fields hs
  have hvb : VB sb ((rs.take j).drop i) := by
    have hj := f6 rs hb.runs
    refine ⟨by rw [f4, hb.runs]; rfl, ?_, ?_, ?_, ?_⟩
    · rw [f1]; simp; omega
    · rw [f1, f2]; simp; omega
    · rw [f1, f3]; simp; omega
    · intro k hk
      rw [f3, List.getElem?_drop, List.getElem?_take]
      rw [List.getElem?_drop, List.getElem?_take] at hk
      split at hk
      · rename_i hlt
        simp only [hlt, if_true]
        exact hb.nopos _ hk
      · cases hk
  refine ⟨?_, hvb⟩
  apply List.ext_getElem?
  intro k
  rw [List.getElem?_take, List.getElem?_drop]
  by_cases hk : k < j - i
  · simp only [hk, if_true]
    have hkl : k < sb.recs.length := by rw [f1]; simp; omega
    have hik : i + k < b.recs.length := by omega
    rw [rows_get sb hkl, rows_get b hik]
    congr 2
    · rw [f1, List.getElem?_drop, List.getElem?_take]; simp [show i + k < j by omega]
    · rw [f2, List.getElem?_drop, List.getElem?_take]; simp [show i + k < j by omega]
    · rw [f3, List.getElem?_drop, List.getElem?_take]; simp [show i + k < j by omega]
    · rw [runAt_of_runs hvb.runs, runAt_of_runs hb.runs, List.getElem?_drop, List.getElem?_take]
      simp [show i + k < j by omega]
  · simp only [hk, if_false]
    rw [List.getElem?_eq_none_iff, rows_length, f1]
    simp; omega

/-! ## the tag discipline -/

theorem ftRun_append (scripts : List (Nat × List Reply)) : ∀ (l1 l2 : List Ev) (seen : List Nat) (calls : List (Nat × Nat)),
    ftRun scripts seen calls (l1 ++ l2) =
      (ftRun scripts seen calls l1 && ftRun scripts (seenRun scripts seen calls l1) (callsAfter calls l1) l2) := by
  intro l1
  induction l1 with
  | nil => intro l2 seen calls; simp [ftRun, seenRun, callsAfter]
  | cons e l1 ih =>
    intro l2 seen calls
    cases e with
    | pcall t r => simp only [List.cons_append, ftRun, seenRun, ih, callsAfter, List.foldl_cons, evTask, Bool.and_assoc]
    | write t r => simp only [List.cons_append, ftRun, seenRun, ih, callsAfter, List.foldl_cons, evTask]
    | dlqw t r => simp only [List.cons_append, ftRun, seenRun, ih, callsAfter, List.foldl_cons, evTask]
    | sack ps => simp only [List.cons_append, ftRun, seenRun, ih, callsAfter, List.foldl_cons, evTask]

theorem seenRun_append (scripts : List (Nat × List Reply)) : ∀ (l1 l2 : List Ev) (seen : List Nat) (calls : List (Nat × Nat)),
    seenRun scripts seen calls (l1 ++ l2) = seenRun scripts (seenRun scripts seen calls l1) (callsAfter calls l1) l2 := by
  intro l1
  induction l1 with
  | nil => intro l2 seen calls; simp [seenRun, callsAfter]
  | cons e l1 ih =>
    intro l2 seen calls
    cases e with
    | pcall t r => simp only [List.cons_append, seenRun, ih, callsAfter, List.foldl_cons, evTask]
    | write t r => simp only [List.cons_append, seenRun, ih, callsAfter, List.foldl_cons, evTask]
    | dlqw t r => simp only [List.cons_append, seenRun, ih, callsAfter, List.foldl_cons, evTask]
    | sack ps => simp only [List.cons_append, seenRun, ih, callsAfter, List.foldl_cons, evTask]

theorem seenRun_sub (scripts : List (Nat × List Reply)) : ∀ (l : List Ev) (seen : List Nat) (calls : List (Nat × Nat)),
    ∀ x ∈ seen, x ∈ seenRun scripts seen calls l := by
  intro l
  induction l with
  | nil => intro seen calls x hx; exact hx
  | cons e l ih =>
    intro seen calls x hx
    cases e with
    | pcall t r => exact ih _ _ x (List.mem_append_left _ hx)
    | write t r => exact ih _ _ x hx
    | dlqw t r => exact ih _ _ x hx
    | sack ps => exact ih _ _ x hx

theorem FT.prefix {G : Ctx} {s s' : PS} (h : FT G s') (hp : s.log.toList <+: s'.log.toList) : FT G s := by
  obtain ⟨t, ht⟩ := hp
  unfold FT at h ⊢
  rw [← ht, ftRun_append] at h
  simp only [Bool.and_eq_true] at h
  exact h.1

theorem Seen.mono {G : Ctx} {s s' : PS} (hp : s.log.toList <+: s'.log.toList) : ∀ x ∈ Seen G s, x ∈ Seen G s' := by
  obtain ⟨t, ht⟩ := hp
  intro x hx
  unfold Seen at hx ⊢
  rw [← ht, seenRun_append]
  exact seenRun_sub _ _ _ _ x hx

theorem Seen.same {G : Ctx} {s s' : PS} (h : s'.log = s.log) : Seen G s' = Seen G s := by unfold Seen; rw [h]

/-- an event other than a processor call adds no tag -/
theorem Seen.push_other {G : Ctx} {s s' : PS} (e : Ev) (h : s'.log = s.log.push e) (he : ∀ t r, e ≠ .pcall t r) :
    Seen G s' = Seen G s := by
  unfold Seen
  rw [h, Array.toList_push, seenRun_append]
  cases e with
  | pcall t r => exact absurd rfl (he t r)
  | write t r => rfl
  | dlqw t r => rfl
  | sack ps => rfl

/-- a processor call adds the tags of the records it puts into the batch -/
theorem Seen.push_pcall {G : Ctx} {s s' : PS} (t : Nat) (recs : List Rec) (h : s'.log = s.log.push (.pcall t recs)) :
    Seen G s' = Seen G s ++ outTags recs (procOut (replyOfCall G.scripts t (callNoL (G.mu s).calls t))) := by
  unfold Seen
  rw [h, Array.toList_push, seenRun_append, calls_mu]
  rfl

/-- the processor call just logged obeys the tag discipline -/
theorem FT.pcall {G : Ctx} {s s' : PS} (h : FT G s') (t : Nat) (recs : List Rec) (hlog : s'.log = s.log.push (.pcall t recs)) :
    pcallFresh (Seen G s) recs (procOut (replyOfCall G.scripts t (callNoL (G.mu s).calls t))) = true := by
  unfold FT at h
  rw [hlog, Array.toList_push, ftRun_append] at h
  simp only [Bool.and_eq_true] at h
  have h2 := h.2
  rw [← calls_mu] at h2
  simp only [ftRun, Bool.and_eq_true] at h2
  exact h2.1

/-! ## the worker only appends DLQ writes and source acks -/

theorem written_push_dlqw (G : Ctx) (s s' : PS) (t : Nat) (recs : List (Rec × Option Err × Nat))
    (h : s'.log = s.log.push (.dlqw t recs)) : (G.mu s').written = (G.mu s).written := by
  rw [mu_push G s s' _ h]; rfl

theorem written_push_sack (G : Ctx) (s s' : PS) (ps : List PosV)
    (h : s'.log = s.log.push (.sack ps)) : (G.mu s').written = (G.mu s).written := by
  rw [mu_push G s s' _ h]
  exact (foldl_ackT_fields G.tree ps (G.mu s)).2.2.2.2.1

theorem workerAck_written (G : Ctx) (b : Batch) (s s' : PS) (r : Except Stop Unit) (h : exec (workerAck b) s = (r, s')) :
    (G.mu s').written = (G.mu s).written ∧ Seen G s' = Seen G s := by
  have h1 : exec (workerAck b) s = workerAckP s b := workerAck_eq b s
  rw [h1] at h
  unfold workerAckP at h
  split at h
  · cases h; exact ⟨rfl, rfl⟩
  · dsimp only at h
    split at h <;> cases h <;>
      exact ⟨written_push_sack G _ _ _ rfl, Seen.push_other _ rfl (fun _ _ hh => Ev.noConfusion hh)⟩

theorem workerNack_written (G : Ctx) (b : Batch) (task : Nat) (s s' : PS) (r : Except Stop Unit)
    (h : exec (workerNack b task) s = (r, s')) :
    (G.mu s').written = (G.mu s).written ∧ Seen G s' = Seen G s := by
  have h1 : exec (workerNack b task) s = workerNackP s b task := workerNack_eq b task s
  rw [h1] at h
  have hw : (G.mu (stWrite s b task)).written = (G.mu s).written ∧ Seen G (stWrite s b task) = Seen G s :=
    ⟨written_push_dlqw G s _ s.dlqTask _ rfl, Seen.push_other _ rfl (fun _ _ hh => Ev.noConfusion hh)⟩
  rcases workerNackP_spec s b task with ⟨r', h', _⟩ | ⟨r', h', _⟩ | ⟨n, r', h', _⟩ <;> rw [h'] at h <;> cases h
  · exact ⟨mu_same G _ _ rfl ▸ rfl, Seen.same rfl⟩
  · exact hw
  · exact ⟨(written_push_sack G (stWrite s b task) _ _ rfl).trans hw.1,
      (Seen.push_other (s := stWrite s b task) _ rfl (fun _ _ hh => Ev.noConfusion hh)).trans hw.2⟩

end Conduit.Funnel
