import ConduitModel.Proofs.MonSRows
import ConduitModel.Proofs.MonTop
import ConduitModel.Proofs.PassSPipe

/-!
# Monitor soundness with record splitting: definitions

* `FreshTags` — the tag discipline of the harness generators as a checkable condition on the event
  log of a run: every tag a processor reply introduces (a modified record, the pieces of a split) is
  new in the case; `Seen G s` — the tags seen so far;
* `SrcMap` — the source record every row of a batch in flight stems from (`sm`, one index per row);
* `FactsS`, `TagsF`, `WBelowS` — what the monitor state knows about the rows of a batch;
* `HLin`, `HTouch`, `CI` — what the run ledger (heap) guarantees about the split runs;
* `OutS` — outcome of a computation responsible for the rows of a batch.
-/
namespace Conduit.Funnel
open Conduit.Funnel.Mon

/-! ## fresh tags -/

/-- the records a reply puts into the batch -/
def outRecs : PR → List Rec
  | .single r => [r]
  | .multi m => m
  | _ => []

/-- the tags of the records a processor call puts into the batch -/
def outTags (recs : List Rec) (out : List PR) : List Nat :=
  (recs.zip out).flatMap fun x => (outRecs x.2).map (·.tag)

/-- those of them that differ from the tag of their input record -/
def newTags (recs : List Rec) (out : List PR) : List Nat :=
  (recs.zip out).flatMap fun x => ((outRecs x.2).map (·.tag)).filter (· != x.1.tag)

/-- one processor call obeys the tag discipline: the outputs of one record carry distinct tags, and
every tag that is not the input's own is new and introduced once -/
def pcallFresh (seen : List Nat) (recs : List Rec) (out : List PR) : Bool :=
  (recs.zip out).all (fun x => decide ((outRecs x.2).map (·.tag)).Nodup) &&
  decide (newTags recs out).Nodup && (newTags recs out).all (fun t => !seen.contains t)

/-- every processor call of the log obeys the tag discipline (`seen` = tags seen so far) -/
def ftRun (scripts : List (Nat × List Reply)) : List Nat → List (Nat × Nat) → List Ev → Bool
  | _, _, [] => true
  | seen, calls, .pcall t recs :: rest =>
    pcallFresh seen recs (procOut (replyOfCall scripts t (callNoL calls t))) &&
      ftRun scripts (seen ++ outTags recs (procOut (replyOfCall scripts t (callNoL calls t)))) (bumpL calls t) rest
  | seen, calls, .write t _ :: rest => ftRun scripts seen (bumpL calls t) rest
  | seen, calls, .dlqw t _ :: rest => ftRun scripts seen (bumpL calls t) rest
  | seen, calls, .sack _ :: rest => ftRun scripts seen calls rest

/-- the tags seen after a log -/
def seenRun (scripts : List (Nat × List Reply)) : List Nat → List (Nat × Nat) → List Ev → List Nat
  | seen, _, [] => seen
  | seen, calls, .pcall t recs :: rest =>
    seenRun scripts (seen ++ outTags recs (procOut (replyOfCall scripts t (callNoL calls t)))) (bumpL calls t) rest
  | seen, calls, .write t _ :: rest => seenRun scripts seen (bumpL calls t) rest
  | seen, calls, .dlqw t _ :: rest => seenRun scripts seen (bumpL calls t) rest
  | seen, calls, .sack _ :: rest => seenRun scripts seen calls rest

/-- the log of `s` obeys the tag discipline -/
def FT (G : Ctx) (s : PS) : Prop := ftRun G.scripts (G.all.map (·.tag)) [] s.log.toList = true

/-- the tags seen so far: the tags of the source records and of every record a processor reply put
into a batch -/
def Seen (G : Ctx) (s : PS) : List Nat := seenRun G.scripts (G.all.map (·.tag)) [] s.log.toList

/-! ## rows and their sources -/

/-- the position key the ledger forwards for a row -/
def rowKey (h : Heap) (row : Row) : Nat :=
  match row.run with
  | some rid => keyOf (h[rid]!).origPos
  | none => keyOf row.pos

/-- `sm[k]` = index (in read order) of the source record row `k` stems from: consecutive sources,
rows of one source share a run -/
structure SrcMap (G : Ctx) (h : Heap) (b : Batch) (sm : List Nat) : Prop where
  len : sm.length = b.rows.length
  step : ∀ (k q q' : Nat), sm[k]? = some q → sm[k+1]? = some q' → q' = q ∨ q' = q + 1
  key : ∀ (k : Nat) (row : Row) (q : Nat), b.rows[k]? = some row → sm[k]? = some q →
    ∃ src, G.all[q]? = some src ∧ rowKey h row = keyR src ∧ root row.r = root src
  same : ∀ (k : Nat) (row row' : Row) (q : Nat), b.rows[k]? = some row → b.rows[k+1]? = some row' →
    sm[k]? = some q → sm[k+1]? = some q → ∃ rid, row.run = some rid ∧ row'.run = some rid

/-- the frontier after the batch: `nx` is the source of the last row if pieces of its run remain
outside the batch, the next source otherwise -/
def NextOK (rest : Nat → Nat) (b : Batch) (sm : List Nat) (nx : Nat) : Prop :=
  ∀ (row : Row) (q : Nat), b.rows.getLast? = some row → sm.getLast? = some q →
    (nx = q ∧ ∃ rid, row.run = some rid ∧ 0 < rest rid) ∨
    (nx = q + 1 ∧ ∀ rid, row.run = some rid → rest rid = 0)

/-- of the runs with a piece in the batch, only the run of the last row has pieces outside -/
def RestLast (rest : Nat → Nat) (b : Batch) : Prop :=
  ∀ rid : Nat, 0 < rest rid → 0 < cnt rid b.view → ∃ row, b.rows.getLast? = some row ∧ row.run = some rid

/-! ## facts about the rows -/

/-- written to every destination in `pre` -/
def Reach (μ : TSt) (pre : List Nat) (ρ : Nat) : Prop := ∀ d ∈ pre, WrittenTo μ d ρ

/-- every destination of the tree has seen the root or the root was filtered -/
def Touch (tree : TaskNode) (μ : TSt) (ρ : Nat) : Prop := ∀ d ∈ dests tree, WrittenTo μ d ρ ∨ ρ ∈ μ.filtered

/-- the tag was not written to any destination in `sub` -/
def Unw (μ : TSt) (sub : List Nat) (t : Nat) : Prop := ∀ e ∈ μ.written, e.1 ∈ sub → e.2.2.1 ≠ t

/-- what the monitor state knows about the rows `k ≥ i` of a batch in flight once the task of a node
has run (`pre` / `pre'` / `nd` as in `Facts`) -/
structure FactsS (G : Ctx) (μ : TSt) (pre pre' : List Nat) (nd : Prop) (b : Batch) (sm : List Nat) (i : Nat) : Prop where
  ack : ∀ (k : Nat) (row : Row) (q : Nat) (src : Rec), i ≤ k → b.rows[k]? = some row → sm[k]? = some q →
    G.all[q]? = some src → row.st.flag = .ack → Reach μ pre' (root src)
  fil : ∀ (k : Nat) (row : Row) (q : Nat) (src : Rec), i ≤ k → b.rows[k]? = some row → sm[k]? = some q →
    G.all[q]? = some src → row.st.flag = .filter → root src ∈ μ.filtered
  retry : ∀ (k : Nat) (row : Row) (q : Nat) (src : Rec), i ≤ k → b.rows[k]? = some row → sm[k]? = some q →
    G.all[q]? = some src → row.st.flag = .retry → Reach μ pre (root src) ∧ nd
  clean : ∀ (k : Nat) (row : Row) (q : Nat) (src : Rec), i ≤ k → b.rows[k]? = some row → sm[k]? = some q →
    G.all[q]? = some src → row.run = none → row.st.flag ≠ .nack → Clean μ (root src)

/-- the tags of the rows: distinct, seen, and those still to be written are new to the destinations
ahead -/
structure TagsF (G : Ctx) (s : PS) (sub : List Nat) (b : Batch) (i : Nat) : Prop where
  nodup : (b.rows.map (·.r.tag)).Nodup
  seen : ∀ (k : Nat) (row : Row), i ≤ k → b.rows[k]? = some row → row.r.tag ∈ Seen G s
  unw : ∀ (k : Nat) (row : Row), i ≤ k → b.rows[k]? = some row → row.st.flag = .ack ∨ row.st.flag = .retry →
    Unw (G.mu s) sub row.r.tag

/-- what was written to the destinations `sub` (those still ahead) belongs to records up to the
read frontier -/
def WBelowS (G : Ctx) (s : PS) (sub : List Nat) : Prop :=
  ∀ e ∈ (G.mu s).written, e.1 ∈ sub → NonPend G (nAcked s + 1) e.2.1

/-- every written tag has been seen -/
def WSeen (G : Ctx) (s : PS) : Prop := ∀ e ∈ (G.mu s).written, e.2.2.1 ∈ Seen G s

/-! ## the ledger -/

/-- the original record of a run is a descendant of the source record at the run's position -/
def HLin (G : Ctx) (h : Heap) : Prop :=
  ∀ rid : Nat, rid < h.size → ∃ src ∈ G.all, keyR src = keyOf (h[rid]!).origPos ∧ root (h[rid]!).origRec = root src

/-- a run that got an ack vote and no nack vote: every destination saw a piece, or a piece was filtered -/
def HTouch (G : Ctx) (μ : TSt) (h : Heap) : Prop :=
  ∀ rid : Nat, rid < h.size → 0 < (h[rid]!).terminal → (h[rid]!).nacked = false → Touch G.tree μ (root (h[rid]!).origRec)

/-- a run one of whose pieces failed (processor error, rejected by a destination) has a nack vote
already, or one of its pieces still to vote is flagged nack — in the batch (rows `≥ i`) or outside
(`doom`) -/
def CI (μ : TSt) (h : Heap) (doom : Nat → Prop) (b : Batch) (i : Nat) : Prop :=
  ∀ rid : Nat, 0 < cnt rid (b.view.drop i) → ¬ Clean μ (root (h[rid]!).origRec) →
    (h[rid]!).nacked = true ∨ doom rid ∨
      ∃ (k : Nat) (row : Row), i ≤ k ∧ b.rows[k]? = some row ∧ row.run = some rid ∧ row.st.flag = .nack

/-- the records remembered in the split map are descendants of the source record at their key -/
def SplitLin (G : Ctx) (b : Batch) : Prop :=
  ∀ e ∈ b.split, ∀ src ∈ G.all, keyR src = e.1 → root e.2 = root src

/-- a row without run has no entry in the split map (so the sub-batch of such rows is its own
`originalBatch()`) -/
def NoSplitKey (b : Batch) : Prop :=
  ∀ (k : Nat) (row : Row), b.rows[k]? = some row → row.run = none → lookup b.split (keyOf row.pos) = none

/-! ## outcomes -/

/-- `ρ` is the root of the source of a row `k ≥ i` -/
def RootsOf (G : Ctx) (sm : List Nat) (i : Nat) (ρ : Nat) : Prop :=
  ∃ (k q : Nat) (src : Rec), i ≤ k ∧ sm[k]? = some q ∧ G.all[q]? = some src ∧ root src = ρ

/-- outcome of a computation responsible for the rows `k ≥ i` of batch `b` -/
structure OutS (G : Ctx) (rest : Nat → Nat) (doom : Nat → Prop) (b : Batch) (sm : List Nat) (i nx : Nat)
    (s s' : PS) (r : Except Stop Unit) : Prop where
  safe : (G.mu s').tv = []
  ginv : r = .ok () → GInv G s'
  front : r = .ok () → i < sm.length → nAcked s' = nx
  front0 : r = .ok () → sm.length ≤ i → nAcked s' = nAcked s
  ext : r = .ok () → Ext (RootsOf G sm i) (G.mu s) (G.mu s')
  /-- every new `written` entry carries the tag of a row of the batch or a tag new at entry -/
  wtag : r = .ok () → ∀ e ∈ (G.mu s').written, e ∈ (G.mu s).written ∨
    (∃ (k : Nat) (row : Row), i ≤ k ∧ b.rows[k]? = some row ∧ row.r.tag = e.2.2.1) ∨ e.2.2.1 ∉ Seen G s
  wseen : r = .ok () → WSeen G s'
  hsize : r = .ok () → s.heap.size ≤ s'.heap.size
  hframe : r = .ok () → ∀ rid : Nat, rid < s.heap.size → cnt rid (b.view.drop i) = 0 → s'.heap[rid]! = s.heap[rid]!
  horig : r = .ok () → ∀ rid : Nat, rid < s.heap.size →
    (s'.heap[rid]!).origPos = (s.heap[rid]!).origPos ∧ (s'.heap[rid]!).origRec = (s.heap[rid]!).origRec
  lpost : r = .ok () → ∀ rid : Nat, 0 < cnt rid (b.view.drop i) → 0 < rest rid →
    RunOK (s'.heap[rid]!) (rest rid) ∧ 0 < (s'.heap[rid]!).terminal
  hlin : r = .ok () → HLin G s'.heap
  htouch : r = .ok () → HTouch G (G.mu s') s'.heap
  ci : r = .ok () → ∀ rid : Nat, 0 < cnt rid (b.view.drop i) → 0 < rest rid →
    ¬ Clean (G.mu s') (root (s'.heap[rid]!).origRec) → (s'.heap[rid]!).nacked = true ∨ doom rid

/-! ## a batch in flight -/

/-- Everything that is known about batch `b` (rows `k ≥ i` still to be handled) in engine state `s`:
`pre` / `pre'` / `nd` as in `FactsS`, `sub` = the destinations still ahead, `rest` / `doom` = the
pieces of the batch's runs that wait outside the batch (and whether one of them is flagged nack),
`nx` = the read frontier once the batch is done. -/
structure Flight (G : Ctx) (s : PS) (pre pre' : List Nat) (nd : Prop) (sub : List Nat) (rest : Nat → Nat)
    (doom : Nat → Prop) (nx : Nat) (b : Batch) (sm : List Nat) (i : Nat) : Prop where
  ginv : GInv G s
  wseen : WSeen G s
  tinv : TInv s.heap rest b i
  srcmap : SrcMap G s.heap b sm
  front : ∀ q : Nat, sm[i]? = some q → nAcked s = q
  nextok : NextOK rest b sm nx
  restlast : RestLast rest b
  hdoom : ∀ rid : Nat, doom rid → 0 < rest rid
  hlin : HLin G s.heap
  htouch : HTouch G (G.mu s) s.heap
  ci : CI (G.mu s) s.heap doom b i
  splitlin : SplitLin G b
  nosplit : NoSplitKey b
  facts : FactsS G (G.mu s) pre pre' nd b sm i
  tags : TagsF G s sub b i
  below : WBelowS G s sub

/-- what a task (`ProcessorTask.Do` / `DestinationTask.Do`) does, as far as the caller's frame is
concerned: `(s, b, sm)` before, `(s', b', sm')` after -/
structure StepRel (G : Ctx) (s : PS) (b : Batch) (sm : List Nat) (s' : PS) (b' : Batch) (sm' : List Nat) : Prop where
  nacked : nAcked s' = nAcked s
  ext : Ext (RootsOf G sm 0) (G.mu s) (G.mu s')
  roots : ∀ ρ, RootsOf G sm' 0 ρ → RootsOf G sm 0 ρ
  empty : sm'.length = 0 ↔ sm.length = 0
  /-- the tag of a row of the new batch is the tag of a row of the old batch, or new -/
  tagsub : ∀ row' ∈ b'.rows, (∃ row ∈ b.rows, row.r.tag = row'.r.tag) ∨ row'.r.tag ∉ Seen G s
  /-- a new `written` entry carries the tag of a row of the old batch -/
  wtag : ∀ e ∈ (G.mu s').written, e ∈ (G.mu s).written ∨ ∃ row ∈ b.rows, row.r.tag = e.2.2.1
  seen : ∀ x ∈ Seen G s, x ∈ Seen G s'
  hsize : s.heap.size ≤ s'.heap.size
  hframe : ∀ rid : Nat, rid < s.heap.size → cnt rid b.view = 0 → s'.heap[rid]! = s.heap[rid]! ∧ cnt rid b'.view = 0
  horig : ∀ rid : Nat, rid < s.heap.size →
    (s'.heap[rid]!).origPos = (s.heap[rid]!).origPos ∧ (s'.heap[rid]!).origRec = (s.heap[rid]!).origRec
  mono : ∀ rid : Nat, cnt rid b.view ≤ cnt rid b'.view

end Conduit.Funnel
