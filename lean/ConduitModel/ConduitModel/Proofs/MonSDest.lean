import ConduitModel.Proofs.MonSBase
import ConduitModel.Proofs.MonSDestEffect
import ConduitModel.Proofs.MonDest

/-!
# `DestinationTask.Do` against the monitor, on a batch that may carry split records
-/
namespace Conduit.Funnel
open Conduit.Funnel.Mon

/-! ## general lemmas about the ledger invariant and `SrcMap` -/

theorem TInv.sinv {h : Heap} {rest : Nat → Nat} {b : Batch} (ht : TInv h rest b 0) : SInv h rest b :=
  ⟨ht.wf, ht.ne, ht.runs, ht.nopos, by simpa using ht.acc, ht.restok, ht.shape, by simpa using ht.headless⟩

theorem TInv.vb {h : Heap} {rest : Nat → Nat} {b : Batch} {i : Nat} (ht : TInv h rest b i) : ∃ rs, VB b rs := by
  obtain ⟨rs, hruns⟩ := ht.runs
  have hro := ht.wf.1.runs_ok
  rw [hruns] at hro
  refine ⟨rs, hruns, hro.1, ht.wf.1.st_len, ht.wf.1.pos_len, ?_⟩
  intro k hk hp
  have hv : b.view = rs.zip b.pos := by unfold Batch.view; rw [hruns]; rfl
  have hmem : ((none, none) : Piece) ∈ b.view := by
    rw [hv]
    exact List.mem_of_getElem? (List.getElem?_zip_eq_some.mpr ⟨hk, hp⟩)
  exact ht.nopos _ hmem rfl rfl

/-- the key the ledger forwards for a row of a run -/
theorem rowKey_run {h : Heap} {row : Row} {rid : Nat} (hr : row.run = some rid) :
    rowKey h row = keyOf (h[rid]!).origPos := by
  unfold rowKey; rw [hr]

theorem rowKey_none {h : Heap} {row : Row} (hr : row.run = none) : rowKey h row = keyOf row.pos := by
  unfold rowKey; rw [hr]

namespace SrcMap
variable {G : Ctx} {h : Heap} {b : Batch} {sm : List Nat}

/-- every row has a source -/
theorem src (hm : SrcMap G h b sm) {k : Nat} {row : Row} (hk : b.rows[k]? = some row) :
    ∃ (q : Nat) (src : Rec), sm[k]? = some q ∧ G.all[q]? = some src ∧ rowKey h row = keyR src ∧ root row.r = root src := by
  have hlt : k < sm.length := by rw [hm.len]; exact (List.getElem?_eq_some_iff.mp hk).1
  obtain ⟨src, h1, h2, h3⟩ := hm.key k row sm[k] hk (List.getElem?_eq_getElem hlt)
  exact ⟨sm[k], src, List.getElem?_eq_getElem hlt, h1, h2, h3⟩

/-- every source index belongs to a row -/
theorem row (hm : SrcMap G h b sm) {k q : Nat} (hk : sm[k]? = some q) : ∃ row, b.rows[k]? = some row := by
  have hlt : k < b.rows.length := by rw [← hm.len]; exact (List.getElem?_eq_some_iff.mp hk).1
  exact ⟨_, List.getElem?_eq_getElem hlt⟩

/-- the source indices are non-decreasing -/
theorem mono_add (hm : SrcMap G h b sm) : ∀ (n k q q' : Nat), sm[k]? = some q → sm[k + n]? = some q' → q ≤ q' := by
  intro n
  induction n with
  | zero =>
    intro k q q' h1 h2
    rw [Nat.add_zero, h1] at h2
    cases h2; exact Nat.le_refl _
  | succ n ih =>
    intro k q q' h1 h2
    have hlt : k + n < sm.length := by
      have := (List.getElem?_eq_some_iff.mp h2).1
      omega
    have h3 : sm[k + n]? = some sm[k + n] := List.getElem?_eq_getElem hlt
    have := ih k q _ h1 h3
    have := hm.step (k + n) _ q' h3 (by rw [Nat.add_assoc]; exact h2)
    omega

theorem mono (hm : SrcMap G h b sm) {k k' q q' : Nat} (hk : k ≤ k') (h1 : sm[k]? = some q) (h2 : sm[k']? = some q') :
    q ≤ q' := by
  obtain ⟨n, rfl⟩ := Nat.exists_eq_add_of_le hk
  exact hm.mono_add n k q q' h1 h2

/-- two different rows with the same source share a run -/
theorem same_run_add (hm : SrcMap G h b sm) : ∀ (n k k' q : Nat) (row row' : Row), k' = k + n + 1 →
    sm[k]? = some q → sm[k']? = some q → b.rows[k]? = some row → b.rows[k']? = some row' →
    ∃ rid, row.run = some rid ∧ row'.run = some rid := by
  intro n
  induction n with
  | zero =>
    intro k k' q row row' hk h1 h2 h3 h4
    subst hk
    exact hm.same k row row' q h3 h4 h1 h2
  | succ n ih =>
    intro k k' q row row' hk h1 h2 h3 h4
    have hlt : k + 1 < sm.length := by
      have := (List.getElem?_eq_some_iff.mp h2).1
      omega
    have h5 : sm[k + 1]? = some sm[k + 1] := List.getElem?_eq_getElem hlt
    have ha := hm.mono (Nat.le_succ k) h1 h5
    have hb := hm.mono (by omega : k + 1 ≤ k') h5 h2
    have he : sm[k + 1] = q := by omega
    rw [he] at h5
    obtain ⟨row1, h6⟩ := hm.row h5
    obtain ⟨rid, r1, r2⟩ := hm.same k row row1 q h3 h6 h1 h5
    obtain ⟨rid', r3, r4⟩ := ih (k + 1) k' q row1 row' (by omega) h5 h2 h6 h4
    rw [r2] at r3
    cases r3
    exact ⟨rid, r1, r4⟩

theorem same_run (hm : SrcMap G h b sm) {k k' q : Nat} {row row' : Row} (hne : k ≠ k')
    (h1 : sm[k]? = some q) (h2 : sm[k']? = some q) (h3 : b.rows[k]? = some row) (h4 : b.rows[k']? = some row') :
    ∃ rid, row.run = some rid ∧ row'.run = some rid := by
  rcases Nat.lt_or_gt_of_ne hne with hlt | hlt
  · exact hm.same_run_add (k' - k - 1) k k' q row row' (by omega) h1 h2 h3 h4
  · obtain ⟨rid, r1, r2⟩ := hm.same_run_add (k - k' - 1) k' k q row' row (by omega) h2 h1 h4 h3
    exact ⟨rid, r2, r1⟩

/-- a row without run has a source of its own -/
theorem own_src (hm : SrcMap G h b sm) {k k' q : Nat} {row : Row} (hr : row.run = none)
    (h1 : sm[k]? = some q) (h2 : sm[k']? = some q) (h3 : b.rows[k]? = some row) : k = k' := by
  apply Classical.byContradiction
  intro hne
  obtain ⟨row', h4⟩ := hm.row h2
  obtain ⟨rid, r1, _⟩ := hm.same_run hne h1 h2 h3 h4
  rw [hr] at r1; cases r1

/-- a row of run `rid` stems from the source at the run's position -/
theorem run_src (hm : SrcMap G h b sm) (hs : Src G) (hl : HLin G h) {k q rid : Nat} {row : Row} {src : Rec}
    (hrid : rid < h.size) (h1 : sm[k]? = some q) (h3 : b.rows[k]? = some row) (hr : row.run = some rid)
    (hsrc : G.all[q]? = some src) : root (h[rid]!).origRec = root src := by
  obtain ⟨src', hmem, hk, hroot⟩ := hl rid hrid
  obtain ⟨q', hq'⟩ := List.getElem?_of_mem hmem
  obtain ⟨src2, g1, g2, _⟩ := hm.key k row q h3 h1
  rw [hsrc] at g1; cases g1
  rw [rowKey_run hr] at g2
  have := hs.idx_of_key hq' hsrc (by rw [hk, g2])
  subst this
  rw [hsrc] at hq'; cases hq'
  exact hroot

/-- the roots of the rows are non-decreasing -/
theorem root_le (hm : SrcMap G h b sm) (hs : Src G) {k k' : Nat} {row row' : Row} (hk : k ≤ k')
    (h3 : b.rows[k]? = some row) (h4 : b.rows[k']? = some row') : root row.r ≤ root row'.r := by
  obtain ⟨q, src, a1, a2, _, a4⟩ := hm.src h3
  obtain ⟨q', src', b1, b2, _, b4⟩ := hm.src h4
  have hle := hm.mono hk a1 b1
  rw [a4, b4]
  rcases Nat.lt_or_eq_of_le hle with hlt | heq
  · exact Nat.le_of_lt (hs.root_lt a2 b2 hlt)
  · subst heq
    rw [a2] at b2; cases b2
    exact Nat.le_refl _

end SrcMap

/-! ## the active records as rows -/

/-- the `j`-th active record is the record of an unfiltered row -/
theorem active_row {h : Heap} {b : Batch} {rs : List (Option Nat)} (hwf : b.WF h) (hvb : VB b rs) {j : Nat} {r : Rec}
    (hj : b.active[j]? = some r) :
    ∃ (p : Nat) (row : Row), (actList b.st)[j]? = some p ∧ b.rows[p]? = some row ∧ row.r = r ∧ row.st.flag ≠ .filter := by
  have hlen : b.active.length = b.nAct := active_length hwf.1.st_len hwf.2
  have hk : j < (actList b.st).length := by
    have := (List.getElem?_eq_some_iff.mp hj).1
    unfold Batch.nAct at hlen
    omega
  have hp : (actList b.st)[j]? = some (actList b.st)[j] := List.getElem?_eq_getElem hk
  have hr : b.recs[(actList b.st)[j]]? = some r := by rw [← active_getElem? hwf hp]; exact hj
  have hlt : (actList b.st)[j] < b.st.length := actList_lt hk
  have hrl : (actList b.st)[j] < b.rows.length := by rw [rows_length, ← hvb.slen]; exact hlt
  have hrow : b.rows[(actList b.st)[j]]? = some b.rows[(actList b.st)[j]] := List.getElem?_eq_getElem hrl
  obtain ⟨f1, f2, _, _⟩ := rows_fields hvb hrow
  refine ⟨_, _, hp, hrow, ?_, ?_⟩
  · rw [hr] at f1; exact (Option.some.inj f1).symm
  · have hnf := (notFilt_iff hlt).mp (mem_actList.mp (List.mem_of_getElem? hp)).2
    have : b.st[(actList b.st)[j]] = (b.rows[(actList b.st)[j]]).st := by
      rw [List.getElem?_eq_getElem hlt] at f2; exact Option.some.inj f2
    rw [← this]; exact hnf

/-- an unfiltered row is an active record -/
theorem row_active {h : Heap} {b : Batch} {rs : List (Option Nat)} (hwf : b.WF h) (hvb : VB b rs) {p : Nat} {row : Row}
    (hp : b.rows[p]? = some row) (hf : row.st.flag ≠ .filter) :
    ∃ j : Nat, (actList b.st)[j]? = some p ∧ b.active[j]? = some row.r := by
  obtain ⟨f1, f2, _, _⟩ := rows_fields hvb hp
  obtain ⟨hlt, hst⟩ := List.getElem?_eq_some_iff.mp f2
  have hm : p ∈ actList b.st := mem_actList.mpr ⟨hlt, (notFilt_iff hlt).mpr (by rw [hst]; exact hf)⟩
  obtain ⟨j, hj⟩ := List.getElem?_of_mem hm
  exact ⟨j, hj, by rw [active_getElem? hwf hj]; exact f1⟩

/-! ## the `.write` event is silent -/

/-- the `.write` of the active records of a batch in flight to the first destination ahead: no
duplicate tag, roots in order -/
theorem write_silentS {G : Ctx} (hs : Src G) {s : PS} {b : Batch} {d : Nat} {sub : List Nat} {sm : List Nat}
    {rs : List (Option Nat)} (hwf : b.WF s.heap) (hvb : VB b rs) (hm : SrcMap G s.heap b sm)
    (hfront : ∀ q : Nat, sm[0]? = some q → nAcked s = q) (haf : FlagsAF b)
    (htags : TagsF G s (d :: sub) b 0) (hbelow : WBelowS G s (d :: sub)) :
    dupW (G.mu s) d b.active = false ∧ Mon.step.mono (lastRootW (G.mu s) d b.active) b.active = true := by
  have hprev : ∀ e ∈ prevW (G.mu s) d b.active, ∀ r ∈ b.active, e.2.1 ≤ root r ∧ e.2.2.1 ≠ r.tag := by
    intro e he r hr
    unfold prevW at he
    rw [List.mem_filter] at he
    obtain ⟨hmem, hc⟩ := he
    simp only [Bool.and_eq_true, beq_iff_eq] at hc
    have hed : e.1 ∈ d :: sub := by rw [hc.1]; exact List.mem_cons_self
    obtain ⟨i, src0, hi, hsrc0, hroot0⟩ := hbelow e hmem hed
    obtain ⟨j, hj⟩ := List.getElem?_of_mem hr
    obtain ⟨p, row, hp, hrow, hrr, hnf⟩ := active_row hwf hvb hj
    obtain ⟨q, src, hq, hsrc, _, hroot⟩ := hm.src hrow
    obtain ⟨_, f2, _, _⟩ := rows_fields hvb hrow
    have hack : row.st.flag = .ack := by
      rcases haf p _ f2 with h1 | h1
      · exact h1
      · exact absurd h1 hnf
    constructor
    · have h0 : 0 < sm.length := by
        have := (List.getElem?_eq_some_iff.mp hq).1
        omega
      have hq0 : sm[0]? = some sm[0] := List.getElem?_eq_getElem h0
      have hn := hfront _ hq0
      have hle := hm.mono (Nat.zero_le p) hq0 hq
      rw [← hrr, hroot, ← hroot0]
      rcases Nat.lt_or_eq_of_le (by omega : i ≤ q) with hlt | heq
      · exact Nat.le_of_lt (hs.root_lt hsrc0 hsrc hlt)
      · subst heq
        rw [hsrc0] at hsrc; cases hsrc
        exact Nat.le_refl _
    · have := htags.unw p row (Nat.zero_le _) hrow (Or.inl hack) e hmem hed
      rw [← hrr]; exact this
  constructor
  · apply not_true_false
    intro hd
    unfold dupW at hd
    simp only [List.any_eq_true, beq_iff_eq] at hd
    obtain ⟨r, hr, e, he, heq⟩ := hd
    exact (hprev e he r hr).2 heq
  · apply mono_of_sorted
    · intro r hr
      unfold lastRootW
      cases hl : (prevW (G.mu s) d b.active).getLast? with
      | none => simp
      | some e =>
        have := (hprev e (List.mem_of_getLast? hl) r hr).1
        simp only [Option.map_some, Option.getD_some]
        omega
    · intro i j a c hij ha hc
      obtain ⟨p, row, hp, hrow, hrr, _⟩ := active_row hwf hvb ha
      obtain ⟨p', row', hp', hrow', hrr', _⟩ := active_row hwf hvb hc
      have hpw := List.pairwise_iff_getElem.mp (actList_pairwise b.st)
      obtain ⟨hi1, hi2⟩ := List.getElem?_eq_some_iff.mp hp
      obtain ⟨hj1, hj2⟩ := List.getElem?_eq_some_iff.mp hp'
      have := hpw i j hi1 hj1 hij
      rw [hi2, hj2] at this
      rw [← hrr, ← hrr']
      exact hm.root_le hs (Nat.le_of_lt this) hrow hrow'

/-! ## the effect of the task on state, monitor and rows -/

/-- how a row changes: only the status, which stays or becomes a nack -/
def RowUpd (row row' : Row) : Prop :=
  row'.r = row.r ∧ row'.pos = row.pos ∧ row'.run = row.run ∧ (row'.st = row.st ∨ row'.st.flag = .nack)

/-- what `DestinationTask.Do` on `d` does, in terms of rows: the heap, the acknowledged prefix and
the tags seen stay; the monitor gets one `written` entry per unfiltered row, confirmed unless the row
is flagged nack afterwards; the rows only change their status -/
structure DestEff (G : Ctx) (s s' : PS) (d : Nat) (b b1 : Batch) : Prop where
  heap : s'.heap = s.heap
  nacked : nAcked s' = nAcked s
  seen : Seen G s' = Seen G s
  err : (G.mu s').errored = (G.mu s).errored
  fil : (G.mu s').filtered = (G.mu s).filtered
  any : (G.mu s').dlqAny = (G.mu s).dlqAny
  ok : (G.mu s').dlqOk = (G.mu s).dlqOk
  view : b1.view = b.view
  split : b1.split = b.split
  len : b1.rows.length = b.rows.length
  rows1 : ∀ (p : Nat) (row' : Row), b1.rows[p]? = some row' → ∃ row, b.rows[p]? = some row ∧ RowUpd row row'
  wr_old : ∀ e ∈ (G.mu s).written, e ∈ (G.mu s').written
  wr_new : ∀ e ∈ (G.mu s').written, e ∈ (G.mu s).written ∨
    ∃ (p : Nat) (row row' : Row), b.rows[p]? = some row ∧ b1.rows[p]? = some row' ∧ row.st.flag = .ack ∧
      e.1 = d ∧ e.2.1 = root row.r ∧ e.2.2.1 = row.r.tag ∧ (e.2.2.2 = true ∨ row'.st.flag = .nack)
  wr_row : ∀ (p : Nat) (row : Row), b.rows[p]? = some row → row.st.flag = .ack →
    ∃ e ∈ (G.mu s').written, e.1 = d ∧ e.2.1 = root row.r

theorem DestEff.rows0 {G : Ctx} {s s' : PS} {d : Nat} {b b1 : Batch} (he : DestEff G s s' d b b1) {p : Nat} {row : Row}
    (hp : b.rows[p]? = some row) : ∃ row', b1.rows[p]? = some row' ∧ RowUpd row row' := by
  have hlt : p < b1.rows.length := by rw [he.len]; exact (List.getElem?_eq_some_iff.mp hp).1
  have h1 : b1.rows[p]? = some b1.rows[p] := List.getElem?_eq_getElem hlt
  obtain ⟨row0, h2, h3⟩ := he.rows1 p _ h1
  rw [hp] at h2; cases h2
  exact ⟨_, h1, h3⟩

theorem destDo_eff {G : Ctx} (hs : Src G) {s s' : PS} {r : Except Stop Batch} {b : Batch} {d : Nat}
    {pre sub : List Nat} {rest : Nat → Nat} {doom : Nat → Prop} {nx : Nat} {sm : List Nat} {rs : List (Option Nat)}
    (hF : Flight G s pre pre True (d :: sub) rest doom nx b sm 0) (hvb : VB b rs) (haf : FlagsAF b)
    (h : exec (destDo d b none) s = (r, s')) :
    (G.mu s').tv = [] ∧
    ∀ b1, r = .ok b1 → GInv G s' ∧ DestEff G s s' d b b1 ∧ VB b1 rs ∧ (TaintC b → TaintC b1) ∧
      (∀ (q : Nat) (st st' : Status), b.st[q]? = some st → b1.st[q]? = some st' → st' = st ∨ st'.flag = .nack) ∧
      b1.st.length = b.st.length := by
  have hI := hF.ginv
  have hwf := hF.tinv.wf
  rw [destDo_shape] at h
  have hr : destDoP b (destReply (nextReply s.scripts d)).1 (destReply (nextReply s.scripts d)).2 = r :=
    (Prod.mk.inj h).1
  have hs' := (Prod.mk.inj h).2
  have hlog : s'.log = s.log.push (.write d b.active) := by rw [← hs']
  have hscr : s'.scripts = popScripts s.scripts d := by rw [← hs']
  have hheap : s'.heap = s.heap := by rw [← hs']
  clear h hs'
  have hmu : G.mu s' = writeT G.scripts (G.mu s) d b.active := mu_push G s s' _ hlog
  obtain ⟨hdup, hmono⟩ := write_silentS hs hwf hvb hF.srcmap hF.front haf hF.tags hF.below
  have hn : nAcked s' = nAcked s := nAcked_push_write s s' d b.active hlog
  have htv : (G.mu s').tv = [] := by
    rw [hmu]
    simp only [writeT, hdup, hmono, if_true, if_false, Bool.false_eq_true, List.append_nil]
    exact hI.safe
  have hwr : (G.mu s').written = (G.mu s).written ++ entriesW G.scripts d (callNoL (G.mu s).calls d) b.active := by
    rw [hmu]; rfl
  have herr : (G.mu s').errored = (G.mu s).errored := by rw [hmu]; rfl
  have hfil : (G.mu s').filtered = (G.mu s).filtered := by rw [hmu]; rfl
  have hany : (G.mu s').dlqAny = (G.mu s).dlqAny := by rw [hmu]; rfl
  have hok : (G.mu s').dlqOk = (G.mu s).dlqOk := by rw [hmu]; rfl
  refine ⟨htv, ?_⟩
  intro b1 hb1
  rw [hb1] at hr
  obtain ⟨hw, all, hlen, hloop, hrecs, hpos, hruns, hsplit, hstlen, hwf1, hnack, hold, hfilt, htaint⟩ :=
    destDoP_effS hwf _ _ hr
  have hrep : replyOfCall G.scripts d (callNoL (G.mu s).calls d) =
      some (.dest none (destReply (nextReply s.scripts d)).2) := by
    rw [← hI.sc.nextReply d]; exact destReply_none hw
  have hconf : ∀ j : Nat, confirmed G.scripts d (callNoL (G.mu s).calls d) j (b.active.map (·.pos)) =
      ((all.map (·.2.isNone))[j]?).getD false := by
    intro j
    unfold confirmed
    rw [hrep]
    simp only []
    rw [hloop]
  have hnAct : b.active.length = all.length := by rw [hlen]; exact active_length hwf.1.st_len hwf.2
  have hvb1 : VB b1 rs :=
    ⟨by rw [hruns]; exact hvb.runs, by rw [hrecs]; exact hvb.rlen, by rw [hstlen, hrecs]; exact hvb.slen,
     by rw [hpos, hrecs]; exact hvb.plen, by rw [hpos]; exact hvb.nopos⟩
  -- the rows
  have hrows1 : ∀ (p : Nat) (row' : Row), b1.rows[p]? = some row' → ∃ row, b.rows[p]? = some row ∧ RowUpd row row' := by
    intro p row' hp
    obtain ⟨f1, f2, f3, f4⟩ := rows_fields hvb1 hp
    have hlt : p < b.st.length := by rw [← hstlen]; exact (List.getElem?_eq_some_iff.mp f2).1
    have g2 : b.st[p]? = some b.st[p] := List.getElem?_eq_getElem hlt
    rw [hrecs] at f1
    rw [hpos] at f3
    refine ⟨_, rows_of_fields hvb f1 g2 f3 f4, rfl, rfl, rfl, ?_⟩
    exact hold p _ _ g2 f2
  have hrlen : b1.rows.length = b.rows.length := by rw [rows_length, rows_length, hrecs]
  -- the new entries
  have hnew : ∀ e ∈ entriesW G.scripts d (callNoL (G.mu s).calls d) b.active,
      ∃ (p : Nat) (row row' : Row), b.rows[p]? = some row ∧ b1.rows[p]? = some row' ∧ row.st.flag = .ack ∧
        e.1 = d ∧ e.2.1 = root row.r ∧ e.2.2.1 = row.r.tag ∧ (e.2.2.2 = true ∨ row'.st.flag = .nack) := by
    intro e he
    obtain ⟨j, r, hj, rfl⟩ := mem_entriesW.mp he
    obtain ⟨p, row, hp, hrow, hrr, hnf⟩ := active_row hwf hvb hj
    obtain ⟨_, f2, _, _⟩ := rows_fields hvb hrow
    have hack : row.st.flag = .ack := by
      rcases haf p _ f2 with h1 | h1
      · exact h1
      · exact absurd h1 hnf
    have hjl : j < all.length := by rw [← hnAct]; exact (List.getElem?_eq_some_iff.mp hj).1
    have hlt1 : p < b1.rows.length := by rw [hrlen]; exact (List.getElem?_eq_some_iff.mp hrow).1
    have hrow1 : b1.rows[p]? = some b1.rows[p] := List.getElem?_eq_getElem hlt1
    refine ⟨p, row, _, hrow, hrow1, hack, rfl, by rw [hrr], by rw [hrr], ?_⟩
    show confirmed _ _ _ _ _ = true ∨ _
    rw [hconf j]
    have haj : all[j]? = some all[j] := List.getElem?_eq_getElem hjl
    cases hae : (all[j]).2 with
    | none => left; simp [hjl, hae]
    | some er =>
      right
      obtain ⟨st', hst', hfl⟩ := hnack j p _ hp haj (by rw [hae]; rfl)
      obtain ⟨_, g2, _, _⟩ := rows_fields hvb1 hrow1
      rw [hst'] at g2
      rw [← Option.some.inj g2]; exact hfl
  have heff : DestEff G s s' d b b1 := by
    refine ⟨hheap, hn, Seen.push_other _ hlog (fun _ _ hh => Ev.noConfusion hh), herr, hfil, hany, hok, ?_, hsplit, hrlen,
      hrows1, ?_, ?_, ?_⟩
    · unfold Batch.view; rw [hruns, hpos]
    · intro e he; rw [hwr]; exact List.mem_append_left _ he
    · intro e he
      rw [hwr, List.mem_append] at he
      rcases he with he | he
      · exact Or.inl he
      · exact Or.inr (hnew e he)
    · intro p row hrow hack
      obtain ⟨j, hj, haj⟩ := row_active hwf hvb hrow (by rw [hack]; exact fun hh => Flag.noConfusion hh)
      exact ⟨_, by rw [hwr]; exact List.mem_append_right _ (mem_entriesW.mpr ⟨j, _, haj, rfl⟩), rfl, rfl⟩
  have hginv : GInv G s' := by
    refine ⟨htv, hI.sc.event (.write d b.active) d rfl hlog hscr, ?_, ?_, ?_, ?_⟩
    · rw [hn, ← hI.acked, hlog, ackedKeys_push]
      simp [evKeys]
    · intro x hx
      rw [hany] at hx
      rw [hn]; exact hI.dlqAny x hx
    · intro x hx
      rw [hok] at hx
      rw [hn]; exact hI.dlqOk x hx
    · intro e he
      rw [hwr, List.mem_append] at he
      rcases he with he | he
      · exact hI.wr e he
      · obtain ⟨j, r, hj, rfl⟩ := mem_entriesW.mp he
        rfl
  exact ⟨hginv, heff, hvb1, htaint, hold, hstlen⟩

theorem RowUpd.rowKey {row row' : Row} (hu : RowUpd row row') (h : Heap) : rowKey h row' = rowKey h row := by
  unfold Conduit.Funnel.rowKey; rw [hu.2.2.1, hu.2.1]

/-- a row whose record has the root of a run with a piece in the batch belongs to that run -/
theorem SrcMap.run_of_root {G : Ctx} {h : Heap} {b : Batch} {sm : List Nat} (hm : SrcMap G h b sm) (hs : Src G)
    (hl : HLin G h) {k p rid : Nat} {row0 row : Row} (hrid : rid < h.size) (h0 : b.rows[k]? = some row0)
    (hr0 : row0.run = some rid) (hp : b.rows[p]? = some row) (hroot : root row.r = root (h[rid]!).origRec) :
    row.run = some rid := by
  obtain ⟨q0, src0, a1, a2, _, _⟩ := hm.src h0
  obtain ⟨q, src, b1, b2, _, b4⟩ := hm.src hp
  have h1 := hm.run_src hs hl hrid a1 h0 hr0 a2
  have hq : q = q0 := hs.idx_of_root b2 a2 (by rw [← b4, hroot, h1])
  subst hq
  by_cases hkp : k = p
  · subst hkp
    rw [h0] at hp; cases hp
    exact hr0
  · obtain ⟨rid', r1, r2⟩ := hm.same_run hkp a1 b1 h0 hp
    rw [hr0] at r1; cases r1
    exact r2

/-- a run with a piece in the batch: a row of the run, and the run is allocated -/
theorem cnt_pos_row {h : Heap} {b : Batch} {rs : List (Option Nat)} (hwf : b.WF h) (hvb : VB b rs) {rid : Nat}
    (hc : 0 < cnt rid b.view) : rid < h.size ∧ ∃ (k : Nat) (row : Row), b.rows[k]? = some row ∧ row.run = some rid := by
  constructor
  · apply Classical.byContradiction
    intro hn
    have := cnt_zero_of_ge hwf (Nat.le_of_not_lt hn)
    omega
  · unfold cnt at hc
    obtain ⟨x, hx, hx1⟩ := List.countP_pos_iff.mp hc
    obtain ⟨k, hk⟩ := List.getElem?_of_mem hx
    obtain ⟨row, hrow, hrun, _⟩ := view_rows hvb hk
    exact ⟨k, row, hrow, by rw [hrun]; simpa using hx1⟩

theorem getLast?_rows {l : List Row} {row : Row} : l.getLast? = some row ↔ l[l.length - 1]? = some row := by
  rw [List.getLast?_eq_getElem?]

/-! ## the batch is in flight again -/

theorem flight_of_eff {G : Ctx} (hs : Src G) {s s' : PS} {b b1 : Batch} {d : Nat}
    {pre sub : List Nat} {rest : Nat → Nat} {doom : Nat → Prop} {nx : Nat} {sm : List Nat} {rs : List (Option Nat)}
    (hF : Flight G s pre pre True (d :: sub) rest doom nx b sm 0) (hd : d ∉ sub) (haf : FlagsAF b)
    (hvb : VB b rs) (he : DestEff G s s' d b b1) (hg : GInv G s') (ht : TInv s'.heap rest b1 0) :
    Flight G s' pre (pre ++ [d]) False sub rest doom nx b1 sm 0 := by
  have hm := hF.srcmap
  have hwf := hF.tinv.wf
  have haf' : ∀ (p : Nat) (row : Row), b.rows[p]? = some row → row.st.flag = .ack ∨ row.st.flag = .filter := by
    intro p row hp
    obtain ⟨_, f2, _, _⟩ := rows_fields hvb hp
    exact haf p _ f2
  have hnn : ∀ (p : Nat) (row : Row), b.rows[p]? = some row → row.st.flag ≠ .nack := by
    intro p row hp hfl
    rcases haf' p row hp with h2 | h2 <;> rw [hfl] at h2 <;> cases h2
  -- a status that is not a nack is the old status
  have hsame : ∀ {row row' : Row}, RowUpd row row' → row'.st.flag ≠ .nack → row'.st = row.st := by
    intro row row' hu hn
    rcases hu.2.2.2 with h1 | h1
    · exact h1
    · exact absurd h1 hn
  refine
    { ginv := hg, wseen := ?_, tinv := ht, srcmap := ⟨by rw [he.len]; exact hm.len, hm.step, ?_, ?_⟩, front := ?_,
      nextok := ?_, restlast := ?_, hdoom := hF.hdoom, hlin := by rw [he.heap]; exact hF.hlin, htouch := ?_, ci := ?_,
      splitlin := ?_, nosplit := ?_, facts := ⟨?_, ?_, ?_, ?_⟩, tags := ⟨?_, ?_, ?_⟩, below := ?_ }
  · -- wseen
    intro e hm'
    rw [he.seen]
    rcases he.wr_new e hm' with old | ⟨p, row, row', hrow, _, _, _, _, htag, _⟩
    · exact hF.wseen e old
    · rw [htag]; exact hF.tags.seen p row (Nat.zero_le _) hrow
  · -- srcmap.key
    intro k row' q hk hq
    obtain ⟨row, hrow, hu⟩ := he.rows1 k row' hk
    obtain ⟨src, a1, a2, a3⟩ := hm.key k row q hrow hq
    exact ⟨src, a1, by rw [he.heap, hu.rowKey]; exact a2, by rw [hu.1]; exact a3⟩
  · -- srcmap.same
    intro k row row' q h1 h2 h3 h4
    obtain ⟨r1, g1, u1⟩ := he.rows1 k row h1
    obtain ⟨r2, g2, u2⟩ := he.rows1 (k + 1) row' h2
    obtain ⟨rid, x1, x2⟩ := hm.same k r1 r2 q g1 g2 h3 h4
    exact ⟨rid, by rw [u1.2.2.1]; exact x1, by rw [u2.2.2.1]; exact x2⟩
  · -- front
    intro q hq
    rw [he.nacked]; exact hF.front q hq
  · -- nextok
    intro row' q hl hq
    rw [getLast?_rows, he.len] at hl
    obtain ⟨row, hrow, hu⟩ := he.rows1 _ row' hl
    have := hF.nextok row q (getLast?_rows.mpr hrow) hq
    rw [hu.2.2.1]; exact this
  · -- restlast
    intro rid hr hc
    rw [he.view] at hc
    obtain ⟨row, hl, hrun⟩ := hF.restlast rid hr hc
    rw [getLast?_rows] at hl
    obtain ⟨row', hrow', hu⟩ := he.rows0 hl
    rw [← he.len] at hrow'
    exact ⟨row', getLast?_rows.mpr hrow', by rw [hu.2.2.1]; exact hrun⟩
  · -- htouch
    rw [he.heap]
    intro rid h1 h2 h3 d' hd'
    rcases hF.htouch rid h1 h2 h3 d' hd' with ⟨e, hm', a, c⟩ | hf
    · exact Or.inl ⟨e, he.wr_old e hm', a, c⟩
    · exact Or.inr (by rw [he.fil]; exact hf)
  · -- ci
    rw [he.heap]
    intro rid hc hncl
    rw [List.drop_zero, he.view] at hc
    obtain ⟨hrid, k0, row0, hrow0, hrun0⟩ := cnt_pos_row hwf hvb hc
    apply Classical.byContradiction
    intro hno
    apply hncl
    have hcl : Clean (G.mu s) (root (s.heap[rid]!).origRec) := by
      apply Classical.byContradiction
      intro hn
      rcases hF.ci rid (by rw [List.drop_zero]; exact hc) hn with h1 | h1 | ⟨k, row, _, hrow, _, hfl⟩
      · exact hno (Or.inl h1)
      · exact hno (Or.inr (Or.inl h1))
      · exact hnn k row hrow hfl
    refine ⟨by rw [he.err]; exact hcl.1, ?_⟩
    intro e hm' hroot
    rcases he.wr_new e hm' with old | ⟨p, row, row', hrow, hrow', _, _, hr, _, hc2⟩
    · exact hcl.2 e old hroot
    · rcases hc2 with hc2 | hc2
      · exact hc2
      · exfalso
        apply hno
        right; right
        obtain ⟨row2, g1, hu⟩ := he.rows1 p row' hrow'
        rw [hrow] at g1; cases g1
        have := hm.run_of_root hs hF.hlin hrid hrow0 hrun0 hrow (by rw [← hr, hroot])
        exact ⟨p, row', Nat.zero_le _, hrow', by rw [hu.2.2.1]; exact this, hc2⟩
  · -- splitlin
    unfold SplitLin; rw [he.split]; exact hF.splitlin
  · -- nosplit
    intro k row' hk hrun
    obtain ⟨row, hrow, hu⟩ := he.rows1 k row' hk
    rw [he.split, hu.2.1]
    exact hF.nosplit k row hrow (by rw [← hu.2.2.1]; exact hrun)
  · -- facts.ack
    intro k row' q src _ hk hq hsrc hfl
    obtain ⟨row, hrow, hu⟩ := he.rows1 k row' hk
    have hst := hsame hu (by rw [hfl]; exact fun hh => Flag.noConfusion hh)
    have hack : row.st.flag = .ack := by rw [← hst]; exact hfl
    have hold := hF.facts.ack k row q src (Nat.zero_le _) hrow hq hsrc hack
    obtain ⟨src2, a1, _, a3⟩ := hm.key k row q hrow hq
    rw [hsrc] at a1; cases a1
    intro d' hd'
    rw [List.mem_append] at hd'
    rcases hd' with hd' | hd'
    · obtain ⟨e, hm', x1, x2⟩ := hold d' hd'
      exact ⟨e, he.wr_old e hm', x1, x2⟩
    · have hdd : d' = d := by simpa using hd'
      subst hdd
      obtain ⟨e, hm', x1, x2⟩ := he.wr_row k row hrow hack
      exact ⟨e, hm', x1, by rw [x2, a3]⟩
  · -- facts.fil
    intro k row' q src _ hk hq hsrc hfl
    obtain ⟨row, hrow, hu⟩ := he.rows1 k row' hk
    have hst := hsame hu (by rw [hfl]; exact fun hh => Flag.noConfusion hh)
    rw [he.fil]
    exact hF.facts.fil k row q src (Nat.zero_le _) hrow hq hsrc (by rw [← hst]; exact hfl)
  · -- facts.retry
    intro k row' q src _ hk hq hsrc hfl
    obtain ⟨row, hrow, hu⟩ := he.rows1 k row' hk
    have hst := hsame hu (by rw [hfl]; exact fun hh => Flag.noConfusion hh)
    rw [hst] at hfl
    rcases haf' k row hrow with h2 | h2 <;> rw [hfl] at h2 <;> cases h2
  · -- facts.clean
    intro k row' q src _ hk hq hsrc hrun hnack
    obtain ⟨row, hrow, hu⟩ := he.rows1 k row' hk
    have hrun0 : row.run = none := by rw [← hu.2.2.1]; exact hrun
    have hcl := hF.facts.clean k row q src (Nat.zero_le _) hrow hq hsrc hrun0 (hnn k row hrow)
    refine ⟨by rw [he.err]; exact hcl.1, ?_⟩
    intro e hm' hroot
    rcases he.wr_new e hm' with old | ⟨p, rowp, rowp', hrowp, hrowp', _, _, hr, _, hc2⟩
    · exact hcl.2 e old hroot
    · obtain ⟨qp, srcp, b1', b2, _, b4⟩ := hm.src hrowp
      have hqq : qp = q := hs.idx_of_root b2 hsrc (by rw [← b4, ← hr, hroot])
      subst hqq
      have hkp : k = p := hm.own_src hrun0 hq b1' hrow
      subst hkp
      rw [hk] at hrowp'; cases hrowp'
      rcases hc2 with hc2 | hc2
      · exact hc2
      · exact absurd hc2 hnack
  · -- tags.nodup
    have : b1.rows.map (·.r.tag) = b.rows.map (·.r.tag) := by
      apply List.ext_getElem?
      intro k
      rw [List.getElem?_map, List.getElem?_map]
      cases h1 : b1.rows[k]? with
      | none =>
        have : b.rows[k]? = none := by
          rw [List.getElem?_eq_none_iff] at h1 ⊢
          rw [← he.len]; exact h1
        rw [this]
      | some row' =>
        obtain ⟨row, hrow, hu⟩ := he.rows1 k row' h1
        rw [hrow]
        simp only [Option.map_some]
        rw [hu.1]
    rw [this]; exact hF.tags.nodup
  · -- tags.seen
    intro k row' _ hk
    obtain ⟨row, hrow, hu⟩ := he.rows1 k row' hk
    rw [he.seen, hu.1]
    exact hF.tags.seen k row (Nat.zero_le _) hrow
  · -- tags.unw
    intro k row' _ hk hfl
    obtain ⟨row, hrow, hu⟩ := he.rows1 k row' hk
    have hst := hsame hu (by rcases hfl with h1 | h1 <;> rw [h1] <;> exact fun hh => Flag.noConfusion hh)
    rw [hst] at hfl
    have hold := hF.tags.unw k row (Nat.zero_le _) hrow hfl
    intro e hm' hsub
    rw [hu.1]
    rcases he.wr_new e hm' with old | ⟨_, _, _, _, _, _, hed, _, _, _⟩
    · exact hold e old (List.mem_cons_of_mem _ hsub)
    · rw [hed] at hsub; exact absurd hsub hd
  · -- below
    intro e hm' hsub
    rw [he.nacked]
    rcases he.wr_new e hm' with old | ⟨_, _, _, _, _, _, hed, _, _, _⟩
    · exact hF.below e old (List.mem_cons_of_mem _ hsub)
    · rw [hed] at hsub; exact absurd hsub hd

/-! ## the frame of the step -/

theorem stepRel_of_eff {G : Ctx} {s s' : PS} {b b1 : Batch} {d : Nat} {sm : List Nat}
    (hm : SrcMap G s.heap b sm) (he : DestEff G s s' d b b1) : StepRel G s b sm s' b1 sm := by
  refine
    { nacked := he.nacked, ext := ?_, roots := fun _ h => h, empty := Iff.rfl, tagsub := ?_, wtag := ?_, seen := ?_,
      hsize := by rw [he.heap]; exact Nat.le_refl _, hframe := ?_, horig := ?_,
      mono := fun rid => by rw [he.view]; exact Nat.le_refl _ }
  · refine ⟨?_, ?_, ?_, ?_, ?_, ?_, ?_, ?_, ?_, ?_⟩ <;> intro x hx
    · rw [he.fil]; exact hx
    · rw [he.fil] at hx; exact Or.inl hx
    · rw [he.err]; exact hx
    · rw [he.err] at hx; exact Or.inl hx
    · exact he.wr_old x hx
    · rcases he.wr_new x hx with old | ⟨p, row, _, hrow, _, _, _, hr, _, _⟩
      · exact Or.inl old
      · obtain ⟨q, src, a1, a2, _, a4⟩ := hm.src hrow
        exact Or.inr ⟨p, q, src, Nat.zero_le _, a1, a2, by rw [hr, a4]⟩
    · rw [he.any]; exact hx
    · rw [he.any] at hx; exact Or.inl hx
    · rw [he.ok]; exact hx
    · rw [he.ok] at hx; exact Or.inl hx
  · intro row' hmem
    obtain ⟨k, hk⟩ := List.getElem?_of_mem hmem
    obtain ⟨row, hrow, hu⟩ := he.rows1 k row' hk
    exact Or.inl ⟨row, List.mem_of_getElem? hrow, by rw [hu.1]⟩
  · intro e hm'
    rcases he.wr_new e hm' with old | ⟨p, row, _, hrow, _, _, _, _, htag, _⟩
    · exact Or.inl old
    · exact Or.inr ⟨row, List.mem_of_getElem? hrow, htag.symm⟩
  · intro x hx; rw [he.seen]; exact hx
  · intro rid _ hc
    exact ⟨by rw [he.heap], by rw [he.view]; exact hc⟩
  · intro rid _
    rw [he.heap]; exact ⟨rfl, rfl⟩

/-! ## the theorem -/

/-- A destination task `d` on a batch in flight (`Flight`, with `d` the first destination ahead): the
`.write` event never makes the monitor fire (no duplicate tag, roots in order); when the task returns
a batch, the batch is in flight again with `d` among the destinations passed, and the step is
framed by `StepRel`. -/
theorem destDo_monS {G : Ctx} (hs : Src G) {s s' : PS} {r : Except Stop Batch} {b : Batch} {d : Nat}
    {pre sub : List Nat} {rest : Nat → Nat} {doom : Nat → Prop} {nx : Nat} {sm : List Nat}
    (hF : Flight G s pre pre True (d :: sub) rest doom nx b sm 0) (hd : d ∉ sub)
    (hcl : b.tainted = false) (haf : FlagsAF b)
    (h : exec (destDo d b none) s = (r, s')) :
    (G.mu s').tv = [] ∧
    ∀ b1, r = .ok b1 →
      Flight G s' pre (pre ++ [d]) False sub rest doom nx b1 sm 0 ∧ StepRel G s b sm s' b1 sm ∧
      (b1.tainted = false → FlagsAF b1) := by
  have _ := hcl
  obtain ⟨rs, hvb⟩ := hF.tinv.vb
  obtain ⟨htv, hrest⟩ := destDo_eff hs hF hvb haf h
  refine ⟨htv, ?_⟩
  intro b1 hb1
  obtain ⟨hg, he, _, htaint, hold, hstlen⟩ := hrest b1 hb1
  have hstep := (destDo_sspec d b s s' r rest hF.tinv.sinv h).2 b1 hb1
  refine ⟨flight_of_eff hs hF hd haf hvb he hg hstep.inv.tinv, stepRel_of_eff hF.srcmap he, ?_⟩
  intro ht q st' hq
  have htc : TaintC b := by
    intro st hst hfl
    obtain ⟨k, hk⟩ := List.getElem?_of_mem hst
    rcases haf k st hk with h1 | h1 <;> rcases hfl with h2 | h2 <;> rw [h1] at h2 <;> cases h2
  have htc1 := htaint htc
  have hlt : q < b.st.length := by rw [← hstlen]; exact (List.getElem?_eq_some_iff.mp hq).1
  have hbq : b.st[q]? = some b.st[q] := List.getElem?_eq_getElem hlt
  rcases hold q _ st' hbq hq with h1 | h1
  · rw [h1]; exact haf q _ hbq
  · have := htc1 st' (List.mem_of_getElem? hq) (Or.inl h1)
    rw [ht] at this; cases this

end Conduit.Funnel
