import ConduitModel.Proofs.MonSRows
import ConduitModel.Proofs.MonDestEffect

/-!
# Effect of `DestinationTask.Do` (pure core `destDoP`) on a batch that may carry split records

As `destDoP_effect`, but a nack spreads over the unfiltered pieces of a split record: a rejected
record is flagged nack, any other status is unchanged or flagged nack, filtered records are
untouched (`Weak`).
-/
namespace Conduit.Funnel

/-- without a rejected record `markBatchRecords` does nothing -/
theorem destMarkLoop_noerr (from_ : Nat) (acks : List (PosV × Option Err)) (hno : acks.any (·.2.isSome) = false) :
    ∀ (n : Nat) (b b' : Batch), (List.range n).reverse.foldlM (destMarkStep from_ acks) b = .ok b' → b' = b := by
  intro n
  induction n with
  | zero => intro b b' h; cases h; rfl
  | succ n ih =>
    intro b b' h
    rw [List.range_succ, List.reverse_append] at h
    simp only [List.reverse_cons, List.reverse_nil, List.nil_append, List.cons_append, List.foldlM_cons] at h
    obtain ⟨b1, h1, h2⟩ := bind_ok h
    have : b1 = b := by
      unfold destMarkStep at h1
      cases ha : acks[n]? with
      | none => rw [ha] at h1; cases h1; rfl
      | some a =>
        obtain ⟨ap, ae⟩ := a
        cases ae with
        | none => rw [ha] at h1; cases h1; rfl
        | some e =>
          have := List.any_eq_false.mp hno (ap, some e) (List.mem_of_getElem? ha)
          simp at this
    rw [ih _ _ h2, this]

theorem destMark_noerr {b b' : Batch} {from_ : Nat} {acks : List (PosV × Option Err)}
    (hno : acks.any (·.2.isSome) = false) (h : destMark b from_ acks = .ok b') : b' = b := by
  rw [destMark_eq_model] at h
  exact destMarkLoop_noerr from_ acks hno _ b b' h

/-- the ack loop keeps "a nack / retry flag implies tainted" -/
theorem destAckLoop_taintC (positions : List PosV) :
    ∀ (fuel : Nat) (b : Batch) (c : Nat) (resps : List AckResp) (b' : Batch) (n : Nat),
      destAckLoop positions fuel b c resps = .ok (b', n) → TaintC b → TaintC b' := by
  intro fuel
  induction fuel with
  | zero => intro b c resps b' n hr; unfold destAckLoop at hr; cases hr; exact id
  | succ fuel ih =>
    intro b c resps b' n hr htc
    unfold destAckLoop at hr
    cases resps with
    | nil => cases hr
    | cons r rest =>
      cases r with
      | err e => cases hr
      | acks acks =>
        simp only at hr
        by_cases hv : validateAcks acks (positions.drop c) = true
        · simp only [hv, Bool.not_true, Bool.false_eq_true, if_false] at hr
          obtain ⟨b1, e1, hr⟩ := bind_ok hr
          have htc1 : TaintC b1 := by
            cases hno : acks.any (·.2.isSome) with
            | false => rw [destMark_noerr hno e1]; exact htc
            | true =>
              have := destMark_tainted e1
              rw [hno, Bool.or_true] at this
              exact fun _ _ _ => this
          by_cases hge : c + acks.length ≥ positions.length
          · simp only [hge, if_true] at hr
            cases hr
            exact htc1
          · simp only [hge, if_false] at hr
            exact ih b1 _ rest b' n hr htc1
        · simp only [hv, Bool.not_false, if_true] at hr
          cases hr

theorem destDoP_taintC {b b' : Batch} {werr : Option Err} {resps : List AckResp} (hr : destDoP b werr resps = .ok b')
    (htc : TaintC b) : TaintC b' := by
  unfold destDoP at hr
  cases werr with
  | some e => cases hr
  | none =>
    simp only at hr
    obtain ⟨⟨b1, n⟩, hl, e0⟩ := bind_ok hr
    simp only at e0
    by_cases hlt : n < (b.active.map (·.pos)).length
    · simp only [hlt, if_true] at e0; cases e0
    · simp only [hlt, if_false] at e0
      have : b1 = b' := by cases e0; rfl
      subst this
      exact destAckLoop_taintC _ _ b 0 resps b1 n hl htc

theorem destDoP_effS {h : Heap} {b : Batch} (hwf : b.WF h) (werr : Option Err)
    (resps : List AckResp) {b' : Batch} (hr : destDoP b werr resps = .ok b') :
    werr = none ∧ ∃ all : List (PosV × Option Err), all.length = b.nAct ∧
      Mon.confirmedLoop (b.active.map (·.pos)) (b.active.map (·.pos)).length 0 resps [] = all.map (·.2.isNone) ∧
      b'.recs = b.recs ∧ b'.pos = b.pos ∧ b'.runs = b.runs ∧ b'.split = b.split ∧ b'.st.length = b.st.length ∧ b'.WF h ∧
      (∀ (k p : Nat) (a : PosV × Option Err), (actList b.st)[k]? = some p → all[k]? = some a → a.2.isSome = true →
          ∃ st', b'.st[p]? = some st' ∧ st'.flag = .nack) ∧
      (∀ (q : Nat) (st st' : Status), b.st[q]? = some st → b'.st[q]? = some st' → st' = st ∨ st'.flag = .nack) ∧
      (∀ (q : Nat) (st : Status), b.st[q]? = some st → st.flag = .filter → b'.st[q]? = some st) ∧
      (TaintC b → TaintC b') := by
  have hact : b.active.length = b.nAct := active_length hwf.1.st_len hwf.2
  have hex : ∃ (b'' : Batch) (all : List (PosV × Option Err)), destDoP b werr resps = .ok b'' ∧ werr = none ∧
      all.length = b.nAct ∧
      AckPost h (b.active.map (·.pos)) resps b 0 b'' (b.active.map (·.pos)).length all := by
    rcases destDoP_total hwf werr resps with hx | ⟨e, e0⟩
    · exact hx
    · rw [e0] at hr; cases hr
  obtain ⟨b'', all, e0, hw, hlen, post⟩ := hex
  have htc := destDoP_taintC hr
  rw [e0] at hr
  cases hr
  subst hw
  refine ⟨rfl, all, hlen, ?_⟩
  unfold destDoP at e0
  simp only at e0
  obtain ⟨⟨b1, n⟩, hl, e0⟩ := bind_ok e0
  simp only at e0
  by_cases hlt : n < (b.active.map (·.pos)).length
  · simp only [hlt, if_true] at e0; cases e0
  simp only [hlt, if_false] at e0
  have hb1 : b1 = b' := by cases e0; rfl
  subst hb1
  obtain ⟨k, _, hk2, hk3, _⟩ := ackLoop_mon (b.active.map (·.pos)) _ b 0 resps [] b1 n hl (by omega)
  obtain ⟨k', _, hall⟩ := post.consumed
  have hL : (resps.take k).flatMap ackList = all := by
    rw [hall]
    apply flatMap_take_eq
    rw [← hall, hlen, ← hact]
    have hle : n ≤ (b.active.map (·.pos)).length := by
      rcases destAckLoop_total (b.active.map (·.pos)) (b.active.map (·.pos)).length hwf (by simp [hact]) 0
        (Nat.zero_le _) resps with ⟨b2, n2, all2, e2, post2⟩ | ⟨e, e2⟩
      · rw [hl] at e2; cases e2; exact post2.le
      · rw [hl] at e2; cases e2
    simp only [List.length_map] at hlt hle
    omega
  rw [hL] at hk3
  have W := post.mark.weak
  refine ⟨by simpa using hk3, post.mark.recs, post.mark.pos, post.mark.runs, post.mark.split, ?_, post.mark.wf, ?_, ?_, ?_, htc⟩
  · rw [post.mark.wf.1.st_len, hwf.1.st_len, post.mark.recs]
  · intro k p a hk ha hsome
    obtain ⟨ap, ae⟩ := a
    have hkl : k < all.length := (List.getElem?_eq_some_iff.mp ha).1
    cases ae with
    | none => cases hsome
    | some e => exact W.1 p e ⟨k, ap, hkl, by rw [Nat.zero_add]; exact hk, ha⟩
  · intro q st st' hst hst'
    by_cases he : b1.st[q]? = b.st[q]?
    · left; rw [hst, hst'] at he; exact Option.some.inj he
    · right
      obtain ⟨s, hs, hf⟩ := W.2.1 q he
      rw [hst'] at hs; cases hs; exact hf
  · exact W.2.2

end Conduit.Funnel
